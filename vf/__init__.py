"""Verification framework for jlumpe/gambit (Coq proofs + correspondence harness)."""
