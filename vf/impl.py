"""Access to the implementation under test: $VERIF_REPO/src imported in place."""
import os
import sys
import tempfile
import shutil
import atexit

REPO = os.environ.get('VERIF_REPO', '/repo')


def scratch_dir(prefix='gambit-verif-'):
	"""a scratch directory outside /repo and /verif, removed at exit"""
	base = os.environ.get('VERIF_SCRATCH') or '/var/tmp'
	os.makedirs(base, exist_ok=True)
	d = tempfile.mkdtemp(prefix=prefix, dir=base)
	atexit.register(shutil.rmtree, d, ignore_errors=True)
	return d


def check_import():
	import gambit
	here = os.path.realpath(os.path.dirname(gambit.__file__))
	want = os.path.realpath(os.path.join(os.environ.get('VERIF_IMPL_ROOT') or os.path.join(REPO, 'src'), 'gambit'))
	if here != want:
		raise RuntimeError(f'gambit imported from {here}, expected {want}')
	return gambit
