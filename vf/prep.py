"""Decide which source root the implementation is imported from (printed on stdout).

Normally $VERIF_REPO/src.  If a Cython-generated .c file is newer than its compiled .so (or
the .so is missing) the extension is rebuilt with gcc into a scratch overlay copy of the
package (outside /repo and /verif) and that overlay is used; a tree without any build
products (a fresh git worktree) borrows /repo's compiled extensions.  Never rebuilds
'blindly': an up-to-date .so is used as it is.  (.pyx -> .c cannot be redone in this
sandbox: Cython is not installed; the .pyx text is covered by the translator tie.)"""
import glob
import os
import shutil
import subprocess
import sys
import sysconfig
import tempfile

repo = os.environ.get('VERIF_REPO', '/repo')
src = os.path.join(repo, 'src')
cy = os.path.join(src, 'gambit', '_cython')
suffix = sysconfig.get_config_var('EXT_SUFFIX')
plan = []
for m in ('kmers', 'metric', 'threads'):
	so = os.path.join(cy, m + suffix)
	c = os.path.join(cy, m + '.c')
	if not os.path.exists(so):
		if os.path.exists(c):
			plan.append((m, 'build'))
		elif os.path.exists(os.path.join('/repo/src/gambit/_cython', m + suffix)):
			plan.append((m, 'copy'))
		else:
			print(f'prep: no compiled extension for {m}', file=sys.stderr)
			sys.exit(2)
	elif os.path.exists(c) and os.path.getmtime(c) > os.path.getmtime(so) + 1:
		plan.append((m, 'build'))
if not plan:
	print(src)
	sys.exit(0)
base = os.environ.get('VERIF_SCRATCH') or '/var/tmp'
os.makedirs(base, exist_ok=True)
overlay = tempfile.mkdtemp(prefix='gambit-verif-overlay-', dir=base)
shutil.copytree(os.path.join(src, 'gambit'), os.path.join(overlay, 'gambit'),
                ignore=shutil.ignore_patterns('__pycache__'))
import numpy
inc = [sysconfig.get_paths()['include'], numpy.get_include()]
for m, how in plan:
	dst = os.path.join(overlay, 'gambit', '_cython', m + suffix)
	if how == 'copy':
		shutil.copy2(os.path.join('/repo/src/gambit/_cython', m + suffix), dst)
	else:
		cmd = ['gcc', '-shared', '-fPIC', '-O2', '-fopenmp', '-Wno-sign-compare', '-w'] + \
		      [f'-I{i}' for i in inc] + [os.path.join(cy, m + '.c'), '-o', dst]
		p = subprocess.run(cmd, capture_output=True, text=True)
		if p.returncode != 0:
			print('prep: gcc failed for ' + m + ': ' + p.stderr[-400:], file=sys.stderr)
			shutil.rmtree(overlay, ignore_errors=True)
			sys.exit(2)
print(f'prep: using overlay {overlay} ({plan})', file=sys.stderr)
print(overlay)
