"""Build steps of a check run: regenerate Gen/*.v from the repository's .pyx files,
(re)build the Coq development, collect theorem status and assumptions, extract the
model and build the OCaml driver."""
import fcntl
import glob
import os
import re
import subprocess
import sys
import time

VERIF = os.path.dirname(os.path.dirname(os.path.abspath(__file__)))
COQ = os.path.join(VERIF, 'coq')
TH = os.path.join(COQ, 'theories')
OCAML = os.path.join(VERIF, 'ocaml')

#: axioms of the standard library that property theorems may depend on (DESIGN.md §3)
ALLOWED_AXIOMS = {
	'ClassicalDedekindReals.sig_not_dec',
	'ClassicalDedekindReals.sig_forall_dec',
	'FunctionalExtensionality.functional_extensionality_dep',
	'Classical_Prop.classic',
}

FORBIDDEN = re.compile(
	r'\b(Admitted|admit|Axiom|Axioms|Parameter|Parameters|Conjecture|Conjectures|Admit Obligations|'
	r'bypass_check|Unset Guard Checking|Unset Positivity Checking|Unset Universe Checking|'
	r'type-in-type|impredicative-set)\b')


class BuildError(Exception):
	"""The framework itself could not be built (tool-chain problem) -> exit 2."""


def sh(cmd, cwd=None, timeout=3600, env=None):
	p = subprocess.run(cmd, cwd=cwd, shell=isinstance(cmd, str), capture_output=True, text=True,
	                   timeout=timeout, env=env)
	return p.returncode, p.stdout, p.stderr


class Lock:
	def __enter__(self):
		self.f = open(os.path.join(VERIF, '.build.lock'), 'w')
		fcntl.flock(self.f, fcntl.LOCK_EX)
		return self

	def __exit__(self, *a):
		fcntl.flock(self.f, fcntl.LOCK_UN)
		self.f.close()


def v_files():
	out = []
	for d in ('Base', 'Gen', 'Spec', 'Model', 'Proofs', 'Props', 'Ties', 'Entry'):
		out += sorted(glob.glob(os.path.join(TH, d, '*.v')))
	return out


def write_if_changed(path, text):
	if os.path.exists(path) and open(path).read() == text:
		return False
	with open(path, 'w') as f:
		f.write(text)
	return True


def grep_gate():
	"""No Admitted / Axiom / ... anywhere in the development (comments are stripped)."""
	bad = []
	for f in v_files() + [os.path.join(TH, 'Extract.v')]:
		if not os.path.exists(f):
			continue
		text = open(f).read()
		# strip (nested) comments
		out, depth, i = [], 0, 0
		while i < len(text):
			if text.startswith('(*', i):
				depth += 1
				i += 2
			elif text.startswith('*)', i) and depth:
				depth -= 1
				i += 2
			else:
				if not depth:
					out.append(text[i])
				i += 1
		code = ''.join(out)
		for m in FORBIDDEN.finditer(code):
			bad.append(f'{os.path.relpath(f, VERIF)}: {m.group(0)}')
		# Variable / Hypothesis outside a section
		sect = 0
		for line in code.split('\n'):
			s = line.strip()
			if re.match(r'Section\s', s):
				sect += 1
			elif re.match(r'End\s', s) and sect:
				sect -= 1
			elif re.match(r'(Variable|Variables|Hypothesis|Hypotheses|Context)\b', s) and sect == 0:
				bad.append(f'{os.path.relpath(f, VERIF)}: {s.split()[0]} outside a section')
	return bad


def regenerate(repo):
	"""Run the translators on the repository's current sources.  Each translator writes one Gen/*.v per
	source group; when a group cannot be translated (fail closed) it writes a stub that does not compile,
	so that exactly the files depending on it lose their .vo (see prune_stale).
	Returns (ok, message)."""
	src = os.path.join(repo, 'src', 'gambit', '_cython')
	rc, out, err = sh([sys.executable, os.path.join(VERIF, 'tools', 'pyx2v.py'), src, os.path.join(TH, 'Gen')])
	rc2, out2, err2 = sh([sys.executable, os.path.join(VERIF, 'tools', 'py2v.py'), os.path.join(repo, 'src', 'gambit'),
	                      os.path.join(TH, 'Gen')])
	return rc == 0 and rc2 == 0, (out + err + ' ' + out2 + err2).strip()


def make(jobs=16, timeout=3000):
	files = [os.path.relpath(f, COQ) for f in v_files()]
	proj = '-Q theories GV\n-arg -w -arg -notation-overridden,-deprecated-hint-without-locality,-deprecated-instance-without-locality\n' + '\n'.join(files) + '\n'
	changed = write_if_changed(os.path.join(COQ, '_CoqProject'), proj)
	if changed or not os.path.exists(os.path.join(COQ, 'Makefile')):
		rc, out, err = sh('coq_makefile -f _CoqProject -o Makefile', cwd=COQ)
		if rc != 0:
			raise BuildError('coq_makefile failed: ' + err)
	rc, out, err = sh(f'timeout {timeout} make -k -j{jobs} 2>&1', cwd=COQ, timeout=timeout + 60)
	return rc, out


def _deps():
	"""{'theories/X/Y.vo': ['theories/X/Y.v', 'theories/A/B.vo', ...]} from coq_makefile's dependency file"""
	deps = {}
	path = os.path.join(COQ, '.Makefile.d')
	if not os.path.exists(path):
		return deps
	for line in open(path):
		if ':' not in line:
			continue
		tg, ds = line.split(':', 1)
		tg = tg.split()
		if tg and tg[0].endswith('.vo'):
			deps[tg[0]] = ds.split()
	return deps


def prune_stale(failed):
	"""After `make -k`: remove the .vo of every file that failed to compile and, transitively, of every
	file one of whose dependencies has no .vo or a newer one (make did not remake it because a dependency
	failed).  Afterwards "the .vo exists" means "compiled in this state of the sources".  -> removed files"""
	removed = []
	def rm(vo):
		base = os.path.join(COQ, vo[:-3])
		for ext in ('.vo', '.vos', '.vok', '.glob'):
			try:
				os.remove(base + ext)
			except OSError:
				pass
		removed.append(vo)
	for f, _ in failed:
		if f.endswith('.v') and os.path.exists(os.path.join(COQ, f[:-2] + '.vo')):
			rm(f[:-2] + '.vo')
	deps = _deps()
	changed = True
	while changed:
		changed = False
		for vo, ds in deps.items():
			pvo = os.path.join(COQ, vo)
			if not os.path.exists(pvo):
				continue
			t = os.path.getmtime(pvo)
			for d in ds:
				pd = os.path.join(COQ, d)
				if not os.path.exists(pd) or os.path.getmtime(pd) > t + 1e-6:
					rm(vo)
					changed = True
					break
	return removed


def failed_files(make_output):
	"""[(file, message)] for every coqc failure in a `make -k` log"""
	res = []
	lines = make_output.split('\n')
	for i, l in enumerate(lines):
		m = re.match(r'File "\./(theories/[^"]+)", line (\d+)', l)
		if m and i + 1 < len(lines) and lines[i + 1].startswith('Error'):
			msg = ' '.join(x.strip() for x in lines[i + 1:i + 6])
			res.append((m.group(1), f'line {m.group(2)}: {msg[:300]}'))
	return res


def vo_ok(rel):
	"""is theories/<rel>.vo present and not older than its source?"""
	v = os.path.join(TH, rel + '.v')
	vo = os.path.join(TH, rel + '.vo')
	return os.path.exists(vo) and os.path.exists(v) and os.path.getmtime(vo) >= os.path.getmtime(v)


def tie_status(prop):
	"""Advisory syntactic ties (theories/Ties/T<nn>.v, see the header of those files): same parsing as
	theorem_status, but nothing here is an obligation of the property."""
	rel = f'theories/Ties/T{prop[1:]}.v'
	if not os.path.exists(os.path.join(COQ, rel)):
		return None
	return theorem_status(prop, rel)


def theorem_status(prop, rel=None):
	"""Compile Props/<prop>.v on its own and parse `Print Assumptions`.
	-> dict(theorems=[{name, ok, axioms, bad_axioms}], compiled=bool, error=str)"""
	rel = rel or f'theories/Props/{prop}.v'
	path = os.path.join(COQ, rel)
	if not os.path.exists(path):
		return dict(theorems=[], compiled=False, error=f'{rel} does not exist')
	src = open(path).read()
	names = re.findall(r'^\s*Print Assumptions\s+(\S+?)\.\s*$', src, re.M)
	stated = re.findall(r'^\s*(?:Theorem|Lemma|Corollary)\s+(\w+)', src, re.M)
	rc, out, err = sh(f'timeout 900 coqc -Q theories GV -w -notation-overridden {rel}', cwd=COQ, timeout=960)
	res = dict(theorems=[], compiled=(rc == 0), error=(err.strip()[:600] if rc != 0 else ''))
	missing = [n for n in stated if n not in names]
	if missing:
		res['compiled'] = False
		res['error'] = 'theorems without Print Assumptions: ' + ', '.join(missing)
	if rc != 0:
		for n in names:
			res['theorems'].append(dict(name=n, ok=False, axioms=[], bad_axioms=[]))
		return res
	# split output into one block per Print Assumptions
	blocks = re.split(r'(?m)^(?=Closed under the global context|Axioms:|Fetching opaque proofs)', out)
	blocks = [b for b in blocks if b.startswith(('Closed under', 'Axioms:'))]
	if len(blocks) != len(names):
		res['compiled'] = False
		res['error'] = f'could not match Print Assumptions output ({len(blocks)} blocks, {len(names)} theorems)'
		return res
	for n, b in zip(names, blocks):
		axioms = []
		if b.startswith('Axioms:'):
			for line in b.split('\n')[1:]:
				m = re.match(r'^([A-Za-z_][\w.\']*)', line)
				if m:
					axioms.append(m.group(1))
		bad = [a for a in axioms if a not in ALLOWED_AXIOMS]
		res['theorems'].append(dict(name=n, ok=not bad, axioms=axioms, bad_axioms=bad))
	return res


def build_partial_driver(prop):
	"""Entry/Main.v does not build because the model of SOME property does not.  Build a driver from the
	entry points that do (ocaml/partial/), so that properties whose own model is intact keep their
	correspondence check.  -> (ok, message, driver path, numbers of the properties without a model)"""
	have = [i for i in range(1, 21) if vo_ok(f'Entry/E{i:02d}')]
	missing = [i for i in range(1, 21) if i not in have]
	own = int(prop[1:]) if prop else None
	if own is not None and own not in have:
		return False, f'Entry/E{own:02d}.vo does not build (the model of {prop} does not compile)', None, missing
	d = os.path.join(OCAML, 'partial')
	os.makedirs(d, exist_ok=True)
	main = open(os.path.join(TH, 'Entry', 'Main.v')).read()
	a = main.index('Definition gv_dispatch')
	head = main[:a]
	head = re.sub(r'From GV Require Entry\.E01.*?Entry\.E20\.', 'From GV Require ' + ' '.join(f'Entry.E{i:02d}' for i in have) + '.', head, flags=re.S)
	arms = ' '.join(f'| {i} => E{i:02d}.dispatch o a' for i in have)
	text = (head + 'Definition gv_dispatch (op : Z) (a : val) : val :=\n  let p := op / 100 in\n  let o := op mod 100 in\n'
	        f'  match p with\n  {arms}\n  | _ => vbad\n  end.\n')
	write_if_changed(os.path.join(d, 'MainPartial.v'), text)
	write_if_changed(os.path.join(d, 'ExtractPartial.v'),
	                 'From Coq Require Extraction.\nFrom Coq Require Import ExtrOcamlBasic.\nFrom GVP Require Import MainPartial.\n'
	                 'Extraction Language OCaml.\nExtraction "model.ml" gv_dispatch z_mul10_add z_divmod10 z_neg.\n')
	for f in ('MainPartial.v', 'ExtractPartial.v'):
		rc, out, err = sh(f'timeout 600 coqc -Q ../../coq/theories GV -Q . GVP {f}', cwd=d)
		if rc != 0:
			return False, f'partial driver: coqc {f} failed: ' + (out + err)[-400:], None, missing
	rc, out, err = sh('cp ../driver.ml . && timeout 600 ocamlfind ocamlopt -O3 -w -a model.mli model.ml driver.ml -o model_driver.new', cwd=d)
	drv = os.path.join(d, 'model_driver')
	if rc != 0 or not os.path.exists(drv + '.new'):
		return False, 'partial driver: ocamlopt failed: ' + (out + err)[-400:], None, missing
	os.replace(drv + '.new', drv)
	return True, 'partial driver (no model for ' + ', '.join(f'C{i:02d}' for i in missing) + ')', drv, missing


def build_driver(force=False):
	"""Extract the model and build ocaml/model_driver if anything it depends on changed."""
	drv = os.path.join(OCAML, 'model_driver')
	deps = []
	for d in ('Base', 'Gen', 'Spec', 'Model', 'Entry'):
		deps += glob.glob(os.path.join(TH, d, '*.vo'))
	deps += [os.path.join(OCAML, 'driver.ml'), os.path.join(TH, 'Extract.v')]
	if not vo_ok('Entry/Main'):
		return False, 'Entry/Main.vo is not up to date (model does not compile)'
	newest = max(os.path.getmtime(f) for f in deps if os.path.exists(f))
	if not force and os.path.exists(drv) and os.path.getmtime(drv) >= newest:
		return True, 'up to date'
	rc, out, err = sh('timeout 600 coqc -Q ../coq/theories GV ../coq/theories/Extract.v', cwd=OCAML)
	if rc != 0:
		return False, 'extraction failed: ' + (out + err)[-500:]
	# built under another name and moved into place atomically: a check that is running its campaign in this tree
	# keeps executing the old binary instead of hitting a half-written file
	rc, out, err = sh('timeout 600 ocamlfind ocamlopt -O3 -w -a model.mli model.ml driver.ml -o model_driver.new', cwd=OCAML)
	if rc != 0 or not os.path.exists(drv + '.new'):
		return False, 'ocamlopt failed: ' + (out + err)[-500:]
	os.replace(drv + '.new', drv)
	return True, 'rebuilt'


def full_build(repo, prop=None, log=print):
	"""Everything a check needs.  Returns a dict describing the state of the development."""
	t0 = time.time()
	with Lock():
		state = dict(gate=grep_gate())
		ok, msg = regenerate(repo)
		state['translator_ok'] = ok
		state['translator_msg'] = msg
		rc, out = make()
		state['make_rc'] = rc
		state['failed'] = failed_files(out)
		if rc != 0 and not state['failed']:
			state['failed'] = [('?', out[-400:])]
		state['pruned'] = prune_stale(state['failed'])
		state['driver_path'] = os.path.join(OCAML, 'model_driver')
		state['no_model'] = []
		state['driver_ok'], state['driver_msg'] = build_driver()
		if not state['driver_ok'] and not vo_ok('Entry/Main'):
			ok, msg, path, missing = build_partial_driver(prop)
			state['driver_ok'], state['driver_msg'], state['no_model'] = ok, msg, missing
			if ok:
				state['driver_path'] = path
		if prop:
			state['props'] = theorem_status(prop)
			state['ties'] = tie_status(prop)
	state['build_s'] = round(time.time() - t0, 1)
	return state
