"""./check <PROP> quick|thorough [--replay FILE]

Runs one property's check: build (translator, Coq, extraction), correspondence campaign,
verdict, evidence.  Exit status: 0 property held on everything explored; 1 violation
(a `VIOLATION property=<id> replay=<path>` line is printed); 2 framework failure."""
import hashlib
import importlib
import json
import os
import random
import sys
import time
import traceback

from . import build, wire

VERIF = build.VERIF
ERRNAMES = {1: 'OOB', 2: 'OutOfFuel', 3: 'ValueError', 4: 'TypeError', 5: 'OverflowError'}


def jhash(obj):
	return hashlib.sha1(json.dumps(obj, sort_keys=True, default=str).encode()).hexdigest()[:12]


class Ctx:
	"""Per-run context handed to the harness."""

	def __init__(self, prop, tier, seed, repo):
		self.prop = prop
		self.tier = tier
		self.seed = seed
		self.repo = repo
		self.rng = random.Random(seed)
		self.t0 = time.time()
		self.evaluations = 0
		self.nontrivial = set()
		self.counters = {}
		self.samples = []
		self.violations = []   # concrete failing inputs
		self.broken = []       # broken proof obligations / correspondence without failing input
		self.known_hits = []
		self.rules = []
		self.exhaustive = False
		self.assumptions = []
		self.extra = {}
		self.model_ok = True
		self.replaying = False
		self.deadline = None

	# -- statistics ------------------------------------------------------------------------
	def count(self, key, n=1):
		self.counters[key] = self.counters.get(key, 0) + n

	def case(self, case, nontrivial=False, stream=None):
		"""register one evaluated case"""
		self.evaluations += 1
		if stream:
			self.count('stream:' + stream)
		if nontrivial:
			self.nontrivial.add(jhash(case))
		if len(self.samples) < 6 and (nontrivial or self.evaluations % 7 == 1):
			self.samples.append(case)

	def rule(self, text):
		if text not in self.rules:
			self.rules.append(text)

	def assume(self, text):
		if text not in self.assumptions:
			self.assumptions.append(text)

	@property
	def quick(self):
		return self.tier == 'quick'

	def pick(self, quick, thorough):
		return quick if self.tier == 'quick' else thorough

	def time_left(self):
		return None if self.deadline is None else self.deadline - time.time()

	# -- model -----------------------------------------------------------------------------
	def model(self, reqs):
		"""reqs: list of (op, value) -> list of answers (nested int lists)"""
		return wire.batch(reqs)

	# -- outcomes --------------------------------------------------------------------------
	def violation(self, kind, case, what, **values):
		"""the property fails on the implementation for this concrete input"""
		what = str(what)
		if len(what) > 900:
			what = what[:900] + ' ...[truncated]'
		vals = {}
		for k, x in values.items():
			j = _jsonable(x)
			try:
				txt = json.dumps(j, default=str)
			except Exception:
				txt = repr(j)
			vals[k] = j if len(txt) <= 20000 else txt[:20000] + ' ...[truncated]'
		v = dict(kind=kind, case=case, what=what, values=vals)
		self.violations.append(v)

	def broke(self, obligation, detail):
		"""a proof obligation or a correspondence no longer checks; no failing input (yet)"""
		self.broken.append(dict(obligation=obligation, detail=str(detail)[:1500]))


def _jsonable(x):
	if isinstance(x, (bytes, bytearray)):
		return {'hex': bytes(x).hex()}
	if isinstance(x, (list, tuple)):
		return [_jsonable(y) for y in x]
	if isinstance(x, dict):
		return {str(k): _jsonable(v) for k, v in x.items()}
	if isinstance(x, (int, float, str, bool)) or x is None:
		return x
	try:
		import numpy as np
		if isinstance(x, np.ndarray):
			return x.tolist()
		if isinstance(x, np.generic):
			return x.item()
	except Exception:
		pass
	return repr(x)


def load_known(prop):
	path = os.path.join(VERIF, 'known_findings.json')
	if not os.path.exists(path):
		return []
	data = json.load(open(path))
	return [f for f in data.get('findings', []) if f.get('property') == prop and f.get('status') == 'known']


def match_known(known, v):
	"""A violation matches a known finding iff the finding's `match` dict is a sub-dict of
	dict(kind=..., **case) (cases are dicts) -- i.e. the finding names the specific input."""
	for k in known:
		m = k.get('match', {})
		flat = dict(kind=v['kind'])
		if isinstance(v['case'], dict):
			flat.update(v['case'])
		else:
			flat['case'] = v['case']
		if all(_jsonable(flat.get(a)) == b for a, b in m.items()):
			return k
	return None


def write_replay(prop, content):
	d = os.path.join(VERIF, 'replays')
	os.makedirs(d, exist_ok=True)
	path = os.path.join(d, f'{prop}-{jhash(content)}.json')
	with open(path, 'w') as f:
		json.dump(content, f, indent=1, default=str)
	return path


def shrink(ctx, mod, v, budget=150):
	"""Generic delta debugging on the list-valued parts of a failing case."""
	kind, case = v['kind'], v['case']

	def fails(c):
		sub = Ctx(ctx.prop, ctx.tier, ctx.seed, ctx.repo)
		sub.replaying = True
		try:
			mod.KINDS[kind](sub, [c])
		except Exception:
			return None
		return sub.violations[0] if sub.violations else None

	def paths(x, pre=()):
		if isinstance(x, list):
			yield pre
			for i, y in enumerate(x):
				yield from paths(y, pre + (i,))
		elif isinstance(x, dict):
			for k, y in x.items():
				yield from paths(y, pre + (k,))

	def get(x, p):
		for k in p:
			x = x[k]
		return x

	def put(x, p, val):
		if not p:
			return val
		x = x.copy() if isinstance(x, dict) else list(x)
		x[p[0]] = put(x[p[0]], p[1:], val)
		return x

	best = v
	tries = 0
	improved = True
	while improved and tries < budget:
		improved = False
		for p in list(paths(best['case'])):
			try:
				lst = get(best['case'], p)
			except (KeyError, IndexError, TypeError):
				continue
			if not isinstance(lst, list) or not lst:
				continue
			n = len(lst)
			chunk = max(1, n // 2)
			while chunk >= 1 and tries < budget:
				i = 0
				while i < len(lst) and tries < budget:
					cand = lst[:i] + lst[i + chunk:]
					tries += 1
					r = fails(put(best['case'], p, cand))
					if r is not None:
						best = r
						lst = cand
						improved = True
					else:
						i += chunk
				chunk //= 2
	return best


def main(argv=None):
	argv = list(sys.argv[1:] if argv is None else argv)
	if not argv:
		print(__doc__)
		return 2
	prop = argv[0]
	tier = os.environ.get('VERIF_TIER') or 'quick'
	replay = None
	rest = argv[1:]
	while rest:
		a = rest.pop(0)
		if a in ('quick', 'thorough'):
			tier = a
		elif a == '--replay':
			replay = rest.pop(0)
		else:
			print('unknown argument', a)
			return 2
	seed = int(os.environ.get('VERIF_SEED', '0') or 0)
	repo = os.environ.get('VERIF_REPO', '/repo')
	ctx = Ctx(prop, tier, seed, repo)
	try:
		mod = importlib.import_module(f'harness.{prop.lower()}')
	except ImportError as e:
		print(f'no harness for {prop}: {e}')
		return 2

	# ---- build -------------------------------------------------------------------------------
	try:
		st = build.full_build(repo, prop)
	except build.BuildError as e:
		print('FRAMEWORK ERROR:', e)
		return 2
	print(f'[{prop}] build {st["build_s"]}s translator_ok={st["translator_ok"]} make_rc={st["make_rc"]} '
	      f'driver={st["driver_msg"]}')
	if st['gate']:
		for g in st['gate']:
			ctx.broke('grep-gate', g)
	props = st['props']
	wire.DRIVER = st.get('driver_path') or wire.DRIVER
	wire.NO_MODEL = set(st.get('no_model') or [])
	if not st['translator_ok'] and (not props['compiled'] or not st['driver_ok']):
		# a source group that cannot be translated leaves a stub that does not compile: it matters to this
		# property only if its theorems or its model depend on the stub
		ctx.broke('translator (part of the model could not be regenerated from the sources)', st['translator_msg'])
	for f, msg in st['failed']:
		# a file that does not compile matters to this property only if its theorems or the model
		# driver depend on it
		if not props['compiled'] or not st['driver_ok']:
			ctx.broke(f'coqc {f}', msg)
	if not props['compiled']:
		ctx.broke(f'theories/Props/{prop}.v', props['error'])
	for t in props['theorems']:
		if props['compiled'] and not t['ok']:
			ctx.broke(f'theorem {t["name"]}', 'depends on axioms outside the allow-list: ' + ', '.join(t['bad_axioms']))
	ctx.model_ok = st['driver_ok']
	if not st['driver_ok']:
		ctx.broke('model extraction / driver build', st['driver_msg'])

	# ---- campaign ----------------------------------------------------------------------------
	known = load_known(prop)
	try:
		mod.setup(ctx) if hasattr(mod, 'setup') else None
		if replay:
			ctx.replaying = True
			data = json.load(open(replay))
			if 'case' not in data:
				print(f'[{prop}] replay file names a broken obligation, not an input: {data.get("broken")}')
			else:
				run_kind(ctx, mod, data['kind'], [data['case']])
				for v in ctx.violations:
					print(json.dumps(v, indent=1, default=str))
				print(f'[{prop}] replay: ' + ('violation reproduced' if ctx.violations else 'no violation'))
				return 1 if ctx.violations else 0
		else:
			run_campaign(ctx, mod)
	except wire.ModelError as e:
		ctx.broke('model driver', e)
	except Exception:
		traceback.print_exc()
		print(f'[{prop}] FRAMEWORK ERROR in harness')
		return 2
	finally:
		# after a campaign the teardown waits until the violations have been shrunk (the shrinker re-runs cases
		# and needs whatever setup() / the campaign cached); on every other path it runs now
		if (replay or sys.exc_info()[0] is not None) and hasattr(mod, 'teardown'):
			try:
				mod.teardown(ctx)
			except Exception:
				pass

	try:
		return _verdict(ctx, mod, prop, tier, seed, repo, st, props, known)
	finally:
		if hasattr(mod, 'teardown'):
			try:
				mod.teardown(ctx)
			except Exception:
				pass


def _verdict(ctx, mod, prop, tier, seed, repo, st, props, known):
	# ---- verdict -----------------------------------------------------------------------------
	new_violations = []
	seen = set()
	for v in ctx.violations:
		k = match_known(known, v)
		if k is not None:
			if k['id'] not in [h['id'] for h in ctx.known_hits]:
				ctx.known_hits.append(k)
			continue
		h = jhash([v['kind'], v['what']])
		if h in seen and len(new_violations) >= 3:
			continue
		seen.add(h)
		new_violations.append(v)
	for k in ctx.known_hits:
		print(f'KNOWN-FINDING: property={prop} {k["what"]}')

	exit_code = 0
	replay_paths = []
	if new_violations:
		exit_code = 1
		# report at most 3 distinct ones, shrunk
		for v in new_violations[:3]:
			try:
				v = shrink(ctx, mod, v) if getattr(mod, 'SHRINK', True) else v
			except Exception:
				pass
			content = dict(property=prop, kind=v['kind'], case=v['case'], what=v['what'], values=v['values'],
			               seed=seed, tier=tier, broken=ctx.broken[:5],
			               replay_cmd=f'./check {prop} --replay <this file>')
			path = write_replay(prop, content)
			replay_paths.append(path)
			print(f'[{prop}] violation: {v["what"]}')
			print(f'VIOLATION property={prop} replay={path}')
	elif ctx.broken:
		exit_code = 1
		content = dict(property=prop, broken=ctx.broken[:10], seed=seed, tier=tier,
		               note='a proof obligation or the model/code correspondence no longer checks; the search '
		                    'over model and implementation found no concrete failing input')
		path = write_replay(prop, content)
		for b in ctx.broken[:5]:
			print(f'[{prop}] broken: {b["obligation"]}: {b["detail"][:300]}')
		print(f'VIOLATION property={prop} replay={path} no-failing-input-found')

	# ---- advisory syntactic ties (theories/Ties): reported, never a violation ------------------------
	ties = st.get('ties')
	tie_report = None
	if ties is not None:
		tie_report = [dict(name=t['name'], checked=bool(ties['compiled'] and t['ok']), axioms=t['axioms']) for t in ties['theorems']]
		if not ties['compiled'] or not all(t['checked'] for t in tie_report):
			print(f'[{prop}] NOTE: advisory syntactic tie theories/Ties/T{prop[1:]}.v no longer checks (the text of a translated '
			      f'Python helper changed or left the translated subset); not an obligation of the property, the behavioural '
			      f'correspondence decides: {(ties["error"] or "")[:200]}')

	# ---- evidence ----------------------------------------------------------------------------
	n_thm = len(props['theorems'])
	n_thm_ok = sum(1 for t in props['theorems'] if props['compiled'] and t['ok'])
	corr = getattr(mod, 'CORRESPONDENCES', sorted(getattr(mod, 'KINDS', {}).keys()))
	corr_bad = {v['kind'] for v in new_violations}
	corr_ok = 0 if (not ctx.model_ok or any(b['obligation'] == 'model driver' for b in ctx.broken)) \
		else sum(1 for c in corr if c not in corr_bad)
	axioms = sorted({a for t in props['theorems'] for a in t['axioms']})
	evidence = dict(
		property_id=prop, tier=tier, seed=seed, level='proof',
		coverage=dict(
			obligations=n_thm + len(corr),
			discharged=n_thm_ok + corr_ok,
			checker_cmd=f'coqc 8.16.1: make -C coq (all of theories/) ; coqc theories/Props/{prop}.v with Print Assumptions; '
			            f'correspondence: ./check {prop} {tier}',
			trusted_base=getattr(mod, 'TRUSTED', []) + [
				'Coq 8.16.1 kernel (coqc; vm_compute for finite sweeps; no native_compute)',
				'axioms reported by Print Assumptions: ' + (', '.join(axioms) if axioms else 'none (closed under the global context)'),
				'extraction (ExtrOcamlBasic only) + ocaml/driver.ml; harness/' + prop.lower() + '.py generators and canonicalisation',
			],
			theorems=[dict(name=t['name'], checked=bool(props['compiled'] and t['ok']), axioms=t['axioms']) for t in props['theorems']],
			correspondences=list(corr),
			evaluations=ctx.evaluations,
			distinct_nontrivial=len(ctx.nontrivial),
			rule=' | '.join(ctx.rules) or getattr(mod, 'RULE', ''),
			samples=[_jsonable(s) for s in ctx.samples[:6]] or ['(no cases)'],
			exhaustive=bool(ctx.exhaustive),
			streams={k: v for k, v in sorted(ctx.counters.items())},
			known_findings_hit=[k['id'] for k in ctx.known_hits],
			broken=ctx.broken[:10],
			**({'advisory_syntactic_ties': tie_report} if tie_report is not None else {}),
			**ctx.extra,
		),
		assumptions=ctx.assumptions or getattr(mod, 'ASSUMPTIONS', []),
		wall_s=round(time.time() - ctx.t0, 2),
		violations=len(new_violations) + (1 if (ctx.broken and not new_violations) else 0),
	)
	# the committed evidence directory only ever holds runs against /repo itself; a run against another tree
	# (VERIF_REPO=<scratch copy with a seeded change>) writes under replays/ (git-ignored)
	evdir = os.path.join(VERIF, 'evidence') if os.path.realpath(repo) == '/repo' else os.path.join(VERIF, 'replays', 'evidence-other-tree')
	os.makedirs(evdir, exist_ok=True)
	with open(os.path.join(evdir, f'{prop}.json'), 'w') as f:
		json.dump(evidence, f, indent=1, default=str)
	print(f'[{prop}] {tier}: theorems {n_thm_ok}/{n_thm}, correspondences {corr_ok}/{len(corr)}, '
	      f'{ctx.evaluations} cases ({len(ctx.nontrivial)} distinct non-trivial), {evidence["wall_s"]}s, exit {exit_code}')
	return exit_code


def _impl_frames(tb, repo):
	"""frames of the traceback that lie in the implementation under test"""
	src = os.path.realpath(os.path.join(repo, 'src')) + os.sep
	return [f for f in traceback.extract_tb(tb) if os.path.realpath(f.filename).startswith(src)]


def run_kind(ctx, mod, kind, cases):
	"""Hand a batch to the kind's function.  The harnesses handle every exception the unchanged implementation
	raises on their inputs (the quick and thorough passes on /repo complete), so an exception escaping a batch
	function means that the code under test no longer behaves as it did when the correspondence was validated:
	the run must not end as a framework error (exit 2, no verdict).  If the exception comes out of the
	implementation's own frames the batch is re-run case by case to isolate an input on which the
	implementation raises where neither the model nor the specification predicts an error, and that input is
	reported as a violation; if it cannot be isolated (or the exception is raised by harness code digesting an
	unexpected value) the correspondence is reported as broken."""
	try:
		mod.KINDS[kind](ctx, cases)
		return
	except (wire.ModelError, KeyboardInterrupt):
		raise
	except Exception as e:
		tb = e.__traceback__
		frames = _impl_frames(tb, ctx.repo)
		trace = ''.join(traceback.format_exception(type(e), e, tb))[-3000:]
		head = f'{type(e).__name__}: {str(e)[:300]}'
	if frames and not ctx.replaying:
		t_end = time.time() + 120
		for c in (cases if len(cases) > 1 else []):
			if time.time() > t_end:
				break
			sub = Ctx(ctx.prop, ctx.tier, ctx.seed, ctx.repo)
			sub.replaying = True
			try:
				mod.KINDS[kind](sub, [c])
			except wire.ModelError:
				break
			except Exception as e2:
				if type(e2).__name__ == head.split(':')[0] and _impl_frames(e2.__traceback__, ctx.repo):
					cases = [c]
					trace = ''.join(traceback.format_exception(type(e2), e2, e2.__traceback__))[-3000:]
					break
	if frames and len(cases) == 1:
		where = frames[-1]
		ctx.violation(kind, cases[0],
			f'the implementation raises {head} (at {os.path.relpath(where.filename, ctx.repo)}:{where.lineno} in '
			f'{where.name}) on an input for which neither the model nor the specification predicts an error and '
			f'which the harness evaluates without an exception on the code it was validated against',
			impl=trace)
	else:
		ctx.broke(f'correspondence: evaluation of stream kind {kind!r}',
			f'{head} escaped the batch function ({len(cases)} cases, '
			f'{"in implementation frames" if frames else "raised in harness code digesting the results"}); '
			f'traceback tail: {trace[-1000:]}')


def run_campaign(ctx, mod):
	"""corpus first, then the harness's generator; cases are grouped per kind and handed to the
	kind's batch function"""
	corpus_dir = os.path.join(VERIF, 'corpus', ctx.prop)
	pending = {}

	def flush(kind=None):
		for k in ([kind] if kind else list(pending)):
			cases = pending.pop(k, [])
			if cases:
				run_kind(ctx, mod, k, cases)

	if os.path.isdir(corpus_dir):
		for fn in sorted(os.listdir(corpus_dir)):
			if fn.endswith('.json'):
				d = json.load(open(os.path.join(corpus_dir, fn)))
				pending.setdefault(d['kind'], []).append(d['case'])
				ctx.count('stream:corpus')
		flush()
	batch = getattr(mod, 'BATCH', 2000)
	for kind, case in mod.generate(ctx):
		pending.setdefault(kind, []).append(case)
		if len(pending[kind]) >= batch:
			flush(kind)
		if len(ctx.violations) > 50:
			break
	flush()
	if hasattr(mod, 'finish'):
		mod.finish(ctx)


if __name__ == '__main__':
	sys.exit(main())
