"""Wire protocol of the extracted model driver (see ocaml/driver.ml, Base/Val.v)."""
import os
import subprocess
from concurrent.futures import ThreadPoolExecutor

VERIF = os.path.dirname(os.path.dirname(os.path.abspath(__file__)))
DRIVER = os.path.join(VERIF, 'ocaml', 'model_driver')
#: numbers of the properties whose model does not build (partial driver, see build.build_partial_driver)
NO_MODEL = set()


def enc(v):
	"""Python value -> s-expression text.  bool -> 0/1, None -> (), bytes -> #hex."""
	if isinstance(v, bool):
		return '1' if v else '0'
	if isinstance(v, int):
		return str(v)
	if v is None:
		return '()'
	if isinstance(v, (bytes, bytearray)):
		return '#' + bytes(v).hex() if len(v) else '()'
	if isinstance(v, (list, tuple)):
		return '(' + ' '.join(enc(x) for x in v) + ')'
	if hasattr(v, '__int__'):
		return str(int(v))
	raise TypeError(f'cannot encode {type(v)}')


def dec(s):
	"""s-expression text -> nested lists of ints"""
	pos = 0
	n = len(s)
	stack = [[]]
	while pos < n:
		ch = s[pos]
		if ch == '(':
			stack.append([])
			pos += 1
		elif ch == ')':
			top = stack.pop()
			stack[-1].append(top)
			pos += 1
		elif ch in ' \t\r\n':
			pos += 1
		else:
			b = pos
			while pos < n and s[pos] not in ' ()\n':
				pos += 1
			stack[-1].append(int(s[b:pos]))
	if len(stack) != 1 or len(stack[0]) != 1:
		raise ValueError('malformed model output: ' + s[:80])
	return stack[0][0]


class ModelError(Exception):
	pass


def _run_chunk(lines):
	if not lines:
		return []
	p = subprocess.run(['/bin/bash', '-c', f'ulimit -s unlimited 2>/dev/null; exec "{DRIVER}"'],
	                   input='\n'.join(lines) + '\n', capture_output=True, text=True)
	out = p.stdout.split('\n')
	if out and out[-1] == '':
		out.pop()
	if p.returncode != 0 or len(out) != len(lines):
		raise ModelError(f'model driver failed (rc={p.returncode}, {len(out)}/{len(lines)} answers): {p.stderr[:300]}')
	return out


def batch(reqs, workers=None):
	"""reqs: list of (op:int, value).  Returns the list of decoded answers, in order."""
	reqs = list(reqs)
	if not reqs:
		return []
	if NO_MODEL:
		for op, _ in reqs:
			if op // 100 in NO_MODEL:
				raise ModelError(f'the model of property C{op // 100:02d} does not build; request {op} cannot be answered')
	lines = [f'{op} {enc(v)}' for op, v in reqs]
	workers = workers or min(16, os.cpu_count() or 1)
	if len(lines) < 64:
		workers = 1
	size = (len(lines) + workers - 1) // workers
	chunks = [lines[i:i + size] for i in range(0, len(lines), size)]
	if len(chunks) == 1:
		outs = [_run_chunk(chunks[0])]
	else:
		with ThreadPoolExecutor(len(chunks)) as ex:
			outs = list(ex.map(_run_chunk, chunks))
	res = []
	for o in outs:
		for line in o:
			if line.startswith('!'):
				raise ModelError('model driver: ' + line[1:] + ' on a request')
			res.append(dec(line))
	return res


def call(op, v):
	return batch([(op, v)])[0]
