(** C05 -- specification vocabulary: what a bulk distance computation must return.

    [dist q r] is the value of the two-signature distance (the generated kernel returns exactly
    this for strictly increasing inputs: Proofs/MetricCount.v [c_jaccarddist_counts], C02).
    A bulk computation must return, cell by cell, that value for the pair the cell stands for. *)
From Coq Require Import ZArith List Bool.
From GV Require Import Base.F32 Spec.Jaccard Spec.JaccardF.
Import ListNotations.
Open Scope Z_scope.

Definition dist (q r : list Z) : f32 := ratio_f32 (symdiff_count q r) (union_count q r).

(** one query against many references *)
Definition dist_row (q : list Z) (refs : list (list Z)) : list f32 := map (dist q) refs.

(** query-by-reference matrix *)
Definition dist_matrix (queries refs : list (list Z)) : list (list f32) :=
  map (fun q => dist_row q refs) queries.

(** condensed all-pairs form: rows i = 0 .. n-2, each holding the pairs (i, j), j > i *)
Fixpoint dist_condensed (sigs : list (list Z)) : list f32 :=
  match sigs with
  | [] => []
  | s :: rest => dist_row s rest ++ dist_condensed rest
  end.

(** offset of the pair (i, j), i < j < n, in the condensed form *)
Definition condensed_offset (n i j : Z) : Z := n * i - i * (i + 1) / 2 + (j - i - 1).

(** Python / NumPy index normalisation: negative indices count from the end *)
Definition norm_index (n i : Z) : option Z :=
  let i2 := if i <? 0 then i + n else i in
  if (0 <=? i2) && (i2 <? n) then Some i2 else None.

(** what [seq[[i0, i1, ...]]] is for a plain list: the selected elements in the caller's order,
    [None] when some index is out of range (IndexError) *)
Fixpoint select {A} (l : list A) (idxs : list Z) : option (list A) :=
  match idxs with
  | [] => Some []
  | i :: rest =>
      match norm_index (Z.of_nat (length l)) i with
      | None => None
      | Some p =>
          match nth_error l (Z.to_nat p), select l rest with
          | Some x, Some xs => Some (x :: xs)
          | _, _ => None
          end
      end
  end.
