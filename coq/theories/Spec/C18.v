(** C18 -- specification vocabulary: what "never modifies it" means for a run of operations.

    The statement of the property is about observables only:
      - the genome file, the signature file, the directory listing (and the absence of a
        journal file) are what they were ([dir_state], Model/C18.v);
      - no INSERT/UPDATE/DELETE reaches the cursor ([s_log] does not grow);
      - every [commit()] is answered by the TypeError, every write on the signature handle is
        rejected, every query returns the rows of the file on disk. *)
From Coq Require Import ZArith List Bool.
From GV Require Import Model.C18.
Import ListNotations.
Open Scope Z_scope.

(** session.commit() raises 'Session is read-only' *)
Definition commit_refused (o : op) (r : resp) : Prop := o = Commit -> r = RTypeError.

(** a SELECT returns exactly the rows of the file on disk (pending changes are never visible to
    the data base, the data base is never ahead of the file) *)
Definition query_reads_file (file : table) (o : op) (r : resp) : Prop := o = Query -> r = RView file.

Definition is_store_write (o : sop) : bool :=
  match o with SWrite _ _ => true | SDelete _ => true | _ => false end.
(** a write through the signature handle is rejected (or there is no handle at all) *)
Definition write_rejected (o : sop) (r : sresp) : Prop :=
  is_store_write o = true -> r = SRejected \/ r = SNotOpen.

(** [l'] extends [l] by elements that all equal [x] *)
Definition extends_with {X} (x : X) (l l' : list X) : Prop :=
  exists added, l' = l ++ added /\ Forall (eq x) added.

(** the whole-directory statement for a run [w -> w'] *)
Definition directory_untouched (w w' : world) : Prop :=
  dir_state w' = dir_state w /\
  s_log (w_db w') = s_log (w_db w) /\
  extends_with ReadOnlySession (w_classes w) (w_classes w') /\
  extends_with MR (w_modes w) (w_modes w').
