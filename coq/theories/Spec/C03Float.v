(** C03 -- how a finite binary32 / binary64 value becomes the integer the model computes with:
    [value * 2^k] for a scale [k] under which it is an integer ([fits]).  This is what the
    harness's [scaler] sends (as [(m s)] with [s = e + k]). *)
From Coq Require Import ZArith.
From Flocq Require Import Core.Core IEEE754.BinarySingleNaN.
Open Scope Z_scope.

Definition scaled {prec emax} (k : Z) (x : binary_float prec emax) : Z :=
  match x with
  | B754_finite s m e _ => cond_Zopp s (Z.pos m) * 2 ^ (e + k)
  | _ => 0
  end.

Definition fits {prec emax} (k : Z) (x : binary_float prec emax) : Prop :=
  match x with
  | B754_finite _ _ e _ => 0 <= e + k
  | _ => True
  end.
