(** C01/C06 specification: the signature of a collection of sequences is the set of k-mers that
    directly follow an occurrence of the prefix on either strand. *)
From Coq Require Import ZArith List Bool.
From GV Require Import Spec.Kmers.
Import ListNotations.
Open Scope Z_scope.

(** [slice s a n] = the [n] bytes of [s] starting at offset [a] *)
Definition slice (s : list Z) (a n : nat) : list Z := firstn n (skipn a s).

Fixpoint eq_list (a b : list Z) : bool :=
  match a, b with
  | [], [] => true
  | x :: a', y :: b' => (x =? y) && eq_list a' b'
  | _, _ => false
  end.

(** the prefix occurs at offset [q] of [s], ignoring letter case, and a whole k-mer follows it *)
Definition occurs_at (k : nat) (p s : list Z) (q : nat) : bool :=
  (q + length p + k <=? length s)%nat && eq_list (map upper (slice s q (length p))) p.

(** indices of the k-mers following forward-strand occurrences, in order of position;
    k-mers with a byte outside ACGTacgt (or k > 32) are dropped *)
Definition fwd_kmers (k : nat) (p s : list Z) : list Z :=
  flat_map (fun q =>
    if occurs_at k p s q then
      match spec_encode (slice s (q + length p) k) with Some v => [v] | None => [] end
    else []) (seq 0 (S (length s))).

Definition seq_kmers (k : nat) (p s : list Z) : list Z :=
  fwd_kmers k p s ++ fwd_kmers k p (spec_revcomp s).

Definition all_kmers (k : nat) (p : list Z) (seqs : list (list Z)) : list Z :=
  flat_map (seq_kmers k p) seqs.

(** strictly increasing enumeration of the elements of a list *)
Fixpoint insert_dedup (x : Z) (l : list Z) : list Z :=
  match l with
  | [] => [x]
  | y :: t => if x <? y then x :: y :: t else if x =? y then y :: t else y :: insert_dedup x t
  end.
Definition sort_dedup (l : list Z) : list Z := fold_right insert_dedup [] l.

Definition signature_spec (k : nat) (p : list Z) (seqs : list (list Z)) : list Z :=
  sort_dedup (all_kmers k p seqs).

(** width in bytes of the smallest unsigned NumPy integer type holding 4^k - 1 *)
Definition dtype_spec (k : nat) : option Z :=
  if (k <=? 4)%nat then Some 1 else if (k <=? 8)%nat then Some 2
  else if (k <=? 16)%nat then Some 4 else if (k <=? 32)%nat then Some 8 else None.
