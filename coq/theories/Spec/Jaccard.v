(** Specification vocabulary for the Jaccard distance between k-mer sets given as strictly
    increasing lists of indices. *)
From Coq Require Import ZArith List Bool Sorting.Sorted.
Import ListNotations.
Open Scope Z_scope.

Definition memZ (x : Z) (l : list Z) : bool := existsb (Z.eqb x) l.

(** |A ∩ B|, |A ∪ B|, |A △ B| *)
Definition inter_count (A B : list Z) : Z := Z.of_nat (length (filter (fun a => memZ a B) A)).
Definition union_count (A B : list Z) : Z :=
  Z.of_nat (length A) + Z.of_nat (length B) - inter_count A B.
Definition symdiff_count (A B : list Z) : Z :=
  Z.of_nat (length A) + Z.of_nat (length B) - 2 * inter_count A B.

(** strictly increasing *)
Definition sorted (l : list Z) : Prop := StronglySorted Z.lt l.

Fixpoint sortedb (l : list Z) : bool :=
  match l with
  | [] => true
  | a :: t => match t with [] => true | b :: _ => (a <? b) && sortedb t end
  end.
