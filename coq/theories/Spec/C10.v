(** C10 -- specification vocabulary: taxa, lineages, the consensus of a set of matched taxa.

    A taxon of a forest is represented by its *root path*: the list of node ids from the root of
    its tree down to the taxon itself (never empty).  Every forest has this form (the harness
    computes the paths from its own parent table); the ancestors of a taxon are the non-empty
    proper prefixes of its path, "t is at or below c" is "c is a prefix of t", the lowest common
    ancestor of two taxa is the longest common prefix of their paths (empty = the taxa lie in
    different trees). *)
From Coq Require Import List Bool Arith.
Import ListNotations.
Local Open Scope nat_scope.

Definition taxon := list nat.

Fixpoint path_eqb (p q : taxon) : bool :=
  match p, q with
  | [], [] => true
  | x :: p', y :: q' => Nat.eqb x y && path_eqb p' q'
  | _, _ => false
  end.

(** [p] is [q], an ancestor of [q] (or the empty path) *)
Fixpoint prefixb (p q : taxon) : bool :=
  match p, q with
  | [], _ => true
  | x :: p', y :: q' => Nat.eqb x y && prefixb p' q'
  | _ :: _, [] => false
  end.

(** [q] lies strictly below [p] *)
Definition strictb (p q : taxon) : bool := prefixb p q && negb (path_eqb p q).

(** longest common prefix = lowest common ancestor ([[]] if there is none) *)
Fixpoint lcp (p q : taxon) : taxon :=
  match p, q with
  | x :: p', y :: q' => if Nat.eqb x y then x :: lcp p' q' else []
  | _, _ => []
  end.

Definition mem (t : taxon) (l : list taxon) : bool := existsb (path_eqb t) l.

(** the most specific matched taxa: those with no matched taxon strictly below them *)
Definition maximal (l : list taxon) : list taxon :=
  filter (fun p => negb (existsb (strictb p) l)) l.

Fixpoint lcp_all (l : list taxon) : option taxon :=
  match l with
  | [] => None
  | m :: r => match lcp_all r with None => Some m | Some c => Some (lcp m c) end
  end.

(** The consensus of the matched taxa [l]: the lowest common ancestor of the most specific ones
    (which is the most specific one itself when all of [l] lies on a single lineage); [None] if
    nothing was matched or the most specific ones share no ancestor. *)
Definition consensus_spec (l : list taxon) : option taxon :=
  match lcp_all (maximal l) with
  | Some (x :: r) => Some (x :: r)
  | _ => None
  end.

(** the conflicting taxa named in the warning: the matched taxa strictly below the prediction
    (every matched taxon when there is no prediction) *)
Definition below_spec (c : option taxon) (l : list taxon) : list taxon :=
  match c with Some c => filter (strictb c) l | None => l end.

(** well-formed input: root paths are never empty *)
Definition nonempty (t : taxon) : bool := match t with [] => false | _ => true end.
Definition wf_taxa (l : list taxon) : bool := forallb nonempty l.

(** two taxa in different trees *)
Definition no_common_root (x y : taxon) : bool :=
  match x, y with a :: _, b :: _ => negb (Nat.eqb a b) | _, _ => true end.

(** ---- per-genome match ------------------------------------------------------------------- *)

(** a reference genome as the classifier sees it: the lineage of its taxon from the root down,
    each taxon with its id and optional distance threshold, and the distance to the query *)
Definition lineage := list (nat * option nat).
Definition genome := (lineage * nat)%type.

Definition covers (d : nat) (th : option nat) : bool :=
  match th with Some t => d <=? t | None => false end.

(** threshold of the last taxon of a (prefix of a) lineage *)
Definition last_thr (a : lineage) : option nat := snd (last a (0, None)).

(** [k] is the depth of a threshold-bearing taxon of the lineage whose threshold covers [d] *)
Definition covers_at (g : genome) (k : nat) : bool :=
  (1 <=? k) && (k <=? length (fst g)) && covers (snd g) (last_thr (firstn k (fst g))).
