(** C09 -- specification of the closest-genomes list, in the property's own vocabulary.

    A distance row [ds] assigns to reference [i] (its position, i.e. the reference order) the
    distance [key ds i].  Reference [i] is nearer than [j] when (distance, reference order) is
    lexicographically smaller. *)
From Coq Require Import ZArith List Bool Arith Sorting.Sorted Sorting.Permutation.
Import ListNotations.
Open Scope Z_scope.

Definition key (ds : list Z) (i : nat) : Z := nth i ds 0.

(** strictly nearer: smaller distance, ties broken by reference order *)
Definition nearer (ds : list Z) (i j : nat) : Prop :=
  key ds i < key ds j \/ (key ds i = key ds j /\ (i < j)%nat).

(** [l] lists the min(n, #references) nearest references, nearest first: it is the first part
    of an arrangement of ALL reference indices in strictly increasing (distance, order) *)
Definition is_closest_list (n : nat) (ds : list Z) (l : list nat) : Prop :=
  length l = Nat.min n (length ds) /\
  exists rest, Permutation (l ++ rest) (seq 0 (length ds)) /\ StronglySorted (nearer ds) (l ++ rest).

(** the same, without mentioning the unlisted references' order: the listed indices are
    distinct valid references in strictly increasing (distance, order), and every reference
    that is not listed is farther than every listed one *)
Definition is_closest_list' (n : nat) (ds : list Z) (l : list nat) : Prop :=
  length l = Nat.min n (length ds) /\
  Forall (fun i => (i < length ds)%nat) l /\
  StronglySorted (nearer ds) l /\
  forall i j, In i l -> (j < length ds)%nat -> ~ In j l -> nearer ds i j.

(** what np.argmin promises: the first position holding the minimum *)
Definition is_first_argmin (ds : list Z) (i : nat) : Prop :=
  (i < length ds)%nat /\
  (forall j, (j < length ds)%nat -> key ds i <= key ds j) /\
  (forall j, (j < i)%nat -> key ds i < key ds j).

(** what np.argsort promises WITHOUT kind='stable' (the code before the fix): some arrangement
    of all indices with non-decreasing distances; the order among equal distances is
    unspecified *)
Definition is_argsort (ds : list Z) (p : list nat) : Prop :=
  Permutation p (seq 0 (length ds)) /\ StronglySorted (fun i j => key ds i <= key ds j) p.

(** ** executable checker (extracted; the harness applies it to the implementation's list) *)

Definition nearerb (ds : list Z) (i j : nat) : bool :=
  (key ds i <? key ds j) || ((key ds i =? key ds j) && (i <? j)%nat).

Fixpoint chainb (ds : list Z) (l : list nat) : bool :=
  match l with
  | [] => true
  | i :: t => match t with [] => true | j :: _ => nearerb ds i j && chainb ds t end
  end.

Definition memb (j : nat) (l : list nat) : bool := existsb (Nat.eqb j) l.

Definition closest_listb (n : nat) (ds : list Z) (l : list nat) : bool :=
  (length l =? Nat.min n (length ds))%nat &&
  forallb (fun i => (i <? length ds)%nat) l &&
  chainb ds l &&
  forallb (fun j => memb j l || forallb (fun i => nearerb ds i j) l) (seq 0 (length ds)).

(** ** lineage of a taxon and what matching_taxon must return *)

Notation sp_taxon := (option nat * option Z)%type (only parsing).

(** [Lineage taxa t l]: l = t, parent t, parent (parent t), ... up to a root *)
Inductive Lineage (taxa : list sp_taxon) : nat -> list nat -> Prop :=
| Lin_root : forall t thr, nth_error taxa t = Some (None, thr) -> Lineage taxa t [t]
| Lin_step : forall t p thr l, nth_error taxa t = Some (Some p, thr) -> Lineage taxa p l ->
    Lineage taxa t (t :: l).

Definition thr_of (taxa : list sp_taxon) (t : nat) : option Z :=
  match nth_error taxa t with Some (_, thr) => thr | None => None end.

Definition admitsb (taxa : list sp_taxon) (d : Z) (t : nat) : bool :=
  match thr_of taxa t with Some th => d <=? th | None => false end.
