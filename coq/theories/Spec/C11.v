(** C11 -- vocabulary of the statements about the archive format: a results object "lives in" a
    reference database when every taxon / genome it mentions is a row of that database. *)
From Coq Require Import ZArith List Bool.
From GV Require Import Model.C11Csv Model.C11Json Model.C11Export.
Import ListNotations.
Open Scope Z_scope.

Section InDb.
  Variable db : refdb.

  Definition okT (t : taxon) : Prop := In t (db_taxa db).
  Definition okOT (o : option taxon) : Prop := match o with Some t => okT t | None => True end.
  Definition okG (g : genome) : Prop := In g (db_genomes db).
  Definition okM (m : gmatch) : Prop := okG (m_genome m) /\ okOT (m_taxon m).
  Definition okOM (o : option gmatch) : Prop := match o with Some m => okM m | None => True end.
  Definition okC (c : cresult) : Prop :=
    okOT (c_pred c) /\ okOM (c_primary c) /\ okM (c_closest c) /\ okOT (c_next c).
  Definition okI (i : item) : Prop := okC (i_cr i) /\ okOT (i_report i) /\ Forall okM (i_closest i).

  (** the results were computed on this database: its single genome set, its taxa and genomes *)
  Definition results_in_db (r : results) : Prop :=
    Forall okI (r_items r) /\ db_gsets db = [r_gset r].

  (** the schema's UNIQUE constraints on taxa.key and genomes.key *)
  Definition db_keys_unique : Prop :=
    NoDup (map t_key (db_taxa db)) /\ NoDup (map g_key (db_genomes db)).
End InDb.

(** the documented CSV columns of one query, spelled out *)
Definition csv_cells (it : item) (dtok : str) : list str :=
  let rep := i_report it in
  let nxt := c_next (i_cr it) in
  let name o := match o with Some t => t_name t | None => [] end in
  let opt (f : taxon -> option str) o :=
    match o with Some t => match f t with Some s => s | None => [] end | None => [] end in
  [i_label it;
   name rep; opt t_rank rep; opt t_ncbi rep; opt t_thr rep;
   dtok; g_desc (m_genome (c_closest (i_cr it)));
   name nxt; opt t_rank nxt; opt t_ncbi nxt; opt t_thr nxt].
