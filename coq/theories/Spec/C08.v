(** C08 -- specification vocabulary: what the rows of a query are, and which names are "a stem
    with FASTA / gzip extensions".  No algorithm here. *)
From Coq Require Import ZArith List Bool.
From GV Require Import Model.C08.
Import ListNotations.
Open Scope Z_scope.

Section Rows.
  Variables Q R D C I : Type.
  Variable dist : Q -> R -> D.
  Variable content : list D -> C.
  Variable refs : list R.

  (** the row of one input: its description, and the content determined by the distances of ITS
      signature to the references -- nothing else of the batch enters *)
  Definition row_of (iq : I * Q) : I * C := (fst iq, content (map (dist (snd iq)) refs)).

  (** the rows of a batch: one per input, in input order *)
  Definition rows_spec (inputs : list I) (queries : list Q) : list (I * C) :=
    map row_of (combine inputs queries).
End Rows.

(** [chunksize] values the code accepts: None, or a positive integer *)
Definition chunk_ok (cs : option Z) : bool :=
  match cs with None => true | Some c => 0 <? c end.

(** extension part of a sequence file name: nothing, or one of FASTA_EXTENSIONS *)
Definition fasta_ext (e : str) : Prop := e = [] \/ In e FASTA_EXTENSIONS.
(** compression part: nothing, or ".gz" *)
Definition gzip_ext (e : str) : Prop := e = [] \/ In e GZIP_EXTENSIONS.

(** the stem does not itself end in one of those extensions *)
Definition no_seq_ext (stem : str) : bool :=
  forallb (fun e => negb (endswith stem e)) (GZIP_EXTENSIONS ++ FASTA_EXTENSIONS).

Definition no_slash (s : str) : bool := forallb (fun c => negb (c =? SLASH)) s.

(** a line of a list file that denotes itself: not empty, no line break inside, no white space at
    either end *)
Definition no_newline (s : str) : bool := forallb (fun c => negb (c =? 10) && negb (c =? 13)) s.
Definition wf_line (l : str) : bool :=
  negb (is_empty l) && no_newline l &&
  match l with c :: _ => negb (is_space c) | [] => false end &&
  match rev l with c :: _ => negb (is_space c) | [] => false end.

(** the text of a list file: every name followed by a line feed *)
Definition lines_text (ls : list str) : str := concat (map (fun l => l ++ [10]) ls).

(** a name a file can have: not empty, not ".", no "/" *)
Definition file_name (name : str) : bool :=
  negb (is_empty name) && negb (str_eqb name [46]) && no_slash name.

Section CliRows.
  Variables Q R D C : Type.
  Variable dist : Q -> R -> D.
  Variable content : list D -> C.
  Variable refs : list R.
  Variable sig_of_file : str -> Q.

  (** the row of the genome in the file at [path], shown under [label] *)
  Definition file_row (label path : str) : query_input * C :=
    (QueryInput label (Some path), content (map (dist (sig_of_file path)) refs)).

  (** ... given as a positional argument [p] *)
  Definition positional_row (p : str) : query_input * C :=
    file_row (get_file_id (path_str p) true true) (path_str p).

  (** ... given as a line of a list file read with base directory [ldir]: looked for at
      [ldir/line], labelled from the line *)
  Definition listfile_row (ldir line : str) : query_input * C :=
    file_row (get_file_id line true true) (path_str (posix_join ldir line)).

  (** the row of a stored signature: labelled with its stored id *)
  Definition sig_row (ids : str * Q) : query_input * C :=
    (QueryInput (fst ids) None, content (map (dist (snd ids)) refs)).
End CliRows.
