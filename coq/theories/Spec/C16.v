(** C16 -- specification of the distance-matrix command, in the property's vocabulary:
    which labelled genomes each way of supplying a side denotes (in input order), the
    table "header of reference labels, one row per query", what "rounded to four decimals"
    means for a dyadic value, and how the written text is read back. *)
From Coq Require Import ZArith List Bool.
From GV Require Import Model.C16.
Import ListNotations.
Open Scope Z_scope.

(* ------------------------------------------------------------------------------------ *)
(** * What a side supplies: labelled genomes in input order                              *)

Fixpoint all_some {A} (l : list (option A)) : option (list A) :=
  match l with
  | [] => Some []
  | None :: _ => None
  | Some x :: r => match all_some r with Some r' => Some (x :: r') | None => None end
  end.

(** genome files given one by one: label = file name without directory and FASTA/gzip extension *)
Definition supplied_files (es : list entry) : list entry :=
  map (fun e => (get_file_id (fst e), snd e)) es.

(** a list file with a base directory: every non-blank line, stripped, names a file *)
Definition supplied_list (text : str) (fs : list entry) : option (list entry) :=
  all_some (map (fun line => match lookup fs line with Some g => Some (get_file_id line, g) | None => None end)
                (read_lines text)).

(** the three ways of supplying queries; [None]: not exactly one way used, or a missing file *)
Definition supplied_q (p : params) : option (list entry) :=
  match p_q p, p_ql p, p_qs p with
  | _ :: _, None, None => Some (supplied_files (p_q p))
  | [], Some text, None => supplied_list text (p_qfs p)
  | [], None, Some es => Some es
  | _, _, _ => None
  end.

(** the five ways of supplying references *)
Definition supplied_r (p : params) : option (list entry) :=
  match p_r p, p_rl p, p_rs p, p_use_db p, p_square p with
  | _ :: _, None, None, false, false => Some (supplied_files (p_r p))
  | [], Some text, None, false, false => supplied_list text (p_rfs p)
  | [], None, Some es, false, false => Some es
  | [], None, None, true, false => p_db p
  | [], None, None, false, true => supplied_q p
  | _, _, _, _, _ => None
  end.

(** the CSV rows: corner cell and reference labels, then per query its label and one cell
    per reference *)
Definition spec_table (cellf : G -> G -> str) (Q R : list entry) : table :=
  ([] :: map fst R) :: map (fun q => fst q :: map (fun r => cellf (snd q) (snd r)) R) Q.

(** the square matrix of a list of genomes by position: zero diagonal, the value computed
    for the pair (smaller position, larger position) on both sides of it *)
Definition sq_dist (d : G -> G -> Z) (sigs : list G) (a b : nat) : Z :=
  if (a =? b)%nat then 0 else d (nth (Nat.min a b) sigs 0) (nth (Nat.max a b) sigs 0).

Definition spec_square_table (cellf : Z -> str) (d : G -> G -> Z) (Q : list entry) : table :=
  let n := length Q in
  ([] :: map fst Q) ::
  map (fun a => nth a (map fst Q) [] :: map (fun b => cellf (sq_dist d (map snd Q) a b)) (seq 0 n)) (seq 0 n).

(** the same parameters with the queries supplied a second time as references instead of --square *)
Definition both_sides (p : params) : params :=
  mkParams (p_q p) (p_ql p) (p_qfs p) (p_qs p) (p_q p) (p_ql p) (p_qfs p) (p_qs p) false (p_db p) false.

(* ------------------------------------------------------------------------------------ *)
(** * Rounded to four decimals                                                           *)

(** N / 10^4 is a nearest four-decimal number to m * 2^e  (e < 0: compare after clearing
    the denominators 10^4 and 2^-e) *)
Definition nearest4 (m e N : Z) : Prop :=
  forall N', Z.abs (N * 2 ^ (- e) - m * 10000) <= Z.abs (N' * 2 ^ (- e) - m * 10000).

(** ... and among two nearest ones the even one *)
Definition tie4 (m e N : Z) : Prop := 2 * Z.abs (N * 2 ^ (- e) - m * 10000) = 2 ^ (- e).

(* ------------------------------------------------------------------------------------ *)
(** * Reading the text back:  [-]d+.dddd  ->  (negative?, value * 10^4)                  *)

Definition digit (c : Z) : option Z := if (48 <=? c) && (c <=? 57) then Some (c - 48) else None.

Fixpoint parse_digits (s : str) (acc : Z) : option Z :=
  match s with
  | [] => Some acc
  | c :: r => match digit c with Some v => parse_digits r (10 * acc + v) | None => None end
  end.

Definition parse_unsigned4 (s : str) : option Z :=
  let n := length s in
  if (n <? 6)%nat then None
  else
    match skipn (n - 5) s with
    | 46 :: fp =>
        match parse_digits (firstn (n - 5) s) 0, parse_digits fp 0 with
        | Some a, Some b => Some (a * 10000 + b)
        | _, _ => None
        end
    | _ => None
    end.

Definition parse_fixed4 (s : str) : option (bool * Z) :=
  match s with
  | 45 :: r => match parse_unsigned4 r with Some v => Some (true, v) | None => None end
  | _ => match parse_unsigned4 s with Some v => Some (false, v) | None => None end
  end.
