(** The value the distance kernel must return as a function of the two set counts:
    (float) s / (float) u  in binary32, +0 for the empty union. *)
From Coq Require Import ZArith.
From GV Require Import Base.F32.
Open Scope Z_scope.

Definition ratio_f32 (s u : Z) : f32 :=
  if u =? 0 then f32_of_Z 0 else f32_div (f32_of_Z s) (f32_of_Z u).
