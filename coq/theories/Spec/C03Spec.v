(** C03 -- specification of the default classification in the property's own words.

    For a reference genome with lineage [g] (own taxon first, then its ancestors) at
    distance [d]:
      - the prediction is the first (= most specific) taxon of [g] carrying a threshold
        that is not smaller than [d];
      - [below d g] are the taxa of [g] strictly more specific than the prediction (all
        of [g] when nothing is predicted); the "next" taxon is the last
        threshold-bearing one among them, i.e. the nearest below the prediction, resp. the
        topmost of the lineage when nothing is predicted;
      - the user-facing taxon is the first taxon at or above the prediction with the
        report flag.
    [check] is the executable oracle: it decides whether an observed result (closest
    genome index and distance, ids of predicted / next / report taxon, primary index)
    is one the property allows for the reference list [gs] and distance vector [ds]. *)
From Coq Require Import ZArith List Bool.
From GV Require Import Model.C03Classify.
Import ListNotations.
Open Scope Z_scope.

Fixpoint take_while {A} (p : A -> bool) (l : list A) : list A :=
  match l with
  | [] => []
  | x :: r => if p x then x :: take_while p r else []
  end.

Fixpoint drop_while {A} (p : A -> bool) (l : list A) : list A :=
  match l with
  | [] => []
  | x :: r => if p x then drop_while p r else l
  end.

Fixpoint last_opt {A} (l : list A) : option A :=
  match l with
  | [] => None
  | [x] => Some x
  | _ :: r => last_opt r
  end.

Definition below (d : Z) (g : lineage) : lineage := take_while (fun t => negb (within d t)) g.
Definition at_or_above (d : Z) (g : lineage) : lineage := drop_while (fun t => negb (within d t)) g.

(** vocabulary of the theorems *)
Definition none_within (d : Z) (l : lineage) : Prop := forall t, In t l -> within d t = false.
Definition none_thr (l : lineage) : Prop := forall t, In t l -> has_thr t = false.
Definition none_report (l : lineage) : Prop := forall t, In t l -> t_report t = false.

(** the rule for the "next" taxon, as a statement about a classifier [cl]: with [b] the part
    of the closest genome's lineage strictly below the prediction, the next taxon is absent
    when [b] has no threshold-bearing taxon, and otherwise is the threshold-bearing taxon [n]
    of [b] with no threshold-bearing taxon between it and the prediction (as an object: [n]
    with its ancestors) *)
Definition next_rule (cl : list lineage -> list Z -> cres result) : Prop :=
  forall (gs : list lineage) ds r (g : lineage), cl gs ds = COk r -> nth_error gs (r_closest r) = Some g ->
  exists b, g = b ++ r_predicted r /\ none_within (r_dist r) b /\
    ((r_next r = [] /\ none_thr b) \/
     (exists b1 n b2, b = b1 ++ n :: b2 /\ has_thr n = true /\ none_thr b2 /\
                      r_next r = n :: b2 ++ r_predicted r)).

Definition spec_predicted (d : Z) (g : lineage) : option taxon := find (within d) g.
Definition spec_next (d : Z) (g : lineage) : option taxon := last_opt (filter has_thr (below d g)).
Definition spec_report (d : Z) (g : lineage) : option taxon := find t_report (at_or_above d g).

(** observation of a result: taxa by id *)
Record obs : Type := mkObs {
  o_closest : nat;
  o_dist : Z;
  o_predicted : option Z;
  o_primary : option nat;
  o_next : option Z;
  o_report : option Z;
}.

Definition top_id (l : lineage) : option Z := option_map t_id (hd_error l).

Definition observe (r : result) : obs :=
  {| o_closest := r_closest r; o_dist := r_dist r;
     o_predicted := top_id (r_predicted r);
     o_primary := r_primary r;
     o_next := top_id (r_next r);
     o_report := top_id (r_report r) |}.

Definition optZ_eqb (a b : option Z) : bool :=
  match a, b with
  | None, None => true
  | Some x, Some y => x =? y
  | _, _ => false
  end.

Definition optnat_eqb (a b : option nat) : bool :=
  match a, b with
  | None, None => true
  | Some x, Some y => Nat.eqb x y
  | _, _ => false
  end.

Definition check (gs : list lineage) (ds : list Z) (o : obs) : bool :=
  match nth_error gs (o_closest o), nth_error ds (o_closest o) with
  | Some (t :: up), Some d =>
      let g := t :: up in
      (o_dist o =? d)
      && forallb (fun x => d <=? x) ds
      && optZ_eqb (o_predicted o) (option_map t_id (spec_predicted d g))
      && optnat_eqb (o_primary o)
           (match spec_predicted d g with Some _ => Some (o_closest o) | None => None end)
      && optZ_eqb (o_next o) (option_map t_id (spec_next d g))
      && optZ_eqb (o_report o) (option_map t_id (spec_report d g))
  | _, _ => false
  end.
