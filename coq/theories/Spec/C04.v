(** C04 -- specification vocabulary: what "every genome is compared through its own signature,
    matched by ID" and "exactly one genome file and one signature file" mean, independently of the
    loader's algorithm.  No proofs in this file. *)
From Coq Require Import ZArith List Bool Arith.
From GV Require Import Model.C04.
Import ListNotations.

(** number of signatures of the file that carry identifier [i] *)
Definition occ (i : idv) (ids : list idv) : nat := length (filter (idv_eqb i) ids).

(** a signature file: stored identifier and signature, in file order *)
Definition sigfile (S : Type) : Type := list (idv * S).

(** the signatures of the file stored under identifier [i] (a permutation-invariant notion:
    unaffected by the file order and by signatures stored under other identifiers) *)
Definition sigs_with {S} (i : idv) (file : sigfile S) : sigfile S :=
  filter (fun e => idv_eqb i (fst e)) file.

(** [g] is described by exactly the signature [s] of [file] *)
Definition own_signature {S} (a : attr) (file : sigfile S) (g : genome) (s : S) : Prop :=
  exists i, get_id a g = Some i /\ sigs_with i file = [(i, s)].

(** the signature file is complete and unambiguous for the genome set under attribute [a]:
    every genome has a value, exactly one signature carries it, and no two genomes share one *)
Definition complete (a : attr) (gs : list genome) (ids : list idv) : Prop :=
  (forall g, In g gs -> exists i, get_id a g = Some i /\ occ i ids = 1) /\
  NoDup (map (get_id a) gs).

(** executable version of [complete] (used as oracle by the harness; proved equivalent) *)
Fixpoint mem_oid (x : option idv) (l : list (option idv)) : bool :=
  match l with [] => false | y :: r => oid_eqb x y || mem_oid x r end.
Fixpoint distinct_oids (l : list (option idv)) : bool :=
  match l with [] => true | x :: r => negb (mem_oid x r) && distinct_oids r end.

Definition completeb (a : attr) (gs : list genome) (ids : list idv) : bool :=
  forallb (fun g => match get_id a g with Some i => Nat.eqb (occ i ids) 1 | None => false end) gs
  && distinct_oids (map (get_id a) gs).

(** [g] is the one and only entry of the directory whose name satisfies [p] *)
Definition exactly_one (p : name -> bool) (listing : list name) (g : name) : Prop :=
  In g listing /\ p g = true /\ forall x, In x listing -> p x = true -> x = g.

(** a name "ends in extension [ext]" in the sense of a file extension: non-empty stem *)
Definition has_ext (ext n : name) : Prop := exists stem, stem <> [] /\ n = stem ++ ext.

(** the parallel lists are aligned: genomes[j] carries the identifier stored at sig_indices[j] *)
Definition aligned (a : attr) (ids : list idv) (genomes : list genome) (idxs : list nat) : Prop :=
  Forall2 (fun g k => exists i, get_id a g = Some i /\ nth_error ids k = Some i) genomes idxs.
