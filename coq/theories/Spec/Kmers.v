(** Specification vocabulary for nucleotide sequences and k-mers:
    base-4 positional code, case folding, complement, reverse complement. *)
From Coq Require Import ZArith List Bool Lia.
Import ListNotations.
Open Scope Z_scope.

(** digit of a nucleotide byte, either case; [None] for every other byte *)
Definition code (b : Z) : option Z :=
  if (b =? 65) || (b =? 97) then Some 0
  else if (b =? 67) || (b =? 99) then Some 1
  else if (b =? 71) || (b =? 103) then Some 2
  else if (b =? 84) || (b =? 116) then Some 3
  else None.

(** upper-case letter of a digit *)
Definition letter (d : Z) : Z :=
  if d =? 0 then 65 else if d =? 1 then 67 else if d =? 2 then 71 else 84.

Fixpoint codes (w : list Z) : option (list Z) :=
  match w with
  | [] => Some []
  | b :: t =>
      match code b, codes t with
      | Some c, Some cs => Some (c :: cs)
      | _, _ => None
      end
  end.

(** positional value, first digit most significant *)
Fixpoint pos_value (ds : list Z) : Z :=
  match ds with
  | [] => 0
  | d :: t => d * 4 ^ (Z.of_nat (length t)) + pos_value t
  end.

(** the index of a k-mer: defined for at most 32 nucleotides, all in ACGTacgt *)
Definition spec_encode (w : list Z) : option Z :=
  if (Z.of_nat (length w) <=? 32) then
    match codes w with Some ds => Some (pos_value ds) | None => None end
  else None.

(** i-th (from the left) base-4 digit of [idx] written with [k] digits *)
Definition digit_at (k : nat) (idx : Z) (i : nat) : Z :=
  (idx / 4 ^ (Z.of_nat (k - 1 - i))) mod 4.

Definition spec_decode (k : nat) (idx : Z) : list Z :=
  map (fun i => letter (digit_at k idx i)) (seq 0 k).

(** ASCII case folding *)
Definition upper (b : Z) : Z := if (97 <=? b) && (b <=? 122) then b - 32 else b.
Definition lower (b : Z) : Z := if (65 <=? b) && (b <=? 90) then b + 32 else b.

(** complement: swaps A/T and C/G in each case, fixes every other byte *)
Definition comp (b : Z) : Z :=
  if b =? 65 then 84 else if b =? 84 then 65
  else if b =? 97 then 116 else if b =? 116 then 97
  else if b =? 67 then 71 else if b =? 71 then 67
  else if b =? 99 then 103 else if b =? 103 then 99
  else b.

Definition spec_revcomp (s : list Z) : list Z := rev (map comp s).

Definition is_byte (b : Z) : bool := (0 <=? b) && (b <? 256).
Definition is_ACGT (b : Z) : bool := (b =? 65) || (b =? 67) || (b =? 71) || (b =? 84).
