(** C14 in the property's own vocabulary.

    A run of a command is *silent about a mismatch* when it finishes with status 0 although it
    compared signatures built with different k-mer parameters; a mismatch is *reported* when the
    run carries an error, the exit status is non-zero and nothing was written.  [spec_dist] is the
    declarative reading of "both sides of every comparison always use the same parameters": collect
    the parameters of every source that is present (explicit options, pre-computed query
    signatures, pre-computed reference signatures or the database); if they all agree that is the
    parameter set everything is computed with (the default one when there is none), if they do not
    the command must fail. *)
From Coq Require Import ZArith List Bool.
From GV Require Import Model.C14.
Import ListNotations.
Open Scope Z_scope.

Definition compares_equal (r : run) : Prop :=
  forall a b, In (Compare a b) (steps r) -> a = b.

(** every signature computed from files is computed with the parameters of the side it is
    compared on *)
Definition computed_consistently (r : run) : Prop :=
  forall sd s, In (Calc sd s) (steps r) ->
  forall a b, In (Compare a b) (steps r) -> match sd with Query => a | Ref => b end = s.

Definition reported (r : run) : Prop :=
  exit_status r <> 0 /\ ~ In Write (steps r) /\ (forall a b, ~ In (Compare a b) (steps r)) /\
  exists e, error r = Some e.

Definition silent_mismatch (r : run) : Prop :=
  exit_status r = 0 /\ In Write (steps r) /\ exists a b, In (Compare a b) (steps r) /\ a <> b.

(** boolean versions, used by the harness as the oracle on what the model returns *)
Definition step_ok (st : step) : bool :=
  match st with Compare a b => kspec_eqb a b | _ => true end.
Definition is_write (st : step) : bool := match st with Write => true | _ => false end.
Definition is_compare (st : step) : bool := match st with Compare _ _ => true | _ => false end.

Definition run_ok (r : run) : bool :=
  forallb step_ok (steps r) &&
  (if exit_status r =? 0 then existsb is_write (steps r) && negb (match error r with Some _ => true | None => false end)
   else negb (existsb is_write (steps r)) && negb (existsb is_compare (steps r)) &&
        match error r with Some _ => true | None => false end).

(* ---- the distance command ------------------------------------------------------------------ *)

Definition opt_list {A} (o : option A) : list A := match o with Some a => [a] | None => [] end.

(** explicit options, when given and acceptable *)
Definition explicit_params (k : option Z) (prefix : option (list Z)) : list kspec :=
  match kspec_from_params k prefix false with Ok (Some s) => [s] | _ => [] end.

(** the pre-computed reference signatures: --rs file, else the database with --use-db *)
Definition dist_ref_source (o : dist_opts) : option kspec :=
  match d_rs o with Some s => Some s | None => if d_use_db o then d_db o else None end.

Definition dist_params (o : dist_opts) : list kspec :=
  explicit_params (d_k o) (d_prefix o) ++ opt_list (d_qs o) ++ opt_list (dist_ref_source o).

Definition all_agree (l : list kspec) : option kspec :=
  match l with
  | [] => Some default_kspec
  | s :: rest => if forallb (kspec_eqb s) rest then Some s else None
  end.

(** [Some s]: run, everything with [s]; [None]: must be refused *)
Definition spec_dist (o : dist_opts) : option kspec := all_agree (dist_params o).

(** the command line is well formed: one query source, one reference source, a database when
    --use-db asks for one, -k/--prefix both or neither and acceptable *)
Definition exactly_one (l : list bool) : bool := Nat.eqb (count_true l) 1.

Definition dist_wf (o : dist_opts) : bool :=
  exactly_one [d_q o; d_ql o; is_some (d_qs o)] &&
  exactly_one [d_r o; d_rl o; is_some (d_rs o); d_use_db o; d_square o] &&
  (negb (d_use_db o) || is_some (d_rs o) || is_some (d_db o)) &&
  match kspec_from_params (d_k o) (d_prefix o) false with Ok _ => true | Failed _ => false end.

(** what a correct distance run looks like when everything uses [s] *)
Definition dist_steps_with (o : dist_opts) (s : kspec) : list step :=
  (if is_some (d_qs o) then [] else [Calc Query s]) ++
  (if d_square o || is_some (dist_ref_source o) then [] else [Calc Ref s]) ++
  [Compare s s; Write].

(* ---- the query command --------------------------------------------------------------------- *)

Definition query_wf (o : query_opts) : bool :=
  exactly_one [q_files o; q_list o; is_some (q_sigfile o)] && is_some (q_db o).

Definition spec_query (o : query_opts) : option kspec :=
  all_agree (opt_list (q_sigfile o) ++ opt_list (q_db o)).
