(** C20 -- specification: what a plain Python list (and, for index arrays and masks, a
    NumPy object array) does when indexed, mutated and compared.

    A signature is a list of integers, a collection is a list of signatures.  Nothing here
    mentions the (values, bounds) representation, [slice.indices], [np.arange] or loops:
    an integer index names one position, a slice names the positions of an arithmetic
    progression by a membership predicate, an index array is a pointwise lookup, a mask is a
    filter, mutations are [firstn]/[skipn] surgery. *)
From Coq Require Import ZArith List Bool.
Import ListNotations.
Open Scope Z_scope.

Definition sig := list Z.

(** errors the property distinguishes; [NumpyError] is any failure inside NumPy/h5py below the
    indexing layer (bounds lookup out of range, copyto shape mismatch), [OutOfFuel] a model loop
    that did not terminate on its fuel -- both are proved unreachable for the repaired code *)
Inductive perr : Type := IndexError | TypeError | ValueError | NumpyError | OutOfFuel.

(** start/stop/step of a slice object: None, an integer, or something else *)
Inductive sarg : Type := SNone | SInt (z : Z) | SBad.

(** index array dtype: bit width and signedness *)
Inductive dtype : Type := DT (bits : Z) (signed : bool).

(** the index expressions of the property *)
Inductive pidx : Type :=
| PInt (i : Z)                         (* int / np.integer *)
| PSlice (a b s : sarg)                (* slice object *)
| PInts (dt : dtype) (xs : list Z)     (* one-dimensional integer array or sequence of ints *)
| PMask (m : list bool)                (* one-dimensional boolean array or sequence of bools *)
| PNoLen                               (* not an int, slice, array and without len(): float, None *)
| PBadArr.                             (* np.asarray gives ndim <> 1 or a non-integer, non-bool dtype *)

Inductive sres : Type := RSig (s : sig) | RColl (l : list sig) | RErr (e : perr).

Definition zlen {A} (l : list A) : Z := Z.of_nat (length l).
Definition znth (l : list sig) (i : Z) : sig := nth (Z.to_nat i) l [].
Definition seqZ (n : Z) : list Z := map Z.of_nat (seq 0 (Z.to_nat n)).

(** an index [i] is legal for length [n] iff [-n <= i < n]; it names position [i] or [i + n] *)
Definition in_range (n i : Z) : bool := (- n <=? i) && (i <? n).
Definition pos (n i : Z) : Z := if i <? 0 then i + n else i.

Definition spec_int (l : list sig) (i : Z) : sres :=
  if in_range (zlen l) i then RSig (znth l (pos (zlen l) i)) else RErr IndexError.

(** slices (Python language reference, 'Sequence types', notes 3-5): negative start/stop are
    relative to the end, then clamped to [0, n] (positive step) or [-1, n-1] (negative step);
    omitted ones are the 'end' values *)
Definition clamp (lo hi x : Z) : Z := Z.max lo (Z.min hi x).
Definition spec_bound (n step : Z) (x : option Z) (dflt_up dflt_down : Z) : Z :=
  match x with
  | None => if 0 <? step then dflt_up else dflt_down
  | Some i => if 0 <? step then clamp 0 n (pos n i) else clamp (-1) (n - 1) (pos n i)
  end.
Definition spec_start n step a := spec_bound n step a 0 (n - 1).
Definition spec_stop n step b := spec_bound n step b n (-1).

(** position [p] belongs to the slice *)
Definition selected (start stop step p : Z) : bool :=
  if 0 <? step then (start <=? p) && (p <? stop) && ((p - start) mod step =? 0)
  else (stop <? p) && (p <=? start) && ((start - p) mod (- step) =? 0).

Definition spec_slice_positions (n : Z) (a b : option Z) (step : Z) : list Z :=
  let ps := filter (selected (spec_start n step a) (spec_stop n step b) step) (seqZ n) in
  if 0 <? step then ps else rev ps.

Definition sarg_opt (x : sarg) : option Z := match x with SInt z => Some z | _ => None end.
Definition sarg_bad (x : sarg) : bool := match x with SBad => true | _ => false end.

Definition spec_slice (l : list sig) (a b s : sarg) : sres :=
  if sarg_bad a || sarg_bad b || sarg_bad s then RErr TypeError
  else
    let step := match s with SInt z => z | _ => 1 end in
    if step =? 0 then RErr ValueError
    else RColl (map (znth l) (spec_slice_positions (zlen l) (sarg_opt a) (sarg_opt b) step)).

Definition spec_take (l : list sig) (xs : list Z) : sres :=
  if forallb (in_range (zlen l)) xs then RColl (map (fun i => znth l (pos (zlen l) i)) xs)
  else RErr IndexError.

Definition spec_mask (l : list sig) (m : list bool) : sres :=
  if zlen m =? zlen l then RColl (map fst (filter snd (combine l m))) else RErr IndexError.

Definition list_getitem (l : list sig) (idx : pidx) : sres :=
  match idx with
  | PInt i => spec_int l i
  | PSlice a b s => spec_slice l a b s
  | PInts _ xs => spec_take l xs
  | PMask m => spec_mask l m
  | PNoLen => RErr TypeError
  | PBadArr => RErr IndexError
  end.

(** list mutations with an integer index *)
Inductive mop : Type :=
| MSet (i : Z) (x : sig)      (* l[i] = x *)
| MDel (i : Z)                (* del l[i] *)
| MIns (i : Z) (x : sig)      (* l.insert(i, x) *)
| MPop (i : Z)                (* l.pop(i): the removed element is observed *)
| MApp (x : sig).             (* l.append(x) *)

Definition zfirstn {A} (n : Z) (l : list A) := firstn (Z.to_nat n) l.
Definition zskipn {A} (n : Z) (l : list A) := skipn (Z.to_nat n) l.

(** outcome of one mutation: new list and what the caller observes (nothing, the popped
    element, or IndexError with the list unchanged) *)
Definition spec_mop (l : list sig) (o : mop) : list sig * sres :=
  let n := zlen l in
  match o with
  | MSet i x => if in_range n i then (zfirstn (pos n i) l ++ x :: zskipn (pos n i + 1) l, RColl [])
                else (l, RErr IndexError)
  | MDel i => if in_range n i then (zfirstn (pos n i) l ++ zskipn (pos n i + 1) l, RColl [])
              else (l, RErr IndexError)
  | MIns i x => let p := clamp 0 n (pos n i) in (zfirstn p l ++ x :: zskipn p l, RColl [])
  | MPop i => if in_range n i then (zfirstn (pos n i) l ++ zskipn (pos n i + 1) l, RSig (znth l (pos n i)))
              else (l, RErr IndexError)
  | MApp x => (l ++ [x], RColl [])
  end.

Fixpoint spec_history (l : list sig) (ops : list mop) : list sig * list sres :=
  match ops with
  | [] => (l, [])
  | o :: r => let '(l1, out) := spec_mop l o in
              let '(l2, outs) := spec_history l1 r in (l2, out :: outs)
  end.

(** content equality *)
Definition sig_eqb (a b : sig) : bool := if list_eq_dec Z.eq_dec a b then true else false.
Definition sigs_eqb (a b : list sig) : bool := if list_eq_dec (list_eq_dec Z.eq_dec) a b then true else false.
Definition spec_eq (k1 : Z) (l1 : list sig) (k2 : Z) (l2 : list sig) : bool := (k1 =? k2) && sigs_eqb l1 l2.
