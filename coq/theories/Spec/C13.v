(** C13 -- specification vocabulary: what "one signature per file, in input order, each equal to
    the single-file result, or the whole call fails" means.

    A file is abstracted by the outcome of [calc_file_signature] on it ([fres]): a signature
    (any type [A]; the harness uses the list of k-mer indices) or the exception it raises
    (a small enum, [Z]).  No proofs here. *)
From Coq Require Import ZArith List Bool.
Import ListNotations.
Open Scope Z_scope.

(** outcome of [calc_file_signature(kspec, file)] *)
Inductive fres (A : Type) : Type :=
| FOk (sig : A)
| FErr (code : Z).
Arguments FOk {A} sig.
Arguments FErr {A} code.

(** outcome of [calc_file_signatures(kspec, files, ...)] *)
Inductive outcome (A : Type) : Type :=
| Done (sigs : list A)        (* returned SignatureList, as a Python list *)
| Raised (code : Z)           (* a file's exception propagated to the caller *)
| AssertFailed                (* calc.py:274  assert all(sig is not None ...) *)
| KeyErr                      (* future_to_index[future] on a future that was never stored *)
| IndexErr                    (* sigs[i] = ... outside the list *)
| BadConcurrency.             (* calc.py:246  ValueError for an unknown concurrency string *)
Arguments Done {A} sigs.
Arguments Raised {A} code.
Arguments AssertFailed {A}.
Arguments KeyErr {A}.
Arguments IndexErr {A}.
Arguments BadConcurrency {A}.

Definition is_ok {A} (r : fres A) : bool := match r with FOk _ => true | FErr _ => false end.
Definition all_ok {A} (rs : list (fres A)) : bool := forallb is_ok rs.

(** the signatures of the readable files, in file order *)
Fixpoint values {A} (rs : list (fres A)) : list A :=
  match rs with
  | [] => []
  | FOk v :: r => v :: values r
  | FErr _ :: r => values r
  end.

(** the exceptions of the unreadable files, in file order *)
Fixpoint err_codes {A} (rs : list (fres A)) : list Z :=
  match rs with
  | [] => []
  | FOk _ :: r => err_codes r
  | FErr c :: r => c :: err_codes r
  end.

(** the list the call must return when every file is readable (executable form) *)
Definition spec_sigs {A} (rs : list (fres A)) : option (list A) :=
  if all_ok rs then Some (values rs) else None.

(** [out] has exactly one entry per file, in file order, each the single-file result *)
Definition in_file_order {A} (rs : list (fres A)) (out : list A) : Prop :=
  Forall2 (fun r s => r = FOk s) rs out.

(** the property: either the in-order list, or the call fails with the exception of one of the
    files; never anything else (in particular no list with a missing, duplicated or misplaced
    entry, and no list at all when a file is unreadable) *)
Definition spec_outcome {A} (rs : list (fres A)) (o : outcome A) : Prop :=
  match o with
  | Done out => in_file_order rs out
  | Raised c => In c (err_codes rs)
  | _ => False
  end.
