(** Hand model of src/gambit/kmers.py (find_kmers, KmerMatch) and src/gambit/sigs/calc.py
    (accumulate_kmers, the two accumulators, calc_signature), calling the encoders generated from
    kmers.pyx. *)
From Coq Require Import ZArith List Bool.
From GV Require Import Base.CSem Gen.KmersPyx Spec.Kmers Spec.C01.
Import ListNotations.
Open Scope Z_scope.

(** * CPython bytes semantics *)

(** [bytes.find(sub, start, end)]: indices are adjusted as by PySlice_AdjustIndices (negative values
    count from the end and are clamped to 0, large ones to len); the result is the lowest index
    [i >= start] with [i + len(sub) <= end] where [sub] occurs, or -1. *)
Definition adjust_index (len i : Z) : Z :=
  if i <? 0 then Z.max 0 (i + len) else Z.min i len.

Fixpoint starts_with (sub s : list Z) : bool :=
  match sub, s with
  | [], _ => true
  | x :: sub', y :: s' => (x =? y) && starts_with sub' s'
  | _ :: _, [] => false
  end.

(** scan the suffix [s] (which begins at absolute index [i]) for [sub], positions up to [last] *)
Fixpoint find_scan (sub s : list Z) (i last : Z) : Z :=
  if last <? i then -1
  else if starts_with sub s then i
  else match s with
       | [] => -1
       | _ :: t => find_scan sub t (i + 1) last
       end.

Definition py_find (h sub : list Z) (start end_ : Z) : Z :=
  let len := mv_len h in
  let st := adjust_index len start in
  let en := adjust_index len end_ in
  find_scan sub (skipn (Z.to_nat st) h) st (en - mv_len sub).

(** [s[a:b]] for integer (possibly negative) bounds *)
Definition py_slice (s : list Z) (a b : Z) : list Z :=
  let len := mv_len s in
  let a' := adjust_index len a in
  let b' := adjust_index len b in
  firstn (Z.to_nat (b' - a')) (skipn (Z.to_nat a') s).

(** * find_kmers *)

Definition lower_nucs : list Z := [97; 99; 103; 116].
Definition has_lower_nuc (s : list Z) : bool :=
  existsb (fun b => existsb (Z.eqb b) lower_nucs) s.
(** the haystack is upper-cased only if it contains one of acgt *)
Definition haystack (s : list Z) : list Z := if has_lower_nuc s then map upper s else s.

(** a match: (pos, reverse) as in KmerMatch *)
Definition kmatch : Type := (Z * bool)%type.

(** forward loop: loc = find(prefix, start, -k); restart at loc + 1 *)
Fixpoint fwd_loop (fuel : nat) (h p : list Z) (k start : Z) (acc : list kmatch) : res (list kmatch) :=
  match fuel with
  | O => Error OutOfFuel
  | S f =>
      let loc := py_find h p start (- k) in
      if loc <? 0 then Ok (rev acc)
      else fwd_loop f h p k (loc + 1) ((loc, false) :: acc)
  end.

(** reverse loop: loc = find(prefix_rc, start) from start = k; match position loc + plen - 1 *)
Fixpoint rev_loop (fuel : nat) (h prc : list Z) (plen start : Z) (acc : list kmatch) : res (list kmatch) :=
  match fuel with
  | O => Error OutOfFuel
  | S f =>
      let loc := py_find h prc start (mv_len h) in
      if loc <? 0 then Ok (rev acc)
      else rev_loop f h prc plen (loc + 1) ((loc + plen - 1, true) :: acc)
  end.

Definition find_kmers (k : Z) (p s : list Z) : res (list kmatch) :=
  let h := haystack s in
  let fuel := S (length s) in
  match fwd_loop fuel h p k 0 [] with
  | Error e => Error e
  | Ok fw =>
      match revcomp p with
      | Error e => Error e
      | Ok prc =>
          match rev_loop fuel h prc (mv_len p) k [] with
          | Error e => Error e
          | Ok rv => Ok (fw ++ rv)
          end
      end
  end.

(** KmerMatch.kmer_indices / kmer_index on the ORIGINAL sequence; [None] = ValueError (skipped) *)
Definition kmer_index (k : Z) (p s : list Z) (m : kmatch) : res (option Z) :=
  let plen := mv_len p in
  let total := plen + k in
  let '(pos, reverse) := m in
  let sl := if reverse then py_slice s (pos - total + 1) (pos - plen + 1)
            else py_slice s (pos + plen) (pos + total) in
  match (if reverse then kmer_to_index_rc sl else kmer_to_index sl) with
  | Ok v => Ok (Some v)
  | Error ValueError => Ok None
  | Error e => Error e
  end.

(** accumulate_kmers: indices of all matches of one sequence, in match order *)
Fixpoint kmer_indices (k : Z) (p s : list Z) (ms : list kmatch) : res (list Z) :=
  match ms with
  | [] => Ok []
  | m :: t =>
      match kmer_index k p s m, kmer_indices k p s t with
      | Ok (Some v), Ok vs => Ok (v :: vs)
      | Ok None, Ok vs => Ok vs
      | Error e, _ => Error e
      | _, Error e => Error e
      end
  end.

Definition seq_indices (k : Z) (p s : list Z) : res (list Z) :=
  match find_kmers k p s with
  | Error e => Error e
  | Ok ms => kmer_indices k p s ms
  end.

Fixpoint all_indices (k : Z) (p : list Z) (seqs : list (list Z)) : res (list Z) :=
  match seqs with
  | [] => Ok []
  | s :: t =>
      match seq_indices k p s, all_indices k p t with
      | Ok a, Ok b => Ok (a ++ b)
      | Error e, _ => Error e
      | _, Error e => Error e
      end
  end.

(** * accumulators *)

(** SetAccumulator: a set, then sorted *)
Definition set_signature (idxs : list Z) : list Z := sort_dedup idxs.

(** ArrayAccumulator: dense boolean array of length 4^k; add = array[i] = True; IndexError
    outside; signature = flatnonzero *)
Fixpoint dense_add (arr : list bool) (idxs : list Z) : res (list bool) :=
  match idxs with
  | [] => Ok arr
  | i :: t =>
      match mv_set arr i true with
      | Some arr' => dense_add arr' t
      | None => Error OOB
      end
  end.
Fixpoint flatnonzero_from (i : Z) (arr : list bool) : list Z :=
  match arr with
  | [] => []
  | b :: t => if b then i :: flatnonzero_from (i + 1) t else flatnonzero_from (i + 1) t
  end.
Definition dense_signature (k : Z) (idxs : list Z) : res (list Z) :=
  match dense_add (repeat false (Z.to_nat (4 ^ k))) idxs with
  | Ok arr => Ok (flatnonzero_from 0 arr)
  | Error e => Error e
  end.

(** index_dtype(k): item size in bytes *)
Definition index_dtype (k : Z) : option Z :=
  if k <=? 4 then Some 1 else if k <=? 8 then Some 2 else if k <=? 16 then Some 4
  else if k <=? 32 then Some 8 else None.

(** calc_signature(kspec, seqs, accumulator): [dense] selects the ArrayAccumulator.
    Result: (sorted unique indices, item size of the dtype) *)
Definition calc_signature (dense : bool) (k : Z) (p : list Z) (seqs : list (list Z))
  : res (list Z * option Z) :=
  match all_indices k p seqs with
  | Error e => Error e
  | Ok idxs =>
      if dense then
        match dense_signature k idxs with
        | Ok sig => Ok (sig, index_dtype k)
        | Error e => Error e
        end
      else Ok (set_signature idxs, index_dtype k)
  end.
