(** C11 -- model of CPython's [csv] writer and reader as used by
    [gambit.results.CSVResultsExporter] (src/gambit/results.py:77-121).

    Strings are lists of code points ([Z]).  No proofs here.

    Writer = [_csv.c] [csv_writerow] / [join_append_data] for the dialect the exporter configures:
    delimiter comma, quotechar double-quote (code 34), doublequote, QUOTE_MINIMAL, no escapechar.  Under CPython <= 3.12
    a field is quoted iff it contains the delimiter, the quote character or a character *of the
    configured line terminator* ([lt]); a record consisting of one empty field is written as two quote characters.
    One call of [file.write] per record ([write_record]).

    Reader = [_csv.c] [parse_process_char] driven by [Reader_iternext] over the lines of a text
    stream opened with [newline=''] (lines end after LF, after CR LF, or after a CR not followed
    by LF; terminators are kept).  The line splitting is folded into the character machine:
    state [ECR] = "a CR has just ended a record/line, an LF that follows belongs to that line". *)
From Coq Require Import ZArith List Bool.
Import ListNotations.
Open Scope Z_scope.

Definition str := list Z.

Definition in_str (c : Z) (s : str) : bool := existsb (Z.eqb c) s.

(** ---- writer ------------------------------------------------------------------------- *)

(** [join_append_data]: does this character force quoting?  [lt] = the dialect's lineterminator *)
Definition needs_quote (lt : str) (c : Z) : bool := (c =? 44) || (c =? 34) || in_str c lt.

(** doubling of the quote character inside a quoted field *)
Fixpoint dbl (f : str) : str :=
  match f with
  | [] => []
  | c :: t => if c =? 34 then 34 :: 34 :: dbl t else c :: dbl t
  end.

Definition wfield (lt : str) (f : str) : str :=
  if existsb (needs_quote lt) f then 34 :: dbl f ++ [34] else f.

Fixpoint join_fields (fs : list str) : str :=
  match fs with
  | [] => []
  | [f] => f
  | f :: t => f ++ 44 :: join_fields t
  end.

(** the string one [writer.writerow(row)] passes to [file.write] *)
Definition write_record (lt : str) (row : list str) : str :=
  match row with
  | [[]] => [34; 34] ++ lt          (* single empty field: rec_len = 0 -> quoted *)
  | _ => join_fields (map (wfield lt) row) ++ lt
  end.

(** the unchanged exporter: [csv.writer(f, lineterminator='\n', quoting=QUOTE_MINIMAL)] *)
Definition csv_write_old (rows : list (list str)) : str :=
  concat (map (write_record [10]) rows).

(** the repaired exporter (repo_fixes/C11.diff): the csv writer is configured with the csv module's
    default terminator CR LF -- so that CR forces quoting like LF does -- and writes into an adapter
    whose [write(record)] replaces the record's final two characters by the real terminator. *)
Definition adapter_write (lt : str) (record : str) : str :=
  firstn (length record - 2) record ++ lt.

Definition csv_write_fixed (rows : list (list str)) : str :=
  concat (map (fun row => adapter_write [10] (write_record [13; 10] row)) rows).

(** the side condition under which the unchanged writer is invertible: a field containing a
    carriage return also contains a comma, a double quote or a line feed *)
Definition cr_ok (f : str) : bool := negb (in_str 13 f) || existsb (needs_quote [10]) f.
Definition rows_cr_ok (rows : list (list str)) : bool := forallb (forallb cr_ok) rows.

(** ---- reader ------------------------------------------------------------------------- *)

Inductive rstate : Type :=
| SR   (* START_RECORD *)
| SF   (* START_FIELD *)
| IFD  (* IN_FIELD *)
| IQ   (* IN_QUOTED_FIELD *)
| QQ   (* QUOTE_IN_QUOTED_FIELD *)
| ECR. (* EAT_CRNL after a CR, line not yet known to be over *)

(** parser state: automaton state, current field (reversed), fields of the current record
    (reversed), finished records (reversed) *)
Inductive pstate : Type := PS (st : rstate) (fld : str) (row : list str) (out : list (list str)).

Definition is_nl (c : Z) : bool := (c =? 10) || (c =? 13).
(** state after a character that ended a record: LF ends the line, CR may be followed by LF *)
Definition eol (c : Z) : rstate := if c =? 13 then ECR else SR.

Definition save (fld : str) (row : list str) : list str := rev fld :: row.
Definition emit (row : list str) (out : list (list str)) : list (list str) := rev row :: out.

(** START_FIELD on a character that is not a line break *)
Definition start_field (row : list str) (out : list (list str)) (c : Z) : pstate :=
  if c =? 34 then PS IQ [] row out
  else if c =? 44 then PS SF [] (save [] row) out
  else PS IFD [c] row out.

Definition step_sr (out : list (list str)) (c : Z) : pstate :=
  if is_nl c then PS (eol c) [] [] (emit [] out)        (* empty line: the reader returns [] *)
  else start_field [] out c.

Definition step (s : pstate) (c : Z) : pstate :=
  match s with
  | PS SR _ _ out => step_sr out c
  | PS ECR _ _ out => if c =? 10 then PS SR [] [] out else step_sr out c
  | PS SF fld row out =>
      if is_nl c then PS (eol c) [] [] (emit (save [] row) out) else start_field row out c
  | PS IFD fld row out =>
      if is_nl c then PS (eol c) [] [] (emit (save fld row) out)
      else if c =? 44 then PS SF [] (save fld row) out
      else PS IFD (c :: fld) row out
  | PS IQ fld row out =>
      if c =? 34 then PS QQ fld row out else PS IQ (c :: fld) row out
  | PS QQ fld row out =>
      if c =? 34 then PS IQ (34 :: fld) row out
      else if c =? 44 then PS SF [] (save fld row) out
      else if is_nl c then PS (eol c) [] [] (emit (save fld row) out)
      else PS IFD (c :: fld) row out                     (* non-strict dialect *)
  end.

(** end of input: an unterminated last line still yields its record (EOL after the last line,
    or StopIteration inside a quoted field with a non-strict dialect) *)
Definition finish (s : pstate) : list (list str) :=
  match s with
  | PS SR _ _ out | PS ECR _ _ out => rev out
  | PS SF fld row out => rev (emit (save [] row) out)
  | PS IFD fld row out | PS IQ fld row out | PS QQ fld row out => rev (emit (save fld row) out)
  end.

Fixpoint run (s : pstate) (text : str) : list (list str) :=
  match text with
  | [] => finish s
  | c :: t => run (step s c) t
  end.

(** [list(csv.reader(open(path, newline='')))] *)
Definition csv_parse (text : str) : list (list str) := run (PS SR [] [] []) text.
