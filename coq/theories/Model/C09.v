(** C09 -- model of the closest-genomes list (src/gambit/query.py get_result_item) and of the
    closest match (src/gambit/classify.py classify), FIXED algorithm:

        closest = [GenomeMatch(db.genomes[i], dists[i])
                   for i in np.argsort(dists, kind='stable')[:params.report_closest]]
        closest = np.argmin(dists)                              (classify)

    A distance row is a list of integer keys: the harness sends, for every float32 distance d
    (finite, non-negative), the bit pattern of the double with the same value; thresholds
    (Python floats) are sent as the bit pattern of the double.  On non-negative IEEE numbers the
    bit pattern is order-isomorphic to the value, and NumPy-1 compares a float32 scalar with a
    Python float in double precision, so every comparison of the code is the integer comparison
    of the keys.

    NumPy's stable argsort (a stable sort of the index vector by distance) is modelled as a
    merge sort of the (distance, index) pairs under the lexicographic order -- the algorithm is
    the stack-of-runs merge sort of Coq's Sorting.Mergesort, copied here so that this file has
    no proof obligations (Proofs/C09Sort.v shows it is the stdlib functor instance).
    np.argmin is the left-to-right scan keeping the first minimum.
    No proofs in this file. *)
From Coq Require Import ZArith List Bool Arith.
From GV Require Import Base.CSem.
Import ListNotations.
Open Scope Z_scope.

(** ** stable argsort *)

Definition di : Type := (Z * nat)%type.

(** (d1, i1) <= (d2, i2) lexicographically *)
Definition le_di (a b : di) : bool :=
  (fst a <? fst b) || ((fst a =? fst b) && (snd a <=? snd b)%nat).

Fixpoint merge (l1 l2 : list di) : list di :=
  let fix merge_aux l2 :=
  match l1, l2 with
  | [], _ => l2
  | _, [] => l1
  | a1::l1', a2::l2' =>
      if le_di a1 a2 then a1 :: merge l1' l2 else a2 :: merge_aux l2'
  end
  in merge_aux l2.

Fixpoint merge_list_to_stack (stack : list (option (list di))) (l : list di) :=
  match stack with
  | [] => [Some l]
  | None :: stack' => Some l :: stack'
  | Some l' :: stack' => None :: merge_list_to_stack stack' (merge l' l)
  end.

Fixpoint merge_stack (stack : list (option (list di))) : list di :=
  match stack with
  | [] => []
  | None :: stack' => merge_stack stack'
  | Some l :: stack' => merge l (merge_stack stack')
  end.

Fixpoint iter_merge (stack : list (option (list di))) (l : list di) : list di :=
  match l with
  | [] => merge_stack stack
  | a::l' => iter_merge (merge_list_to_stack stack [a]) l'
  end.

Definition sort_di : list di -> list di := iter_merge [].

(** the row with its positions: [(d0,0); (d1,1); ...] *)
Definition indexed (ds : list Z) : list di := combine ds (seq 0 (length ds)).

(** np.argsort(dists, kind='stable') *)
Definition stable_argsort (ds : list Z) : list nat := map snd (sort_di (indexed ds)).

(** np.argsort(dists, kind='stable')[:n] *)
Definition closest_list (n : nat) (ds : list Z) : list nat := firstn n (stable_argsort ds).

(** ** np.argmin: first index of the minimum (ValueError on an empty row) *)

Fixpoint argmin_from (best_i : nat) (best : Z) (i : nat) (l : list Z) : nat :=
  match l with
  | [] => best_i
  | x :: t => if x <? best then argmin_from i x (S i) t else argmin_from best_i best (S i) t
  end.

Definition argmin_first (ds : list Z) : res nat :=
  match ds with
  | [] => Error ValueError
  | x :: t => Ok (argmin_from 0 x 1 t)
  end.

(** ** matching_taxon (classify.py): first taxon of the lineage whose threshold admits d *)

(** a taxon: (parent index or None, distance threshold key or None) *)
Notation taxon := (option nat * option Z)%type (only parsing).

Definition admits (thr : option Z) (d : Z) : bool :=
  match thr with Some t => d <=? t | None => false end.

(** [fuel] bounds the walk up the parent pointers (Python would not terminate on a cyclic
    parent chain: OutOfFuel); a parent/taxon index outside the table is OOB *)
Fixpoint matching_taxon (fuel : nat) (taxa : list taxon) (t : nat) (d : Z) : res (option nat) :=
  match fuel with
  | O => Error OutOfFuel
  | S f =>
    match nth_error taxa t with
    | None => Error OOB
    | Some (par, thr) =>
      if admits thr d then Ok (Some t)
      else match par with
           | None => Ok None
           | Some p => matching_taxon f taxa p d
           end
    end
  end.

(** ** GenomeMatch entries *)

(** the database as far as this property sees it: taxon table and the taxon of every reference
    genome, in reference order *)
Record refdb : Type := { db_taxa : list taxon; db_gtaxon : list nat }.

(** GenomeMatch(genome i, dists[i]) with the default matched_taxon: (index, distance, taxon) *)
Definition genome_match (db : refdb) (ds : list Z) (i : nat) : res (nat * Z * option nat) :=
  match nth_error ds i, nth_error (db_gtaxon db) i with
  | Some d, Some t =>
    match matching_taxon (S (length (db_taxa db))) (db_taxa db) t d with
    | Ok m => Ok (i, d, m)
    | Error e => Error e
    end
  | _, _ => Error OOB
  end.

Fixpoint mapM {A B} (f : A -> res B) (l : list A) : res (list B) :=
  match l with
  | [] => Ok []
  | a :: t => match f a with
              | Error e => Error e
              | Ok b => match mapM f t with Error e => Error e | Ok bs => Ok (b :: bs) end
              end
  end.

(** QueryResultItem.closest_genomes *)
Definition closest_genomes (db : refdb) (n : nat) (ds : list Z) : res (list (nat * Z * option nat)) :=
  mapM (genome_match db ds) (closest_list n ds).

(** ClassifierResult.closest_match *)
Definition closest_match (db : refdb) (ds : list Z) : res (nat * Z * option nat) :=
  match argmin_first ds with
  | Error e => Error e
  | Ok i => genome_match db ds i
  end.

(** get_result_item as far as C09 is concerned: (closest_match, closest_genomes); classify runs
    first, so its error wins *)
Definition result_item (db : refdb) (n : nat) (ds : list Z)
  : res ((nat * Z * option nat) * list (nat * Z * option nat)) :=
  match closest_match db ds with
  | Error e => Error e
  | Ok c => match closest_genomes db n ds with
            | Error e => Error e
            | Ok l => Ok (c, l)
            end
  end.

(** ** well-formedness of the inputs (boolean; the harness checks it on what it generates) *)

(** every parent precedes its children in the table (the harness numbers taxa this way) *)
Definition wf_taxa (taxa : list taxon) : bool :=
  forallb (fun it => match fst (snd it) with None => true | Some p => (p <? fst it)%nat end)
          (combine (seq 0 (length taxa)) taxa).

(** one taxon per reference genome, every taxon index inside the table *)
Definition wf_db (db : refdb) (ds : list Z) : bool :=
  wf_taxa (db_taxa db) && (length (db_gtaxon db) =? length ds)%nat &&
  forallb (fun t => (t <? length (db_taxa db))%nat) (db_gtaxon db).
