(** C04 -- model of loading a reference database and of taking distance-matrix columns through
    the signature indices.

    Follows src/gambit/db/refdb.py ([_check_genome_id_attr], [_check_genomes_have_ids],
    [_map_ids_to_genomes], [genomes_by_id] with [strict=False], [genomes_by_id_subset],
    [ReferenceDatabase.__init__], [locate_files], [load_from_dir]), pathlib's [PurePath.suffix]
    (CPython 3.12) and the chunk loop of src/gambit/metric.py [jaccarddist_matrix] with
    src/gambit/util/misc.py [chunk_slices].

    Representation.
      - an identifier value is an integer (HDF5 integer dataset, [Genome.ncbi_id]) or a string
        (list of code points); Python compares them by value and type ([5 != '5']);
      - a row of the genome set (an [AnnotatedGenome] joined with its [Genome]) is a record of its
        primary key and the four identifier columns, [None] = SQL NULL;
      - [gs : list genome] is what [genomeset.genomes.join(...)] returns, in the order it returns it;
      - the ID -> genome [dict] is an association list with the newest binding first (a later row
        replaces an earlier one with the same key, exactly what the dict comprehension does);
      - the [id_attr] field of the signature file's metadata is [None], one of the four names, or
        some other string ([Unknown]);
      - a directory is the list of its entries: name (code points) and what the entry is.
    Where the code raises, the model returns [Error] with the kind of exception.

    [init_orig] is [ReferenceDatabase.__init__] as found in the repository; [init_fixed] is the
    repaired constructor (repo_fixes/C04.diff): it additionally refuses a signature file in which two
    signatures carry the identifier of the same genome.

    No proofs in this file. *)
From Coq Require Import ZArith List Bool Arith.
Import ListNotations.

(* ------------------------------------------------------------------------------------------ *)
(** * identifiers, genomes *)

Inductive idv : Type :=
| IInt (z : Z)
| IStr (s : list Z).

Fixpoint zs_eqb (a b : list Z) : bool :=
  match a, b with
  | [], [] => true
  | x :: a', y :: b' => Z.eqb x y && zs_eqb a' b'
  | _, _ => false
  end.

Definition idv_eqb (a b : idv) : bool :=
  match a, b with
  | IInt x, IInt y => Z.eqb x y
  | IStr x, IStr y => zs_eqb x y
  | _, _ => false
  end.

Definition oid_eqb (a b : option idv) : bool :=
  match a, b with
  | None, None => true
  | Some x, Some y => idv_eqb x y
  | _, _ => false
  end.

Record genome : Type := mkGenome {
  g_pk : Z;                    (* primary key of the row *)
  g_key : option idv;
  g_genbank : option idv;
  g_refseq : option idv;
  g_ncbi : option idv;
}.

(** "is the same ORM object": one object per row (SQLAlchemy identity map) *)
Definition genome_eqb (a b : genome) : bool :=
  Z.eqb (g_pk a) (g_pk b) && oid_eqb (g_key a) (g_key b) && oid_eqb (g_genbank a) (g_genbank b)
  && oid_eqb (g_refseq a) (g_refseq b) && oid_eqb (g_ncbi a) (g_ncbi b).

(** Genome.ID_ATTRS *)
Inductive attr : Type := AKey | AGenbank | ARefseq | ANcbi.

(** the string stored in the metadata *)
Inductive attrname : Type := Known (a : attr) | Unknown.

Definition get_id (a : attr) (g : genome) : option idv :=
  match a with
  | AKey => g_key g
  | AGenbank => g_genbank g
  | ARefseq => g_refseq g
  | ANcbi => g_ncbi g
  end.

Inductive lerr : Type :=
| EIdAttrNone            (* TypeError: id_attr field of signatures metadata cannot be None *)
| EBadAttr               (* ValueError: Genome ID attribute must be one of ... *)
| EMissingIds (c : nat)  (* RuntimeError: c genomes missing value for ID attribute *)
| EUnmatched (matched n : nat)  (* ValueError: ... genomes not matched to signature IDs *)
| EDuplicate             (* ValueError (repaired constructor): two signatures for one genome *)
| ENoGenomeFile | EMultiGenomeFile | ENoSigFile | EMultiSigFile   (* DatabaseLoadError *)
| ENotGenomeDb | ENotSigFile.   (* the located entry cannot be opened as what it should be *)

Inductive lres (A : Type) : Type :=
| Ok (a : A)
| Error (e : lerr).
Arguments Ok {A} a.
Arguments Error {A} e.

(* ------------------------------------------------------------------------------------------ *)
(** * refdb.py: matching genomes to signature identifiers *)

(** [_check_genome_id_attr] for a string argument *)
Definition check_genome_id_attr (n : attrname) : lres attr :=
  match n with Known a => Ok a | Unknown => Error EBadAttr end.

Definition is_none {A} (o : option A) : bool := match o with None => true | Some _ => false end.

(** [_check_genomes_have_ids]: the COUNT of rows whose attribute IS NULL *)
Definition count_missing (a : attr) (gs : list genome) : nat :=
  length (filter (fun g => is_none (get_id a g)) gs).

(** [_map_ids_to_genomes]: {id_: g for g, id_ in q}; newest binding first *)
Definition dict := list (option idv * genome).

Definition map_ids_to_genomes (a : attr) (gs : list genome) : dict :=
  fold_left (fun d g => (get_id a g, g) :: d) gs [].

(** [d.get(k)] *)
Fixpoint dict_get (d : dict) (k : option idv) : option genome :=
  match d with
  | [] => None
  | (k', g) :: r => if oid_eqb k' k then Some g else dict_get r k
  end.

(** [genomes_by_id(genomeset, id_attr, ids, strict=False)] *)
Definition genomes_by_id (a : attr) (gs : list genome) (ids : list idv) : lres (list (option genome)) :=
  let c := count_missing a gs in
  if Nat.ltb 0 c then Error (EMissingIds c)
  else
    let d := map_ids_to_genomes a gs in
    Ok (map (fun i => dict_get d (Some i)) ids).

(** the loop of [genomes_by_id_subset]:
      for i, g in enumerate(genomes):
          if g is not None: genomes_out.append(g); idxs_out.append(i) *)
Fixpoint subset_loop (i : nat) (l : list (option genome)) : list genome * list nat :=
  match l with
  | [] => ([], [])
  | o :: r =>
      let (gs, ks) := subset_loop (S i) r in
      match o with
      | Some g => (g :: gs, i :: ks)
      | None => (gs, ks)
      end
  end.

Definition genomes_by_id_subset (a : attr) (gs : list genome) (ids : list idv)
  : lres (list genome * list nat) :=
  match genomes_by_id a gs ids with
  | Error e => Error e
  | Ok l => Ok (subset_loop 0 l)
  end.

(** a loaded database: the parallel lists [genomes] and [sig_indices] *)
Definition loaded : Type := (list genome * list nat)%type.

(** [ReferenceDatabase.__init__] as found *)
Definition init_orig (gs : list genome) (meta : option attrname) (ids : list idv) : lres loaded :=
  match meta with
  | None => Error EIdAttrNone
  | Some name =>
      match check_genome_id_attr name with
      | Error e => Error e
      | Ok a =>
          match genomes_by_id_subset a gs ids with
          | Error e => Error e
          | Ok (genomes, idxs) =>
              let n := length gs in                      (* genomeset.genomes.count() *)
              if negb (Nat.eqb (length genomes) n) then Error (EUnmatched (length genomes) n)
              else Ok (genomes, idxs)
          end
      end
  end.

(** [len(set(genomes)) != len(genomes)] *)
Fixpoint mem_genome (g : genome) (l : list genome) : bool :=
  match l with [] => false | x :: r => genome_eqb g x || mem_genome g r end.

Fixpoint has_dup (l : list genome) : bool :=
  match l with [] => false | x :: r => mem_genome x r || has_dup r end.

(** the repaired constructor: the duplicate test precedes the count test *)
Definition init_fixed (gs : list genome) (meta : option attrname) (ids : list idv) : lres loaded :=
  match meta with
  | None => Error EIdAttrNone
  | Some name =>
      match check_genome_id_attr name with
      | Error e => Error e
      | Ok a =>
          match genomes_by_id_subset a gs ids with
          | Error e => Error e
          | Ok (genomes, idxs) =>
              if has_dup genomes then Error EDuplicate
              else
                let n := length gs in
                if negb (Nat.eqb (length genomes) n) then Error (EUnmatched (length genomes) n)
                else Ok (genomes, idxs)
          end
      end
  end.

(* ------------------------------------------------------------------------------------------ *)
(** * pathlib.PurePath.suffix and locate_files *)

Definition name := list Z.
Definition dot : Z := 46%Z.

(** [name.rfind('.')]: index of the last dot *)
Fixpoint rfind_dot (l : name) (i : nat) (acc : option nat) : option nat :=
  match l with
  | [] => acc
  | c :: r => rfind_dot r (S i) (if Z.eqb c dot then Some i else acc)
  end.

(** i = name.rfind('.');  name[i:] if 0 < i < len(name) - 1 else '' *)
Definition suffix (n : name) : name :=
  match rfind_dot n 0 None with
  | Some i => if Nat.ltb 0 i && Nat.ltb (S i) (length n) then skipn i n else []
  | None => []
  end.

Definition ext_gdb : name := [46; 103; 100; 98]%Z.
Definition ext_db : name := [46; 100; 98]%Z.
Definition ext_gs : name := [46; 103; 115]%Z.
Definition ext_h5 : name := [46; 104; 53]%Z.

Definition is_genome_name (n : name) : bool := zs_eqb (suffix n) ext_gdb || zs_eqb (suffix n) ext_db.
Definition is_sig_name (n : name) : bool := zs_eqb (suffix n) ext_gs || zs_eqb (suffix n) ext_h5.

(** the set comprehension {f for f in path.iterdir() if ...}: distinct matching names *)
Fixpoint mem_name (n : name) (l : list name) : bool :=
  match l with [] => false | x :: r => zs_eqb n x || mem_name n r end.

Fixpoint dedup (l : list name) : list name :=
  match l with
  | [] => []
  | x :: r => if mem_name x r then dedup r else x :: dedup r
  end.

Definition matches (p : name -> bool) (listing : list name) : list name := dedup (filter p listing).

(** [locate_files]: the genome file is looked for (and complained about) first *)
Definition locate_files (listing : list name) : lres (name * name) :=
  match matches is_genome_name listing with
  | [] => Error ENoGenomeFile
  | [g] =>
      match matches is_sig_name listing with
      | [] => Error ENoSigFile
      | [s] => Ok (g, s)
      | _ => Error EMultiSigFile
      end
  | _ => Error EMultiGenomeFile
  end.

(** what a directory entry is *)
Inductive content : Type := CGenomeDb | CSigFile | CDir | CJunk.
Definition content_eqb (a b : content) : bool :=
  match a, b with
  | CGenomeDb, CGenomeDb | CSigFile, CSigFile | CDir, CDir | CJunk, CJunk => true
  | _, _ => false
  end.

Fixpoint content_of (n : name) (dir : list (name * content)) : content :=
  match dir with
  | [] => CJunk
  | (x, c) :: r => if zs_eqb n x then c else content_of n r
  end.

(** [load_from_dir]: locate, open both files, construct.  [gs], [meta], [ids] are what the (one)
    genome database and the (one) signature file written by the harness contain. *)
Definition load_from_dir (init : list genome -> option attrname -> list idv -> lres loaded)
    (dir : list (name * content)) (gs : list genome) (meta : option attrname) (ids : list idv)
  : lres loaded :=
  match locate_files (map fst dir) with
  | Error e => Error e
  | Ok (gf, sf) =>
      if negb (content_eqb (content_of gf dir) CGenomeDb) then Error ENotGenomeDb
      else if negb (content_eqb (content_of sf dir) CSigFile) then Error ENotSigFile
      else init gs meta ids
  end.

(* ------------------------------------------------------------------------------------------ *)
(** * metric.py: jaccarddist_matrix with ref_indices, chunk by chunk *)

Inductive merr : Type := MIndexError | MChunkSize.
Inductive mres (A : Type) : Type := MOk (a : A) | MError (e : merr).
Arguments MOk {A} a.
Arguments MError {A} e.

(** [chunk_slices(n, size)] applied to a list: successive slices l[start:start+size] while
    start < n.  Explicit fuel (one slice removes at least one element when size > 0). *)
Fixpoint chunks_fuel {A} (fuel size : nat) (l : list A) : option (list (list A)) :=
  match l with
  | [] => Some []
  | _ :: _ =>
      match fuel with
      | O => None
      | S f =>
          match chunks_fuel f size (skipn size l) with
          | Some r => Some (firstn size l :: r)
          | None => None
          end
      end
  end.

Fixpoint all_some {A} (l : list (option A)) : option (list A) :=
  match l with
  | [] => Some []
  | None :: _ => None
  | Some x :: r => match all_some r with Some r' => Some (x :: r') | None => None end
  end.

Section Matrix.
  Variables (Q S D : Type).
  (** one cell; [jaccarddist_array(query, chunk, out=...)] is [map (dist query) chunk]
      (that the array function agrees cell-wise with the pairwise one is property C05) *)
  Variable dist : Q -> S -> D.

  (** [refs[idx]] for a list of indices: IndexError if one is out of range *)
  Definition getitem (refs : list S) (idx : list nat) : option (list S) :=
    all_some (map (fun i => nth_error refs i) idx).

  (** the slices of [ref_indices]: one slice if chunksize is None *)
  Definition ref_slices (csize : option nat) (idxs : list nat) : mres (list (list nat)) :=
    match csize with
    | None => MOk [idxs]                       (* [slice(0, nrefs)] *)
    | Some O => MError MChunkSize              (* ValueError('Size must be positive') *)
    | Some size =>
        match chunks_fuel (length idxs) size idxs with
        | Some c => MOk c
        | None => MError MChunkSize            (* out of fuel: excluded by C04_chunks_total *)
        end
    end.

  (** out[i, ref_slice] = jaccarddist_array(queries[i], refs[ref_indices[ref_slice]]) for every
      slice; row i of the result is the concatenation over the slices *)
  Definition jaccarddist_matrix (queries : list Q) (refs : list S) (idxs : list nat) (csize : option nat)
    : mres (list (list D)) :=
    match ref_slices csize idxs with
    | MError e => MError e
    | MOk slices =>
        match all_some (map (getitem refs) slices) with
        | None => MError MIndexError
        | Some chunks => MOk (map (fun q => concat (map (map (dist q)) chunks)) queries)
        end
    end.
End Matrix.

Arguments getitem {S} refs idx.

Arguments jaccarddist_matrix {Q S D} dist queries refs idxs csize.
