(** C06 model: gambit.sigs.calc.calc_file_signature =
      open the file (compression recognised from the content, Model/C06Gzip.v)
      -> parse the text as FASTA (Model/C06Fasta.v)
      -> calc_signature over the records' sequences, one shared accumulator (Model/C01.v). *)
From Coq Require Import ZArith List Bool.
From GV Require Import Base.CSem Spec.C01 Model.C01 Model.C06Fasta Model.C06Gzip.
Import ListNotations.
Open Scope Z_scope.

Inductive ferr : Type :=
| BadGzip            (* the decompressor raised *)
| NoHeader           (* FastaIterator's ValueError: first line does not start with '>' *)
| Calc (e : err).    (* calc_signature failed (proved unreachable) *)

Inductive fres (A : Type) : Type :=
| FOk (a : A)
| FErr (e : ferr).
Arguments FOk {A} a.
Arguments FErr {A} e.

(** signature (array, dtype item size) of the records of a FASTA text *)
Definition text_signature (dense : bool) (k : Z) (p : list Z) (text : list Z) : fres (list Z * option Z) :=
  match parse_fasta text with
  | Error _ => FErr NoHeader
  | Ok recs =>
      match calc_signature dense k p (map snd recs) with
      | Ok r => FOk r
      | Error e => FErr (Calc e)
      end
  end.

Section File.
  Variable gunzip : list Z -> option (list Z).

  Definition file_signature (dense : bool) (k : Z) (p : list Z) (data : list Z) : fres (list Z * option Z) :=
    match open_auto gunzip data with
    | None => FErr BadGzip
    | Some text => text_signature dense k p text
    end.
End File.
