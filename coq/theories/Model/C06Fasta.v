(** C06 model, part 2: what gambit does to the text of a FASTA file.

    src/gambit/seq.py SequenceFile.parse opens the file with [open_compressed(path, 'rt', ...)],
    i.e. through an [io.TextIOWrapper] with the default [newline=None] (universal newlines: on
    input "\r\n" and a lone "\r" are both translated to "\n"), and hands the stream to
    [Bio.SeqIO.parse(fobj, 'fasta')] = Biopython's [FastaIterator]:

      line = stream.readline()            # empty file: no records
      if not line.startswith(">"): raise ValueError
      ...
      title = line[1:].rstrip()
      lines = []
      for line in stream:                 # lines keep their "\n"
          if line[0] == ">": break
          lines.append(line)
      sequence = "".join(lines).encode().translate(None, b" \t\r\n")

    The text is modelled as the list of its bytes (ASCII text: decoding is the identity).
    No proofs in this file. *)
From Coq Require Import ZArith List Bool.
From GV Require Import Base.CSem.
Import ListNotations.
Open Scope Z_scope.

(** * TextIOWrapper(newline=None): "\r\n" -> "\n", lone "\r" -> "\n" *)
Fixpoint universal_newlines (s : list Z) : list Z :=
  match s with
  | [] => []
  | c :: t =>
      if c =? 13 then
        match t with
        | d :: t' => if d =? 10 then 10 :: universal_newlines t' else 10 :: universal_newlines t
        | [] => [10]
        end
      else c :: universal_newlines t
  end.

(** * iteration over a text stream: lines, each keeping its terminating "\n"
    (the last one has none when the text does not end with "\n") *)
Fixpoint split_lines (s : list Z) : list (list Z) :=
  match s with
  | [] => []
  | c :: t =>
      if c =? 10 then [c] :: split_lines t
      else match split_lines t with
           | [] => [[c]]
           | l :: ls => (c :: l) :: ls
           end
  end.

(** [line[0] == ">"] (lines of a stream are never empty) *)
Definition is_gt_line (l : list Z) : bool :=
  match l with c :: _ => c =? 62 | [] => false end.

(** [str.isspace] on ASCII: \t \n \v \f \r FS GS RS US and the space *)
Definition is_space (c : Z) : bool :=
  ((9 <=? c) && (c <=? 13)) || ((28 <=? c) && (c <=? 32)).

(** [str.rstrip()] *)
Fixpoint rstrip (l : list Z) : list Z :=
  match l with
  | [] => []
  | c :: t =>
      match rstrip t with
      | [] => if is_space c then [] else [c]
      | t' => c :: t'
      end
  end.

(** [bytes.translate(None, b" \t\r\n")] *)
Definition seq_char (c : Z) : bool := negb ((c =? 32) || (c =? 9) || (c =? 13) || (c =? 10)).
Definition strip_seq (l : list Z) : list Z := filter seq_char l.

(** a record: (title, sequence) *)
Definition record : Type := (list Z * list Z)%type.

Definition close_record (title : list Z) (body : list (list Z)) : record :=
  (title, strip_seq (concat (rev body))).

(** the iterator's loop: [title] is the current record's title, [body] the lines appended so far
    (most recent first); a line starting with ">" closes the record and opens the next one *)
Fixpoint fasta_loop (title : list Z) (body : list (list Z)) (lines : list (list Z)) : list record :=
  match lines with
  | [] => [close_record title body]
  | l :: rest =>
      if is_gt_line l then close_record title body :: fasta_loop (rstrip (tl l)) [] rest
      else fasta_loop title (l :: body) rest
  end.

Definition parse_lines (lines : list (list Z)) : res (list record) :=
  match lines with
  | [] => Ok []
  | l :: rest => if is_gt_line l then Ok (fasta_loop (rstrip (tl l)) [] rest) else Error ValueError
  end.

(** bytes of the (decompressed) file -> records *)
Definition parse_fasta (data : list Z) : res (list record) :=
  parse_lines (split_lines (universal_newlines data)).

(** * writing a FASTA file (what the property varies: width, line ending, final newline) *)

(** [s] cut into pieces of [w] bytes (the last one may be shorter); no piece for the empty string *)
Fixpoint chunks (fuel w : nat) (s : list Z) : list (list Z) :=
  match fuel with
  | O => []
  | S f => match s with
           | [] => []
           | _ :: _ => firstn w s :: chunks f w (skipn w s)
           end
  end.

Definition eol (crlf : bool) : list Z := if crlf then [13; 10] else [10].

(** every line followed by [e], except that the very last terminator is dropped when
    [final_nl = false] *)
Fixpoint join_lines (e : list Z) (final_nl : bool) (lines : list (list Z)) : list Z :=
  match lines with
  | [] => []
  | l :: rest =>
      match rest with
      | [] => if final_nl then l ++ e else l
      | _ :: _ => l ++ e ++ join_lines e final_nl rest
      end
  end.

Definition contig_lines (w : nat) (c : record) : list (list Z) :=
  (62 :: fst c) :: chunks (length (snd c)) w (snd c).

Definition render_fasta (w : nat) (crlf final_nl : bool) (contigs : list record) : list Z :=
  join_lines (eol crlf) final_nl (flat_map (contig_lines w) contigs).

(** * well-formedness of what is written (boolean, checked by the harness on its generated files) *)

(** a sequence byte: not removed by the parser and not a '>' (which would start a record when it
    happens to be the first byte of a line) *)
Definition seq_ok (c : Z) : bool := seq_char c && negb (c =? 62).
(** a title byte: no line terminator *)
Definition title_ok (c : Z) : bool := negb ((c =? 13) || (c =? 10)).
Definition wf_contig (c : record) : bool := forallb title_ok (fst c) && forallb seq_ok (snd c).
