(** C18 -- model of what "using" a reference database can do to its two files.

    Three machines, following the code's structure; nothing is proved here.

    1. SESSION MACHINE (src/gambit/db/sqla.py:12-20, 40-58; SQLAlchemy 1.4 unit of work).
       The genome file is a [table] (primary key -> value).  A session owns
         - [s_file]   the bytes on disk (what a fresh connection would read),
         - [s_txn]    the write statements executed in the open database transaction
                      (SQLite: rollback journal present, file not yet rewritten),
         - [s_new], [s_dirty], [s_del]   the unit of work's pending changes
                      (session.new / session.dirty / session.deleted),
         - [s_log]    every write statement (INSERT/UPDATE/DELETE) ever handed to the cursor.
       A session CLASS is the pair of overrides that [ReadOnlySession] installs:
       [flush_noop] (sqla.py:15-17) and [commit_raises] (sqla.py:19-20); everything else is
       inherited from [sqlalchemy.orm.Session], and the inherited code reaches the data base only
       through [self.flush()]:
         - a query autoflushes first ([Session._autoflush] -> [self.flush()]);
         - [SessionTransaction.commit] (what [with session.begin():] and
           [session.get_transaction().commit()] run; NOT overridden by ReadOnlySession) calls
           [self.session.flush()] until the session is clean -- 100 times at most, then
           [FlushError] -- and only then commits the connection;
         - [rollback()] / [close()] discard the pending sets and the open transaction.
       [Exec] is a raw DML statement ([session.execute(update(...))]): it bypasses the unit of
       work, so it is NOT a "pending change"; it is in the model to mark the boundary of the
       property (see Props/C18.v, the [_refuted] statements).
       The semantics of a REAL flush (plain [Session]) is the contrast case; it is kept simple
       (an INSERT of an existing key is a no-op on the table instead of an IntegrityError -- the
       harness uses fresh keys in read-write streams; no theorem about [ReadOnlySession] depends
       on it because a no-op flush never reaches [apply_change]).

    2. SIGNATURE STORE (src/gambit/sigs/hdf5.py:222-254; h5py 3.x).  The signature file is a
       status word (the superblock's consistency flag, which libhdf5 sets while a file is open
       with write intent and clears on close -- observed: the bytes of the file differ while it
       is open in mode r+ even if nothing is written) and a list of cells.  [load_signatures_hdf5]
       passes its keyword arguments to [h5py.File]; without a [mode] argument h5py's default
       applies, which is "r".  In mode r every write operation is rejected
       ("no write intent on file").

    3. WORLD: the data base directory (genome file, signature file, directory listing) and
       whatever is written OUTSIDE it (-o files); read-side commands and library calls are lists
       of micro operations over it.  A failing invocation is a prefix of the command's list
       followed by [WExit] (the process / the objects go away: the session is closed without
       commit, the HDF5 handle is closed). *)
From Coq Require Import ZArith List Bool.
Import ListNotations.
Open Scope Z_scope.

(* ------------------------------------------------------------------------------------------ *)
(** * 1. genome file and session machine *)

Definition row := (Z * Z)%type.
Definition table := list row.

Inductive change := Ins (k v : Z) | Upd (k v : Z) | Del (k : Z).

Fixpoint has_key (k : Z) (t : table) : bool :=
  match t with [] => false | (k', _) :: r => (k' =? k) || has_key k r end.
Fixpoint set_row (k v : Z) (t : table) : table :=
  match t with
  | [] => []
  | (k', v') :: r => if k' =? k then (k', v) :: set_row k v r else (k', v') :: set_row k v r
  end.
Fixpoint del_row (k : Z) (t : table) : table :=
  match t with
  | [] => []
  | (k', v') :: r => if k' =? k then del_row k r else (k', v') :: del_row k r
  end.

(** what one committed write statement does to the file *)
Definition apply_change (c : change) (t : table) : table :=
  match c with
  | Ins k v => if has_key k t then t else t ++ [(k, v)]
  | Upd k v => set_row k v t
  | Del k => del_row k t
  end.
Definition apply_changes (cs : list change) (t : table) : table :=
  fold_left (fun t c => apply_change c t) cs t.

(** the two methods ReadOnlySession overrides *)
Record sclass := { flush_noop : bool; commit_raises : bool }.
Definition ReadOnlySession : sclass := {| flush_noop := true; commit_raises := true |}.
Definition PlainSession : sclass := {| flush_noop := false; commit_raises := false |}.

(** sqla.py:40-58  file_sessionmaker(path, readonly=True, cls=None) *)
Definition file_sessionmaker (readonly : bool) (cls : option sclass) : sclass :=
  match cls with
  | Some c => c
  | None => if readonly then ReadOnlySession else PlainSession
  end.
(** refdb.py:41-45 load_genomeset: file_sessionmaker(db_file)() *)
Definition library_default_class : sclass := file_sessionmaker true None.
(** cli/common.py:123-128: sessionmaker(self.engine, class_=ReadOnlySession) *)
Definition cli_class : sclass := ReadOnlySession.

Record sess := {
  s_file : table;
  s_txn : list change;
  s_new : list row;
  s_dirty : list row;
  s_del : list Z;
  s_log : list change }.

Definition fresh_session (file : table) : sess :=
  {| s_file := file; s_txn := []; s_new := []; s_dirty := []; s_del := []; s_log := [] |}.

(** what a SELECT on this connection sees: the file plus the statements of the open transaction *)
Definition view (s : sess) : table := apply_changes (s_txn s) (s_file s).

Definition memZ (k : Z) (l : list Z) : bool := existsb (fun x => x =? k) l.
Definition put_row (k v : Z) (t : table) : table :=
  if has_key k t then set_row k v t else t ++ [(k, v)].

(** session.dirty = modified persistent objects that are not marked deleted *)
Definition live_dirty (s : sess) : list row :=
  filter (fun r => negb (memZ (fst r) (s_del s))) (s_dirty s).

(** the statements a real flush emits: INSERTs, UPDATEs, DELETEs *)
Definition pending_changes (s : sess) : list change :=
  map (fun r => Ins (fst r) (snd r)) (s_new s)
  ++ map (fun r => Upd (fst r) (snd r)) (live_dirty s)
  ++ map Del (s_del s).

Definition real_flush (s : sess) : sess :=
  let cs := pending_changes s in
  {| s_file := s_file s; s_txn := s_txn s ++ cs; s_new := []; s_dirty := []; s_del := [];
     s_log := s_log s ++ cs |}.

(** [self.flush()] -- dispatches on the class *)
Definition sess_flush (cls : sclass) (s : sess) : sess :=
  if flush_noop cls then s else real_flush s.

(** Session._is_clean() *)
Definition clean (s : sess) : bool :=
  match s_new s, s_dirty s, s_del s with [], [], [] => true | _, _, _ => false end.

(** connection-level COMMIT: the statements of the transaction reach the file *)
Definition conn_commit (s : sess) : sess :=
  {| s_file := view s; s_txn := []; s_new := s_new s; s_dirty := s_dirty s; s_del := s_del s;
     s_log := s_log s |}.

(** rollback() / close(): pending sets expunged / expired, open transaction rolled back *)
Definition discard (s : sess) : sess :=
  {| s_file := s_file s; s_txn := []; s_new := []; s_dirty := []; s_del := []; s_log := s_log s |}.

Inductive op :=
| Add (k v : Z)        (* session.add(Genome(id=k, ...v...)) *)
| Modify (k v : Z)     (* obj = query(id=k).one_or_none(); obj.attr = v *)
| Delete (k : Z)       (* obj = query(id=k).one_or_none(); session.delete(obj) *)
| Query                (* any SELECT issued through the session (autoflush applies) *)
| Flush                (* session.flush() *)
| Commit               (* session.commit() *)
| Rollback             (* session.rollback() *)
| Close                (* session.close() *)
| TxCommit             (* session.get_transaction().commit() / exit of `with session.begin():` *)
| Exec (c : change).   (* session.execute(<raw INSERT/UPDATE/DELETE>) -- not a pending change *)

Inductive resp :=
| ROk
| RView (t : table)    (* rows a query returned *)
| RTypeError           (* 'Session is read-only' *)
| RFlushError          (* 'Over 100 subsequent flushes have occurred within session.commit()' *)
| RNoRow.              (* the object to modify / delete does not exist *)

Definition autoflush_step (cls : sclass) (af : bool) (s : sess) : sess :=
  if af then sess_flush cls s else s.

(** SessionTransaction.commit(): _prepare_impl's loop `for _ in range(100): if clean: break;
    session.flush()` (a no-op flush leaves the session as it is, so 100 rounds = 1 round; a real
    flush empties the pending sets in one round), then the connection commits *)
Definition tx_commit (cls : sclass) (s : sess) : sess * resp :=
  let s1 := if clean s then s else sess_flush cls s in
  if clean s1 then (conn_commit s1, ROk) else (s1, RFlushError).

Definition with_pending (s : sess) (n d : list row) (x : list Z) : sess :=
  {| s_file := s_file s; s_txn := s_txn s; s_new := n; s_dirty := d; s_del := x; s_log := s_log s |}.

Definition step (cls : sclass) (af : bool) (s : sess) (o : op) : sess * resp :=
  match o with
  | Add k v => (with_pending s (s_new s ++ [(k, v)]) (s_dirty s) (s_del s), ROk)
  | Modify k v =>
      let s1 := autoflush_step cls af s in
      if has_key k (view s1)
      then (with_pending s1 (s_new s1) (put_row k v (s_dirty s1)) (s_del s1), ROk)
      else (s1, RNoRow)
  | Delete k =>
      let s1 := autoflush_step cls af s in
      if has_key k (view s1)
      then (with_pending s1 (s_new s1) (s_dirty s1) (if memZ k (s_del s1) then s_del s1 else s_del s1 ++ [k]), ROk)
      else (s1, RNoRow)
  | Query => let s1 := autoflush_step cls af s in (s1, RView (view s1))
  | Flush => (sess_flush cls s, ROk)
  | Commit => if commit_raises cls then (s, RTypeError) else tx_commit cls s
  | Rollback => (discard s, ROk)
  | Close => (discard s, ROk)
  | TxCommit => tx_commit cls s
  | Exec c =>
      let s1 := autoflush_step cls af s in
      ({| s_file := s_file s1; s_txn := s_txn s1 ++ [c]; s_new := s_new s1; s_dirty := s_dirty s1;
          s_del := s_del s1; s_log := s_log s1 ++ [c] |}, ROk)
  end.

Fixpoint run_session (cls : sclass) (af : bool) (s : sess) (ops : list op) : sess * list resp :=
  match ops with
  | [] => (s, [])
  | o :: r =>
      let '(s1, a) := step cls af s o in
      let '(s2, rs) := run_session cls af s1 r in
      (s2, a :: rs)
  end.

Definition is_exec (o : op) : bool := match o with Exec _ => true | _ => false end.
Definition is_txcommit (o : op) : bool := match o with TxCommit => true | _ => false end.
(** only unit-of-work operations (the property's "pending changes"): no raw DML *)
Definition orm_only (ops : list op) : bool := forallb (fun o => negb (is_exec o)) ops.
Definition no_txcommit (ops : list op) : bool := forallb (fun o => negb (is_txcommit o)) ops.

(** SQLite's rollback journal exists in the directory exactly while a transaction has written *)
Definition journal_present (s : sess) : bool := match s_txn s with [] => false | _ => true end.

(* ------------------------------------------------------------------------------------------ *)
(** * 2. signature store *)

Inductive mode := MR | MRplus | MW | MA | MX.      (* 'r' 'r+' 'w' 'a' 'w-'/'x' *)
Definition h5py_default_mode : mode := MR.         (* h5py >= 3.0 *)

Record sfile := { f_status : Z; f_cells : list (Z * Z) }.
Record store := { st_file : sfile; st_handle : option mode }.

(** hdf5.py:242  h5.File(path, **kw) *)
Definition load_signatures_mode (kw_mode : option mode) : mode :=
  match kw_mode with Some m => m | None => h5py_default_mode end.

Inductive sop :=
| SOpen (m : option mode)    (* load_signatures(path[, mode=m]) *)
| SRead (k : Z)              (* attrs[...] / dataset[...] *)
| SWrite (k v : Z)           (* attrs[k] = v / dataset[k] = v / create_dataset *)
| SDelete (k : Z)            (* del group[k] / del attrs[k] *)
| SFlush                     (* file.flush() *)
| SClose.                    (* file.close() / handle garbage collected *)

Inductive sresp :=
| SOk
| SVal (v : option Z)
| SRejected                  (* "no write intent on file" *)
| SNotOpen
| SBusy                      (* a handle is already open in this model *)
| SExists.                   (* mode w- on an existing file *)

Definition writable (m : mode) : bool := match m with MR => false | _ => true end.

Fixpoint cell_get (k : Z) (c : list (Z * Z)) : option Z :=
  match c with [] => None | (k', v) :: r => if k' =? k then Some v else cell_get k r end.

Definition sstep (st : store) (o : sop) : store * sresp :=
  match o with
  | SOpen kw =>
      match st_handle st with
      | Some _ => (st, SBusy)
      | None =>
          match load_signatures_mode kw with
          | MR => ({| st_file := st_file st; st_handle := Some MR |}, SOk)
          | MRplus => ({| st_file := {| f_status := 1; f_cells := f_cells (st_file st) |}; st_handle := Some MRplus |}, SOk)
          | MA => ({| st_file := {| f_status := 1; f_cells := f_cells (st_file st) |}; st_handle := Some MA |}, SOk)
          | MW => ({| st_file := {| f_status := 1; f_cells := [] |}; st_handle := Some MW |}, SOk)
          | MX => (st, SExists)
          end
      end
  | SRead k =>
      match st_handle st with
      | None => (st, SNotOpen)
      | Some _ => (st, SVal (cell_get k (f_cells (st_file st))))
      end
  | SWrite k v =>
      match st_handle st with
      | None => (st, SNotOpen)
      | Some m =>
          if writable m
          then ({| st_file := {| f_status := f_status (st_file st); f_cells := put_row k v (f_cells (st_file st)) |};
                   st_handle := Some m |}, SOk)
          else (st, SRejected)
      end
  | SDelete k =>
      match st_handle st with
      | None => (st, SNotOpen)
      | Some m =>
          if writable m
          then ({| st_file := {| f_status := f_status (st_file st); f_cells := del_row k (f_cells (st_file st)) |};
                   st_handle := Some m |}, SOk)
          else (st, SRejected)
      end
  | SFlush =>
      match st_handle st with None => (st, SNotOpen) | Some _ => (st, SOk) end
  | SClose =>
      match st_handle st with
      | None => (st, SNotOpen)
      | Some m =>
          ({| st_file := if writable m then {| f_status := 0; f_cells := f_cells (st_file st) |} else st_file st;
              st_handle := None |}, SOk)
      end
  end.

Fixpoint run_store (st : store) (ops : list sop) : store * list sresp :=
  match ops with
  | [] => (st, [])
  | o :: r =>
      let '(st1, a) := sstep st o in
      let '(st2, rs) := run_store st1 r in
      (st2, a :: rs)
  end.

Definition read_open (o : sop) : bool :=
  match o with SOpen (Some MR) => true | SOpen None => true | SOpen (Some _) => false | _ => true end.
(** every open in the list uses the library default or an explicit 'r' *)
Definition read_opens (ops : list sop) : bool := forallb read_open ops.
Definition handle_read_only (st : store) : bool :=
  match st_handle st with None => true | Some m => negb (writable m) end.

(* ------------------------------------------------------------------------------------------ *)
(** * 3. the data base directory and read-side commands *)

Record world := {
  w_db : sess;                          (* genome file + the state of the session on it *)
  w_cur : option (sclass * bool);       (* class and autoflush of the open session, if any *)
  w_store : store;                      (* signature file + handle *)
  w_names : list Z;                     (* other entries of the directory *)
  w_out : list (Z * Z);                 (* files written OUTSIDE the directory (-o) *)
  w_classes : list sclass;              (* class of every session opened so far *)
  w_modes : list mode }.                (* mode of every signature-file open so far *)

Inductive wop :=
| WLocate                                    (* ReferenceDatabase.locate_files: iterdir() twice *)
| WOpenSession (cls : option sclass) (af : bool)   (* file_sessionmaker(path, cls=cls, autoflush=af)() *)
| WOpenCliSession                            (* CLIContext.Session() *)
| WSess (o : op)
| WStore (o : sop)
| WOutput (k v : Z)                          (* results written to the -o file *)
| WExit.                                     (* objects dropped: session closed, handle closed *)

Inductive wresp :=
| WOk
| WListing (names : list Z) (journal : bool)
| WS (r : resp)
| WH (r : sresp)
| WNoSession
| WSessionBusy.

Definition with_db (w : world) (s : sess) : world :=
  {| w_db := s; w_cur := w_cur w; w_store := w_store w; w_names := w_names w; w_out := w_out w;
     w_classes := w_classes w; w_modes := w_modes w |}.

Definition open_session (w : world) (c : sclass) (af : bool) : world * wresp :=
  match w_cur w with
  | Some _ => (w, WSessionBusy)
  | None => ({| w_db := w_db w; w_cur := Some (c, af); w_store := w_store w; w_names := w_names w;
                w_out := w_out w; w_classes := w_classes w ++ [c]; w_modes := w_modes w |}, WOk)
  end.

Definition wstep (w : world) (o : wop) : world * wresp :=
  match o with
  | WLocate => (w, WListing (w_names w) (journal_present (w_db w)))
  | WOpenSession cls af => open_session w (file_sessionmaker true cls) af
  | WOpenCliSession => open_session w cli_class true
  | WSess x =>
      match w_cur w with
      | None => (w, WNoSession)
      | Some (c, af) => let '(s1, r) := step c af (w_db w) x in (with_db w s1, WS r)
      end
  | WStore x =>
      let '(st1, r) := sstep (w_store w) x in
      ({| w_db := w_db w; w_cur := w_cur w; w_store := st1; w_names := w_names w; w_out := w_out w;
          w_classes := w_classes w;
          w_modes := match x, r with
                     | SOpen kw, SOk => w_modes w ++ [load_signatures_mode kw]
                     | _, _ => w_modes w
                     end |}, WH r)
  | WOutput k v =>
      ({| w_db := w_db w; w_cur := w_cur w; w_store := w_store w; w_names := w_names w;
          w_out := put_row k v (w_out w); w_classes := w_classes w; w_modes := w_modes w |}, WOk)
  | WExit =>
      ({| w_db := discard (w_db w); w_cur := None;
          w_store := fst (sstep (w_store w) SClose);
          w_names := w_names w; w_out := w_out w; w_classes := w_classes w; w_modes := w_modes w |}, WOk)
  end.

Fixpoint run_world (w : world) (ops : list wop) : world * list wresp :=
  match ops with
  | [] => (w, [])
  | o :: r =>
      let '(w1, a) := wstep w o in
      let '(w2, rs) := run_world w1 r in
      (w2, a :: rs)
  end.

(** read-side micro operations: sessions of the default classes with ORM operations only, store
    opens in the default / read mode *)
Definition read_side_op (o : wop) : bool :=
  match o with
  | WOpenSession None _ => true
  | WOpenSession (Some c) _ => flush_noop c && commit_raises c
  | WSess x => negb (is_exec x)
  | WStore x => read_open x
  | _ => true
  end.
Definition read_side (ops : list wop) : bool := forallb read_side_op ops.

(** a world in which nothing write-capable is open *)
Definition quiet (w : world) : bool :=
  match s_txn (w_db w) with [] => true | _ => false end
  && handle_read_only (w_store w)
  && match w_cur w with None => true | Some (c, _) => flush_noop c && commit_raises c end.

(** ** commands *)
Inductive cmd :=
| CQuery (nq : nat)                       (* gambit -d DB query -o OUT q1 .. qn *)
| CDistDb (nq : nat)                      (* gambit -d DB dist --use-db -o OUT -q q1 .. *)
| CSigInfoDb                              (* gambit -d DB signatures info -d *)
| CSigInfoFile                            (* gambit signatures info DB/x.gs *)
| CTreeSig                                (* gambit tree -s DB/x.gs *)
| CLoadFromDir (n : nat)                  (* ReferenceDatabase.load_from_dir(DB), iterate n signatures *)
| CLibSession (af : bool) (ops : list op) (* file_sessionmaker(DB/x.gdb)() + ORM edits, flush, commit .. *)
| CLibStore (ops : list sop).             (* load_signatures(DB/x.gs) + operations on the handle *)

(** reading signature [i]: bounds[i], bounds[i+1], values[...] *)
Definition read_sig (i : nat) : list wop := [WStore (SRead (Z.of_nat i)); WStore (SRead (Z.of_nat (S i)))].
Definition read_meta : list wop := [WStore (SRead (-1)); WStore (SRead (-2)); WStore (SRead (-3))].

(** CLIContext.get_database / ReferenceDatabase.load: session, only_genomeset, load_signatures,
    ReferenceDatabase.__init__ (id check, id map, genome count) *)
Definition load_db (cli : bool) : list wop :=
  [WLocate; (if cli then WOpenCliSession else WOpenSession None true); WSess Query;
   WStore (SOpen None)] ++ read_meta ++ [WSess Query; WSess Query; WSess Query].

Fixpoint per_query (n : nat) : list wop :=
  match n with
  | O => []
  | S m => per_query m ++ read_sig m ++ [WSess Query; WSess Query]   (* distances; lazy loads of taxa *)
  end.
Fixpoint per_sig (n : nat) : list wop :=
  match n with O => [] | S m => per_sig m ++ read_sig m end.

Definition compile (c : cmd) : list wop :=
  match c with
  | CQuery nq => load_db true ++ per_query nq ++ [WOutput 1 (Z.of_nat nq); WExit]
  | CDistDb nq => [WLocate; WStore (SOpen None)] ++ read_meta ++ per_sig nq ++ [WOutput 2 (Z.of_nat nq); WExit]
  | CSigInfoDb => [WLocate; WStore (SOpen None)] ++ read_meta ++ [WExit]
  | CSigInfoFile => [WStore (SOpen None)] ++ read_meta ++ [WExit]
  | CTreeSig => [WStore (SOpen None)] ++ read_meta ++ per_sig 3 ++ [WExit]
  | CLoadFromDir n => load_db false ++ per_sig n ++ [WExit]
  | CLibSession af ops => WOpenSession None af :: map WSess ops ++ [WExit]
  | CLibStore ops => map WStore (SOpen None :: ops) ++ [WExit]
  end.

(** an invocation = a command and the number of micro operations after which it fails
    (>= length: it does not fail); whatever happens, the process ends *)
Definition invocation := (cmd * nat)%type.
Definition invocation_ops (i : invocation) : list wop := firstn (snd i) (compile (fst i)) ++ [WExit].
Definition history_ops (h : list invocation) : list wop := flat_map invocation_ops h.

Definition cmd_ok (c : cmd) : bool :=
  match c with
  | CLibSession _ ops => orm_only ops
  | CLibStore ops => read_opens ops
  | _ => true
  end.
Definition history_ok (h : list invocation) : bool := forallb (fun i => cmd_ok (fst i)) h.

(** the observable the property constrains *)
Definition dir_state (w : world) : table * sfile * list Z * bool :=
  (s_file (w_db w), st_file (w_store w), w_names w, journal_present (w_db w)).
