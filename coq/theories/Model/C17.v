(** C17 -- model of the tree command's clustering-to-tree step.

    Follows src/gambit/cluster.py:

      [linkage_to_bio_tree link labels]
          nleaves = link.shape[0] + 1
          assert len(labels) == nleaves
          clades = [Clade(name) for name in labels]
          for left_i, right_i, height, size in link:
              left  = clades[int(left_i)];  left.branch_length  = height - (0 if left_i  < nleaves else link[left_i  - nleaves, 2])
              right = clades[int(right_i)]; right.branch_length = height - (0 if right_i < nleaves else link[right_i - nleaves, 2])
              clades.append(Clade(clades=[left, right]))
          return Tree(root=clades[-1])

    and the shape of the matrix that [hclust] = scipy [linkage(squareform(dmat), 'average')]
    returns: row k = (left id, right id, height, size) creates cluster [n + k].

    Representation.  A leaf is the index of its label; a [Clade] with two children is
    [Node left left.branch_length right right.branch_length] (Biopython stores the length of the
    edge above a clade in the clade itself; the root has none).  Cluster ids are [nat] (SciPy
    produces non-negative ids; Python's wrap-around of negative indices is outside the model).
    Where the Python code raises ([IndexError] for an id that does not exist yet, the failing
    [assert]) the model returns [TErr].  The Python objects are mutable and shared: if a cluster id
    is used twice the second assignment of [branch_length] also changes the first use.  The model
    has no sharing, so it coincides with the code on linkages in which every cluster is used at
    most once ([valid_linkage] checks this; the harness only compares such inputs).

    Numbers.  The model is generic in the type [H] of heights with its subtraction:
      - [H = Z]: all numbers of one case are the integers [value * 2^k] for a common [k]
        (every binary64/binary32 value is such a fraction) -- exact arithmetic, used by the
        theorems and by the specification functions below;
      - [H = f64] with Flocq's [Bminus]: what the Python code computes, bit for bit.

    No proofs in this file. *)
From Coq Require Import ZArith List Bool.
From GV Require Import Base.F32.
Import ListNotations.
Open Scope nat_scope.

Inductive terr : Type :=
| IndexError       (* clades[i] / link[i - nleaves, 2] out of range *)
| AssertionError.  (* len(labels) != nleaves *)

Inductive tres (A : Type) : Type := TOk (a : A) | TErr (e : terr).
Arguments TOk {A} a.
Arguments TErr {A} e.

Section Generic.
Variable H : Type.
Variable hzero : H.
Variable hsub : H -> H -> H.

(** one row of the linkage matrix *)
Record row : Type := mkrow { rl : nat; rr : nat; rh : H; rsz : nat }.

Inductive tree : Type :=
| Leaf (i : nat)
| Node (l : tree) (bl : H) (r : tree) (br : H).

(** [0 if i < nleaves else link[i - nleaves, 2]] *)
Definition child_height (n : nat) (all : list row) (i : nat) : tres H :=
  if i <? n then TOk hzero
  else match nth_error all (i - n) with
       | Some r => TOk (rh r)
       | None => TErr IndexError
       end.

(** the [for ... in link] loop; [clades] is the Python list of the same name *)
Fixpoint build (n : nat) (all rest : list row) (clades : list tree) : tres (list tree) :=
  match rest with
  | [] => TOk clades
  | r :: rest' =>
      match nth_error clades (rl r) with
      | None => TErr IndexError
      | Some lft =>
          match child_height n all (rl r) with
          | TErr e => TErr e
          | TOk hl =>
              match nth_error clades (rr r) with
              | None => TErr IndexError
              | Some rgt =>
                  match child_height n all (rr r) with
                  | TErr e => TErr e
                  | TOk hr =>
                      build n all rest'
                        (clades ++ [Node lft (hsub (rh r) hl) rgt (hsub (rh r) hr)])
                  end
              end
          end
      end
  end.

Definition leaf_clades (n : nat) : list tree := map Leaf (seq 0 n).

(** [linkage_to_bio_tree link labels] with [nlabels = len(labels)]; the result is [clades[-1]] *)
Definition linkage_to_tree (nlabels : nat) (rows : list row) : tres tree :=
  let n := S (length rows) in
  if negb (nlabels =? n) then TErr AssertionError
  else match build n rows rows (leaf_clades n) with
       | TErr e => TErr e
       | TOk clades =>
           match nth_error clades (length clades - 1) with
           | Some t => TOk t
           | None => TErr IndexError
           end
       end.

(** -- well-formedness of a linkage matrix over [n] observations ------------------------------
    every row joins two different clusters that exist already and have not been joined
    before, and its size entry is the sum of their sizes; there are [n - 1] rows. *)
Fixpoint set_true (i : nat) (l : list bool) : list bool :=
  match l, i with
  | [], _ => []
  | _ :: t, O => true :: t
  | b :: t, S i' => b :: set_true i' t
  end.

Fixpoint valid_rows (rest : list row) (sizes : list nat) (used : list bool) : bool :=
  match rest with
  | [] => true
  | r :: rest' =>
      (rl r <? length sizes) && (rr r <? length sizes) && negb (rl r =? rr r)
      && negb (nth (rl r) used true) && negb (nth (rr r) used true)
      && (rsz r =? nth (rl r) sizes 0 + nth (rr r) sizes 0)
      && valid_rows rest' (sizes ++ [rsz r]) (set_true (rl r) (set_true (rr r) used) ++ [false])
  end.

Definition valid_linkage (n : nat) (rows : list row) : bool :=
  (S (length rows) =? n) && valid_rows rows (repeat 1 n) (repeat false n).

(** -- what the tree is measured by -------------------------------------------------------- *)
Fixpoint leaves (t : tree) : list nat :=
  match t with
  | Leaf i => [i]
  | Node l _ r _ => leaves l ++ leaves r
  end.

Fixpoint internal_nodes (t : tree) : nat :=
  match t with
  | Leaf _ => 0
  | Node l _ r _ => S (internal_nodes l + internal_nodes r)
  end.

Fixpoint branches (t : tree) : list H :=
  match t with
  | Leaf _ => []
  | Node l bl r br => bl :: br :: branches l ++ branches r
  end.

(** -- the clusters of a linkage, independently of any tree --------------------------------
    [members]: table cluster id -> list of observations, row k appends cluster n + k *)
Definition tab0 (n : nat) : list (list nat) := map (fun i => [i]) (seq 0 n).

Definition joined (tab : list (list nat)) (r : row) : list nat :=
  nth (rl r) tab [] ++ nth (rr r) tab [].

Fixpoint tab_after (rows : list row) (tab : list (list nat)) : list (list nat) :=
  match rows with
  | [] => tab
  | r :: rest => tab_after rest (tab ++ [joined tab r])
  end.

Definition members (n : nat) (rows : list row) (k : nat) : list nat :=
  nth k (tab_after rows (tab0 n)) [].

Definition memb (i : nat) (l : list nat) : bool := existsb (Nat.eqb i) l.

(** height of the first row whose new cluster contains both [i] and [j] *)
Fixpoint merge_scan (rows : list row) (tab : list (list nat)) (i j : nat) : option H :=
  match rows with
  | [] => None
  | r :: rest =>
      let m := joined tab r in
      if memb i m && memb j m then Some (rh r) else merge_scan rest (tab ++ [m]) i j
  end.

Definition merge_height (n : nat) (rows : list row) (i j : nat) : option H :=
  merge_scan rows (tab0 n) i j.

End Generic.

Arguments mkrow {H}.
Arguments rl {H}.
Arguments rr {H}.
Arguments rh {H}.
Arguments rsz {H}.
Arguments Leaf {H}.
Arguments Node {H}.
Arguments leaves {H}.
Arguments internal_nodes {H}.
Arguments branches {H}.
Arguments joined {H}.
Arguments tab_after {H}.
Arguments members {H}.
Arguments merge_scan {H}.
Arguments merge_height {H}.
Arguments valid_rows {H}.
Arguments valid_linkage {H}.
Arguments leaf_clades {H}.

(** ================================ exact instance, H = Z ================================== *)
Open Scope Z_scope.

Definition zrow : Type := row Z.
Definition ztree : Type := tree Z.
Definition zlinkage_to_tree : nat -> list zrow -> tres ztree := linkage_to_tree Z 0 Z.sub.
Definition zbuild := build Z 0 Z.sub.

(** length of the path from the root of [t] down to leaf [i] ([None]: no such leaf) *)
Fixpoint depth (t : ztree) (i : nat) : option Z :=
  match t with
  | Leaf k => if Nat.eqb k i then Some 0 else None
  | Node l bl r br =>
      match depth l i with
      | Some d => Some (bl + d)
      | None => match depth r i with
                | Some d => Some (br + d)
                | None => None
                end
      end
  end.

(** length of the path between the leaves [i] and [j] of [t] (through their lowest common
    ancestor); [None] unless both are leaves of [t] lying in different subtrees somewhere *)
Fixpoint path (t : ztree) (i j : nat) : option Z :=
  match t with
  | Leaf _ => None
  | Node l bl r br =>
      match depth l i, depth l j, depth r i, depth r j with
      | Some _, Some _, _, _ => path l i j
      | Some di, None, _, Some dj => Some (bl + di + (br + dj))
      | None, Some dj, Some di, _ => Some (br + di + (bl + dj))
      | None, None, Some _, Some _ => path r i j
      | _, _, _, _ => None
      end
  end.

(** heights: every cluster is at least as high as the two it joins, observations sit at 0
    (the children-wise form of "merge heights are non-decreasing") *)
Definition heights_monotone (n : nat) (rows : list zrow) : bool :=
  forallb (fun r =>
    match child_height Z 0 n rows (rl r), child_height Z 0 n rows (rr r) with
    | TOk a, TOk b => (a <=? rh r) && (b <=? rh r)
    | _, _ => false
    end) rows.

(** merge heights non-decreasing in row order and non-negative (what SciPy returns) *)
Fixpoint nondecreasing_from (lo : Z) (rows : list zrow) : bool :=
  match rows with
  | [] => true
  | r :: rest => (lo <=? rh r) && nondecreasing_from (rh r) rest
  end.
Definition nondecreasing (rows : list zrow) : bool := nondecreasing_from 0 rows.

(** -- UPGMA runs ---------------------------------------------------------------------------
    [dmat]: the (scaled) pairwise distance matrix.  A linkage is a run of average-linkage
    clustering when, at every row, the two clusters joined are at minimum average distance
    among all pairs of clusters alive at that moment, and the row's height is that average.
    Averages are compared exactly, cross-multiplied; [eps] (same scale) is the tolerance the
    harness uses for SciPy's floating-point averages ([eps = 0]: exact). *)
Definition dget (dmat : list (list Z)) (i j : nat) : Z := nth j (nth i dmat []) 0.

Definition sum_dist (dmat : list (list Z)) (A B : list nat) : Z :=
  fold_left (fun acc a => fold_left (fun acc' b => acc' + dget dmat a b) B acc) A 0.

Definition zlen {A} (l : list A) : Z := Z.of_nat (length l).

(** alive clusters: ids whose [used] flag is false *)
Fixpoint alive_from (k : nat) (used : list bool) : list nat :=
  match used with
  | [] => []
  | b :: t => if b then alive_from (S k) t else k :: alive_from (S k) t
  end.

(** avg(A,B) <= avg(C,D) + eps, with sab = sum(A,B), nab = |A||B| *)
Definition avg_le (eps sab nab scd ncd : Z) : bool :=
  sab * ncd <=? scd * nab + eps * (nab * ncd).

Definition pair_ok (dmat : list (list Z)) (tab : list (list nat)) (eps sab nab : Z) (c d : nat) : bool :=
  let C := nth c tab [] in
  let D := nth d tab [] in
  avg_le eps sab nab (sum_dist dmat C D) (zlen C * zlen D).

Fixpoint all_pairs (f : nat -> nat -> bool) (l : list nat) : bool :=
  match l with
  | [] => true
  | c :: t => forallb (f c) t && all_pairs f t
  end.

Definition upgma_step_ok (dmat : list (list Z)) (eps : Z) (tab : list (list nat)) (used : list bool)
    (r : zrow) : bool :=
  let A := nth (rl r) tab [] in
  let B := nth (rr r) tab [] in
  let sab := sum_dist dmat A B in
  let nab := zlen A * zlen B in
  (Z.abs (rh r * nab - sab) <=? eps * nab)
  && all_pairs (pair_ok dmat tab eps sab nab) (alive_from 0 used).

Fixpoint upgma_rows (dmat : list (list Z)) (eps : Z) (rest : list zrow) (tab : list (list nat))
    (used : list bool) : bool :=
  match rest with
  | [] => true
  | r :: rest' =>
      upgma_step_ok dmat eps tab used r
      && upgma_rows dmat eps rest' (tab ++ [joined tab r])
           (set_true (rl r) (set_true (rr r) used) ++ [false])
  end.

Definition valid_upgma_run (n : nat) (dmat : list (list Z)) (eps : Z) (rows : list zrow) : bool :=
  valid_linkage n rows && upgma_rows dmat eps rows (tab0 n) (repeat false n).

(** ============================ binary64 instance, H = f64 =============================== *)
Definition frow : Type := row f64.
Definition ftree : Type := tree f64.
Definition flinkage_to_tree : nat -> list frow -> tres ftree :=
  linkage_to_tree f64 (f64_of_Z 0) f64_minus.
