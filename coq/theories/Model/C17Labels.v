(** C17 -- the label channel of the tree command.

    src/gambit/cli/tree.py hands [labels] to [linkage_to_bio_tree], which stores each as
    [Clade.name]; Biopython's [NewickIO.Writer.to_strings/newickize] then writes a leaf as

        label = clade.name or ""
        if label:
            unquoted_label = re.match(r"[^\s\(\)\[\]\'\:\;\,]+", label)   # TypeError unless str
            if (not unquoted_label) or (unquoted_label.end() < len(label)):
                label = "'%s'" % label.replace("'", "''")
        return label + ":" + <branch length>

    With [-s] the labels are [sigs.ids]; a signature file may carry integer ids (the default of
    [AnnotatedSignatures]).  [tree_labels_orig] is the code as found ([labels = sigs.ids]),
    [tree_labels_fixed] the repaired one ([labels = [str(id_) for id_ in sigs.ids]],
    repo_fixes/C17.diff).  [read_label] is the label rule of the harness's Newick reader
    (harness/c17.py [parse_newick]): standard Newick, apostrophe-quoted labels with doubled
    apostrophes, unquoted labels verbatim.  Strings are lists of code points.  No proofs here. *)
From Coq Require Import ZArith List Bool.
Import ListNotations.
Open Scope Z_scope.

(** an element of [labels]: a Python str or a (NumPy) integer *)
Inductive pyid : Type := IdStr (s : list Z) | IdInt (z : Z).

(** [str.isspace] / regex [\s] on str patterns *)
Definition py_isspace (c : Z) : bool :=
  ((9 <=? c) && (c <=? 13)) || ((28 <=? c) && (c <=? 32)) || (c =? 133) || (c =? 160) || (c =? 5760)
  || ((8192 <=? c) && (c <=? 8202)) || (c =? 8232) || (c =? 8233) || (c =? 8239) || (c =? 8287)
  || (c =? 12288).

(** a character allowed in an unquoted label: none of  ( ) [ ] ' : ; ,  and no white space *)
Definition unq_ok (c : Z) : bool :=
  negb (py_isspace c || (c =? 40) || (c =? 41) || (c =? 91) || (c =? 93) || (c =? 39) || (c =? 58)
        || (c =? 59) || (c =? 44)).

Definition dbl (c : Z) : list Z := if c =? 39 then [39; 39] else [c].
Definition quote (s : list Z) : list Z := 39 :: flat_map dbl s ++ [39].

(** text written for a leaf name; [None] = TypeError.  [0 or ""] is [""]: the integer 0 is written
    as the empty label, every other integer reaches [re.match] and raises. *)
Definition write_label (x : pyid) : option (list Z) :=
  match x with
  | IdStr [] => Some []
  | IdStr s => Some (if forallb unq_ok s then s else quote s)
  | IdInt z => if z =? 0 then Some [] else None
  end.

(** the reader: label at the head of the text, and the remaining text *)
Fixpoint read_quoted (t : list Z) : option (list Z * list Z) :=
  match t with
  | [] => None
  | c :: rest =>
      if c =? 39 then
        match rest with
        | c' :: rest' =>
            if c' =? 39 then
              match read_quoted rest' with Some (l, r) => Some (39 :: l, r) | None => None end
            else Some ([], rest)
        | [] => Some ([], rest)
        end
      else match read_quoted rest with Some (l, r) => Some (c :: l, r) | None => None end
  end.

Fixpoint read_unquoted (t : list Z) : list Z * list Z :=
  match t with
  | [] => ([], [])
  | c :: rest => if unq_ok c then let (l, r) := read_unquoted rest in (c :: l, r) else ([], t)
  end.

Definition read_label (t : list Z) : option (list Z * list Z) :=
  match t with
  | c :: rest => if c =? 39 then read_quoted rest else Some (read_unquoted t)
  | [] => Some ([], [])
  end.

Section Cmd.
(** Python's [str()] -- runtime; only [str(s) == s] for a str is used *)
Variable pystr : pyid -> list Z.
Definition tree_labels_orig (ids : list pyid) : list pyid := ids.
Definition tree_labels_fixed (ids : list pyid) : list pyid := map (fun x => IdStr (pystr x)) ids.
End Cmd.
