(** C20 -- model of gambit.util.indexing.AdvancedIndexingMixin, of the (values, bounds)
    collections ConcatenatedSignatureArray / SignatureArray / HDF5Signatures and of the
    list-backed SignatureList (src/gambit/util/indexing.py, src/gambit/sigs/base.py).

    The functions follow the Python code: [check_index] = _check_index, [resolve] =
    __getitem__'s classification, [slice_indices] = slice.indices (CPython PySlice_Unpack +
    PySlice_AdjustIndices), [arange] = np.arange, [uninit] = _uninit_arrays, [fill_from] = the
    copy loops of __init__ and _getitem_int_array, [sa_slice] = the contiguous fast path of
    ConcatenatedSignatureArray._getitem_slice, [iter_from] = collections.abc.Sequence.__iter__.
    NumPy / h5py array reads are list lookups ([pyget], [py_slice]) that fail explicitly when
    out of range.  [fx = false] is the index-array conversion as found (in-place add in the
    array's own dtype), [fx = true] the repaired one (repo_fixes/C20.diff).  No proofs here. *)
From Coq Require Import ZArith List Bool.
From GV Require Import Spec.C20.
Import ListNotations.
Open Scope Z_scope.

Inductive res (A : Type) : Type := Ok (a : A) | Err (e : perr).
Arguments Ok {A} a.
Arguments Err {A} e.

Definition rbind {A B} (m : res A) (f : A -> res B) : res B :=
  match m with Ok a => f a | Err e => Err e end.

Fixpoint mapM {A B} (f : A -> res B) (l : list A) : res (list B) :=
  match l with
  | [] => Ok []
  | x :: r => match f x with
              | Ok y => match mapM f r with Ok ys => Ok (y :: ys) | Err e => Err e end
              | Err e => Err e
              end
  end.

(** ** Python integer / slice semantics *)

(** AdvancedIndexingMixin._check_index; [None] = IndexError *)
Definition check_index (n i : Z) : option Z :=
  let i2 := if i <? 0 then i + n else i in
  if (0 <=? i2) && (i2 <? n) then Some i2 else None.

(** [seq[i]] of a Python list / one-dimensional NumPy array with an integer *)
Definition pyget {A} (l : list A) (i : Z) : option A :=
  match check_index (zlen l) i with
  | Some p => nth_error l (Z.to_nat p)
  | None => None
  end.

Definition SSIZE_MAX : Z := 9223372036854775807.
Definition SSIZE_MIN : Z := -9223372036854775808.
(** _PyEval_SliceIndex: a Python int is clipped to Py_ssize_t *)
Definition clip (z : Z) : Z := if z <? SSIZE_MIN then SSIZE_MIN else if SSIZE_MAX <? z then SSIZE_MAX else z.

(** PySlice_Unpack (the caller has excluded step = 0) *)
Definition slice_unpack (a b s : option Z) : Z * Z * Z :=
  let step := match s with
              | None => 1
              | Some z => let c := clip z in if c <? - SSIZE_MAX then - SSIZE_MAX else c
              end in
  let start := match a with None => if step <? 0 then SSIZE_MAX else 0 | Some z => clip z end in
  let stop := match b with None => if step <? 0 then SSIZE_MIN else SSIZE_MAX | Some z => clip z end in
  (start, stop, step).

(** PySlice_AdjustIndices, one bound *)
Definition adjust1 (n step x : Z) : Z :=
  if x <? 0 then
    let x' := x + n in
    if x' <? 0 then (if step <? 0 then -1 else 0) else x'
  else if n <=? x then (if step <? 0 then n - 1 else n)
  else x.

(** slice.indices(n) *)
Definition slice_indices (n : Z) (a b s : option Z) : Z * Z * Z :=
  let '(start, stop, step) := slice_unpack a b s in
  (adjust1 n step start, adjust1 n step stop, step).

(** basic slicing [l[a:b]] of a list / array with integer bounds *)
Definition py_slice {A} (l : list A) (a b : Z) : list A :=
  let n := zlen l in
  let s := adjust1 n 1 a in
  let e := adjust1 n 1 b in
  zfirstn (e - s) (zskipn s l).

(** np.arange(start, stop, step) for integers, step <> 0 *)
Definition arange_len (start stop step : Z) : Z :=
  if 0 <? step then (if start <? stop then (stop - start - 1) / step + 1 else 0)
  else (if stop <? start then (start - stop - 1) / (- step) + 1 else 0).
Definition arange (start stop step : Z) : list Z :=
  map (fun j => start + j * step) (seqZ (arange_len start stop step)).

(** np.flatnonzero *)
Fixpoint flatnonzero_from (i : Z) (m : list bool) : list Z :=
  match m with
  | [] => []
  | b :: r => if b then i :: flatnonzero_from (i + 1) r else flatnonzero_from (i + 1) r
  end.

(** ** AdvancedIndexingMixin.__getitem__: classification and checks *)

Inductive action : Type :=
| AInt (i : Z)                   (* _getitem_int(i), i checked and converted *)
| ASlice (a b s : option Z)      (* _getitem_slice(slice), components int or None, step <> 0 *)
| AArr (idxs : list Z)           (* _getitem_int_array(idxs) *)
| AErr (e : perr).

(** two's complement / modular wrap of a NumPy integer dtype *)
Definition wrap (dt : dtype) (z : Z) : Z :=
  match dt with
  | DT bits true => (z + 2 ^ (bits - 1)) mod 2 ^ bits - 2 ^ (bits - 1)
  | DT bits false => z mod 2 ^ bits
  end.

(** as found: np.add(index, len(self), out=index, where=index < 0) in the array's dtype *)
Definition convert_old (dt : dtype) (n : Z) (xs : list Z) : list Z :=
  if existsb (fun x => x <? 0) xs then map (fun x => if x <? 0 then wrap dt (x + n) else x) xs
  else xs.

Definition all_checked (n : Z) (xs : list Z) : option (list Z) :=
  (fix go (l : list Z) : option (list Z) :=
     match l with
     | [] => Some []
     | x :: r => match check_index n x with
                 | Some y => match go r with Some ys => Some (y :: ys) | None => None end
                 | None => None
                 end
     end) xs.

Definition resolve (fx : bool) (n : Z) (idx : pidx) : action :=
  match idx with
  | PInt i => match check_index n i with Some i' => AInt i' | None => AErr IndexError end
  | PSlice a b s =>
      if sarg_bad a || sarg_bad b || sarg_bad s then AErr TypeError
      else match s with
           | SInt 0 => AErr ValueError
           | _ => ASlice (sarg_opt a) (sarg_opt b) (sarg_opt s)
           end
  | PNoLen => AErr TypeError
  | PBadArr => AErr IndexError
  | PMask m => if zlen m =? n then AArr (flatnonzero_from 0 m) else AErr IndexError
  | PInts dt xs =>
      match all_checked n xs with
      | None => AErr IndexError
      | Some ys => if fx then AArr ys else AArr (convert_old dt n xs)
      end
  end.

(** ** ConcatenatedSignatureArray / SignatureArray / HDF5Signatures *)

Record sigarr : Type := mk_sigarr {
  sa_values : list Z;
  sa_bounds : list Z;
  sa_kspec : Z;        (* k-mer parameters, an opaque token compared with == *)
  sa_dtype : Z         (* values.dtype, an opaque token *)
}.

Definition sa_len (sa : sigarr) : Z := zlen (sa_bounds sa) - 1.

Definition of_opt {A} (o : option A) : res A := match o with Some a => Ok a | None => Err NumpyError end.

(** _getitem_int: values[bounds[i]:bounds[i + 1]] *)
Definition sa_getitem_int (sa : sigarr) (i : Z) : res sig :=
  rbind (of_opt (pyget (sa_bounds sa) i)) (fun b0 =>
  rbind (of_opt (pyget (sa_bounds sa) (i + 1))) (fun b1 =>
  Ok (py_slice (sa_values sa) b0 b1))).

(** sizeof *)
Definition sa_sizeof (sa : sigarr) (i : Z) : res Z :=
  match check_index (sa_len sa) i with
  | None => Err IndexError
  | Some p =>
      rbind (of_opt (pyget (sa_bounds sa) (p + 1))) (fun b1 =>
      rbind (of_opt (pyget (sa_bounds sa) p)) (fun b0 => Ok (b1 - b0)))
  end.

(** bounds = zeros(n + 1); cumsum(lengths, out=bounds[1:]) *)
Fixpoint cumb (b0 : Z) (lens : list Z) : list Z :=
  match lens with
  | [] => [b0]
  | x :: r => b0 :: cumb (b0 + x) r
  end.

(** SignatureArray._uninit_arrays + from_arrays: np.empty(bounds[-1]) *)
Definition uninit (lens : list Z) (k d : Z) : res sigarr :=
  let bounds := cumb 0 lens in
  let total := last bounds 0 in
  if total <? 0 then Err NumpyError
  else Ok (mk_sigarr (repeat 0 (Z.to_nat total)) bounds k d).

(** np.copyto(values[b0:b1], src): same length, or a length-1 source is broadcast *)
Definition write_view (vals : list Z) (b0 b1 : Z) (src : list Z) : res (list Z) :=
  let n := zlen vals in
  let s := adjust1 n 1 b0 in
  let e := adjust1 n 1 b1 in
  let dlen := Z.max 0 (e - s) in
  if zlen src =? dlen then Ok (zfirstn s vals ++ src ++ zskipn (s + dlen) vals)
  else if zlen src =? 1 then Ok (zfirstn s vals ++ repeat (hd 0 src) (Z.to_nat dlen) ++ zskipn (s + dlen) vals)
  else Err NumpyError.

(** for i, x in enumerate(xs): np.copyto(out[i], src(x)) *)
Fixpoint fill_from {X} (src : X -> res sig) (bounds : list Z) (i : Z) (vals : list Z) (xs : list X)
  : res (list Z) :=
  match xs with
  | [] => Ok vals
  | x :: r =>
      rbind (src x) (fun s =>
      rbind (of_opt (pyget bounds i)) (fun b0 =>
      rbind (of_opt (pyget bounds (i + 1))) (fun b1 =>
      rbind (write_view vals b0 b1 s) (fun vals' =>
      fill_from src bounds (i + 1) vals' r))))
  end.

(** SignatureArray.__init__ from a sequence of signatures *)
Definition sa_of_list (k d : Z) (sigs : list sig) : res sigarr :=
  rbind (uninit (map zlen sigs) k d) (fun out =>
  rbind (fill_from (fun s => Ok s) (sa_bounds out) 0 (sa_values out) sigs) (fun vals =>
  Ok (mk_sigarr vals (sa_bounds out) k d))).

(** _getitem_int_array *)
Definition sa_getitem_int_array (sa : sigarr) (idxs : list Z) : res sigarr :=
  rbind (mapM (sa_sizeof sa) idxs) (fun sizes =>
  rbind (uninit sizes (sa_kspec sa) (sa_dtype sa)) (fun out =>
  rbind (fill_from (sa_getitem_int sa) (sa_bounds out) 0 (sa_values out) idxs) (fun vals =>
  Ok (mk_sigarr vals (sa_bounds out) (sa_kspec sa) (sa_dtype sa))))).

(** ConcatenatedSignatureArray._getitem_slice *)
Definition sa_getitem_slice (sa : sigarr) (a b s : option Z) : res sigarr :=
  let '(start, stop, step) := slice_indices (sa_len sa) a b s in
  if negb (step =? 1) || (stop <=? start) then
    (* super()._getitem_slice: indices again, np.arange, _getitem_int_array *)
    let '(start', stop', step') := slice_indices (sa_len sa) a b s in
    sa_getitem_int_array sa (arange start' stop' step')
  else
    rbind (of_opt (pyget (sa_bounds sa) start)) (fun b0 =>
    rbind (of_opt (pyget (sa_bounds sa) stop)) (fun b1 =>
    Ok (mk_sigarr (py_slice (sa_values sa) b0 b1)
                  (map (fun x => x - b0) (py_slice (sa_bounds sa) start (stop + 1)))
                  (sa_kspec sa) (sa_dtype sa)))).

(** ** SignatureList *)

Record siglist : Type := mk_siglist { sl_list : list sig; sl_kspec : Z; sl_dtype : Z }.

Definition sl_getitem_int (sl : siglist) (i : Z) : res sig :=
  match pyget (sl_list sl) i with Some s => Ok s | None => Err IndexError end.

Definition sl_getitem_int_array (sl : siglist) (idxs : list Z) : res siglist :=
  rbind (mapM (sl_getitem_int sl) idxs) (fun l => Ok (mk_siglist l (sl_kspec sl) (sl_dtype sl))).

(** AdvancedIndexingMixin._getitem_slice (not overridden by SignatureList) *)
Definition sl_getitem_slice (sl : siglist) (a b s : option Z) : res siglist :=
  let '(start, stop, step) := slice_indices (zlen (sl_list sl)) a b s in
  sl_getitem_int_array sl (arange start stop step).

(** CPython list object: ins1, list_ass_item, list deletion of one item *)
Fixpoint ins_at {A} (p : nat) (x : A) (l : list A) : list A :=
  match p, l with
  | O, _ => x :: l
  | S p', y :: r => y :: ins_at p' x r
  | S _, [] => [x]
  end.
Fixpoint set_at {A} (p : nat) (x : A) (l : list A) : list A :=
  match p, l with
  | _, [] => []
  | O, _ :: r => x :: r
  | S p', y :: r => y :: set_at p' x r
  end.
Fixpoint del_at {A} (p : nat) (l : list A) : list A :=
  match p, l with
  | _, [] => []
  | O, _ :: r => r
  | S p', y :: r => y :: del_at p' r
  end.

Definition list_insert {A} (l : list A) (i : Z) (x : A) : list A :=
  let n := zlen l in
  let w := if i <? 0 then (let w' := i + n in if w' <? 0 then 0 else w') else i in
  let w := if n <? w then n else w in
  ins_at (Z.to_nat w) x l.

(** one mutation of a SignatureList: new state and what the caller observes *)
Definition sl_mop (sl : siglist) (o : mop) : siglist * sres :=
  let l := sl_list sl in
  let upd l' := mk_siglist l' (sl_kspec sl) (sl_dtype sl) in
  match o with
  | MSet i x => match check_index (zlen l) i with
                | Some p => (upd (set_at (Z.to_nat p) x l), RColl [])
                | None => (sl, RErr IndexError)
                end
  | MDel i => match check_index (zlen l) i with
              | Some p => (upd (del_at (Z.to_nat p) l), RColl [])
              | None => (sl, RErr IndexError)
              end
  | MIns i x => (upd (list_insert l i x), RColl [])
  | MPop i =>
      (* MutableSequence.pop: v = self[i]; del self[i]; return v *)
      match check_index (zlen l) i with
      | None => (sl, RErr IndexError)
      | Some p => match sl_getitem_int sl p with
                  | Err e => (sl, RErr e)
                  | Ok v => match check_index (zlen l) i with
                            | Some q => (upd (del_at (Z.to_nat q) l), RSig v)
                            | None => (sl, RErr IndexError)
                            end
                  end
      end
  | MApp x => (* MutableSequence.append: self.insert(len(self), value) *)
      (upd (list_insert l (zlen l) x), RColl [])
  end.

Fixpoint sl_history (sl : siglist) (ops : list mop) : siglist * list sres :=
  match ops with
  | [] => (sl, [])
  | o :: r => let '(s1, out) := sl_mop sl o in
              let '(s2, outs) := sl_history s1 r in (s2, out :: outs)
  end.

(** ** __getitem__, iteration, equality for either backing *)

Inductive coll : Type := CArr (sa : sigarr) | CList (sl : siglist).
Inductive gres : Type := GSig (s : sig) | GColl (c : coll) | GErr (e : perr).

Definition coll_len (c : coll) : Z :=
  match c with CArr sa => sa_len sa | CList sl => zlen (sl_list sl) end.
Definition coll_kspec (c : coll) : Z := match c with CArr sa => sa_kspec sa | CList sl => sl_kspec sl end.
Definition coll_dtype (c : coll) : Z := match c with CArr sa => sa_dtype sa | CList sl => sl_dtype sl end.

Definition g_sig (r : res sig) : gres := match r with Ok s => GSig s | Err e => GErr e end.
Definition g_arr (r : res sigarr) : gres := match r with Ok s => GColl (CArr s) | Err e => GErr e end.
Definition g_list (r : res siglist) : gres := match r with Ok s => GColl (CList s) | Err e => GErr e end.

Definition exec (c : coll) (a : action) : gres :=
  match a with
  | AErr e => GErr e
  | AInt i => match c with CArr sa => g_sig (sa_getitem_int sa i) | CList sl => g_sig (sl_getitem_int sl i) end
  | ASlice a b s => match c with
                    | CArr sa => g_arr (sa_getitem_slice sa a b s)
                    | CList sl => g_list (sl_getitem_slice sl a b s)
                    end
  | AArr idxs => match c with
                 | CArr sa => g_arr (sa_getitem_int_array sa idxs)
                 | CList sl => g_list (sl_getitem_int_array sl idxs)
                 end
  end.

Definition getitem (fx : bool) (c : coll) (idx : pidx) : gres := exec c (resolve fx (coll_len c) idx).

(** collections.abc.Sequence.__iter__: v = self[i] for i = 0, 1, ... until IndexError.
    (SignatureList.__iter__ iterates its list directly.) *)
Fixpoint iter_from (fuel : nat) (get : Z -> gres) (i : Z) : res (list sig) :=
  match fuel with
  | O => Err OutOfFuel
  | S f => match get i with
           | GSig s => match iter_from f get (i + 1) with Ok r => Ok (s :: r) | Err e => Err e end
           | GErr IndexError => Ok []
           | GErr e => Err e
           | GColl _ => Err TypeError
           end
  end.

Definition coll_iter (fx : bool) (c : coll) : res (list sig) :=
  match c with
  | CList sl => Ok (sl_list sl)
  | CArr _ => iter_from (S (Z.to_nat (coll_len c))) (fun i => getitem fx c (PInt i)) 0
  end.

(** np.array_equal on one-dimensional integer arrays *)
Fixpoint arr_eqb (a b : list Z) : bool :=
  match a, b with
  | [], [] => true
  | x :: a', y :: b' => (x =? y) && arr_eqb a' b'
  | _, _ => false
  end.
(** all(map(np.array_equal, a1, a2)) -- map stops at the shorter one *)
Fixpoint all_eq (a b : list sig) : bool :=
  match a, b with
  | x :: a', y :: b' => arr_eqb x y && all_eq a' b'
  | _, _ => true
  end.

(** AbstractSignatureArray.__eq__ *)
Definition coll_eq (fx : bool) (c1 c2 : coll) : res bool :=
  if negb (coll_kspec c1 =? coll_kspec c2) then Ok false
  else if negb (coll_len c1 =? coll_len c2) then Ok false
  else rbind (coll_iter fx c1) (fun l1 => rbind (coll_iter fx c2) (fun l2 => Ok (all_eq l1 l2))).

(** what a caller can observe of a result: the signature, or the sub-collection's items (by
    iteration), its k-mer parameters and its integer type *)
Definition observe (fx : bool) (g : gres) : sres :=
  match g with
  | GSig s => RSig s
  | GErr e => RErr e
  | GColl c => match coll_iter fx c with Ok l => RColl l | Err e => RErr e end
  end.
