(** C11 -- model of the three exporters of src/gambit/results.py on an abstract results object.

    Numbers are the decimal tokens Python produced ([repr] of the float / int); the exporters
    only copy them.  [None] is [option].  No proofs here.

    - CSV: [CSVResultsExporter.COLUMNS] / [get_row] / [export] (results.py:87-121) on top of the
      csv writer of Model/C11Csv.v.  The distance column is [str(np.float32)], a different token
      from the JSON one, so it enters next to the item as an oracle token.
    - JSON: [JSONResultsExporter] (results.py:124-170): type-dispatched conversion to a document.
    - archive: [ResultsArchiveWriter] (keys only) and [ResultsArchiveReader] (re-query by key in
      the genome set, [.one()]) (results.py:173-274). *)
From Coq Require Import ZArith List Bool.
From GV Require Import Model.C11Csv Model.C11Json.
Import ListNotations.
Open Scope Z_scope.

(** string constants (code points), generated: K_x_y is the text x.y *)
Definition K_query : str := [113; 117; 101; 114; 121].
Definition K_predicted_name : str := [112; 114; 101; 100; 105; 99; 116; 101; 100; 46; 110; 97; 109; 101].
Definition K_predicted_rank : str := [112; 114; 101; 100; 105; 99; 116; 101; 100; 46; 114; 97; 110; 107].
Definition K_predicted_ncbi_id : str := [112; 114; 101; 100; 105; 99; 116; 101; 100; 46; 110; 99; 98; 105; 95; 105; 100].
Definition K_predicted_threshold : str := [112; 114; 101; 100; 105; 99; 116; 101; 100; 46; 116; 104; 114; 101; 115; 104; 111; 108; 100].
Definition K_closest_distance : str := [99; 108; 111; 115; 101; 115; 116; 46; 100; 105; 115; 116; 97; 110; 99; 101].
Definition K_closest_description : str := [99; 108; 111; 115; 101; 115; 116; 46; 100; 101; 115; 99; 114; 105; 112; 116; 105; 111; 110].
Definition K_next_name : str := [110; 101; 120; 116; 46; 110; 97; 109; 101].
Definition K_next_rank : str := [110; 101; 120; 116; 46; 114; 97; 110; 107].
Definition K_next_ncbi_id : str := [110; 101; 120; 116; 46; 110; 99; 98; 105; 95; 105; 100].
Definition K_next_threshold : str := [110; 101; 120; 116; 46; 116; 104; 114; 101; 115; 104; 111; 108; 100].
Definition K_id : str := [105; 100].
Definition K_key : str := [107; 101; 121].
Definition K_name : str := [110; 97; 109; 101].
Definition K_ncbi_id : str := [110; 99; 98; 105; 95; 105; 100].
Definition K_rank : str := [114; 97; 110; 107].
Definition K_distance_threshold : str := [100; 105; 115; 116; 97; 110; 99; 101; 95; 116; 104; 114; 101; 115; 104; 111; 108; 100].
Definition K_description : str := [100; 101; 115; 99; 114; 105; 112; 116; 105; 111; 110].
Definition K_organism : str := [111; 114; 103; 97; 110; 105; 115; 109].
Definition K_ncbi_db : str := [110; 99; 98; 105; 95; 100; 98].
Definition K_genbank_acc : str := [103; 101; 110; 98; 97; 110; 107; 95; 97; 99; 99].
Definition K_refseq_acc : str := [114; 101; 102; 115; 101; 113; 95; 97; 99; 99].
Definition K_taxonomy : str := [116; 97; 120; 111; 110; 111; 109; 121].
Definition K_genome : str := [103; 101; 110; 111; 109; 101].
Definition K_distance : str := [100; 105; 115; 116; 97; 110; 99; 101].
Definition K_matched_taxon : str := [109; 97; 116; 99; 104; 101; 100; 95; 116; 97; 120; 111; 110].
Definition K_path : str := [112; 97; 116; 104].
Definition K_format : str := [102; 111; 114; 109; 97; 116].
Definition K_predicted_taxon : str := [112; 114; 101; 100; 105; 99; 116; 101; 100; 95; 116; 97; 120; 111; 110].
Definition K_next_taxon : str := [110; 101; 120; 116; 95; 116; 97; 120; 111; 110].
Definition K_closest_genomes : str := [99; 108; 111; 115; 101; 115; 116; 95; 103; 101; 110; 111; 109; 101; 115].
Definition K_version : str := [118; 101; 114; 115; 105; 111; 110].
Definition K_items : str := [105; 116; 101; 109; 115].
Definition K_genomeset : str := [103; 101; 110; 111; 109; 101; 115; 101; 116].
Definition K_signaturesmeta : str := [115; 105; 103; 110; 97; 116; 117; 114; 101; 115; 109; 101; 116; 97].
Definition K_gambit_version : str := [103; 97; 109; 98; 105; 116; 95; 118; 101; 114; 115; 105; 111; 110].
Definition K_timestamp : str := [116; 105; 109; 101; 115; 116; 97; 109; 112].
Definition K_extra : str := [101; 120; 116; 114; 97].
Definition K_compression : str := [99; 111; 109; 112; 114; 101; 115; 115; 105; 111; 110].
Definition K_success : str := [115; 117; 99; 99; 101; 115; 115].
Definition K_primary_match : str := [112; 114; 105; 109; 97; 114; 121; 95; 109; 97; 116; 99; 104].
Definition K_closest_match : str := [99; 108; 111; 115; 101; 115; 116; 95; 109; 97; 116; 99; 104].
Definition K_warnings : str := [119; 97; 114; 110; 105; 110; 103; 115].
Definition K_error : str := [101; 114; 114; 111; 114].
Definition K_input : str := [105; 110; 112; 117; 116].
Definition K_label : str := [108; 97; 98; 101; 108].
Definition K_file : str := [102; 105; 108; 101].
Definition K_classifier_result : str := [99; 108; 97; 115; 115; 105; 102; 105; 101; 114; 95; 114; 101; 115; 117; 108; 116].
Definition K_report_taxon : str := [114; 101; 112; 111; 114; 116; 95; 116; 97; 120; 111; 110].
Definition K_classify_strict : str := [99; 108; 97; 115; 115; 105; 102; 121; 95; 115; 116; 114; 105; 99; 116].
Definition K_chunksize : str := [99; 104; 117; 110; 107; 115; 105; 122; 101].
Definition K_report_closest : str := [114; 101; 112; 111; 114; 116; 95; 99; 108; 111; 115; 101; 115; 116].
Definition K_params : str := [112; 97; 114; 97; 109; 115].

Record taxon := mkT { t_id : str; t_key : str; t_name : str; t_ncbi : option str;
                      t_rank : option str; t_thr : option str }.
Record genome := mkG { g_key : str; g_desc : str; g_org : option str; g_ncbi_db : option str;
                       g_ncbi_id : option str; g_gb : option str; g_rs : option str; g_id : str;
                       g_tax : list taxon (* taxon.ancestors(incself=True) *) }.
Record gmatch := mkM { m_genome : genome; m_dist : str (* repr(float(distance)) *);
                       m_taxon : option taxon }.
Record cresult := mkC { c_success : bool; c_pred : option taxon; c_primary : option gmatch;
                        c_closest : gmatch; c_next : option taxon; c_warn : list str;
                        c_err : option str }.
Record qfile := mkF { f_path : str; f_format : str; f_comp : option str }.
Record item := mkI { i_label : str; i_file : option qfile; i_cr : cresult;
                     i_report : option taxon; i_closest : list gmatch }.
(** [chunksize] is documented as an int or None (no chunking) *)
Record params := mkP { p_strict : bool; p_chunk : option str; p_nclosest : str }.
Record gset := mkGS { gs_id : str; gs_key : str; gs_version : option str; gs_name : str;
                      gs_desc : option str }.
Record results := mkR { r_items : list item; r_params : option params; r_gset : gset;
                        r_sigmeta : jv; r_version : str; r_timestamp : str; r_extra : jv }.

(** ---- CSV ------------------------------------------------------------------------------- *)

Definition csv_header : list str :=
  [K_query; K_predicted_name; K_predicted_rank; K_predicted_ncbi_id;
   K_predicted_threshold; K_closest_distance; K_closest_description;
   K_next_name; K_next_rank; K_next_ncbi_id; K_next_threshold].

(** the csv writer renders [None] as the empty string *)
Definition cell (o : option str) : str := match o with Some s => s | None => [] end.
(** [getattr_nested(item, 'x.attr', pass_none=True)] for an optional object [x] *)
Definition via {A} (o : option A) (f : A -> option str) : option str :=
  match o with Some a => f a | None => None end.

(** [get_row(item)]; [dtok] = [str(item.classifier_result.closest_match.distance)] *)
Definition csv_row (x : item * str) : list str :=
  let (it, dtok) := x in
  let cr := i_cr it in
  map cell
    [Some (i_label it);
     via (i_report it) (fun t => Some (t_name t));
     via (i_report it) t_rank;
     via (i_report it) t_ncbi;
     via (i_report it) t_thr;
     Some dtok;
     Some (g_desc (m_genome (c_closest cr)));
     via (c_next cr) (fun t => Some (t_name t));
     via (c_next cr) t_rank;
     via (c_next cr) t_ncbi;
     via (c_next cr) t_thr].

Definition csv_rows (xs : list (item * str)) : list (list str) := csv_header :: map csv_row xs.
Definition csv_export_old (xs : list (item * str)) : str := csv_write_old (csv_rows xs).
Definition csv_export_fixed (xs : list (item * str)) : str := csv_write_fixed (csv_rows xs).

(** ---- JSON ------------------------------------------------------------------------------ *)

Definition jstr (s : str) : jv := JStr s.
Definition jopt {A} (f : A -> jv) (o : option A) : jv := match o with Some a => f a | None => JNull end.
Definition jnum (tok : str) : jv := JNum tok.

Definition taxon_json (t : taxon) : jv :=
  JObj [(K_id, jnum (t_id t)); (K_key, jstr (t_key t)); (K_name, jstr (t_name t));
        (K_ncbi_id, jopt jnum (t_ncbi t)); (K_rank, jopt jstr (t_rank t));
        (K_distance_threshold, jopt jnum (t_thr t))].

Definition genome_json (g : genome) : jv :=
  JObj [(K_key, jstr (g_key g)); (K_description, jstr (g_desc g));
        (K_organism, jopt jstr (g_org g)); (K_ncbi_db, jopt jstr (g_ncbi_db g));
        (K_ncbi_id, jopt jnum (g_ncbi_id g)); (K_genbank_acc, jopt jstr (g_gb g));
        (K_refseq_acc, jopt jstr (g_rs g)); (K_id, jnum (g_id g));
        (K_taxonomy, JArr (map taxon_json (g_tax g)))].

Definition match_json (m : gmatch) : jv :=
  JObj [(K_genome, genome_json (m_genome m)); (K_distance, jnum (m_dist m));
        (K_matched_taxon, jopt taxon_json (m_taxon m))].

Definition input_json (it : item) : jv :=
  JObj [(K_name, jstr (i_label it));
        (K_path, jopt (fun f => jstr (f_path f)) (i_file it));
        (K_format, jopt (fun f => jstr (f_format f)) (i_file it))].

Definition item_json (it : item) : jv :=
  JObj [(K_query, input_json it);
        (K_predicted_taxon, jopt taxon_json (i_report it));
        (K_next_taxon, jopt taxon_json (c_next (i_cr it)));
        (K_closest_genomes, JArr (map match_json (i_closest it)))].

Definition gset_json (g : gset) : jv :=
  JObj [(K_id, jnum (gs_id g)); (K_key, jstr (gs_key g));
        (K_version, jopt jstr (gs_version g)); (K_name, jstr (gs_name g));
        (K_description, jopt jstr (gs_desc g))].

Definition results_json (r : results) : jv :=
  JObj [(K_items, JArr (map item_json (r_items r)));
        (K_genomeset, gset_json (r_gset r));
        (K_signaturesmeta, r_sigmeta r);
        (K_gambit_version, jstr (r_version r));
        (K_timestamp, jstr (r_timestamp r));
        (K_extra, r_extra r)].

Definition json_export (r : results) : str := json_write (results_json r).

(** ---- archive: writer ------------------------------------------------------------------- *)

Definition key_json (k : str) : jv := JObj [(K_key, jstr k)].
Definition ar_taxon (t : taxon) : jv := key_json (t_key t).
Definition ar_genome (g : genome) : jv := key_json (g_key g).
Definition ar_match (m : gmatch) : jv :=
  JObj [(K_genome, ar_genome (m_genome m)); (K_distance, jnum (m_dist m));
        (K_matched_taxon, jopt ar_taxon (m_taxon m))].
Definition ar_file (f : qfile) : jv :=
  JObj [(K_path, jstr (f_path f)); (K_format, jstr (f_format f));
        (K_compression, jopt jstr (f_comp f))].
Definition ar_cresult (c : cresult) : jv :=
  JObj [(K_success, JBool (c_success c));
        (K_predicted_taxon, jopt ar_taxon (c_pred c));
        (K_primary_match, jopt ar_match (c_primary c));
        (K_closest_match, ar_match (c_closest c));
        (K_next_taxon, jopt ar_taxon (c_next c));
        (K_warnings, JArr (map jstr (c_warn c)));
        (K_error, jopt jstr (c_err c))].
Definition ar_item (it : item) : jv :=
  JObj [(K_input, JObj [(K_label, jstr (i_label it)); (K_file, jopt ar_file (i_file it))]);
        (K_classifier_result, ar_cresult (i_cr it));
        (K_report_taxon, jopt ar_taxon (i_report it));
        (K_closest_genomes, JArr (map ar_match (i_closest it)))].
Definition ar_params (p : params) : jv :=
  JObj [(K_classify_strict, JBool (p_strict p)); (K_chunksize, jopt jnum (p_chunk p));
        (K_report_closest, jnum (p_nclosest p))].
Definition ar_results (r : results) : jv :=
  JObj [(K_items, JArr (map ar_item (r_items r)));
        (K_params, jopt ar_params (r_params r));
        (K_genomeset, JObj [(K_key, jstr (gs_key (r_gset r)));
                                (K_version, jopt jstr (gs_version (r_gset r)))]);
        (K_signaturesmeta, r_sigmeta r);
        (K_gambit_version, jstr (r_version r));
        (K_timestamp, jstr (r_timestamp r));
        (K_extra, r_extra r)].

Definition archive_export (r : results) : str := json_write (ar_results r).

(** ---- archive: reader ------------------------------------------------------------------- *)

(** the reference database as the reader sees it: the genome sets, and the taxa / annotated
    genomes of the genome set selected by the archive's (key, version) *)
Record refdb := mkDB { db_gsets : list gset; db_taxa : list taxon; db_genomes : list genome }.

Definition ob {A B} (x : xres A) (f : A -> xres B) : xres B :=
  match x with XOk a => f a | XErr e => XErr e end.
Definition field (k : str) (v : jv) : xres jv :=
  match jget k v with Some x => XOk x | None => XErr StructureError end.
Definition as_str (v : jv) : xres str := match v with JStr s => XOk s | _ => XErr StructureError end.
Definition as_num (v : jv) : xres str := match v with JNum s => XOk s | _ => XErr StructureError end.
Definition as_bool (v : jv) : xres bool := match v with JBool b => XOk b | _ => XErr StructureError end.
Definition as_arr (v : jv) : xres (list jv) := match v with JArr l => XOk l | _ => XErr StructureError end.
Definition as_opt {A} (f : jv -> xres A) (v : jv) : xres (option A) :=
  match v with JNull => XOk None | _ => ob (f v) (fun a => XOk (Some a)) end.
Fixpoint mapM {A B} (f : A -> xres B) (l : list A) : xres (list B) :=
  match l with
  | [] => XOk []
  | a :: t => ob (f a) (fun b => ob (mapM f t) (fun bs => XOk (b :: bs)))
  end.

(** sqlalchemy [Query.one()] *)
Definition one {A} (l : list A) : xres A :=
  match l with
  | [a] => XOk a
  | [] => XErr NoResultFound
  | _ => XErr MultipleResultsFound
  end.

Definition opt_str_eqb (a b : option str) : bool :=
  match a, b with
  | None, None => true
  | Some x, Some y => str_eqb x y
  | _, _ => false
  end.

Notation "'let?' x ':=' e 'in' k" := (ob e (fun x => k))
  (at level 200, x name, e at level 100, k at level 200, only parsing).

Definition rd_key (v : jv) : xres str :=
  let? k := field K_key v in as_str k.
Definition rd_taxon (db : refdb) (v : jv) : xres taxon :=
  let? k := rd_key v in
  one (filter (fun t => str_eqb (t_key t) k) (db_taxa db)).
Definition rd_genome (db : refdb) (v : jv) : xres genome :=
  let? k := rd_key v in
  one (filter (fun g => str_eqb (g_key g) k) (db_genomes db)).
Definition rd_match (db : refdb) (v : jv) : xres gmatch :=
  let? g := field K_genome v in let? g := rd_genome db g in
  let? d := field K_distance v in let? d := as_num d in
  let? t := field K_matched_taxon v in let? t := as_opt (rd_taxon db) t in
  XOk (mkM g d t).
Definition rd_file (v : jv) : xres qfile :=
  let? p := field K_path v in let? p := as_str p in
  let? f := field K_format v in let? f := as_str f in
  let? c := field K_compression v in let? c := as_opt as_str c in
  XOk (mkF p f c).
Definition rd_cresult (db : refdb) (v : jv) : xres cresult :=
  let? s := field K_success v in let? s := as_bool s in
  let? p := field K_predicted_taxon v in let? p := as_opt (rd_taxon db) p in
  let? pm := field K_primary_match v in let? pm := as_opt (rd_match db) pm in
  let? cm := field K_closest_match v in let? cm := rd_match db cm in
  let? n := field K_next_taxon v in let? n := as_opt (rd_taxon db) n in
  let? w := field K_warnings v in let? w := as_arr w in let? w := mapM as_str w in
  let? e := field K_error v in let? e := as_opt as_str e in
  XOk (mkC s p pm cm n w e).
Definition rd_input (v : jv) : xres (str * option qfile) :=
  let? l := field K_label v in let? l := as_str l in
  let? f := field K_file v in let? f := as_opt rd_file f in
  XOk (l, f).
Definition rd_item (db : refdb) (v : jv) : xres item :=
  let? i := field K_input v in let? i := rd_input i in
  let? c := field K_classifier_result v in let? c := rd_cresult db c in
  let? t := field K_report_taxon v in let? t := as_opt (rd_taxon db) t in
  let? g := field K_closest_genomes v in let? g := as_arr g in let? g := mapM (rd_match db) g in
  XOk (mkI (fst i) (snd i) c t g).
(** [fx = false]: the unchanged [QueryParams] declares [chunksize: int], so cattrs applies [int()]
    to the stored value and fails on null; [fx = true]: declared [Optional[int]] (repo_fixes/C11.diff) *)
Definition rd_chunk (fx : bool) (v : jv) : xres (option str) :=
  if fx then as_opt as_num v else let? c := as_num v in XOk (Some c).
Definition rd_params (fx : bool) (v : jv) : xres params :=
  let? s := field K_classify_strict v in let? s := as_bool s in
  let? c := field K_chunksize v in let? c := rd_chunk fx c in
  let? n := field K_report_closest v in let? n := as_num n in
  XOk (mkP s c n).
Definition rd_gset (db : refdb) (v : jv) : xres gset :=
  let? k := field K_key v in let? k := as_str k in
  let? ver := field K_version v in let? ver := as_opt as_str ver in
  one (filter (fun g => str_eqb (gs_key g) k && opt_str_eqb (gs_version g) ver) (db_gsets db)).

(** [ResultsArchiveReader.results_from_json]; [fx] selects unchanged / repaired [QueryParams] *)
Definition archive_read (fx : bool) (db : refdb) (v : jv) : xres results :=
  let? gs := field K_genomeset v in let? g := rd_gset db gs in
  let? its := field K_items v in let? its := as_arr its in let? its := mapM (rd_item db) its in
  let? p := field K_params v in let? p := as_opt (rd_params fx) p in
  let? sm := field K_signaturesmeta v in
  let? gv := field K_gambit_version v in let? gv := as_str gv in
  let? ts := field K_timestamp v in let? ts := as_str ts in
  let? ex := field K_extra v in
  XOk (mkR its p g sm gv ts ex).
