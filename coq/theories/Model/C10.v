(** C10 -- executable model of src/gambit/classify.py: matching_taxon, find_matches,
    consensus_taxon (the algorithm as found = [consensus_v0], and with the "forked" repair =
    [consensus]) and the strict branch of classify.

    Taxa are root paths (Spec/C10.v).  [Taxon.ancestors(incself=True)] of a path is the list of its
    non-empty prefixes, longest first; Python's [==] on Taxon objects is path equality; the
    insertion-ordered dict of find_matches is an association list. *)
From Coq Require Import List Bool Arith.
From GV Require Import Base.CSem Spec.C10.
Import ListNotations.
Local Open Scope nat_scope.

(** non-empty prefixes of [p] of length <= n, longest first *)
Fixpoint ancestors_n {A} (n : nat) (p : list A) : list (list A) :=
  match n with 0 => [] | S n' => firstn n p :: ancestors_n n' p end.

(** [list(t.ancestors(incself=True))] : bottom to top *)
Definition ancestors {A} (p : list A) : list (list A) := ancestors_n (length p) p.
(** [t.ancestors(incself=False)] *)
Definition strict_ancestors {A} (p : list A) : list (list A) := ancestors_n (length p - 1) p.

(** [trunk.index(a)] ([None] = ValueError) *)
Fixpoint index_of (a : taxon) (l : list taxon) : option nat :=
  match l with
  | [] => None
  | x :: r => if path_eqb x a then Some 0 else option_map S (index_of a r)
  end.

(** the inner [for a in taxon.ancestors(incself=False)] loop: index in the trunk of the first
    ancestor that is found there ([None] = the loop's [else] branch) *)
Fixpoint find_meet (anc trunk : list taxon) : option nat :=
  match anc with
  | [] => None
  | a :: rest => match index_of a trunk with Some i => Some i | None => find_meet rest trunk end
  end.

(** ---- consensus_taxon as found in the source ------------------------------------------------ *)

(** the [for taxon in taxa[1:]] loop; [None] = early [return (None, set(taxa))] *)
Fixpoint trunk_loop_v0 (trunk : list taxon) (rest : list taxon) : option (list taxon) :=
  match rest with
  | [] => Some trunk
  | t :: rest' =>
      if mem t trunk then trunk_loop_v0 trunk rest'
      else match find_meet (strict_ancestors t) trunk with
           | None => None
           | Some i =>
               if Nat.eqb i 0 then trunk_loop_v0 (ancestors t) rest'
               else trunk_loop_v0 (skipn i trunk) rest'
           end
  end.

(** result: (consensus, others); [Error OOB] = IndexError at [trunk[0]] (unreachable for
    non-empty root paths, see Proofs) *)
Definition finish_consensus (taxa : list taxon) (r : option (list taxon))
  : res (option taxon * list taxon) :=
  match r with
  | None => Ok (None, taxa)
  | Some trunk =>
      match trunk with
      | [] => Error OOB
      | c :: _ => Ok (Some c, filter (fun t => negb (mem t trunk)) taxa)
      end
  end.

Definition consensus_v0 (taxa : list taxon) : res (option taxon * list taxon) :=
  match taxa with
  | [] => Ok (None, [])
  | t0 :: rest => finish_consensus taxa (trunk_loop_v0 (ancestors t0) rest)
  end.

(** ---- consensus_taxon with the repair: remember that the trunk has forked -------------------- *)

Fixpoint trunk_loop (trunk : list taxon) (forked : bool) (rest : list taxon)
  : option (list taxon) :=
  match rest with
  | [] => Some trunk
  | t :: rest' =>
      if mem t trunk then trunk_loop trunk forked rest'
      else match find_meet (strict_ancestors t) trunk with
           | None => None
           | Some i =>
               if Nat.eqb i 0 && negb forked then trunk_loop (ancestors t) false rest'
               else trunk_loop (skipn i trunk) true rest'
           end
  end.

Definition consensus (taxa : list taxon) : res (option taxon * list taxon) :=
  match taxa with
  | [] => Ok (None, [])
  | t0 :: rest => finish_consensus taxa (trunk_loop (ancestors t0) false rest)
  end.

(** ---- matching_taxon / find_matches ---------------------------------------------------------- *)

(** [for t in taxon.ancestors(incself=True): if t.distance_threshold is not None and d <= ...] *)
Fixpoint first_match (ancs : list lineage) (d : nat) : option taxon :=
  match ancs with
  | [] => None
  | a :: rest => if covers d (last_thr a) then Some (map fst a) else first_match rest d
  end.

Definition matching_taxon (g : genome) : option taxon := first_match (ancestors (fst g)) (snd g).

Definition dict := list (taxon * list nat).

(** [matches.setdefault(k, []).append(i)] on an insertion-ordered dict *)
Fixpoint dict_add (m : dict) (k : taxon) (i : nat) : dict :=
  match m with
  | [] => [(k, [i])]
  | (k', idxs) :: r =>
      if path_eqb k' k then (k', idxs ++ [i]) :: r else (k', idxs) :: dict_add r k i
  end.

Fixpoint find_matches_from (i : nat) (gs : list genome) (m : dict) : dict :=
  match gs with
  | [] => m
  | g :: r =>
      match matching_taxon g with
      | Some t => find_matches_from (S i) r (dict_add m t i)
      | None => find_matches_from (S i) r m
      end
  end.

Definition find_matches (gs : list genome) : dict := find_matches_from 0 gs [].

(** ---- classify(..., strict=True) ------------------------------------------------------------- *)

(** (index, distance, matched taxon) of the best candidate so far; [None] = (None, inf, None) *)
Definition best := option (nat * nat * taxon).

Definition better (d : nat) (b : best) : bool :=
  match b with None => true | Some (_, bd, _) => d <? bd end.

(** [for i in idxs: if dists[i] < best_d: ...]; [Error OOB] = IndexError at [dists[i]] *)
Fixpoint scan_idxs (gs : list genome) (t : taxon) (idxs : list nat) (b : best) : res best :=
  match idxs with
  | [] => Ok b
  | i :: r =>
      match nth_error gs i with
      | None => Error OOB
      | Some g => scan_idxs gs t r (if better (snd g) b then Some (i, snd g, t) else b)
      end
  end.

(** [for taxon, idxs in matches.items(): if consensus not in taxon.ancestors(incself=True): continue] *)
Fixpoint scan_matches (gs : list genome) (c : taxon) (m : dict) (b : best) : res best :=
  match m with
  | [] => Ok b
  | (t, idxs) :: r =>
      if mem c (ancestors t) then
        match scan_idxs gs t idxs b with
        | Ok b' => scan_matches gs c r b'
        | Error e => Error e
        end
      else scan_matches gs c r b
  end.

Record strict_result := {
  sr_success : bool;                 (* result.success *)
  sr_predicted : option taxon;       (* result.predicted_taxon *)
  sr_primary : best;                 (* primary_match: genome index, distance, matched taxon *)
  sr_others : list taxon             (* taxa named in the "inconsistent taxa" warning; [] = no warning *)
}.

(** [Error TypeError] stands for the failed [assert best_i is not None] *)
Definition classify_strict_with
  (cons : list taxon -> res (option taxon * list taxon)) (gs : list genome) : res strict_result :=
  let matches := find_matches gs in
  match cons (map fst matches) with
  | Error e => Error e
  | Ok (c, others) =>
      match matches with
      | [] => Ok {| sr_success := true; sr_predicted := None; sr_primary := None; sr_others := [] |}
      | _ =>
          match c with
          | None => Ok {| sr_success := false; sr_predicted := None; sr_primary := None;
                          sr_others := others |}
          | Some ct =>
              match scan_matches gs ct matches None with
              | Error e => Error e
              | Ok None => Error TypeError
              | Ok (Some p) => Ok {| sr_success := true; sr_predicted := Some ct;
                                     sr_primary := Some p; sr_others := others |}
              end
          end
      end
  end.

Definition classify_strict := classify_strict_with consensus.
Definition classify_strict_v0 := classify_strict_with consensus_v0.
