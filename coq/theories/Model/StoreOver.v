(** C19, the "output path already holds a file" dimension: what is at the path when a writer that
    opened it and completed some storage-library calls dies.

    [Truncate] is the repository's writer ([h5py.File(path, 'w')] in dump_signatures_hdf5): whatever was at
    the path is gone when the open call returns, afterwards the file behaves as on a fresh path.
    [InPlace] is the variant a seeded change introduced (open an existing HDF5 file 'r+' and rewrite the
    datasets): raw data reaches the disk at once, metadata (attributes, dataset headers, the superblock)
    only at close, so a writer that dies before close leaves the OLD root group over data regions that
    were already rewritten.  It is modelled to state precisely what truncation buys ([C19_overwrite_*]).

    No proofs in this file. *)
From Coq Require Import ZArith List Bool.
From GV Require Import Model.Store.
Import ListNotations.
Open Scope Z_scope.

Inductive openmode := Truncate | InPlace.

(** the visible effect of one call of an in-place writer that never reaches [close]: attribute writes and
    dataset creation / deletion are metadata and stay in the cache; the DATA of an integer dataset that
    is written ([dataset[a:b] = data], or [create_dataset(k, data=d)] re-using the place of the old dataset
    of that name when it fits) overwrites the old data *)
Definition inplace_write (st : store) (o : op) : store :=
  match o with
  | OWrite k a b data =>
      match aget k st.(dsets) with
      | Some (DInt t old) =>
          if (0 <=? a) && (a <=? b) && (b <=? zlen old) && (zlen data =? b - a)
          then {| attrs := st.(attrs); dsets := aset k (DInt t (splice old a data)) st.(dsets) |}
          else st
      | _ => st
      end
  | OCreate k (DInt _ d) =>
      match aget k st.(dsets) with
      | Some (DInt t old) =>
          if zlen d <=? zlen old
          then {| attrs := st.(attrs); dsets := aset k (DInt t (splice old 0 d)) st.(dsets) |}
          else st
      | _ => st
      end
  | _ => st
  end.

(** the file at an output path that held [old]: untouched while the writer has not opened it; after the
    open, a writer that completed exactly the calls [done] and died leaves ... *)
Definition over_disk (m : openmode) (pol : policy) (old junk : disk) (started : bool) (done : list op) : disk :=
  if started then
    match m with
    | Truncate => crash_disk pol junk done
    | InPlace =>
        match old with
        | DHdf st => DHdf (fold_left inplace_write done st)
        | _ => crash_disk pol junk done          (* not an HDF5 file: the variant falls back to mode w *)
        end
    end
  else old.
