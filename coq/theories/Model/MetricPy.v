(** Hand model of the Python wrappers in src/gambit/metric.py around the compiled kernel. *)
From Coq Require Import ZArith List Bool.
From GV Require Import Base.CSem Base.F32 Gen.MetricPyx Spec.Jaccard.
Import ListNotations.
Open Scope Z_scope.

(** a NumPy dtype as (kind, itemsize): kind 0 = unsigned integer, 1 = signed integer, 2 = other *)
Definition coords_sizes : list Z := [2; 4; 8].

(** [_cast_sigs_array]: unsigned 16/32/64-bit arrays are returned as they are, signed ones are
    viewed as the unsigned type of the same size, everything else is a ValueError.
    Returns the item size of the array handed to the kernel. *)
Definition cast_sigs_array (kind itemsize : Z) : res Z :=
  if (kind =? 0) && memZ itemsize coords_sizes then Ok itemsize
  else if (kind =? 1) && memZ itemsize coords_sizes then Ok itemsize
  else Error ValueError.

(** [gambit.metric.jaccarddist]: cast both, call the kernel (fuel: enough for the merge loop) *)
Definition py_jaccarddist (k1 s1 : Z) (A : list Z) (k2 s2 : Z) (B : list Z) : res f32 :=
  match cast_sigs_array k1 s1, cast_sigs_array k2 s2 with
  | Ok _, Ok _ => jaccarddist (length A + length B) A B
  | Error e, _ => Error e
  | _, Error e => Error e
  end.

Definition py_jaccard (k1 s1 : Z) (A : list Z) (k2 s2 : Z) (B : list Z) : res f64 :=
  match cast_sigs_array k1 s1, cast_sigs_array k2 s2 with
  | Ok _, Ok _ => jaccard (length A + length B) A B
  | Error e, _ => Error e
  | _, Error e => Error e
  end.
