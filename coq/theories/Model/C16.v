(** C16 -- model of [gambit dist] (src/gambit/cli/dist.py), of the helpers it uses from
    src/gambit/cli/common.py (file ids, list files, parameter groups), of
    [jaccarddist_matrix] / [jaccarddist_pairwise] (src/gambit/metric.py) as far as the
    placement of values in the output array is concerned, and of [dump_dmat_csv]
    (src/gambit/cluster.py) including [format(x, '0.4f')] of a binary32 value.

    Abstractions.  A genome is an index [G] into the harness's own table of genomes; the
    distance kernel is an oracle [d : G -> G -> Z] giving binary32 bit patterns (the kernel
    itself is C02/C05's subject).  Text is a list of code points.  A FASTA file / signature
    entry is the genome it holds.  A NumPy array from [np.empty] is a matrix of [option Z]:
    [None] is an uninitialised cell.  Everything that raises in the code is an explicit
    error here; slices clip as Python slices do.  No proofs in this file. *)
From Coq Require Import ZArith List Bool.
Import ListNotations.
Open Scope Z_scope.

Definition str := list Z.
Definition G := Z.
Definition entry : Type := (str * G)%type.
Definition cell := option Z.
Definition mat := list (list cell).
Definition table := list (list str).

Inductive derr : Type :=
| UsageError      (* check_params_group: not exactly one option of a group *)
| NoDatabase      (* --use-db without `gambit -d DIR` *)
| NoSuchFile      (* a line of a list file names no file *)
| ShapeError      (* ValueError: zip_strict / array shapes differ *)
| IndexErr        (* IndexError *)
| Uninitialised   (* a cell of np.empty() reached the output *)
| FmtFuel         (* digit loop ran out of fuel *)
| Unreachable.    (* (None, None) from get_sequence_files used as a list *)

Inductive dres (A : Type) : Type := DOk (a : A) | DErr (e : derr).
Arguments DOk {A} a.
Arguments DErr {A} e.

Definition dbind {A B} (m : dres A) (f : A -> dres B) : dres B :=
  match m with DOk a => f a | DErr e => DErr e end.

Fixpoint dmap {A B} (f : A -> dres B) (l : list A) : dres (list B) :=
  match l with
  | [] => DOk []
  | x :: r => dbind (f x) (fun y => dbind (dmap f r) (fun ys => DOk (y :: ys)))
  end.

(* ------------------------------------------------------------------------------------ *)
(** * File ids (common.py: strip_extensions, strip_seq_file_ext, get_file_id)            *)

Fixpoint starts_with (p s : str) : bool :=
  match p, s with
  | [], _ => true
  | _ :: _, [] => false
  | a :: p', b :: s' => (a =? b) && starts_with p' s'
  end.
(** [s.endswith(e)] *)
Definition ends_with (s e : str) : bool := starts_with (rev e) (rev s).

(** for ext in extensions: if filename.endswith(ext): return filename[:-len(ext)] *)
Fixpoint strip_extensions (s : str) (exts : list str) : str :=
  match exts with
  | [] => s
  | e :: r => if ends_with s e then firstn (length s - length e) s else strip_extensions s r
  end.

Definition GZIP_EXTENSIONS : list str := [[46; 103; 122]].                (* .gz *)
Definition FASTA_EXTENSIONS : list str :=
  [ [46; 102; 97; 115; 116; 97];   (* .fasta *)
    [46; 102; 110; 97];            (* .fna *)
    [46; 102; 102; 110];           (* .ffn *)
    [46; 102; 97; 97];             (* .faa *)
    [46; 102; 114; 110];           (* .frn *)
    [46; 102; 97] ].               (* .fa *)

Definition strip_seq_file_ext (s : str) : str :=
  strip_extensions (strip_extensions s GZIP_EXTENSIONS) FASTA_EXTENSIONS.

(** os.path.basename (posix): the text after the last '/' ; [cur] = reversed text since it *)
Fixpoint basename_from (s cur : str) : str :=
  match s with
  | [] => rev cur
  | c :: r => if c =? 47 then basename_from r [] else basename_from r (c :: cur)
  end.
Definition basename (s : str) : str := basename_from s [].

(** get_file_id(path, strip_dir=True, strip_ext=True) *)
Definition get_file_id (path : str) : str := strip_seq_file_ext (basename path).

(* ------------------------------------------------------------------------------------ *)
(** * List files (util/io.py read_lines(strip=True, skip_empty=True))                    *)

(** str.isspace() of one code point (what str.strip() removes) *)
Definition is_space (c : Z) : bool :=
  ((9 <=? c) && (c <=? 13)) || ((28 <=? c) && (c <=? 32)) || (c =? 133) || (c =? 160) ||
  (c =? 5760) || ((8192 <=? c) && (c <=? 8202)) || (c =? 8232) || (c =? 8233) ||
  (c =? 8239) || (c =? 8287) || (c =? 12288).

Fixpoint lstrip (s : str) : str :=
  match s with
  | [] => []
  | c :: r => if is_space c then lstrip r else s
  end.
Definition strip (s : str) : str := rev (lstrip (rev (lstrip s))).

(** iteration over a text-mode file: lines end at \n, \r or \r\n (universal newlines);
    [cur] = reversed current line *)
Fixpoint split_lines (s cur : str) : list str :=
  match s with
  | [] => match cur with [] => [] | _ => [rev cur] end
  | c :: r =>
      if c =? 10 then rev cur :: split_lines r []
      else if c =? 13 then
        match r with
        | c2 :: r2 => if c2 =? 10 then rev cur :: split_lines r2 [] else rev cur :: split_lines r []
        | [] => [rev cur]
        end
      else split_lines r (c :: cur)
  end.

Definition nonempty {A} (l : list A) : bool := match l with [] => false | _ => true end.

Definition read_lines (text : str) : list str :=
  filter nonempty (map strip (split_lines text [])).

Fixpoint str_eqb (a b : str) : bool :=
  match a, b with
  | [], [] => true
  | x :: a', y :: b' => (x =? y) && str_eqb a' b'
  | _, _ => false
  end.

(** the file a (stripped) line names below the list file's base directory, if any *)
Fixpoint lookup (fs : list entry) (name : str) : option G :=
  match fs with
  | [] => None
  | (k, g) :: r => if str_eqb k name then Some g else lookup r name
  end.

(** get_sequence_files(explicit, listfile, listfile_dir): ids and files; a file is the
    genome it holds or [None] when it does not exist (noticed when signatures are computed) *)
Definition get_sequence_files (explicit : list entry) (listfile : option str) (fs : list entry)
  : option (list str * list (option G)) :=
  match explicit with
  | _ :: _ => Some (map (fun e => get_file_id (fst e)) explicit, map (fun e => Some (snd e)) explicit)
  | [] =>
      match listfile with
      | Some text => let lines := read_lines text in
                     Some (map get_file_id lines, map (lookup fs) lines)
      | None => None
      end
  end.

(** calc_file_signatures: one signature per file, in order; a missing file raises *)
Fixpoint calc_file_signatures (files : list (option G)) : dres (list G) :=
  match files with
  | [] => DOk []
  | None :: _ => DErr NoSuchFile
  | Some g :: r => dbind (calc_file_signatures r) (fun gs => DOk (g :: gs))
  end.

(* ------------------------------------------------------------------------------------ *)
(** * NumPy arrays: slices and slice assignment                                          *)

(** l[lo:hi] for 0 <= lo, hi (clips like a Python slice) *)
Definition slice {A} (l : list A) (lo hi : nat) : list A := firstn (hi - lo) (skipn lo l).

(** l[lo:lo+len(vs)] = vs, for lo + len(vs) <= len(l) *)
Definition splice {A} (l : list A) (lo : nat) (vs : list A) : list A :=
  firstn lo l ++ vs ++ skipn (lo + length vs) l.

(** out[i, lo:hi][:] = vs  -- an integer index out of range is an IndexError, a length
    mismatch a ValueError (jaccarddist_array checks out.shape == (len(refs),)) *)
Definition set_row_slice (m : mat) (i lo hi : nat) (vs : list cell) : dres mat :=
  match nth_error m i with
  | None => DErr IndexErr
  | Some row =>
      if (length (slice row lo hi) =? length vs)%nat
      then DOk (splice m i [splice row lo vs])
      else DErr ShapeError
  end.

Fixpoint set_col_from (rows : list (list cell)) (j : nat) (vs : list cell) : dres (list (list cell)) :=
  match rows, vs with
  | [], [] => DOk []
  | row :: rows', v :: vs' =>
      if (j <? length row)%nat
      then dbind (set_col_from rows' j vs') (fun r => DOk (splice row j [v] :: r))
      else DErr IndexErr
  | _, _ => DErr ShapeError
  end.
(** out[lo:hi, j] = vs *)
Definition set_col_slice (m : mat) (lo hi j : nat) (vs : list cell) : dres mat :=
  dbind (set_col_from (slice m lo hi) j vs) (fun rows' => DOk (splice m lo rows')).

(** np.fill_diagonal(out, v) on a square array *)
Fixpoint fill_diag_from (i : nat) (m : mat) (v : cell) : mat :=
  match m with
  | [] => []
  | row :: r => (if (i <? length row)%nat then splice row i [v] else row) :: fill_diag_from (S i) r v
  end.

(** np.empty((r, c)) *)
Definition np_empty (r c : nat) : mat := repeat (repeat None c) r.

(* ------------------------------------------------------------------------------------ *)
(** * metric.py                                                                          *)

Section Metric.
Variable d : G -> G -> Z.

(** jaccarddist_matrix(queries, refs): row i is written by one jaccarddist_array call *)
Definition jaccarddist_matrix (queries refs : list G) : mat :=
  map (fun q => map (fun r => Some (d q r)) refs) queries.

(** body of  for i in range(n - 1)  in jaccarddist_pairwise (flat=False, indices=None) *)
Definition pw_step (sigs : list G) (n i : nat) (out : mat) : dres mat :=
  match nth_error sigs i with                                  (* row_sig = sigs[i] *)
  | None => DErr IndexErr
  | Some row_sig =>
      let col_sigs := slice sigs (i + 1) n in                  (* sigs[i+1:n] *)
      dbind (set_row_slice out i (i + 1) n (map (fun r => Some (d row_sig r)) col_sigs))
        (fun out1 =>
           match nth_error out1 i with
           | None => DErr IndexErr
           | Some row => set_col_slice out1 (i + 1) n i (slice row (i + 1) n)   (* out[cols, i] = out[i, cols] *)
           end)
  end.

Fixpoint pw_iter (sigs : list G) (n : nat) (is : list nat) (out : mat) : dres mat :=
  match is with
  | [] => DOk out
  | i :: r => dbind (pw_step sigs n i out) (pw_iter sigs n r)
  end.

Definition jaccarddist_pairwise (sigs : list G) : dres mat :=
  let n := length sigs in
  pw_iter sigs n (seq 0 (n - 1)) (fill_diag_from 0 (np_empty n n) (Some 0)).
End Metric.

(* ------------------------------------------------------------------------------------ *)
(** * format(np.float32(x), '0.4f')                                                      *)

(** sign, biased exponent, fraction field of a binary32 bit pattern *)
Definition f32_fields (b : Z) : bool * Z * Z :=
  (2147483648 <=? b, (b / 8388608) mod 256, b mod 8388608).

(** nearest integer to num/den (den > 0), ties to the even one *)
Definition round_half_even (num den : Z) : Z :=
  let q := num / den in
  let r := num mod den in
  if den <? 2 * r then q + 1
  else if 2 * r =? den then (if Z.even q then q else q + 1)
  else q.

(** the integer N with  N / 10^4  =  m * 2^e  correctly rounded to four decimals *)
Definition scaled4 (m e : Z) : Z :=
  if 0 <=? e then m * 2 ^ e * 10000 else round_half_even (m * 10000) (2 ^ (- e)).

(** decimal digits of n >= 0, most significant first; [None] = out of fuel *)
Fixpoint dec_digits (fuel : nat) (n : Z) (acc : str) : option str :=
  match fuel with
  | O => None
  | S f => let acc' := (48 + n mod 10) :: acc in
           if n <? 10 then Some acc' else dec_digits f (n / 10) acc'
  end.
Definition dec (n : Z) : option str := dec_digits (S (Z.to_nat (Z.log2 n))) n [].

Definition pad4 (n : Z) : str :=
  [48 + n / 1000; 48 + (n / 100) mod 10; 48 + (n / 10) mod 10; 48 + n mod 10].

Definition fmt_fixed4 (s : bool) (m e : Z) : dres str :=
  let N := scaled4 m e in
  match dec (N / 10000) with
  | Some ds => DOk ((if s then [45] else []) ++ ds ++ [46] ++ pad4 (N mod 10000))
  | None => DErr FmtFuel
  end.

(** the finite value of a bit pattern as  (sign, m, e) : (-1)^sign * m * 2^e *)
Definition f32_dyadic_of_bits (b : Z) : option (bool * Z * Z) :=
  let '(s, ex, mant) := f32_fields b in
  if ex =? 255 then None
  else if ex =? 0 then Some (s, mant, -149)
  else Some (s, mant + 8388608, ex - 150).

Definition fmt4 (b : Z) : dres str :=
  match f32_dyadic_of_bits b with
  | Some (s, m, e) => fmt_fixed4 s m e
  | None =>
      let '(s, _, mant) := f32_fields b in
      DOk (if mant =? 0 then (if s then [45; 105; 110; 102] else [105; 110; 102])   (* -inf / inf *)
           else [110; 97; 110])                                                       (* nan *)
  end.

(** total version used in statements: the text, or the empty text where [fmt4] fails
    (Proofs/C16.v shows it never does for a 32-bit pattern) *)
Definition fmt4_str (b : Z) : str := match fmt4 b with DOk s => s | DErr _ => [] end.

(* ------------------------------------------------------------------------------------ *)
(** * cluster.py dump_dmat_csv                                                           *)

(** zip(a, b, strict=True) *)
Fixpoint zip_strict {A B} (a : list A) (b : list B) : dres (list (A * B)) :=
  match a, b with
  | [], [] => DOk []
  | x :: a', y :: b' => dbind (zip_strict a' b') (fun r => DOk ((x, y) :: r))
  | _, _ => DErr ShapeError
  end.

Definition fmt_cell (c : cell) : dres str :=
  match c with None => DErr Uninitialised | Some b => fmt4 b end.

(** the rows handed to csv.writer: header = corner ('' ) then the column ids *)
Definition dump_dmat_csv (dmat : mat) (row_ids col_ids : list str) : dres table :=
  dbind (zip_strict row_ids dmat) (fun rows =>
  dbind (dmap (fun rv => dbind (dmap fmt_cell (snd rv)) (fun vs => DOk (fst rv :: vs))) rows) (fun body =>
  DOk (([] :: col_ids) :: body))).

(* ------------------------------------------------------------------------------------ *)
(** * cli/dist.py dist_cmd                                                               *)

Record params : Type := mkParams {
  p_q : list entry;              (* -q PATH ...     : path as typed, genome in that file *)
  p_ql : option str;             (* --ql FILE       : text of the list file *)
  p_qfs : list entry;            (* files below --qdir : relative name -> genome *)
  p_qs : option (list entry);    (* --qs FILE       : ids and signatures stored in it *)
  p_r : list entry;              (* -r PATH ... *)
  p_rl : option str;             (* --rl FILE *)
  p_rfs : list entry;            (* files below --rdir *)
  p_rs : option (list entry);    (* --rs FILE *)
  p_use_db : bool;               (* -d / --use-db *)
  p_db : option (list entry);    (* ids and signatures of the database of `gambit -d DIR`, if given *)
  p_square : bool                (* -s / --square *)
}.

Definition is_some {A} (o : option A) : bool := match o with Some _ => true | None => false end.
Definition count_true (l : list bool) : nat := length (filter (fun b => b) l).

(** common.check_params_group(ctx, names, exclusive=True, required=True) *)
Definition check_params_group (present : list bool) : dres unit :=
  let n := count_true present in
  if (1 <? n)%nat then DErr UsageError
  else if (n =? 0)%nat then DErr UsageError
  else DOk tt.

(** signatures of one side: already loaded, or files still to be processed *)
Inductive side : Type :=
| Sigs (ids : list str) (sigs : list G)
| Files (ids : list str) (files : list (option G))
| NoSide.                                      (* ref side of --square *)

Definition side_sigs (s : side) : dres (list G) :=
  match s with
  | Sigs _ g => DOk g
  | Files _ f => calc_file_signatures f
  | NoSide => DErr Unreachable
  end.

Definition query_side (p : params) : dres side :=
  match p_qs p with
  | Some es => DOk (Sigs (map fst es) (map snd es))
  | None =>
      match get_sequence_files (p_q p) (p_ql p) (p_qfs p) with
      | Some (ids, files) => DOk (Files ids files)
      | None => DErr Unreachable
      end
  end.

Definition side_ids (s : side) : list str :=
  match s with Sigs ids _ => ids | Files ids _ => ids | NoSide => [] end.

Definition ref_side (p : params) : dres side :=
  match p_rs p with
  | Some es => DOk (Sigs (map fst es) (map snd es))
  | None =>
      if p_use_db p then
        match p_db p with
        | Some es => DOk (Sigs (map fst es) (map snd es))
        | None => DErr NoDatabase
        end
      else if p_square p then DOk NoSide
      else
        match get_sequence_files (p_r p) (p_rl p) (p_rfs p) with
        | Some (ids, files) => DOk (Files ids files)
        | None => DErr Unreachable
        end
  end.

Definition dist_cmd (d : G -> G -> Z) (p : params) : dres table :=
  dbind (check_params_group [nonempty (p_q p); is_some (p_ql p); is_some (p_qs p)]) (fun _ =>
  dbind (check_params_group [nonempty (p_r p); is_some (p_rl p); is_some (p_rs p); p_use_db p; p_square p]) (fun _ =>
  dbind (query_side p) (fun qside =>
  let query_ids := side_ids qside in
  dbind (ref_side p) (fun rside =>
  let ref_ids := match rside with NoSide => query_ids | _ => side_ids rside end in
  dbind (side_sigs qside) (fun query_sigs =>
  dbind (if p_square p then jaccarddist_pairwise d query_sigs
         else dbind (side_sigs rside) (fun ref_sigs => DOk (jaccarddist_matrix d query_sigs ref_sigs)))
    (fun dmat => dump_dmat_csv dmat query_ids ref_ids)))))).
