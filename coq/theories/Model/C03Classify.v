(** C03 -- model of the default (non-strict) classification path.

    Follows src/gambit/classify.py ([matching_taxon], [GenomeMatch.next_taxon],
    [classify] with [strict=False]), src/gambit/db/models.py ([Taxon.ancestors],
    [reportable_taxon]) and src/gambit/query.py ([get_result_item]).

    Representation.  A [Taxon] object is represented by the list "itself, parent,
    grand-parent, ..., root" ([lineage], never empty for a real taxon); [t.parent]
    is the tail, the Python value [None] is the empty list.  A reference genome
    is the lineage of its taxon ([[]] = genome without taxon).  A taxon carries its
    id, its optional distance threshold and its report flag.

    Numbers.  Distances (NumPy float32) and thresholds (Python float = binary64)
    are finite binary fractions; all numbers of one case are represented by the
    integers [value * 2^k] for a common scale [k] under which they are integers
    (k = 1074 always works), so the comparison [d <= t.distance_threshold] --
    performed by NumPy 1.x in binary64 after the exact widening of [d] -- is
    integer [<=?] (theorem C03_threshold_compare_scaled; Entry/E03.v additionally
    decodes bit patterns with Flocq and the harness cross-checks this reading
    against the code on every boundary pair it uses).

    No proofs in this file. *)
From Coq Require Import ZArith List Bool.
Import ListNotations.
Open Scope Z_scope.

Record taxon : Type := mkTaxon {
  t_id : Z;
  t_thr : option Z;      (* distance_threshold, None = NULL *)
  t_report : bool;       (* report *)
}.

(** a taxon together with its ancestors, bottom to top; [[]] = Python [None] *)
Definition lineage : Type := list taxon.

Definition has_thr (t : taxon) : bool :=
  match t_thr t with Some _ => true | None => false end.

(** [t.distance_threshold is not None and d <= t.distance_threshold] *)
Definition within (d : Z) (t : taxon) : bool :=
  match t_thr t with Some x => d <=? x | None => false end.

(** classify.py [matching_taxon]:
      for t in taxon.ancestors(incself=True):
          if t.distance_threshold is not None and d <= t.distance_threshold: return t
      return None
    The result is the matched taxon *object*, i.e. the suffix starting at it. *)
Fixpoint matching_taxon (d : Z) (l : lineage) : lineage :=
  match l with
  | [] => []
  | t :: up => if within d t then l else matching_taxon d up
  end.

(** inner loop of [next_taxon]:
      while hi is not None and hi.distance_threshold is None: hi = hi.parent *)
Fixpoint skip_no_thr (hi : lineage) : lineage :=
  match hi with
  | [] => []
  | t :: up => if has_thr t then hi else skip_no_thr up
  end.

Inductive cerr : Type :=
| EmptyDists      (* np.argmin of an empty array: ValueError *)
| GenomeIndex     (* ref_genomes[closest]: IndexError *)
| NoTaxon         (* genome.taxon is None: AttributeError *)
| Fuel.           (* model artefact, proved unreachable *)

Inductive cres (A : Type) : Type := COk (a : A) | CErr (e : cerr).
Arguments COk {A} a.
Arguments CErr {A} e.

(** outer loop of [GenomeMatch.next_taxon]:
      while hi is not None:
          if hi.distance_threshold is not None and self.distance <= hi.distance_threshold:
              return lo
          lo = hi
          hi = hi.parent;  <inner loop>
      return lo
    on explicit fuel (each round strictly shortens [hi]). *)
Fixpoint next_loop (fuel : nat) (d : Z) (lo hi : lineage) : cres lineage :=
  match fuel with
  | O => CErr Fuel
  | S fuel' =>
      match hi with
      | [] => COk lo
      | t :: up =>
          if within d t then COk lo
          else next_loop fuel' d hi (skip_no_thr up)
      end
  end.

(** the code as it is in the repository: [hi = self.genome.taxon] *)
Definition next_taxon_orig (d : Z) (g : lineage) : cres lineage :=
  next_loop (S (length g)) d [] g.

(** the repaired walk (repo_fixes/C03.diff): start at the first threshold-bearing
    taxon of the lineage *)
Definition next_taxon (d : Z) (g : lineage) : cres lineage :=
  next_loop (S (length g)) d [] (skip_no_thr g).

(** models.py [reportable_taxon]: None passes through; first of
    [taxon.ancestors(incself=True)] with [report] *)
Fixpoint reportable_taxon (l : lineage) : lineage :=
  match l with
  | [] => []
  | t :: up => if t_report t then l else reportable_taxon up
  end.

(** [np.argmin]: index of the first minimum (distances are not NaN) *)
Fixpoint argmin_from (best_i : nat) (best : Z) (i : nat) (ds : list Z) : nat :=
  match ds with
  | [] => best_i
  | x :: r => if x <? best then argmin_from i x (S i) r else argmin_from best_i best (S i) r
  end.

Definition argmin (ds : list Z) : option nat :=
  match ds with
  | [] => None
  | x :: r => Some (argmin_from O x 1%nat r)
  end.

(** what the property observes of a [QueryResultItem] *)
Record result : Type := mkResult {
  r_closest : nat;             (* index of closest_match.genome in the reference list *)
  r_dist : Z;                  (* closest_match.distance *)
  r_predicted : lineage;       (* predicted_taxon ([] = None) *)
  r_primary : option nat;      (* index of primary_match.genome, None = no primary match *)
  r_next : lineage;            (* next_taxon *)
  r_report : lineage;          (* report_taxon *)
}.

(** the part of [classify(strict=False)] + [get_result_item] after the closest genome
    (index [i], lineage [g], distance [d]) has been selected *)
Definition result_from (next : Z -> lineage -> cres lineage)
           (i : nat) (g : lineage) (d : Z) : cres result :=
  match g with
  | [] => CErr NoTaxon
  | _ =>
      let m := matching_taxon d g in
      match next d g with
      | CErr e => CErr e
      | COk nx =>
          COk {| r_closest := i; r_dist := d; r_predicted := m;
                 r_primary := match m with [] => None | _ => Some i end;
                 r_next := nx;
                 r_report := reportable_taxon m |}
      end
  end.

Definition classify_with (next : Z -> lineage -> cres lineage)
           (gs : list lineage) (ds : list Z) : cres result :=
  match argmin ds with
  | None => CErr EmptyDists
  | Some i =>
      match nth_error gs i, nth_error ds i with
      | Some g, Some d => result_from next i g d
      | _, _ => CErr GenomeIndex
      end
  end.

(** repaired code *)
Definition classify : list lineage -> list Z -> cres result := classify_with next_taxon.
(** code as found *)
Definition classify_orig : list lineage -> list Z -> cres result := classify_with next_taxon_orig.
