(** Store-protocol model of src/gambit/sigs/hdf5.py (shared by C12 and C19).

    An HDF5 group is modelled by what h5py lets the code observe: attributes (integer, string or
    [h5py.Empty]) and one-dimensional typed datasets, both keyed by name.  libhdf5's encoding of
    this on disk is NOT modelled; a disk file is either [DHdf st] (a well-formed HDF5 file whose
    root group is [st]; its first 8 bytes are then the magic number) or [DRaw bytes] (a file that
    libhdf5 refuses to open).

    [dump_ops] is the sequence of storage-library calls issued by [HDF5Signatures.create]
    (hdf5.py:130-172,214-221): [AttributeManager.__setitem__], [Group.create_dataset] and
    [Dataset.__setitem__] -- exactly the three entry points the C19 harness intercepts.  The format
    marker [gambit_signatures_version] is the LAST call (repo_fixes/C19-marker-last.diff);
    [dump_ops_v0] is the order of the code as found (marker first), kept for the [_refuted] theorems.
    [load] follows [HDF5Signatures.__init__] (hdf5.py:91-112), [load_file_*] follows
    [load_signatures_hdf5] (hdf5.py:226-259).  No proofs in this file. *)
From Coq Require Import ZArith List Bool.
Import ListNotations.
Open Scope Z_scope.

(** Python [str] as a list of code points. *)
Definition str := list Z.

(** integer dtypes *)
Inductive ity := U8 | U16 | U32 | U64 | I8 | I16 | I32 | I64.

(** exceptions that matter (classes, not messages) *)
Inductive serr :=
| ESigFile     (* gambit.sigs.base.SignaturesFileError *)
| EValue       (* ValueError (incl. UnicodeEncodeError, "name already exists") *)
| EKey         (* KeyError: missing attribute / dataset *)
| EOS          (* OSError raised by h5py.File on a file libhdf5 cannot parse *)
| EType        (* TypeError: shape mismatch / wrong kind of object *)
| EIndex       (* IndexError *)
| EMalformed.  (* a state outside what the model covers (never reached from [dump_ops]) *)

Inductive sres (A : Type) := SOk (a : A) | SErr (e : serr).
Arguments SOk {A} a.
Arguments SErr {A} e.

Definition sbind {A B} (r : sres A) (f : A -> sres B) : sres B :=
  match r with SOk a => f a | SErr e => SErr e end.

(** attribute values and datasets *)
Inductive aval := AInt (z : Z) | AStr (s : str) | AEmpty.
Inductive dset := DInt (t : ity) (d : list Z) | DStr (d : list str).

(** names: the ones the format uses get fixed codes, any other name another code *)
Notation KMarker := 0 (only parsing).   (* 'gambit_signatures_version' *)
Notation KK := 1 (only parsing).        (* 'kmerspec_k' *)
Notation KPrefix := 2 (only parsing).   (* 'kmerspec_prefix' *)
Notation KId := 3 (only parsing).
Notation KName := 4 (only parsing).
Notation KIdAttr := 5 (only parsing).
Notation KVersion := 6 (only parsing).
Notation KDesc := 7 (only parsing).
Notation KExtra := 8 (only parsing).
Notation DIds := 0 (only parsing).
Notation DValues := 1 (only parsing).
Notation DBounds := 2 (only parsing).

Record store := { attrs : list (Z * aval); dsets : list (Z * dset) }.
Definition empty_store : store := {| attrs := []; dsets := [] |}.

Fixpoint aget {V} (k : Z) (l : list (Z * V)) : option V :=
  match l with
  | [] => None
  | (k', v) :: r => if k =? k' then Some v else aget k r
  end.

Fixpoint aset {V} (k : Z) (v : V) (l : list (Z * V)) : list (Z * V) :=
  match l with
  | [] => [(k, v)]
  | (k', v') :: r => if k =? k' then (k, v) :: r else (k', v') :: aset k v r
  end.

(** h5py stores [str] as variable-length UTF-8: code point 0 ("VLEN strings do not support embedded
    NULLs") and surrogates (UnicodeEncodeError) are refused with a ValueError subclass *)
Definition valid_cp (z : Z) : bool :=
  ((0 <? z) && (z <? 55296)) || ((57343 <? z) && (z <=? 1114111)).
Definition valid_str (s : str) : bool := forallb valid_cp s.
Definition aval_ok (v : aval) : bool := match v with AStr s => valid_str s | _ => true end.
Definition dset_ok (d : dset) : bool := match d with DStr l => forallb valid_str l | DInt _ _ => true end.

Definition zlen {A} (l : list A) : Z := Z.of_nat (length l).

(** numpy / h5py 1-d slice [l[a:b]] for [0 <= a], [0 <= b] *)
Definition slice (l : list Z) (a b : Z) : list Z :=
  firstn (Z.to_nat (b - a)) (skipn (Z.to_nat a) l).
(** [l[a:a+len data] = data] *)
Definition splice (l : list Z) (a : Z) (data : list Z) : list Z :=
  firstn (Z.to_nat a) l ++ data ++ skipn (Z.to_nat a + length data) l.

(** the storage-library calls *)
Inductive op :=
| OSetAttr (k : Z) (v : aval)                  (* group.attrs[k] = v *)
| OCreate (k : Z) (d : dset)                   (* group.create_dataset(k, data=d) *)
| OCreateZero (k : Z) (t : ity) (n : Z)        (* group.create_dataset(k, shape=n, dtype=t): fill value 0 *)
| OWrite (k : Z) (a b : Z) (data : list Z).    (* dataset[a:b] = data *)

Definition run_op (o : op) (st : store) : sres store :=
  match o with
  | OSetAttr k v =>
      if aval_ok v then SOk {| attrs := aset k v st.(attrs); dsets := st.(dsets) |} else SErr EValue
  | OCreate k d =>
      match aget k st.(dsets) with
      | Some _ => SErr EValue
      | None => if dset_ok d then SOk {| attrs := st.(attrs); dsets := aset k d st.(dsets) |} else SErr EValue
      end
  | OCreateZero k t n =>
      match aget k st.(dsets) with
      | Some _ => SErr EValue
      | None => if n <? 0 then SErr EValue
                else SOk {| attrs := st.(attrs); dsets := aset k (DInt t (repeat 0 (Z.to_nat n))) st.(dsets) |}
      end
  | OWrite k a b data =>
      match aget k st.(dsets) with
      | Some (DInt t old) =>
          if (0 <=? a) && (a <=? b) && (b <=? zlen old) && (zlen data =? b - a)
          then SOk {| attrs := st.(attrs); dsets := aset k (DInt t (splice old a data)) st.(dsets) |}
          else SErr EType
      | Some (DStr _) => SErr EType
      | None => SErr EKey
      end
  end.

Fixpoint run (ops : list op) (st : store) : sres store :=
  match ops with
  | [] => SOk st
  | o :: r => sbind (run_op o st) (run r)
  end.

(** ---- the collection being written -------------------------------------------------------- *)

Inductive ids := IdInts (t : ity) (l : list Z) | IdStrs (l : list str).
Definition ids_len (i : ids) : nat := match i with IdInts _ l => length l | IdStrs l => length l end.

(** [SignaturesMeta]; [m_extra] is the JSON *text* of [extra] ([json.dumps] / [json.loads] are outside
    the model and enter the theorems as section variables) *)
Record meta := { m_id : option str; m_name : option str; m_id_attr : option str;
                 m_version : option str; m_desc : option str; m_extra : option str }.

Record coll := { c_k : Z; c_prefix : str; c_ty : ity; c_sigs : list (list Z); c_ids : ids; c_meta : meta }.

(** which of the two write paths of [_init_datasets] is taken: [Whole] for a [SignatureArray]
    (values and bounds written as whole arrays), [PerSig] for everything else *)
Inductive wpath := Whole | PerSig.

(** [none_to_empty] *)
Definition o2a (o : option str) : aval := match o with Some s => AStr s | None => AEmpty end.

Definition ids_dset (i : ids) : dset := match i with IdInts t l => DInt t l | IdStrs l => DStr l end.

(** [np.cumsum(sizes)] *)
Fixpoint cumsum_from (acc : Z) (sizes : list Z) : list Z :=
  match sizes with
  | [] => []
  | s :: r => (acc + s) :: cumsum_from (acc + s) r
  end.
Definition sizes_of (sigs : list (list Z)) : list Z := map (@zlen Z) sigs.
Definition bounds_of (sigs : list (list Z)) : list Z := 0 :: cumsum_from 0 (sizes_of sigs).
Definition total_of (sigs : list (list Z)) : Z := last (bounds_of sigs) 0.

(** [for i in range(n): values[bounds[i]:bounds[i+1]] = signatures[i]] -- the running offset is
    the value of [bounds[i]] *)
Fixpoint sig_writes (off : Z) (sigs : list (list Z)) : list op :=
  match sigs with
  | [] => []
  | s :: r => OWrite DValues off (off + zlen s) s :: sig_writes (off + zlen s) r
  end.

(** [_init_attrs] + [write_metadata] (hdf5.py:37-48,130-136): every attribute but the format marker *)
Definition attr_ops (c : coll) : list op :=
  let m := c.(c_meta) in
  [ OSetAttr KK (AInt c.(c_k));
    OSetAttr KPrefix (AStr c.(c_prefix));
    OSetAttr KId (o2a m.(m_id));
    OSetAttr KName (o2a m.(m_name));
    OSetAttr KIdAttr (o2a m.(m_id_attr));
    OSetAttr KVersion (o2a m.(m_version));
    OSetAttr KDesc (o2a m.(m_desc));
    OSetAttr KExtra (o2a m.(m_extra)) ].

(** [_init_datasets] (hdf5.py:139-172) *)
Definition data_ops (p : wpath) (c : coll) : list op :=
  let sigs := c.(c_sigs) in
  OCreate DIds (ids_dset c.(c_ids)) ::
  match p with
  | Whole => [ OCreate DValues (DInt c.(c_ty) (concat sigs)); OCreate DBounds (DInt I64 (bounds_of sigs)) ]
  | PerSig =>
      [ OCreateZero DBounds I64 (zlen sigs + 1);
        OWrite DBounds 0 1 [0];
        OWrite DBounds 1 (zlen sigs + 1) (cumsum_from 0 (sizes_of sigs));
        OCreateZero DValues c.(c_ty) (total_of sigs) ] ++ sig_writes 0 sigs
  end.

(** [group.attrs['gambit_signatures_version'] = 1]: the call that turns the group into a signature set *)
Definition marker_op : op := OSetAttr KMarker (AInt 1).

(** everything [create] writes before the marker *)
Definition body_ops (p : wpath) (c : coll) : list op := attr_ops c ++ data_ops p c.

(** the calls of one write, in the order of the repaired code: attributes, datasets, the marker LAST *)
Definition dump_ops (p : wpath) (c : coll) : list op := body_ops p c ++ [marker_op].

(** the order of the code as found: the marker is the FIRST call of [_init_attrs] *)
Definition dump_ops_v0 (p : wpath) (c : coll) : list op := marker_op :: body_ops p c.

(** [HDF5Signatures.create] on a fresh group: the ids/length check (hdf5.py:202-205), then the calls *)
Definition create (p : wpath) (c : coll) : sres store :=
  if Nat.eqb (ids_len c.(c_ids)) (length c.(c_sigs)) then run (dump_ops p c) empty_store else SErr EValue.

(** the same for the order as found *)
Definition create_v0 (p : wpath) (c : coll) : sres store :=
  if Nat.eqb (ids_len c.(c_ids)) (length c.(c_sigs)) then run (dump_ops_v0 p c) empty_store else SErr EValue.

(** ---- reading ------------------------------------------------------------------------------- *)

(** what [HDF5Signatures.__init__] leaves in the object: parameters, metadata, ids and the
    concatenated (values, bounds) representation *)
Record loaded := { l_k : Z; l_prefix : str; l_meta : meta; l_ids : ids;
                   l_ty : ity; l_values : list Z; l_bounds : list Z }.

(** [KmerSpec(k, prefix)]: [seq_to_bytes(prefix).upper()] then [validate_dna_seq_bytes] *)
Definition nuc_upper (z : Z) : Z :=
  if (z =? 97) || (z =? 99) || (z =? 103) || (z =? 116) then z - 32 else z.
Definition is_nuc (z : Z) : bool := (z =? 65) || (z =? 67) || (z =? 71) || (z =? 84).
Definition kmerspec (k : Z) (prefix : str) : sres (Z * str) :=
  if k <? 1 then SErr EValue
  else let p := map nuc_upper prefix in
       if forallb is_nuc p then SOk (k, p) else SErr EValue.

(** [empty_to_none(group.attrs.get(name))] for a string-valued metadata field *)
Definition get_meta (k : Z) (st : store) : sres (option str) :=
  match aget k st.(attrs) with
  | None => SOk None
  | Some AEmpty => SOk None
  | Some (AStr s) => SOk (Some s)
  | Some (AInt _) => SErr EMalformed
  end.

Definition load (st : store) : sres loaded :=
  match aget KMarker st.(attrs) with
  | None => SErr ESigFile
  | Some v =>
    match v with
    | AInt 1 =>
      match aget KK st.(attrs), aget KPrefix st.(attrs) with
      | Some (AInt k), Some (AStr p) =>
        sbind (kmerspec k p) (fun kp =>
        sbind (get_meta KExtra st) (fun extra =>
        sbind (get_meta KId st) (fun id =>
        sbind (get_meta KName st) (fun name =>
        sbind (get_meta KIdAttr st) (fun id_attr =>
        sbind (get_meta KVersion st) (fun version =>
        sbind (get_meta KDesc st) (fun desc =>
        match aget DValues st.(dsets), aget DBounds st.(dsets), aget DIds st.(dsets) with
        | Some (DInt t vals), Some (DInt _ bnds), Some i =>
            SOk {| l_k := fst kp; l_prefix := snd kp;
                   l_meta := {| m_id := id; m_name := name; m_id_attr := id_attr; m_version := version;
                                m_desc := desc; m_extra := extra |};
                   l_ids := match i with DInt ti l => IdInts ti l | DStr l => IdStrs l end;
                   l_ty := t; l_values := vals; l_bounds := bnds |}
        | None, _, _ | _, None, _ | _, _, None => SErr EKey
        | _, _, _ => SErr EMalformed
        end)))))))
      | None, _ | _, None => SErr EKey
      | _, _ => SErr EMalformed
      end
    | _ => SErr EValue      (* 'Unrecognized format version' *)
    end
  end.

(** [ConcatenatedSignatureArray] indexing of the loaded object (base.py:100-131) *)
Definition l_len (l : loaded) : Z := zlen l.(l_bounds) - 1.

Definition bounds_ok (l : loaded) (i : Z) : bool :=
  let a := nth (Z.to_nat i) l.(l_bounds) 0 in
  let b := nth (Z.to_nat (i + 1)) l.(l_bounds) 0 in
  (0 <=? a) && (a <=? b) && (b <=? zlen l.(l_values)).

(** [_getitem_int] for an already normalised index *)
Definition getitem_int (l : loaded) (i : Z) : sres (list Z) :=
  if (i <? 0) || (l_len l <=? i) then SErr EIndex
  else if bounds_ok l i
       then SOk (slice l.(l_values) (nth (Z.to_nat i) l.(l_bounds) 0) (nth (Z.to_nat (i + 1)) l.(l_bounds) 0))
       else SErr EMalformed.

Fixpoint collect {A} (l : list (sres A)) : sres (list A) :=
  match l with
  | [] => SOk []
  | x :: r => sbind x (fun a => sbind (collect r) (fun t => SOk (a :: t)))
  end.

(** [_getitem_int_array] *)
Definition getitem_list (l : loaded) (idx : list Z) : sres (list (list Z)) :=
  collect (map (getitem_int l) idx).

(** all signatures, [list(sigs)] *)
Definition decode (l : loaded) : sres (list (list Z)) :=
  getitem_list l (map Z.of_nat (seq 0 (Z.to_nat (l_len l)))).

(** [_getitem_slice] fast path: [0 <= start < stop <= len], step 1: a [SignatureArray] with
    [values[bounds[start]:bounds[stop]]] and [bounds[start:stop+1] - bounds[start]] *)
Definition getitem_slice (l : loaded) (start stop : Z) : sres loaded :=
  if (0 <=? start) && (start <? stop) && (stop <=? l_len l) then
    let b0 := nth (Z.to_nat start) l.(l_bounds) 0 in
    let b1 := nth (Z.to_nat stop) l.(l_bounds) 0 in
    if (0 <=? b0) && (b0 <=? b1) && (b1 <=? zlen l.(l_values)) then
      SOk {| l_k := l.(l_k); l_prefix := l.(l_prefix); l_meta := l.(l_meta); l_ids := l.(l_ids);
             l_ty := l.(l_ty);
             l_values := slice l.(l_values) b0 b1;
             l_bounds := map (fun b => b - b0)
                             (firstn (Z.to_nat (stop + 1 - start)) (skipn (Z.to_nat start) l.(l_bounds))) |}
    else SErr EMalformed
  else SErr EIndex.

(** ---- files --------------------------------------------------------------------------------- *)

Inductive disk :=
| DRaw (bytes : list Z)     (* a file [h5py.File] refuses to open (OSError): any content, possibly starting with the magic *)
| DBadRoot (bytes : list Z) (* [h5py.File] opens it (intact superblock) but the root group cannot be read (KeyError) *)
| DHdf (st : store).        (* a well-formed HDF5 file with this root group *)

Definition unparsable (d : disk) : bool := match d with DHdf _ => false | _ => true end.

Definition magic : list Z := [137; 72; 68; 70; 13; 10; 26; 10].
Definition list_eqb (a b : list Z) : bool :=
  (Nat.eqb (length a) (length b)) && forallb (fun p => fst p =? snd p) (combine a b).

(** [load_signatures_hdf5] as it is in the repository (hdf5.py:236-259): header check, then
    [h5.File(path)] (OSError on an unparsable file propagates), marker check [in h5file.attrs]
    (KeyError on an unreadable root group propagates), [HDF5Signatures] *)
Definition load_file_cur (d : disk) : sres loaded :=
  match d with
  | DRaw b => if list_eqb (firstn 8 b) magic then SErr EOS else SErr ESigFile
  | DBadRoot b => if list_eqb (firstn 8 b) magic then SErr EKey else SErr ESigFile
  | DHdf st => match aget KMarker st.(attrs) with None => SErr ESigFile | Some _ => load st end
  end.

(** the repaired function (repo_fixes/C12.diff): an OSError / KeyError while opening the file and
    looking for the marker becomes the prepared SignaturesFileError *)
Definition load_file (d : disk) : sres loaded :=
  match d with
  | DRaw b => if list_eqb (firstn 8 b) magic then SErr ESigFile else SErr ESigFile
  | DBadRoot b => if list_eqb (firstn 8 b) magic then SErr ESigFile else SErr ESigFile
  | DHdf st => match aget KMarker st.(attrs) with None => SErr ESigFile | Some _ => load st end
  end.

(** ---- interrupted writes (C19) -------------------------------------------------------------- *)

(** When do the calls made so far reach the disk?  [AtClose]: libhdf5 keeps the metadata (object
    headers, B-trees, superblock extension) in its cache until the file is closed, so a writer that
    is KILLED before [close] leaves a file [junk] that cannot be parsed ([unparsable junk = true]).
    [Eager]: every completed call is on the disk -- what [flush()] after each call, or SWMR-like
    settings, would give, and ALSO what a writer that dies by an EXCEPTION leaves: the exception
    unwinds through [with h5.File(path, 'w')], h5py closes the file cleanly and everything done so
    far is flushed ([raised_disk]).  [FlushedAt k]: anything in between. *)
Inductive policy :=
| AtClose                 (* nothing parseable before close *)
| Eager                   (* every completed call is on the disk *)
| FlushedAt (k : nat).    (* the first [k] completed calls are on the disk (the writer -- or libhdf5 -- flushed after its
                             [k]-th call and not again): every flush schedule is one of these *)

(** the file left behind by a writer that completed exactly the calls [done] and then was killed *)
Definition crash_disk (pol : policy) (junk : disk) (done : list op) : disk :=
  match pol with
  | AtClose => junk
  | Eager => match run done empty_store with SOk st => DHdf st | SErr _ => junk end
  | FlushedAt k => match run (firstn k done) empty_store with SOk st => DHdf st | SErr _ => junk end
  end.

(** the file after a write that ran to completion and closed the file *)
Definition closed_disk (ops : list op) : sres disk :=
  sbind (run ops empty_store) (fun st => SOk (DHdf st)).

(** the file left behind by a writer that RAISED (KeyboardInterrupt, SystemExit, MemoryError, an I/O
    error of one call, an exception of the signature source) after completing exactly the calls [done]:
    the context manager of [dump_signatures_hdf5] closed the file *)
Definition raised_disk (done : list op) : sres disk := closed_disk done.
