(** C13 -- model of [gambit.sigs.calc.calc_file_signatures] (src/gambit/sigs/calc.py:240-276).

    Files are abstracted by the outcome of their job ([fres], Spec/C13.v).  Futures are
    identities ([Z] handles) chosen by the executor: a [task] is (the future [executor.submit]
    returned for the file, what the job does).  [concurrent.futures] is modelled by
      - [future_result]: [future.result()] returns / re-raises what the job submitted with that
        future produced;
      - the completion order [sigma]: the order in which [as_completed(future_to_index)] yields
        the futures (any order; the theorems quantify over every permutation of the keys).
    The dict [future_to_index] is an insertion-ordered association list.  Everything that raises
    in the code is an explicit outcome here; nothing is totalised.  No proofs in this file. *)
From Coq Require Import ZArith List Bool.
From GV Require Import Spec.C13.
Import ListNotations.
Open Scope Z_scope.

Definition handle := Z.
Definition task (A : Type) : Type := (handle * fres A)%type.

(** Python dict keyed by futures: d[k] = v, d[k] *)
Fixpoint dict_set {V} (d : list (handle * V)) (k : handle) (v : V) : list (handle * V) :=
  match d with
  | [] => [(k, v)]
  | (k', v') :: r => if k =? k' then (k', v) :: r else (k', v') :: dict_set r k v
  end.
Fixpoint dict_get {V} (d : list (handle * V)) (k : handle) : option V :=
  match d with
  | [] => None
  | (k', v') :: r => if k =? k' then Some v' else dict_get r k
  end.

(** l[i] = x ; None = IndexError *)
Fixpoint list_set {X} (l : list X) (i : nat) (x : X) : option (list X) :=
  match l, i with
  | [], _ => None
  | _ :: r, O => Some (x :: r)
  | y :: r, S i' => match list_set r i' x with Some r' => Some (y :: r') | None => None end
  end.

(** calc.py:265-267   for i, file in enumerate(files): future = submit(...); future_to_index[future] = i *)
Fixpoint submit_loop {A} (i : nat) (ts : list (task A)) (f2i : list (handle * nat)) : list (handle * nat) :=
  match ts with
  | [] => f2i
  | (h, _) :: r => submit_loop (S i) r (dict_set f2i h i)
  end.

(** what [future.result()] gives for future [h]: the outcome of the job submitted with it *)
Definition future_result {A} (ts : list (task A)) (h : handle) : option (fres A) := dict_get ts h.

(** calc.py:269-272   for future in as_completed(...): i = f2i[future]; sigs[i] = future.result() *)
Fixpoint complete_loop {A} (ts : list (task A)) (f2i : list (handle * nat)) (sigma : list handle)
    (sigs : list (option A)) : outcome A + list (option A) :=
  match sigma with
  | [] => inr sigs
  | h :: rest =>
      match dict_get f2i h with
      | None => inl KeyErr
      | Some i =>
          match future_result ts h with
          | None => inl KeyErr
          | Some (FErr c) => inl (Raised c)
          | Some (FOk v) =>
              match list_set sigs i (Some v) with
              | None => inl IndexErr
              | Some sigs' => complete_loop ts f2i rest sigs'
              end
          end
      end
  end.

Definition is_some {X} (o : option X) : bool := match o with Some _ => true | None => false end.
Fixpoint somes {X} (l : list (option X)) : list X :=
  match l with [] => [] | Some x :: r => x :: somes r | None :: r => somes r end.

(** calc.py:261-276, the executor branch *)
Definition run_executor {A} (ts : list (task A)) (sigma : list handle) : outcome A :=
  let sigs0 := repeat None (length ts) in                 (* sigs = [None] * len(files) *)
  let f2i := submit_loop 0 ts [] in
  match complete_loop ts f2i sigma sigs0 with
  | inl o => o
  | inr sigs => if forallb is_some sigs then Done (somes sigs) else AssertFailed
  end.

(** calc.py:253-258, no executor: sigs.append(calc_file_signature(kspec, file)) in file order *)
Fixpoint seq_loop {A} (rs : list (fres A)) (sigs : list A) : outcome A :=
  match rs with
  | [] => Done sigs
  | FOk v :: r => seq_loop r (sigs ++ [v])
  | FErr c :: _ => Raised c
  end.
Definition run_sequential {A} (rs : list (fres A)) : outcome A := seq_loop rs [].

(** calc.py:240-251: which branch runs.  [supplied] = an executor was passed by the caller
    (it overrides [concurrency]); [max_workers] only parametrises the pool, i.e. the set of
    completion orders that can occur -- it does not appear in the control flow. *)
Inductive concurrency : Type := CNone | CThreads | CProcesses | COther.

Definition calc_file_signatures {A} (c : concurrency) (supplied : bool) (ts : list (task A))
    (sigma : list handle) : outcome A :=
  if supplied then run_executor ts sigma
  else match c with
       | CThreads | CProcesses => run_executor ts sigma
       | CNone => run_sequential (map snd ts)
       | COther => BadConcurrency
       end.

(** the variant the property excludes: results collected in completion order *)
Fixpoint append_loop {A} (ts : list (task A)) (sigma : list handle) (sigs : list A) : outcome A :=
  match sigma with
  | [] => Done sigs
  | h :: rest =>
      match future_result ts h with
      | None => KeyErr
      | Some (FErr c) => Raised c
      | Some (FOk v) => append_loop ts rest (sigs ++ [v])
      end
  end.
Definition run_append_as_completed {A} (ts : list (task A)) (sigma : list handle) : outcome A :=
  append_loop ts sigma [].

(** A pool of [w] workers taking the submitted jobs first-come-first-served, job [j] running for
    [durs[j]] time units: the completion order it produces (ties: submission order).  Used to
    instantiate "any worker count x any file-size skew"; [w = 0] is treated as one worker. *)
Fixpoint min_index (l : list nat) (best : nat) (bi : nat) (i : nat) : nat :=
  match l with
  | [] => bi
  | x :: r => if Nat.ltb x best then min_index r x i (S i) else min_index r best bi (S i)
  end.
Definition pick_worker (free : list nat) : nat :=
  match free with [] => O | x :: r => min_index r x O 1%nat end.
Fixpoint set_nth (l : list nat) (i : nat) (x : nat) : list nat :=
  match l, i with
  | [], _ => []
  | _ :: r, O => x :: r
  | y :: r, S i' => y :: set_nth r i' x
  end.
Fixpoint assign (free : list nat) (hs : list handle) (durs : list nat) : list (nat * handle) :=
  match hs with
  | [] => []
  | h :: r =>
      let d := match durs with [] => O | d :: _ => d end in
      let w := pick_worker free in
      let fin := (nth w free O + d)%nat in
      (fin, h) :: assign (set_nth free w fin) r (tl durs)
  end.
Fixpoint insert_by_time (x : nat * handle) (l : list (nat * handle)) : list (nat * handle) :=
  match l with
  | [] => [x]
  | y :: r => if Nat.leb (fst x) (fst y) then x :: y :: r else y :: insert_by_time x r
  end.
Fixpoint sort_by_time (l : list (nat * handle)) : list (nat * handle) :=
  match l with [] => [] | x :: r => insert_by_time x (sort_by_time r) end.
Definition pool_order (w : nat) (durs : list nat) (hs : list handle) : list handle :=
  map snd (sort_by_time (assign (repeat O (Nat.max w 1)) hs durs)).
