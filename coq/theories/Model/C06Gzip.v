(** C06 model, part 3: how a sequence file is opened.

    src/gambit/util/io.py: [open_compressed(path, 'rt', 'auto')] (the mode every CLI command uses:
    [SequenceFile.from_paths(paths, 'fasta', 'auto')] in cli/common.py, cli/dist.py, cli/tree.py)
    calls [_open_auto]: the file is opened in binary mode, [guess_compression] reads its first two
    bytes; [b'\x1f\x8b'] selects [gzip.GzipFile(fileobj=file)], anything else (including a file
    shorter than two bytes) is read as it is.  The path is used for nothing but [open(path,'rb')]:
    the model function below has no file-name argument at all.

    The decompressor (zlib) is not modelled: it is the [Section] variable [gunzip], [None] standing
    for the [OSError]/[EOFError]/[zlib.error] raised on a corrupt stream.  No proofs here. *)
From Coq Require Import ZArith List Bool.
Import ListNotations.
Open Scope Z_scope.

(** [guess_compression]: [fobj.read(2) == b'\x1f\x8b'] *)
Definition is_gzip_magic (data : list Z) : bool :=
  match data with
  | a :: b :: _ => (a =? 31) && (b =? 139)
  | _ => false
  end.

Section OpenAuto.
  Variable gunzip : list Z -> option (list Z).

  (** content of the file -> the bytes the text layer sees *)
  Definition open_auto (data : list Z) : option (list Z) :=
    if is_gzip_magic data then gunzip data else Some data.
End OpenAuto.
