(** C08 -- model of the path from command-line arguments to labelled query result rows.

    Part 1 (labels and files), src/gambit/cli/common.py:267-348 and src/gambit/util/io.py:210-231:
      [strip_extensions], [strip_seq_file_ext], [get_file_id], [read_lines], [get_sequence_files].
      A Python [str] is the list of its code points.  [pathlib] (the click parameter type hands the
      code [Path] objects, and [get_sequence_files] goes through [Path]/[str] once more) is modelled
      by [path_str] (= [str(PurePosixPath(p))], CPython 3.12 [_parse_path]/[_format_parsed_parts])
      and [posix_join] (= [posixpath.join], used by [Path(ldir) / line]); [os.path.basename] by
      [basename]; [str.strip()] by [strip] over [is_space] (= [Py_UNICODE_ISSPACE]); iteration over
      a text file opened with universal newlines by [universal_newlines] + [split_on 10].

    Part 2 (rows), src/gambit/metric.py:242-269, src/gambit/query.py:155-253,
    src/gambit/cli/query.py:70-95:
      [jaccarddist_matrix] (an [np.empty] matrix -- cells are [None] until written -- filled chunk
      of references by chunk, for every chunk row by row through [out[i, ref_slice]]),
      [query] (length checks, matrix, then [get_result_item(db, params, dmat[i, :], input)] for
      [i, input in enumerate(inputs)]), [query_parse] ([zip_strict] of labels and files,
      signatures in file order), [query_cmd] (the three input channels).
      What a result item contains besides its input description is a function [content] of the
      row of distances (classification, closest genomes, reported taxon: properties C03/C09/C10);
      a distance is a function [dist] of the query and the reference signature (C02/C05); the
      signature of the file at a path is [sig_of_file] (C01/C06/C13).  These three enter as
      parameters of the functions -- the theorems hold for every choice.

    Everything that raises in the code is an explicit error value here; nothing is totalised.
    No proofs in this file. *)
From Coq Require Import ZArith List Bool.
Import ListNotations.
Open Scope Z_scope.

(* ================================================================================================ *)
(** * Part 1: strings, paths, labels *)

Definition str := list Z.

Definition is_empty {X} (l : list X) : bool := match l with [] => true | _ => false end.

Fixpoint str_eqb (a b : str) : bool :=
  match a, b with
  | [], [] => true
  | x :: a', y :: b' => (x =? y) && str_eqb a' b'
  | _, _ => false
  end.

(** [s.startswith(p)] *)
Fixpoint prefixb (p s : str) : bool :=
  match p, s with
  | [], _ => true
  | x :: p', y :: s' => (x =? y) && prefixb p' s'
  | _ :: _, [] => false
  end.

(** [s.endswith(e)] *)
Definition endswith (s e : str) : bool := prefixb (rev e) (rev s).

(** [s[:-n]] -- with Python's reading of [s[:-0]] as [s[:0]] *)
Definition drop_last (n : nat) (s : str) : str :=
  match n with O => [] | _ => rev (skipn n (rev s)) end.

(** common.py:271-275 *)
Fixpoint strip_extensions (filename : str) (extensions : list str) : str :=
  match extensions with
  | [] => filename
  | ext :: rest => if endswith filename ext then drop_last (length ext) filename
                   else strip_extensions filename rest
  end.

(** common.py:267-268   ('.fasta', '.fna', '.ffn', '.faa', '.frn', '.fa') and ('.gz',) *)
Definition FASTA_EXTENSIONS : list str :=
  [ [46; 102; 97; 115; 116; 97]; [46; 102; 110; 97]; [46; 102; 102; 110];
    [46; 102; 97; 97]; [46; 102; 114; 110]; [46; 102; 97] ].
Definition GZIP_EXTENSIONS : list str := [ [46; 103; 122] ].

(** common.py:278-282 *)
Definition strip_seq_file_ext (filename : str) : str :=
  strip_extensions (strip_extensions filename GZIP_EXTENSIONS) FASTA_EXTENSIONS.

(** [s.rfind(c)]: index of the last occurrence, or -1 *)
Fixpoint rfind (c : Z) (s : str) : Z :=
  match s with
  | [] => -1
  | x :: r => let j := rfind c r in
              if 0 <=? j then j + 1 else if x =? c then 0 else -1
  end.

Definition SLASH : Z := 47.

(** posixpath.basename:  i = p.rfind('/') + 1;  return p[i:] *)
Definition basename (p : str) : str := skipn (Z.to_nat (rfind SLASH p + 1)) p.

(** common.py:285-300 *)
Definition get_file_id (path : str) (strip_dir strip_ext : bool) : str :=
  if strip_dir then
    let id := basename path in
    if strip_ext then strip_seq_file_ext id else id
  else path.

(** [s.split(c)]: always at least one piece *)
Fixpoint split_on (c : Z) (s : str) : list str :=
  match s with
  | [] => [[]]
  | x :: r =>
      if x =? c then [] :: split_on c r
      else match split_on c r with
           | p :: ps => (x :: p) :: ps
           | [] => [[x]]
           end
  end.

(** [sep.join(l)] *)
Fixpoint join (sep : str) (l : list str) : str :=
  match l with
  | [] => []
  | [x] => x
  | x :: r => x ++ sep ++ join sep r
  end.

(** [str(PurePosixPath(p))] (CPython 3.12): posixpath.splitroot, drop empty and '.' components *)
Definition path_str (p : str) : str :=
  let '(root, rel) :=
    if prefixb [SLASH] p then
      if prefixb [SLASH; SLASH] p && negb (prefixb [SLASH; SLASH; SLASH] p) then ([SLASH; SLASH], skipn 2 p)
      else ([SLASH], skipn 1 p)
    else ([], p) in
  let parts := filter (fun x => negb (is_empty x) && negb (str_eqb x [46])) (split_on SLASH rel) in
  let s := root ++ join [SLASH] parts in
  if is_empty s then [46] else s.

(** [posixpath.join(a, b)] *)
Definition posix_join (a b : str) : str :=
  if prefixb [SLASH] b then b
  else if is_empty a || endswith a [SLASH] then a ++ b
  else a ++ SLASH :: b.

(** [Py_UNICODE_ISSPACE] *)
Definition is_space (c : Z) : bool :=
  ((9 <=? c) && (c <=? 13)) || ((28 <=? c) && (c <=? 32)) || (c =? 133) || (c =? 160) ||
  (c =? 5760) || ((8192 <=? c) && (c <=? 8202)) || (c =? 8232) || (c =? 8233) || (c =? 8239) ||
  (c =? 8287) || (c =? 12288).

Fixpoint lstrip (s : str) : str :=
  match s with
  | [] => []
  | c :: r => if is_space c then lstrip r else s
  end.

(** [s.strip()] *)
Definition strip (s : str) : str := rev (lstrip (rev (lstrip s))).

(** text mode with universal newlines: "\r\n" and "\r" are read as "\n" *)
Fixpoint universal_newlines (s : str) : str :=
  match s with
  | [] => []
  | c :: r =>
      if c =? 13 then
        10 :: match r with
              | d :: r' => if d =? 10 then universal_newlines r' else universal_newlines r
              | [] => []
              end
      else c :: universal_newlines r
  end.

(** io.py:210-231 with strip=True, skip_empty=True (the only way common.py calls it).  Iterating a
    file yields no final empty line when the text ends with a newline; [split_on] does, and
    [skip_empty] removes it. *)
Definition read_lines (text : str) : list str :=
  filter (fun l => negb (is_empty l)) (map strip (split_on 10 (universal_newlines text))).

(** common.py:303-348.  [explicit]: the positional arguments; [listfile]: the text of the list
    file if one was given; result [(ids, files)] with files as path strings, or [None] for
    [(None, None)]. *)
Definition get_sequence_files (explicit : list str) (listfile : option str) (listfile_dir : str)
    (strip_dir strip_ext : bool) : option (list str * list str) :=
  match explicit with
  | _ :: _ =>
      let paths_str := map path_str explicit in
      Some (map (fun f => get_file_id f strip_dir strip_ext) paths_str, paths_str)
  | [] =>
      match listfile with
      | Some text =>
          let lines := read_lines text in
          Some (map (fun f => get_file_id f strip_dir strip_ext) lines,
                map (fun line => path_str (posix_join listfile_dir line)) lines)
      | None => None
      end
  end.

(* ================================================================================================ *)
(** * Part 2: from inputs to result rows *)

Inductive qerr : Type :=
| NoQueries          (* ValueError('Must supply at least one query.') *)
| InputsMismatch     (* ValueError('Number of inputs does not match number of queries.') *)
| ZipStrict          (* ValueError of zip_strict: labels and files differ in number *)
| BadChunkSize       (* ValueError('Size must be positive') *)
| ShapeMismatch      (* ValueError('Output array length must match signature array.') *)
| IndexErr           (* a row index outside the matrix *)
| Uninit             (* a cell of the np.empty matrix used before it was written *)
| OutOfFuel          (* the while loop of chunk_slices did not finish within the model's fuel *)
| UsageExclusive     (* click.ClickException '... are mutually exclusive' *)
| UsageRequired      (* click.ClickException 'One of ... is required' *)
| NoFiles.           (* get_sequence_files returned (None, None) *)

Inductive qres (A : Type) : Type :=
| QOk (a : A)
| QErr (e : qerr).
Arguments QOk {A} a.
Arguments QErr {A} e.

(** QueryInput(label, file) -- the file as its path string *)
Record query_input : Type := QueryInput { qi_label : str; qi_file : option str }.

Fixpoint enumerate_from {X} (i : nat) (l : list X) : list (nat * X) :=
  match l with
  | [] => []
  | x :: r => (i, x) :: enumerate_from (S i) r
  end.
Definition enumerate {X} (l : list X) : list (nat * X) := enumerate_from 0 l.

Fixpoint all_some {X} (l : list (option X)) : option (list X) :=
  match l with
  | [] => Some []
  | None :: _ => None
  | Some x :: r => match all_some r with Some r' => Some (x :: r') | None => None end
  end.

(** misc.py:88-105   while start < n: stop = start + size; yield slice(start, stop); start = stop *)
Fixpoint chunk_slices_loop (fuel start n size : nat) : qres (list (nat * nat)) :=
  if (start <? n)%nat then
    match fuel with
    | O => QErr OutOfFuel
    | S f =>
        match chunk_slices_loop f (start + size) n size with
        | QOk l => QOk ((start, (start + size)%nat) :: l)
        | QErr e => QErr e
        end
    end
  else QOk [].

Definition chunk_slices (n : nat) (size : Z) : qres (list (nat * nat)) :=
  if size <=? 0 then QErr BadChunkSize else chunk_slices_loop n 0 n (Z.to_nat size).

Section Query.
  Variables Q R D C : Type.
  (** Jaccard distance of a query signature and a reference signature *)
  Variable dist : Q -> R -> D.
  (** everything [get_result_item(db, params, dists, input)] puts into the item besides [input] *)
  Variable content : list D -> C.
  (** the reference signatures in the order of [db.sig_indices] *)
  Variable refs : list R.

  Definition cell : Type := option D.
  Definition matrix : Type := list (list cell).

  (** [jaccarddist_array(query, ref_chunk, out=row[start:stop])]: the view [row[start:stop]] is
      clipped to the row, its length must equal the number of references in the chunk, and its
      cells are overwritten with the distances *)
  Definition write_slice (row : list cell) (start stop : nat) (vals : list D) : qres (list cell) :=
    let view := firstn (stop - start) (skipn start row) in
    if (length view =? length vals)%nat then
      QOk (firstn start row ++ map Some vals ++ skipn (start + length view) row)
    else QErr ShapeMismatch.

  (** [out[i, ...]] updated in place *)
  Fixpoint update_row (m : matrix) (i : nat) (f : list cell -> qres (list cell)) : qres matrix :=
    match m, i with
    | [], _ => QErr IndexErr
    | r :: m', O => match f r with QOk r' => QOk (r' :: m') | QErr e => QErr e end
    | r :: m', S j => match update_row m' j f with QOk m'' => QOk (r :: m'') | QErr e => QErr e end
    end.

  (** metric.py:265-267   for (i, query) in enumerate(queries): jaccarddist_array(query, ref_chunk, out=out[i, ref_slice]) *)
  Fixpoint fill_rows (iqs : list (nat * Q)) (start stop : nat) (chunk : list R) (m : matrix) : qres matrix :=
    match iqs with
    | [] => QOk m
    | (i, q) :: rest =>
        match update_row m i (fun row => write_slice row start stop (map (dist q) chunk)) with
        | QOk m' => fill_rows rest start stop chunk m'
        | QErr e => QErr e
        end
    end.

  (** metric.py:261-267   for ref_slice in ref_slices: ref_chunk = refs[ref_indices[ref_slice]]; ... *)
  Fixpoint fill_chunks (slices : list (nat * nat)) (queries : list Q) (m : matrix) : qres matrix :=
    match slices with
    | [] => QOk m
    | (start, stop) :: rest =>
        let chunk := firstn (stop - start) (skipn start refs) in
        match fill_rows (enumerate queries) start stop chunk m with
        | QOk m' => fill_chunks rest queries m'
        | QErr e => QErr e
        end
    end.

  (** metric.py:242-269 *)
  Definition jaccarddist_matrix (queries : list Q) (chunksize : option Z) : qres matrix :=
    let nqueries := length queries in
    let nrefs := length refs in
    let out := repeat (repeat (@None D) nrefs) nqueries in          (* np.empty((nqueries, nrefs)) *)
    match (match chunksize with
           | None => QOk [(0%nat, nrefs)]
           | Some c => chunk_slices nrefs c
           end) with
    | QOk slices => fill_chunks slices queries out
    | QErr e => QErr e
    end.

  (** [dmat[i, :]] *)
  Definition read_row (m : matrix) (i : nat) : qres (list D) :=
    match nth_error m i with
    | None => QErr IndexErr
    | Some r => match all_some r with Some ds => QOk ds | None => QErr Uninit end
    end.

  (** query.py:180-181   [get_result_item(db, params, dmat[i, :], input) for i, input in enumerate(inputs)] *)
  Fixpoint items_loop {I} (m : matrix) (iins : list (nat * I)) : qres (list (I * C)) :=
    match iins with
    | [] => QOk []
    | (i, input) :: rest =>
        match read_row m i with
        | QOk ds =>
            match items_loop m rest with
            | QOk items => QOk ((input, content ds) :: items)
            | QErr e => QErr e
            end
        | QErr e => QErr e
        end
    end.

  (** query.py:121-188 with [inputs] given (both command-line paths give it) *)
  Definition query {I} (chunksize : option Z) (queries : list Q) (inputs : list I) : qres (list (I * C)) :=
    if (length queries =? 0)%nat then QErr NoQueries
    else if negb (length inputs =? length queries)%nat then QErr InputsMismatch
    else match jaccarddist_matrix queries chunksize with
         | QOk dmat => items_loop dmat (enumerate inputs)
         | QErr e => QErr e
         end.

  (** the signature [calc_file_signature] computes from the file at a path *)
  Variable sig_of_file : str -> Q.

  Fixpoint zip_strict {X Y} (a : list X) (b : list Y) : option (list (X * Y)) :=
    match a, b with
    | [], [] => Some []
    | x :: a', y :: b' => match zip_strict a' b' with Some l => Some ((x, y) :: l) | None => None end
    | _, _ => None
    end.

  (** query.py:213-253.  [file_labels = None]: the inputs are the files themselves, converted by
      [QueryInput.convert] to [QueryInput(str(file.path), file)].  Signatures are computed in file
      order ([calc_file_signatures], property C13). *)
  Definition query_parse (chunksize : option Z) (files : list str) (file_labels : option (list str))
      : qres (list (query_input * C)) :=
    match (match file_labels with
           | None => Some (map (fun f => QueryInput f (Some f)) files)
           | Some labels =>
               option_map (map (fun lf => QueryInput (fst lf) (Some (snd lf)))) (zip_strict labels files)
           end) with
    | None => QErr ZipStrict
    | Some inputs => query chunksize (map sig_of_file files) inputs
    end.

  (** cli/query.py:57-95.  [files_arg]: positional GENOMES; [listfile]: text of the -l file;
      [ldir]: --ldir (default "."); [sigfile]: ids and signatures stored in the -s file.
      [chunksize] is QueryParams.chunksize (1000 on the command line).  -c and --progress do not
      enter: they configure OpenMP, the worker pool and the progress display only. *)
  Definition query_cmd (chunksize : option Z) (files_arg : list str) (listfile : option str) (ldir : str)
      (sigfile : option (list str * list Q)) : qres (list (query_input * C)) :=
    let nfound := ((if is_empty files_arg then 0 else 1) + (match listfile with Some _ => 1 | None => 0 end)
                   + (match sigfile with Some _ => 1 | None => 0 end))%nat in
    if (1 <? nfound)%nat then QErr UsageExclusive
    else if (nfound =? 0)%nat then QErr UsageRequired
    else match sigfile with
         | Some (ids, sigs) => query chunksize sigs (map (fun id => QueryInput id None) ids)
         | None =>
             match get_sequence_files files_arg listfile ldir true true with
             | Some (ids, files) => query_parse chunksize files (Some ids)
             | None => QErr NoFiles
             end
         end.
End Query.
