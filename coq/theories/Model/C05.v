(** C05 -- hand model of the bulk distance functions of src/gambit/metric.py
    ([jaccarddist_array], [jaccarddist_matrix], [jaccarddist_pairwise]) and of
    [chunk_slices] (src/gambit/util/misc.py).  The compiled kernel is NOT modelled here: the
    functions call the definitions generated from metric.pyx ([_jaccarddist_parallel] for the
    concatenated fast path, [jaccarddist] for the per-item loop).

    Signature collections are [list (list Z)]; that indexing a SignatureArray / SignatureList /
    HDF5Signatures with an int, a slice or an index list behaves like the plain list is property
    C20 and is taken as given ([mv_slice], [select]).  What is kept of the container is what the
    code branches on: whether [isinstance(refs, SignatureArray)] holds ([is_sigarray]) and which
    container type indexing returns ([indexed]).  Output buffers are explicit lists of binary32
    cells (rows of cells for 2-D); a buffer obtained from [np.empty] holds [uninit] (a NaN) in
    every cell, so a cell that is never written stays visible.  Where the Python code raises, the
    model returns [PErr].  No proofs in this file. *)
From Coq Require Import ZArith List Bool.
From GV Require Import Base.CSem Base.F32 Gen.MetricPyx Spec.Jaccard Model.MetricPy Spec.C05.
Import ListNotations.
Open Scope Z_scope.

Notation sig := (list Z) (only parsing).
Notation sigs := (list (list Z)) (only parsing).

(** Python-level outcome: ValueError, IndexError, or a failure inside the compiled kernel *)
Inductive perr : Type := PValueError | PIndexError | PAttributeError | PKernel (e : err).
Inductive pres (A : Type) : Type := POk (a : A) | PErr (e : perr).
Arguments POk {A} a.
Arguments PErr {A} e.

Definition pbind {A B} (m : pres A) (f : A -> pres B) : pres B :=
  match m with POk a => f a | PErr e => PErr e end.
Definition lift {A} (r : res A) : pres A :=
  match r with Ok a => POk a | Error e => PErr (PKernel e) end.

(** the container holding the references *)
Inductive container : Type := CArray | CHdf5 | CSigList | CPyList.
(** [isinstance(refs, SignatureArray)] *)
Definition is_sigarray (c : container) : bool := match c with CArray => true | _ => false end.
(** type of [refs[slice]] / [refs[index list]] (a plain list is first wrapped in a SignatureList) *)
Definition indexed (c : container) : container :=
  match c with CArray | CHdf5 => CArray | CSigList | CPyList => CSigList end.

(** [_cast_sigs_array]: only the accept / ValueError decision matters here *)
Definition cast (d : Z * Z) : pres unit :=
  match cast_sigs_array (fst d) (snd d) with Ok _ => POk tt | Error _ => PErr PValueError end.

(** content of a cell of [np.empty]: arbitrary; a NaN in the model *)
Definition uninit : f32 := f32_of_bits 2143289344.

(** ** concatenated representation: values = all signatures one after the other,
    bounds = cumulative lengths (SignatureArray._uninit_arrays) *)
Fixpoint cat_bounds_from (b0 : Z) (refs : sigs) : list Z :=
  match refs with
  | [] => [b0]
  | r :: t => b0 :: cat_bounds_from (b0 + mv_len r) t
  end.
Definition cat_bounds (refs : sigs) : list Z := cat_bounds_from 0 refs.
Definition cat_values (refs : sigs) : list Z := concat refs.

(** ** jaccarddist_array *)

(** [for i, ref in enumerate(refs): out[i] = jaccarddist(query, _cast_sigs_array(ref))] *)
Fixpoint array_loop (dr : Z * Z) (q : sig) (refs : sigs) (i : Z) (out : list f32) : pres (list f32) :=
  match refs with
  | [] => POk out
  | r :: rest =>
      pbind (cast dr) (fun _ =>
      pbind (lift (jaccarddist (length q + length r) q r)) (fun d =>
      match mv_set out i d with
      | None => PErr PIndexError
      | Some out' => array_loop dr q rest (i + 1) out'
      end))
  end.

(** the two paths, writing into the buffer [out] *)
Definition jd_array_core (c : container) (dr : Z * Z) (q : sig) (refs : sigs) (out : list f32)
  : pres (list f32) :=
  if is_sigarray c then
    pbind (cast dr) (fun _ =>
    lift (_jaccarddist_parallel (length q + length (cat_values refs)) q
            (cat_values refs) (cat_bounds refs) out))
  else array_loop dr q refs 0 out.

Fixpoint shape_eqb (a b : list Z) : bool :=
  match a, b with
  | [], [] => true
  | x :: a', y :: b' => (x =? y) && shape_eqb a' b'
  | _, _ => false
  end.

(** a caller-supplied buffer: (shape, dtype is float32, cells) *)
Definition obuf (C : Type) : Type := (list Z * bool * C)%type.

(** [out is None -> np.empty(shape)], else shape check, then dtype check *)
Definition check_out {C} (out : option (obuf C)) (shape : list Z) (fresh : C) : pres C :=
  match out with
  | None => POk fresh
  | Some (sh, isf32, cells) =>
      if negb (shape_eqb sh shape) then PErr PValueError
      else if negb isf32 then PErr PValueError
      else POk cells
  end.

Definition jd_array (c : container) (dq dr : Z * Z) (q : sig) (refs : sigs)
  (out : option (obuf (list f32))) : pres (list f32) :=
  pbind (cast dq) (fun _ =>
  pbind (check_out out [mv_len refs] (repeat uninit (length refs))) (fun out0 =>
  jd_array_core c dr q refs out0)).

(** ** chunk_slices(n, size): the slices (start, stop) in order; stop may exceed n *)
Fixpoint chunk_slices_from (fuel : nat) (n size start : Z) : pres (list (Z * Z)) :=
  if start <? n then
    match fuel with
    | O => PErr (PKernel OutOfFuel)
    | S f =>
        pbind (chunk_slices_from f n size (start + size)) (fun rest =>
        POk ((start, start + size) :: rest))
    end
  else POk [].
Definition chunk_slices (n size : Z) : pres (list (Z * Z)) :=
  if size <=? 0 then PErr PValueError else chunk_slices_from (Z.to_nat n) n size 0.

(** ** jaccarddist_matrix *)

(** [if not isinstance(refs, AbstractSignatureArray): refs = SignatureList(refs)].
    As found ([fx = false]) [SignatureList([])] without a KmerSpec cannot determine a dtype and
    raises AttributeError, so an empty plain list is refused although an empty SignatureList /
    SignatureArray is accepted; repaired ([fx = true], repo_fixes/C05.diff) the dtype is supplied
    by the caller of SignatureList and the wrapping always succeeds. *)
Definition wrap_plain (fx : bool) (c : container) (refs : sigs) : pres unit :=
  match c, refs with
  | CPyList, [] => if fx then POk tt else PErr PAttributeError
  | _, _ => POk tt
  end.

(** [refs[index list]] *)
Definition take (refs : sigs) (idxs : list Z) : pres sigs :=
  match select refs idxs with Some l => POk l | None => PErr PIndexError end.

(** writing [v] through the view [row[a:a+len v]] *)
Definition splice {A} (row : list A) (a : Z) (v : list A) : list A :=
  let a' := Z.to_nat (clampZ 0 (mv_len row) a) in
  firstn a' row ++ v ++ skipn (a' + length v) row.

(** the view [out[i, a:b]] handed to jaccarddist_array as [out=] (shape = its length, float32) *)
Definition view_of (row : list f32) (a b : Z) : option (obuf (list f32)) :=
  let v := mv_slice row a b in Some ([mv_len v], true, v).

(** [for (i, query) in enumerate(queries): jaccarddist_array(query, ref_chunk, out=out[i, ref_slice])] *)
Fixpoint queries_loop (c : container) (dq dr : Z * Z) (queries : sigs) (chunk : sigs) (a b : Z)
  (rows : list (list f32)) : pres (list (list f32)) :=
  match queries with
  | [] => POk rows
  | q :: qs =>
      match rows with
      | [] => PErr PIndexError
      | row :: rest =>
          pbind (jd_array c dq dr q chunk (view_of row a b)) (fun v =>
          pbind (queries_loop c dq dr qs chunk a b rest) (fun rest' =>
          POk (splice row a v :: rest')))
      end
  end.

(** [for ref_slice in ref_slices: idx = ...; ref_chunk = refs[idx]; <queries loop>] *)
Fixpoint chunks_loop (c : container) (dq dr : Z * Z) (queries refs : sigs)
  (ref_indices : option (list Z)) (slices : list (Z * Z)) (rows : list (list f32))
  : pres (list (list f32)) :=
  match slices with
  | [] => POk rows
  | (a, b) :: more =>
      pbind (match ref_indices with
             | None => POk (mv_slice refs a b)
             | Some ri => take refs (mv_slice ri a b)
             end) (fun chunk =>
      pbind (queries_loop (indexed c) dq dr queries chunk a b rows) (fun rows' =>
      chunks_loop c dq dr queries refs ref_indices more rows'))
  end.

Definition jd_matrix (fx : bool) (c : container) (dq dr : Z * Z) (queries refs : sigs)
  (ref_indices : option (list Z)) (out : option (obuf (list (list f32)))) (chunksize : option Z)
  : pres (list (list f32)) :=
  let nq := mv_len queries in
  let nr := match ref_indices with None => mv_len refs | Some ri => mv_len ri end in
  pbind (wrap_plain fx c refs) (fun _ =>
  pbind (check_out out [nq; nr] (repeat (repeat uninit (Z.to_nat nr)) (Z.to_nat nq))) (fun rows0 =>
  pbind (match chunksize with None => POk [(0, nr)] | Some s => chunk_slices nr s end) (fun slices =>
  chunks_loop c dq dr queries refs ref_indices slices rows0))).

(** ** jaccarddist_pairwise *)

(** [sigs[i] if indices is None else sigs[indices[i]]] *)
Definition pw_row_sig (ss : sigs) (indices : option (list Z)) (i : Z) : pres sig :=
  match indices with
  | None => match mv_get ss i with Some s => POk s | None => PErr PIndexError end
  | Some idx =>
      match mv_get idx i with
      | None => PErr PIndexError
      | Some k => match take ss [k] with
                  | POk [s] => POk s
                  | POk _ => PErr PIndexError
                  | PErr e => PErr e
                  end
      end
  end.

(** [sigs[cols] if indices is None else sigs[indices[cols]]], cols = slice(a, n) *)
Definition pw_col_sigs (ss : sigs) (indices : option (list Z)) (a n : Z) : pres sigs :=
  match indices with
  | None => POk (mv_slice ss a n)
  | Some idx => take ss (mv_slice idx a n)
  end.

(** condensed form: [row_out = out[next_out:next_out+ncol]; ...; next_out += ncol] *)
Fixpoint pw_flat_loop (cnt : nat) (c : container) (d : Z * Z) (ss : sigs) (indices : option (list Z))
  (n i next_out : Z) (out : list f32) : pres (list f32) :=
  match cnt with
  | O => POk out
  | S cnt' =>
      pbind (pw_row_sig ss indices i) (fun row_sig =>
      pbind (pw_col_sigs ss indices (i + 1) n) (fun col_sigs =>
      let ncol := n - i - 1 in
      pbind (jd_array (indexed c) d d row_sig col_sigs (view_of out next_out (next_out + ncol))) (fun v =>
      pw_flat_loop cnt' c d ss indices n (i + 1) (next_out + ncol) (splice out next_out v))))
  end.

(** [np.fill_diagonal(out, 0)] *)
Fixpoint fill_diag (rows : list (list f32)) (k : Z) : pres (list (list f32)) :=
  match rows with
  | [] => POk []
  | row :: rest =>
      match mv_set row k f32_zero with
      | None => PErr PIndexError
      | Some row' => pbind (fill_diag rest (k + 1)) (fun rest' => POk (row' :: rest'))
      end
  end.

(** [rows[k][i] = src[k]] for the rows given *)
Fixpoint set_col (rows : list (list f32)) (i : Z) (src : list f32) : pres (list (list f32)) :=
  match rows, src with
  | [], [] => POk []
  | row :: rest, x :: xs =>
      match mv_set row i x with
      | None => PErr PIndexError
      | Some row' => pbind (set_col rest i xs) (fun rest' => POk (row' :: rest'))
      end
  | _, _ => PErr PValueError
  end.

(** [out[cols, i] = out[i, cols]], cols = slice(i+1, n) *)
Definition mirror (rows : list (list f32)) (i n : Z) : pres (list (list f32)) :=
  match mv_get rows i with
  | None => PErr PIndexError
  | Some row =>
      pbind (set_col (mv_slice rows (i + 1) n) i (mv_slice row (i + 1) n)) (fun low =>
      POk (splice rows (i + 1) low))
  end.

(** square form: [row_out = out[i, cols]; ...; out[cols, i] = out[i, cols]] *)
Fixpoint pw_square_loop (cnt : nat) (c : container) (d : Z * Z) (ss : sigs) (indices : option (list Z))
  (n i : Z) (rows : list (list f32)) : pres (list (list f32)) :=
  match cnt with
  | O => POk rows
  | S cnt' =>
      pbind (pw_row_sig ss indices i) (fun row_sig =>
      pbind (pw_col_sigs ss indices (i + 1) n) (fun col_sigs =>
      match mv_get rows i with
      | None => PErr PIndexError
      | Some row =>
          pbind (jd_array (indexed c) d d row_sig col_sigs (view_of row (i + 1) n)) (fun v =>
          pbind (mirror (splice rows i [splice row (i + 1) v]) i n) (fun rows' =>
          pw_square_loop cnt' c d ss indices n (i + 1) rows'))
      end))
  end.

Definition pw_n (ss : sigs) (indices : option (list Z)) : Z :=
  match indices with None => mv_len ss | Some idx => mv_len idx end.
Definition num_pairs (n : Z) : Z := n * (n - 1) / 2.

Definition jd_pairwise_flat (fx : bool) (c : container) (d : Z * Z) (ss : sigs) (indices : option (list Z))
  (out : option (obuf (list f32))) : pres (list f32) :=
  let n := pw_n ss indices in
  pbind (wrap_plain fx c ss) (fun _ =>
  pbind (check_out out [num_pairs n] (repeat uninit (Z.to_nat (num_pairs n)))) (fun out0 =>
  pw_flat_loop (Z.to_nat (n - 1)) c d ss indices n 0 0 out0)).

Definition jd_pairwise_square (fx : bool) (c : container) (d : Z * Z) (ss : sigs) (indices : option (list Z))
  (out : option (obuf (list (list f32)))) : pres (list (list f32)) :=
  let n := pw_n ss indices in
  pbind (wrap_plain fx c ss) (fun _ =>
  pbind (check_out out [n; n] (repeat (repeat uninit (Z.to_nat n)) (Z.to_nat n))) (fun rows0 =>
  pbind (fill_diag rows0 0) (fun rows1 =>
  pw_square_loop (Z.to_nat (n - 1)) c d ss indices n 0 rows1))).
