(** C11 -- model of the parts of CPython's [json] module the exporters rely on:
    [json.dump] with default options (ensure_ascii=True, separators comma-space and colon-space) and the
    string scanner of [json.loads] (strict mode).  Numbers are opaque tokens (the text Python's
    [repr] produced).  Strings are lists of code points.  No proofs here. *)
From Coq Require Import ZArith List Bool.
From GV Require Import Model.C11Csv.
Import ListNotations.
Open Scope Z_scope.

Inductive xerr : Type :=
| DecodeError          (* json.JSONDecodeError *)
| OutOfFuel            (* model artefact; proved unreachable *)
| NoResultFound        (* sqlalchemy .one() found nothing *)
| MultipleResultsFound (* sqlalchemy .one() found several *)
| StructureError.      (* cattrs / KeyError / TypeError while structuring *)

Inductive xres (A : Type) : Type := XOk (a : A) | XErr (e : xerr).
Arguments XOk {A} a.
Arguments XErr {A} e.

(** ---- string encoder: [ascii_escape_unichar] of Modules/_json.c --------------------------- *)

Definition hexdig (d : Z) : Z := if d <? 10 then 48 + d else 87 + d.   (* lower-case hex digit *)

Definition u_escape (n : Z) : str :=
  [92; 117; hexdig (n / 4096); hexdig ((n / 256) mod 16); hexdig ((n / 16) mod 16); hexdig (n mod 16)].

Definition escape_char (c : Z) : str :=
  if c =? 34 then [92; 34]
  else if c =? 92 then [92; 92]
  else if c =? 10 then [92; 110]
  else if c =? 13 then [92; 114]
  else if c =? 9 then [92; 116]
  else if c =? 12 then [92; 102]
  else if c =? 8 then [92; 98]
  else if (32 <=? c) && (c <=? 126) then [c]
  else if c <? 65536 then u_escape c
  else let v := c - 65536 in u_escape (55296 + v / 1024) ++ u_escape (56320 + v mod 1024).

Definition json_write_string (s : str) : str := 34 :: flat_map escape_char s ++ [34].

(** ---- string decoder: [scanstring_unicode] of Modules/_json.c, strict ---------------------- *)

Definition unhex (c : Z) : option Z :=
  if (48 <=? c) && (c <=? 57) then Some (c - 48)
  else if (97 <=? c) && (c <=? 102) then Some (c - 87)
  else if (65 <=? c) && (c <=? 70) then Some (c - 55)
  else None.

Definition read4 (t : str) : option (Z * str) :=
  match t with
  | a :: b :: c :: d :: r =>
      match unhex a, unhex b, unhex c, unhex d with
      | Some x3, Some x2, Some x1, Some x0 => Some (4096 * x3 + 256 * x2 + 16 * x1 + x0, r)
      | _, _, _, _ => None
      end
  | _ => None
  end.

Definition is_high (u : Z) : bool := (55296 <=? u) && (u <=? 56319).
Definition is_low (u : Z) : bool := (56320 <=? u) && (u <=? 57343).

Definition simple_escape (e : Z) : option Z :=
  if e =? 34 then Some 34 else if e =? 92 then Some 92 else if e =? 47 then Some 47
  else if e =? 98 then Some 8 else if e =? 102 then Some 12 else if e =? 110 then Some 10
  else if e =? 114 then Some 13 else if e =? 116 then Some 9 else None.

(** what follows a high surrogate escape: a [\uXXXX] low surrogate, something else, or garbage *)
Inductive lowf : Type := LNone | LErr | LSome (u2 : Z) (r : str).

Definition low_follow (t : str) : lowf :=
  match t with
  | b :: u :: r =>
      if (b =? 92) && (u =? 117) then
        match read4 r with
        | Some (u2, r') => if is_low u2 then LSome u2 r' else LNone
        | None => LErr
        end
      else LNone
  | _ => LNone
  end.

(** scan the body of a string literal (after the opening quote): decoded string and the text
    after the closing quote *)
Fixpoint scan (fuel : nat) (acc : str) (t : str) : xres (str * str) :=
  match fuel with
  | O => XErr OutOfFuel
  | S fuel' =>
      match t with
      | [] => XErr DecodeError                                  (* unterminated string *)
      | c :: r =>
          if c =? 34 then XOk (rev acc, r)
          else if c =? 92 then
            match r with
            | [] => XErr DecodeError
            | e :: r2 =>
                if e =? 117 then
                  match read4 r2 with
                  | None => XErr DecodeError                    (* invalid \uXXXX escape *)
                  | Some (u, r3) =>
                      if is_high u then
                        match low_follow r3 with
                        | LSome u2 r5 =>
                            scan fuel' (65536 + (u - 55296) * 1024 + (u2 - 56320) :: acc) r5
                        | LErr => XErr DecodeError
                        | LNone => scan fuel' (u :: acc) r3
                        end
                      else scan fuel' (u :: acc) r3
                  end
                else match simple_escape e with
                     | Some x => scan fuel' (x :: acc) r2
                     | None => XErr DecodeError                 (* invalid \escape *)
                     end
            end
          else if c <? 32 then XErr DecodeError                 (* control character, strict *)
          else scan fuel' (c :: acc) r
      end
  end.

(** read one string literal at the head of [t] *)
Definition json_read_string (t : str) : xres (str * str) :=
  match t with
  | q :: r => if q =? 34 then scan (S (length r)) [] r else XErr DecodeError
  | [] => XErr DecodeError
  end.

(** well-formedness of a Python [str] for the round trip: code points in range, and no high
    surrogate code point immediately followed by a low surrogate code point (such a pair is not
    Unicode text; it would be read back as one astral character) *)
Definition cp_ok (c : Z) : bool := (0 <=? c) && (c <=? 1114111).
Fixpoint no_sur_pair (s : str) : bool :=
  match s with
  | c :: t => match t with
              | d :: _ => negb (is_high c && is_low d) && no_sur_pair t
              | [] => true
              end
  | [] => true
  end.
Definition str_ok (s : str) : bool := forallb cp_ok s && no_sur_pair s.

(** ---- documents ---------------------------------------------------------------------------- *)

Inductive jv : Type :=
| JNull
| JBool (b : bool)
| JNum (tok : str)
| JStr (s : str)
| JArr (l : list jv)
| JObj (l : list (str * jv)).

Definition t_null : str := [110; 117; 108; 108].
Definition t_true : str := [116; 114; 117; 101].
Definition t_false : str := [102; 97; 108; 115; 101].

(** [json.dumps(v)] with the default separators *)
Fixpoint json_write (v : jv) : str :=
  match v with
  | JNull => t_null
  | JBool b => if b then t_true else t_false
  | JNum tok => tok
  | JStr s => json_write_string s
  | JArr l =>
      91 :: (fix go (l : list jv) : str :=
               match l with
               | [] => []
               | x :: t => match t with
                           | [] => json_write x
                           | _ :: _ => json_write x ++ 44 :: 32 :: go t
                           end
               end) l ++ [93]
  | JObj l =>
      123 :: (fix go (l : list (str * jv)) : str :=
                match l with
                | [] => []
                | (k, x) :: t => match t with
                                 | [] => json_write_string k ++ 58 :: 32 :: json_write x
                                 | _ :: _ => json_write_string k ++ 58 :: 32 :: json_write x ++ 44 :: 32 :: go t
                                 end
                end) l ++ [125]
  end.

(** [d[key]] on a parsed document *)
Fixpoint str_eqb (a b : str) : bool :=
  match a, b with
  | [], [] => true
  | x :: a', y :: b' => (x =? y) && str_eqb a' b'
  | _, _ => false
  end.

Fixpoint assoc (k : str) (l : list (str * jv)) : option jv :=
  match l with
  | [] => None
  | (k', v) :: t => if str_eqb k k' then Some v else assoc k t
  end.

Definition jget (k : str) (v : jv) : option jv :=
  match v with JObj l => assoc k l | _ => None end.
