(** Model of the k-mer parameter handling of the gambit command line.

    Follows, check by check and in the same order,
      src/gambit/cli/common.py   kspec_from_params, check_params_group, CLIContext.require_database
      src/gambit/cli/dist.py     dist_cmd      (lines 60-127 reconciliation, 146-170 compute/compare/write)
      src/gambit/cli/query.py    query_cmd     (as found, and with repo_fixes/C14.diff)
      src/gambit/cli/tree.py     tree_cmd
      src/gambit/cli/signatures.py  create
      src/gambit/query.py:251    query_parse computes the query signatures with db.signatures.kmerspec

    A k-mer parameter set ([KmerSpec]) is (k, prefix) with the prefix a list of upper-case ASCII
    byte values; KmerSpec equality is equality of both (kmers.py: attrs eq on k and prefix only).
    What a command does is recorded as a list of steps: signatures computed from sequence files
    with a given parameter set, one comparison of two signature collections (each carrying the
    parameter set it was built with), the result being written.  Where the code raises a
    ClickException the model returns [Failed e] -- there are no steps after it and the exit status
    is 1.  Modelled, not verified: click (option parsing, ClickException -> exit status 1),
    load_signatures (returns the parameters stored in the file), calc_file_signatures (computes
    with the parameters it is given). *)
From Coq Require Import ZArith List Bool.
Import ListNotations.
Open Scope Z_scope.

Record kspec := KS { ks_k : Z; ks_prefix : list Z }.

Fixpoint zlist_eqb (a b : list Z) : bool :=
  match a, b with
  | [], [] => true
  | x :: a', y :: b' => (x =? y) && zlist_eqb a' b'
  | _, _ => false
  end.

Definition kspec_eqb (a b : kspec) : bool :=
  (ks_k a =? ks_k b) && zlist_eqb (ks_prefix a) (ks_prefix b).

(** DEFAULT_KMERSPEC = KmerSpec(11, 'ATGAC') *)
Definition default_kspec : kspec := KS 11 [65; 84; 71; 65; 67].

Inductive err :=
| EExclusive (group : Z)     (* "... are mutually exclusive"          (check_params_group) *)
| ERequired (group : Z)      (* "One of ... is required"              (check_params_group) *)
| ENoDb                      (* "Must supply path to database directory."                  *)
| ENeedBoth                  (* "Must specify values for both -k and --prefix arguments."  *)
| EMinK                      (* "k must be at least 5"                                      *)
| EMinPrefix                 (* "Prefix length must be at least 2"                          *)
| EBadNuc                    (* "Invalid nucleotide codes in prefix"                        *)
| EQueryRef                  (* query signatures vs reference signatures                    *)
| EOptQuery                  (* command line options vs query signatures                    *)
| EOptRef                    (* command line options vs reference signatures                *)
| EDbParamsExcl              (* "-k/--prefix and --db-params options are mutually exclusive" *)
| ESigDb.                    (* repaired query command: signature file vs database          *)

Definition err_code (e : err) : Z :=
  match e with
  | EExclusive g => 10 + g | ERequired g => 20 + g
  | ENoDb => 3 | ENeedBoth => 4 | EMinK => 5 | EMinPrefix => 6 | EBadNuc => 7
  | EQueryRef => 31 | EOptQuery => 32 | EOptRef => 33 | EDbParamsExcl => 34 | ESigDb => 35
  end.

(** the errors that report a mismatch of k-mer parameters *)
Definition is_mismatch_err (e : err) : bool :=
  match e with EQueryRef | EOptQuery | EOptRef | ESigDb => true | _ => false end.

Inductive res (A : Type) := Ok (a : A) | Failed (e : err).
Arguments Ok {A} a.
Arguments Failed {A} e.

(* ---- common.kspec_from_params ------------------------------------------------------------- *)

(** str.upper() on one ASCII code *)
Definition upper_byte (b : Z) : Z := if (97 <=? b) && (b <=? 122) then b - 32 else b.
(** NUCLEOTIDES = b'ACGT' *)
Definition is_nuc (b : Z) : bool := (b =? 65) || (b =? 67) || (b =? 71) || (b =? 84).

Definition min_k : Z := 5.
Definition min_prefix_len : Z := 2.

Definition kspec_from_params (k : option Z) (prefix : option (list Z)) (default : bool)
  : res (option kspec) :=
  match prefix, k with
  | None, None => Ok (if default then Some default_kspec else None)
  | None, Some _ | Some _, None => Failed ENeedBoth
  | Some p, Some kv =>
      if kv <? min_k then Failed EMinK
      else if Z.of_nat (length p) <? min_prefix_len then Failed EMinPrefix
      else let pb := map upper_byte p in
           if forallb is_nuc pb then Ok (Some (KS kv pb)) else Failed EBadNuc
  end.

(* ---- common.check_params_group(ctx, names, exclusive=True, required=True) ---------------- *)

Definition count_true (l : list bool) : nat := length (filter (fun b => b) l).

Definition check_group (group : Z) (present : list bool) : option err :=
  match count_true present with
  | O => Some (ERequired group)
  | S O => None
  | _ => Some (EExclusive group)
  end.

Definition is_some {A} (o : option A) : bool := match o with Some _ => true | None => false end.

(* ---- what a command does ------------------------------------------------------------------ *)

Inductive side := Query | Ref.

Inductive step :=
| Calc (sd : side) (s : kspec)        (* calc_file_signatures(s, files of that side)      *)
| Compare (q r : kspec)                (* a distance computation between signatures built with q and r *)
| Write.                               (* the result is written                            *)

Record run := Run { exit_status : Z; error : option err; steps : list step }.

Definition failed (e : err) : run := Run 1 (Some e) [].
Definition finished (st : list step) : run := Run 0 None st.

(* ---- dist --------------------------------------------------------------------------------- *)

(** [d_qs]/[d_rs]: parameters stored in the signature file given with --qs/--rs;
    [d_db]: parameters of the database given with the root option -d (None: no -d). *)
Record dist_opts := DistOpts {
  d_q : bool; d_ql : bool; d_qs : option kspec;
  d_r : bool; d_rl : bool; d_rs : option kspec; d_use_db : bool; d_square : bool;
  d_db : option kspec;
  d_k : option Z; d_prefix : option (list Z) }.

(** result of the reconciliation: the parameters to compute with, and the pre-computed
    query / reference signatures (None: computed from files, or -- for the reference side with
    --square -- the query signatures themselves) *)
Record dist_plan := DistPlan { p_use : kspec; p_query : option kspec; p_ref : option kspec }.

(** dist.py:60-127 *)
Definition dist_reconcile (o : dist_opts) : res dist_plan :=
  match check_group 1 [d_q o; d_ql o; is_some (d_qs o)] with Some e => Failed e | None =>
  match check_group 2 [d_r o; d_rl o; is_some (d_rs o); d_use_db o; d_square o] with Some e => Failed e | None =>
  let query_sigs := d_qs o in
  let ref_sigs : res (option kspec) :=
    match d_rs o with
    | Some s => Ok (Some s)
    | None => if d_use_db o then match d_db o with Some s => Ok (Some s) | None => Failed ENoDb end
              else Ok None
    end in
  match ref_sigs with Failed e => Failed e | Ok ref_sigs =>
  match kspec_from_params (d_k o) (d_prefix o) false with Failed e => Failed e | Ok kopt =>
  match kopt with
  | None =>
      match query_sigs, ref_sigs with
      | Some q, Some r => if kspec_eqb q r then Ok (DistPlan q query_sigs ref_sigs) else Failed EQueryRef
      | Some q, None => Ok (DistPlan q query_sigs ref_sigs)
      | None, Some r => Ok (DistPlan r query_sigs ref_sigs)
      | None, None => Ok (DistPlan default_kspec query_sigs ref_sigs)
      end
  | Some ks =>
      if match query_sigs with Some q => negb (kspec_eqb q ks) | None => false end then Failed EOptQuery
      else if match ref_sigs with Some r => negb (kspec_eqb r ks) | None => false end then Failed EOptRef
      else Ok (DistPlan ks query_sigs ref_sigs)
  end end end end end.

(** dist.py:146-170 *)
Definition dist_execute (square : bool) (p : dist_plan) : list step :=
  let '(qcalc, qs) := match p_query p with Some s => ([], s) | None => ([Calc Query (p_use p)], p_use p) end in
  if square then qcalc ++ [Compare qs qs; Write]
  else
    let '(rcalc, rs) := match p_ref p with Some s => ([], s) | None => ([Calc Ref (p_use p)], p_use p) end in
    qcalc ++ rcalc ++ [Compare qs rs; Write].

Definition dist_cmd (o : dist_opts) : run :=
  match dist_reconcile o with
  | Failed e => failed e
  | Ok p => finished (dist_execute (d_square o) p)
  end.

(* ---- query -------------------------------------------------------------------------------- *)

Record query_opts := QueryOpts {
  q_files : bool; q_list : bool; q_sigfile : option kspec; q_db : option kspec }.

(** [fixed = false]: the command as found; [fixed = true]: with repo_fixes/C14.diff *)
Definition query_cmd (fixed : bool) (o : query_opts) : run :=
  match check_group 3 [q_files o; q_list o; is_some (q_sigfile o)] with Some e => failed e | None =>
  match q_db o with None => failed ENoDb | Some db =>
  match q_sigfile o with
  | Some s =>
      if fixed && negb (kspec_eqb s db) then failed ESigDb
      else finished [Compare s db; Write]
  | None =>
      (* query_parse: calc_file_signatures(db.signatures.kmerspec, files) *)
      finished [Calc Query db; Compare db db; Write]
  end end end.

(* ---- tree --------------------------------------------------------------------------------- *)

Record tree_opts := TreeOpts {
  t_files : bool; t_list : bool; t_sigfile : option kspec; t_k : option Z; t_prefix : option (list Z) }.

Definition tree_cmd (o : tree_opts) : run :=
  match check_group 4 [t_files o; t_list o; is_some (t_sigfile o)] with Some e => failed e | None =>
  match t_sigfile o with
  | Some s => finished [Compare s s; Write]      (* -k/--prefix are not looked at *)
  | None =>
      match kspec_from_params (t_k o) (t_prefix o) true with
      | Failed e => failed e
      | Ok None => failed ENeedBoth               (* unreachable: default=True never yields None *)
      | Ok (Some ks) => finished [Calc Query ks; Compare ks ks; Write]
      end
  end end.

(* ---- signatures create -------------------------------------------------------------------- *)

Record create_opts := CreateOpts {
  c_files : bool; c_list : bool; c_k : option Z; c_prefix : option (list Z);
  c_db_params : bool; c_db : option kspec }.

(** the parameters the new signature file is computed with and records *)
Definition create_kspec (o : create_opts) : res kspec :=
  match check_group 5 [c_list o; c_files o] with Some e => Failed e | None =>
  match kspec_from_params (c_k o) (c_prefix o) false with Failed e => Failed e | Ok kopt =>
  if c_db_params o then
    match kopt with
    | None => match c_db o with Some s => Ok s | None => Failed ENoDb end
    | Some _ => Failed EDbParamsExcl
    end
  else match kopt with Some ks => Ok ks | None => Ok default_kspec end
  end end.

Definition create_cmd (o : create_opts) : run :=
  match create_kspec o with
  | Failed e => failed e
  | Ok ks => finished [Calc Query ks; Write]
  end.

(* ---- all commands that bring signature sources together ---------------------------------- *)

Inductive command :=
| CDist (o : dist_opts) | CQuery (o : query_opts) | CTree (o : tree_opts) | CCreate (o : create_opts).

Definition run_command (fixed : bool) (c : command) : run :=
  match c with
  | CDist o => dist_cmd o
  | CQuery o => query_cmd fixed o
  | CTree o => tree_cmd o
  | CCreate o => create_cmd o
  end.
