(** binary32 facts for the distance kernel: small integers convert exactly, the quotient of two
    such integers is the exact ratio rounded once (round to nearest, ties to even). *)
From Coq Require Import ZArith Reals Lia Lra Psatz.
From Flocq Require Import Core.Core IEEE754.BinarySingleNaN.
From GV Require Import Base.F32.
Open Scope R_scope.

Definition fexp32 := FLT_exp (-149) 24.
Definition round32 (x : R) : R := round radix2 fexp32 ZnearestE x.

Lemma fexp32_eq : SpecFloat.fexp 24 128 = fexp32.
Proof. reflexivity. Qed.

Lemma format_small_int z : (0 <= z <= 16777216)%Z -> generic_format radix2 fexp32 (IZR z).
Proof.
  intros Hz.
  destruct (Z.eq_dec z 16777216) as [->|Hne].
  - (* 2^24 = 1 * 2^24 *)
    apply generic_format_FLT. exists (Float radix2 1 24).
    + unfold F2R. simpl. lra.
    + simpl. lia.
    + simpl. lia.
  - apply generic_format_FLT. exists (Float radix2 z 0).
    + unfold F2R. simpl. lra.
    + simpl. rewrite Z.abs_eq by lia. lia.
    + simpl. lia.
Qed.

Lemma f32_of_Z_exact z : (0 <= z <= 16777216)%Z ->
  B2R (f32_of_Z z) = IZR z /\ is_finite (f32_of_Z z) = true /\ Bsign (f32_of_Z z) = false.
Proof.
  intros Hz. unfold f32_of_Z.
  pose proof (binary_normalize_correct 24 128 Hp32 He32 mode_NE z 0 false) as H.
  cbv zeta in H.
  assert (Hx : F2R (Float radix2 z 0) = IZR z) by (unfold F2R; simpl; lra).
  rewrite Hx in H.
  assert (Hr : round radix2 (SpecFloat.fexp 24 128) (round_mode mode_NE) (IZR z) = IZR z).
  { apply round_generic; [apply valid_rnd_N|]. apply format_small_int, Hz. }
  rewrite Hr in H.
  assert (Hlt : Rlt_bool (Rabs (IZR z)) (bpow radix2 128) = true).
  { apply Rlt_bool_true. rewrite Rabs_pos_eq by (apply IZR_le; lia).
    change (bpow radix2 128) with (IZR (2 ^ 128)). apply IZR_lt.
    apply Z.le_lt_trans with 16777216%Z; [lia|reflexivity]. }
  rewrite Hlt in H. destruct H as [H1 [H2 H3]].
  split; [exact H1|]. split; [exact H2|].
  rewrite H3. destruct (Rcompare_spec (IZR z) 0) as [Hc|Hc|Hc]; try reflexivity.
  exfalso. assert (0 <= IZR z) by (apply IZR_le; lia). lra.
Qed.

Lemma round32_le x y : x <= y -> round32 x <= round32 y.
Proof. intros H. apply round_le; [apply FLT_exp_valid; reflexivity | apply valid_rnd_N | exact H]. Qed.

Lemma round32_0 : round32 0 = 0.
Proof. apply round_0. apply valid_rnd_N. Qed.

Lemma round32_1 : round32 1 = 1.
Proof.
  apply round_generic; [apply valid_rnd_N|]. change 1 with (IZR 1). apply format_small_int. lia.
Qed.

Lemma ratio_bounds s u : (0 <= s <= u)%Z -> (0 < u)%Z -> 0 <= IZR s / IZR u <= 1.
Proof.
  intros Hs Hu. assert (0 < IZR u) by (apply IZR_lt; lia).
  assert (0 <= IZR s) by (apply IZR_le; lia). assert (IZR s <= IZR u) by (apply IZR_le; lia).
  split.
  - apply Rmult_le_pos; [assumption|]. left. now apply Rinv_0_lt_compat.
  - apply Rmult_le_reg_r with (IZR u); [assumption|].
    unfold Rdiv. rewrite Rmult_assoc, Rinv_l by lra. lra.
Qed.

Definition ratio_f32' (s u : Z) : f32 :=
  if (u =? 0)%Z then f32_of_Z 0 else f32_div (f32_of_Z s) (f32_of_Z u).

Theorem ratio_rounded_once s u :
  (0 <= s <= u)%Z -> (0 < u <= 16777216)%Z ->
  B2R (f32_div (f32_of_Z s) (f32_of_Z u)) = round32 (IZR s / IZR u) /\
  is_finite (f32_div (f32_of_Z s) (f32_of_Z u)) = true /\
  Bsign (f32_div (f32_of_Z s) (f32_of_Z u)) = false.
Proof.
  intros Hs Hu.
  destruct (f32_of_Z_exact s) as [Hs1 [Hs2 Hs3]]; [lia|].
  destruct (f32_of_Z_exact u) as [Hu1 [Hu2 Hu3]]; [lia|].
  unfold f32_div.
  pose proof (Bdiv_correct 24 128 Hp32 He32 mode_NE (f32_of_Z s) (f32_of_Z u)) as H.
  rewrite Hs1, Hu1 in H.
  assert (Hnz : IZR u <> 0) by (apply not_0_IZR; lia).
  specialize (H Hnz).
  pose proof (ratio_bounds s u Hs ltac:(lia)) as [Hb0 Hb1].
  assert (Hr0 : 0 <= round32 (IZR s / IZR u)) by (rewrite <- round32_0; now apply round32_le).
  assert (Hr1 : round32 (IZR s / IZR u) <= 1) by (rewrite <- round32_1; now apply round32_le).
  change (round radix2 (SpecFloat.fexp 24 128) (round_mode mode_NE) (IZR s / IZR u))
    with (round32 (IZR s / IZR u)) in H.
  assert (Hlt : Rlt_bool (Rabs (round32 (IZR s / IZR u))) (bpow radix2 128) = true).
  { apply Rlt_bool_true. rewrite Rabs_pos_eq by assumption.
    apply Rle_lt_trans with 1; [assumption|].
    change (bpow radix2 128) with (IZR (2 ^ 128)). apply IZR_lt. reflexivity. }
  rewrite Hlt in H. destruct H as [H1 [H2 H3]].
  split; [exact H1|]. split; [now rewrite H2|].
  rewrite H3.
  - now rewrite Hs3, Hu3.
  - destruct (Bdiv mode_NE (f32_of_Z s) (f32_of_Z u)); try reflexivity. rewrite Hs2 in H2. discriminate.
Qed.
