(** C20: list, cumulative-bounds and Python index/slice arithmetic lemmas. *)
From Coq Require Import ZArith List Bool Lia ZifyBool Sorted.
From GV Require Import Spec.C20 Model.C20.
Import ListNotations.
Open Scope Z_scope.

Lemma zlen_nonneg {A} (l : list A) : 0 <= zlen l.
Proof. unfold zlen. lia. Qed.

Lemma zlen_app {A} (a b : list A) : zlen (a ++ b) = zlen a + zlen b.
Proof. unfold zlen. rewrite app_length. lia. Qed.

Lemma zlen_cons {A} (x : A) (l : list A) : zlen (x :: l) = zlen l + 1.
Proof. unfold zlen. cbn [length]. lia. Qed.

Lemma zlen_map {A B} (f : A -> B) l : zlen (map f l) = zlen l.
Proof. unfold zlen. now rewrite map_length. Qed.

(** ** _check_index and integer lookups *)

Lemma check_index_spec n i : 0 <= n ->
  check_index n i = if in_range n i then Some (pos n i) else None.
Proof.
  intros Hn. unfold check_index, in_range, pos.
  destruct (i <? 0) eqn:E1; destruct ((0 <=? _) && (_ <? n)) eqn:E2;
    destruct ((- n <=? i) && (i <? n)) eqn:E3; try reflexivity; lia.
Qed.

Lemma check_index_in n i : 0 <= i < n -> check_index n i = Some i.
Proof.
  intros H. unfold check_index. destruct (i <? 0) eqn:E; [lia|].
  destruct ((0 <=? i) && (i <? n)) eqn:E2; [reflexivity|lia].
Qed.

Lemma check_index_range n i p : check_index n i = Some p -> 0 <= p < n.
Proof.
  unfold check_index. destruct (i <? 0) eqn:E;
    destruct ((0 <=? _) && (_ <? n)) eqn:E2; intros H; inversion H; subst; lia.
Qed.

Lemma pyget_in {A} (l : list A) i : 0 <= i < zlen l -> pyget l i = nth_error l (Z.to_nat i).
Proof. intros H. unfold pyget. now rewrite check_index_in. Qed.

Lemma pyget_out {A} (l : list A) i : zlen l <= i -> pyget l i = None.
Proof.
  intros H. unfold pyget, check_index. pose proof (zlen_nonneg l).
  destruct (i <? 0) eqn:E; [lia|]. destruct ((0 <=? i) && (i <? zlen l)) eqn:E2; [lia|reflexivity].
Qed.

Lemma adjust1_id n x : 0 <= x <= n -> adjust1 n 1 x = x.
Proof.
  intros H. unfold adjust1. destruct (x <? 0) eqn:E; [lia|].
  destruct (n <=? x) eqn:E2; [|reflexivity]. cbn. lia.
Qed.

Lemma py_slice_in {A} (l : list A) a b : 0 <= a <= b -> b <= zlen l ->
  py_slice l a b = firstn (Z.to_nat (b - a)) (skipn (Z.to_nat a) l).
Proof.
  intros H1 H2. unfold py_slice, zfirstn, zskipn. rewrite !adjust1_id by lia. reflexivity.
Qed.

Lemma py_slice_app3 {A} (x y z : list A) : py_slice (x ++ y ++ z) (zlen x) (zlen x + zlen y) = y.
Proof.
  pose proof (zlen_nonneg x). pose proof (zlen_nonneg y). pose proof (zlen_nonneg z).
  rewrite py_slice_in by (rewrite ?zlen_app; lia).
  replace (Z.to_nat (zlen x)) with (length x) by (unfold zlen; lia).
  replace (Z.to_nat (zlen x + zlen y - zlen x)) with (length y) by (unfold zlen; lia).
  rewrite skipn_app, skipn_all, Nat.sub_diag. cbn [skipn app].
  rewrite firstn_app, firstn_all, Nat.sub_diag. cbn [firstn]. now rewrite app_nil_r.
Qed.

(** ** cumulative bounds *)

Definition sumz (l : list Z) : Z := fold_right Z.add 0 l.

Lemma sumz_app a b : sumz (a ++ b) = sumz a + sumz b.
Proof. induction a as [|x a IH]; cbn; [reflexivity|]. fold (sumz (a ++ b)). fold (sumz a). lia. Qed.

Lemma sumz_nonneg l : Forall (fun x => 0 <= x) l -> 0 <= sumz l.
Proof. induction 1 as [|x l Hx Hl IH]; cbn; [lia|]. fold (sumz l). lia. Qed.

Lemma zlen_concat (l : list sig) : zlen (concat l) = sumz (map zlen l).
Proof.
  induction l as [|x l IH]; [reflexivity|]. cbn [concat map]. rewrite zlen_app, IH. reflexivity.
Qed.

Lemma lens_nonneg (l : list sig) : Forall (fun x => 0 <= x) (map zlen l).
Proof. apply Forall_forall. intros x Hx. apply in_map_iff in Hx. destruct Hx as [s [<- _]]. apply zlen_nonneg. Qed.

Lemma cumb_length b lens : length (cumb b lens) = S (length lens).
Proof. revert b. induction lens as [|x r IH]; intros b; cbn; [reflexivity|]. now rewrite IH. Qed.

Lemma cumb_nth lens : forall b i, (i <= length lens)%nat ->
  nth_error (cumb b lens) i = Some (b + sumz (firstn i lens)).
Proof.
  induction lens as [|x r IH]; intros b i Hi.
  - cbn in Hi. assert (i = 0%nat) by lia. subst. cbn. f_equal. lia.
  - destruct i as [|i]; cbn [cumb nth_error firstn].
    + cbn. f_equal. lia.
    + rewrite IH by (cbn in Hi; lia). cbn. fold (sumz (firstn i r)). f_equal. lia.
Qed.

Lemma cumb_last lens : forall b d, last (cumb b lens) d = b + sumz lens.
Proof.
  induction lens as [|x r IH]; intros b d; [cbn; lia|].
  cbn [cumb]. change (last (b :: cumb (b + x) r) d) with
    (match cumb (b + x) r with [] => b | _ :: _ => last (cumb (b + x) r) d end).
  destruct (cumb (b + x) r) eqn:E.
  - pose proof (cumb_length (b + x) r) as H. rewrite E in H. discriminate.
  - rewrite <- E, IH. cbn. fold (sumz r). lia.
Qed.

Lemma cumb_pyget lens b i : 0 <= i <= zlen lens ->
  pyget (cumb b lens) i = Some (b + sumz (firstn (Z.to_nat i) lens)).
Proof.
  intros H. rewrite pyget_in.
  - apply cumb_nth. unfold zlen in H. lia.
  - unfold zlen in *. rewrite cumb_length. lia.
Qed.

Lemma cumb_skipn lens : forall b i, (i <= length lens)%nat ->
  skipn i (cumb b lens) = cumb (b + sumz (firstn i lens)) (skipn i lens).
Proof.
  induction lens as [|x r IH]; intros b i Hi.
  - cbn in Hi. assert (i = 0%nat) by lia. subst. cbn. f_equal. lia.
  - destruct i as [|i].
    + cbn [skipn firstn sumz fold_right]. f_equal. lia.
    + cbn [cumb skipn firstn]. rewrite IH by (cbn in Hi; lia). cbn. fold (sumz (firstn i r)). f_equal. lia.
Qed.

Lemma cumb_firstn lens : forall b j, (j <= length lens)%nat ->
  firstn (S j) (cumb b lens) = cumb b (firstn j lens).
Proof.
  induction lens as [|x r IH]; intros b j Hj.
  - cbn in Hj. assert (j = 0%nat) by lia. subst. reflexivity.
  - destruct j as [|j]; [reflexivity|].
    cbn [cumb firstn]. f_equal. apply IH. cbn in Hj. lia.
Qed.

Lemma cumb_shift lens : forall b c, map (fun x => x - c) (cumb b lens) = cumb (b - c) lens.
Proof.
  induction lens as [|x r IH]; intros b c; cbn; [reflexivity|]. rewrite IH. do 2 f_equal. lia.
Qed.

(** ** strictly sorted lists are determined by their elements *)

Lemma SS_ext {A} (R : A -> A -> Prop) (asym : forall x y, R x y -> R y x -> False) :
  forall l1 l2, StronglySorted R l1 -> StronglySorted R l2 ->
  (forall x, In x l1 <-> In x l2) -> l1 = l2.
Proof.
  induction l1 as [|a l1 IH]; intros l2 H1 H2 Hin.
  - destruct l2 as [|b l2]; [reflexivity|]. exfalso. apply (Hin b). now left.
  - destruct l2 as [|b l2]; [exfalso; apply (Hin a); now left|].
    inversion H1 as [|? ? S1 F1]; subst. inversion H2 as [|? ? S2 F2]; subst.
    rewrite Forall_forall in F1, F2.
    assert (a = b) as ->.
    { destruct (proj1 (Hin a) (or_introl eq_refl)) as [E|Ha]; [now symmetry|].
      destruct (proj2 (Hin b) (or_introl eq_refl)) as [E|Hb]; [assumption|].
      exfalso. exact (asym _ _ (F1 _ Hb) (F2 _ Ha)). }
    f_equal. apply IH; try assumption. intros x. split; intros Hx.
    + destruct (proj1 (Hin x) (or_intror Hx)) as [E|Hx2]; [|assumption].
      subst. exfalso. exact (asym _ _ (F1 _ Hx) (F1 _ Hx)).
    + destruct (proj2 (Hin x) (or_intror Hx)) as [E|Hx2]; [|assumption].
      subst. exfalso. exact (asym _ _ (F2 _ Hx) (F2 _ Hx)).
Qed.

Lemma SS_map {A B} (R : A -> A -> Prop) (R' : B -> B -> Prop) (f : A -> B) l :
  (forall x y, In x l -> In y l -> R x y -> R' (f x) (f y)) -> StronglySorted R l -> StronglySorted R' (map f l).
Proof.
  intros Hf H. induction H as [|a l S IH F]; cbn; constructor.
  - apply IH. intros x y Hx Hy. apply Hf; now right.
  - rewrite Forall_forall in *. intros y Hy. apply in_map_iff in Hy. destruct Hy as [x [<- Hx]].
    apply Hf; [now left|now right|auto].
Qed.

Lemma SS_filter {A} (R : A -> A -> Prop) (p : A -> bool) l :
  StronglySorted R l -> StronglySorted R (filter p l).
Proof.
  induction 1 as [|a l S IH F]; cbn; [constructor|].
  destruct (p a); [|assumption]. constructor; [assumption|].
  rewrite Forall_forall in *. intros x Hx. apply filter_In in Hx. now apply F.
Qed.

Lemma SS_snoc {A} (R : A -> A -> Prop) l a :
  StronglySorted R l -> Forall (fun y => R y a) l -> StronglySorted R (l ++ [a]).
Proof.
  induction 1 as [|b l S IH F]; intros Hf; cbn.
  - repeat constructor.
  - inversion Hf; subst. constructor; [now apply IH|].
    apply Forall_app. split; [assumption|]. now constructor.
Qed.

Lemma SS_rev {A} (R : A -> A -> Prop) l :
  StronglySorted R l -> StronglySorted (fun x y => R y x) (rev l).
Proof.
  induction 1 as [|a l S IH F]; cbn; [constructor|].
  apply SS_snoc; [assumption|]. apply Forall_rev. assumption.
Qed.

Lemma seqZ_In n p : In p (seqZ n) <-> 0 <= p < n.
Proof.
  unfold seqZ. rewrite in_map_iff. split.
  - intros [k [<- Hk]]. apply in_seq in Hk. lia.
  - intros H. exists (Z.to_nat p). split; [lia|]. apply in_seq. lia.
Qed.

Lemma seqZ_sorted n : StronglySorted Z.lt (seqZ n).
Proof.
  unfold seqZ. generalize (Z.to_nat n) as k. intros k. generalize 0%nat as s.
  induction k as [|k IH]; intros s; cbn; constructor; [apply IH|].
  apply Forall_forall. intros x Hx. apply in_map_iff in Hx. destruct Hx as [j [<- Hj]].
  apply in_seq in Hj. lia.
Qed.

Lemma seqZ_length n : length (seqZ n) = Z.to_nat n.
Proof. unfold seqZ. now rewrite map_length, seq_length. Qed.

Lemma skipn_plus {A} (a b : nat) : forall l : list A, skipn (a + b) l = skipn b (skipn a l).
Proof.
  induction a as [|a IH]; intros l; [reflexivity|].
  destruct l as [|x l]; [now rewrite !skipn_nil|]. cbn. apply IH.
Qed.

Lemma firstn_plus {A} (a b : nat) : forall l : list A, firstn (a + b) l = firstn a l ++ firstn b (skipn a l).
Proof.
  induction a as [|a IH]; intros l; [reflexivity|].
  destruct l as [|x l]; [now rewrite !firstn_nil|]. cbn. f_equal. apply IH.
Qed.

Lemma zlen_cumb b lens : zlen (cumb b lens) = zlen lens + 1.
Proof. unfold zlen. rewrite cumb_length. lia. Qed.
