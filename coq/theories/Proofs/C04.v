(** C04 -- lemmas and final statements about the loader model (Model/C04.v). *)
From Coq Require Import ZArith List Bool Arith Lia Permutation Sorted.
From GV Require Import Model.C04 Spec.C04.
Import ListNotations.

(* ------------------------------------------------------------------------------------------ *)
(** * boolean equalities *)

Lemma zs_eqb_eq : forall a b, zs_eqb a b = true <-> a = b.
Proof.
  induction a as [|x a IH]; destruct b as [|y b]; simpl; split; intro H; try congruence; try discriminate.
  - apply andb_true_iff in H. destruct H as [H1 H2]. apply Z.eqb_eq in H1. apply IH in H2. congruence.
  - inversion H; subst. apply andb_true_iff. split. apply Z.eqb_refl. apply IH. reflexivity.
Qed.

Lemma idv_eqb_eq : forall a b, idv_eqb a b = true <-> a = b.
Proof.
  destruct a as [x|x], b as [y|y]; simpl; split; intro H; try congruence; try discriminate.
  - apply Z.eqb_eq in H. congruence.
  - inversion H. apply Z.eqb_refl.
  - apply zs_eqb_eq in H. congruence.
  - inversion H. apply zs_eqb_eq. reflexivity.
Qed.

Lemma idv_eqb_refl : forall a, idv_eqb a a = true.
Proof. intro a. apply idv_eqb_eq. reflexivity. Qed.

Lemma idv_eqb_neq : forall a b, idv_eqb a b = false <-> a <> b.
Proof.
  intros a b. split.
  - intros H E. apply idv_eqb_eq in E. congruence.
  - intro H. destruct (idv_eqb a b) eqn:E; [apply idv_eqb_eq in E; contradiction | reflexivity].
Qed.

Lemma oid_eqb_eq : forall a b, oid_eqb a b = true <-> a = b.
Proof.
  destruct a as [x|], b as [y|]; simpl; split; intro H; try congruence; try discriminate.
  - apply idv_eqb_eq in H. congruence.
  - inversion H. apply idv_eqb_refl.
Qed.

Lemma genome_eqb_eq : forall a b, genome_eqb a b = true <-> a = b.
Proof.
  intros [p1 k1 b1 r1 n1] [p2 k2 b2 r2 n2]. unfold genome_eqb. simpl. split.
  - intro H. repeat (apply andb_true_iff in H; destruct H as [H ?]).
    apply Z.eqb_eq in H.
    repeat match goal with X : oid_eqb _ _ = true |- _ => apply oid_eqb_eq in X end. congruence.
  - intro H. inversion H; subst. rewrite Z.eqb_refl.
    repeat match goal with |- context [oid_eqb ?x ?x] => replace (oid_eqb x x) with true by (symmetry; apply oid_eqb_eq; reflexivity) end.
    reflexivity.
Qed.

Lemma mem_genome_In : forall g l, mem_genome g l = true <-> In g l.
Proof.
  intros g l. induction l as [|x r IH]; simpl.
  - split; [discriminate | tauto].
  - rewrite orb_true_iff, IH, genome_eqb_eq. split; intros [H|H]; auto.
Qed.

Lemma has_dup_NoDup : forall l, has_dup l = false <-> NoDup l.
Proof.
  induction l as [|x r IH]; simpl.
  - split; [constructor | reflexivity].
  - rewrite orb_false_iff, IH. split.
    + intros [H1 H2]. constructor; [|assumption]. intro H. apply mem_genome_In in H. congruence.
    + intro H. inversion H as [|? ? Hn Hr]; subst. split; [|assumption].
      destruct (mem_genome x r) eqn:E; [apply mem_genome_In in E; contradiction | reflexivity].
Qed.

(* ------------------------------------------------------------------------------------------ *)
(** * Forall2 / combine helpers (the standard library of 8.16 has few) *)

Lemma Forall2_imp : forall A B (P Q : A -> B -> Prop) l l',
  (forall x y, P x y -> Q x y) -> Forall2 P l l' -> Forall2 Q l l'.
Proof. intros A B P Q l l' H F. induction F; constructor; auto. Qed.

Lemma Forall2_len : forall A B (P : A -> B -> Prop) l l', Forall2 P l l' -> length l = length l'.
Proof. intros A B P l l' F. induction F; simpl; congruence. Qed.

Lemma Forall2_In_l : forall A B (P : A -> B -> Prop) l l' x,
  Forall2 P l l' -> In x l -> exists y, In (x, y) (combine l l') /\ P x y.
Proof.
  intros A B P l l' x F. induction F as [|a b l l' Hab F IH]; simpl; intro H; [tauto|].
  destruct H as [H|H].
  - subst. exists b. auto.
  - destruct (IH H) as [y [H1 H2]]. exists y. auto.
Qed.

Lemma Forall2_combine : forall A B (P : A -> B -> Prop) l l' x y,
  Forall2 P l l' -> In (x, y) (combine l l') -> P x y.
Proof.
  intros A B P l l' x y F. induction F as [|a b l l' Hab F IH]; simpl; intro H; [tauto|].
  destruct H as [H|H]; [inversion H; subst; assumption | auto].
Qed.

Lemma Forall2_conj : forall A B (P Q : A -> B -> Prop) l l',
  Forall2 P l l' -> Forall2 Q l l' -> Forall2 (fun x y => P x y /\ Q x y) l l'.
Proof.
  intros A B P Q l l' F. induction F; intro G; inversion G; subst; constructor; auto.
Qed.

(** in parallel lists whose first list has no repetition, an element has one partner *)
Lemma combine_NoDup_fun : forall A B (l : list A) (l' : list B) x y y',
  NoDup l -> In (x, y) (combine l l') -> In (x, y') (combine l l') -> y = y'.
Proof.
  intros A B l. induction l as [|a l IH]; intros l' x y y' ND H1 H2; simpl in *; [tauto|].
  destruct l' as [|b l']; simpl in *; [tauto|].
  inversion ND as [|? ? Hn Hd]; subst.
  destruct H1 as [H1|H1], H2 as [H2|H2].
  - congruence.
  - inversion H1; subst. apply in_combine_l in H2. contradiction.
  - inversion H2; subst. apply in_combine_l in H1. contradiction.
  - eapply IH; eauto.
Qed.

Lemma NoDup_map_inj_in : forall A B (f : A -> B) l,
  NoDup l -> (forall x y, In x l -> In y l -> f x = f y -> x = y) -> NoDup (map f l).
Proof.
  intros A B f l ND. induction ND as [|a l Hn ND IH]; intro Hinj; simpl; constructor.
  - intro H. apply in_map_iff in H. destruct H as [y [Hy Hin]].
    assert (y = a) by (apply Hinj; simpl; auto). subst. contradiction.
  - apply IH. intros x y Hx Hy. apply Hinj; simpl; auto.
Qed.

Lemma NoDup_map_inj : forall A B (f : A -> B) l x y,
  NoDup (map f l) -> In x l -> In y l -> f x = f y -> x = y.
Proof.
  intros A B f l. induction l as [|a l IH]; intros x y ND Hx Hy E; simpl in *; [tauto|].
  inversion ND as [|? ? Hn Hd]; subst.
  destruct Hx as [Hx|Hx], Hy as [Hy|Hy]; subst; auto.
  - exfalso. apply Hn. rewrite E. apply in_map. assumption.
  - exfalso. apply Hn. rewrite <- E. apply in_map. assumption.
Qed.

(* ------------------------------------------------------------------------------------------ *)
(** * the ID -> genome dict *)

Lemma map_ids_rev : forall a gs,
  map_ids_to_genomes a gs = rev (map (fun g => (get_id a g, g)) gs).
Proof.
  intros a gs. unfold map_ids_to_genomes.
  assert (G : forall acc, fold_left (fun d g => (get_id a g, g) :: d) gs acc
                          = rev (map (fun g => (get_id a g, g)) gs) ++ acc).
  { induction gs as [|g gs IH]; intro acc; simpl; [reflexivity|].
    rewrite IH. rewrite <- app_assoc. reflexivity. }
  rewrite G. apply app_nil_r.
Qed.

Lemma dict_get_In : forall d k g, dict_get d k = Some g -> In (k, g) d.
Proof.
  induction d as [|[k' g'] d IH]; intros k g H; simpl in *; [discriminate|].
  destruct (oid_eqb k' k) eqn:E.
  - apply oid_eqb_eq in E. inversion H; subst. auto.
  - auto.
Qed.

Lemma dict_get_of_In : forall d k g, In (k, g) d -> exists g', dict_get d k = Some g'.
Proof.
  induction d as [|[k' g'] d IH]; intros k g H; simpl in *; [tauto|].
  destruct (oid_eqb k' k) eqn:E; [eauto|].
  destruct H as [H|H]; [|eauto].
  inversion H; subst. assert (oid_eqb k k = true) by (apply oid_eqb_eq; reflexivity). congruence.
Qed.

(** a lookup yields a genome of the genome set that carries the identifier looked up *)
Lemma lookup_sound : forall a gs k g,
  dict_get (map_ids_to_genomes a gs) k = Some g -> In g gs /\ get_id a g = k.
Proof.
  intros a gs k g H. apply dict_get_In in H. rewrite map_ids_rev in H.
  apply in_rev in H. apply in_map_iff in H. destruct H as [x [E Hin]]. inversion E; subst. auto.
Qed.

(** the identifier of every genome of the set is bound *)
Lemma lookup_complete : forall a gs g,
  In g gs -> exists g', dict_get (map_ids_to_genomes a gs) (get_id a g) = Some g'.
Proof.
  intros a gs g H. apply dict_get_of_In with (g := g). rewrite map_ids_rev.
  apply -> in_rev. apply in_map_iff. exists g. auto.
Qed.

(** if identifiers are unique in the genome set, a lookup yields *the* genome *)
Lemma lookup_unique : forall a gs g,
  NoDup (map (get_id a) gs) -> In g gs ->
  dict_get (map_ids_to_genomes a gs) (get_id a g) = Some g.
Proof.
  intros a gs g ND H. destruct (lookup_complete a gs g H) as [g' E].
  destruct (lookup_sound _ _ _ _ E) as [Hin Hid].
  assert (g' = g) by (eapply NoDup_map_inj; eauto). congruence.
Qed.

Lemma count_missing_zero : forall a gs,
  count_missing a gs = 0 -> forall g, In g gs -> get_id a g <> None.
Proof.
  intros a gs H g Hin E. unfold count_missing in H. apply length_zero_iff_nil in H.
  assert (In g (filter (fun g => is_none (get_id a g)) gs)) as X.
  { apply filter_In. split; [assumption|]. rewrite E. reflexivity. }
  rewrite H in X. inversion X.
Qed.

Lemma count_missing_zero_inv : forall a gs,
  (forall g, In g gs -> get_id a g <> None) -> count_missing a gs = 0.
Proof.
  intros a gs H. unfold count_missing.
  induction gs as [|g gs IH]; simpl; [reflexivity|].
  destruct (get_id a g) eqn:E; simpl.
  - apply IH. intros x Hx. apply H. simpl. auto.
  - exfalso. apply (H g); simpl; auto.
Qed.

(* ------------------------------------------------------------------------------------------ *)
(** * the loop of genomes_by_id_subset *)

Lemma subset_F2 : forall l i gs ks,
  subset_loop i l = (gs, ks) ->
  Forall2 (fun g k => i <= k /\ nth_error l (k - i) = Some (Some g)) gs ks.
Proof.
  induction l as [|o r IH]; intros i gs ks H; simpl in H.
  - inversion H; subst. constructor.
  - destruct (subset_loop (S i) r) as [gs' ks'] eqn:E.
    specialize (IH (S i) gs' ks' E).
    assert (F : Forall2 (fun g k => i <= k /\ nth_error (o :: r) (k - i) = Some (Some g)) gs' ks').
    { eapply Forall2_imp; [|exact IH]. intros g k [H1 H2]. split; [lia|].
      replace (k - i) with (S (k - S i)) by lia. exact H2. }
    destruct o as [g|]; inversion H; subst; [|assumption].
    constructor; [|assumption]. split; [lia|]. rewrite Nat.sub_diag. reflexivity.
Qed.

Lemma subset_complete : forall l i gs ks k g,
  subset_loop i l = (gs, ks) -> nth_error l k = Some (Some g) -> In (g, i + k) (combine gs ks).
Proof.
  induction l as [|o r IH]; intros i gs ks k g H Hk; simpl in H.
  - destruct k; discriminate.
  - destruct (subset_loop (S i) r) as [gs' ks'] eqn:E.
    destruct k as [|k]; simpl in Hk.
    + inversion Hk; subst. inversion H; subst. simpl. left. f_equal. lia.
    + specialize (IH (S i) gs' ks' k g E Hk).
      replace (i + S k) with (S i + k) by lia.
      destruct o; inversion H; subst; simpl; auto.
Qed.

Lemma subset_sorted : forall l i gs ks,
  subset_loop i l = (gs, ks) -> StronglySorted lt ks /\ Forall (fun k => i <= k) ks.
Proof.
  induction l as [|o r IH]; intros i gs ks H; simpl in H.
  - inversion H; subst. split; constructor.
  - destruct (subset_loop (S i) r) as [gs' ks'] eqn:E.
    destruct (IH (S i) gs' ks' E) as [S1 F1].
    assert (F2 : Forall (fun k => i <= k) ks').
    { eapply Forall_impl; [|exact F1]. simpl. intros; lia. }
    destruct o; inversion H; subst.
    + split; constructor; auto.
    + auto.
Qed.

(** what a successful [genomes_by_id_subset] returns *)
Definition looked_up (a : attr) (gs : list genome) (ids : list idv) (g : genome) (k : nat) : Prop :=
  exists i, nth_error ids k = Some i /\ dict_get (map_ids_to_genomes a gs) (Some i) = Some g.

Lemma subset_ok : forall a gs ids genomes idxs,
  genomes_by_id_subset a gs ids = Ok (genomes, idxs) ->
  (forall g, In g gs -> get_id a g <> None) /\
  Forall2 (looked_up a gs ids) genomes idxs /\
  StronglySorted lt idxs /\
  (forall k g, looked_up a gs ids g k -> In (g, k) (combine genomes idxs)).
Proof.
  intros a gs ids genomes idxs H. unfold genomes_by_id_subset, genomes_by_id in H.
  destruct (Nat.ltb 0 (count_missing a gs)) eqn:C; [discriminate|].
  apply Nat.ltb_ge in C. assert (C0 : count_missing a gs = 0) by lia.
  inversion H as [H1]. clear H.
  set (d := map_ids_to_genomes a gs) in *.
  split; [apply count_missing_zero; assumption|].
  split; [|split].
  - apply subset_F2 in H1. eapply Forall2_imp; [|exact H1].
    intros g k [_ Hk]. rewrite Nat.sub_0_r in Hk.
    rewrite nth_error_map in Hk. destruct (nth_error ids k) as [i|] eqn:E; simpl in Hk; [|discriminate].
    exists i. split; [exact E|]. inversion Hk. reflexivity.
  - apply subset_sorted in H1. tauto.
  - intros k g [i [Hi Hd]].
    apply (subset_complete _ 0 genomes idxs k g H1).
    rewrite nth_error_map, Hi. simpl. fold d in Hd. rewrite Hd. reflexivity.
Qed.

Lemma looked_up_aligned : forall a gs ids genomes idxs,
  Forall2 (looked_up a gs ids) genomes idxs ->
  aligned a ids genomes idxs /\ incl genomes gs.
Proof.
  intros a gs ids genomes idxs F. split.
  - eapply Forall2_imp; [|exact F]. intros g k [i [Hi Hd]].
    apply lookup_sound in Hd. exists i. tauto.
  - intros g Hg. destruct (Forall2_In_l _ _ _ _ _ _ F Hg) as [k [_ [i [_ Hd]]]].
    apply lookup_sound in Hd. tauto.
Qed.

Lemma StronglySorted_lt_NoDup : forall l, StronglySorted lt l -> NoDup l.
Proof.
  induction l as [|x l IH]; intro H; [constructor|].
  apply StronglySorted_inv in H. destruct H as [H1 H2]. constructor; [|auto].
  intro Hin. rewrite Forall_forall in H2. specialize (H2 x Hin). lia.
Qed.

(* ------------------------------------------------------------------------------------------ *)
(** * positions and occurrences *)

Lemma filter_nil_iff : forall A (p : A -> bool) l, (forall x, In x l -> p x = false) -> filter p l = [].
Proof.
  intros A p l H. induction l as [|x l IH]; simpl; [reflexivity|].
  rewrite (H x) by (simpl; auto). apply IH. intros y Hy. apply H. simpl. auto.
Qed.

(** an element satisfying [p] at a position that is the only one satisfying [p] *)
Lemma filter_unique : forall A (p : A -> bool) l k x,
  nth_error l k = Some x -> p x = true ->
  (forall k' y, nth_error l k' = Some y -> p y = true -> k' = k) ->
  filter p l = [x].
Proof.
  intros A p. induction l as [|e r IH]; intros k x Hk Hp Hu; [destruct k; discriminate|].
  destruct k as [|k]; simpl in Hk.
  - inversion Hk; subst. simpl. rewrite Hp. f_equal. apply filter_nil_iff.
    intros y Hy. destruct (p y) eqn:E; [|reflexivity].
    destruct (In_nth_error _ _ Hy) as [k' Hk']. specialize (Hu (S k') y Hk' E). discriminate.
  - simpl. destruct (p e) eqn:E.
    + specialize (Hu 0 e eq_refl E). discriminate.
    + apply (IH k x Hk Hp). intros k' y Hk' Hy. specialize (Hu (S k') y Hk' Hy). lia.
Qed.

Lemma occ_pos_In : forall i ids, occ i ids > 0 -> In i ids.
Proof.
  intros i ids H. unfold occ in H. destruct (filter (idv_eqb i) ids) as [|x l] eqn:E; [simpl in H; lia|].
  assert (In x (filter (idv_eqb i) ids)) as X by (rewrite E; simpl; auto).
  apply filter_In in X. destruct X as [X1 X2]. apply idv_eqb_eq in X2. subst. assumption.
Qed.

Lemma occ_zero_notin : forall i ids, occ i ids = 0 -> ~ In i ids.
Proof.
  intros i ids H Hin. unfold occ in H. apply length_zero_iff_nil in H.
  assert (In i (filter (idv_eqb i) ids)) as X by (apply filter_In; split; [assumption | apply idv_eqb_refl]).
  rewrite H in X. inversion X.
Qed.

Lemma occ_one_unique : forall i ids k k',
  occ i ids = 1 -> nth_error ids k = Some i -> nth_error ids k' = Some i -> k = k'.
Proof.
  intros i. induction ids as [|x r IH]; intros k k' H Hk Hk'; [destruct k; discriminate|].
  unfold occ in H. simpl in H. destruct (idv_eqb i x) eqn:E.
  - simpl in H. assert (Z0 : occ i r = 0) by (unfold occ; lia).
    apply occ_zero_notin in Z0.
    destruct k as [|k]; destruct k' as [|k']; simpl in *; auto;
      exfalso; apply Z0; eapply nth_error_In; eauto.
  - apply idv_eqb_neq in E.
    destruct k as [|k]; simpl in Hk; [inversion Hk; congruence|].
    destruct k' as [|k']; simpl in Hk'; [inversion Hk'; congruence|].
    f_equal. apply IH; auto.
Qed.

Lemma unique_pos_occ : forall i ids k,
  nth_error ids k = Some i -> (forall k', nth_error ids k' = Some i -> k' = k) -> occ i ids = 1.
Proof.
  intros i ids k Hk Hu. unfold occ.
  rewrite (filter_unique _ (idv_eqb i) ids k i Hk (idv_eqb_refl i)); [reflexivity|].
  intros k' y Hk' Hy. apply idv_eqb_eq in Hy. subst. auto.
Qed.

Lemma Forall2_NoDup : forall A B (R : A -> B -> Prop) l l',
  Forall2 R l l' -> NoDup l' -> (forall x y y', In x l -> R x y -> R x y' -> y = y') -> NoDup l.
Proof.
  intros A B R l l' F. induction F as [|x y l l' Hxy F IH]; intros ND Hf; [constructor|].
  inversion ND as [|? ? Hn Hd]; subst. constructor.
  - intro Hin. destruct (Forall2_In_l _ _ _ _ _ _ F Hin) as [y' [Hc Hr]].
    assert (y = y') by (eapply Hf; eauto; simpl; auto). subst.
    apply in_combine_r in Hc. contradiction.
  - apply IH; [assumption|]. intros a b b' Ha. apply Hf. simpl. auto.
Qed.

(* ------------------------------------------------------------------------------------------ *)
(** * the constructor *)

Lemma init_orig_inv : forall gs meta ids genomes idxs,
  init_orig gs meta ids = Ok (genomes, idxs) ->
  exists a, meta = Some (Known a) /\ genomes_by_id_subset a gs ids = Ok (genomes, idxs) /\
            length genomes = length gs.
Proof.
  intros gs meta ids genomes idxs H. unfold init_orig in H.
  destruct meta as [[a|]|]; simpl in H; try discriminate.
  destruct (genomes_by_id_subset a gs ids) as [[g' k']|e] eqn:E; [|discriminate].
  destruct (Nat.eqb (length g') (length gs)) eqn:L; simpl in H; [|discriminate].
  inversion H; subst. apply Nat.eqb_eq in L. exists a. auto.
Qed.

Lemma init_fixed_inv : forall gs meta ids genomes idxs,
  init_fixed gs meta ids = Ok (genomes, idxs) ->
  exists a, meta = Some (Known a) /\ genomes_by_id_subset a gs ids = Ok (genomes, idxs) /\
            NoDup genomes /\ length genomes = length gs.
Proof.
  intros gs meta ids genomes idxs H. unfold init_fixed in H.
  destruct meta as [[a|]|]; simpl in H; try discriminate.
  destruct (genomes_by_id_subset a gs ids) as [[g' k']|e] eqn:E; [|discriminate].
  destruct (has_dup g') eqn:D; [discriminate|].
  destruct (Nat.eqb (length g') (length gs)) eqn:L; simpl in H; [|discriminate].
  inversion H; subst. apply Nat.eqb_eq in L. apply has_dup_NoDup in D. exists a. auto.
Qed.

(** alignment holds for the constructor as found, too *)
Lemma C04_alignment_orig_l : forall gs meta ids genomes idxs,
  init_orig gs meta ids = Ok (genomes, idxs) ->
  exists a, meta = Some (Known a) /\ aligned a ids genomes idxs /\ incl genomes gs /\
            length genomes = length gs /\ StronglySorted lt idxs.
Proof.
  intros gs meta ids genomes idxs H. apply init_orig_inv in H. destruct H as [a [Hm [Hs Hl]]].
  apply subset_ok in Hs. destruct Hs as [_ [F [S _]]].
  apply looked_up_aligned in F. exists a. tauto.
Qed.

Lemma C04_alignment_l : forall gs meta ids genomes idxs,
  init_fixed gs meta ids = Ok (genomes, idxs) ->
  exists a, meta = Some (Known a) /\ aligned a ids genomes idxs /\ Permutation genomes gs /\
            StronglySorted lt idxs.
Proof.
  intros gs meta ids genomes idxs H. apply init_fixed_inv in H. destruct H as [a [Hm [Hs [ND Hl]]]].
  apply subset_ok in Hs. destruct Hs as [_ [F [S _]]].
  apply looked_up_aligned in F. destruct F as [F I]. exists a. repeat split; auto.
  apply NoDup_Permutation_bis; auto. lia.
Qed.

(** with the repaired constructor the position paired with a genome is the only position of the
    file that carries the genome's identifier *)
Lemma fixed_unique_pos : forall a gs ids genomes idxs g k,
  genomes_by_id_subset a gs ids = Ok (genomes, idxs) -> NoDup genomes ->
  In (g, k) (combine genomes idxs) ->
  exists i, get_id a g = Some i /\ nth_error ids k = Some i /\
            forall k', nth_error ids k' = Some i -> k' = k.
Proof.
  intros a gs ids genomes idxs g k Hs ND Hc.
  apply subset_ok in Hs. destruct Hs as [_ [F [_ C]]].
  destruct (Forall2_combine _ _ _ _ _ _ _ F Hc) as [i [Hi Hd]].
  exists i. destruct (lookup_sound _ _ _ _ Hd) as [_ Hid]. repeat split; auto.
  intros k' Hk'. assert (In (g, k') (combine genomes idxs)) as X by (apply C; exists i; auto).
  eapply combine_NoDup_fun; eauto.
Qed.

Lemma C04_every_genome_has_one_l : forall gs meta ids genomes idxs,
  init_fixed gs meta ids = Ok (genomes, idxs) ->
  exists a, meta = Some (Known a) /\
    forall g, In g gs ->
      exists i k, get_id a g = Some i /\ In (g, k) (combine genomes idxs) /\
                  nth_error ids k = Some i /\ (forall k', nth_error ids k' = Some i -> k' = k) /\
                  occ i ids = 1.
Proof.
  intros gs meta ids genomes idxs H.
  destruct (C04_alignment_l _ _ _ _ _ H) as [a [Hm [_ [P _]]]].
  apply init_fixed_inv in H. destruct H as [a' [Hm' [Hs [ND Hl]]]].
  assert (a' = a) by congruence. subst a'.
  exists a. split; [assumption|]. intros g Hg.
  assert (In g genomes) as Hg' by (eapply Permutation_in; [apply Permutation_sym; exact P | exact Hg]).
  pose proof Hs as Hs'. apply subset_ok in Hs'. destruct Hs' as [_ [F _]].
  destruct (Forall2_In_l _ _ _ _ _ _ F Hg') as [k [Hc _]].
  destruct (fixed_unique_pos _ _ _ _ _ _ _ Hs ND Hc) as [i [H1 [H2 H3]]].
  exists i, k. repeat split; auto. eapply unique_pos_occ; eauto.
Qed.

(** ... hence loading fails whenever the property says it must *)
Lemma C04_fails_when_incomplete_l : forall gs meta ids,
  (meta = None \/ meta = Some Unknown \/
   exists a g, meta = Some (Known a) /\ In g gs /\
               (get_id a g = None \/ (forall i, get_id a g = Some i -> ~ In i ids) \/
                (forall i, get_id a g = Some i -> occ i ids <> 1))) ->
  exists e, init_fixed gs meta ids = Error e.
Proof.
  intros gs meta ids H.
  destruct (init_fixed gs meta ids) as [[genomes idxs]|e] eqn:E; [|eauto]. exfalso.
  destruct (C04_every_genome_has_one_l _ _ _ _ _ E) as [a [Hm Hall]].
  destruct H as [H|[H|[a' [g [H1 [H2 H3]]]]]]; try congruence.
  assert (a' = a) by congruence. subst a'.
  destruct (Hall g H2) as [i [k [G1 [G2 [G3 [G4 G5]]]]]].
  destruct H3 as [H3|[H3|H3]].
  - congruence.
  - apply (H3 i G1). eapply nth_error_In; eauto.
  - apply (H3 i G1). assumption.
Qed.

(** success is equivalent to the specification [complete] *)
Lemma complete_of_loaded : forall gs a ids genomes idxs,
  init_fixed gs (Some (Known a)) ids = Ok (genomes, idxs) -> complete a gs ids.
Proof.
  intros gs a ids genomes idxs H.
  destruct (C04_every_genome_has_one_l _ _ _ _ _ H) as [a' [Hm Hall]].
  assert (a' = a) by congruence. subst a'.
  destruct (C04_alignment_l _ _ _ _ _ H) as [a' [Hm' [_ [P _]]]].
  apply init_fixed_inv in H. destruct H as [a'' [Hm'' [Hs [ND Hl]]]].
  assert (a'' = a) by congruence. subst a''.
  split.
  - intros g Hg. destruct (Hall g Hg) as [i [k [G1 [_ [_ [_ G5]]]]]]. eauto.
  - apply NoDup_map_inj_in.
    + eapply Permutation_NoDup; eauto.
    + intros x y Hx Hy Exy.
      destruct (Hall x Hx) as [ix [kx [X1 [X2 [X3 _]]]]].
      destruct (Hall y Hy) as [iy [ky [Y1 [Y2 [Y3 _]]]]].
      apply subset_ok in Hs. destruct Hs as [_ [F _]].
      destruct (Forall2_combine _ _ _ _ _ _ _ F X2) as [ix' [X4 X5]].
      destruct (Forall2_combine _ _ _ _ _ _ _ F Y2) as [iy' [Y4 Y5]].
      assert (ix' = iy') by congruence. congruence.
Qed.

Lemma loaded_of_complete : forall gs a ids,
  NoDup gs -> complete a gs ids -> exists r, init_fixed gs (Some (Known a)) ids = Ok r.
Proof.
  intros gs a ids NDg [Hall NDi].
  assert (M : count_missing a gs = 0).
  { apply count_missing_zero_inv. intros g Hg. destruct (Hall g Hg) as [i [Hi _]]. congruence. }
  unfold init_fixed. simpl.
  destruct (genomes_by_id_subset a gs ids) as [[genomes idxs]|e] eqn:E.
  2:{ unfold genomes_by_id_subset, genomes_by_id in E. rewrite M in E. simpl in E.
      destruct (subset_loop 0 _); discriminate. }
  pose proof E as E'. apply subset_ok in E'. destruct E' as [_ [F [S C]]].
  destruct (looked_up_aligned _ _ _ _ _ F) as [_ I].
  assert (ND : NoDup genomes).
  { eapply Forall2_NoDup; [exact F | apply StronglySorted_lt_NoDup; exact S |].
    intros x k k' Hx [i [Hi Hd]] [i' [Hi' Hd']].
    destruct (lookup_sound _ _ _ _ Hd) as [Hin Hid].
    destruct (lookup_sound _ _ _ _ Hd') as [_ Hid'].
    assert (i' = i) by congruence. subst i'.
    destruct (Hall x Hin) as [j [Hj Ho]]. assert (j = i) by congruence. subst j.
    eapply occ_one_unique; eauto. }
  assert (L : length genomes = length gs).
  { apply Nat.le_antisymm.
    - apply NoDup_incl_length; assumption.
    - apply NoDup_incl_length; [assumption|].
      intros g Hg. destruct (Hall g Hg) as [i [Hi Ho]].
      assert (In i ids) as Hin by (apply occ_pos_In; lia).
      destruct (In_nth_error _ _ Hin) as [k Hk].
      assert (looked_up a gs ids g k) as LU.
      { exists i. split; [assumption|]. rewrite <- Hi. apply lookup_unique; assumption. }
      apply C in LU. eapply in_combine_l; eauto. }
  apply has_dup_NoDup in ND. rewrite ND. rewrite L, Nat.eqb_refl. simpl. eauto.
Qed.

Lemma C04_success_iff_l : forall gs a ids,
  NoDup gs -> ((exists r, init_fixed gs (Some (Known a)) ids = Ok r) <-> complete a gs ids).
Proof.
  intros gs a ids ND. split.
  - intros [[genomes idxs] H]. eapply complete_of_loaded; eauto.
  - apply loaded_of_complete; assumption.
Qed.

Lemma occ_perm : forall i l l', Permutation l l' -> occ i l = occ i l'.
Proof.
  intros i l l' P. unfold occ. induction P; simpl; auto.
  - destruct (idv_eqb i x); simpl; auto.
  - destruct (idv_eqb i x), (idv_eqb i y); simpl; auto.
  - congruence.
Qed.

(** whether loading succeeds does not depend on the order of the signatures in the file, nor on
    signatures stored under identifiers of no genome *)
Lemma C04_success_order_padding_l : forall gs a ids ids',
  NoDup gs -> (forall g i, In g gs -> get_id a g = Some i -> occ i ids = occ i ids') ->
  ((exists r, init_fixed gs (Some (Known a)) ids = Ok r) <->
   (exists r, init_fixed gs (Some (Known a)) ids' = Ok r)).
Proof.
  intros gs a ids ids' ND H. rewrite !C04_success_iff_l by assumption.
  unfold complete. split; intros [H1 H2]; (split; [|assumption]); intros g Hg;
    destruct (H1 g Hg) as [i [Hi Ho]]; exists i; (split; [assumption|]);
    specialize (H g i Hg Hi); congruence.
Qed.

Lemma C04_success_perm_l : forall gs a ids ids',
  NoDup gs -> Permutation ids ids' ->
  ((exists r, init_fixed gs (Some (Known a)) ids = Ok r) <->
   (exists r, init_fixed gs (Some (Known a)) ids' = Ok r)).
Proof.
  intros gs a ids ids' ND P. apply C04_success_order_padding_l; [assumption|].
  intros. apply occ_perm. assumption.
Qed.

(** [completeb] decides [complete] *)
Lemma mem_oid_In : forall x l, mem_oid x l = true <-> In x l.
Proof.
  intros x l. induction l as [|y r IH]; simpl; [split; [discriminate|tauto]|].
  rewrite orb_true_iff, IH, oid_eqb_eq. split; intros [H|H]; auto.
Qed.

Lemma distinct_oids_NoDup : forall l, distinct_oids l = true <-> NoDup l.
Proof.
  induction l as [|x r IH]; simpl; [split; [constructor|reflexivity]|].
  rewrite andb_true_iff, negb_true_iff, IH. split.
  - intros [H1 H2]. constructor; [|assumption]. intro H. apply mem_oid_In in H. congruence.
  - intro H. inversion H as [|? ? Hn Hr]; subst. split; [|assumption].
    destruct (mem_oid x r) eqn:E; [apply mem_oid_In in E; contradiction|reflexivity].
Qed.

Lemma completeb_complete : forall a gs ids, completeb a gs ids = true <-> complete a gs ids.
Proof.
  intros a gs ids. unfold completeb, complete.
  rewrite andb_true_iff, distinct_oids_NoDup, forallb_forall. split; intros [H1 H2]; (split; [|assumption]).
  - intros g Hg. specialize (H1 g Hg). destruct (get_id a g) as [i|]; [|discriminate].
    apply Nat.eqb_eq in H1. eauto.
  - intros g Hg. destruct (H1 g Hg) as [i [Hi Ho]]. rewrite Hi. apply Nat.eqb_eq. assumption.
Qed.

(** the constructor as found agrees with the repaired one when identifiers are unique in the file *)
Lemma C04_orig_agrees_l : forall gs meta ids,
  NoDup ids -> init_orig gs meta ids = init_fixed gs meta ids.
Proof.
  intros gs meta ids ND. unfold init_orig, init_fixed.
  destruct meta as [[a|]|]; simpl; try reflexivity.
  destruct (genomes_by_id_subset a gs ids) as [[genomes idxs]|e] eqn:E; [|reflexivity].
  pose proof E as E'. apply subset_ok in E'. destruct E' as [_ [F [S C]]].
  assert (NDg : NoDup genomes).
  { eapply Forall2_NoDup; [exact F | apply StronglySorted_lt_NoDup; exact S |].
    intros x k k' Hx [i [Hi Hd]] [i' [Hi' Hd']].
    destruct (lookup_sound _ _ _ _ Hd) as [_ Hid].
    destruct (lookup_sound _ _ _ _ Hd') as [_ Hid'].
    assert (i' = i) by congruence. subst i'.
    rewrite NoDup_nth_error in ND. apply ND; [|congruence].
    apply nth_error_Some. congruence. }
  apply has_dup_NoDup in NDg. rewrite NDg. reflexivity.
Qed.

(** REFUTED for the constructor as found: a signature file that repeats an identifier hides a
    missing genome.  Genome set {a, b} (attribute key), file identifiers [a; a]: the database loads,
    [genomes] holds a twice, b has no signature. *)
Definition wit_a : genome := mkGenome 1 (Some (IStr [97%Z])) None None None.
Definition wit_b : genome := mkGenome 2 (Some (IStr [98%Z])) None None None.
Definition wit_ids : list idv := [IStr [97%Z]; IStr [97%Z]].

Lemma C04_completeness_orig_refuted_l :
  exists gs meta ids genomes idxs g,
    init_orig gs meta ids = Ok (genomes, idxs) /\ In g gs /\ ~ In g genomes /\
    (forall i, get_id AKey g = Some i -> ~ In i ids) /\
    meta = Some (Known AKey) /\ genomes = [wit_a; wit_a] /\
    (exists e, init_fixed gs meta ids = Error e).
Proof.
  exists [wit_a; wit_b], (Some (Known AKey)), wit_ids, [wit_a; wit_a], [0; 1], wit_b.
  repeat split.
  - simpl. auto.
  - simpl. intros [H|[H|H]]; try discriminate; assumption.
  - intros i Hi Hin. simpl in Hi. inversion Hi; subst. simpl in Hin.
    destruct Hin as [H|[H|H]]; try discriminate; assumption.
  - eexists. vm_compute. reflexivity.
Qed.

(* ------------------------------------------------------------------------------------------ *)
(** * each genome is described by its own signature *)

Lemma C04_own_signature_l : forall S (file : sigfile S) gs meta genomes idxs,
  init_fixed gs meta (map fst file) = Ok (genomes, idxs) ->
  exists a, meta = Some (Known a) /\
    Forall2 (fun g k => exists s, nth_error (map snd file) k = Some s /\ own_signature a file g s)
            genomes idxs.
Proof.
  intros S file gs meta genomes idxs H.
  apply init_fixed_inv in H. destruct H as [a [Hm [Hs [ND Hl]]]].
  exists a. split; [assumption|].
  pose proof Hs as Hs'. apply subset_ok in Hs'. destruct Hs' as [_ [F _]].
  assert (G : forall g k, In (g, k) (combine genomes idxs) ->
              exists s, nth_error (map snd file) k = Some s /\ own_signature a file g s).
  { intros g k Hc. destruct (fixed_unique_pos _ _ _ _ _ _ _ Hs ND Hc) as [i [H1 [H2 H3]]].
    rewrite nth_error_map in H2. destruct (nth_error file k) as [[i0 s]|] eqn:E; simpl in H2; [|discriminate].
    inversion H2; subst i0. exists s. split.
    - rewrite nth_error_map, E. reflexivity.
    - exists i. split; [assumption|]. unfold sigs_with.
      apply (filter_unique _ _ file k (i, s) E); [simpl; apply idv_eqb_refl|].
      intros k' [i' s'] Hk' Hp. simpl in Hp. apply idv_eqb_eq in Hp. subst i'.
      apply H3. rewrite nth_error_map, Hk'. reflexivity. }
  clear Hs ND Hl. induction F as [|g k genomes idxs Hgk F IH]; constructor.
  - apply G. simpl. auto.
  - apply IH. intros g' k' Hc. apply G. simpl. auto.
Qed.

(** [sigs_with] -- hence [own_signature] -- ignores the file order and signatures stored under
    other identifiers *)
Lemma sigs_with_perm : forall S i (f f' : sigfile S),
  Permutation f f' -> Permutation (sigs_with i f) (sigs_with i f').
Proof.
  intros S i f f' P. unfold sigs_with. induction P; simpl.
  - constructor.
  - destruct (idv_eqb i (fst x)); auto.
  - destruct (idv_eqb i (fst x)), (idv_eqb i (fst y)); auto. apply perm_swap.
  - eapply perm_trans; eauto.
Qed.

Lemma C04_own_signature_perm_l : forall S a (f f' : sigfile S) g s,
  Permutation f f' -> own_signature a f g s -> own_signature a f' g s.
Proof.
  intros S a f f' g s P [i [Hi Hs]]. exists i. split; [assumption|].
  pose proof (sigs_with_perm S i f f' P) as Q. rewrite Hs in Q.
  apply Permutation_length_1_inv in Q. assumption.
Qed.

Lemma C04_own_signature_padding_l : forall S a (f extra1 extra2 : sigfile S) g s,
  (forall i e, get_id a g = Some i -> In e (extra1 ++ extra2) -> fst e <> i) ->
  own_signature a f g s -> own_signature a (extra1 ++ f ++ extra2) g s.
Proof.
  intros S a f e1 e2 g s Hex [i [Hi Hs]]. exists i. split; [assumption|].
  unfold sigs_with in *. rewrite !filter_app, Hs.
  rewrite (filter_nil_iff _ _ e1), (filter_nil_iff _ _ e2); [reflexivity| |].
  - intros x Hx. apply idv_eqb_neq. intro Eq. apply (Hex i x Hi); [apply in_or_app; auto | auto].
  - intros x Hx. apply idv_eqb_neq. intro Eq. apply (Hex i x Hi); [apply in_or_app; auto | auto].
Qed.

(* ------------------------------------------------------------------------------------------ *)
(** * the chunk loop of jaccarddist_matrix *)

Lemma chunks_total : forall A size fuel (l : list A),
  0 < size -> length l <= fuel ->
  exists c, chunks_fuel fuel size l = Some c /\ concat c = l.
Proof.
  intros A size. induction fuel as [|f IH]; intros l Hs Hl.
  - destruct l; [|simpl in Hl; lia]. exists []. auto.
  - destruct l as [|x r]; [exists []; auto|].
    cbn [chunks_fuel].
    destruct (IH (skipn size (x :: r)) Hs) as [c [Hc Hcc]].
    { rewrite skipn_length. cbn [length] in *. lia. }
    rewrite Hc. exists (firstn size (x :: r) :: c). split; [reflexivity|].
    cbn [concat]. rewrite Hcc. apply firstn_skipn.
Qed.

Lemma all_some_app : forall A (l1 l2 : list (option A)) r,
  all_some (l1 ++ l2) = Some r ->
  exists r1 r2, all_some l1 = Some r1 /\ all_some l2 = Some r2 /\ r = r1 ++ r2.
Proof.
  intros A. induction l1 as [|o l1 IH]; intros l2 r H; simpl in *.
  - exists [], r. auto.
  - destruct o as [x|]; [|discriminate].
    destruct (all_some (l1 ++ l2)) as [r'|] eqn:E; [|discriminate].
    inversion H; subst. destruct (IH l2 r' E) as [r1 [r2 [H1 [H2 H3]]]].
    rewrite H1. exists (x :: r1), r2. subst. auto.
Qed.

Lemma getitem_concat : forall S (refs : list S) slices col,
  getitem refs (concat slices) = Some col ->
  exists chunks, all_some (map (getitem refs) slices) = Some chunks /\ concat chunks = col.
Proof.
  intros S refs. induction slices as [|sl slices IH]; intros col H; simpl in *.
  - unfold getitem in H. simpl in H. inversion H. exists []. auto.
  - unfold getitem in H. rewrite map_app in H.
    destruct (all_some_app _ _ _ _ H) as [r1 [r2 [H1 [H2 H3]]]].
    destruct (IH r2 H2) as [chunks [Hc Hcc]].
    fold (getitem refs sl) in H1. rewrite H1, Hc. exists (r1 :: chunks). simpl. subst. auto.
Qed.

(** for every admissible chunk size the matrix is the unchunked one: column j of every row is the
    distance to refs[idxs[j]] *)
Lemma C04_matrix_l : forall Q S D (dist : Q -> S -> D) queries refs idxs csize col,
  (csize = None \/ exists n, csize = Some (Datatypes.S n)) ->
  getitem refs idxs = Some col ->
  jaccarddist_matrix dist queries refs idxs csize = MOk (map (fun q => map (dist q) col) queries).
Proof.
  intros Q S D dist queries refs idxs csize col Hc Hg. unfold jaccarddist_matrix.
  assert (X : exists slices, ref_slices csize idxs = MOk slices /\ concat slices = idxs).
  { destruct Hc as [Hc|[n Hc]]; subst; simpl.
    - exists [idxs]. simpl. rewrite app_nil_r. auto.
    - destruct (chunks_total _ (Datatypes.S n) (length idxs) idxs) as [c [H1 H2]]; [lia|lia|].
      rewrite H1. eauto. }
  destruct X as [slices [H1 H2]]. rewrite H1.
  rewrite <- H2 in Hg. destruct (getitem_concat _ _ _ _ Hg) as [chunks [H3 H4]].
  rewrite H3. f_equal. apply map_ext. intro q. rewrite <- concat_map. congruence.
Qed.

Lemma aligned_getitem : forall S (refs : list S) (P : genome -> S -> Prop) genomes idxs,
  Forall2 (fun g k => exists s, nth_error refs k = Some s /\ P g s) genomes idxs ->
  exists col, getitem refs idxs = Some col /\ Forall2 P genomes col.
Proof.
  intros S refs P genomes idxs F. induction F as [|g k genomes idxs [s [H1 H2]] F [col [IH1 IH2]]].
  - exists []. split; [reflexivity|constructor].
  - exists (s :: col). split; [|constructor; assumption].
    unfold getitem in *. simpl. rewrite H1, IH1. reflexivity.
Qed.

(** end to end: every distance reported for a genome is computed from that genome's own signature *)
Lemma C04_distances_l : forall Q S D (dist : Q -> S -> D) (file : sigfile S) gs meta genomes idxs queries csize,
  init_fixed gs meta (map fst file) = Ok (genomes, idxs) ->
  (csize = None \/ exists n, csize = Some (Datatypes.S n)) ->
  exists a col,
    meta = Some (Known a) /\
    jaccarddist_matrix dist queries (map snd file) idxs csize
      = MOk (map (fun q => map (dist q) col) queries) /\
    Forall2 (own_signature a file) genomes col /\ Permutation genomes gs.
Proof.
  intros Q S D dist file gs meta genomes idxs queries csize H Hc.
  destruct (C04_alignment_l _ _ _ _ _ H) as [a [Hm [_ [P _]]]].
  destruct (C04_own_signature_l _ _ _ _ _ _ H) as [a' [Hm' F]].
  assert (a' = a) by congruence. subst a'.
  destruct (aligned_getitem _ _ _ _ _ F) as [col [H1 H2]].
  exists a, col. repeat split; auto. apply C04_matrix_l; assumption.
Qed.

(* ------------------------------------------------------------------------------------------ *)
(** * PurePath.suffix and locate_files *)

Lemma rfind_app : forall l1 l2 i acc,
  rfind_dot (l1 ++ l2) i acc = rfind_dot l2 (i + length l1) (rfind_dot l1 i acc).
Proof.
  induction l1 as [|c l1 IH]; intros l2 i acc; simpl.
  - rewrite Nat.add_0_r. reflexivity.
  - rewrite IH. f_equal. lia.
Qed.

Lemma rfind_nodot : forall l i acc, ~ In dot l -> rfind_dot l i acc = acc.
Proof.
  induction l as [|c l IH]; intros i acc H; simpl; [reflexivity|].
  destruct (Z.eqb c dot) eqn:E.
  - apply Z.eqb_eq in E. exfalso. apply H. simpl. auto.
  - apply IH. intro X. apply H. simpl. auto.
Qed.

Lemma rfind_bound : forall l i acc k,
  rfind_dot l i acc = Some k -> acc = Some k \/ (i <= k < i + length l).
Proof.
  induction l as [|c l IH]; intros i acc k H; simpl in *; [auto|].
  apply IH in H. destruct H as [H|H]; [|right; lia].
  destruct (Z.eqb c dot); [inversion H; right; lia | auto].
Qed.

(** a name has extension [.e] (e non-empty, without dot) iff it is a non-empty stem followed by it *)
Lemma C04_suffix_spec_l : forall e n,
  e <> [] -> ~ In dot e -> (suffix n = dot :: e <-> has_ext (dot :: e) n).
Proof.
  intros e n He Hd. split.
  - unfold suffix. intro H. destruct (rfind_dot n 0 None) as [i|] eqn:R; [|discriminate].
    destruct (Nat.ltb 0 i && Nat.ltb (S i) (length n)) eqn:C; [|discriminate].
    apply andb_true_iff in C. destruct C as [C1 C2]. apply Nat.ltb_lt in C1. apply Nat.ltb_lt in C2.
    exists (firstn i n). split.
    + intro X. apply (f_equal (@length Z)) in X. rewrite firstn_length in X. simpl in X. lia.
    + rewrite <- H. symmetry. apply firstn_skipn.
  - intros [stem [Hs Hn]]. subst n. unfold suffix.
    rewrite rfind_app. cbn [rfind_dot]. rewrite Z.eqb_refl, rfind_nodot by assumption.
    cbn [Nat.add].
    assert (L1 : 0 < length stem) by (destruct stem; [congruence | simpl; lia]).
    assert (L2 : 0 < length e) by (destruct e; [congruence | simpl; lia]).
    replace (Nat.ltb 0 (length stem)) with true by (symmetry; apply Nat.ltb_lt; lia).
    replace (Nat.ltb (S (length stem)) (length (stem ++ dot :: e))) with true
      by (symmetry; apply Nat.ltb_lt; rewrite app_length; simpl; lia).
    cbn [andb]. rewrite skipn_app, skipn_all, Nat.sub_diag. reflexivity.
Qed.

Ltac nodot := unfold dot; simpl; let X := fresh "X" in intro X; repeat (destruct X as [X|X]; [discriminate X|]); exact X.

Lemma C04_genome_name_l : forall n,
  is_genome_name n = true <-> has_ext ext_gdb n \/ has_ext ext_db n.
Proof.
  intro n. unfold is_genome_name. rewrite orb_true_iff, !zs_eqb_eq.
  unfold ext_gdb, ext_db. fold dot.
  rewrite (C04_suffix_spec_l [103; 100; 98]%Z n) by (discriminate || nodot).
  rewrite (C04_suffix_spec_l [100; 98]%Z n) by (discriminate || nodot).
  tauto.
Qed.

Lemma C04_sig_name_l : forall n,
  is_sig_name n = true <-> has_ext ext_gs n \/ has_ext ext_h5 n.
Proof.
  intro n. unfold is_sig_name. rewrite orb_true_iff, !zs_eqb_eq.
  unfold ext_gs, ext_h5. fold dot.
  rewrite (C04_suffix_spec_l [103; 115]%Z n) by (discriminate || nodot).
  rewrite (C04_suffix_spec_l [104; 53]%Z n) by (discriminate || nodot).
  tauto.
Qed.

Lemma mem_name_In : forall n l, mem_name n l = true <-> In n l.
Proof.
  intros n l. induction l as [|x r IH]; simpl; [split; [discriminate|tauto]|].
  rewrite orb_true_iff, IH, zs_eqb_eq. split; intros [H|H]; auto.
Qed.

Lemma dedup_In : forall x l, In x (dedup l) <-> In x l.
Proof.
  intros x l. induction l as [|y r IH]; simpl; [tauto|].
  destruct (mem_name y r) eqn:E.
  - rewrite IH. split; [auto|]. intros [H|H]; [subst; apply mem_name_In; assumption | assumption].
  - simpl. rewrite IH. tauto.
Qed.

Lemma dedup_NoDup : forall l, NoDup (dedup l).
Proof.
  induction l as [|y r IH]; simpl; [constructor|].
  destruct (mem_name y r) eqn:E; [assumption|]. constructor; [|assumption].
  rewrite dedup_In. intro H. apply mem_name_In in H. congruence.
Qed.

Lemma matches_single : forall p listing g,
  matches p listing = [g] <-> exactly_one p listing g.
Proof.
  intros p listing g. unfold matches, exactly_one. split.
  - intro H.
    assert (X : forall x, In x (filter p listing) <-> x = g).
    { intro x. rewrite <- dedup_In, H. simpl. split; [intros [A|A]; [auto|tauto] | auto]. }
    assert (In g (filter p listing)) as G by (apply X; reflexivity).
    apply filter_In in G. destruct G as [G1 G2]. repeat split; auto.
    intros x Hx Hp. apply X. apply filter_In. auto.
  - intros [H1 [H2 H3]].
    assert (X : forall x, In x (dedup (filter p listing)) <-> x = g).
    { intro x. rewrite dedup_In, filter_In. split; [intros [A B]; auto | intro; subst; auto]. }
    pose proof (dedup_NoDup (filter p listing)) as ND.
    destruct (dedup (filter p listing)) as [|a [|b r]].
    + exfalso. apply (X g). reflexivity.
    + f_equal. apply X. simpl. auto.
    + exfalso. assert (a = g) by (apply X; simpl; auto). assert (b = g) by (apply X; simpl; auto).
      subst. inversion ND as [|? ? Hn _]. apply Hn. simpl. auto.
Qed.

(** locate_files succeeds iff exactly one entry is a genome file and exactly one a signature file,
    and then returns them *)
Lemma C04_locate_l : forall listing g s,
  locate_files listing = Ok (g, s) <->
  exactly_one is_genome_name listing g /\ exactly_one is_sig_name listing s.
Proof.
  intros listing g s. rewrite <- !matches_single. unfold locate_files. split.
  - intro H. destruct (matches is_genome_name listing) as [|g' [|? ?]]; try discriminate.
    destruct (matches is_sig_name listing) as [|s' [|? ?]]; try discriminate.
    inversion H; subst. auto.
  - intros [H1 H2]. rewrite H1, H2. reflexivity.
Qed.

Lemma C04_locate_fails_l : forall listing,
  (exists e, locate_files listing = Error e) <->
  ~ (exists g s, exactly_one is_genome_name listing g /\ exactly_one is_sig_name listing s).
Proof.
  intros listing. split.
  - intros [e He] [g [s H]]. apply C04_locate_l in H. congruence.
  - intro H. destruct (locate_files listing) as [[g s]|e] eqn:E; [|eauto].
    exfalso. apply H. exists g, s. apply C04_locate_l. assumption.
Qed.

(** load_from_dir yields a database only through exactly one genome file and one signature file,
    both openable as such, and the constructor *)
Lemma C04_load_from_dir_l : forall init dir gs meta ids r,
  load_from_dir init dir gs meta ids = Ok r ->
  exists g s, exactly_one is_genome_name (map fst dir) g /\ exactly_one is_sig_name (map fst dir) s /\
              content_of g dir = CGenomeDb /\ content_of s dir = CSigFile /\ init gs meta ids = Ok r.
Proof.
  intros init dir gs meta ids r H. unfold load_from_dir in H.
  destruct (locate_files (map fst dir)) as [[g s]|e] eqn:E; [|discriminate].
  apply C04_locate_l in E. destruct E as [E1 E2].
  destruct (content_of g dir) eqn:Cg; simpl in H; try discriminate.
  destruct (content_of s dir) eqn:Cs; simpl in H; try discriminate.
  exists g, s. auto.
Qed.

(* ------------------------------------------------------------------------------------------ *)
(** * the hypotheses are satisfiable: a permuted, padded file *)

Definition ex_g1 : genome := mkGenome 1 (Some (IStr [97%Z])) None None (Some (IInt 11)).
Definition ex_g2 : genome := mkGenome 2 (Some (IStr [98%Z])) None None (Some (IInt 22)).
Definition ex_file : sigfile Z := [(IInt 99, 900%Z); (IInt 22, 200%Z); (IInt 5, 500%Z); (IInt 11, 100%Z)].

Example ex_load :
  init_fixed [ex_g1; ex_g2] (Some (Known ANcbi)) (map fst ex_file) = Ok ([ex_g2; ex_g1], [1; 3]) /\
  init_orig [ex_g1; ex_g2] (Some (Known ANcbi)) (map fst ex_file) = Ok ([ex_g2; ex_g1], [1; 3]) /\
  jaccarddist_matrix (fun q s => (q + s)%Z) [1000%Z; 2000%Z] (map snd ex_file) [1; 3] (Some 1)
    = MOk [[1200; 1100]; [2200; 2100]]%Z /\
  completeb ANcbi [ex_g1; ex_g2] (map fst ex_file) = true /\
  (exists e, init_fixed [ex_g1; ex_g2] (Some (Known AGenbank)) (map fst ex_file) = Error e) /\
  (exists e, init_fixed [ex_g1; ex_g2] (Some (Known AKey)) (map fst ex_file) = Error e) /\
  (exists e, init_fixed [ex_g1; ex_g2] None (map fst ex_file) = Error e).
Proof. vm_compute. repeat split; eexists; reflexivity. Qed.

Example ex_locate :
  let n (s : list Z) := s in
  (* "a.gdb" "x.tar.gs" "y.GS" ".h5" "b.db." *)
  locate_files [[97; 46; 103; 100; 98]; [120; 46; 116; 97; 114; 46; 103; 115]; [121; 46; 71; 83];
                [46; 104; 53]; [98; 46; 100; 98; 46]]%Z
  = Ok ([97; 46; 103; 100; 98], [120; 46; 116; 97; 114; 46; 103; 115])%Z.
Proof. vm_compute. reflexivity. Qed.
