(** C01: from the search loops to the set of prefix-anchored k-mers on both strands. *)
From Coq Require Import ZArith List Bool Lia ZifyBool ZifyNat.
From GV Require Import Base.CSem Gen.KmersPyx Spec.Kmers Spec.C01 Model.C01
  Proofs.KmersEnc Proofs.KmersRc Proofs.KmersDec Proofs.KmersSpec Proofs.C01Defs Proofs.C01Strand.
Import ListNotations.
Open Scope Z_scope.

Definition opt_list (o : option Z) : list Z := match o with Some v => [v] | None => [] end.

Lemma fwd_kmers_alt k p s :
  fwd_kmers k p s =
  flat_map (fun q => if occurs_at k p s q then opt_list (spec_encode (slice s (q + length p) k)) else [])
           (seq 0 (S (length s))).
Proof. unfold fwd_kmers, opt_list. reflexivity. Qed.

(** indices produced for the forward matches, in order *)
Lemma kmer_indices_fwd k p s l :
  bytes s -> acgt p ->
  kmer_indices (Z.of_nat k) p s
    (map (fun q => (Z.of_nat q, false)) (filter (fwd_ok (haystack s) p k) l)) =
  Ok (flat_map (fun q => if occurs_at k p s q
                         then opt_list (spec_encode (slice s (q + length p) k)) else []) l).
Proof.
  intros Hs Hp. induction l as [|q l IH]; [reflexivity|].
  cbn [filter flat_map]. rewrite fwd_ok_occurs by assumption.
  destruct (occurs_at k p s q) eqn:E; [|exact IH].
  cbn [map kmer_indices]. rewrite IH.
  unfold occurs_at in E. apply andb_true_iff in E. destruct E as [E _].
  rewrite kmer_index_fwd by (try assumption; lia).
  destruct (spec_encode _); reflexivity.
Qed.

(** indices produced for the reverse matches, in order of find-location *)
Lemma kmer_indices_rev k p prc s l :
  bytes s -> (1 <= length p)%nat -> length prc = length p ->
  kmer_indices (Z.of_nat k) p s
    (map (fun loc => (Z.of_nat loc + mv_len prc - 1, true)) (filter (rev_ok (haystack s) prc k) l)) =
  Ok (flat_map (fun loc => if rev_ok (haystack s) prc k loc
                           then opt_list (spec_encode (spec_revcomp (slice s (loc - k) k))) else []) l).
Proof.
  intros Hs Hp Hl. induction l as [|loc l IH]; [reflexivity|].
  cbn [filter flat_map].
  destruct (rev_ok (haystack s) prc k loc) eqn:E; [|exact IH].
  cbn [map kmer_indices]. rewrite IH.
  unfold rev_ok in E. rewrite haystack_length in E.
  assert (mv_len prc = mv_len p) as -> by (unfold mv_len; lia).
  rewrite kmer_index_rev by (try assumption; lia).
  destruct (spec_encode _); reflexivity.
Qed.

(** the reverse matches of [s] are the forward occurrences in the reverse complement of [s] *)
Lemma rev_ok_occurs s p k loc :
  acgt p -> (k <= loc)%nat -> (loc + length p <= length s)%nat ->
  rev_ok (haystack s) (spec_revcomp p) k loc = occurs_at k p (spec_revcomp s) (length s - loc - length p).
Proof.
  intros Hp Hk Hl. unfold rev_ok, occurs_at.
  rewrite haystack_length, spec_revcomp_length, spec_revcomp_length.
  assert ((k <=? loc)%nat = true) as -> by lia.
  assert ((loc + length p <=? length s)%nat = true) as -> by lia.
  assert ((length s - loc - length p + length p + k <=? length s)%nat = true) as -> by lia.
  rewrite !andb_true_r. cbn [andb].
  rewrite (occb_haystack s (spec_revcomp p) loc (revcomp_acgt p Hp)).
  rewrite spec_revcomp_length.
  rewrite slice_revcomp by lia.
  replace (length s - (length s - loc - length p) - length p)%nat with loc by lia.
  rewrite map_upper_revcomp.
  apply eq_true_iff_eq. rewrite !eq_list_iff. split.
  - intros H. rewrite H. apply spec_revcomp_invol.
  - intros H. apply (f_equal spec_revcomp) in H. rewrite spec_revcomp_invol in H. exact H.
Qed.

Lemma In_opt_list v o : In v (opt_list o) <-> o = Some v.
Proof. destruct o; simpl; split; intros H; try tauto; try discriminate; [destruct H as [->|[]]; reflexivity | inversion H; auto]. Qed.

Lemma rev_kmers_In k p s v :
  acgt p -> (1 <= length p)%nat ->
  In v (flat_map (fun loc => if rev_ok (haystack s) (spec_revcomp p) k loc
                             then opt_list (spec_encode (spec_revcomp (slice s (loc - k) k))) else [])
                 (seq 0 (S (length s))))
  <-> In v (fwd_kmers k p (spec_revcomp s)).
Proof.
  intros Hp Hp1. rewrite fwd_kmers_alt, !in_flat_map. rewrite spec_revcomp_length. split.
  - intros [loc [Hin H]]. destruct (rev_ok (haystack s) (spec_revcomp p) k loc) eqn:E; [|destruct H].
    assert (E' := E). unfold rev_ok in E'. rewrite haystack_length, spec_revcomp_length in E'.
    exists (length s - loc - length p)%nat. split; [apply in_seq; lia|].
    rewrite <- rev_ok_occurs by (try assumption; lia). rewrite E.
    rewrite slice_revcomp by lia.
    replace (length s - (length s - loc - length p + length p) - k)%nat with (loc - k)%nat by lia.
    exact H.
  - intros [q [Hin H]]. destruct (occurs_at k p (spec_revcomp s) q) eqn:E; [|destruct H].
    assert (E' := E). unfold occurs_at in E'. rewrite spec_revcomp_length in E'.
    exists (length s - q - length p)%nat. split; [apply in_seq; lia|].
    rewrite rev_ok_occurs by (try assumption; lia).
    replace (length s - (length s - q - length p) - length p)%nat with q by lia. rewrite E.
    rewrite slice_revcomp in H by lia.
    replace (length s - q - length p - k)%nat with (length s - (q + length p) - k)%nat by lia.
    exact H.
Qed.
