(** C17 -- labels survive the Newick text: what the writer (as modelled) writes for a str label is
    read back unchanged by the reader, for every string; integer ids break the command as found and
    not the repaired one. *)
From Coq Require Import ZArith List Bool Lia.
From GV Require Import Model.C17Labels.
Import ListNotations.
Open Scope Z_scope.

Lemma unq_ok_39 : unq_ok 39 = false. Proof. reflexivity. Qed.
Lemma unq_ok_58 : unq_ok 58 = false. Proof. reflexivity. Qed.

Lemma read_quoted_qq t :
  read_quoted (39 :: 39 :: t) = match read_quoted t with Some (l, r) => Some (39 :: l, r) | None => None end.
Proof. reflexivity. Qed.

Lemma read_quoted_other c t : (c =? 39) = false ->
  read_quoted (c :: t) = match read_quoted t with Some (l, r) => Some (c :: l, r) | None => None end.
Proof. intros E. cbn [read_quoted]. rewrite E. reflexivity. Qed.

Lemma read_quoted_roundtrip s r :
  read_quoted (flat_map dbl s ++ 39 :: 58 :: r) = Some (s, 58 :: r).
Proof.
  induction s as [|c s IH]; [reflexivity|].
  cbn [flat_map]. unfold dbl at 1. destruct (c =? 39) eqn:E.
  - apply Z.eqb_eq in E. subst c. cbn [app]. rewrite read_quoted_qq, IH. reflexivity.
  - cbn [app]. rewrite (read_quoted_other c _ E), IH. reflexivity.
Qed.

Lemma read_unquoted_roundtrip s r :
  forallb unq_ok s = true -> read_unquoted (s ++ 58 :: r) = (s, 58 :: r).
Proof.
  induction s as [|c s IH]; intros Hs.
  - reflexivity.
  - cbn [forallb] in Hs. apply andb_prop in Hs. destruct Hs as [Hc Hs].
    cbn [app read_unquoted]. rewrite Hc, (IH Hs). reflexivity.
Qed.

(** every str label: written, then read back, is the same string and the text after it is kept
    (a colon always follows a label: every node is written with its branch length) *)
Lemma C17_label_roundtrip_l s r :
  exists w, write_label (IdStr s) = Some w /\ read_label (w ++ 58 :: r) = Some (s, 58 :: r).
Proof.
  destruct s as [|c s].
  - exists []. split; reflexivity.
  - cbn [write_label]. destruct (forallb unq_ok (c :: s)) eqn:E.
    + exists (c :: s). split; [reflexivity|].
      pose proof E as E'. cbn [forallb] in E'. apply andb_prop in E'. destruct E' as [Hc _].
      assert (Hq : (c =? 39) = false).
      { destruct (c =? 39) eqn:Q; [|reflexivity]. apply Z.eqb_eq in Q. subst c. discriminate. }
      cbn [app read_label]. rewrite Hq.
      change (c :: s ++ 58 :: r) with ((c :: s) ++ 58 :: r).
      rewrite read_unquoted_roundtrip by exact E. reflexivity.
    + exists (quote (c :: s)). split; [reflexivity|].
      unfold quote. change (read_label ((39 :: flat_map dbl (c :: s) ++ [39]) ++ 58 :: r))
        with (read_quoted ((flat_map dbl (c :: s) ++ [39]) ++ 58 :: r)).
      rewrite <- app_assoc. apply (read_quoted_roundtrip (c :: s) r).
Qed.

(** the command as found: an integer id other than 0 makes the writer raise; 0 is written as the
    empty label *)
Lemma C17_labels_orig_refuted_l :
  exists ids, (exists x, In x (tree_labels_orig ids) /\ write_label x = None) /\
              (exists x, In x (tree_labels_orig ids) /\ x = IdInt 0 /\ write_label x = Some []).
Proof.
  exists [IdInt 3; IdInt 0; IdInt 12]. split.
  - exists (IdInt 3). split; [left; reflexivity|reflexivity].
  - exists (IdInt 0). split; [right; left; reflexivity|]. split; reflexivity.
Qed.

(** the repaired command: every label handed on is the str of the id, and it survives the text *)
Lemma C17_labels_fixed_l (pystr : pyid -> list Z) ids :
  map (fun x => match x with IdStr s => Some s | IdInt _ => None end) (tree_labels_fixed pystr ids)
    = map (fun x => Some (pystr x)) ids /\
  forall x, In x (tree_labels_fixed pystr ids) ->
    exists s, x = IdStr s /\
      forall r, exists w, write_label x = Some w /\ read_label (w ++ 58 :: r) = Some (s, 58 :: r).
Proof.
  split.
  - unfold tree_labels_fixed. rewrite map_map. reflexivity.
  - intros x Hx. unfold tree_labels_fixed in Hx. apply in_map_iff in Hx.
    destruct Hx as [y [Hy _]]. exists (pystr y). split; [symmetry; exact Hy|].
    intros r. subst x. apply C17_label_roundtrip_l.
Qed.

Example ex_label_plain : write_label (IdStr [65; 49; 95; 66]) = Some [65; 49; 95; 66]. Proof. reflexivity. Qed.
Example ex_label_quote : write_label (IdStr [105; 116; 39; 115; 32; 120])
                         = Some [39; 105; 116; 39; 39; 115; 32; 120; 39]. Proof. reflexivity. Qed.
