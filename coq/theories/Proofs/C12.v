(** Lemmas for C12 (signature files round-trip; foreign files are refused) over Model/Store.v. *)
From Coq Require Import ZArith List Bool Lia ZifyBool.
From GV Require Import Model.Store.
Import ListNotations.
Open Scope Z_scope.

(** ---- well-formed collections ------------------------------------------------------------- *)

Definition ovalid (o : option str) : bool := match o with Some s => valid_str s | None => true end.

Definition wf_meta (m : meta) : bool :=
  ovalid m.(m_id) && ovalid m.(m_name) && ovalid m.(m_id_attr) && ovalid m.(m_version) &&
  ovalid m.(m_desc) && ovalid m.(m_extra).

(** what every [KmerSpec] / [SignaturesMeta] / id array that h5py can store satisfies:
    k >= 1, prefix over ACGT, strings without NUL and surrogates, one id per signature *)
Definition wf_coll (c : coll) : bool :=
  (1 <=? c.(c_k)) && forallb is_nuc c.(c_prefix) && wf_meta c.(c_meta) &&
  dset_ok (ids_dset c.(c_ids)) && Nat.eqb (ids_len c.(c_ids)) (length c.(c_sigs)).

(** the object [load] is expected to build for collection [c] *)
Definition loaded_of (c : coll) : loaded :=
  {| l_k := c.(c_k); l_prefix := c.(c_prefix); l_meta := c.(c_meta); l_ids := c.(c_ids);
     l_ty := c.(c_ty); l_values := concat c.(c_sigs); l_bounds := bounds_of c.(c_sigs) |}.

(** ---- generic list facts --------------------------------------------------------------------- *)

Lemma run_app : forall a b st, run (a ++ b) st = sbind (run a st) (run b).
Proof.
  induction a as [|o a IH]; intros b st; cbn [app run]; [reflexivity|].
  destruct (run_op o st) as [st'|e]; cbn [sbind]; [apply IH|reflexivity].
Qed.

Lemma zlen_app : forall {A} (a b : list A), zlen (a ++ b) = zlen a + zlen b.
Proof. intros; unfold zlen; rewrite app_length; lia. Qed.

Lemma zlen_nonneg : forall {A} (a : list A), 0 <= zlen a.
Proof. intros; unfold zlen; lia. Qed.

Lemma zlen_repeat : forall (x : Z) n, zlen (repeat x n) = Z.of_nat n.
Proof. intros; unfold zlen; now rewrite repeat_length. Qed.

Lemma to_nat_zlen : forall {A} (a : list A), Z.to_nat (zlen a) = length a.
Proof. intros; unfold zlen; apply Nat2Z.id. Qed.

Lemma aget_aset_same : forall {V} k (v : V) l, aget k (aset k v l) = Some v.
Proof.
  induction l as [|[k' v'] l IH]; cbn [aset aget].
  - now rewrite Z.eqb_refl.
  - destruct (k =? k') eqn:E; cbn [aget]; rewrite ?Z.eqb_refl, ?E; auto.
Qed.

Lemma aset_aset : forall {V} k (v v' : V) l, aset k v' (aset k v l) = aset k v' l.
Proof.
  induction l as [|[k' w] l IH]; cbn [aset].
  - now rewrite Z.eqb_refl.
  - destruct (k =? k') eqn:E; cbn [aset]; rewrite ?Z.eqb_refl, ?E; [reflexivity|now rewrite IH].
Qed.

Lemma aset_same : forall {V} k (v : V) l, aget k l = Some v -> aset k v l = l.
Proof.
  induction l as [|[k' w] l IH]; cbn [aset aget]; intros H; [discriminate|].
  destruct (k =? k') eqn:E.
  - apply Z.eqb_eq in E; subst; now inversion H.
  - now rewrite IH.
Qed.

(** ---- strings ---------------------------------------------------------------------------------- *)

Lemma is_nuc_valid : forall z, is_nuc z = true -> valid_cp z = true.
Proof. intros z; unfold is_nuc, valid_cp; lia. Qed.

Lemma nucs_valid : forall s, forallb is_nuc s = true -> valid_str s = true.
Proof.
  induction s as [|z s IH]; cbn [forallb valid_str]; [reflexivity|].
  intros H; apply andb_true_iff in H as [H1 H2].
  rewrite (is_nuc_valid _ H1); cbn [andb]; now apply IH.
Qed.

Lemma nuc_upper_id : forall z, is_nuc z = true -> nuc_upper z = z.
Proof.
  intros z H; unfold is_nuc in H; unfold nuc_upper.
  destruct ((z =? 97) || (z =? 99) || (z =? 103) || (z =? 116)) eqn:E; [lia|reflexivity].
Qed.

Lemma kmerspec_ok : forall k p, 1 <= k -> forallb is_nuc p = true -> kmerspec k p = SOk (k, p).
Proof.
  intros k p Hk Hp; unfold kmerspec.
  destruct (k <? 1) eqn:E; [lia|].
  assert (Hm : map nuc_upper p = p).
  { clear -Hp; induction p as [|z p IH]; cbn [map forallb] in *; [reflexivity|].
    apply andb_true_iff in Hp as [H1 H2]; now rewrite (nuc_upper_id _ H1), IH. }
  now rewrite Hm, Hp.
Qed.

Lemma o2a_ok : forall o, ovalid o = true -> aval_ok (o2a o) = true.
Proof. now intros [s|]. Qed.

Lemma get_meta_o2a : forall k o at_ ds,
  aget k at_ = Some (o2a o) -> get_meta k {| attrs := at_; dsets := ds |} = SOk o.
Proof. intros k o at_ ds H; unfold get_meta; cbn [attrs]; rewrite H; now destruct o. Qed.

(** ---- bounds ------------------------------------------------------------------------------------ *)

Lemma cumsum_length : forall sz acc, length (cumsum_from acc sz) = length sz.
Proof. induction sz as [|s sz IH]; intros acc; cbn [cumsum_from length]; [reflexivity|now rewrite IH]. Qed.

Lemma bounds_length : forall sigs, zlen (bounds_of sigs) = zlen sigs + 1.
Proof.
  intros; unfold bounds_of, zlen, sizes_of; cbn [length]; rewrite cumsum_length, map_length; lia.
Qed.

(** [bounds[i]] is the number of values before signature [i] *)
Lemma bounds_nth : forall sigs acc i, (i <= length sigs)%nat ->
  nth i (acc :: cumsum_from acc (sizes_of sigs)) 0 = acc + zlen (concat (firstn i sigs)).
Proof.
  induction sigs as [|s sigs IH]; intros acc i Hi.
  - cbn [length] in Hi; assert (i = 0%nat) by lia; subst; cbn; unfold zlen; cbn; lia.
  - destruct i as [|i].
    + cbn; unfold zlen; cbn; lia.
    + cbn [sizes_of map cumsum_from firstn concat]; cbn [length] in Hi; fold (sizes_of sigs).
      change (nth (S i) (acc :: (acc + zlen s) :: cumsum_from (acc + zlen s) (sizes_of sigs)) 0)
        with (nth i ((acc + zlen s) :: cumsum_from (acc + zlen s) (sizes_of sigs)) 0).
      rewrite IH by lia; rewrite zlen_app; lia.
Qed.

Lemma bounds_last : forall sigs acc,
  last (acc :: cumsum_from acc (sizes_of sigs)) 0 = acc + zlen (concat sigs).
Proof.
  induction sigs as [|s sigs IH]; intros acc.
  - cbn; unfold zlen; cbn; lia.
  - cbn [sizes_of map cumsum_from concat]; fold (sizes_of sigs).
    change (last (acc :: (acc + zlen s) :: cumsum_from (acc + zlen s) (sizes_of sigs)) 0)
      with (last ((acc + zlen s) :: cumsum_from (acc + zlen s) (sizes_of sigs)) 0).
    rewrite IH, zlen_app; lia.
Qed.

Lemma total_of_eq : forall sigs, total_of sigs = zlen (concat sigs).
Proof. intros; unfold total_of, bounds_of; rewrite bounds_last; lia. Qed.

(** ---- slices ------------------------------------------------------------------------------------- *)

Lemma slice_mid : forall (pre s post : list Z),
  slice (pre ++ s ++ post) (zlen pre) (zlen pre + zlen s) = s.
Proof.
  intros; unfold slice.
  replace (zlen pre + zlen s - zlen pre) with (zlen s) by lia.
  rewrite !to_nat_zlen, skipn_app, skipn_all, Nat.sub_diag; cbn [app skipn].
  rewrite firstn_app, firstn_all, Nat.sub_diag; cbn [firstn]; now rewrite app_nil_r.
Qed.

Lemma concat_split3 : forall (sigs : list (list Z)) i, (i < length sigs)%nat ->
  concat sigs = concat (firstn i sigs) ++ nth i sigs [] ++ concat (skipn (S i) sigs).
Proof.
  induction sigs as [|s sigs IH]; intros i Hi; cbn [length] in Hi; [lia|].
  destruct i as [|i].
  - reflexivity.
  - cbn [firstn concat nth skipn]; rewrite <- app_assoc; f_equal; apply IH; lia.
Qed.

Lemma firstn_S_concat : forall (sigs : list (list Z)) i, (i < length sigs)%nat ->
  concat (firstn (S i) sigs) = concat (firstn i sigs) ++ nth i sigs [].
Proof.
  induction sigs as [|s sigs IH]; intros i Hi; cbn [length] in Hi; [lia|].
  destruct i as [|i].
  - cbn; now rewrite app_nil_r.
  - change (firstn (S (S i)) (s :: sigs)) with (s :: firstn (S i) sigs).
    cbn [firstn concat nth]; rewrite <- app_assoc; f_equal; apply IH; lia.
Qed.

Lemma zlen_concat_firstn_le : forall (sigs : list (list Z)) i,
  zlen (concat (firstn i sigs)) <= zlen (concat sigs).
Proof.
  intros sigs i; rewrite <- (firstn_skipn i sigs) at 2; rewrite concat_app, zlen_app.
  pose proof (zlen_nonneg (concat (skipn i sigs))); lia.
Qed.

(** ---- indexing the loaded object --------------------------------------------------------------- *)

Lemma getitem_int_loaded : forall c i, (i < length c.(c_sigs))%nat ->
  getitem_int (loaded_of c) (Z.of_nat i) = SOk (nth i c.(c_sigs) []).
Proof.
  intros c i Hi; unfold getitem_int, l_len, bounds_ok; cbn [loaded_of l_bounds l_values].
  rewrite bounds_length.
  assert (E1 : (Z.of_nat i <? 0) || (zlen (c_sigs c) + 1 - 1 <=? Z.of_nat i) = false) by (unfold zlen; lia).
  rewrite E1.
  replace (Z.of_nat i + 1) with (Z.of_nat (S i)) by lia; rewrite !Nat2Z.id.
  unfold bounds_of; rewrite !bounds_nth by lia.
  rewrite firstn_S_concat by lia; rewrite zlen_app.
  set (pre := concat (firstn i (c_sigs c))); set (s := nth i (c_sigs c) []).
  assert (Hle : zlen pre + zlen s <= zlen (concat (c_sigs c))).
  { subst pre s; rewrite <- zlen_app, <- firstn_S_concat by lia; apply zlen_concat_firstn_le. }
  pose proof (zlen_nonneg pre); pose proof (zlen_nonneg s).
  assert (E2 : (0 <=? 0 + zlen pre) && (0 + zlen pre <=? 0 + (zlen pre + zlen s)) &&
               (0 + (zlen pre + zlen s) <=? zlen (concat (c_sigs c))) = true) by lia.
  rewrite E2; f_equal.
  rewrite (concat_split3 (c_sigs c) i Hi); fold pre s.
  replace (0 + zlen pre) with (zlen pre) by lia.
  replace (0 + (zlen pre + zlen s)) with (zlen pre + zlen s) by lia.
  apply slice_mid.
Qed.

Lemma collect_map_ok : forall {A B} (f : A -> sres B) (g : A -> B) l,
  (forall a, In a l -> f a = SOk (g a)) -> collect (map f l) = SOk (map g l).
Proof.
  induction l as [|a l IH]; intros H; cbn [map collect]; [reflexivity|].
  rewrite (H a (or_introl eq_refl)); cbn [sbind]; rewrite IH; [reflexivity|].
  intros x Hx; apply H; now right.
Qed.

Lemma map_nth_seq_id : forall {A} (l : list A) d, map (fun i => nth i l d) (seq 0 (length l)) = l.
Proof.
  intros A l d; apply (nth_ext _ _ d d).
  - now rewrite map_length, seq_length.
  - intros n Hn; rewrite map_length, seq_length in Hn.
    rewrite (nth_indep _ _ (nth 0 l d)) by (now rewrite map_length, seq_length).
    rewrite (map_nth (fun i => nth i l d) (seq 0 (length l)) 0%nat n), seq_nth by lia; reflexivity.
Qed.

(** every index list within range yields exactly the original signatures *)
Lemma getitem_list_loaded : forall c idx, Forall (fun i => (i < length c.(c_sigs))%nat) idx ->
  getitem_list (loaded_of c) (map Z.of_nat idx) = SOk (map (fun i => nth i c.(c_sigs) []) idx).
Proof.
  intros c idx H; unfold getitem_list; rewrite map_map.
  apply (collect_map_ok (fun i => getitem_int (loaded_of c) (Z.of_nat i))).
  intros i Hi; apply getitem_int_loaded; rewrite Forall_forall in H; now apply H.
Qed.

Lemma l_len_loaded : forall c, l_len (loaded_of c) = zlen c.(c_sigs).
Proof. intros; unfold l_len; cbn [loaded_of l_bounds]; rewrite bounds_length; lia. Qed.

Lemma decode_loaded : forall c, decode (loaded_of c) = SOk c.(c_sigs).
Proof.
  intros c; unfold decode; rewrite l_len_loaded, to_nat_zlen, getitem_list_loaded.
  - now rewrite map_nth_seq_id.
  - apply Forall_forall; intros i Hi; apply in_seq in Hi; lia.
Qed.

(** ---- contiguous slices ------------------------------------------------------------------------- *)

Definition sub_sigs (sigs : list (list Z)) (start stop : nat) : list (list Z) :=
  firstn (stop - start) (skipn start sigs).

Lemma cumsum_shift : forall sz acc d,
  map (fun b => b - d) (cumsum_from acc sz) = cumsum_from (acc - d) sz.
Proof.
  induction sz as [|s sz IH]; intros acc d; cbn [cumsum_from map]; [reflexivity|].
  rewrite IH; f_equal; [lia|f_equal; lia].
Qed.

Lemma cumsum_skipn : forall sigs acc n, (n <= length sigs)%nat ->
  skipn n (acc :: cumsum_from acc (sizes_of sigs)) =
  (acc + zlen (concat (firstn n sigs))) ::
    cumsum_from (acc + zlen (concat (firstn n sigs))) (sizes_of (skipn n sigs)).
Proof.
  assert (Z0 : forall acc, acc + zlen (@nil Z) = acc) by (intros; unfold zlen; cbn; lia).
  induction sigs as [|s sigs IH]; intros acc n Hn; cbn [length] in Hn.
  - assert (n = 0%nat) by lia; subst; cbn [skipn firstn concat]; now rewrite Z0.
  - destruct n as [|n].
    + cbn [skipn firstn concat]; now rewrite Z0.
    + cbn [sizes_of map cumsum_from skipn firstn concat]; fold (sizes_of sigs).
      rewrite IH by lia; rewrite zlen_app.
      replace (acc + zlen s + zlen (concat (firstn n sigs))) with (acc + (zlen s + zlen (concat (firstn n sigs)))) by lia.
      reflexivity.
Qed.

Lemma cumsum_firstn : forall sigs acc m,
  firstn (S m) (acc :: cumsum_from acc (sizes_of sigs)) = acc :: cumsum_from acc (sizes_of (firstn m sigs)).
Proof.
  induction sigs as [|s sigs IH]; intros acc m.
  - destruct m; reflexivity.
  - destruct m as [|m].
    + reflexivity.
    + change (firstn (S (S m)) (acc :: cumsum_from acc (sizes_of (s :: sigs))))
        with (acc :: firstn (S m) ((acc + zlen s) :: cumsum_from (acc + zlen s) (sizes_of sigs))).
      rewrite IH; reflexivity.
Qed.

Lemma concat_sub : forall (sigs : list (list Z)) start stop, (start <= stop <= length sigs)%nat ->
  slice (concat sigs) (zlen (concat (firstn start sigs))) (zlen (concat (firstn stop sigs))) =
  concat (sub_sigs sigs start stop).
Proof.
  intros sigs start stop H; unfold sub_sigs.
  assert (E : firstn stop sigs = firstn start sigs ++ firstn (stop - start) (skipn start sigs)).
  { rewrite <- (firstn_skipn start sigs) at 1.
    rewrite firstn_app, firstn_length, firstn_firstn.
    replace (Nat.min stop start) with start by lia.
    replace (Nat.min start (length sigs)) with start by lia. reflexivity. }
  rewrite E, concat_app, zlen_app.
  rewrite <- (firstn_skipn start sigs) at 1.
  rewrite <- (firstn_skipn (stop - start) (skipn start sigs)) at 1.
  rewrite !concat_app.
  apply slice_mid.
Qed.

(** the fast path of [_getitem_slice] on the loaded object is the loaded object of the sub-list *)
Lemma getitem_slice_loaded : forall c start stop, (start < stop <= length c.(c_sigs))%nat ->
  getitem_slice (loaded_of c) (Z.of_nat start) (Z.of_nat stop) =
  SOk (loaded_of {| c_k := c.(c_k); c_prefix := c.(c_prefix); c_ty := c.(c_ty);
                    c_sigs := sub_sigs c.(c_sigs) start stop; c_ids := c.(c_ids); c_meta := c.(c_meta) |}).
Proof.
  intros c start stop H; unfold getitem_slice; rewrite l_len_loaded.
  assert (E1 : (0 <=? Z.of_nat start) && (Z.of_nat start <? Z.of_nat stop) &&
               (Z.of_nat stop <=? zlen (c_sigs c)) = true) by (unfold zlen; lia).
  rewrite E1; cbn [loaded_of l_bounds l_values l_k l_prefix l_meta l_ids l_ty].
  rewrite !Nat2Z.id; unfold bounds_of; rewrite !bounds_nth by lia.
  pose proof (zlen_nonneg (concat (firstn start (c_sigs c)))) as Hn.
  pose proof (zlen_concat_firstn_le (c_sigs c) stop) as Hs.
  assert (Hm : zlen (concat (firstn start (c_sigs c))) <= zlen (concat (firstn stop (c_sigs c)))).
  { assert (E0 : firstn start (c_sigs c) = firstn start (firstn stop (c_sigs c))).
    { rewrite firstn_firstn. replace (Nat.min start stop) with start by lia. reflexivity. }
    rewrite E0. apply zlen_concat_firstn_le. }
  match goal with |- (if ?b then _ else _) = _ => assert (E2 : b = true) by lia; rewrite E2 end.
  unfold loaded_of; cbn [c_k c_prefix c_ty c_sigs c_ids c_meta]; f_equal; f_equal.
  - replace (0 + zlen (concat (firstn start (c_sigs c)))) with (zlen (concat (firstn start (c_sigs c)))) by lia.
    replace (0 + zlen (concat (firstn stop (c_sigs c)))) with (zlen (concat (firstn stop (c_sigs c)))) by lia.
    apply concat_sub; lia.
  - replace (Z.to_nat (Z.of_nat stop + 1 - Z.of_nat start)) with (S (stop - start)) by lia.
    rewrite cumsum_skipn by lia.
    rewrite cumsum_firstn. cbn [map]. rewrite cumsum_shift.
    unfold bounds_of, sub_sigs.
    replace (0 + zlen (concat (firstn start (c_sigs c))) - (0 + zlen (concat (firstn start (c_sigs c))))) with 0 by lia.
    reflexivity.
Qed.

(** ---- running the write ------------------------------------------------------------------------- *)

(** the attributes of the group before the marker is written, and of the complete file (marker last) *)
Definition attrs_body (c : coll) : list (Z * aval) :=
  let m := c.(c_meta) in
  [ (1, AInt c.(c_k)); (2, AStr c.(c_prefix)); (3, o2a m.(m_id)); (4, o2a m.(m_name));
    (5, o2a m.(m_id_attr)); (6, o2a m.(m_version)); (7, o2a m.(m_desc)); (8, o2a m.(m_extra)) ].
Definition attrs_of (c : coll) : list (Z * aval) := attrs_body c ++ [(0, AInt 1)].
(** ... and of the file written in the order as found (marker first) *)
Definition attrs_of_v0 (c : coll) : list (Z * aval) := (0, AInt 1) :: attrs_body c.

Lemma wf_parts : forall c, wf_coll c = true ->
  1 <= c.(c_k) /\ forallb is_nuc c.(c_prefix) = true /\
  (ovalid c.(c_meta).(m_id) = true /\ ovalid c.(c_meta).(m_name) = true /\ ovalid c.(c_meta).(m_id_attr) = true /\
   ovalid c.(c_meta).(m_version) = true /\ ovalid c.(c_meta).(m_desc) = true /\ ovalid c.(c_meta).(m_extra) = true) /\
  dset_ok (ids_dset c.(c_ids)) = true /\ ids_len c.(c_ids) = length c.(c_sigs).
Proof.
  intros c H; unfold wf_coll, wf_meta in H.
  repeat (apply andb_true_iff in H as [H ?]).
  repeat split; try assumption; try lia; try (now apply Nat.eqb_eq).
Qed.

(** the attribute calls on a group that holds no attribute but possibly the marker ([pre] = [] or the marker) *)
Lemma run_attr_ops_from : forall c pre, wf_coll c = true -> pre = [] \/ pre = [(0, AInt 1)] ->
  run (attr_ops c) {| attrs := pre; dsets := [] |} = SOk {| attrs := pre ++ attrs_body c; dsets := [] |}.
Proof.
  intros c pre H Hpre; apply wf_parts in H as (Hk & Hp & (H1 & H2 & H3 & H4 & H5 & H6) & _ & _).
  unfold attr_ops, attrs_body; destruct Hpre; subst pre;
    cbn [run run_op aval_ok sbind attrs dsets aset Z.eqb Pos.eqb app];
    rewrite (nucs_valid _ Hp); cbn [sbind run run_op attrs dsets aset Z.eqb Pos.eqb];
    rewrite (o2a_ok _ H1); cbn [sbind run run_op attrs dsets aset Z.eqb Pos.eqb];
    rewrite (o2a_ok _ H2); cbn [sbind run run_op attrs dsets aset Z.eqb Pos.eqb];
    rewrite (o2a_ok _ H3); cbn [sbind run run_op attrs dsets aset Z.eqb Pos.eqb];
    rewrite (o2a_ok _ H4); cbn [sbind run run_op attrs dsets aset Z.eqb Pos.eqb];
    rewrite (o2a_ok _ H5); cbn [sbind run run_op attrs dsets aset Z.eqb Pos.eqb];
    rewrite (o2a_ok _ H6); cbn [sbind run run_op attrs dsets aset Z.eqb Pos.eqb];
    reflexivity.
Qed.

Lemma run_attr_ops : forall c, wf_coll c = true ->
  run (attr_ops c) empty_store = SOk {| attrs := attrs_body c; dsets := [] |}.
Proof. intros c H; apply (run_attr_ops_from c [] H); now left. Qed.

(** the per-signature loop fills a zero-initialised dataset with the concatenation *)
Lemma run_sig_writes : forall sigs pre st t,
  aget DValues st.(dsets) = Some (DInt t (pre ++ repeat 0 (length (concat sigs)))) ->
  run (sig_writes (zlen pre) sigs) st =
  SOk {| attrs := st.(attrs); dsets := aset DValues (DInt t (pre ++ concat sigs)) st.(dsets) |}.
Proof.
  induction sigs as [|s sigs IH]; intros pre st t H.
  - cbn [sig_writes run concat]; cbn [concat length repeat] in H.
    rewrite aset_same by exact H. now destruct st.
  - cbn [sig_writes run run_op]; rewrite H.
    cbn [concat] in *; rewrite app_length, repeat_app in H |- *.
    assert (E : (0 <=? zlen pre) && (zlen pre <=? zlen pre + zlen s) &&
                (zlen pre + zlen s <=? zlen (pre ++ repeat 0 (length s) ++ repeat 0 (length (concat sigs)))) &&
                (zlen s =? zlen pre + zlen s - zlen pre) = true).
    { rewrite !zlen_app, !zlen_repeat. pose proof (zlen_nonneg pre). unfold zlen in *; lia. }
    rewrite E; cbn [sbind].
    assert (S : splice (pre ++ repeat 0 (length s) ++ repeat 0 (length (concat sigs))) (zlen pre) s =
                (pre ++ s) ++ repeat 0 (length (concat sigs))).
    { unfold splice; rewrite to_nat_zlen.
      rewrite firstn_app, firstn_all, Nat.sub_diag; cbn [firstn]; rewrite app_nil_r.
      rewrite skipn_app.
      rewrite (skipn_all2 pre) by lia; cbn [app].
      replace (length pre + length s - length pre)%nat with (length s) by lia.
      rewrite skipn_app, repeat_length, Nat.sub_diag.
      rewrite (skipn_all2 (repeat 0 (length s))) by (rewrite repeat_length; lia).
      cbn [skipn app]. now rewrite <- app_assoc. }
    rewrite S.
    replace (zlen pre + zlen s) with (zlen (pre ++ s)) by (now rewrite zlen_app).
    rewrite (IH (pre ++ s) _ t); cbn [attrs dsets].
    + now rewrite aset_aset, <- app_assoc.
    + apply aget_aset_same.
Qed.

Definition dsets_whole (c : coll) : list (Z * dset) :=
  [ (0, ids_dset c.(c_ids)); (1, DInt c.(c_ty) (concat c.(c_sigs))); (2, DInt I64 (bounds_of c.(c_sigs))) ].
Definition dsets_persig (c : coll) : list (Z * dset) :=
  [ (0, ids_dset c.(c_ids)); (2, DInt I64 (bounds_of c.(c_sigs))); (1, DInt c.(c_ty) (concat c.(c_sigs))) ].
Definition dsets_of (p : wpath) (c : coll) := match p with Whole => dsets_whole c | PerSig => dsets_persig c end.

Lemma run_data_whole : forall c at_, dset_ok (ids_dset c.(c_ids)) = true ->
  run (data_ops Whole c) {| attrs := at_; dsets := [] |} = SOk {| attrs := at_; dsets := dsets_whole c |}.
Proof.
  intros c at_ H; unfold data_ops, dsets_whole; cbn [run run_op aget dsets attrs].
  rewrite H; cbn [sbind run run_op aget aset dsets attrs dset_ok Z.eqb Pos.eqb]. reflexivity.
Qed.

Lemma splice_bounds0 : forall n, splice (repeat 0 (S n)) 0 [0] = repeat 0 (S n).
Proof. intros; unfold splice; cbn. reflexivity. Qed.

Lemma splice_bounds1 : forall n cs, length cs = n -> splice (repeat 0 (S n)) 1 cs = 0 :: cs.
Proof.
  intros n cs H; unfold splice.
  change (Z.to_nat 1) with 1%nat; cbn [Nat.add firstn repeat app skipn].
  rewrite skipn_all2 by (rewrite repeat_length; lia). now rewrite app_nil_r.
Qed.

Lemma run_data_persig : forall c at_, dset_ok (ids_dset c.(c_ids)) = true ->
  run (data_ops PerSig c) {| attrs := at_; dsets := [] |} = SOk {| attrs := at_; dsets := dsets_persig c |}.
Proof.
  intros c at_ H; unfold data_ops, dsets_persig.
  set (sigs := c_sigs c).
  cbn [run run_op aget dsets attrs]; rewrite H; cbn [sbind app].
  cbn [run run_op aget aset dsets attrs Z.eqb Pos.eqb].
  pose proof (zlen_nonneg sigs) as Hn.
  destruct (zlen sigs + 1 <? 0) eqn:E0; [lia|]; cbn [sbind].
  cbn [run run_op aget aset dsets attrs Z.eqb Pos.eqb].
  replace (Z.to_nat (zlen sigs + 1)) with (S (length sigs)) by (unfold zlen; lia).
  assert (E1 : (0 <=? 0) && (0 <=? 1) && (1 <=? zlen (repeat 0 (S (length sigs)))) && (zlen [0] =? 1 - 0) = true).
  { rewrite zlen_repeat; unfold zlen; cbn [length]; lia. }
  rewrite E1; cbn [sbind]; rewrite splice_bounds0.
  cbn [run run_op aget aset dsets attrs Z.eqb Pos.eqb].
  assert (E2 : (0 <=? 1) && (1 <=? zlen sigs + 1) && (zlen sigs + 1 <=? zlen (repeat 0 (S (length sigs)))) &&
               (zlen (cumsum_from 0 (sizes_of sigs)) =? zlen sigs + 1 - 1) = true).
  { rewrite zlen_repeat; unfold zlen, sizes_of; rewrite cumsum_length, map_length; lia. }
  rewrite E2; cbn [sbind].
  rewrite splice_bounds1 by (unfold sizes_of; now rewrite cumsum_length, map_length).
  cbn [run run_op aget aset dsets attrs Z.eqb Pos.eqb].
  rewrite total_of_eq.
  pose proof (zlen_nonneg (concat sigs)) as Hc.
  destruct (zlen (concat sigs) <? 0) eqn:E3; [lia|]; cbn [sbind].
  rewrite to_nat_zlen.
  change 0 with (zlen (@nil Z)) at 3.
  rewrite (run_sig_writes sigs [] _ (c_ty c)); cbn [dsets attrs aget aset Z.eqb app]; reflexivity.
Qed.

Lemma run_body_ops : forall p c, wf_coll c = true ->
  run (body_ops p c) empty_store = SOk {| attrs := attrs_body c; dsets := dsets_of p c |}.
Proof.
  intros p c H; unfold body_ops; rewrite run_app, (run_attr_ops c H); cbn [sbind].
  apply wf_parts in H as (_ & _ & _ & Hi & _).
  destruct p; [now apply run_data_whole|now apply run_data_persig].
Qed.

Lemma run_dump_ops : forall p c, wf_coll c = true ->
  run (dump_ops p c) empty_store = SOk {| attrs := attrs_of c; dsets := dsets_of p c |}.
Proof.
  intros p c H; unfold dump_ops; rewrite run_app, (run_body_ops p c H); cbn [sbind].
  unfold attrs_of, attrs_body, marker_op; cbn [run run_op aval_ok sbind attrs dsets aset Z.eqb Pos.eqb app]. reflexivity.
Qed.

Lemma run_dump_ops_v0 : forall p c, wf_coll c = true ->
  run (dump_ops_v0 p c) empty_store = SOk {| attrs := attrs_of_v0 c; dsets := dsets_of p c |}.
Proof.
  intros p c H; unfold dump_ops_v0, body_ops, marker_op.
  cbn [run run_op aval_ok sbind attrs dsets aset empty_store].
  rewrite run_app, (run_attr_ops_from c [(0, AInt 1)] H) by (now right); cbn [sbind app].
  apply wf_parts in H as (_ & _ & _ & Hi & _). unfold attrs_of_v0.
  destruct p; [now apply run_data_whole|now apply run_data_persig].
Qed.

Lemma create_ok : forall p c, wf_coll c = true ->
  create p c = SOk {| attrs := attrs_of c; dsets := dsets_of p c |}.
Proof.
  intros p c H; unfold create; rewrite (run_dump_ops p c H).
  apply wf_parts in H as (_ & _ & _ & _ & Hl); rewrite Hl, Nat.eqb_refl; reflexivity.
Qed.

Lemma create_v0_ok : forall p c, wf_coll c = true ->
  create_v0 p c = SOk {| attrs := attrs_of_v0 c; dsets := dsets_of p c |}.
Proof.
  intros p c H; unfold create_v0; rewrite (run_dump_ops_v0 p c H).
  apply wf_parts in H as (_ & _ & _ & _ & Hl); rewrite Hl, Nat.eqb_refl; reflexivity.
Qed.

(** [load] reads the attributes by name: both attribute orders load alike *)
Lemma load_written_any : forall at_ p c, wf_coll c = true -> at_ = attrs_of c \/ at_ = attrs_of_v0 c ->
  load {| attrs := at_; dsets := dsets_of p c |} = SOk (loaded_of c).
Proof.
  intros at_ p c H Hat; apply wf_parts in H as (Hk & Hp & _).
  unfold load; destruct Hat; subst at_;
    cbn [attrs attrs_of attrs_of_v0 attrs_body app aget Z.eqb Pos.eqb];
    rewrite (kmerspec_ok _ _ Hk Hp); cbn [sbind fst snd];
    rewrite (get_meta_o2a 8 (m_extra (c_meta c))) by reflexivity; cbn [sbind];
    rewrite (get_meta_o2a 3 (m_id (c_meta c))) by reflexivity; cbn [sbind];
    rewrite (get_meta_o2a 4 (m_name (c_meta c))) by reflexivity; cbn [sbind];
    rewrite (get_meta_o2a 5 (m_id_attr (c_meta c))) by reflexivity; cbn [sbind];
    rewrite (get_meta_o2a 6 (m_version (c_meta c))) by reflexivity; cbn [sbind];
    rewrite (get_meta_o2a 7 (m_desc (c_meta c))) by reflexivity; cbn [sbind];
    unfold loaded_of; destruct c as [k pre ty sigs i m]; destruct m; cbn [c_meta c_ids c_sigs c_ty c_k c_prefix];
    destruct p; cbn; destruct i; reflexivity.
Qed.

Lemma load_written : forall p c, wf_coll c = true ->
  load {| attrs := attrs_of c; dsets := dsets_of p c |} = SOk (loaded_of c).
Proof. intros p c H; apply (load_written_any _ p c H); now left. Qed.

Lemma load_written_v0 : forall p c, wf_coll c = true ->
  load {| attrs := attrs_of_v0 c; dsets := dsets_of p c |} = SOk (loaded_of c).
Proof. intros p c H; apply (load_written_any _ p c H); now right. Qed.

(** ---- final lemmas ------------------------------------------------------------------------------- *)

Lemma marker_written : forall c, aget 0 (attrs_of c) = Some (AInt 1).
Proof. reflexivity. Qed.

Lemma C12_roundtrip_l : forall p c, wf_coll c = true ->
  exists st, create p c = SOk st /\ load_file (DHdf st) = SOk (loaded_of c) /\
             load_file_cur (DHdf st) = SOk (loaded_of c) /\ decode (loaded_of c) = SOk c.(c_sigs).
Proof.
  intros p c H; eexists; split; [apply (create_ok p c H)|].
  unfold load_file, load_file_cur; cbn [attrs]; rewrite marker_written.
  rewrite (load_written p c H); repeat split; apply decode_loaded.
Qed.

(** the order as found (marker first) round-trips as well: the two orders differ only in what an
    INTERRUPTED write leaves (C19) *)
Lemma C12_roundtrip_v0_l : forall p c, wf_coll c = true ->
  exists st, create_v0 p c = SOk st /\ load_file (DHdf st) = SOk (loaded_of c) /\
             load_file_cur (DHdf st) = SOk (loaded_of c) /\
             sbind (create_v0 p c) load = sbind (create p c) load.
Proof.
  intros p c H; eexists; split; [apply (create_v0_ok p c H)|].
  unfold load_file, load_file_cur; cbn [attrs attrs_of_v0 aget Z.eqb Pos.eqb].
  rewrite (load_written_v0 p c H); repeat split.
  rewrite (create_v0_ok p c H), (create_ok p c H); cbn [sbind].
  now rewrite (load_written_v0 p c H), (load_written p c H).
Qed.

Lemma C12_paths_agree_l : forall c, wf_coll c = true ->
  sbind (create Whole c) load = sbind (create PerSig c) load /\
  sbind (create Whole c) load = SOk (loaded_of c).
Proof.
  intros c H; rewrite !create_ok by exact H; cbn [sbind].
  now rewrite (load_written Whole c H), (load_written PerSig c H).
Qed.

Definition foreign (d : disk) : bool :=
  match d with
  | DRaw _ | DBadRoot _ => true
  | DHdf st => match aget KMarker st.(attrs) with None => true | Some _ => false end
  end.

Lemma C12_refuse_l : forall d, foreign d = true -> load_file d = SErr ESigFile.
Proof.
  intros [b|b|st]; cbn [foreign load_file].
  - intros _; now destruct (list_eqb (firstn 8 b) magic).
  - intros _; now destruct (list_eqb (firstn 8 b) magic).
  - destruct (aget 0 (attrs st)); [discriminate|reflexivity].
Qed.

Lemma C12_accept_l : forall d l, load_file d = SOk l ->
  exists st, d = DHdf st /\ aget KMarker st.(attrs) = Some (AInt 1) /\ load st = SOk l.
Proof.
  intros [b|b|st] l; cbn [load_file].
  - destruct (list_eqb (firstn 8 b) magic); discriminate.
  - destruct (list_eqb (firstn 8 b) magic); discriminate.
  - destruct (aget 0 (attrs st)) as [v|] eqn:E; [|discriminate].
    intros H; exists st; repeat split; [|exact H].
    unfold load in H; rewrite E in H.
    destruct v as [z| |]; try discriminate.
    destruct z as [|q|q]; try discriminate.
    destruct q; try discriminate. exact E.
Qed.

(** the function as it is in the repository answers OSError on a file that starts with the
    magic number but is not HDF5 (DESIGN.md 6-h) *)
Lemma C12_refuse_current_refuted_l :
  (exists d, foreign d = true /\ load_file_cur d = SErr EOS) /\
  (exists d, foreign d = true /\ load_file_cur d = SErr EKey).
Proof.
  split; [exists (DRaw (magic ++ [0; 1; 2; 3]))|exists (DBadRoot (magic ++ [0; 1; 2; 3]))];
    split; vm_compute; reflexivity.
Qed.

(** ... and exactly on those *)
Lemma C12_refuse_current_l : forall d, foreign d = true ->
  load_file_cur d = match d with
                    | DRaw b => if list_eqb (firstn 8 b) magic then SErr EOS else SErr ESigFile
                    | DBadRoot b => if list_eqb (firstn 8 b) magic then SErr EKey else SErr ESigFile
                    | DHdf _ => SErr ESigFile
                    end.
Proof.
  intros [b|b|st]; cbn [foreign load_file_cur]; [reflexivity|reflexivity|].
  destruct (aget 0 (attrs st)); [discriminate|reflexivity].
Qed.

(** JSON: [extra] is written as [json.dumps] text and read back with [json.loads] *)
Section Json.
  Variable J : Type.
  Variable dumps : J -> str.
  Variable loads : str -> option J.
  Hypothesis loads_dumps : forall j, loads (dumps j) = Some j.

  Definition read_extra (l : loaded) : sres (option J) :=
    match l.(l_meta).(m_extra) with
    | None => SOk None
    | Some t => match loads t with Some j => SOk (Some j) | None => SErr EValue end
    end.

  Definition with_extra (c : coll) (e : option J) : coll :=
    let m := c.(c_meta) in
    {| c_k := c.(c_k); c_prefix := c.(c_prefix); c_ty := c.(c_ty); c_sigs := c.(c_sigs); c_ids := c.(c_ids);
       c_meta := {| m_id := m.(m_id); m_name := m.(m_name); m_id_attr := m.(m_id_attr);
                    m_version := m.(m_version); m_desc := m.(m_desc); m_extra := option_map dumps e |} |}.

  Lemma C12_extra_l : forall p c e, wf_coll (with_extra c e) = true ->
    exists st, create p (with_extra c e) = SOk st /\
               sbind (load_file (DHdf st)) read_extra = SOk e.
  Proof.
    intros p c e H.
    destruct (C12_roundtrip_l p _ H) as (st & Hc & Hl & _).
    exists st; split; [exact Hc|]; rewrite Hl; cbn [sbind].
    unfold read_extra; cbn. destruct e as [j|]; cbn; [now rewrite loads_dumps|reflexivity].
  Qed.
End Json.

(** ---- non-vacuity --------------------------------------------------------------------------------- *)

Definition ex_meta : meta :=
  {| m_id := Some [120]; m_name := None; m_id_attr := Some []; m_version := None;
     m_desc := Some [233; 28450; 128512]; m_extra := Some [123; 125] |}.
Definition ex_coll : coll :=
  {| c_k := 3; c_prefix := [65; 84]; c_ty := U8; c_sigs := [[1; 5]; []; [7]];
     c_ids := IdStrs [[97]; [233; 28450]; []]; c_meta := ex_meta |}.

Example ex_wf : wf_coll ex_coll = true.
Proof. vm_compute; reflexivity. Qed.

Example ex_paths : sbind (create PerSig ex_coll) load = SOk (loaded_of ex_coll) /\
                   create PerSig ex_coll <> create Whole ex_coll.
Proof. split; [vm_compute; reflexivity|vm_compute; discriminate]. Qed.

Example ex_slice : sbind (getitem_slice (loaded_of ex_coll) 1 3) decode = SOk [[]; [7]].
Proof. vm_compute; reflexivity. Qed.

(** writing is refused (ValueError), not silently altered, for a string h5py cannot store *)
Example ex_nul : create Whole (with_extra _ (fun x => x) ex_coll (Some [0])) = SErr EValue.
Proof. vm_compute; reflexivity. Qed.
