(** C06, part 3: compression is recognised from the content.  The decompressor is abstract: any
    pair [gzip]/[gunzip] such that [gunzip] inverts [gzip] and [gzip]'s output starts with the
    magic number 1f 8b. *)
From Coq Require Import ZArith List Bool Lia ZifyBool.
From GV Require Import Model.C06Fasta Model.C06Gzip.
Import ListNotations.
Open Scope Z_scope.

Lemma is_gzip_magic_iff x : is_gzip_magic x = true <-> exists t, x = 31 :: 139 :: t.
Proof.
  split.
  - destruct x as [|a [|b t]]; cbn [is_gzip_magic]; try discriminate.
    intros H. apply andb_true_iff in H. destruct H as [Ha Hb].
    apply Z.eqb_eq in Ha, Hb. subst. now exists t.
  - intros [t ->]. reflexivity.
Qed.

Section Gzip.
  Variable gzip : list Z -> list Z.
  Variable gunzip : list Z -> option (list Z).
  Hypothesis gunzip_gzip : forall x, gunzip (gzip x) = Some x.
  Hypothesis gzip_magic : forall x, is_gzip_magic (gzip x) = true.

  Theorem C06_gzip_l x : open_auto gunzip (gzip x) = Some x.
  Proof. unfold open_auto. now rewrite gzip_magic, gunzip_gzip. Qed.

  Theorem C06_plain_l x : is_gzip_magic x = false -> open_auto gunzip x = Some x.
  Proof. intros H. unfold open_auto. now rewrite H. Qed.
End Gzip.

(** a FASTA text written by [render_fasta] is empty or starts with '>': never taken for gzip *)
Lemma join_lines_head e fnl c l rest : exists t, join_lines e fnl ((c :: l) :: rest) = c :: t.
Proof. cbn [join_lines]. destruct rest; [destruct fnl|]; cbn [app]; eexists; reflexivity. Qed.

Lemma render_not_magic w crlf fnl contigs : is_gzip_magic (render_fasta w crlf fnl contigs) = false.
Proof.
  unfold render_fasta. destruct contigs as [|c cs]; [reflexivity|].
  cbn [flat_map]. unfold contig_lines at 1. cbn [app].
  destruct (join_lines_head (eol crlf) fnl 62 (fst c)
              (chunks (length (snd c)) w (snd c) ++ flat_map (contig_lines w) cs)) as [t ->].
  destruct t; reflexivity.
Qed.

(** non-vacuity: the hypotheses are satisfiable (a trivial "compressor" that prepends the magic) *)
Example C06_gzip_ex :
  let gz := fun x => 31 :: 139 :: x in
  let gunz := fun x => match x with _ :: _ :: t => Some t | _ => None end in
  (forall x, gunz (gz x) = Some x) /\ (forall x, is_gzip_magic (gz x) = true) /\
  open_auto gunz (gz [62; 97; 10]) = Some [62; 97; 10] /\
  open_auto gunz [62; 97; 10] = Some [62; 97; 10] /\
  open_auto gunz [31] = Some [31] /\ open_auto gunz [31; 139] = Some [].
Proof. cbv zeta. repeat split; reflexivity. Qed.
