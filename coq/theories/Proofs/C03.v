(** C03 -- lemmas behind Props/C03.v. *)
From Coq Require Import ZArith List Bool Lia.
From GV Require Import Model.C03Classify Spec.C03Spec.
Import ListNotations.
Open Scope Z_scope.

(** * take_while / drop_while *)
Section TD.
Context {A : Type} (p : A -> bool).

Lemma tw_dw_app : forall l, take_while p l ++ drop_while p l = l.
Proof.
  induction l as [|x r IH]; cbn; [reflexivity|].
  destruct (p x); cbn; [now rewrite IH | reflexivity].
Qed.

Lemma tw_all : forall l x, In x (take_while p l) -> p x = true.
Proof.
  induction l as [|y r IH]; cbn; intros x Hx; [contradiction|].
  destruct (p y) eqn:E; cbn in Hx; [|contradiction].
  destruct Hx as [->|Hx]; auto.
Qed.

Lemma dw_head : forall l x r, drop_while p l = x :: r -> p x = false.
Proof.
  induction l as [|y r' IH]; cbn; intros x r H; [discriminate|].
  destruct (p y) eqn:E; [eauto|]. now inversion H; subst.
Qed.

(** the split at the first element failing [p] is unique *)
Lemma split_unique : forall l b s,
  l = b ++ s -> (forall x, In x b -> p x = true) ->
  (match s with [] => True | x :: _ => p x = false end) ->
  b = take_while p l /\ s = drop_while p l.
Proof.
  intros l b; revert l; induction b as [|y b IH]; intros l s -> Hb Hs; cbn.
  - destruct s as [|x s]; cbn; [auto|]. now rewrite Hs.
  - rewrite (Hb y (or_introl eq_refl)).
    destruct (IH (b ++ s) s eq_refl (fun x Hx => Hb x (or_intror Hx)) Hs) as [E1 E2].
    now rewrite <- E1, <- E2.
Qed.
End TD.

Lemma find_dw {A} (f : A -> bool) : forall l,
  find f l = hd_error (drop_while (fun x => negb (f x)) l).
Proof.
  induction l as [|x r IH]; cbn; [reflexivity|].
  destruct (f x); cbn; auto.
Qed.

(** * matching_taxon *)
Lemma matching_is_at_or_above : forall d g, matching_taxon d g = at_or_above d g.
Proof.
  unfold at_or_above. induction g as [|t up IH]; cbn; [reflexivity|].
  destruct (within d t); cbn; auto.
Qed.

Lemma lineage_split : forall d g, g = below d g ++ matching_taxon d g.
Proof. intros. rewrite matching_is_at_or_above. symmetry. apply tw_dw_app. Qed.

Lemma below_none_within : forall d g, none_within d (below d g).
Proof.
  intros d g t Ht. apply tw_all in Ht. now apply negb_true_iff in Ht.
Qed.

Lemma matching_head_within : forall d g p up, matching_taxon d g = p :: up -> within d p = true.
Proof.
  intros d g p up H. rewrite matching_is_at_or_above in H.
  apply dw_head in H. now apply negb_false_iff in H.
Qed.

Lemma matching_predicted : forall d g, hd_error (matching_taxon d g) = spec_predicted d g.
Proof. intros. rewrite matching_is_at_or_above. symmetry. apply find_dw. Qed.

Lemma within_mono : forall d d' t, d <= d' -> within d' t = true -> within d t = true.
Proof.
  unfold within. intros d d' t Hd. destruct (t_thr t); [|discriminate].
  rewrite !Z.leb_le. lia.
Qed.

Lemma matching_suffix : forall d g, exists pre, g = pre ++ matching_taxon d g.
Proof. intros. exists (below d g). apply lineage_split. Qed.

Lemma matching_mono : forall d d' g, d <= d' ->
  exists pre, matching_taxon d g = pre ++ matching_taxon d' g.
Proof.
  intros d d' g Hd. induction g as [|t up IH]; cbn.
  - now exists [].
  - destruct (within d t) eqn:E.
    + destruct (within d' t) eqn:E'.
      * now exists [].
      * destruct (matching_suffix d' up) as [pre Hp]. exists (t :: pre). cbn. now rewrite <- Hp.
    + destruct (within d' t) eqn:E'.
      * rewrite (within_mono d d' t Hd E') in E. discriminate.
      * exact IH.
Qed.

(** * reportable_taxon *)
Lemma reportable_is_dw : forall l,
  reportable_taxon l = drop_while (fun t => negb (t_report t)) l.
Proof.
  induction l as [|t up IH]; cbn; [reflexivity|].
  destruct (t_report t); cbn; auto.
Qed.

Lemma reportable_split : forall l,
  exists a, l = a ++ reportable_taxon l /\ none_report a /\
            match reportable_taxon l with [] => True | q :: _ => t_report q = true end.
Proof.
  intros l. exists (take_while (fun t => negb (t_report t)) l). rewrite reportable_is_dw.
  split; [symmetry; apply tw_dw_app|]. split.
  - intros t Ht. apply tw_all in Ht. now apply negb_true_iff in Ht.
  - destruct (drop_while _ l) as [|q r] eqn:E; [exact I|].
    apply dw_head in E. now apply negb_false_iff in E.
Qed.

Lemma reportable_report : forall d g,
  hd_error (reportable_taxon (matching_taxon d g)) = spec_report d g.
Proof.
  intros. unfold spec_report. rewrite find_dw, reportable_is_dw, matching_is_at_or_above.
  reflexivity.
Qed.

Lemma reportable_suffix_mono : forall pre s,
  exists pre', reportable_taxon (pre ++ s) = pre' ++ reportable_taxon s.
Proof.
  induction pre as [|t pre IH]; intros s; cbn.
  - now exists [].
  - destruct (t_report t).
    + destruct (reportable_split s) as [a [Ha _]]. exists (t :: pre ++ a).
      cbn. rewrite <- app_assoc. now rewrite <- Ha.
    + apply IH.
Qed.

(** * next_taxon *)

(** one structural pass equivalent to the two nested loops: [lo] is replaced at every
    threshold-bearing taxon whose threshold is exceeded *)
Fixpoint next_sfx (d : Z) (lo hi : lineage) : lineage :=
  match hi with
  | [] => lo
  | t :: up => if within d t then lo else next_sfx d (if has_thr t then hi else lo) up
  end.

Lemma no_thr_not_within : forall d t, has_thr t = false -> within d t = false.
Proof. unfold has_thr, within. intros d t. now destruct (t_thr t). Qed.

Lemma next_sfx_skip : forall d lo up, next_sfx d lo (skip_no_thr up) = next_sfx d lo up.
Proof.
  intros d lo up. induction up as [|t up IH]; cbn; [reflexivity|].
  destruct (has_thr t) eqn:E; [cbn; now rewrite E|].
  now rewrite (no_thr_not_within d t E).
Qed.

Lemma skip_length : forall l, (length (skip_no_thr l) <= length l)%nat.
Proof.
  induction l as [|t up IH]; cbn; [lia|]. destruct (has_thr t); cbn; lia.
Qed.

Lemma skip_head : forall l, match skip_no_thr l with [] => True | t :: _ => has_thr t = true end.
Proof.
  induction l as [|t up IH]; cbn; [exact I|]. destruct (has_thr t) eqn:E; [exact E|exact IH].
Qed.

(** the loop on canonical [hi] (empty or starting at a threshold-bearing taxon) *)
Lemma next_loop_sfx : forall fuel d lo hi,
  (length hi < fuel)%nat ->
  match hi with [] => True | t :: _ => has_thr t = true end ->
  next_loop fuel d lo hi = COk (next_sfx d lo hi).
Proof.
  induction fuel as [|f IH]; intros d lo hi Hf Hc; [lia|].
  destruct hi as [|t up]; cbn; [reflexivity|].
  destruct (within d t) eqn:E; [reflexivity|].
  rewrite Hc. rewrite IH.
  - now rewrite next_sfx_skip.
  - pose proof (skip_length up). cbn in Hf. lia.
  - apply skip_head.
Qed.

Lemma next_taxon_sfx : forall d g, next_taxon d g = COk (next_sfx d [] g).
Proof.
  intros. unfold next_taxon. rewrite next_loop_sfx.
  - now rewrite next_sfx_skip.
  - pose proof (skip_length g). lia.
  - apply skip_head.
Qed.

(** the original walk: the genome's own taxon is always visited *)
Lemma next_taxon_orig_sfx : forall d t up,
  next_taxon_orig d (t :: up) =
  COk (if within d t then [] else next_sfx d (t :: up) up).
Proof.
  intros. unfold next_taxon_orig.
  remember (length (t :: up)) as f eqn:Hf. cbn [next_loop].
  destruct (within d t); [reflexivity|].
  rewrite next_loop_sfx.
  - now rewrite next_sfx_skip.
  - pose proof (skip_length up). cbn in Hf. lia.
  - apply skip_head.
Qed.

Lemma next_orig_agrees : forall d t up, has_thr t = true ->
  next_taxon_orig d (t :: up) = next_taxon d (t :: up).
Proof.
  intros d t up H. rewrite next_taxon_orig_sfx, next_taxon_sfx. cbn. rewrite H.
  now destruct (within d t).
Qed.

(** declarative reading of the single pass *)
Lemma next_sfx_decl : forall d hi lo,
  (none_thr (below d hi) /\ next_sfx d lo hi = lo) \/
  (exists b1 n b2, below d hi = b1 ++ n :: b2 /\ has_thr n = true /\ none_thr b2 /\
                   next_sfx d lo hi = n :: b2 ++ matching_taxon d hi).
Proof.
  intros d hi. unfold below. induction hi as [|t up IH]; intros lo; cbn.
  - left. split; [intros t []|reflexivity].
  - destruct (within d t) eqn:E; cbn.
    + left. split; [intros x []|reflexivity].
    + destruct (IH (if has_thr t then t :: up else lo)) as [[Hn Hs]|[b1 [n [b2 [Hb [Hn [Hb2 Hs]]]]]]].
      * destruct (has_thr t) eqn:Ht.
        -- right. exists [], t, (take_while (fun t0 => negb (within d t0)) up).
           repeat split; auto. rewrite Hs. cbn. f_equal.
           change (up = below d up ++ matching_taxon d up). apply lineage_split.
        -- left. split; [|exact Hs]. intros x [<-|Hx]; auto.
      * right. exists (t :: b1), n, b2. rewrite Hb. repeat split; auto.
Qed.

Lemma last_opt_some {A} : forall (y : A) l, exists z, last_opt (y :: l) = Some z.
Proof.
  intros y l; revert y. induction l as [|x l IH]; intros y; [now exists y|].
  destruct (IH x) as [z Hz]. exists z. exact Hz.
Qed.

Lemma last_opt_cons {A} : forall (x : A) l,
  last_opt (x :: l) = match last_opt l with Some y => Some y | None => Some x end.
Proof.
  intros x l. destruct l as [|y l]; [reflexivity|].
  destruct (last_opt_some y l) as [z Hz].
  change (last_opt (x :: y :: l)) with (last_opt (y :: l)). now rewrite Hz.
Qed.

Lemma next_sfx_spec : forall d hi lo,
  hd_error (next_sfx d lo hi) =
  match spec_next d hi with Some x => Some x | None => hd_error lo end.
Proof.
  intros d hi. unfold spec_next, below. induction hi as [|t up IH]; intros lo; cbn -[last_opt].
  - reflexivity.
  - destruct (within d t) eqn:E; cbn -[last_opt]; [reflexivity|].
    rewrite IH. destruct (has_thr t) eqn:Ht.
    + rewrite last_opt_cons.
      now destruct (last_opt _).
    + reflexivity.
Qed.

Lemma next_taxon_spec : forall d g nx, next_taxon d g = COk nx -> hd_error nx = spec_next d g.
Proof.
  intros d g nx H. rewrite next_taxon_sfx in H. inversion H; subst.
  rewrite next_sfx_spec. now destruct (spec_next d g).
Qed.

(** * argmin *)
Lemma argmin_from_spec : forall ds pre bi b,
  nth_error pre bi = Some b -> (forall x, In x pre -> b <= x) ->
  (forall j x, (j < bi)%nat -> nth_error pre j = Some x -> b < x) ->
  exists m, nth_error (pre ++ ds) (argmin_from bi b (length pre) ds) = Some m /\
            (forall x, In x (pre ++ ds) -> m <= x) /\
            (forall j x, (j < argmin_from bi b (length pre) ds)%nat ->
                         nth_error (pre ++ ds) j = Some x -> m < x).
Proof.
  induction ds as [|y r IH]; intros pre bi b Hb Hmin Hfirst; cbn [argmin_from].
  - rewrite app_nil_r. exists b. auto.
  - assert (Hlen : length (pre ++ [y]) = S (length pre)) by (rewrite app_length; cbn; lia).
    replace (pre ++ y :: r) with ((pre ++ [y]) ++ r) by (rewrite <- app_assoc; reflexivity).
    rewrite <- Hlen.
    destruct (y <? b) eqn:E.
    + apply Z.ltb_lt in E. apply IH.
      * rewrite nth_error_app2 by lia. now rewrite Nat.sub_diag.
      * intros x Hx. apply in_app_or in Hx. destruct Hx as [Hx|[<-|[]]]; [|lia].
        specialize (Hmin x Hx). lia.
      * intros j x Hj Hx. rewrite nth_error_app1 in Hx by lia.
        apply nth_error_In in Hx. specialize (Hmin x Hx). lia.
    + apply Z.ltb_ge in E. apply IH.
      * rewrite nth_error_app1; [exact Hb|]. apply nth_error_Some. congruence.
      * intros x Hx. apply in_app_or in Hx. destruct Hx as [Hx|[<-|[]]]; auto.
      * intros j x Hj Hx. assert (bi < length pre)%nat by (apply nth_error_Some; congruence).
        rewrite nth_error_app1 in Hx by lia. eauto.
Qed.

Lemma argmin_spec : forall ds i, argmin ds = Some i ->
  exists m, nth_error ds i = Some m /\ (forall x, In x ds -> m <= x) /\
            (forall j x, (j < i)%nat -> nth_error ds j = Some x -> m < x).
Proof.
  intros [|y r] i H; [discriminate|]. cbn in H. inversion H; subst.
  apply (argmin_from_spec r [y] O y).
  - reflexivity.
  - intros x [<-|[]]. lia.
  - intros j x Hj. lia.
Qed.

Lemma argmin_nonempty : forall ds, ds <> [] -> exists i, argmin ds = Some i.
Proof. intros [|y r] H; [congruence|]. cbn. eauto. Qed.

(** * classify *)
Lemma classify_inv : forall nx (gs : list lineage) ds r, classify_with nx gs ds = COk r ->
  exists g, nth_error gs (r_closest r) = Some g /\ nth_error ds (r_closest r) = Some (r_dist r) /\
            argmin ds = Some (r_closest r) /\ result_from nx (r_closest r) g (r_dist r) = COk r.
Proof.
  intros nx gs ds r H. unfold classify_with in H.
  destruct (argmin ds) as [i|] eqn:Ea; [|discriminate].
  destruct (nth_error gs i) as [g|] eqn:Eg; [|discriminate].
  destruct (nth_error ds i) as [d|] eqn:Ed; [|discriminate].
  assert (r_closest r = i /\ r_dist r = d) as [Hi Hd].
  { unfold result_from in H. destruct g; [discriminate|].
    destruct (nx d (t :: g)); [|discriminate]. inversion H; subst; cbn; auto. }
  subst. exists g. auto.
Qed.

Lemma result_from_inv : forall nx i g d r, result_from nx i g d = COk r ->
  g <> [] /\ r_closest r = i /\ r_dist r = d /\ r_predicted r = matching_taxon d g /\
  r_primary r = (match matching_taxon d g with [] => None | _ => Some i end) /\
  nx d g = COk (r_next r) /\ r_report r = reportable_taxon (matching_taxon d g).
Proof.
  intros nx i g d r H. unfold result_from in H. destruct g as [|t up]; [discriminate|].
  destruct (nx d (t :: up)) as [n|] eqn:En; [|discriminate].
  inversion H; subst; cbn. repeat split; auto. discriminate.
Qed.

Lemma C03_total_l : forall (gs : list lineage) ds, ds <> [] -> (length ds <= length gs)%nat ->
  (forall g : lineage, In g gs -> g <> []) -> exists r, classify gs ds = COk r.
Proof.
  intros gs ds Hne Hlen Hg. unfold classify, classify_with.
  destruct (argmin_nonempty ds Hne) as [i Hi]. rewrite Hi.
  destruct (argmin_spec ds i Hi) as [m [Hm _]]. rewrite Hm.
  assert (Hi' : (i < length ds)%nat) by (apply nth_error_Some; congruence).
  destruct (nth_error gs i) as [g|] eqn:Eg.
  - assert (g <> []) by (apply Hg; eapply nth_error_In; eauto).
    unfold result_from. destruct g as [|t up]; [congruence|].
    eexists. rewrite next_taxon_sfx. reflexivity.
  - apply nth_error_None in Eg. lia.
Qed.

Lemma C03_errors_l : forall (gs : list lineage) ds,
  (ds = [] -> classify gs ds = CErr EmptyDists) /\
  (forall r, classify gs ds <> CErr Fuel /\ (classify gs ds = COk r -> ds <> [])).
Proof.
  intros gs ds. split; [intros ->; reflexivity|]. intros r. split.
  - unfold classify, classify_with. destruct (argmin ds); [|discriminate].
    destruct (nth_error gs n) as [g|]; [|destruct (nth_error ds n); discriminate].
    destruct (nth_error ds n); [|discriminate].
    unfold result_from. destruct g; [discriminate|]. rewrite next_taxon_sfx. discriminate.
  - intros H ->. discriminate.
Qed.

Lemma C03_closest_is_min_l : forall (gs : list lineage) ds r, classify gs ds = COk r ->
  nth_error ds (r_closest r) = Some (r_dist r) /\
  (exists g, nth_error gs (r_closest r) = Some g /\ g <> []) /\
  (forall x, In x ds -> r_dist r <= x) /\
  (forall j x, (j < r_closest r)%nat -> nth_error ds j = Some x -> r_dist r < x).
Proof.
  intros gs ds r H. destruct (classify_inv _ _ _ _ H) as [g [Hg [Hd [Ha Hr]]]].
  destruct (argmin_spec _ _ Ha) as [m [Hm [Hmin Hfirst]]].
  rewrite Hd in Hm. inversion Hm; subst m.
  repeat split; auto. exists g. split; auto. now apply result_from_inv in Hr.
Qed.

Lemma C03_predicted_l : forall (gs : list lineage) ds r (g : lineage), classify gs ds = COk r ->
  nth_error gs (r_closest r) = Some g ->
  exists b, g = b ++ r_predicted r /\ none_within (r_dist r) b /\
            match r_predicted r with [] => True | p :: _ => within (r_dist r) p = true end.
Proof.
  intros gs ds r g H Hg. destruct (classify_inv _ _ _ _ H) as [g' [Hg' [_ [_ Hr]]]].
  rewrite Hg in Hg'. inversion Hg'; subst g'.
  apply result_from_inv in Hr. destruct Hr as [_ [_ [_ [Hp _]]]]. rewrite Hp.
  exists (below (r_dist r) g). split; [apply lineage_split|]. split; [apply below_none_within|].
  destruct (matching_taxon (r_dist r) g) as [|p up] eqn:E; [exact I|].
  eapply matching_head_within; eauto.
Qed.

Lemma C03_prediction_unique_l : forall d g b s,
  g = b ++ s -> none_within d b ->
  match s with [] => True | p :: _ => within d p = true end ->
  b = below d g /\ s = matching_taxon d g.
Proof.
  intros d g b s Hg Hb Hs. rewrite matching_is_at_or_above.
  apply split_unique; auto.
  - intros x Hx. rewrite (Hb x Hx). reflexivity.
  - destruct s; [exact I|]. now rewrite Hs.
Qed.

Lemma C03_primary_l : forall (gs : list lineage) ds r, classify gs ds = COk r ->
  (r_predicted r = [] -> r_primary r = None) /\
  (r_predicted r <> [] -> r_primary r = Some (r_closest r)).
Proof.
  intros gs ds r H. destruct (classify_inv _ _ _ _ H) as [g [_ [_ [_ Hr]]]].
  apply result_from_inv in Hr. destruct Hr as [_ [_ [_ [Hp [Hq _]]]]].
  rewrite Hp, Hq. destruct (matching_taxon (r_dist r) g); split; congruence.
Qed.

Lemma C03_next_l : next_rule classify.
Proof.
  intros gs ds r g H Hg. destruct (classify_inv _ _ _ _ H) as [g' [Hg' [_ [_ Hr]]]].
  rewrite Hg in Hg'. inversion Hg'; subst g'.
  apply result_from_inv in Hr. destruct Hr as [_ [_ [_ [Hp [_ [Hn _]]]]]]. rewrite Hp.
  exists (below (r_dist r) g). split; [apply lineage_split|]. split; [apply below_none_within|].
  rewrite next_taxon_sfx in Hn. inversion Hn as [Hn'].
  destruct (next_sfx_decl (r_dist r) g []) as [[Hb Hs]|[b1 [n [b2 [Hb [Hh [Hb2 Hs]]]]]]].
  - left. split; [congruence|exact Hb].
  - right. exists b1, n, b2. repeat split; auto.
Qed.

Lemma C03_next_orig_refuted_l : ~ next_rule classify_orig.
Proof.
  intros H.
  pose (L := mkTaxon 2 None false). pose (P := mkTaxon 1 (Some 5) true).
  destruct (H [[L; P]] [3]
              (mkResult 0 3 [P] (Some O) [L; P] [P]) [L; P] eq_refl eq_refl)
    as [b [Hg [_ Hn]]].
  cbn in Hg, Hn.
  destruct Hn as [[Hn _]|[b1 [n [b2 [Hb [Hh [_ Hn]]]]]]]; [discriminate|].
  inversion Hn; subst n. discriminate.
Qed.

Lemma C03_next_orig_witness_l : exists gs ds r n up,
  classify_orig gs ds = COk r /\ r_next r = n :: up /\ has_thr n = false /\
  r_predicted r = up.
Proof.
  exists [[mkTaxon 2 None false; mkTaxon 1 (Some 5) true]], [3].
  eexists. eexists. eexists. vm_compute. repeat split.
Qed.

Lemma C03_next_orig_agrees_l : forall (gs : list lineage) ds,
  (forall t up, In (t :: up) gs -> has_thr t = true) ->
  classify_orig gs ds = classify gs ds.
Proof.
  intros gs ds Hg. unfold classify_orig, classify, classify_with.
  destruct (argmin ds) as [i|]; [|reflexivity].
  destruct (nth_error gs i) as [g|] eqn:Eg; [|reflexivity].
  destruct (nth_error ds i) as [d|]; [|reflexivity].
  unfold result_from. destruct g as [|t up]; [reflexivity|].
  rewrite next_orig_agrees; [reflexivity|].
  apply (Hg t up). eapply nth_error_In; eauto.
Qed.

Lemma C03_report_l : forall (gs : list lineage) ds r, classify gs ds = COk r ->
  exists a, r_predicted r = a ++ r_report r /\ none_report a /\
            match r_report r with [] => True | q :: _ => t_report q = true end.
Proof.
  intros gs ds r H. destruct (classify_inv _ _ _ _ H) as [g [_ [_ [_ Hr]]]].
  apply result_from_inv in Hr. destruct Hr as [_ [_ [_ [Hp [_ [_ Hq]]]]]].
  rewrite Hp, Hq. apply reportable_split.
Qed.

Lemma C03_monotone_l : forall i g d d' r r', d <= d' ->
  result_from next_taxon i g d = COk r -> result_from next_taxon i g d' = COk r' ->
  (exists pre, r_predicted r = pre ++ r_predicted r') /\
  (exists pre, r_report r = pre ++ r_report r').
Proof.
  intros i g d d' r r' Hd H H'.
  apply result_from_inv in H. destruct H as [_ [_ [_ [Hp [_ [_ Hq]]]]]].
  apply result_from_inv in H'. destruct H' as [_ [_ [_ [Hp' [_ [_ Hq']]]]]].
  destruct (matching_mono d d' g Hd) as [pre Hm]. split.
  - exists pre. congruence.
  - rewrite Hq, Hq', Hm. apply reportable_suffix_mono.
Qed.

(** * the executable oracle *)
Lemma optZ_eqb_eq : forall a b, optZ_eqb a b = true <-> a = b.
Proof.
  intros [x|] [y|]; cbn; split; intros H; try discriminate; auto.
  - apply Z.eqb_eq in H. now subst.
  - inversion H. apply Z.eqb_refl.
Qed.

Lemma optnat_eqb_eq : forall a b, optnat_eqb a b = true <-> a = b.
Proof.
  intros [x|] [y|]; cbn; split; intros H; try discriminate; auto.
  - apply Nat.eqb_eq in H. now subst.
  - inversion H. apply Nat.eqb_refl.
Qed.

Lemma observe_result_from : forall i g d r, result_from next_taxon i g d = COk r ->
  observe r = {| o_closest := i; o_dist := d;
                 o_predicted := option_map t_id (spec_predicted d g);
                 o_primary := match spec_predicted d g with Some _ => Some i | None => None end;
                 o_next := option_map t_id (spec_next d g);
                 o_report := option_map t_id (spec_report d g) |}.
Proof.
  intros i g d r H. apply result_from_inv in H.
  destruct H as [_ [Hi [Hd [Hp [Hq [Hn Hr]]]]]].
  unfold observe, top_id. rewrite Hi, Hd, Hp, Hq, Hr.
  rewrite matching_predicted, reportable_report, (next_taxon_spec _ _ _ Hn).
  f_equal. rewrite <- matching_predicted. now destruct (matching_taxon d g).
Qed.

Lemma C03_check_iff_l : forall (gs : list lineage) ds o,
  check gs ds o = true <->
  exists g d r, nth_error gs (o_closest o) = Some g /\ nth_error ds (o_closest o) = Some d /\
                (forall x, In x ds -> d <= x) /\
                result_from next_taxon (o_closest o) g d = COk r /\ o = observe r.
Proof.
  intros gs ds o. unfold check. split.
  - destruct (nth_error gs (o_closest o)) as [[|t up]|] eqn:Eg; try discriminate.
    destruct (nth_error ds (o_closest o)) as [d|] eqn:Ed; try discriminate.
    rewrite !andb_true_iff, !optZ_eqb_eq, optnat_eqb_eq, Z.eqb_eq, forallb_forall.
    intros [[[[[H1 H2] H3] H4] H5] H6].
    destruct (next_taxon d (t :: up)) as [nx|] eqn:En; [|rewrite next_taxon_sfx in En; discriminate].
    eexists (t :: up), d, _. repeat split; eauto.
    + intros x Hx. apply Z.leb_le. auto.
    + unfold result_from. rewrite En. reflexivity.
    + erewrite observe_result_from by (unfold result_from; rewrite En; reflexivity).
      destruct o; cbn in *. congruence.
  - intros [g [d [r [Hg [Hd [Hmin [Hr Ho]]]]]]]. rewrite Hg, Hd.
    pose proof (observe_result_from _ _ _ _ Hr) as Hobs. rewrite <- Ho in Hobs.
    apply result_from_inv in Hr. destruct g as [|t up]; [now destruct Hr|].
    rewrite Hobs; cbn [o_closest o_dist o_predicted o_primary o_next o_report].
    rewrite !andb_true_iff, !optZ_eqb_eq, optnat_eqb_eq, Z.eqb_eq, forallb_forall.
    repeat split; auto. intros x Hx. apply Z.leb_le. auto.
Qed.

Lemma C03_model_checks_l : forall (gs : list lineage) ds r, classify gs ds = COk r -> check gs ds (observe r) = true.
Proof.
  intros gs ds r H. apply C03_check_iff_l.
  destruct (classify_inv _ _ _ _ H) as [g [Hg [Hd [Ha Hr]]]].
  destruct (C03_closest_is_min_l _ _ _ H) as [_ [_ [Hmin _]]].
  exists g, (r_dist r), r. cbn. repeat split; auto.
Qed.

(** non-vacuity: a lineage with a missing own threshold, non-monotone thresholds and an
    unreportable prediction; second genome on an internal node; a distance equal to a threshold *)
Example C03_example :
  let sp := mkTaxon 10 None false in
  let sub := mkTaxon 11 (Some 40) false in
  let ge := mkTaxon 12 (Some 30) false in
  let fa := mkTaxon 13 (Some 60) true in
  let gs := [[sp; sub; ge; fa]; [ge; fa]] in
  option_map observe (match classify gs [50; 70] with COk r => Some r | _ => None end)
    = Some (mkObs 0 50 (Some 13) (Some O) (Some 12) (Some 13)) /\
  option_map observe (match classify gs [40; 40] with COk r => Some r | _ => None end)
    = Some (mkObs 0 40 (Some 11) (Some O) None (Some 13)) /\
  option_map observe (match classify gs [90; 61] with COk r => Some r | _ => None end)
    = Some (mkObs 1 61 None None (Some 13) None).
Proof. vm_compute. repeat split. Qed.
