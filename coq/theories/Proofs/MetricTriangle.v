(** Triangle inequality for the Jaccard distance on strictly increasing lists: on the integer
    counts, on the exact real ratios, and on the binary32 values with an explicit slack; adding
    a common new element decreases the distance. *)
From Coq Require Import ZArith List Bool Lia ZifyBool Reals Lra Psatz Sorting.Sorted.
From Flocq Require Import Core.Core IEEE754.BinarySingleNaN.
From GV Require Import Base.F32 Spec.Jaccard Spec.JaccardF Proofs.MetricCount Proofs.MetricSets
  Proofs.F32Round Proofs.C02.
Import ListNotations.
Open Scope Z_scope.

(** * counting the elements of a list that satisfy a boolean predicate *)

Definition cnt (f : Z -> bool) (l : list Z) : Z := Z.of_nat (length (filter f l)).

Lemma cnt_nil f : cnt f [] = 0.
Proof. reflexivity. Qed.

Lemma cnt_cons f x l : cnt f (x :: l) = (if f x then 1 else 0) + cnt f l.
Proof. unfold cnt. cbn [filter]. destruct (f x); cbn [length]; lia. Qed.

Lemma cnt_nonneg f l : 0 <= cnt f l.
Proof. unfold cnt. lia. Qed.

Lemma cnt_ext_in f g l : (forall x, In x l -> f x = g x) -> cnt f l = cnt g l.
Proof. intros H. unfold cnt. now rewrite (filter_ext_in f g l H). Qed.

Lemma cnt_ext f g l : (forall x, f x = g x) -> cnt f l = cnt g l.
Proof. intros H. apply cnt_ext_in. intros x _. apply H. Qed.

(** partition of a count by a second predicate *)
Lemma cnt_split p f l :
  cnt f l = cnt (fun x => f x && p x) l + cnt (fun x => f x && negb (p x)) l.
Proof.
  induction l as [|x t IH]; [reflexivity|].
  rewrite !cnt_cons, IH. destruct (f x), (p x); cbn [andb negb]; lia.
Qed.

Lemma cnt_total p l : Z.of_nat (length l) = cnt p l + cnt (fun x => negb (p x)) l.
Proof.
  induction l as [|x t IH]; [reflexivity|].
  rewrite !cnt_cons. cbn [length]. destruct (p x); cbn [negb]; lia.
Qed.

Lemma inter_count_cnt A B : inter_count A B = cnt (fun a => memZ a B) A.
Proof. reflexivity. Qed.

(** * predicate-restricted intersection count *)

Definition icount (P : Z -> bool) (A B : list Z) : Z :=
  Z.of_nat (length (filter (fun a => memZ a B && P a) A)).

Lemma icount_cnt P A B : icount P A B = cnt (fun a => memZ a B && P a) A.
Proof. reflexivity. Qed.

Lemma icount_nil_l P B : icount P [] B = 0.
Proof. reflexivity. Qed.

Lemma icount_nil_r P A : icount P A [] = 0.
Proof. unfold icount. induction A as [|a t IH]; simpl; auto. Qed.

Lemma Forall_lt_head a b l : a < b -> Forall (Z.lt b) l -> Forall (Z.lt a) (b :: l).
Proof.
  intros Hab HF. constructor; [assumption|].
  eapply Forall_impl; [|exact HF]. intros; lia.
Qed.

Lemma icount_lt P a A b B :
  sorted (b :: B) -> a < b -> icount P (a :: A) (b :: B) = icount P A (b :: B).
Proof.
  intros HB Hab. unfold icount. cbn [filter].
  rewrite memZ_false_lt; [reflexivity|].
  destruct (sorted_inv _ _ HB) as [_ HF]. now apply Forall_lt_head.
Qed.

Lemma icount_gt P a A b B :
  sorted (a :: A) -> b < a -> icount P (a :: A) (b :: B) = icount P (a :: A) B.
Proof.
  intros HA Hba. rewrite !icount_cnt. apply cnt_ext_in. intros x Hx.
  rewrite memZ_cons.
  destruct (sorted_inv _ _ HA) as [_ HF].
  pose proof (Forall_lt_head b a A Hba HF) as HF'.
  rewrite Forall_forall in HF'. specialize (HF' x Hx).
  destruct (Z.eqb_spec x b); [lia|reflexivity].
Qed.

Lemma icount_eq P a A B :
  sorted (a :: A) -> sorted (a :: B) ->
  icount P (a :: A) (a :: B) = (if P a then 1 else 0) + icount P A B.
Proof.
  intros HA HB. rewrite !icount_cnt, cnt_cons.
  rewrite memZ_cons, Z.eqb_refl. cbn [orb andb]. f_equal.
  apply cnt_ext_in. intros x Hx. rewrite memZ_cons.
  destruct (sorted_inv _ _ HA) as [_ HFA].
  rewrite Forall_forall in HFA. specialize (HFA x Hx).
  destruct (Z.eqb_spec x a); [lia|reflexivity].
Qed.

Lemma icount_sym_n P : forall n A B, (length A + length B <= n)%nat -> sorted A -> sorted B ->
  icount P A B = icount P B A.
Proof.
  induction n as [|n IH]; intros A B Hn HA HB.
  - destruct A; [|simpl in Hn; lia]. destruct B; [|simpl in Hn; lia]. reflexivity.
  - destruct A as [|a A']; [now rewrite icount_nil_l, icount_nil_r|].
    destruct B as [|b B']; [now rewrite icount_nil_l, icount_nil_r|].
    destruct (sorted_inv _ _ HA) as [HA' _]. destruct (sorted_inv _ _ HB) as [HB' _].
    destruct (Z.compare_spec a b) as [Heq|Hlt|Hgt].
    + subst b. rewrite !icount_eq by assumption.
      rewrite (IH A' B'); [reflexivity| simpl in Hn; lia | assumption | assumption].
    + rewrite (icount_lt P a A' b B') by assumption. rewrite (icount_gt P b B' a A') by assumption.
      apply IH; [simpl in *; lia | assumption | assumption].
    + rewrite (icount_gt P a A' b B') by assumption. rewrite (icount_lt P b B' a A') by assumption.
      apply IH; [simpl in *; lia | assumption | assumption].
Qed.

Lemma icount_sym P A B : sorted A -> sorted B -> icount P A B = icount P B A.
Proof. intros. eapply icount_sym_n; eauto. Qed.

(** * the seven Venn regions of three sets *)

Section Venn.
Variables A B C : list Z.
Hypothesis HA : sorted A.
Hypothesis HB : sorted B.
Hypothesis HC : sorted C.

Definition v_abc := icount (fun x => memZ x C) A B.
Definition v_ab := icount (fun x => negb (memZ x C)) A B.
Definition v_ac := icount (fun x => negb (memZ x B)) A C.
Definition v_bc := icount (fun x => negb (memZ x A)) B C.
Definition v_a := cnt (fun x => negb (memZ x B) && negb (memZ x C)) A.
Definition v_b := cnt (fun x => negb (memZ x A) && negb (memZ x C)) B.
Definition v_c := cnt (fun x => negb (memZ x A) && negb (memZ x B)) C.

Lemma venn_nonneg :
  0 <= v_abc /\ 0 <= v_ab /\ 0 <= v_ac /\ 0 <= v_bc /\ 0 <= v_a /\ 0 <= v_b /\ 0 <= v_c.
Proof.
  unfold v_abc, v_ab, v_ac, v_bc, v_a, v_b, v_c. rewrite !icount_cnt.
  repeat split; apply cnt_nonneg.
Qed.

Lemma venn_inter_AB : inter_count A B = v_ab + v_abc.
Proof.
  rewrite inter_count_cnt, (cnt_split (fun x => memZ x C)).
  unfold v_ab, v_abc. rewrite !icount_cnt. lia.
Qed.

Lemma venn_inter_AC : inter_count A C = v_ac + v_abc.
Proof.
  rewrite inter_count_cnt, (cnt_split (fun x => memZ x B)).
  unfold v_ac, v_abc. rewrite !icount_cnt.
  rewrite (cnt_ext (fun x => memZ x C && memZ x B) (fun a => memZ a B && memZ a C))
    by (intros; apply andb_comm).
  lia.
Qed.

Lemma venn_inter_BC : inter_count B C = v_bc + v_abc.
Proof.
  rewrite inter_count_cnt, (cnt_split (fun x => memZ x A)).
  unfold v_bc, v_abc. rewrite (icount_sym _ A B) by assumption. rewrite !icount_cnt.
  rewrite (cnt_ext (fun x => memZ x C && memZ x A) (fun a => memZ a A && memZ a C))
    by (intros; apply andb_comm).
  lia.
Qed.

Lemma venn_len_A : Z.of_nat (length A) = v_a + v_ab + v_ac + v_abc.
Proof.
  rewrite (cnt_total (fun x => memZ x B)).
  rewrite (cnt_split (fun x => memZ x C) (fun x => memZ x B)).
  rewrite (cnt_split (fun x => memZ x C) (fun x => negb (memZ x B))).
  unfold v_a, v_ab, v_ac, v_abc. rewrite !icount_cnt.
  rewrite (cnt_ext (fun x => negb (memZ x B) && memZ x C) (fun a => memZ a C && negb (memZ a B)))
    by (intros; apply andb_comm).
  lia.
Qed.

Lemma venn_len_B : Z.of_nat (length B) = v_b + v_ab + v_bc + v_abc.
Proof.
  rewrite (cnt_total (fun x => memZ x A)).
  rewrite (cnt_split (fun x => memZ x C) (fun x => memZ x A)).
  rewrite (cnt_split (fun x => memZ x C) (fun x => negb (memZ x A))).
  unfold v_b, v_ab, v_bc, v_abc.
  rewrite (icount_sym _ A B) by assumption. rewrite (icount_sym _ A B) by assumption.
  rewrite !icount_cnt.
  rewrite (cnt_ext (fun x => negb (memZ x A) && memZ x C) (fun a => memZ a C && negb (memZ a A)))
    by (intros; apply andb_comm).
  lia.
Qed.

Lemma venn_len_C : Z.of_nat (length C) = v_c + v_ac + v_bc + v_abc.
Proof.
  rewrite (cnt_total (fun x => memZ x A)).
  rewrite (cnt_split (fun x => memZ x B) (fun x => memZ x A)).
  rewrite (cnt_split (fun x => memZ x B) (fun x => negb (memZ x A))).
  unfold v_c, v_ac, v_bc, v_abc.
  rewrite (icount_sym _ A C) by assumption. rewrite (icount_sym _ B C) by assumption.
  rewrite !icount_cnt.
  (* #{x in C, in A, in B} = #{x in A, in B, in C} *)
  assert (E : cnt (fun x => memZ x A && memZ x B) C = cnt (fun a => memZ a B && memZ a C) A).
  { rewrite <- (icount_cnt (fun x => memZ x B) C A).
    rewrite (icount_sym _ C A) by assumption. rewrite icount_cnt.
    apply cnt_ext. intros; apply andb_comm. }
  rewrite E.
  rewrite (cnt_ext (fun x => negb (memZ x A) && memZ x B) (fun a => memZ a B && negb (memZ a A)))
    by (intros; apply andb_comm).
  lia.
Qed.

End Venn.

(** the polynomial inequality on the seven region sizes *)
Lemma triangle_poly a b c ab ac bc abc :
  0 <= a -> 0 <= b -> 0 <= c -> 0 <= ab -> 0 <= ac -> 0 <= bc -> 0 <= abc ->
  (a + ab + c + bc) * ((a + b + ab + ac + bc + abc) * (b + c + ab + ac + bc + abc))
  <= ((a + ac + b + bc) * (b + c + ab + ac + bc + abc)
      + (b + ab + c + ac) * (a + b + ab + ac + bc + abc)) * (a + c + ab + ac + bc + abc).
Proof. intros. nia. Qed.

Theorem triangle_counts : forall A B C, sorted A -> sorted B -> sorted C ->
  symdiff_count A C * (union_count A B * union_count B C)
    <= (symdiff_count A B * union_count B C + symdiff_count B C * union_count A B) * union_count A C.
Proof.
  intros A B C HA HB HC.
  pose proof (venn_nonneg A B C) as [N1 [N2 [N3 [N4 [N5 [N6 N7]]]]]].
  pose proof (venn_inter_AB A B C) as IAB.
  pose proof (venn_inter_AC A B C) as IAC.
  pose proof (venn_inter_BC A B C HA HB) as IBC.
  pose proof (venn_len_A A B C) as LA.
  pose proof (venn_len_B A B C HA HB) as LB.
  pose proof (venn_len_C A B C HA HB HC) as LC.
  set (a := v_a A B C) in *. set (b := v_b A B C) in *. set (c := v_c A B C) in *.
  set (ab := v_ab A B C) in *. set (ac := v_ac A B C) in *. set (bc := v_bc A B C) in *.
  set (abc := v_abc A B C) in *.
  assert (E1 : symdiff_count A C = a + ab + c + bc) by (unfold symdiff_count; lia).
  assert (E2 : symdiff_count A B = a + ac + b + bc) by (unfold symdiff_count; lia).
  assert (E3 : symdiff_count B C = b + ab + c + ac) by (unfold symdiff_count; lia).
  assert (E4 : union_count A B = a + b + ab + ac + bc + abc) by (unfold union_count; lia).
  assert (E5 : union_count B C = b + c + ab + ac + bc + abc) by (unfold union_count; lia).
  assert (E6 : union_count A C = a + c + ab + ac + bc + abc) by (unfold union_count; lia).
  rewrite E1, E2, E3, E4, E5, E6.
  apply triangle_poly; assumption.
Qed.

(** * exact ratios *)

Open Scope R_scope.

Lemma frac_triangle s1 u1 s2 u2 s3 u3 :
  0 < u1 -> 0 < u2 -> 0 < u3 ->
  s3 * (u1 * u2) <= (s1 * u2 + s2 * u1) * u3 ->
  s3 / u3 <= s1 / u1 + s2 / u2.
Proof.
  intros H1 H2 H3 H.
  assert (H12 : 0 < u1 * u2) by (apply Rmult_lt_0_compat; assumption).
  apply Rmult_le_reg_r with (u3 * (u1 * u2)); [apply Rmult_lt_0_compat; assumption|].
  replace (s3 / u3 * (u3 * (u1 * u2))) with (s3 * (u1 * u2)) by (field; lra).
  replace ((s1 / u1 + s2 / u2) * (u3 * (u1 * u2))) with ((s1 * u2 + s2 * u1) * u3) by (field; lra).
  exact H.
Qed.

(** the exact ratio lies in [0,1], also for the empty union (0/0 = 0) *)
Lemma ratio_bounds0 s u : (0 <= s <= u)%Z -> 0 <= IZR s / IZR u <= 1.
Proof.
  intros Hs. destruct (Z.eq_dec u 0) as [->|Hne].
  - assert (s = 0)%Z as -> by lia. unfold Rdiv. rewrite Rmult_0_l. lra.
  - apply ratio_bounds; lia.
Qed.

Lemma count_ratio_bounds A B : sorted A -> sorted B ->
  0 <= IZR (symdiff_count A B) / IZR (union_count A B) <= 1.
Proof.
  intros HA HB. pose proof (counts_bounds A B HA HB) as [_ [_ [_ [Hs _]]]].
  apply ratio_bounds0. exact Hs.
Qed.

Lemma symdiff_nil_nil : symdiff_count [] [] = 0%Z.
Proof. reflexivity. Qed.

Theorem triangle_ratio : forall A B C, sorted A -> sorted B -> sorted C ->
  (IZR (symdiff_count A C) / IZR (union_count A C) <=
   IZR (symdiff_count A B) / IZR (union_count A B) + IZR (symdiff_count B C) / IZR (union_count B C))%R.
Proof.
  intros A B C HA HB HC.
  pose proof (count_ratio_bounds A B HA HB) as [RAB _].
  pose proof (count_ratio_bounds B C HB HC) as [RBC _].
  pose proof (counts_bounds A B HA HB) as [_ [_ [_ [[SAB0 SAB] _]]]].
  pose proof (counts_bounds B C HB HC) as [_ [_ [_ [[SBC0 SBC] _]]]].
  pose proof (counts_bounds A C HA HC) as [_ [_ [_ [[SAC0 SAC] _]]]].
  destruct (Z.eq_dec (union_count A B) 0) as [EAB|NAB].
  { apply (union_zero_iff A B HA HB) in EAB. destruct EAB as [-> ->].
    rewrite symdiff_nil_nil. unfold Rdiv at 2. rewrite Rmult_0_l. lra. }
  destruct (Z.eq_dec (union_count B C) 0) as [EBC|NBC].
  { apply (union_zero_iff B C HB HC) in EBC. destruct EBC as [-> ->].
    rewrite symdiff_nil_nil. unfold Rdiv at 3. rewrite Rmult_0_l. lra. }
  destruct (Z.eq_dec (union_count A C) 0) as [EAC|NAC].
  { apply (union_zero_iff A C HA HC) in EAC. destruct EAC as [-> ->].
    rewrite symdiff_nil_nil. unfold Rdiv at 1. rewrite Rmult_0_l. lra. }
  apply frac_triangle; try (apply IZR_lt; lia).
  rewrite <- !mult_IZR, <- plus_IZR, <- mult_IZR. apply IZR_le.
  apply triangle_counts; assumption.
Qed.

(** * binary32 values *)

Lemma round32_error x : 0 <= x <= 1 -> Rabs (round32 x - x) <= bpow radix2 (-24).
Proof.
  intros Hx. unfold round32.
  assert (Hv : Valid_exp fexp32) by (apply FLT_exp_valid; reflexivity).
  assert (Hm : Monotone_exp fexp32) by (apply FLT_exp_monotone).
  eapply Rle_trans; [apply error_le_half_ulp; exact Hv|].
  assert (Hu : ulp radix2 fexp32 x <= ulp radix2 fexp32 1).
  { apply ulp_le; [exact Hv | exact Hm |]. rewrite !Rabs_pos_eq by lra. lra. }
  assert (H1 : ulp radix2 fexp32 1 = bpow radix2 (-23)).
  { change 1 with (bpow radix2 0). rewrite ulp_bpow. reflexivity. }
  rewrite H1 in Hu.
  change (bpow radix2 (-23)) with (/ IZR 8388608) in Hu.
  change (bpow radix2 (-24)) with (/ IZR 16777216).
  lra.
Qed.

(** the kernel's value is the once-rounded exact ratio, for every admissible pair of counts *)
Lemma ratio_f32_round s u : (0 <= s <= u)%Z -> (u <= 16777216)%Z ->
  B2R (ratio_f32 s u) = round32 (IZR s / IZR u).
Proof.
  intros Hs Hu. unfold ratio_f32. destruct (Z.eqb_spec u 0) as [->|Hne].
  - assert (s = 0)%Z as -> by lia.
    unfold Rdiv. rewrite Rmult_0_l, round32_0.
    change (f32_of_Z 0) with (B754_zero false : f32). reflexivity.
  - destruct (ratio_rounded_once s u) as [Hv _]; [lia|lia|exact Hv].
Qed.

Theorem triangle_rounded : forall A B C, sorted A -> sorted B -> sorted C ->
  (union_count A B <= 16777216)%Z -> (union_count B C <= 16777216)%Z -> (union_count A C <= 16777216)%Z ->
  (B2R (ratio_f32 (symdiff_count A C) (union_count A C)) <=
   B2R (ratio_f32 (symdiff_count A B) (union_count A B)) + B2R (ratio_f32 (symdiff_count B C) (union_count B C))
   + bpow radix2 (-22))%R.
Proof.
  intros A B C HA HB HC UAB UBC UAC.
  pose proof (counts_bounds A B HA HB) as [_ [_ [_ [SAB _]]]].
  pose proof (counts_bounds B C HB HC) as [_ [_ [_ [SBC _]]]].
  pose proof (counts_bounds A C HA HC) as [_ [_ [_ [SAC _]]]].
  rewrite !ratio_f32_round by assumption.
  pose proof (triangle_ratio A B C HA HB HC) as HT.
  pose proof (round32_error _ (count_ratio_bounds A B HA HB)) as EAB.
  pose proof (round32_error _ (count_ratio_bounds B C HB HC)) as EBC.
  pose proof (round32_error _ (count_ratio_bounds A C HA HC)) as EAC.
  apply Rabs_le_inv in EAB. apply Rabs_le_inv in EBC. apply Rabs_le_inv in EAC.
  change (bpow radix2 (-24)) with (/ IZR 16777216) in EAB, EBC, EAC.
  change (bpow radix2 (-22)) with (/ IZR 4194304).
  lra.
Qed.

(** * adding a common new element *)

Open Scope Z_scope.

Fixpoint insert_sorted (x : Z) (l : list Z) : list Z :=
  match l with
  | [] => [x]
  | y :: t => if x <? y then x :: y :: t else y :: insert_sorted x t
  end.

Lemma insert_sorted_In x l y : In y (insert_sorted x l) <-> y = x \/ In y l.
Proof.
  induction l as [|z t IH]; cbn [insert_sorted].
  - simpl. intuition.
  - destruct (x <? z); cbn [In]; [intuition|]. rewrite IH. intuition.
Qed.

Lemma insert_sorted_length x l : Z.of_nat (length (insert_sorted x l)) = Z.of_nat (length l) + 1.
Proof.
  induction l as [|z t IH]; cbn [insert_sorted]; [reflexivity|].
  destruct (x <? z); cbn [length] in *; lia.
Qed.

Lemma insert_sorted_sorted x l : sorted l -> ~ In x l -> sorted (insert_sorted x l).
Proof.
  induction l as [|z t IH]; intros Hs Hn; cbn [insert_sorted].
  - constructor; constructor.
  - destruct (sorted_inv _ _ Hs) as [Ht HF].
    destruct (Z.ltb_spec x z) as [Hlt|Hge].
    + constructor; [assumption|]. now apply Forall_lt_head.
    + assert (Hzx : z < x).
      { assert (x <> z) by (intros ->; apply Hn; now left). lia. }
      constructor.
      * apply IH; [assumption|]. intros Hin. apply Hn. now right.
      * apply Forall_forall. intros y Hy. apply insert_sorted_In in Hy.
        destruct Hy as [->|Hy]; [assumption|].
        rewrite Forall_forall in HF. now apply HF.
Qed.

Lemma memZ_insert_sorted a x l : memZ a (insert_sorted x l) = (a =? x) || memZ a l.
Proof.
  induction l as [|z t IH]; cbn [insert_sorted]; [reflexivity|].
  destruct (x <? z); [reflexivity|].
  rewrite !memZ_cons, IH. destruct (a =? x), (a =? z); reflexivity.
Qed.

Lemma cnt_insert_sorted f x l :
  cnt f (insert_sorted x l) = (if f x then 1 else 0) + cnt f l.
Proof.
  induction l as [|z t IH]; cbn [insert_sorted]; [apply cnt_cons|].
  destruct (x <? z); [apply cnt_cons|].
  rewrite !cnt_cons, IH. lia.
Qed.

Lemma inter_insert_sorted x A B : ~ In x A ->
  inter_count (insert_sorted x A) (insert_sorted x B) = inter_count A B + 1.
Proof.
  intros HnA. rewrite !inter_count_cnt, cnt_insert_sorted.
  rewrite memZ_insert_sorted, Z.eqb_refl. cbn [orb].
  rewrite (cnt_ext_in (fun a => memZ a (insert_sorted x B)) (fun a => memZ a B) A); [lia|].
  intros a Ha. rewrite memZ_insert_sorted.
  destruct (Z.eqb_spec a x) as [->|]; [contradiction|reflexivity].
Qed.

Theorem symdiff_insert_sorted x A B : ~ In x A ->
  symdiff_count (insert_sorted x A) (insert_sorted x B) = symdiff_count A B.
Proof.
  intros HnA. unfold symdiff_count.
  rewrite inter_insert_sorted, !insert_sorted_length by assumption. lia.
Qed.

Theorem union_insert_sorted x A B : ~ In x A ->
  union_count (insert_sorted x A) (insert_sorted x B) = union_count A B + 1.
Proof.
  intros HnA. unfold union_count.
  rewrite inter_insert_sorted, !insert_sorted_length by assumption. lia.
Qed.

Open Scope R_scope.

Theorem common_element_ratio_lt x A B : sorted A -> sorted B -> ~ In x A -> ~ In x B -> A <> B ->
  sorted (insert_sorted x A) /\ sorted (insert_sorted x B) /\
  (forall y, In y (insert_sorted x A) <-> y = x \/ In y A) /\
  (forall y, In y (insert_sorted x B) <-> y = x \/ In y B) /\
  IZR (symdiff_count (insert_sorted x A) (insert_sorted x B))
    / IZR (union_count (insert_sorted x A) (insert_sorted x B))
  < IZR (symdiff_count A B) / IZR (union_count A B).
Proof.
  intros HA HB HnA HnB Hne.
  split; [now apply insert_sorted_sorted|]. split; [now apply insert_sorted_sorted|].
  split; [intros y; apply insert_sorted_In|]. split; [intros y; apply insert_sorted_In|].
  rewrite symdiff_insert_sorted, union_insert_sorted by assumption.
  pose proof (counts_bounds A B HA HB) as [_ [_ [_ [[S0 SU] _]]]].
  assert (S1 : (symdiff_count A B <> 0)%Z).
  { intros E. apply Hne. now apply (symdiff_zero_iff' A B HA HB). }
  set (s := symdiff_count A B) in *. set (u := union_count A B) in *.
  rewrite plus_IZR.
  assert (Hs : 0 < IZR s) by (apply IZR_lt; lia).
  assert (Hu : 0 < IZR u) by (apply IZR_lt; lia).
  unfold Rdiv. apply Rmult_lt_compat_l; [assumption|].
  apply Rinv_lt_contravar; [apply Rmult_lt_0_compat; lra | lra].
Qed.

Theorem common_element_rounded_le x A B : sorted A -> sorted B -> ~ In x A -> ~ In x B ->
  (union_count A B < 16777216)%Z ->
  B2R (ratio_f32 (symdiff_count (insert_sorted x A) (insert_sorted x B))
                 (union_count (insert_sorted x A) (insert_sorted x B)))
  <= B2R (ratio_f32 (symdiff_count A B) (union_count A B)).
Proof.
  intros HA HB HnA HnB Hb.
  rewrite symdiff_insert_sorted, union_insert_sorted by assumption.
  pose proof (counts_bounds A B HA HB) as [_ [_ [_ [[S0 SU] _]]]].
  set (s := symdiff_count A B) in *. set (u := union_count A B) in *.
  rewrite !ratio_f32_round by lia.
  apply round32_le.
  destruct (Z.eq_dec u 0) as [E|E].
  - assert (s = 0)%Z as -> by lia. unfold Rdiv. rewrite !Rmult_0_l. lra.
  - rewrite plus_IZR.
    assert (Hs : 0 <= IZR s) by (apply IZR_le; lia).
    assert (Hu : 0 < IZR u) by (apply IZR_lt; lia).
    unfold Rdiv. apply Rmult_le_compat_l; [assumption|].
    apply Rinv_le_contravar; lra.
Qed.
