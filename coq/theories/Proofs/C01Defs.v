(** Shared vocabulary of the C01 proofs. *)
From Coq Require Import ZArith List Bool.
From GV Require Import Base.CSem Spec.Kmers Spec.C01 Model.C01.
Import ListNotations.
Open Scope Z_scope.

(** [sub] occurs in [h] at offset [q] *)
Definition occb (h sub : list Z) (q : nat) : bool := starts_with sub (skipn q h).

(** positions the forward loop must report: an occurrence that leaves room for k more bytes *)
Definition fwd_ok (h p : list Z) (k : nat) (q : nat) : bool :=
  occb h p q && (q + length p + k <=? length h)%nat.

(** positions the reverse loop must report: an occurrence of the reverse-complemented prefix at
    offset >= k *)
Definition rev_ok (h prc : list Z) (k : nat) (loc : nat) : bool :=
  occb h prc loc && (k <=? loc)%nat && (loc + length prc <=? length h)%nat.
