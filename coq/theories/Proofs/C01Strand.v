(** C01: case folding, slicing and the relation between the two strands. *)
From Coq Require Import ZArith List Bool Lia ZifyBool ZifyNat.
From GV Require Import Base.CSem Gen.KmersPyx Spec.Kmers Spec.C01 Model.C01
  Proofs.KmersEnc Proofs.KmersRc Proofs.KmersDec Proofs.KmersSpec Proofs.C01Defs.
Import ListNotations.
Open Scope Z_scope.

Definition bytes (w : list Z) : Prop := Forall (fun b => 0 <= b < 256) w.
Definition acgt (p : list Z) : Prop := Forall (fun b => is_ACGT b = true) p.

(** * lists *)

Lemma eq_list_iff a : forall b, eq_list a b = true <-> a = b.
Proof.
  induction a as [|x a IH]; intros [|y b]; simpl; split; intros H; try reflexivity; try discriminate.
  - apply andb_true_iff in H. destruct H as [H1 H2]. apply Z.eqb_eq in H1. apply IH in H2. congruence.
  - inversion H; subst. rewrite Z.eqb_refl. simpl. now apply IH.
Qed.

Lemma starts_with_iff sub : forall l, starts_with sub l = true <-> firstn (length sub) l = sub.
Proof.
  induction sub as [|x sub IH]; intros l; simpl.
  - split; reflexivity.
  - destruct l as [|y l]; simpl.
    + split; discriminate.
    + rewrite andb_true_iff, Z.eqb_eq, IH. split.
      * intros [-> ->]. reflexivity.
      * intros H. inversion H; subst. split; [reflexivity|]. now rewrite H2.
Qed.

Lemma occb_iff h sub q : occb h sub q = true <-> slice h q (length sub) = sub.
Proof. unfold occb, slice. apply starts_with_iff. Qed.

Lemma slice_length s a n : (a + n <= length s)%nat -> length (slice s a n) = n.
Proof. intros H. unfold slice. rewrite firstn_length, skipn_length. lia. Qed.

Lemma slice_map f s a n : slice (map f s) a n = map f (slice s a n).
Proof. unfold slice. now rewrite skipn_map, firstn_map. Qed.

Lemma slice_In s a n x : In x (slice s a n) -> In x s.
Proof.
  unfold slice. intros H.
  assert (In x (skipn a s)) by (rewrite <- (firstn_skipn n (skipn a s)); apply in_or_app; now left).
  rewrite <- (firstn_skipn a s). apply in_or_app. now right.
Qed.

Lemma slice_bytes s a n : bytes s -> bytes (slice s a n).
Proof.
  unfold bytes. rewrite !Forall_forall. intros H x Hx. apply H. eapply slice_In; eauto.
Qed.

(** slicing a reversed list *)
Lemma skipn_app_exact {X} (l1 l2 : list X) n : length l1 = n -> skipn n (l1 ++ l2) = l2.
Proof. intros <-. rewrite skipn_app, skipn_all, Nat.sub_diag. reflexivity. Qed.
Lemma firstn_app_exact {X} (l1 l2 : list X) n : length l1 = n -> firstn n (l1 ++ l2) = l1.
Proof. intros <-. rewrite firstn_app, firstn_all, Nat.sub_diag. simpl. apply app_nil_r. Qed.

Lemma slice_rev s a n : (a + n <= length s)%nat ->
  slice (rev s) a n = rev (slice s (length s - a - n) n).
Proof.
  intros H. unfold slice.
  set (x := firstn (length s - a - n) s). set (y := skipn (length s - a - n) s).
  assert (Hs : s = x ++ y) by (unfold x, y; now rewrite firstn_skipn).
  assert (Hy : length y = (a + n)%nat) by (unfold y; rewrite skipn_length; lia).
  set (y1 := firstn n y). set (y2 := skipn n y).
  assert (Hyy : y = y1 ++ y2) by (unfold y1, y2; now rewrite firstn_skipn).
  assert (Hy1 : length y1 = n) by (unfold y1; rewrite firstn_length; lia).
  assert (Hy2 : length y2 = a) by (unfold y2; rewrite skipn_length; lia).
  rewrite Hs at 1. rewrite Hyy. rewrite !rev_app_distr, <- app_assoc.
  rewrite skipn_app_exact by (now rewrite rev_length).
  rewrite firstn_app_exact by (now rewrite rev_length).
  reflexivity.
Qed.

Lemma slice_revcomp s a n : (a + n <= length s)%nat ->
  slice (spec_revcomp s) a n = spec_revcomp (slice s (length s - a - n) n).
Proof.
  intros H. unfold spec_revcomp. rewrite <- map_rev, slice_map, slice_rev by assumption.
  now rewrite map_rev.
Qed.

(** * case folding *)

Lemma upper_comp b : upper (comp b) = comp (upper b).
Proof.
  destruct (Z.eq_dec b 65) as [->|]; [reflexivity|]. destruct (Z.eq_dec b 67) as [->|]; [reflexivity|].
  destruct (Z.eq_dec b 71) as [->|]; [reflexivity|]. destruct (Z.eq_dec b 84) as [->|]; [reflexivity|].
  destruct (Z.eq_dec b 97) as [->|]; [reflexivity|]. destruct (Z.eq_dec b 99) as [->|]; [reflexivity|].
  destruct (Z.eq_dec b 103) as [->|]; [reflexivity|]. destruct (Z.eq_dec b 116) as [->|]; [reflexivity|].
  rewrite (comp_fix b) by (simpl; intuition lia).
  rewrite comp_fix; [reflexivity|].
  unfold upper. destruct ((97 <=? b) && (b <=? 122)) eqn:E; simpl; intuition lia.
Qed.

Lemma map_upper_revcomp x : map upper (spec_revcomp x) = spec_revcomp (map upper x).
Proof.
  unfold spec_revcomp. rewrite <- !map_rev, !map_map. apply map_ext. intros b. apply upper_comp.
Qed.

Lemma upper_ACGT b : is_ACGT b = true -> upper b = b.
Proof. unfold is_ACGT, upper. intros H. destruct ((97 <=? b) && (b <=? 122)) eqn:E; lia. Qed.

Lemma map_upper_acgt p : acgt p -> map upper p = p.
Proof.
  induction 1 as [|b t Hb Ht IH]; simpl; [reflexivity|]. now rewrite upper_ACGT, IH.
Qed.

Lemma comp_ACGT b : is_ACGT b = true -> is_ACGT (comp b) = true.
Proof.
  unfold is_ACGT, comp. intros H.
  assert (b = 65 \/ b = 67 \/ b = 71 \/ b = 84) as [->|[->|[->| ->]]] by lia; reflexivity.
Qed.

Lemma revcomp_acgt p : acgt p -> acgt (spec_revcomp p).
Proof.
  unfold acgt, spec_revcomp. rewrite !Forall_forall. intros H x Hx.
  apply in_rev in Hx. apply in_map_iff in Hx. destruct Hx as [y [<- Hy]]. apply comp_ACGT. auto.
Qed.

Lemma acgt_bytes p : acgt p -> bytes p.
Proof. unfold acgt, bytes. apply Forall_impl. intros b H. unfold is_ACGT in H. lia. Qed.

(** a byte that upper-cases to a nucleotide and is not one of acgt is that nucleotide *)
Lemma upper_not_lower b : is_ACGT (upper b) = true -> existsb (Z.eqb b) lower_nucs = false -> upper b = b.
Proof.
  unfold is_ACGT, upper, lower_nucs. cbn [existsb]. intros H1 H2.
  destruct ((97 <=? b) && (b <=? 122)) eqn:E; [|reflexivity]. lia.
Qed.

Lemma has_lower_false s b : has_lower_nuc s = false -> In b s -> existsb (Z.eqb b) lower_nucs = false.
Proof.
  unfold has_lower_nuc. intros H Hb.
  destruct (existsb (Z.eqb b) lower_nucs) eqn:E; [|reflexivity].
  assert (existsb (fun b0 => existsb (Z.eqb b0) lower_nucs) s = true); [|congruence].
  apply existsb_exists. eauto.
Qed.

Lemma haystack_length s : length (haystack s) = length s.
Proof. unfold haystack. destruct (has_lower_nuc s); [apply map_length|reflexivity]. Qed.

(** searching the haystack for an upper-case ACGT pattern = case-insensitive match in the sequence *)
Lemma occb_haystack s p q : acgt p ->
  occb (haystack s) p q = eq_list (map upper (slice s q (length p))) p.
Proof.
  intros Hp. apply eq_true_iff_eq. rewrite occb_iff, eq_list_iff.
  unfold haystack. destruct (has_lower_nuc s) eqn:E.
  - now rewrite slice_map.
  - split.
    + intros H. rewrite H. now apply map_upper_acgt.
    + intros H. rewrite <- H at 2. symmetry.
      rewrite <- (map_id (slice s q (length p))) at 2. apply map_ext_in. intros b Hb.
      apply upper_not_lower.
      * assert (In (upper b) p) by (rewrite <- H; now apply in_map).
        unfold acgt in Hp. rewrite Forall_forall in Hp. auto.
      * eapply has_lower_false; eauto. eapply slice_In; eauto.
Qed.

Lemma fwd_ok_occurs s p k q : acgt p ->
  fwd_ok (haystack s) p k q = occurs_at k p s q.
Proof.
  intros Hp. unfold fwd_ok, occurs_at. rewrite haystack_length, occb_haystack by assumption.
  apply andb_comm.
Qed.

(** * python slices with in-range bounds *)
Lemma py_slice_slice s (a n : nat) : (a + n <= length s)%nat ->
  py_slice s (Z.of_nat a) (Z.of_nat a + Z.of_nat n) = slice s a n.
Proof.
  intros H. unfold py_slice, slice, adjust_index, mv_len.
  assert (Z.of_nat a <? 0 = false) as -> by lia.
  assert (Z.of_nat a + Z.of_nat n <? 0 = false) as -> by lia.
  rewrite !Z.min_l by lia. f_equal; [lia|f_equal; lia].
Qed.

(** * k-mer index of a forward match *)
Lemma kmer_index_fwd k p s q :
  bytes s -> (q + length p + k <= length s)%nat ->
  kmer_index (Z.of_nat k) p s (Z.of_nat q, false) = Ok (spec_encode (slice s (q + length p) k)).
Proof.
  intros Hs Hq. unfold kmer_index, mv_len.
  replace (Z.of_nat q + Z.of_nat (length p)) with (Z.of_nat (q + length p)) by lia.
  replace (Z.of_nat q + (Z.of_nat (length p) + Z.of_nat k)) with (Z.of_nat (q + length p) + Z.of_nat k) by lia.
  rewrite py_slice_slice by lia.
  rewrite kmer_to_index_spec by (now apply slice_bytes).
  destruct (spec_encode _); reflexivity.
Qed.

(** * k-mer index of a reverse match at find-location [loc] (match position loc + plen - 1) *)
Lemma kmer_index_rev k p s loc :
  bytes s -> (k <= loc)%nat -> (loc <= length s)%nat -> (1 <= length p)%nat ->
  kmer_index (Z.of_nat k) p s (Z.of_nat loc + mv_len p - 1, true) =
    Ok (spec_encode (spec_revcomp (slice s (loc - k) k))).
Proof.
  intros Hs Hk Hl Hp. unfold kmer_index, mv_len.
  replace (Z.of_nat loc + Z.of_nat (length p) - 1 - (Z.of_nat (length p) + Z.of_nat k) + 1)
    with (Z.of_nat (loc - k)) by lia.
  replace (Z.of_nat loc + Z.of_nat (length p) - 1 - Z.of_nat (length p) + 1)
    with (Z.of_nat (loc - k) + Z.of_nat k) by lia.
  rewrite py_slice_slice by lia.
  rewrite kmer_to_index_rc_spec by (now apply slice_bytes).
  destruct (spec_encode _); reflexivity.
Qed.
