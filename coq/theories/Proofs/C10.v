(** C10 -- the repaired consensus algorithm computes the order-independent specification;
    the algorithm as found does not. *)
From Coq Require Import List Bool Arith Lia Permutation.
From GV Require Import Base.CSem Spec.C10 Model.C10 Proofs.C10Paths.
Import ListNotations.
Local Open Scope nat_scope.

Definition comparable (a b : taxon) : Prop := prefixb a b = true \/ prefixb b a = true.

(** ---- the most specific elements and their lowest common ancestor ---- *)

Lemma maximal_In : forall l m,
  In m (maximal l) <-> In m l /\ forall s, In s l -> strictb m s = false.
Proof.
  intros l m. unfold maximal. rewrite filter_In, negb_true_iff. split; intros [H1 H2]; split; auto.
  - intros s Hs. destruct (strictb m s) eqn:E; [|reflexivity].
    assert (X : existsb (strictb m) l = true) by (apply existsb_exists; eauto). congruence.
  - destruct (existsb (strictb m) l) eqn:E; [|reflexivity].
    apply existsb_exists in E. destruct E as [s [Hs E]]. rewrite H2 in E by exact Hs. discriminate.
Qed.

(** every matched taxon has a most specific matched taxon at or below it *)
Lemma maximal_ext_fuel : forall l B, (forall s, In s l -> length s <= B) ->
  forall n s, In s l -> B <= length s + n -> exists m, In m (maximal l) /\ prefixb s m = true.
Proof.
  intros l B HB. induction n as [|n IH]; intros s Hs Hn.
  - exists s. split; [| apply prefixb_refl]. apply maximal_In. split; [exact Hs|].
    intros s' Hs'. destruct (strictb s s') eqn:E; [|reflexivity].
    apply strictb_length in E. specialize (HB s' Hs'). lia.
  - destruct (existsb (strictb s) l) eqn:E.
    + apply existsb_exists in E. destruct E as [s' [Hs' E]].
      pose proof (strictb_length _ _ E) as L.
      destruct (IH s' Hs') as [m [Hm P]]; [lia|].
      exists m. split; [exact Hm|]. apply strictb_spec in E. destruct E as [E _].
      eapply prefixb_trans; eauto.
    + exists s. split; [| apply prefixb_refl]. apply maximal_In. split; [exact Hs|].
      intros s' Hs'. destruct (strictb s s') eqn:E'; [|reflexivity].
      assert (X : existsb (strictb s) l = true) by (apply existsb_exists; eauto). congruence.
Qed.

Lemma length_bound : forall l : list taxon, exists B, forall s, In s l -> length s <= B.
Proof.
  induction l as [|x l [B IH]].
  - exists 0. intros s [].
  - exists (Nat.max (length x) B). intros s [E|H]; [subst; lia | specialize (IH s H); lia].
Qed.

Lemma maximal_ext : forall l s, In s l -> exists m, In m (maximal l) /\ prefixb s m = true.
Proof.
  intros l s Hs. destruct (length_bound l) as [B HB].
  apply (maximal_ext_fuel l B HB B s Hs). lia.
Qed.

Lemma lcp_all_glb : forall L r, lcp_all L = Some r ->
  (forall x, In x L -> prefixb r x = true) /\
  (forall r', (forall x, In x L -> prefixb r' x = true) -> prefixb r' r = true).
Proof.
  induction L as [|m L IH]; intros r H; [discriminate|].
  cbn [lcp_all] in H. destruct (lcp_all L) as [c|] eqn:E.
  - inversion H; subst r; clear H. destruct (IH c eq_refl) as [IH1 IH2]. split.
    + intros x [Hx|Hx]; [subst; apply lcp_prefix_l |].
      eapply prefixb_trans; [apply lcp_prefix_r | apply IH1; exact Hx].
    + intros r' Hr. apply lcp_glb; [apply Hr; left; reflexivity |].
      apply IH2. intros x Hx. apply Hr. right. exact Hx.
  - inversion H; subst r; clear H. destruct L as [|y L]; [| cbn [lcp_all] in E; destruct (lcp_all L); discriminate].
    split.
    + intros x [Hx|[]]. subst. apply prefixb_refl.
    + intros r' Hr. apply Hr. left. reflexivity.
Qed.

Lemma lcp_all_some : forall L, L <> [] -> exists r, lcp_all L = Some r.
Proof.
  intros [|m L] H; [congruence|]. cbn [lcp_all]. destruct (lcp_all L); eauto.
Qed.

(** [c] is below-or-equal every element and is the meeting point of two of them *)
Lemma lcp_all_char : forall L c x y, (forall m, In m L -> prefixb c m = true) ->
  In x L -> In y L -> lcp x y = c -> lcp_all L = Some c.
Proof.
  intros L c x y Hc Hx Hy E.
  destruct (lcp_all_some L) as [r Hr]; [intros N; subst; destruct Hx|].
  destruct (lcp_all_glb L r Hr) as [G1 G2]. rewrite Hr. f_equal.
  apply prefixb_antisym.
  - rewrite <- E. apply lcp_glb; [apply G1; exact Hx | apply G1; exact Hy].
  - apply G2. exact Hc.
Qed.

(** the specification depends only on the *set* of matched taxa *)
Lemma maximal_set : forall l l', (forall t, In t l <-> In t l') ->
  forall m, In m (maximal l) <-> In m (maximal l').
Proof.
  intros l l' H m. rewrite !maximal_In. rewrite H. split; intros [H1 H2]; split; auto; intros s Hs;
    apply H2; apply H; exact Hs.
Qed.

Lemma lcp_all_set : forall L L', (forall t, In t L <-> In t L') -> lcp_all L = lcp_all L'.
Proof.
  intros L L' H. destruct L as [|m L].
  - destruct L' as [|m' L']; [reflexivity|]. exfalso. apply (H m'). left. reflexivity.
  - destruct (lcp_all_some (m :: L)) as [r Hr]; [discriminate|].
    destruct (lcp_all_some L') as [r' Hr'].
    { intros N; subst. apply (H m). left. reflexivity. }
    destruct (lcp_all_glb _ _ Hr) as [G1 G2]. destruct (lcp_all_glb _ _ Hr') as [G1' G2'].
    rewrite Hr, Hr'. f_equal. apply prefixb_antisym.
    + apply G2'. intros x Hx. apply G1. apply H. exact Hx.
    + apply G2. intros x Hx. apply G1'. apply H. exact Hx.
Qed.

Lemma consensus_spec_set : forall l l', (forall t, In t l <-> In t l') ->
  consensus_spec l = consensus_spec l'.
Proof.
  intros l l' H. unfold consensus_spec. rewrite (lcp_all_set (maximal l) (maximal l')); [reflexivity|].
  apply maximal_set. exact H.
Qed.

(** two matched taxa that diverge below [c] have most specific representatives that do *)
Lemma diverge_max : forall l x y, In x l -> In y l -> lcp x y <> x -> lcp x y <> y ->
  exists x' y', In x' (maximal l) /\ In y' (maximal l) /\ lcp x' y' = lcp x y.
Proof.
  intros l x y Hx Hy Nx Ny.
  destruct (maximal_ext l x Hx) as [x' [Hx' Px]]. destruct (maximal_ext l y Hy) as [y' [Hy' Py]].
  exists x', y'. repeat split; try assumption. apply lcp_ext2; assumption.
Qed.

(** ---- the loop invariant ---- *)

Definition Inv (seen : list taxon) (c : taxon) (forked : bool) : Prop :=
  c <> [] /\
  (forall s, In s seen -> comparable s c) /\
  (if forked
   then exists x y, In x seen /\ In y seen /\ lcp x y = c /\ x <> c /\ y <> c
   else In c seen /\ forall s, In s seen -> prefixb s c = true).

Lemma inv_below : forall seen c f, Inv seen c f -> exists x, In x seen /\ prefixb c x = true.
Proof.
  intros seen c [|] [Hc [Hcmp H]].
  - destruct H as [x [y [Hx [Hy [E _]]]]]. exists x. split; [exact Hx|]. rewrite <- E. apply lcp_prefix_l.
  - destruct H as [H _]. exists c. split; [exact H | apply prefixb_refl].
Qed.

Lemma spec_of_inv : forall l c f, Inv l c f -> consensus_spec l = Some c.
Proof.
  intros l c f HI. pose proof HI as [Hc [Hcmp H]].
  assert (Hmax : forall m, In m (maximal l) -> prefixb c m = true).
  { intros m Hm. apply maximal_In in Hm. destruct Hm as [Hm Hs].
    destruct (Hcmp m Hm) as [P|P]; [|exact P].
    destruct (inv_below _ _ _ HI) as [x [Hx Px]].
    specialize (Hs x Hx). destruct (path_eqb m x) eqn:E.
    - apply path_eqb_eq in E. subst. exact Px.
    - unfold strictb in Hs. rewrite E in Hs. simpl in Hs. rewrite andb_true_r in Hs.
      rewrite (prefixb_trans _ _ _ P Px) in Hs. discriminate. }
  assert (S : lcp_all (maximal l) = Some c).
  { destruct f.
    - destruct H as [x [y [Hx [Hy [E [Nx Ny]]]]]].
      destruct (diverge_max l x y Hx Hy) as [x' [y' [Hx' [Hy' E']]]]; try congruence.
      apply (lcp_all_char _ c x' y'); try assumption. congruence.
    - destruct H as [Hin Hall].
      assert (Hcm : In c (maximal l)).
      { apply maximal_In. split; [exact Hin|]. intros s Hs. destruct (strictb c s) eqn:E; [|reflexivity].
        apply strictb_spec in E. destruct E as [P N]. exfalso. apply N.
        apply prefixb_antisym; [exact P | apply Hall; exact Hs]. }
      apply (lcp_all_char _ c c c); try assumption. apply lcp_idem. }
  unfold consensus_spec. rewrite S. destruct c; [congruence | reflexivity].
Qed.

Lemma spec_none : forall l x y, In x l -> In y l -> x <> [] -> y <> [] -> lcp x y = [] ->
  consensus_spec l = None.
Proof.
  intros l x y Hx Hy Nx Ny E.
  destruct (diverge_max l x y Hx Hy) as [x' [y' [Hx' [Hy' E']]]]; try congruence.
  unfold consensus_spec. rewrite (lcp_all_char (maximal l) [] x' y'); try assumption; [reflexivity | | congruence].
  intros m _. reflexivity.
Qed.

Lemma inv_init : forall t, t <> [] -> Inv [t] t false.
Proof.
  intros t Ht. split; [exact Ht|]. split.
  - intros s [E|[]]. subst. left. apply prefixb_refl.
  - split; [left; reflexivity|]. intros s [E|[]]. subst. apply prefixb_refl.
Qed.

Lemma lcp_len_eq : forall t c, length c - length (lcp t c) = 0 -> lcp t c = c.
Proof.
  intros t c H. apply prefixb_same_length; [apply lcp_prefix_r|].
  pose proof (prefixb_length _ _ (lcp_prefix_r t c)). lia.
Qed.

(** one iteration of the loop, case [taxon in trunk] *)
Lemma step_on_trunk : forall seen c f t, Inv seen c f -> prefixb t c = true -> Inv (seen ++ [t]) c f.
Proof.
  intros seen c f t [Hc [Hcmp H]] P. split; [exact Hc|]. split.
  - intros s Hs. apply in_app_or in Hs. destruct Hs as [Hs|[E|[]]]; [apply Hcmp; exact Hs | subst; left; exact P].
  - destruct f.
    + destruct H as [x [y [Hx [Hy R]]]]. exists x, y. split; [apply in_or_app; auto|]. split; [apply in_or_app; auto | exact R].
    + destruct H as [Hin Hall]. split; [apply in_or_app; auto|].
      intros s Hs. apply in_app_or in Hs. destruct Hs as [Hs|[E|[]]]; [apply Hall; exact Hs | subst; exact P].
Qed.

(** case: directly below the consensus and no fork so far -- the taxon becomes the consensus *)
Lemma step_extend : forall seen c t, Inv seen c false -> t <> [] -> lcp t c = c -> Inv (seen ++ [t]) t false.
Proof.
  intros seen c t [Hc [Hcmp [Hin Hall]]] Ht E.
  assert (P : prefixb c t = true) by (apply lcp_eq_l_prefix; rewrite lcp_comm; exact E).
  assert (Hall' : forall s, In s (seen ++ [t]) -> prefixb s t = true).
  { intros s Hs. apply in_app_or in Hs. destruct Hs as [Hs|[Es|[]]]; [| subst; apply prefixb_refl].
    eapply prefixb_trans; [apply Hall; exact Hs | exact P]. }
  split; [exact Ht|]. split.
  - intros s Hs. left. apply Hall'. exact Hs.
  - split; [apply in_or_app; right; left; reflexivity | exact Hall'].
Qed.

(** case: meets the trunk further up, or below a consensus that is already a fork point *)
Lemma step_fork : forall seen c f t, Inv seen c f -> prefixb t c = false -> lcp t c <> [] ->
  (lcp t c <> c \/ f = true) -> Inv (seen ++ [t]) (lcp t c) true.
Proof.
  intros seen c f t HI NP Na Hcase. pose proof HI as [Hc [Hcmp H]].
  destruct (list_eq_dec Nat.eq_dec (lcp t c) c) as [E|E].
  - (* directly below a fork point: nothing changes *)
    destruct Hcase as [Hcase|Hcase]; [contradiction|]. subst f. rewrite E.
    assert (P : prefixb c t = true) by (apply lcp_eq_l_prefix; rewrite lcp_comm; exact E).
    split; [exact Hc|]. split.
    + intros s Hs. apply in_app_or in Hs. destruct Hs as [Hs|[Es|[]]]; [apply Hcmp; exact Hs | subst; right; exact P].
    + destruct H as [x [y [Hx [Hy R]]]]. exists x, y. split; [apply in_or_app; auto|]. split; [apply in_or_app; auto | exact R].
  - split; [exact Na|]. split.
    + intros s Hs. apply in_app_or in Hs. destruct Hs as [Hs|[Es|[]]].
      * destruct (Hcmp s Hs) as [P|P].
        -- destruct (prefixb_comparable s (lcp t c) c P (lcp_prefix_r t c)); [left | right]; assumption.
        -- right. eapply prefixb_trans; [apply lcp_prefix_r | exact P].
      * subst s. right. apply lcp_prefix_l.
    + destruct (inv_below _ _ _ HI) as [x0 [Hx0 Px0]].
      exists t, x0. split; [apply in_or_app; right; left; reflexivity|]. split; [apply in_or_app; left; exact Hx0|].
      split; [apply lcp_ext; assumption|]. split.
      * intros Et. pose proof (lcp_prefix_r t c) as X. rewrite <- Et in X. congruence.
      * intros Ex. apply E. apply prefixb_antisym; [apply lcp_prefix_r|]. rewrite <- Ex. exact Px0.
Qed.

Lemma nonempty_neq : forall t, nonempty t = true <-> t <> [].
Proof. intros [|x t]; simpl; split; congruence. Qed.

Lemma length_zero_nil : forall (t : taxon), Nat.eqb (length t) 0 = true <-> t = [].
Proof. intros [|x t]; simpl; split; congruence. Qed.

(** the loop of the repaired algorithm maintains the invariant; its early exit means two matched
    taxa in different trees *)
Lemma trunk_loop_inv : forall rest seen c f, Inv seen c f -> forallb nonempty rest = true ->
  match trunk_loop (ancestors c) f rest with
  | Some trunk => exists c' f', trunk = ancestors c' /\ Inv (seen ++ rest) c' f'
  | None => exists x y, In x (seen ++ rest) /\ In y (seen ++ rest) /\ x <> [] /\ y <> [] /\ lcp x y = []
  end.
Proof.
  induction rest as [|t rest IH]; intros seen c f HI W.
  - cbn [trunk_loop]. exists c, f. rewrite app_nil_r. split; [reflexivity | exact HI].
  - cbn [forallb] in W. apply andb_true_iff in W. destruct W as [Wt W]. apply nonempty_neq in Wt.
    replace (seen ++ t :: rest) with ((seen ++ [t]) ++ rest) by (rewrite <- app_assoc; reflexivity).
    cbn [trunk_loop]. destruct (mem t (ancestors c)) eqn:M.
    + apply mem_ancestors in M. destruct M as [_ P].
      apply IH; [apply step_on_trunk; assumption | exact W].
    + assert (NP : prefixb t c = false).
      { destruct (prefixb t c) eqn:P; [|reflexivity].
        assert (X : mem t (ancestors c) = true) by (apply mem_ancestors; split; assumption). congruence. }
      rewrite (find_meet_strict t c NP).
      destruct (Nat.eqb (length (lcp t c)) 0) eqn:Z.
      * (* no ancestor of t in the trunk *)
        apply length_zero_nil in Z.
        destruct (inv_below _ _ _ HI) as [x0 [Hx0 Px0]]. destruct HI as [Hc _].
        exists t, x0. split; [apply in_or_app; left; apply in_or_app; right; left; reflexivity|].
        split; [apply in_or_app; left; apply in_or_app; left; exact Hx0|].
        split; [exact Wt|]. split.
        -- intros N. subst x0. apply prefixb_nil_r in Px0. contradiction.
        -- rewrite (lcp_ext c x0 t Px0); [exact Z | congruence].
      * assert (Na : lcp t c <> []).
        { intros N. rewrite N in Z. discriminate. }
        destruct (Nat.eqb (length c - length (lcp t c)) 0 && negb f) eqn:B.
        -- apply andb_true_iff in B. destruct B as [B1 B2]. apply Nat.eqb_eq in B1.
           apply negb_true_iff in B2. subst f. apply lcp_len_eq in B1.
           apply IH; [eapply step_extend; eassumption | exact W].
        -- rewrite skipn_ancestors by apply lcp_prefix_r.
           apply IH; [| exact W]. eapply step_fork; try eassumption.
           apply andb_false_iff in B. destruct B as [B|B].
           ++ left. intros E. rewrite E in B. rewrite Nat.sub_diag in B. discriminate.
           ++ right. apply negb_false_iff in B. exact B.
Qed.

Lemma ancestors_cons : forall c : taxon, c <> [] -> exists r, ancestors c = c :: r.
Proof.
  intros [|x c] H; [congruence|]. unfold ancestors. cbn [length ancestors_n].
  rewrite firstn_all2 by (simpl; lia). eauto.
Qed.

(** the set reported next to the consensus = the matched taxa strictly below it *)
Lemma others_below : forall l c, wf_taxa l = true -> (forall s, In s l -> comparable s c) ->
  filter (fun t => negb (mem t (ancestors c))) l = filter (strictb c) l.
Proof.
  intros l c W Hcmp. apply filter_ext_in. intros t Ht.
  assert (Nt : t <> []).
  { apply nonempty_neq. unfold wf_taxa in W. rewrite forallb_forall in W. apply W. exact Ht. }
  destruct (prefixb t c) eqn:P.
  - assert (M : mem t (ancestors c) = true) by (apply mem_ancestors; split; assumption).
    rewrite M. simpl. symmetry. destruct (strictb c t) eqn:S; [|reflexivity].
    apply strictb_spec in S. destruct S as [S N]. exfalso. apply N. apply prefixb_antisym; assumption.
  - assert (M : mem t (ancestors c) = false).
    { destruct (mem t (ancestors c)) eqn:M; [|reflexivity]. apply mem_ancestors in M. destruct M. congruence. }
    rewrite M. simpl. symmetry. apply strictb_spec. destruct (Hcmp t Ht) as [Q|Q]; [congruence|].
    split; [exact Q|]. intros E. subst. rewrite prefixb_refl in P. discriminate.
Qed.

(** ---- main theorem: the repaired algorithm computes the specification ---- *)

Lemma consensus_correct : forall l, wf_taxa l = true ->
  consensus l = Ok (consensus_spec l, below_spec (consensus_spec l) l).
Proof.
  intros [|t0 rest] W; [reflexivity|].
  unfold consensus. pose proof W as W0. unfold wf_taxa in W. cbn [forallb] in W.
  apply andb_true_iff in W. destruct W as [W1 W2]. apply nonempty_neq in W1.
  pose proof (trunk_loop_inv rest [t0] t0 false (inv_init t0 W1) W2) as H.
  change ([t0] ++ rest) with (t0 :: rest) in H.
  destruct (trunk_loop (ancestors t0) false rest) as [trunk|].
  - destruct H as [c [f [E HI]]]. subst trunk.
    rewrite (spec_of_inv _ _ _ HI). pose proof HI as [Hc [Hcmp _]].
    destruct (ancestors_cons c Hc) as [r Er]. unfold finish_consensus.
    rewrite Er at 1. cbn [below_spec]. rewrite others_below by assumption. reflexivity.
  - destruct H as [x [y [Hx [Hy [Nx [Ny E]]]]]].
    rewrite (spec_none _ x y Hx Hy Nx Ny E). reflexivity.
Qed.

(** ---- consequences ---- *)

Lemma consensus_cases : forall l, wf_taxa l = true -> l <> [] ->
  (exists c f, Inv l c f) \/
  (exists x y, In x l /\ In y l /\ x <> [] /\ y <> [] /\ lcp x y = []).
Proof.
  intros [|t0 rest] W N; [congruence|].
  unfold wf_taxa in W. cbn [forallb] in W. apply andb_true_iff in W. destruct W as [W1 W2].
  apply nonempty_neq in W1.
  pose proof (trunk_loop_inv rest [t0] t0 false (inv_init t0 W1) W2) as H.
  change ([t0] ++ rest) with (t0 :: rest) in H.
  destruct (trunk_loop (ancestors t0) false rest) as [trunk|].
  - left. destruct H as [c [f [_ HI]]]. eauto.
  - right. exact H.
Qed.

Lemma spec_comparable : forall l c, consensus_spec l = Some c -> forall t, In t l -> comparable t c.
Proof.
  intros l c H t Ht. unfold consensus_spec in H.
  destruct (lcp_all (maximal l)) as [r|] eqn:E; [|discriminate].
  destruct r as [|x r]; [discriminate|]. inversion H; subst c; clear H.
  destruct (lcp_all_glb _ _ E) as [G1 _].
  destruct (maximal_ext l t Ht) as [m [Hm P]].
  destruct (prefixb_comparable t (x :: r) m P (G1 m Hm)); [left | right]; assumption.
Qed.

Lemma wf_taxa_perm : forall l l', Permutation l l' -> wf_taxa l = true -> wf_taxa l' = true.
Proof.
  intros l l' P W. unfold wf_taxa in *. rewrite forallb_forall in *. intros x Hx. apply W.
  eapply Permutation_in; [apply Permutation_sym; exact P | exact Hx].
Qed.

Lemma filter_perm : forall (f : taxon -> bool) l l', Permutation l l' -> Permutation (filter f l) (filter f l').
Proof.
  intros f l l' P. induction P as [| x l l' P IH | x y l | l l' l'' P1 IH1 P2 IH2]; cbn [filter].
  - constructor.
  - destruct (f x); [constructor|]; exact IH.
  - destruct (f x), (f y); try apply Permutation_refl. apply perm_swap.
  - eapply Permutation_trans; eauto.
Qed.

Lemma order_independent_l : forall l l', wf_taxa l = true -> Permutation l l' ->
  exists c o o', consensus l = Ok (c, o) /\ consensus l' = Ok (c, o') /\ Permutation o o'.
Proof.
  intros l l' W P. pose proof (wf_taxa_perm _ _ P W) as W'.
  rewrite (consensus_correct l W), (consensus_correct l' W').
  assert (E : consensus_spec l' = consensus_spec l).
  { apply consensus_spec_set. intros t. split; apply Permutation_in; [apply Permutation_sym|]; exact P. }
  rewrite E. eexists _, _, _. split; [reflexivity|]. split; [reflexivity|].
  destruct (consensus_spec l); cbn [below_spec]; [apply filter_perm|]; exact P.
Qed.

(** even duplicates do not matter: same set of matched taxa, same prediction *)
Lemma set_independent_l : forall l l', wf_taxa l = true -> wf_taxa l' = true ->
  (forall t, In t l <-> In t l') ->
  exists c o o', consensus l = Ok (c, o) /\ consensus l' = Ok (c, o') /\ (forall t, In t o <-> In t o').
Proof.
  intros l l' W W' S. rewrite (consensus_correct l W), (consensus_correct l' W').
  rewrite (consensus_spec_set l' l) by (intros t; symmetry; apply S).
  eexists _, _, _. split; [reflexivity|]. split; [reflexivity|].
  intros t. destruct (consensus_spec l); cbn [below_spec]; [| apply S].
  rewrite !filter_In. rewrite S. reflexivity.
Qed.

Lemma comparable_l : forall l c o, wf_taxa l = true -> consensus l = Ok (Some c, o) ->
  c <> [] /\ forall t, In t l -> prefixb t c = true \/ prefixb c t = true.
Proof.
  intros l c o W H. rewrite (consensus_correct l W) in H. injection H as E _. split.
  - unfold consensus_spec in E. destruct (lcp_all (maximal l)) as [[|x r]|]; try discriminate.
    inversion E. discriminate.
  - intros t Ht. apply (spec_comparable l c E t Ht).
Qed.

Definition below (c : option taxon) (t : taxon) : Prop :=
  match c with Some c => strictb c t = true | None => True end.

Lemma warning_iff_l : forall l c o, wf_taxa l = true -> consensus l = Ok (c, o) ->
  (forall t, In t o <-> In t l /\ below c t) /\
  (o <> [] <-> exists t, In t l /\ below c t).
Proof.
  intros l c o W H. rewrite (consensus_correct l W) in H. injection H as Ec Eo. subst c o.
  assert (A : forall t, In t (below_spec (consensus_spec l) l) <-> In t l /\ below (consensus_spec l) t).
  { intros t. destruct (consensus_spec l); cbn [below_spec below]; [apply filter_In | tauto]. }
  split; [exact A|]. split.
  - intros N. destruct (below_spec (consensus_spec l) l) as [|t r] eqn:E; [congruence|].
    exists t. apply A. left. reflexivity.
  - intros [t Ht] N. apply A in Ht. rewrite N in Ht. destruct Ht.
Qed.

Lemma failed_iff_l : forall l, wf_taxa l = true ->
  ((exists o, consensus l = Ok (None, o)) <->
   l = [] \/ exists x y, In x l /\ In y l /\ no_common_root x y = true).
Proof.
  intros l W. rewrite (consensus_correct l W). split.
  - intros [o H]. injection H as E _. destruct l as [|t0 rest]; [left; reflexivity|]. right.
    destruct (consensus_cases (t0 :: rest) W) as [[c [f HI]] | [x [y [Hx [Hy [Nx [Ny L]]]]]]]; [discriminate | |].
    + rewrite (spec_of_inv _ _ _ HI) in E. discriminate.
    + exists x, y. repeat split; try assumption. apply lcp_nil_heads; assumption.
  - intros [E | [x [y [Hx [Hy R]]]]]; [subst; eexists; reflexivity|].
    assert (Nx : x <> []) by (apply nonempty_neq; unfold wf_taxa in W; rewrite forallb_forall in W; auto).
    assert (Ny : y <> []) by (apply nonempty_neq; unfold wf_taxa in W; rewrite forallb_forall in W; auto).
    rewrite (spec_none l x y Hx Hy Nx Ny); [eexists; reflexivity|]. apply lcp_nil_heads; assumption.
Qed.

(** all matched taxa on a single lineage: the most specific one is the consensus *)
Lemma single_lineage_l : forall l c, c <> [] -> In c l -> (forall s, In s l -> prefixb s c = true) ->
  consensus_spec l = Some c.
Proof.
  intros l c Hc Hin Hall. apply (spec_of_inv l c false). split; [exact Hc|]. split; [|split; assumption].
  intros s Hs. left. apply Hall. exact Hs.
Qed.

(** two most specific taxa [x], [y] that are incomparable: the consensus is at or above their
    lowest common ancestor, so it is the LCA when only these two are maximal *)
Lemma above_lca_l : forall l c x y, consensus_spec l = Some c -> In x (maximal l) -> In y (maximal l) ->
  prefixb c (lcp x y) = true.
Proof.
  intros l c x y H Hx Hy. unfold consensus_spec in H.
  destruct (lcp_all (maximal l)) as [r|] eqn:E; [|discriminate].
  destruct r as [|a r]; [discriminate|]. inversion H; subst c; clear H.
  destruct (lcp_all_glb _ _ E) as [G1 _]. apply lcp_glb; apply G1; assumption.
Qed.

(** ---- the algorithm as found is order dependent (DESIGN.md 6-c) ---- *)

Definition tS : taxon := [0; 1].       (* a species of genus [0] *)
Definition tS2 : taxon := [0; 2].      (* a sibling species *)
Definition tSS : taxon := [0; 1; 3].   (* a subspecies of the first *)

Lemma v0_order_dependent : exists l l', wf_taxa l = true /\ Permutation l l' /\
  consensus_v0 l = Ok (Some tSS, [tS2]) /\ consensus_v0 l' = Ok (Some [0], [tS; tSS; tS2]) /\
  consensus_spec l = Some [0].
Proof.
  exists [tS; tS2; tSS], [tS; tSS; tS2]. split; [reflexivity|]. split.
  - apply perm_skip. apply perm_swap.
  - vm_compute. repeat split; reflexivity.
Qed.

Lemma v0_incomparable : exists l c o t, wf_taxa l = true /\ consensus_v0 l = Ok (Some c, o) /\ In t l /\
  prefixb t c = false /\ prefixb c t = false.
Proof.
  exists [tS; tS2; tSS], tSS, [tS2], tS2. vm_compute. repeat split; try reflexivity. right; left; reflexivity.
Qed.

Example ex_three_level : consensus [tS; tS2; tSS] = Ok (Some [0], [tS; tS2; tSS])
  /\ consensus [tS; tSS; tS2] = Ok (Some [0], [tS; tSS; tS2])
  /\ consensus [tSS; tS] = Ok (Some tSS, [])
  /\ consensus [[0; 1]; [5; 6]] = Ok (None, [[0; 1]; [5; 6]]).
Proof. vm_compute. repeat split; reflexivity. Qed.

(** found by the correspondence run: no third level is needed -- of three matched sibling species
    the algorithm as found reports the last one *)
Lemma v0_three_siblings : exists l, wf_taxa l = true /\
  consensus_v0 l = Ok (Some [0; 3], [[0; 1]; [0; 2]]) /\ consensus_spec l = Some [0] /\
  consensus l = Ok (Some [0], l).
Proof. exists [[0; 1]; [0; 2]; [0; 3]]. vm_compute. repeat split; reflexivity. Qed.
