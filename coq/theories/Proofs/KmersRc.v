(** The reverse-complement encoder of [Gen/KmersPyx.v]. *)
From Coq Require Import ZArith List Bool Lia.
From GV Require Import Base.CSem Base.PyConv Gen.KmersPyx Spec.Kmers Proofs.KmersEnc.
Import ListNotations.
Open Scope Z_scope.

Definition rc_digit (b : Z) : option Z :=
  let n := u8 (Z.land b 223) in
  if n =? 65 then Some 3 else if n =? 67 then Some 2
  else if n =? 71 then Some 1 else if n =? 84 then Some 0 else None.

Lemma rc_digit_code b : 0 <= b < 256 -> rc_digit b = code (comp b).
Proof.
  intros Hb. apply opt_eqb_eq. revert b Hb. apply sweep. vm_compute. reflexivity.
Qed.

Lemma comp_byte b : 0 <= b < 256 -> 0 <= comp b < 256.
Proof.
  intros Hb.
  assert (H : ((0 <=? comp b) && (comp b <? 256)) = true).
  { revert b Hb. apply sweep. vm_compute. reflexivity. }
  lia.
Qed.

Lemma rc_body_step kmer i b exc idx k nuc :
  mv_get kmer (k - i - 1) = Some b -> 0 <= b < 256 ->
  0 <= idx -> idx * 4 + 3 < 18446744073709551616 ->
  c_kmer_to_index_rc_loop1_body kmer i (exc, idx, k, nuc) =
    match code (comp b) with
    | Some c => Go (exc, idx * 4 + c, k, u8 (Z.land b 223))
    | None => Ret (0, true)
    end.
Proof.
  intros Hget Hb Hidx Hlt.
  unfold c_kmer_to_index_rc_loop1_body. rewrite Hget.
  rewrite <- (rc_digit_code b Hb). unfold rc_digit.
  assert (Hs : u64 (Z.shiftl idx 2) = idx * 4).
  { rewrite Z.shiftl_mul_pow2 by lia. change (2 ^ 2) with 4. apply u64_small. lia. }
  rewrite Hs.
  destruct (u8 (Z.land b 223) =? 65); [rewrite u64_small by lia; reflexivity|].
  destruct (u8 (Z.land b 223) =? 67); [rewrite u64_small by lia; reflexivity|].
  destruct (u8 (Z.land b 223) =? 71); [rewrite u64_small by lia; reflexivity|].
  destruct (u8 (Z.land b 223) =? 84); [rewrite u64_small by lia; f_equal; f_equal; f_equal; lia|].
  reflexivity.
Qed.

Lemma rc_loop todo : forall done kmer exc idx nuc,
  rev kmer = done ++ todo ->
  Forall (fun b => 0 <= b < 256) todo ->
  0 <= idx < 4 ^ Z.of_nat (length done) ->
  (length done + length todo <= 32)%nat ->
  exists nuc',
  for_range_from (length todo) (mv_len done) (c_kmer_to_index_rc_loop1_body kmer)
                 (exc, idx, mv_len kmer, nuc) =
    match codes (map comp todo) with
    | Some ds => Go (exc, idx * 4 ^ Z.of_nat (length todo) + pos_value ds, mv_len kmer, nuc')
    | None => Ret (0, true)
    end.
Proof.
  induction todo as [|b t IH]; intros done kmer exc idx nuc Hrev Hbytes Hidx Hlen.
  - exists nuc. simpl. f_equal. f_equal. f_equal. f_equal. lia.
  - inversion Hbytes as [|? ? Hb Ht]; subst.
    cbn [for_range_from length].
    assert (Hp : 4 ^ Z.of_nat (length done) <= 4 ^ Z.of_nat 31).
    { apply pow4_mono. simpl in Hlen. lia. }
    change (4 ^ Z.of_nat 31) with 4611686018427387904 in Hp.
    assert (Hk : kmer = rev t ++ b :: rev done).
    { rewrite <- (rev_involutive kmer), Hrev, rev_app_distr. simpl. now rewrite <- app_assoc. }
    assert (Hget : mv_get kmer (mv_len kmer - mv_len done - 1) = Some b).
    { rewrite Hk at 1.
      replace (mv_len kmer - mv_len done - 1) with (mv_len (rev t)).
      - apply mv_get_app_r.
      - rewrite Hk. unfold mv_len. rewrite app_length. simpl. rewrite !rev_length. lia. }
    rewrite (rc_body_step kmer (mv_len done) b) by (auto; lia).
    cbn [codes map]. destruct (code (comp b)) as [c|] eqn:Ec; [|exists nuc; reflexivity].
    pose proof (code_range _ _ Ec) as Hc.
    specialize (IH (done ++ [b]) kmer exc (idx * 4 + c) (u8 (Z.land b 223))).
    rewrite app_length in IH. simpl length in IH.
    rewrite Nat.add_1_r, pow4_S in IH.
    destruct IH as [nuc' IH]; [rewrite <- app_assoc; exact Hrev | exact Ht | lia | simpl in Hlen; lia |].
    exists nuc'.
    replace (mv_len done + 1) with (mv_len (done ++ [b])) by (unfold mv_len; rewrite app_length; simpl; lia).
    rewrite IH.
    destruct (codes (map comp t)) as [ds|] eqn:Et; [|reflexivity].
    destruct (codes_range _ _ Et) as [_ Hl]. rewrite map_length in Hl.
    f_equal. f_equal. f_equal. f_equal.
    cbn [pos_value]. rewrite Hl, pow4_S. ring.
Qed.

Theorem c_kmer_to_index_rc_spec w exc :
  Forall (fun b => 0 <= b < 256) w -> (length w <= 32)%nat ->
  c_kmer_to_index_rc w exc =
    match codes (spec_revcomp w) with
    | Some ds => Ok (pos_value ds, exc)
    | None => Ok (0, true)
    end.
Proof.
  intros Hb Hl. unfold c_kmer_to_index_rc, for_range.
  assert (Hb' : Forall (fun b => 0 <= b < 256) (rev w)).
  { apply Forall_forall. intros x Hx. rewrite Forall_forall in Hb. apply Hb. now apply in_rev. }
  destruct (rc_loop (rev w) [] w exc 0 0) as [nuc' H];
    [reflexivity | exact Hb' | simpl; lia | rewrite rev_length; simpl; lia |].
  rewrite rev_length in H. change (mv_len []) with 0 in H.
  unfold mv_len at 1. rewrite Nat2Z.id. rewrite H.
  unfold spec_revcomp. rewrite map_rev.
  destruct (codes (rev (map comp w))); reflexivity.
Qed.

Theorem kmer_to_index_rc_spec w :
  Forall (fun b => 0 <= b < 256) w ->
  kmer_to_index_rc w =
    match spec_encode (spec_revcomp w) with Some v => Ok v | None => Error ValueError end.
Proof.
  intros Hb. unfold kmer_to_index_rc, spec_encode, mv_len.
  assert (Hlen : length (spec_revcomp w) = length w)
    by (unfold spec_revcomp; now rewrite rev_length, map_length).
  rewrite Hlen.
  destruct (Z.of_nat (length w) >? 32) eqn:E.
  - assert (Z.of_nat (length w) <=? 32 = false) as -> by lia. reflexivity.
  - assert (Z.of_nat (length w) <=? 32 = true) as -> by lia.
    cbn [bind]. rewrite c_kmer_to_index_rc_spec by (auto; lia).
    destruct (codes (spec_revcomp w)); reflexivity.
Qed.

Lemma revcomp_bytes w :
  Forall (fun b => 0 <= b < 256) w -> Forall (fun b => 0 <= b < 256) (spec_revcomp w).
Proof.
  intros H. unfold spec_revcomp. apply Forall_forall. intros x Hx.
  apply in_rev in Hx. apply in_map_iff in Hx.
  destruct Hx as [y [<- Hy]]. apply comp_byte. rewrite Forall_forall in H. auto.
Qed.

(** the index of the reverse complement = reverse-complementing first, errors included *)
Theorem kmer_to_index_rc_revcomp w :
  Forall (fun b => 0 <= b < 256) w ->
  kmer_to_index_rc w = kmer_to_index (spec_revcomp w).
Proof.
  intros Hb. rewrite kmer_to_index_rc_spec by assumption.
  rewrite kmer_to_index_spec by (apply revcomp_bytes; assumption). reflexivity.
Qed.
