(** C11 -- the CSV reader inverts the CSV writer (Model/C11Csv.v). *)
From Coq Require Import ZArith List Bool Lia.
From GV Require Import Model.C11Csv.
Import ListNotations.
Open Scope Z_scope.

Definition Q2 : str := [13; 10].

(** ---- characters ---- *)

Lemma nq2_false : forall c, needs_quote Q2 c = false ->
  (c =? 44) = false /\ (c =? 34) = false /\ is_nl c = false.
Proof.
  intros c H. unfold needs_quote, Q2, in_str, is_nl in *. cbn [existsb] in H.
  destruct (c =? 44); destruct (c =? 34); destruct (c =? 13); destruct (c =? 10);
    cbn in *; auto; discriminate.
Qed.

Lemma existsb_cons_false : forall (A : Type) (p : A -> bool) a l,
  existsb p (a :: l) = false -> p a = false /\ existsb p l = false.
Proof. intros A p a l H. cbn in H. apply orb_false_iff in H. exact H. Qed.

(** ---- runs of characters inside a field ---- *)

Lemma run_bare : forall f fld row out rest, existsb (needs_quote Q2) f = false ->
  run (PS IFD fld row out) (f ++ rest) = run (PS IFD (rev f ++ fld) row out) rest.
Proof.
  induction f as [|c f IH]; intros fld row out rest H.
  - reflexivity.
  - apply existsb_cons_false in H. destruct H as [Hc Hf].
    apply nq2_false in Hc. destruct Hc as (H44 & H34 & Hnl).
    cbn [app run step]. rewrite Hnl, H44. rewrite IH by exact Hf.
    cbn [rev]. rewrite <- app_assoc. reflexivity.
Qed.

Lemma run_dbl : forall f fld row out rest,
  run (PS IQ fld row out) (dbl f ++ rest) = run (PS IQ (rev f ++ fld) row out) rest.
Proof.
  induction f as [|c f IH]; intros fld row out rest.
  - reflexivity.
  - cbn [dbl]. destruct (c =? 34) eqn:E.
    + apply Z.eqb_eq in E. subst c. cbn [app run step Z.eqb Pos.eqb].
      rewrite IH. cbn [rev]. rewrite <- app_assoc. reflexivity.
    + cbn [app run step]. rewrite E. rewrite IH. cbn [rev]. rewrite <- app_assoc. reflexivity.
Qed.

(** one written field followed by a comma, read from START_FIELD *)
Lemma run_field_comma : forall f row out rest,
  run (PS SF [] row out) (wfield Q2 f ++ 44 :: rest) = run (PS SF [] (f :: row) out) rest.
Proof.
  intros f row out rest. unfold wfield. destruct (existsb (needs_quote Q2) f) eqn:E.
  - cbn [app run step is_nl Z.eqb Pos.eqb orb start_field]. rewrite <- app_assoc. rewrite run_dbl.
    cbn [app run step Z.eqb Pos.eqb]. unfold save. rewrite app_nil_r, rev_involutive. reflexivity.
  - destruct f as [|c f].
    + reflexivity.
    + pose proof E as E0. apply existsb_cons_false in E. destruct E as [Hc Hf].
      apply nq2_false in Hc. destruct Hc as (H44 & H34 & Hnl).
      cbn [app run step start_field]. rewrite Hnl. unfold start_field. rewrite H34, H44.
      rewrite run_bare by exact Hf. cbn [run step is_nl Z.eqb Pos.eqb orb]. unfold save.
      rewrite rev_app_distr, rev_involutive. reflexivity.
Qed.

(** ... followed by the line feed that ends the record *)
Lemma run_field_lf : forall f row out rest,
  run (PS SF [] row out) (wfield Q2 f ++ 10 :: rest) = run (PS SR [] [] (rev (f :: row) :: out)) rest.
Proof.
  intros f row out rest. unfold wfield. destruct (existsb (needs_quote Q2) f) eqn:E.
  - cbn [app run step is_nl Z.eqb Pos.eqb orb start_field]. rewrite <- app_assoc. rewrite run_dbl.
    cbn [app run step Z.eqb Pos.eqb is_nl orb]. unfold save, emit, eol. cbn [Z.eqb Pos.eqb]. rewrite app_nil_r, rev_involutive. reflexivity.
  - destruct f as [|c f].
    + reflexivity.
    + pose proof E as E0. apply existsb_cons_false in E. destruct E as [Hc Hf].
      apply nq2_false in Hc. destruct Hc as (H44 & H34 & Hnl).
      cbn [app run step start_field]. rewrite Hnl. unfold start_field. rewrite H34, H44.
      rewrite run_bare by exact Hf. cbn [run step is_nl Z.eqb Pos.eqb orb]. unfold save, emit, eol. cbn [Z.eqb Pos.eqb].
      rewrite rev_app_distr, rev_involutive. reflexivity.
Qed.

(** a non-empty list of fields, from START_FIELD *)
Lemma run_fields : forall fs f row out rest,
  run (PS SF [] row out) (join_fields (map (wfield Q2) (f :: fs)) ++ 10 :: rest)
  = run (PS SR [] [] (rev (rev (f :: fs) ++ row) :: out)) rest.
Proof.
  induction fs as [|g fs IH]; intros f row out rest.
  - cbn [map join_fields rev app]. apply run_field_lf.
  - change (join_fields (map (wfield Q2) (f :: g :: fs)))
      with (wfield Q2 f ++ 44 :: join_fields (map (wfield Q2) (g :: fs))).
    rewrite <- app_assoc. cbn [app]. rewrite run_field_comma. rewrite IH.
    cbn [rev]. rewrite <- !app_assoc. reflexivity.
Qed.

(** START_RECORD behaves like START_FIELD on anything but a line break *)
Lemma step_sr_sf : forall c out, is_nl c = false -> step (PS SR [] [] out) c = step (PS SF [] [] out) c.
Proof. intros c out H. cbn [step]. unfold step_sr. rewrite H. reflexivity. Qed.

Definition hd_not_nl (t : str) : Prop := match t with c :: _ => is_nl c = false | [] => False end.

Lemma run_sr_sf : forall t out, hd_not_nl t -> run (PS SR [] [] out) t = run (PS SF [] [] out) t.
Proof. intros [|c t] out H; [destruct H|]. cbn [run]. rewrite step_sr_sf by exact H. reflexivity. Qed.

Lemma hd_not_nl_app : forall a b, hd_not_nl a -> hd_not_nl (a ++ b).
Proof. intros [|c a] b H; [destruct H|exact H]. Qed.

Lemma wfield_hd : forall f, f <> [] -> hd_not_nl (wfield Q2 f).
Proof.
  intros f Hf. unfold wfield. destruct (existsb (needs_quote Q2) f) eqn:E.
  - reflexivity.
  - destruct f as [|c f]; [congruence|]. apply existsb_cons_false in E. destruct E as [Hc _].
    apply nq2_false in Hc. cbn. tauto.
Qed.

(** the text of a record with at least one field that is not the single empty field starts
    with a character that is not a line break *)
Lemma record_hd : forall f fs, (f :: fs) <> [[]] ->
  hd_not_nl (join_fields (map (wfield Q2) (f :: fs)) ++ [10]).
Proof.
  intros f fs H. apply hd_not_nl_app. destruct fs as [|g fs].
  - cbn [map join_fields]. apply wfield_hd. intro; subst; congruence.
  - change (join_fields (map (wfield Q2) (f :: g :: fs)))
      with (wfield Q2 f ++ 44 :: join_fields (map (wfield Q2) (g :: fs))).
    destruct f as [|c f].
    + reflexivity.
    + apply hd_not_nl_app. apply wfield_hd. congruence.
Qed.

(** what the adapter does to a record the csv writer terminated with CR LF *)
Lemma adapter_crlf : forall body, adapter_write [10] (body ++ Q2) = body ++ [10].
Proof.
  intros body. unfold adapter_write, Q2. rewrite app_length. cbn [length].
  replace (length body + 2 - 2)%nat with (length body + 0)%nat by lia.
  rewrite firstn_app_2. cbn [firstn]. rewrite app_nil_r. reflexivity.
Qed.

Lemma fixed_record : forall row,
  adapter_write [10] (write_record Q2 row)
  = match row with [[]] => [34; 34; 10] | _ => join_fields (map (wfield Q2) row) ++ [10] end.
Proof.
  intros row. unfold write_record.
  destruct row as [|f fs]; [apply (adapter_crlf [])|].
  destruct f as [|c f]; destruct fs as [|g fs]; try (rewrite adapter_crlf; reflexivity).
Qed.

(** one record, from START_RECORD *)
Lemma run_record : forall row out rest,
  run (PS SR [] [] out) (adapter_write [10] (write_record Q2 row) ++ rest)
  = run (PS SR [] [] (row :: out)) rest.
Proof.
  intros row out rest. rewrite fixed_record.
  destruct row as [|f fs].
  - reflexivity.
  - assert (D : (f :: fs) = [[]] \/ (f :: fs) <> [[]]).
    { destruct f; destruct fs; try (right; congruence). left; reflexivity. }
    destruct D as [D|D].
    + inversion D; subst. reflexivity.
    + transitivity (run (PS SR [] [] out) ((join_fields (map (wfield Q2) (f :: fs)) ++ [10]) ++ rest)).
      { destruct f; destruct fs; try reflexivity. exfalso; apply D; reflexivity. }
      rewrite run_sr_sf by (apply hd_not_nl_app, record_hd, D).
      rewrite <- app_assoc. cbn [app]. rewrite run_fields. rewrite app_nil_r, rev_involutive. reflexivity.
Qed.

Lemma run_records : forall rows out rest,
  run (PS SR [] [] out) (csv_write_fixed rows ++ rest) = run (PS SR [] [] (rev rows ++ out)) rest.
Proof.
  unfold csv_write_fixed. induction rows as [|row rows IH]; intros out rest.
  - reflexivity.
  - cbn [map concat]. rewrite <- app_assoc. rewrite (run_record row). rewrite IH.
    cbn [rev]. rewrite <- app_assoc. reflexivity.
Qed.

(** the repaired writer is inverted by the reader, for all rows of all strings *)
Lemma csv_roundtrip_fixed_l : forall rows, csv_parse (csv_write_fixed rows) = rows.
Proof.
  intros rows. unfold csv_parse. rewrite <- (app_nil_r (csv_write_fixed rows)).
  rewrite run_records. cbn [run finish]. rewrite app_nil_r. apply rev_involutive.
Qed.

(** ---- the unchanged writer ---- *)

Lemma nq_split : forall c, needs_quote Q2 c = needs_quote [10] c || (c =? 13).
Proof.
  intros c. unfold needs_quote, Q2, in_str. cbn [existsb].
  destruct (c =? 44); destruct (c =? 34); destruct (c =? 13); destruct (c =? 10); reflexivity.
Qed.

Lemma existsb_nq_split : forall f,
  existsb (needs_quote Q2) f = existsb (needs_quote [10]) f || in_str 13 f.
Proof.
  induction f as [|c f IH]; [reflexivity|]. unfold in_str in *. cbn [existsb]. rewrite IH, nq_split.
  rewrite (Z.eqb_sym 13 c).
  destruct (needs_quote [10] c); destruct (c =? 13); destruct (existsb (needs_quote [10]) f);
    destruct (existsb (Z.eqb 13) f); reflexivity.
Qed.

Lemma wfield_old_fixed : forall f, cr_ok f = true -> wfield [10] f = wfield Q2 f.
Proof.
  intros f H. unfold wfield. rewrite existsb_nq_split. unfold cr_ok in H.
  destruct (existsb (needs_quote [10]) f); destruct (in_str 13 f); try reflexivity. discriminate.
Qed.

Lemma old_record : forall row, forallb cr_ok row = true ->
  write_record [10] row = adapter_write [10] (write_record Q2 row).
Proof.
  intros row H. rewrite fixed_record. unfold write_record.
  assert (M : map (wfield [10]) row = map (wfield Q2) row).
  { apply map_ext_in. intros f Hf. apply wfield_old_fixed.
    rewrite forallb_forall in H. apply H, Hf. }
  rewrite M. destruct row as [|f fs]; [reflexivity|]. destruct f; destruct fs; reflexivity.
Qed.

Lemma old_eq_fixed : forall rows, rows_cr_ok rows = true -> csv_write_old rows = csv_write_fixed rows.
Proof.
  unfold rows_cr_ok, csv_write_old, csv_write_fixed. induction rows as [|row rows IH]; intros H.
  - reflexivity.
  - cbn [forallb] in H. apply andb_true_iff in H. destruct H as [H1 H2].
    cbn [map concat]. rewrite IH by exact H2. rewrite old_record by exact H1. reflexivity.
Qed.

Lemma csv_roundtrip_old_l : forall rows, rows_cr_ok rows = true -> csv_parse (csv_write_old rows) = rows.
Proof. intros rows H. rewrite old_eq_fixed by exact H. apply csv_roundtrip_fixed_l. Qed.

(** the side condition is needed: label [a CR b] next to a field [c] comes back as two records *)
Lemma csv_lone_cr_refuted_l :
  exists rows, csv_parse (csv_write_old rows) <> rows /\
               csv_write_old rows = [97; 13; 98; 44; 99; 10] /\
               csv_parse (csv_write_old rows) = [[[97]]; [[98]; [99]]] /\
               csv_parse (csv_write_fixed rows) = rows.
Proof.
  exists [[[97; 13; 98]; [99]]]. repeat split; try (vm_compute; congruence).
Qed.

(** the output differs from the old one only where the old one was not invertible *)
Lemma csv_fixed_conservative_l : forall rows, rows_cr_ok rows = true -> csv_write_fixed rows = csv_write_old rows.
Proof. intros rows H. symmetry. apply old_eq_fixed, H. Qed.

(** non-vacuity: commas, quotes, LF, CR LF, CR inside a quoted field, empty rows and fields *)
Example csv_example :
  let rows := [[[97; 44; 98]; [34]; []]; [[]]; []; [[13; 10]; [10]; [233; 28450; 128512]]; [[13; 44]]] in
  rows_cr_ok rows = true /\ csv_parse (csv_write_old rows) = rows.
Proof. vm_compute. split; reflexivity. Qed.
