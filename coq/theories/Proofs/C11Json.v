(** C11 -- JSON string escaping (ensure_ascii) is inverted by the JSON string scanner. *)
From Coq Require Import ZArith List Bool Lia.
From GV Require Import Model.C11Csv Model.C11Json.
Import ListNotations.
Open Scope Z_scope.

(** ---- hex digits ---- *)

Lemma unhex_hexdig : forall d, 0 <= d < 16 -> unhex (hexdig d) = Some d.
Proof.
  intros d H. unfold hexdig, unhex.
  destruct (d <? 10) eqn:E.
  - apply Z.ltb_lt in E.
    replace ((48 <=? 48 + d) && (48 + d <=? 57)) with true
      by (symmetry; apply andb_true_iff; split; apply Z.leb_le; lia).
    f_equal; lia.
  - apply Z.ltb_ge in E.
    replace ((48 <=? 87 + d) && (87 + d <=? 57)) with false
      by (symmetry; apply andb_false_iff; right; apply Z.leb_gt; lia).
    replace ((97 <=? 87 + d) && (87 + d <=? 102)) with true
      by (symmetry; apply andb_true_iff; split; apply Z.leb_le; lia).
    f_equal; lia.
Qed.

Lemma read4_u_escape : forall n t, 0 <= n < 65536 -> read4 (skipn 2 (u_escape n) ++ t) = Some (n, t).
Proof.
  intros n t H. unfold u_escape. cbn [skipn app read4].
  assert (H3 : 0 <= n / 4096 < 16) by (split; [apply Z.div_pos; lia | apply Z.div_lt_upper_bound; lia]).
  assert (H2 : 0 <= (n / 256) mod 16 < 16) by (apply Z.mod_pos_bound; lia).
  assert (H1 : 0 <= (n / 16) mod 16 < 16) by (apply Z.mod_pos_bound; lia).
  assert (H0 : 0 <= n mod 16 < 16) by (apply Z.mod_pos_bound; lia).
  rewrite !unhex_hexdig by assumption.
  f_equal. f_equal.
  Local Ltac Zify.zify_post_hook ::= Z.to_euclidean_division_equations.
  lia.
Qed.

Lemma u_escape_shape : forall n, u_escape n = 92 :: 117 :: skipn 2 (u_escape n).
Proof. reflexivity. Qed.

Lemma hexdig_pos : forall d, 0 <= d -> 32 <= hexdig d.
Proof. intros d H. unfold hexdig. destruct (d <? 10); lia. Qed.

(** ---- what can follow a high surrogate ---- *)

Lemma low_follow_quote : forall t, low_follow (34 :: t) = LNone.
Proof. intros [|u r]; reflexivity. Qed.

Lemma low_follow_u : forall n t, 0 <= n < 65536 ->
  low_follow (u_escape n ++ t) = if is_low n then LSome n t else LNone.
Proof.
  intros n t H. rewrite u_escape_shape. cbn [app low_follow Z.eqb Pos.eqb andb].
  rewrite read4_u_escape by exact H. reflexivity.
Qed.

Lemma astral_bounds : forall c, 65536 <= c <= 1114111 ->
  55296 <= 55296 + (c - 65536) / 1024 <= 56319 /\ 56320 <= 56320 + (c - 65536) mod 1024 <= 57343.
Proof.
  intros c H.
  assert (0 <= (c - 65536) / 1024 < 1024) by (split; [apply Z.div_pos; lia | apply Z.div_lt_upper_bound; lia]).
  assert (0 <= (c - 65536) mod 1024 < 1024) by (apply Z.mod_pos_bound; lia).
  lia.
Qed.

(** the escape of a code point that is not a low surrogate never looks like one *)
Lemma low_follow_escape : forall c t, cp_ok c = true -> is_low c = false ->
  low_follow (escape_char c ++ t) = LNone.
Proof.
  intros c t Hc Hl. unfold cp_ok in Hc. apply andb_true_iff in Hc. destruct Hc as [C0 C1].
  apply Z.leb_le in C0. apply Z.leb_le in C1. unfold escape_char.
  destruct (c =? 34) eqn:E1; [reflexivity|].
  destruct (c =? 92) eqn:E2; [reflexivity|].
  destruct (c =? 10) eqn:E3; [reflexivity|].
  destruct (c =? 13) eqn:E4; [reflexivity|].
  destruct (c =? 9) eqn:E5; [reflexivity|].
  destruct (c =? 12) eqn:E6; [reflexivity|].
  destruct (c =? 8) eqn:E7; [reflexivity|].
  destruct ((32 <=? c) && (c <=? 126)) eqn:E8.
  - cbn [app low_follow]. destruct t as [|u r]; [reflexivity|]. rewrite E2. reflexivity.
  - destruct (c <? 65536) eqn:E9.
    + apply Z.ltb_lt in E9. rewrite low_follow_u by lia. rewrite Hl. reflexivity.
    + apply Z.ltb_ge in E9. cbv zeta. rewrite <- app_assoc.
      destruct (astral_bounds c ltac:(lia)) as [B1 B2].
      rewrite low_follow_u by lia.
      replace (is_low (55296 + (c - 65536) / 1024)) with false; [reflexivity|].
      symmetry. unfold is_low. apply andb_false_iff. left. apply Z.leb_gt. lia.
Qed.

(** ---- one code point ---- *)

Lemma scan_S : forall fuel acc t, scan (S fuel) acc t =
  match t with
  | [] => XErr DecodeError
  | c :: r =>
      if c =? 34 then XOk (rev acc, r)
      else if c =? 92 then
        match r with
        | [] => XErr DecodeError
        | e :: r2 =>
            if e =? 117 then
              match read4 r2 with
              | None => XErr DecodeError
              | Some (u, r3) =>
                  if is_high u then
                    match low_follow r3 with
                    | LSome u2 r5 => scan fuel (65536 + (u - 55296) * 1024 + (u2 - 56320) :: acc) r5
                    | LErr => XErr DecodeError
                    | LNone => scan fuel (u :: acc) r3
                    end
                  else scan fuel (u :: acc) r3
              end
            else match simple_escape e with
                 | Some x => scan fuel (x :: acc) r2
                 | None => XErr DecodeError
                 end
        end
      else if c <? 32 then XErr DecodeError
      else scan fuel (c :: acc) r
  end.
Proof. reflexivity. Qed.

Lemma scan_u : forall n fuel acc t, 0 <= n < 65536 ->
  (is_high n = true -> low_follow t = LNone) ->
  scan (S fuel) acc (u_escape n ++ t) = scan fuel (n :: acc) t.
Proof.
  intros n fuel acc t H Hh. rewrite scan_S, u_escape_shape. cbn [app Z.eqb Pos.eqb].
  rewrite read4_u_escape by exact H.
  destruct (is_high n) eqn:E; [rewrite Hh by reflexivity|]; reflexivity.
Qed.

Lemma scan_char : forall c fuel acc t, cp_ok c = true ->
  (is_high c = true -> low_follow t = LNone) ->
  scan (S (S fuel)) acc (escape_char c ++ t) = scan (S fuel) (c :: acc) t.
Proof.
  intros c fuel acc t Hc Hh. pose proof Hc as Hc'. unfold cp_ok in Hc. apply andb_true_iff in Hc.
  destruct Hc as [C0 C1]. apply Z.leb_le in C0. apply Z.leb_le in C1. unfold escape_char.
  destruct (c =? 34) eqn:E1; [apply Z.eqb_eq in E1; subst; reflexivity|].
  destruct (c =? 92) eqn:E2; [apply Z.eqb_eq in E2; subst; reflexivity|].
  destruct (c =? 10) eqn:E3; [apply Z.eqb_eq in E3; subst; reflexivity|].
  destruct (c =? 13) eqn:E4; [apply Z.eqb_eq in E4; subst; reflexivity|].
  destruct (c =? 9) eqn:E5; [apply Z.eqb_eq in E5; subst; reflexivity|].
  destruct (c =? 12) eqn:E6; [apply Z.eqb_eq in E6; subst; reflexivity|].
  destruct (c =? 8) eqn:E7; [apply Z.eqb_eq in E7; subst; reflexivity|].
  destruct ((32 <=? c) && (c <=? 126)) eqn:E8.
  - apply andb_true_iff in E8. destruct E8 as [A B]. apply Z.leb_le in A.
    rewrite scan_S. cbn [app]. rewrite E1, E2.
    replace (c <? 32) with false by (symmetry; apply Z.ltb_ge; lia). reflexivity.
  - destruct (c <? 65536) eqn:E9.
    + apply Z.ltb_lt in E9. apply scan_u; [lia|exact Hh].
    + apply Z.ltb_ge in E9. cbv zeta. rewrite <- app_assoc.
      destruct (astral_bounds c ltac:(lia)) as [B1 B2].
      set (hi := 55296 + (c - 65536) / 1024) in *. set (lo := 56320 + (c - 65536) mod 1024) in *.
      rewrite scan_S, (u_escape_shape hi). cbn [app Z.eqb Pos.eqb].
      rewrite read4_u_escape by lia.
      replace (is_high hi) with true
        by (symmetry; unfold is_high; apply andb_true_iff; split; apply Z.leb_le; lia).
      rewrite low_follow_u by lia.
      replace (is_low lo) with true
        by (symmetry; unfold is_low; apply andb_true_iff; split; apply Z.leb_le; lia).
      f_equal. f_equal. subst hi lo.
      Local Ltac Zify.zify_post_hook ::= Z.to_euclidean_division_equations.
      lia.
Qed.

(** ---- whole strings ---- *)

Lemma escape_nonempty : forall c, (1 <= length (escape_char c))%nat.
Proof.
  intros c. unfold escape_char.
  repeat match goal with |- context [if ?b then _ else _] => destruct b end;
    try (cbn; lia).
Qed.

Lemma escaped_length : forall s, (length s <= length (flat_map escape_char s))%nat.
Proof.
  induction s as [|c s IH]; [cbn; lia|]. cbn [flat_map length]. rewrite app_length.
  pose proof (escape_nonempty c). lia.
Qed.

Lemma scan_string : forall s fuel acc rest, str_ok s = true -> (length s < fuel)%nat ->
  scan fuel acc (flat_map escape_char s ++ 34 :: rest) = XOk (rev acc ++ s, rest).
Proof.
  induction s as [|c s IH]; intros fuel acc rest Hok Hf.
  - destruct fuel as [|fuel]; [cbn in Hf; lia|]. cbn [flat_map app]. rewrite scan_S.
    cbn [Z.eqb Pos.eqb]. rewrite app_nil_r. reflexivity.
  - unfold str_ok in Hok. apply andb_true_iff in Hok. destruct Hok as [Hcp Hns].
    cbn [forallb] in Hcp. apply andb_true_iff in Hcp. destruct Hcp as [Hc Hcs].
    cbn [length] in Hf. destruct fuel as [|[|fuel]]; try lia.
    cbn [flat_map]. rewrite <- app_assoc. rewrite scan_char.
    + rewrite IH.
      * cbn [rev]. rewrite <- app_assoc. reflexivity.
      * unfold str_ok. rewrite Hcs. cbn [andb]. destruct s as [|d s]; [reflexivity|].
        cbn [no_sur_pair] in Hns. apply andb_true_iff in Hns. apply Hns.
      * lia.
    + exact Hc.
    + intros Hh. destruct s as [|d s].
      * cbn [flat_map app]. apply low_follow_quote.
      * cbn [flat_map]. rewrite <- app_assoc. apply low_follow_escape.
        -- cbn [forallb] in Hcs. apply andb_true_iff in Hcs. apply Hcs.
        -- cbn [no_sur_pair] in Hns. apply andb_true_iff in Hns. destruct Hns as [Hn _].
           rewrite Hh in Hn. cbn [andb] in Hn. destruct (is_low d); [discriminate|reflexivity].
Qed.

(** reading back the literal written for [s], whatever follows it *)
Lemma json_string_roundtrip_l : forall s rest, str_ok s = true ->
  json_read_string (json_write_string s ++ rest) = XOk (s, rest).
Proof.
  intros s rest H. unfold json_write_string, json_read_string. cbn [app Z.eqb Pos.eqb].
  rewrite <- app_assoc. cbn [app]. apply (scan_string s _ [] rest H).
  rewrite app_length. pose proof (escaped_length s). cbn [length]. lia.
Qed.

(** the literal is printable ASCII, whatever the string contains (ensure_ascii) *)
Definition ascii_printable (t : str) : Prop := Forall (fun x => 32 <= x <= 126) t.

Lemma hexdig_range : forall d, 0 <= d < 16 -> 48 <= hexdig d <= 102.
Proof. intros d H. unfold hexdig. destruct (d <? 10) eqn:E; [apply Z.ltb_lt in E|apply Z.ltb_ge in E]; lia. Qed.

Lemma u_escape_ascii : forall n, 0 <= n < 65536 -> ascii_printable (u_escape n).
Proof.
  intros n Hn. unfold u_escape, ascii_printable.
  assert (H3 : 0 <= n / 4096 < 16) by (split; [apply Z.div_pos; lia | apply Z.div_lt_upper_bound; lia]).
  assert (H2 : 0 <= (n / 256) mod 16 < 16) by (apply Z.mod_pos_bound; lia).
  assert (H1 : 0 <= (n / 16) mod 16 < 16) by (apply Z.mod_pos_bound; lia).
  assert (H0 : 0 <= n mod 16 < 16) by (apply Z.mod_pos_bound; lia).
  apply hexdig_range in H3, H2, H1, H0.
  repeat constructor; lia.
Qed.

Lemma escape_ascii : forall c, cp_ok c = true -> ascii_printable (escape_char c).
Proof.
  intros c Hc. unfold cp_ok in Hc. apply andb_true_iff in Hc.
  destruct Hc as [C0 C1]. apply Z.leb_le in C0. apply Z.leb_le in C1. unfold escape_char, ascii_printable.
  destruct (c =? 34) eqn:E1; [repeat constructor; lia|].
  destruct (c =? 92) eqn:E2; [repeat constructor; lia|].
  destruct (c =? 10) eqn:E3; [repeat constructor; lia|].
  destruct (c =? 13) eqn:E4; [repeat constructor; lia|].
  destruct (c =? 9) eqn:E5; [repeat constructor; lia|].
  destruct (c =? 12) eqn:E6; [repeat constructor; lia|].
  destruct (c =? 8) eqn:E7; [repeat constructor; lia|].
  destruct ((32 <=? c) && (c <=? 126)) eqn:E8.
  - apply andb_true_iff in E8. destruct E8 as [A B]. apply Z.leb_le in A. apply Z.leb_le in B.
    repeat constructor; lia.
  - destruct (c <? 65536) eqn:E9.
    + apply Z.ltb_lt in E9. apply u_escape_ascii. lia.
    + apply Z.ltb_ge in E9. cbv zeta. destruct (astral_bounds c ltac:(lia)) as [B1 B2].
      apply Forall_app. split; apply u_escape_ascii; lia.
Qed.

Lemma json_string_ascii_l : forall s, forallb cp_ok s = true -> ascii_printable (json_write_string s).
Proof.
  intros s H. unfold json_write_string, ascii_printable. constructor; [lia|].
  apply Forall_app. split; [|repeat constructor; lia].
  induction s as [|c s IH]; [constructor|]. cbn [forallb] in H. apply andb_true_iff in H.
  destruct H as [Hc Hs]. cbn [flat_map]. apply Forall_app. split; [apply escape_ascii, Hc|apply IH, Hs].
Qed.

(** the condition on surrogates is needed: the two code points U+D83D U+DE00 (not Unicode text)
    are written like the single character U+1F600 and read back as that character *)
Lemma json_surrogate_pair_refuted_l :
  exists s, forallb cp_ok s = true /\ str_ok s = false /\
            json_write_string s = json_write_string [128512] /\
            json_read_string (json_write_string s) = XOk ([128512], []).
Proof. exists [55357; 56832]. vm_compute. repeat split; reflexivity. Qed.

(** non-vacuity: quote, backslash, controls, DEL, Latin-1, CJK, emoji, lone surrogates *)
Example json_string_example :
  let s := [34; 92; 47; 10; 13; 9; 0; 31; 127; 233; 28450; 128512; 56832; 55357; 97; 55357] in
  (str_ok s = true) /\ (json_read_string (json_write_string s ++ [44; 32]) = XOk (s, [44; 32])).
Proof. vm_compute. split; reflexivity. Qed.
