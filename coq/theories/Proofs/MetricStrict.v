(** Strict decrease of the reported binary32 distance when a common new element is added.
    Two reals in the normal range whose gap is at least 2^-23 of the larger one round (to nearest,
    ties to even) to different binary32 values; for counts this covers unions up to 2^23. *)
From Coq Require Import ZArith List Bool Lia ZifyBool Reals Lra Psatz Sorting.Sorted.
From Flocq Require Import Core.Core Relative IEEE754.BinarySingleNaN.
From GV Require Import Base.F32 Spec.Jaccard Spec.JaccardF Proofs.MetricCount Proofs.MetricSets
  Proofs.F32Round Proofs.C02 Proofs.MetricTriangle.
Import ListNotations.
Open Scope R_scope.

(** relative error of one rounding in the normal range: at most 2^-24 *)
Lemma round32_rel_error x : bpow radix2 (-126) <= x ->
  Rabs (round32 x - x) <= bpow radix2 (-24) * x.
Proof.
  intros Hx.
  assert (H0 : 0 < x) by (eapply Rlt_le_trans; [apply (bpow_gt_0 radix2 (-126))|exact Hx]).
  pose proof (relative_error_N_FLT radix2 (-149) 24 ltac:(lia) (fun z => negb (Z.even z)) x) as H.
  change (-149 + 24 - 1)%Z with (-126)%Z in H.
  rewrite Rabs_pos_eq in H by lra.
  specialize (H Hx).
  change (round radix2 (FLT_exp (-149) 24) (Znearest (fun z => negb (Z.even z))) x)
    with (round32 x) in H.
  change (- (24) + 1)%Z with (-23)%Z in H.
  change (bpow radix2 (-23)) with (/ IZR 8388608) in H.
  change (bpow radix2 (-24)) with (/ IZR 16777216).
  lra.
Qed.

(** * (1) rounding separation *)

Lemma round32_strict x y :
  bpow radix2 (-126) <= x -> x < y -> y * bpow radix2 (-23) <= y - x ->
  round32 x < round32 y.
Proof.
  intros Hx Hxy Hgap.
  assert (H0 : 0 < x) by (eapply Rlt_le_trans; [apply (bpow_gt_0 radix2 (-126))|exact Hx]).
  pose proof (round32_rel_error x Hx) as Ex.
  pose proof (round32_rel_error y ltac:(lra)) as Ey.
  apply Rabs_le_inv in Ex. apply Rabs_le_inv in Ey.
  change (bpow radix2 (-24)) with (/ IZR 16777216) in Ex, Ey.
  change (bpow radix2 (-23)) with (/ IZR 8388608) in Hgap.
  lra.
Qed.

(** the same with the weaker constant 2^-22 and the hypotheses of the (0,1] use case *)
Lemma round32_strict22 x y :
  0 < x -> x < y -> y <= 1 -> bpow radix2 (-24) <= x ->
  y - x > y * bpow radix2 (-22) -> round32 x < round32 y.
Proof.
  intros H0 Hxy _ Hx Hgap.
  apply round32_strict; [|exact Hxy|].
  - apply Rle_trans with (bpow radix2 (-24)); [apply bpow_le; lia|exact Hx].
  - change (bpow radix2 (-22)) with (/ IZR 4194304) in Hgap.
    change (bpow radix2 (-23)) with (/ IZR 8388608).
    lra.
Qed.

(** * (2) the ratio of counts *)

Theorem ratio_f32_strict s u : (1 <= s <= u)%Z -> (u + 1 <= 8388608)%Z ->
  B2R (ratio_f32 s (u + 1)) < B2R (ratio_f32 s u).
Proof.
  intros Hs Hu.
  rewrite !ratio_f32_round by lia.
  pose proof (ratio_ge_pow s (u + 1) ltac:(lia) ltac:(lia)) as Hlow.
  rewrite plus_IZR in *.
  assert (Hs0 : 0 < IZR s) by (apply IZR_lt; lia).
  assert (Hu0 : 0 < IZR u) by (apply IZR_lt; lia).
  assert (Hu1 : IZR u + 1 <= 8388608).
  { rewrite <- (plus_IZR u 1). apply IZR_le. exact Hu. }
  assert (Hy : 0 < IZR s / IZR u) by (apply Rdiv_lt_0_compat; assumption).
  (* y - x = y / (u + 1) *)
  assert (Hdiff : IZR s / IZR u - IZR s / (IZR u + 1) = IZR s / IZR u * / (IZR u + 1))
    by (field; lra).
  assert (Hinv : / IZR 8388608 <= / (IZR u + 1)) by (apply Rinv_le_contravar; lra).
  apply round32_strict.
  - apply Rle_trans with (bpow radix2 (-24)); [apply bpow_le; lia|exact Hlow].
  - unfold Rdiv. apply Rmult_lt_compat_l; [assumption|].
    apply Rinv_lt_contravar; [apply Rmult_lt_0_compat; lra | lra].
  - rewrite Hdiff. change (bpow radix2 (-23)) with (/ IZR 8388608).
    apply Rmult_le_compat_l; [lra|exact Hinv].
Qed.

Corollary ratio_f32_strict22 s u : (1 <= s <= u)%Z -> (u + 1 < 4194304)%Z ->
  B2R (ratio_f32 s (u + 1)) < B2R (ratio_f32 s u).
Proof. intros Hs Hu. apply ratio_f32_strict; lia. Qed.

(** * (3) adding a common new element *)

Theorem common_element_rounded_lt x A B :
  sorted A -> sorted B -> ~ In x A -> ~ In x B -> A <> B ->
  (union_count A B + 1 <= 8388608)%Z ->
  B2R (ratio_f32 (symdiff_count (insert_sorted x A) (insert_sorted x B))
                 (union_count (insert_sorted x A) (insert_sorted x B)))
  < B2R (ratio_f32 (symdiff_count A B) (union_count A B)).
Proof.
  intros HA HB HnA HnB Hne Hb.
  rewrite symdiff_insert_sorted, union_insert_sorted by assumption.
  pose proof (counts_bounds A B HA HB) as [_ [_ [_ [[S0 SU] _]]]].
  assert (S1 : (symdiff_count A B <> 0)%Z).
  { intros E. apply Hne. now apply (symdiff_zero_iff' A B HA HB). }
  apply ratio_f32_strict; lia.
Qed.

Corollary common_element_rounded_lt22 x A B :
  sorted A -> sorted B -> ~ In x A -> ~ In x B -> A <> B ->
  (union_count A B + 1 < 4194304)%Z ->
  B2R (ratio_f32 (symdiff_count (insert_sorted x A) (insert_sorted x B))
                 (union_count (insert_sorted x A) (insert_sorted x B)))
  < B2R (ratio_f32 (symdiff_count A B) (union_count A B)).
Proof. intros HA HB HnA HnB Hne Hb. apply common_element_rounded_lt; try assumption. lia. Qed.
