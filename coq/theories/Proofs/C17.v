(** C17 -- proofs about the exact instance of Model/C17.v: for every well-formed linkage the
    tree built by [linkage_to_tree] is a binary tree over exactly the observations, ultrametric
    at the height of the last row, with path(i,j) = 2 * merge height, and with non-negative branch
    lengths when heights are monotone.  Invariant of the [build] loop, by induction on the rows
    that remain, for linkages of any size. *)
From Coq Require Import ZArith List Bool Lia Arith Permutation.
From GV Require Import Model.C17.
Import ListNotations.
Open Scope nat_scope.

(** * lists *)
Lemma NoDup_app_intro {A} (l1 l2 : list A) :
  NoDup l1 -> NoDup l2 -> (forall x, In x l1 -> In x l2 -> False) -> NoDup (l1 ++ l2).
Proof.
  induction l1 as [|a l1 IH]; intros H1 H2 Hd; cbn; [exact H2|].
  inversion H1 as [|? ? Hn H1']; subst. constructor.
  - intro Hin. apply in_app_or in Hin. destruct Hin as [Hin|Hin]; [exact (Hn Hin)|].
    apply (Hd a); [left; reflexivity|exact Hin].
  - apply IH; [exact H1'|exact H2|]. intros x Hx1 Hx2. apply (Hd x); [right; exact Hx1|exact Hx2].
Qed.

Lemma memb_In i l : memb i l = true <-> In i l.
Proof.
  unfold memb. rewrite existsb_exists. split.
  - intros [x [Hx He]]. apply Nat.eqb_eq in He. subst. exact Hx.
  - intros Hin. exists i. split; [exact Hin|apply Nat.eqb_refl].
Qed.

(** * the used flags *)
Definition alive (used : list bool) (a : nat) : Prop := nth a used true = false.
Definition cf (u : list bool) : nat := length (filter negb u).

Lemma alive_lt used a : alive used a -> a < length used.
Proof.
  unfold alive. intros Ha. destruct (Nat.lt_ge_cases a (length used)) as [Hlt|Hge]; [exact Hlt|].
  rewrite nth_overflow in Ha by exact Hge. discriminate.
Qed.

Lemma nth_set_true a i u : nth a (set_true i u) true = (a =? i) || nth a u true.
Proof.
  revert a i. induction u as [|b u IH]; intros a i.
  - cbn. destruct a, i; cbn; try reflexivity. destruct (a =? i); reflexivity.
  - destruct i as [|i], a as [|a]; cbn; try reflexivity. apply IH.
Qed.

Lemma cf_set_true i u : nth i u true = false -> S (cf (set_true i u)) = cf u.
Proof.
  unfold cf. revert i. induction u as [|b u IH]; intros i Hi.
  - destruct i; discriminate.
  - destruct i as [|i]; cbn in *.
    + subst b. reflexivity.
    + destruct b; cbn; [apply IH; exact Hi|]. f_equal. apply IH. exact Hi.
Qed.

Lemma cf_app_false u : cf (u ++ [false]) = S (cf u).
Proof. unfold cf. rewrite filter_app, app_length. cbn. lia. Qed.

Lemma cf_repeat n : cf (repeat false n) = n.
Proof. unfold cf. induction n as [|n IH]; cbn; [reflexivity|]. f_equal. exact IH. Qed.

Lemma cf_one_unique u a b : cf u = 1 -> alive u a -> alive u b -> a = b.
Proof.
  unfold cf, alive. revert a b. induction u as [|x u IH]; intros a b Hc Ha Hb.
  - destruct a; discriminate.
  - destruct x; cbn in Hc.
    + destruct a as [|a]; [discriminate|]. destruct b as [|b]; [discriminate|].
      f_equal. apply IH; assumption.
    + destruct a as [|a], b as [|b]; try reflexivity; exfalso.
      * cbn in Hb. assert (Hl : length (filter negb u) = 0) by lia.
        apply length_zero_iff_nil in Hl.
        assert (Hin : In false (filter negb u)).
        { apply filter_In. split; [|reflexivity]. rewrite <- Hb. apply nth_In.
          apply (alive_lt u b). exact Hb. }
        rewrite Hl in Hin. exact Hin.
      * cbn in Ha. assert (Hl : length (filter negb u) = 0) by lia.
        apply length_zero_iff_nil in Hl.
        assert (Hin : In false (filter negb u)).
        { apply filter_In. split; [|reflexivity]. rewrite <- Ha. apply nth_In.
          apply (alive_lt u a). exact Ha. }
        rewrite Hl in Hin. exact Hin.
      * cbn in Ha. assert (Hl : length (filter negb u) = 0) by lia.
        apply length_zero_iff_nil in Hl.
        assert (Hin : In false (filter negb u)).
        { apply filter_In. split; [|reflexivity]. rewrite <- Ha. apply nth_In.
          apply (alive_lt u a). exact Ha. }
        rewrite Hl in Hin. exact Hin.
Qed.

Lemma set_true_length i u : length (set_true i u) = length u.
Proof. revert i. induction u as [|b u IH]; intros [|i]; cbn; try reflexivity. f_equal. apply IH. Qed.

(** * the cluster table *)
Section Tab.
Variable H : Type.
Implicit Types (rows : list (row H)) (tab : list (list nat)).

Lemma tab_after_app rows1 rows2 tab :
  tab_after (rows1 ++ rows2) tab = tab_after rows2 (tab_after rows1 tab).
Proof. revert tab. induction rows1 as [|r rows1 IH]; intros tab; cbn; [reflexivity|apply IH]. Qed.

Lemma tab_after_snoc rows r tab :
  tab_after (rows ++ [r]) tab = tab_after rows tab ++ [joined (tab_after rows tab) r].
Proof. rewrite tab_after_app. reflexivity. Qed.

Lemma tab_after_length rows tab : length (tab_after rows tab) = length tab + length rows.
Proof.
  revert tab. induction rows as [|r rows IH]; intros tab; cbn; [lia|].
  rewrite IH, app_length. cbn. lia.
Qed.

Lemma tab_after_nth rows tab k : k < length tab -> nth k (tab_after rows tab) [] = nth k tab [].
Proof.
  revert tab. induction rows as [|r rows IH]; intros tab Hk; cbn; [reflexivity|].
  rewrite IH by (rewrite app_length; lia). apply app_nth1. exact Hk.
Qed.

Lemma merge_scan_app rows1 rows2 tab i j :
  merge_scan (rows1 ++ rows2) tab i j =
  match merge_scan rows1 tab i j with
  | Some h => Some h
  | None => merge_scan rows2 (tab_after rows1 tab) i j
  end.
Proof.
  revert tab. induction rows1 as [|r rows1 IH]; intros tab; cbn; [reflexivity|].
  destruct (memb i (joined tab r) && memb j (joined tab r)); [reflexivity|apply IH].
Qed.

(** a merge height comes from a cluster created by one of the rows *)
Lemma merge_scan_some rows tab i j h :
  merge_scan rows tab i j = Some h ->
  exists k, length tab <= k < length tab + length rows /\
            In i (nth k (tab_after rows tab) []) /\ In j (nth k (tab_after rows tab) []).
Proof.
  revert tab. induction rows as [|r rows IH]; intros tab Hm; cbn in Hm; [discriminate|].
  destruct (memb i (joined tab r) && memb j (joined tab r)) eqn:E.
  - apply andb_prop in E. destruct E as [Ei Ej]. exists (length tab). cbn.
    rewrite tab_after_nth by (rewrite app_length; cbn; lia).
    rewrite nth_middle. split; [lia|]. split; apply memb_In; assumption.
  - apply IH in Hm. destruct Hm as [k [Hk Hin]]. exists k. cbn.
    rewrite app_length in Hk. cbn in Hk. split; [lia|exact Hin].
Qed.
End Tab.

(** * trees *)
Lemma depth_some_in (t : ztree) i d : depth t i = Some d -> In i (leaves t).
Proof.
  revert d. induction t as [k|l IHl bl r IHr br]; intros d Hd; cbn in *.
  - destruct (k =? i) eqn:E; [|discriminate]. apply Nat.eqb_eq in E. left. exact E.
  - apply in_or_app. destruct (depth l i) as [dl|] eqn:El.
    + left. apply (IHl dl). reflexivity.
    + destruct (depth r i) as [dr|] eqn:Er; [|discriminate]. right. apply (IHr dr). reflexivity.
Qed.

Lemma depth_notin (t : ztree) i : ~ In i (leaves t) -> depth t i = None.
Proof.
  intros Hn. destruct (depth t i) as [d|] eqn:E; [|reflexivity].
  exfalso. apply Hn. apply (depth_some_in t i d E).
Qed.

Lemma leaves_internal {H} (t : tree H) : length (leaves t) = S (internal_nodes t).
Proof.
  induction t as [k|l IHl bl r IHr br]; cbn; [reflexivity|].
  rewrite app_length, IHl, IHr. lia.
Qed.

Lemma tab0_length n : length (tab0 n) = n.
Proof. unfold tab0. rewrite map_length, seq_length. reflexivity. Qed.

Lemma map_seq_nth {A} (f : nat -> A) d n a k : k < n -> nth k (map f (seq a n)) d = f (a + k).
Proof.
  revert a k. induction n as [|n IH]; intros a k Hk; [lia|].
  destruct k as [|k]; cbn; [f_equal; lia|]. rewrite IH by lia. f_equal. lia.
Qed.

Lemma tab0_nth n k : k < n -> nth k (tab0 n) [] = [k].
Proof. intros Hk. unfold tab0. rewrite map_seq_nth by exact Hk. reflexivity. Qed.

Ltac zl := unfold zrow, ztree in *; lia.

(** * the loop invariant *)
Record Good (n : nat) (all done : list zrow) (k : nat) (t : ztree) : Prop := {
  g_leaves : leaves t = members n done k;
  g_nodup : NoDup (leaves t);
  g_range : forall i, In i (leaves t) -> i < n;
  g_height : exists h, child_height Z 0%Z n all k = TOk h /\
                       forall i, In i (leaves t) -> depth t i = Some h;
  g_path : forall i j, In i (leaves t) -> In j (leaves t) -> i <> j ->
           exists h, merge_scan done (tab0 n) i j = Some h /\ path t i j = Some (2 * h)%Z;
  g_nonneg : heights_monotone n all = true -> Forall (fun b => (0 <= b)%Z) (branches t);
}.

Record Inv (n : nat) (all done : list zrow) (clades : list ztree) (used : list bool)
    (sizes : list nat) : Prop := {
  i_len_c : length clades = n + length done;
  i_len_u : length used = n + length done;
  i_len_s : length sizes = n + length done;
  i_tree : forall k t, nth_error clades k = Some t -> Good n all done k t;
  i_disj : forall a b i, alive used a -> alive used b -> a <> b ->
           In i (members n done a) -> In i (members n done b) -> False;
  i_cont : forall k, k < n + length done ->
           exists a, alive used a /\ incl (members n done k) (members n done a);
  i_cover : forall i, i < n -> exists a, alive used a /\ In i (members n done a);
  i_count : cf used + length done = n;
  i_last : 0 < n -> alive used (n + length done - 1);
}.

Lemma members_snoc_old n (done : list zrow) (r : zrow) k :
  k < n + length done -> members n (done ++ [r]) k = members n done k.
Proof.
  intros Hk. unfold members. rewrite tab_after_snoc. apply app_nth1.
  rewrite tab_after_length, tab0_length. exact Hk.
Qed.

Lemma members_snoc_new n (done : list zrow) (r : zrow) :
  members n (done ++ [r]) (n + length done) = members n done (rl r) ++ members n done (rr r).
Proof.
  unfold members. rewrite tab_after_snoc.
  replace (n + length done) with (length (tab_after done (tab0 n)))
    by (rewrite tab_after_length, tab0_length; reflexivity).
  rewrite nth_middle. reflexivity.
Qed.

Lemma good_mono n all done r k t :
  k < n + length done -> Good n all done k t -> Good n all (done ++ [r]) k t.
Proof.
  intros Hk G. destruct G as [G1 G2 G3 G4 G5 G6]. constructor; try assumption.
  - rewrite members_snoc_old by exact Hk. exact G1.
  - intros i j Hi Hj Hij. destruct (G5 i j Hi Hj Hij) as [h [Hm Hp]]. exists h. split; [|exact Hp].
    rewrite merge_scan_app, Hm. reflexivity.
Qed.

Lemma child_height_fun n all k h1 h2 :
  child_height Z 0%Z n all k = TOk h1 -> child_height Z 0%Z n all k = TOk h2 -> h1 = h2.
Proof. intros H1 H2. rewrite H1 in H2. inversion H2. reflexivity. Qed.

Lemma alive_step used l g a :
  alive (set_true l (set_true g used) ++ [false]) a <->
  (alive used a /\ a <> l /\ a <> g) \/ a = length used.
Proof.
  unfold alive. split.
  - intros Ha. destruct (Nat.lt_ge_cases a (length used)) as [Hlt|Hge].
    + left. rewrite app_nth1 in Ha by (rewrite !set_true_length; exact Hlt).
      rewrite !nth_set_true in Ha. apply orb_false_elim in Ha. destruct Ha as [Ha1 Ha2].
      apply orb_false_elim in Ha2. destruct Ha2 as [Ha2 Ha3].
      apply Nat.eqb_neq in Ha1. apply Nat.eqb_neq in Ha2. auto.
    + right. destruct (Nat.eq_dec a (length used)) as [E|E]; [exact E|].
      rewrite nth_overflow in Ha; [discriminate|]. rewrite app_length, !set_true_length. cbn. lia.
  - intros [[Ha [H1 H2]]|E].
    + rewrite app_nth1 by (rewrite !set_true_length; apply alive_lt; exact Ha).
      rewrite !nth_set_true. apply Nat.eqb_neq in H1. apply Nat.eqb_neq in H2.
      rewrite H1, H2. exact Ha.
    + subst a. replace (length used) with (length (set_true l (set_true g used)))
        by (rewrite !set_true_length; reflexivity).
      rewrite nth_middle. reflexivity.
Qed.

Lemma joined_members n (done : list zrow) (r : zrow) :
  joined (tab_after done (tab0 n)) r = members n done (rl r) ++ members n done (rr r).
Proof. reflexivity. Qed.

Lemma good_new n all done r rest tl tr hl hr :
  all = done ++ r :: rest ->
  Good n all done (rl r) tl -> Good n all done (rr r) tr ->
  child_height Z 0%Z n all (rl r) = TOk hl -> child_height Z 0%Z n all (rr r) = TOk hr ->
  (forall i, In i (leaves tl) -> In i (leaves tr) -> False) ->
  (forall i j k, In i (leaves tl) -> In j (leaves tr) -> k < n + length done ->
                 In i (members n done k) -> In j (members n done k) -> False) ->
  Good n all (done ++ [r]) (n + length done) (Node tl (rh r - hl)%Z tr (rh r - hr)%Z).
Proof.
  intros Hall Gl Gg Hhl Hhr Hdisj Hnoboth.
  destruct Gl as [Ll NDl Rl [hl' [Hhl' Dl]] Pl NNl].
  destruct Gg as [Lg NDg Rg [hr' [Hhr' Dg]] Pg NNg].
  assert (hl' = hl) by (eapply child_height_fun; eassumption). subst hl'.
  assert (hr' = hr) by (eapply child_height_fun; eassumption). subst hr'.
  assert (Dln : forall i, In i (leaves tr) -> depth tl i = None).
  { intros i Hi. apply depth_notin. intro Hi'. exact (Hdisj i Hi' Hi). }
  assert (Dgn : forall i, In i (leaves tl) -> depth tr i = None).
  { intros i Hi. apply depth_notin. intro Hi'. exact (Hdisj i Hi Hi'). }
  constructor.
  - cbn [leaves]. rewrite members_snoc_new, Ll, Lg. reflexivity.
  - cbn [leaves]. apply NoDup_app_intro; assumption.
  - cbn [leaves]. intros i Hi. apply in_app_or in Hi. destruct Hi as [Hi|Hi]; auto.
  - exists (rh r). split.
    + unfold child_height. destruct (Nat.ltb_spec (n + length done) n) as [Hlt|Hge]; [lia|].
      replace (n + length done - n) with (length done) by lia.
      rewrite Hall, nth_error_app2 by lia. rewrite Nat.sub_diag. reflexivity.
    + cbn [leaves depth]. intros i Hi. apply in_app_or in Hi. destruct Hi as [Hi|Hi].
      * rewrite (Dl i Hi). f_equal. lia.
      * rewrite (Dln i Hi), (Dg i Hi). f_equal. lia.
  - cbn [leaves path]. intros i j Hi Hj Hij.
    apply in_app_or in Hi. apply in_app_or in Hj.
    destruct Hi as [Hi|Hi], Hj as [Hj|Hj].
    + rewrite (Dl i Hi), (Dl j Hj). destruct (Pl i j Hi Hj Hij) as [h [Hm Hp]].
      exists h. split; [|exact Hp]. rewrite merge_scan_app, Hm. reflexivity.
    + rewrite (Dl i Hi), (Dln j Hj), (Dg j Hj). exists (rh r). split.
      * rewrite merge_scan_app.
        destruct (merge_scan done (tab0 n) i j) as [h|] eqn:Em.
        { exfalso. apply merge_scan_some in Em. destruct Em as [k [Hk [Hki Hkj]]].
          rewrite tab0_length in Hk. unfold zrow in *. apply (Hnoboth i j k Hi Hj); [lia|exact Hki|exact Hkj]. }
        cbn [merge_scan]. rewrite joined_members.
        assert (E1 : memb i (members n done (rl r) ++ members n done (rr r)) = true).
        { apply memb_In. apply in_or_app. left. rewrite <- Ll. exact Hi. }
        assert (E2 : memb j (members n done (rl r) ++ members n done (rr r)) = true).
        { apply memb_In. apply in_or_app. right. rewrite <- Lg. exact Hj. }
        rewrite E1, E2. reflexivity.
      * destruct (depth tr i); f_equal; lia.
    + rewrite (Dln i Hi), (Dl j Hj), (Dg i Hi). exists (rh r). split.
      * rewrite merge_scan_app.
        destruct (merge_scan done (tab0 n) i j) as [h|] eqn:Em.
        { exfalso. apply merge_scan_some in Em. destruct Em as [k [Hk [Hki Hkj]]].
          rewrite tab0_length in Hk. unfold zrow in *. apply (Hnoboth j i k Hj Hi); [lia|exact Hkj|exact Hki]. }
        cbn [merge_scan]. rewrite joined_members.
        assert (E1 : memb i (members n done (rl r) ++ members n done (rr r)) = true).
        { apply memb_In. apply in_or_app. right. rewrite <- Lg. exact Hi. }
        assert (E2 : memb j (members n done (rl r) ++ members n done (rr r)) = true).
        { apply memb_In. apply in_or_app. left. rewrite <- Ll. exact Hj. }
        rewrite E1, E2. reflexivity.
      * destruct (depth tr j); f_equal; lia.
    + rewrite (Dln i Hi), (Dln j Hj), (Dg i Hi), (Dg j Hj).
      destruct (Pg i j Hi Hj Hij) as [h [Hm Hp]].
      exists h. split; [|exact Hp]. rewrite merge_scan_app, Hm. reflexivity.
  - intros Hm. cbn [branches]. pose proof (NNl Hm) as Fl. pose proof (NNg Hm) as Fg.
    assert (Hr : In r all) by (rewrite Hall; apply in_or_app; right; left; reflexivity).
    unfold heights_monotone in Hm. rewrite forallb_forall in Hm. specialize (Hm r Hr).
    rewrite Hhl, Hhr in Hm. apply andb_prop in Hm. destruct Hm as [H1 H2].
    apply Z.leb_le in H1. apply Z.leb_le in H2.
    constructor; [lia|]. constructor; [lia|]. apply Forall_app. split; assumption.
Qed.

Lemma inv_step n all done (r : zrow) rest clades used sizes :
  all = done ++ r :: rest ->
  Inv n all done clades used sizes ->
  rl r < length sizes -> rr r < length sizes -> rl r <> rr r ->
  alive used (rl r) -> alive used (rr r) ->
  exists tl tr hl hr,
    nth_error clades (rl r) = Some tl /\ nth_error clades (rr r) = Some tr /\
    child_height Z 0%Z n all (rl r) = TOk hl /\ child_height Z 0%Z n all (rr r) = TOk hr /\
    Inv n all (done ++ [r]) (clades ++ [Node tl (rh r - hl)%Z tr (rh r - hr)%Z])
        (set_true (rl r) (set_true (rr r) used) ++ [false]) (sizes ++ [rsz r]).
Proof.
  intros Hall I Hl Hg Hne Hal Hag. destruct I as [Ic Iu Is It Id Ico Icv Icnt Ilast].
  unfold zrow in *.
  destruct (nth_error clades (rl r)) as [tl|] eqn:Etl; [|apply nth_error_None in Etl; zl].
  destruct (nth_error clades (rr r)) as [tr|] eqn:Etr; [|apply nth_error_None in Etr; zl].
  pose proof (It _ _ Etl) as Gl. pose proof (It _ _ Etr) as Gg.
  destruct (g_height _ _ _ _ _ Gl) as [hl [Hhl _]].
  destruct (g_height _ _ _ _ _ Gg) as [hr [Hhr _]].
  exists tl, tr, hl, hr. repeat (split; [reflexivity || assumption|]).
  assert (Hdisj : forall i, In i (leaves tl) -> In i (leaves tr) -> False).
  { intros i Hi Hj. rewrite (g_leaves _ _ _ _ _ Gl) in Hi. rewrite (g_leaves _ _ _ _ _ Gg) in Hj.
    exact (Id _ _ i Hal Hag Hne Hi Hj). }
  assert (Hnoboth : forall i j k, In i (leaves tl) -> In j (leaves tr) -> k < n + length done ->
                      In i (members n done k) -> In j (members n done k) -> False).
  { intros i j k Hi Hj Hk Hki Hkj.
    rewrite (g_leaves _ _ _ _ _ Gl) in Hi. rewrite (g_leaves _ _ _ _ _ Gg) in Hj.
    destruct (Ico k Hk) as [a [Ha Hinc]].
    destruct (Nat.eq_dec a (rl r)) as [E1|E1].
    - subst a. apply (Id (rl r) (rr r) j Hal Hag Hne); [apply Hinc; exact Hkj|exact Hj].
    - apply (Id a (rl r) i Ha Hal E1); [apply Hinc; exact Hki|exact Hi]. }
  pose proof (good_new n all done r rest tl tr hl hr Hall Gl Gg Hhl Hhr Hdisj Hnoboth) as Gnew.
  assert (Hlen1 : length (done ++ [r]) = S (length done)) by (rewrite app_length; cbn; zl).
  constructor; unfold zrow in *.
  - rewrite Hlen1, app_length. cbn. zl.
  - rewrite Hlen1, app_length, !set_true_length. cbn. zl.
  - rewrite Hlen1, app_length. cbn. zl.
  - intros k t Hk. destruct (Nat.lt_ge_cases k (length clades)) as [Hlt|Hge].
    + rewrite nth_error_app1 in Hk by exact Hlt. apply good_mono; [zl|]. apply It. exact Hk.
    + rewrite nth_error_app2 in Hk by exact Hge.
      destruct (k - length clades) as [|d] eqn:Ed; cbn in Hk.
      * inversion Hk; subst t. replace k with (n + length done) by zl. exact Gnew.
      * destruct d; discriminate.
  - intros a b i Ha Hb Hab Hia Hib. apply alive_step in Ha. apply alive_step in Hb.
    rewrite Iu in Ha, Hb.
    destruct Ha as [[Ha [Ha1 Ha2]]|Ea], Hb as [[Hb [Hb1 Hb2]]|Eb].
    + pose proof (alive_lt _ _ Ha). pose proof (alive_lt _ _ Hb).
      rewrite members_snoc_old in Hia, Hib by zl. exact (Id a b i Ha Hb Hab Hia Hib).
    + subst b. pose proof (alive_lt _ _ Ha).
      rewrite members_snoc_old in Hia by zl. rewrite members_snoc_new in Hib.
      apply in_app_or in Hib. destruct Hib as [Hib|Hib].
      * exact (Id a (rl r) i Ha Hal Ha1 Hia Hib).
      * exact (Id a (rr r) i Ha Hag Ha2 Hia Hib).
    + subst a. pose proof (alive_lt _ _ Hb).
      rewrite members_snoc_old in Hib by zl. rewrite members_snoc_new in Hia.
      apply in_app_or in Hia. destruct Hia as [Hia|Hia].
      * exact (Id b (rl r) i Hb Hal Hb1 Hib Hia).
      * exact (Id b (rr r) i Hb Hag Hb2 Hib Hia).
    + zl.
  - intros k Hk. rewrite Hlen1 in Hk.
    assert (Hnew : alive (set_true (rl r) (set_true (rr r) used) ++ [false]) (n + length done)).
    { apply alive_step. right. zl. }
    destruct (Nat.eq_dec k (n + length done)) as [Ek|Ek].
    + subst k. exists (n + length done). split; [exact Hnew|apply incl_refl].
    + assert (Hk' : k < n + length done) by zl.
      destruct (Ico k Hk') as [a [Ha Hinc]]. pose proof (alive_lt _ _ Ha).
      rewrite (members_snoc_old _ _ _ k) by zl.
      destruct (Nat.eq_dec a (rl r)) as [E1|E1]; [|destruct (Nat.eq_dec a (rr r)) as [E2|E2]].
      * subst a. exists (n + length done). split; [exact Hnew|].
        rewrite members_snoc_new. apply incl_tran with (1 := Hinc). apply incl_appl, incl_refl.
      * subst a. exists (n + length done). split; [exact Hnew|].
        rewrite members_snoc_new. apply incl_tran with (1 := Hinc). apply incl_appr, incl_refl.
      * exists a. split; [apply alive_step; left; auto|].
        rewrite members_snoc_old by zl. exact Hinc.
  - intros i Hi.
    assert (Hnew : alive (set_true (rl r) (set_true (rr r) used) ++ [false]) (n + length done)).
    { apply alive_step. right. zl. }
    destruct (Icv i Hi) as [a [Ha Hin]]. pose proof (alive_lt _ _ Ha).
    destruct (Nat.eq_dec a (rl r)) as [E1|E1]; [|destruct (Nat.eq_dec a (rr r)) as [E2|E2]].
    + subst a. exists (n + length done). split; [exact Hnew|].
      rewrite members_snoc_new. apply in_or_app. left. exact Hin.
    + subst a. exists (n + length done). split; [exact Hnew|].
      rewrite members_snoc_new. apply in_or_app. right. exact Hin.
    + exists a. split; [apply alive_step; left; auto|].
      rewrite members_snoc_old by zl. exact Hin.
  - rewrite Hlen1, cf_app_false.
    assert (H2 : S (cf (set_true (rr r) used)) = cf used) by (apply cf_set_true; exact Hag).
    assert (H1 : S (cf (set_true (rl r) (set_true (rr r) used))) = cf (set_true (rr r) used)).
    { apply cf_set_true. rewrite nth_set_true. apply Nat.eqb_neq in Hne. rewrite Hne. exact Hal. }
    zl.
  - intros Hn. apply alive_step. right. zl.
Qed.

Lemma alive_repeat n k : k < n -> alive (repeat false n) k.
Proof.
  unfold alive. revert k. induction n as [|n IH]; intros k Hk; [lia|].
  destruct k as [|k]; cbn; [reflexivity|]. apply IH. lia.
Qed.

Lemma nth_error_map_seq {A} (f : nat -> A) n a k t :
  nth_error (map f (seq a n)) k = Some t -> k < n /\ t = f (a + k).
Proof.
  revert a k. induction n as [|n IH]; intros a k Hk; [destruct k; discriminate|].
  destruct k as [|k]; cbn in Hk.
  - inversion Hk. split; [lia|]. f_equal. lia.
  - apply IH in Hk. destruct Hk as [Hk Ht]. split; [lia|]. rewrite Ht. f_equal. lia.
Qed.

Lemma members_nil n k : k < n -> members n (@nil zrow) k = [k].
Proof. intros Hk. unfold members. cbn. apply tab0_nth. exact Hk. Qed.

Lemma inv_init n all : Inv n all [] (leaf_clades n) (repeat false n) (repeat 1 n).
Proof.
  constructor.
  - unfold leaf_clades. rewrite map_length, seq_length. cbn. lia.
  - rewrite repeat_length. cbn. lia.
  - rewrite repeat_length. cbn. lia.
  - intros k t Hk. unfold leaf_clades in Hk. apply nth_error_map_seq in Hk.
    destruct Hk as [Hk Ht]. cbn in Ht. subst t. constructor.
    + cbn [leaves]. rewrite members_nil by exact Hk. reflexivity.
    + cbn. constructor; [intros []|constructor].
    + cbn. intros i [Hi|[]]. subst i. exact Hk.
    + exists 0%Z. split.
      * unfold child_height. destruct (Nat.ltb_spec k n) as [_|Hge]; [reflexivity|lia].
      * cbn. intros i [Hi|[]]. subst i. rewrite Nat.eqb_refl. reflexivity.
    + cbn. intros i j [Hi|[]] [Hj|[]] Hij. exfalso. apply Hij. congruence.
    + intros _. cbn. constructor.
  - intros a b i Ha Hb Hab Hia Hib.
    apply alive_lt in Ha. apply alive_lt in Hb. rewrite repeat_length in Ha, Hb.
    rewrite members_nil in Hia, Hib by assumption.
    destruct Hia as [Hia|[]]. destruct Hib as [Hib|[]]. apply Hab. congruence.
  - intros k Hk. cbn in Hk. exists k. split; [apply alive_repeat; lia|apply incl_refl].
  - intros i Hi. exists i. split; [apply alive_repeat; exact Hi|].
    rewrite members_nil by exact Hi. left. reflexivity.
  - rewrite cf_repeat. cbn. lia.
  - intros Hn. apply alive_repeat. cbn. lia.
Qed.

Lemma build_inv n all : forall rest done clades used sizes,
  all = done ++ rest -> Inv n all done clades used sizes -> valid_rows rest sizes used = true ->
  exists clades' used' sizes',
    zbuild n all rest clades = TOk clades' /\ Inv n all all clades' used' sizes'.
Proof.
  induction rest as [|r rest IH]; intros done clades used sizes Hall I Hv.
  - rewrite app_nil_r in Hall. subst done. exists clades, used, sizes. split; [reflexivity|exact I].
  - cbn [valid_rows] in Hv.
    apply andb_prop in Hv. destruct Hv as [Hv Hrest].
    apply andb_prop in Hv. destruct Hv as [Hv Hsz].
    apply andb_prop in Hv. destruct Hv as [Hv Hur].
    apply andb_prop in Hv. destruct Hv as [Hv Hul].
    apply andb_prop in Hv. destruct Hv as [Hv Hne].
    apply andb_prop in Hv. destruct Hv as [Hl Hg].
    apply Nat.ltb_lt in Hl. apply Nat.ltb_lt in Hg.
    apply negb_true_iff in Hne. apply Nat.eqb_neq in Hne.
    apply negb_true_iff in Hul. apply negb_true_iff in Hur.
    destruct (inv_step n all done r rest clades used sizes Hall I Hl Hg Hne Hul Hur)
      as [tl [tr [hl [hr [Etl [Etr [Hhl [Hhr I']]]]]]]].
    unfold zbuild, ztree, zrow in *. cbn [build]. rewrite Etl, Hhl, Etr, Hhr.
    eapply (IH (done ++ [r])); [rewrite <- app_assoc; exact Hall|exact I'|exact Hrest].
Qed.

(** * the results *)
Lemma C17_main n rows : valid_linkage n rows = true ->
  exists t, zlinkage_to_tree n rows = TOk t /\ Good n rows rows (n + length rows - 1) t /\
            (forall i, i < n -> In i (leaves t)).
Proof.
  unfold valid_linkage. intros Hv. apply andb_prop in Hv. destruct Hv as [Hn Hv].
  apply Nat.eqb_eq in Hn.
  destruct (build_inv n rows rows [] (leaf_clades n) _ _ eq_refl (inv_init n rows) Hv)
    as [cl [u [s [Hb I]]]].
  unfold zlinkage_to_tree, linkage_to_tree. rewrite Hn, Nat.eqb_refl. cbn [negb].
  unfold zbuild, ztree, zrow in *. rewrite Hb.
  pose proof (i_len_c _ _ _ _ _ _ I) as Hlen. unfold zrow in *.
  destruct (nth_error cl (length cl - 1)) as [t|] eqn:Et; [|apply nth_error_None in Et; zl].
  exists t. split; [reflexivity|].
  pose proof (i_tree _ _ _ _ _ _ I _ _ Et) as G. unfold zrow, ztree in *. rewrite Hlen in G.
  split; [exact G|].
  intros i Hi. destruct (i_cover _ _ _ _ _ _ I i Hi) as [a [Ha Hin]].
  assert (Hlast : alive u (n + length rows - 1)) by (apply (i_last _ _ _ _ _ _ I); zl).
  pose proof (i_count _ _ _ _ _ _ I) as Hc. unfold zrow in *.
  assert (Hc1 : cf u = 1) by zl.
  rewrite (cf_one_unique u a _ Hc1 Ha Hlast) in Hin.
  rewrite (g_leaves _ _ _ _ _ G). exact Hin.
Qed.

Lemma C17_tree_shape_l n (rows : list zrow) : valid_linkage n rows = true ->
  exists t, zlinkage_to_tree n rows = TOk t /\ Permutation (leaves t) (seq 0 n) /\
            internal_nodes t = length rows.
Proof.
  intros Hv. destruct (C17_main n rows Hv) as [t [Ht [G Hcov]]]. exists t. split; [exact Ht|].
  assert (HP : Permutation (leaves t) (seq 0 n)).
  { apply NoDup_Permutation; [exact (g_nodup _ _ _ _ _ G)|apply seq_NoDup|].
    intros x. rewrite in_seq. split.
    - intros Hx. pose proof (g_range _ _ _ _ _ G x Hx). zl.
    - intros Hx. apply Hcov. zl. }
  split; [exact HP|].
  apply Permutation_length in HP. rewrite seq_length, leaves_internal in HP.
  unfold valid_linkage in Hv. apply andb_prop in Hv. destruct Hv as [Hn _].
  apply Nat.eqb_eq in Hn. zl.
Qed.

Lemma C17_ultrametric_l n (rows : list zrow) t r : valid_linkage n rows = true ->
  zlinkage_to_tree n rows = TOk t ->
  rows <> [] -> nth_error rows (length rows - 1) = Some r ->
  forall i, i < n -> depth t i = Some (rh r).
Proof.
  intros Hv Ht Hne Hr i Hi. destruct (C17_main n rows Hv) as [t' [Ht' [G Hcov]]].
  rewrite Ht in Ht'. inversion Ht'; subst t'.
  destruct (g_height _ _ _ _ _ G) as [h [Hh Hd]].
  rewrite (Hd i (Hcov i Hi)). f_equal.
  unfold child_height in Hh. assert (0 < length rows) by (destruct rows; [congruence|cbn; zl]).
  unfold zrow in *.
  assert (E : (n + length rows - 1 <? n) = false) by (apply Nat.ltb_ge; lia).
  rewrite E in Hh.
  replace (n + length rows - 1 - n) with (length rows - 1) in Hh by lia.
  rewrite Hr in Hh. inversion Hh. reflexivity.
Qed.

Lemma C17_nonneg_l n (rows : list zrow) t : valid_linkage n rows = true ->
  heights_monotone n rows = true -> zlinkage_to_tree n rows = TOk t ->
  Forall (fun b => (0 <= b)%Z) (branches t).
Proof.
  intros Hv Hm Ht. destruct (C17_main n rows Hv) as [t' [Ht' [G _]]].
  rewrite Ht in Ht'. inversion Ht'; subst t'. exact (g_nonneg _ _ _ _ _ G Hm).
Qed.

Lemma C17_path_l n (rows : list zrow) t : valid_linkage n rows = true ->
  zlinkage_to_tree n rows = TOk t ->
  forall i j, i < n -> j < n -> i <> j ->
  exists h, merge_height n rows i j = Some h /\ path t i j = Some (2 * h)%Z.
Proof.
  intros Hv Ht i j Hi Hj Hij. destruct (C17_main n rows Hv) as [t' [Ht' [G Hcov]]].
  rewrite Ht in Ht'. inversion Ht'; subst t'.
  exact (g_path _ _ _ _ _ G i j (Hcov i Hi) (Hcov j Hj) Hij).
Qed.

(** what [merge_height] means: the height of the first row whose cluster holds both *)
Lemma merge_scan_first {H} (rows : list (row H)) : forall tab i j h,
  merge_scan rows tab i j = Some h ->
  exists k r, nth_error rows k = Some r /\ rh r = h /\
    (In i (nth (length tab + k) (tab_after rows tab) []) /\
     In j (nth (length tab + k) (tab_after rows tab) [])) /\
    forall k', k' < k -> ~ (In i (nth (length tab + k') (tab_after rows tab) []) /\
                            In j (nth (length tab + k') (tab_after rows tab) [])).
Proof.
  induction rows as [|r rows IH]; intros tab i j h Hm; cbn in Hm; [discriminate|].
  assert (Hnth : nth (length tab) (tab_after rows (tab ++ [joined tab r])) [] = joined tab r).
  { rewrite tab_after_nth by (rewrite app_length; cbn; lia). apply nth_middle. }
  destruct (memb i (joined tab r) && memb j (joined tab r)) eqn:E.
  - inversion Hm; subst h. exists 0, r. cbn. rewrite Nat.add_0_r, Hnth.
    apply andb_prop in E. destruct E as [Ei Ej]. apply memb_In in Ei. apply memb_In in Ej.
    repeat split; try assumption. intros k' Hk'. lia.
  - destruct (IH _ i j h Hm) as [k [r' [Hk [Hh [Hboth Hfirst]]]]].
    rewrite app_length in Hboth, Hfirst. cbn [length] in Hboth, Hfirst.
    exists (S k), r'. cbn [nth_error tab_after].
    replace (length tab + S k) with (length tab + 1 + k) by lia.
    repeat split; try assumption; try apply Hboth.
    intros k' Hk'. destruct k' as [|k'].
    + rewrite Nat.add_0_r, Hnth. intros [Hi Hj]. apply memb_In in Hi. apply memb_In in Hj.
      rewrite Hi, Hj in E. discriminate.
    + replace (length tab + S k') with (length tab + 1 + k') by lia. apply Hfirst. lia.
Qed.

Lemma C17_merge_height_meaning_l n (rows : list zrow) i j h :
  merge_height n rows i j = Some h ->
  exists k r, nth_error rows k = Some r /\ rh r = h /\
    (In i (members n rows (n + k)) /\ In j (members n rows (n + k))) /\
    forall k', k' < k -> ~ (In i (members n rows (n + k')) /\ In j (members n rows (n + k'))).
Proof.
  unfold merge_height, members. intros Hm. apply merge_scan_first in Hm.
  rewrite tab0_length in Hm. exact Hm.
Qed.

(** * what the run validator checks at one row *)
Lemma alive_from_In used : forall k a, In a (alive_from k used) <-> k <= a /\ alive used (a - k).
Proof.
  unfold alive. induction used as [|b used IH]; intros k a; cbn.
  - split; [intros []|]. intros [_ Hd]. destruct (a - k); discriminate.
  - assert (Hrec : In a (alive_from (S k) used) <-> k <= a /\ a <> k /\ nth (a - S k) used true = false).
    { rewrite IH. split; [intros [H1 H2]|intros [H1 [H2 H3]]]; repeat split; try lia; assumption. }
    destruct b; cbn [In]; rewrite Hrec; split.
    + intros [H1 [H2 H3]]. split; [exact H1|]. destruct (a - k) as [|d] eqn:Ed; [lia|].
      replace d with (a - S k) by lia. exact H3.
    + intros [H1 H2]. destruct (a - k) as [|d] eqn:Ed; [discriminate|].
      repeat split; try lia. replace (a - S k) with d by lia. exact H2.
    + intros [E|[H1 [H2 H3]]].
      * subst a. split; [lia|]. rewrite Nat.sub_diag. reflexivity.
      * split; [exact H1|]. destruct (a - k) as [|d] eqn:Ed; [lia|].
        replace d with (a - S k) by lia. exact H3.
    + intros [H1 H2]. destruct (a - k) as [|d] eqn:Ed.
      * left. lia.
      * right. repeat split; try lia. replace (a - S k) with d by lia. exact H2.
Qed.

Lemma alive_from_lower used : forall k a, In a (alive_from k used) -> k <= a.
Proof. intros k a Ha. apply alive_from_In in Ha. apply Ha. Qed.

Lemma all_pairs_alive f used : forall k, all_pairs f (alive_from k used) = true ->
  forall c d, In c (alive_from k used) -> In d (alive_from k used) -> c < d -> f c d = true.
Proof.
  induction used as [|b used IH]; intros k Hall c d Hc Hd Hcd; cbn in *; [destruct Hc|].
  destruct b; [exact (IH (S k) Hall c d Hc Hd Hcd)|].
  cbn in Hall. apply andb_prop in Hall. destruct Hall as [Hk Hall].
  destruct Hc as [Ec|Hc], Hd as [Ed|Hd].
  - lia.
  - subst c. rewrite forallb_forall in Hk. apply Hk. exact Hd.
  - subst d. apply alive_from_lower in Hc. lia.
  - exact (IH (S k) Hall c d Hc Hd Hcd).
Qed.

Lemma C17_upgma_step_meaning_l dmat eps tab used (r : zrow) :
  upgma_step_ok dmat eps tab used r = true ->
  let A := nth (rl r) tab [] in
  let B := nth (rr r) tab [] in
  (Z.abs (rh r * (zlen A * zlen B) - sum_dist dmat A B) <= eps * (zlen A * zlen B))%Z /\
  forall c d, alive used c -> alive used d -> c < d ->
    let C := nth c tab [] in
    let D := nth d tab [] in
    (sum_dist dmat A B * (zlen C * zlen D)
     <= sum_dist dmat C D * (zlen A * zlen B) + eps * (zlen A * zlen B * (zlen C * zlen D)))%Z.
Proof.
  unfold upgma_step_ok. intros Hs. apply andb_prop in Hs. destruct Hs as [Hh Hp].
  apply Z.leb_le in Hh. split; [exact Hh|].
  intros c d Hc Hd Hcd. cbn zeta.
  assert (Hin : forall a, alive used a -> In a (alive_from 0 used)).
  { intros a Ha. apply alive_from_In. split; [lia|]. rewrite Nat.sub_0_r. exact Ha. }
  pose proof (all_pairs_alive _ used 0 Hp c d (Hin c Hc) (Hin d Hd) Hcd) as Hok.
  unfold pair_ok, avg_le in Hok. apply Z.leb_le in Hok. exact Hok.
Qed.

(** * rows sorted by height have monotone heights *)
Lemma valid_rows_bound {H} (rest : list (row H)) : forall sizes used,
  valid_rows rest sizes used = true ->
  forall k r, nth_error rest k = Some r -> rl r < length sizes + k /\ rr r < length sizes + k.
Proof.
  induction rest as [|r0 rest IH]; intros sizes used Hv k r Hk; [destruct k; discriminate|].
  cbn [valid_rows] in Hv.
  apply andb_prop in Hv. destruct Hv as [Hv Hrest].
  apply andb_prop in Hv. destruct Hv as [Hv _].
  apply andb_prop in Hv. destruct Hv as [Hv _].
  apply andb_prop in Hv. destruct Hv as [Hv _].
  apply andb_prop in Hv. destruct Hv as [Hv _].
  apply andb_prop in Hv. destruct Hv as [Hl Hg].
  apply Nat.ltb_lt in Hl. apply Nat.ltb_lt in Hg.
  destruct k as [|k]; cbn in Hk.
  - inversion Hk; subst r. lia.
  - destruct (IH _ _ Hrest k r Hk) as [H1 H2]. rewrite app_length in H1, H2. cbn in H1, H2. lia.
Qed.

Lemma nondecreasing_from_nth (rows : list zrow) : forall lo,
  nondecreasing_from lo rows = true ->
  forall k r, nth_error rows k = Some r ->
    (lo <= rh r)%Z /\ forall k' r', k' < k -> nth_error rows k' = Some r' -> (rh r' <= rh r)%Z.
Proof.
  induction rows as [|r0 rows IH]; intros lo Hs k r Hk; [destruct k; discriminate|].
  cbn [nondecreasing_from] in Hs. apply andb_prop in Hs. destruct Hs as [H0 Hs].
  apply Z.leb_le in H0. destruct k as [|k]; cbn in Hk.
  - inversion Hk; subst r. split; [exact H0|]. intros k' r' Hk'. lia.
  - destruct (IH _ Hs k r Hk) as [H1 H2]. split; [lia|].
    intros k' r' Hk' Hr'. destruct k' as [|k']; cbn in Hr'.
    + inversion Hr'; subst r'. exact H1.
    + apply (H2 k' r'); [lia|exact Hr'].
Qed.

Lemma C17_sorted_monotone_l n (rows : list zrow) :
  valid_linkage n rows = true -> nondecreasing rows = true -> heights_monotone n rows = true.
Proof.
  unfold valid_linkage, nondecreasing, heights_monotone. intros Hv Hs. unfold zrow in *.
  apply andb_prop in Hv. destruct Hv as [_ Hv].
  apply forallb_forall. intros r Hr. apply In_nth_error in Hr. destruct Hr as [k Hk].
  destruct (valid_rows_bound rows _ _ Hv k r Hk) as [Hl Hg]. rewrite repeat_length in Hl, Hg.
  destruct (nondecreasing_from_nth rows 0%Z Hs k r Hk) as [H0 Hprev].
  assert (Hch : forall c, c < n + k -> exists a, child_height Z 0%Z n rows c = TOk a /\ (a <= rh r)%Z).
  { intros c Hc. unfold child_height. destruct (Nat.ltb_spec c n) as [Hlt|Hge].
    - exists 0%Z. split; [reflexivity|exact H0].
    - assert (Hlen : k < length rows) by (apply nth_error_Some; intro HN; rewrite HN in Hk; discriminate).
      destruct (nth_error rows (c - n)) as [r'|] eqn:Er'.
      + exists (rh r'). split; [reflexivity|]. apply (Hprev (c - n) r'); [lia|exact Er'].
      + apply nth_error_None in Er'. lia. }
  destruct (Hch (rl r) Hl) as [a [Ha Hale]]. destruct (Hch (rr r) Hg) as [b [Hb Hble]].
  rewrite Ha, Hb. apply andb_true_intro. split; apply Z.leb_le; assumption.
Qed.

(** * non-vacuity *)
Example ex_rows : list zrow := [mkrow 0 2 3%Z 2; mkrow 1 3 5%Z 3].
Example ex_valid : valid_linkage 3 ex_rows = true /\ heights_monotone 3 ex_rows = true.
Proof. split; reflexivity. Qed.
Example ex_tree : zlinkage_to_tree 3 ex_rows = TOk (Node (Leaf 1) 5 (Node (Leaf 0) 3 (Leaf 2) 3) 2)%Z.
Proof. reflexivity. Qed.
Example ex_path : merge_height 3 ex_rows 0 1 = Some 5%Z /\ merge_height 3 ex_rows 0 2 = Some 3%Z.
Proof. split; reflexivity. Qed.
(** distances d(0,1)=4, d(0,2)=3, d(1,2)=6 (scaled x2 so the average 5 is (4+6)/2) *)
Example ex_upgma :
  valid_upgma_run 3 [[0; 4; 3]; [4; 0; 6]; [3; 6; 0]]%Z 0 ex_rows = true.
Proof. reflexivity. Qed.
(** joining a non-minimal pair first is rejected *)
Example ex_not_upgma :
  valid_upgma_run 3 [[0; 4; 3]; [4; 0; 6]; [3; 6; 0]]%Z 0 [mkrow 0 1 4%Z 2; mkrow 2 3 (9 / 2)%Z 3] = false.
Proof. reflexivity. Qed.
(** a cluster used twice, an id that does not exist yet: not well formed; the latter raises *)
Example ex_invalid : valid_linkage 3 [mkrow 0 1 1%Z 2; mkrow 0 2 2%Z 2] = false /\
                     zlinkage_to_tree 3 [mkrow 0 4 1%Z 2; mkrow 2 3 2%Z 3] = TErr IndexError /\
                     zlinkage_to_tree 2 ex_rows = TErr AssertionError.
Proof. repeat split; reflexivity. Qed.
(** without monotone heights a branch length is negative *)
Example ex_negative : zlinkage_to_tree 3 [mkrow 0 2 3%Z 2; mkrow 1 3 2%Z 3]
                      = TOk (Node (Leaf 1) 2 (Node (Leaf 0) 3 (Leaf 2) 3) (-1))%Z.
Proof. reflexivity. Qed.
