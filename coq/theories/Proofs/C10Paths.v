(** C10 -- lemmas about root paths: prefix order, longest common prefix, ancestors lists. *)
From Coq Require Import List Bool Arith Lia.
From GV Require Import Base.CSem Spec.C10 Model.C10.
Import ListNotations.
Local Open Scope nat_scope.

Lemma path_eqb_eq : forall p q, path_eqb p q = true <-> p = q.
Proof.
  induction p as [|x p IH]; intros [|y q]; simpl; split; intros H; try congruence; try discriminate.
  - apply andb_true_iff in H. destruct H as [H1 H2]. apply Nat.eqb_eq in H1. apply IH in H2. congruence.
  - inversion H; subst. rewrite Nat.eqb_refl. simpl. apply IH. reflexivity.
Qed.

Lemma path_eqb_refl : forall p, path_eqb p p = true.
Proof. intros p. apply path_eqb_eq. reflexivity. Qed.

Lemma path_eqb_neq : forall p q, path_eqb p q = false <-> p <> q.
Proof.
  intros p q. split.
  - intros H E. apply path_eqb_eq in E. congruence.
  - intros H. destruct (path_eqb p q) eqn:E; [apply path_eqb_eq in E; contradiction | reflexivity].
Qed.

Lemma path_eqb_sym : forall p q, path_eqb p q = path_eqb q p.
Proof.
  intros p q. destruct (path_eqb p q) eqn:E; symmetry.
  - apply path_eqb_eq in E. subst. apply path_eqb_refl.
  - apply path_eqb_neq. apply path_eqb_neq in E. congruence.
Qed.

Lemma mem_In : forall t l, mem t l = true <-> In t l.
Proof.
  intros t l. unfold mem. rewrite existsb_exists. split.
  - intros [x [Hx E]]. apply path_eqb_eq in E. subst. exact Hx.
  - intros H. exists t. split; [exact H | apply path_eqb_refl].
Qed.

(** ---- prefix order ---- *)

Lemma prefixb_refl : forall p, prefixb p p = true.
Proof. induction p as [|x p IH]; simpl; [reflexivity | rewrite Nat.eqb_refl; exact IH]. Qed.

Lemma prefixb_nil_r : forall p, prefixb p [] = true -> p = [].
Proof. intros [|x p]; simpl; [reflexivity | discriminate]. Qed.

Lemma prefixb_trans : forall p q r, prefixb p q = true -> prefixb q r = true -> prefixb p r = true.
Proof.
  induction p as [|x p IH]; intros [|y q] [|z r]; simpl; intros H1 H2; try reflexivity; try discriminate.
  apply andb_true_iff in H1. apply andb_true_iff in H2. destruct H1 as [A1 B1]. destruct H2 as [A2 B2].
  apply Nat.eqb_eq in A1. apply Nat.eqb_eq in A2. subst. rewrite Nat.eqb_refl. simpl. eapply IH; eauto.
Qed.

Lemma prefixb_antisym : forall p q, prefixb p q = true -> prefixb q p = true -> p = q.
Proof.
  induction p as [|x p IH]; intros [|y q]; simpl; intros H1 H2; try reflexivity; try discriminate.
  apply andb_true_iff in H1. apply andb_true_iff in H2. destruct H1 as [A1 B1]. destruct H2 as [A2 B2].
  apply Nat.eqb_eq in A1. subst. f_equal. apply IH; assumption.
Qed.

Lemma prefixb_length : forall p q, prefixb p q = true -> length p <= length q.
Proof.
  induction p as [|x p IH]; intros [|y q]; simpl; intros H; try lia; try discriminate.
  apply andb_true_iff in H. destruct H as [_ H]. apply IH in H. lia.
Qed.

Lemma prefixb_firstn : forall k p, prefixb (firstn k p) p = true.
Proof.
  induction k as [|k IH]; intros [|x p]; simpl; try reflexivity.
  rewrite Nat.eqb_refl. simpl. apply IH.
Qed.

Lemma prefixb_is_firstn : forall a p, prefixb a p = true -> a = firstn (length a) p.
Proof.
  induction a as [|x a IH]; intros [|y p]; simpl; intros H; try reflexivity; try discriminate.
  apply andb_true_iff in H. destruct H as [A B]. apply Nat.eqb_eq in A. subst. f_equal. apply IH. exact B.
Qed.

Lemma prefixb_same_length : forall a p, prefixb a p = true -> length a = length p -> a = p.
Proof.
  intros a p H L. rewrite (prefixb_is_firstn a p H). rewrite L. apply firstn_all.
Qed.

(** two prefixes of the same path are comparable *)
Lemma prefixb_comparable : forall a b c, prefixb a c = true -> prefixb b c = true ->
  prefixb a b = true \/ prefixb b a = true.
Proof.
  induction a as [|x a IH]; intros [|y b] [|z c]; simpl; intros H1 H2; auto; try discriminate.
  apply andb_true_iff in H1. apply andb_true_iff in H2. destruct H1 as [A1 B1]. destruct H2 as [A2 B2].
  apply Nat.eqb_eq in A1. apply Nat.eqb_eq in A2. subst. rewrite Nat.eqb_refl. simpl. eapply IH; eauto.
Qed.

Lemma strictb_spec : forall p q, strictb p q = true <-> prefixb p q = true /\ p <> q.
Proof.
  intros p q. unfold strictb. rewrite andb_true_iff, negb_true_iff, path_eqb_neq. tauto.
Qed.

Lemma strictb_length : forall p q, strictb p q = true -> length p < length q.
Proof.
  intros p q H. apply strictb_spec in H. destruct H as [H N].
  pose proof (prefixb_length _ _ H) as L.
  destruct (Nat.eq_dec (length p) (length q)) as [E|E]; [|lia].
  exfalso. apply N. apply prefixb_same_length; assumption.
Qed.

(** ---- longest common prefix ---- *)

Lemma lcp_prefix_l : forall p q, prefixb (lcp p q) p = true.
Proof.
  induction p as [|x p IH]; intros [|y q]; simpl; try reflexivity.
  destruct (Nat.eqb x y) eqn:E; simpl; [rewrite Nat.eqb_refl; apply IH | reflexivity].
Qed.

Lemma lcp_comm : forall p q, lcp p q = lcp q p.
Proof.
  induction p as [|x p IH]; intros [|y q]; simpl; try reflexivity.
  rewrite (Nat.eqb_sym y x). destruct (Nat.eqb x y) eqn:E; [|reflexivity].
  apply Nat.eqb_eq in E. subst. f_equal. apply IH.
Qed.

Lemma lcp_prefix_r : forall p q, prefixb (lcp p q) q = true.
Proof. intros p q. rewrite lcp_comm. apply lcp_prefix_l. Qed.

Lemma lcp_glb : forall r p q, prefixb r p = true -> prefixb r q = true -> prefixb r (lcp p q) = true.
Proof.
  induction r as [|z r IH]; intros [|x p] [|y q]; simpl; intros H1 H2; try reflexivity; try discriminate.
  apply andb_true_iff in H1. apply andb_true_iff in H2. destruct H1 as [A1 B1]. destruct H2 as [A2 B2].
  apply Nat.eqb_eq in A1. apply Nat.eqb_eq in A2. subst. rewrite Nat.eqb_refl. simpl.
  rewrite Nat.eqb_refl. simpl. apply IH; assumption.
Qed.

Lemma lcp_idem : forall p, lcp p p = p.
Proof. induction p as [|x p IH]; simpl; [reflexivity | rewrite Nat.eqb_refl, IH; reflexivity]. Qed.

Lemma lcp_of_prefix : forall p q, prefixb p q = true -> lcp p q = p.
Proof.
  intros p q H. apply prefixb_antisym; [apply lcp_prefix_l |].
  apply lcp_glb; [apply prefixb_refl | exact H].
Qed.

Lemma lcp_eq_l_prefix : forall p q, lcp p q = p -> prefixb p q = true.
Proof. intros p q H. rewrite <- H. apply lcp_prefix_r. Qed.

(** extending the side that already diverged does not change the meeting point *)
Lemma lcp_ext : forall c x t, prefixb c x = true -> lcp t c <> c -> lcp t x = lcp t c.
Proof.
  induction c as [|a c IH]; intros [|b x] [|d t]; simpl; intros H N; try reflexivity; try discriminate;
    try (exfalso; apply N; reflexivity).
  apply andb_true_iff in H. destruct H as [A B]. apply Nat.eqb_eq in A. subst b.
  destruct (Nat.eqb d a) eqn:E; [|reflexivity].
  f_equal. apply IH; [exact B |]. intros E2. apply N. apply Nat.eqb_eq in E. subst. rewrite E2. reflexivity.
Qed.

(** two paths that diverge keep their meeting point when both are extended *)
Lemma lcp_ext2 : forall x y x' y', lcp x y <> x -> lcp x y <> y ->
  prefixb x x' = true -> prefixb y y' = true -> lcp x' y' = lcp x y.
Proof.
  intros x y x' y' Nx Ny Hx Hy.
  assert (E1 : lcp x y' = lcp x y) by (apply lcp_ext; assumption).
  rewrite (lcp_comm x' y'). rewrite (lcp_ext x x' y' Hx).
  - rewrite lcp_comm. exact E1.
  - rewrite lcp_comm, E1. exact Nx.
Qed.

Lemma lcp_nil_heads : forall x y, x <> [] -> y <> [] -> (lcp x y = [] <-> no_common_root x y = true).
Proof.
  intros [|a x] [|b y] Hx Hy; try congruence. simpl.
  destruct (Nat.eqb a b); simpl; split; intros H; congruence.
Qed.

(** ---- ancestors lists ---- *)

Lemma firstn_length_neq : forall (k n : nat) (c : taxon), k <= length c -> n <= length c -> k <> n ->
  firstn k c <> firstn n c.
Proof.
  intros k n c Hk Hn N E. apply (f_equal (@length nat)) in E. rewrite !firstn_length in E. lia.
Qed.

Lemma index_of_anc_in : forall n k (c : taxon), 1 <= k -> k <= n -> n <= length c ->
  index_of (firstn k c) (ancestors_n n c) = Some (n - k).
Proof.
  induction n as [|n IH]; intros k c H1 H2 H3; [lia|].
  cbn [ancestors_n index_of].
  destruct (Nat.eq_dec k (S n)) as [E|E].
  - subst. rewrite path_eqb_refl. f_equal. lia.
  - assert (N : path_eqb (firstn (S n) c) (firstn k c) = false).
    { apply path_eqb_neq. apply firstn_length_neq; lia. }
    rewrite N. rewrite IH by lia. cbn [option_map]. f_equal. lia.
Qed.

Lemma index_of_anc_notin : forall n (c a : taxon), n <= length c ->
  (a = [] \/ prefixb a c = false) -> index_of a (ancestors_n n c) = None.
Proof.
  induction n as [|n IH]; intros c a L H; [reflexivity|].
  cbn [ancestors_n index_of].
  assert (N : path_eqb (firstn (S n) c) a = false).
  { apply path_eqb_neq. intros E. destruct H as [H|H].
    - rewrite H in E. apply (f_equal (@length nat)) in E. rewrite firstn_length in E. cbn [length] in E. lia.
    - rewrite <- E in H. rewrite prefixb_firstn in H. discriminate. }
  rewrite N. rewrite IH by (try lia; exact H). reflexivity.
Qed.

Lemma In_ancestors_n : forall n (c a : taxon),
  In a (ancestors_n n c) <-> exists k, 1 <= k /\ k <= n /\ a = firstn k c.
Proof.
  induction n as [|n IH]; intros c a; cbn [ancestors_n In].
  - split; [intros [] | intros [k [H1 [H2 _]]]; lia].
  - rewrite IH. split.
    + intros [H | [k [H1 [H2 H3]]]]; [exists (S n); repeat split; [lia | lia | congruence] |].
      exists k; repeat split; [lia | lia | exact H3].
    + intros [k [H1 [H2 H3]]]. destruct (Nat.eq_dec k (S n)) as [E|E]; [left; congruence |].
      right. exists k. repeat split; [lia | lia | exact H3].
Qed.

(** [t in trunk] for trunk = ancestors of c : t is c or one of its ancestors *)
Lemma mem_ancestors : forall t c, mem t (ancestors c) = true <-> t <> [] /\ prefixb t c = true.
Proof.
  intros t c. rewrite mem_In. unfold ancestors. rewrite In_ancestors_n. split.
  - intros [k [H1 [H2 H3]]]. subst t. split; [| apply prefixb_firstn].
    intros E. apply (f_equal (@length nat)) in E. rewrite firstn_length in E. cbn [length] in E. lia.
  - intros [N P]. exists (length t). split; [destruct t; [congruence | simpl; lia] |].
    split; [apply prefixb_length; exact P | apply prefixb_is_firstn; exact P].
Qed.

Lemma skipn_ancestors_n : forall i n (c : taxon), skipn i (ancestors_n n c) = ancestors_n (n - i) c.
Proof.
  induction i as [|i IH]; intros n c.
  - rewrite Nat.sub_0_r. reflexivity.
  - destruct n as [|n]; [reflexivity|]. cbn [ancestors_n skipn]. rewrite IH. reflexivity.
Qed.

Lemma ancestors_n_firstn : forall j k (c : taxon), j <= k -> ancestors_n j (firstn k c) = ancestors_n j c.
Proof.
  induction j as [|j IH]; intros k c H; [reflexivity|].
  cbn [ancestors_n]. rewrite IH by lia. f_equal. rewrite firstn_firstn. f_equal. lia.
Qed.

(** [trunk[i:]] where trunk[i] = a *)
Lemma skipn_ancestors : forall a c, prefixb a c = true ->
  skipn (length c - length a) (ancestors c) = ancestors a.
Proof.
  intros a c P. pose proof (prefixb_length _ _ P) as L. unfold ancestors at 1.
  rewrite skipn_ancestors_n. replace (length c - (length c - length a)) with (length a) by lia.
  rewrite (prefixb_is_firstn a c P) at 2. unfold ancestors. rewrite firstn_length.
  rewrite Nat.min_l by exact L. apply eq_sym. apply ancestors_n_firstn. lia.
Qed.

(** the inner loop finds the lowest common ancestor of [t] and the consensus [c] *)
Lemma find_meet_anc : forall t c m, prefixb t c = false ->
  length (lcp t c) <= m -> m <= length t ->
  find_meet (ancestors_n m t) (ancestors c) =
    if Nat.eqb (length (lcp t c)) 0 then None else Some (length c - length (lcp t c)).
Proof.
  intros t c m NP. induction m as [|m IH]; intros H1 H2.
  - assert (E : length (lcp t c) = 0) by lia. rewrite E. reflexivity.
  - cbn [ancestors_n find_meet].
    destruct (Nat.eq_dec (S m) (length (lcp t c))) as [E|E].
    + assert (F : firstn (S m) t = firstn (length (lcp t c)) c).
      { rewrite E. rewrite <- (prefixb_is_firstn _ _ (lcp_prefix_l t c)).
        apply prefixb_is_firstn. apply lcp_prefix_r. }
      rewrite F. unfold ancestors.
      rewrite index_of_anc_in; [| lia | apply prefixb_length; apply lcp_prefix_r | lia].
      rewrite <- E. reflexivity.
    + assert (NPk : prefixb (firstn (S m) t) c = false).
      { destruct (prefixb (firstn (S m) t) c) eqn:P; [|reflexivity]. exfalso.
        assert (G : prefixb (firstn (S m) t) (lcp t c) = true)
          by (apply lcp_glb; [apply prefixb_firstn | exact P]).
        apply prefixb_length in G. rewrite firstn_length in G. lia. }
      unfold ancestors at 1. rewrite index_of_anc_notin; [| lia | right; exact NPk].
      apply IH; lia.
Qed.

Lemma find_meet_strict : forall t c, prefixb t c = false ->
  find_meet (strict_ancestors t) (ancestors c) =
    if Nat.eqb (length (lcp t c)) 0 then None else Some (length c - length (lcp t c)).
Proof.
  intros t c NP. unfold strict_ancestors. apply find_meet_anc; [exact NP | | lia].
  assert (S : strictb (lcp t c) t = true).
  { apply strictb_spec. split; [apply lcp_prefix_l |]. intros E.
    apply lcp_eq_l_prefix in E. congruence. }
  apply strictb_length in S. lia.
Qed.
