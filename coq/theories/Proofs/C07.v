(** C07: statements about the generated model, assembled from the kernel lemmas. *)
From Coq Require Import ZArith List Bool Lia ZifyBool.
From GV Require Import Base.CSem Base.PyConv Gen.KmersPyx Spec.Kmers
  Proofs.KmersEnc Proofs.KmersRc Proofs.KmersDec Proofs.KmersSpec.
Import ListNotations.
Open Scope Z_scope.

Definition bytes (w : list Z) : Prop := Forall (fun b => 0 <= b < 256) w.

Lemma C07_encode_l w : bytes w ->
  kmer_to_index w = match spec_encode w with Some v => Ok v | None => Error ValueError end.
Proof. apply kmer_to_index_spec. Qed.

Lemma C07_reject_l w : bytes w ->
  (kmer_to_index w = Error ValueError <->
     (32 < length w)%nat \/ exists b, In b w /\ ~ In b [65; 67; 71; 84; 97; 99; 103; 116]) /\
  (forall v, kmer_to_index w = Ok v -> (length w <= 32)%nat /\ Forall (fun b => In b [65; 67; 71; 84; 97; 99; 103; 116]) w).
Proof.
  intros Hb. rewrite (kmer_to_index_spec w Hb). split.
  - destruct (spec_encode w) eqn:E.
    + split; [discriminate|]. intros H.
      assert (spec_encode w = None); [|congruence].
      apply spec_encode_None_iff. destruct H as [H|[b [H1 H2]]]; [now left|right].
      exists b. split; [assumption|]. now apply code_None_iff.
    + split; [|reflexivity]. intros _. apply spec_encode_None_iff in E.
      destruct E as [E|[b [H1 H2]]]; [now left|right]. exists b. split; [assumption|].
      now apply code_None_iff.
  - intros v Hv. destruct (spec_encode w) eqn:E; [|discriminate].
    assert (Hn : ~ ((32 < length w)%nat \/ exists b, In b w /\ code b = None)).
    { intros H. apply spec_encode_None_iff in H. congruence. }
    split; [lia|]. apply Forall_forall. intros b Hin.
    destruct (code b) eqn:Ec.
    + destruct (in_dec Z.eq_dec b [65; 67; 71; 84; 97; 99; 103; 116]) as [i|n]; [exact i|].
      apply code_None_iff in n. congruence.
    + exfalso. apply Hn. right. eauto.
Qed.

Lemma C07_decode_encode_l k idx :
  0 <= k <= 32 -> 0 <= idx < 4 ^ k ->
  exists s, index_to_kmer idx k = Ok s /\ Z.of_nat (length s) = k /\
            Forall (fun b => is_ACGT b = true) s /\ kmer_to_index s = Ok idx.
Proof.
  intros Hk Hidx.
  assert (H64 : 4 ^ k <= 18446744073709551616).
  { change 18446744073709551616 with (4 ^ 32). apply Z.pow_le_mono_r; lia. }
  exists (spec_decode (Z.to_nat k) idx). split; [apply index_to_kmer_spec; lia|].
  split; [rewrite spec_decode_length; lia|]. split; [apply spec_decode_ACGT|].
  rewrite kmer_to_index_spec.
  - rewrite encode_decode; [reflexivity | lia | rewrite Z2Nat.id; lia].
  - eapply Forall_impl; [|apply spec_decode_ACGT]. intros b Hb. unfold is_ACGT in Hb. lia.
Qed.

Lemma C07_encode_decode_l w v : bytes w ->
  kmer_to_index w = Ok v ->
  0 <= v < 4 ^ Z.of_nat (length w) /\ index_to_kmer v (Z.of_nat (length w)) = Ok (map upper w).
Proof.
  intros Hb Hv. rewrite (kmer_to_index_spec w Hb) in Hv.
  destruct (spec_encode w) as [v'|] eqn:E; [|discriminate]. inversion Hv; subst v'.
  pose proof (spec_encode_range _ _ E) as Hr. split; [exact Hr|].
  unfold spec_encode in E. destruct (Z.of_nat (length w) <=? 32) eqn:El; [|discriminate].
  destruct (codes w) as [ds|] eqn:Ec; [|discriminate]. inversion E; subst v.
  assert (H64 : 4 ^ Z.of_nat (length w) <= 18446744073709551616).
  { change 18446744073709551616 with (4 ^ 32). apply Z.pow_le_mono_r; lia. }
  rewrite index_to_kmer_spec by lia. rewrite Nat2Z.id. f_equal. now apply decode_encode.
Qed.

Lemma map_bytes f w : (forall b, 0 <= b < 256 -> 0 <= f b < 256) -> bytes w -> bytes (map f w).
Proof.
  intros Hf Hw. unfold bytes in *. rewrite Forall_forall in *. intros x Hx.
  apply in_map_iff in Hx. destruct Hx as [y [<- Hy]]. auto.
Qed.

Lemma C07_case_l w : bytes w ->
  kmer_to_index (map lower w) = kmer_to_index w /\ kmer_to_index (map upper w) = kmer_to_index w.
Proof.
  intros Hb.
  rewrite (kmer_to_index_spec (map lower w)) by (apply map_bytes; [apply lower_byte|exact Hb]).
  rewrite (kmer_to_index_spec (map upper w)) by (apply map_bytes; [apply upper_byte|exact Hb]).
  rewrite (kmer_to_index_spec w Hb).
  now rewrite spec_encode_lower, spec_encode_upper.
Qed.

Lemma C07_revcomp_l s : revcomp s = Ok (spec_revcomp s).
Proof. apply revcomp_spec. Qed.

Lemma C07_revcomp_invol_l s r : revcomp s = Ok r -> revcomp r = Ok s.
Proof.
  rewrite revcomp_spec. intros H. inversion H; subst. rewrite revcomp_spec.
  now rewrite spec_revcomp_invol.
Qed.

Lemma C07_revcomp_pointwise_l s r i d :
  revcomp s = Ok r -> (i < length s)%nat ->
  length r = length s /\ nth i r (comp d) = comp (nth (length s - 1 - i) s d).
Proof.
  rewrite revcomp_spec. intros H Hi. inversion H; subst.
  split; [apply spec_revcomp_length | now apply spec_revcomp_nth].
Qed.

Lemma C07_comp_l :
  (comp 65 = 84 /\ comp 84 = 65 /\ comp 67 = 71 /\ comp 71 = 67 /\
   comp 97 = 116 /\ comp 116 = 97 /\ comp 99 = 103 /\ comp 103 = 99) /\
  (forall b, ~ In b [65; 67; 71; 84; 97; 99; 103; 116] -> comp b = b) /\
  (forall b, comp (comp b) = b).
Proof. split; [exact comp_table|]. split; [exact comp_fix | exact comp_invol]. Qed.

Lemma C07_rc_index_l w r : bytes w -> revcomp w = Ok r -> kmer_to_index_rc w = kmer_to_index r.
Proof.
  intros Hb H. rewrite revcomp_spec in H. inversion H; subst.
  now apply kmer_to_index_rc_revcomp.
Qed.

(** non-vacuity: concrete instances *)
Example C07_ex_encode : kmer_to_index [65; 99; 71; 116] = Ok 27.
Proof. vm_compute. reflexivity. Qed.
Example C07_ex_reject : kmer_to_index [65; 78; 71] = Error ValueError.
Proof. vm_compute. reflexivity. Qed.
Example C07_ex_decode : index_to_kmer 27 4 = Ok [65; 67; 71; 84].
Proof. vm_compute. reflexivity. Qed.
Example C07_ex_rc : kmer_to_index_rc [65; 65; 67] = Ok 47 /\ revcomp [65; 65; 67; 110] = Ok [110; 71; 84; 84].
Proof. vm_compute. split; reflexivity. Qed.
Example C07_ex_max : kmer_to_index (repeat 84 32) = Ok 18446744073709551615.
Proof. vm_compute. reflexivity. Qed.
