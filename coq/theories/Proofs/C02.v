(** C02 / C15: the generated distance kernel returns the once-rounded ratio of the counts. *)
From Coq Require Import ZArith List Bool Reals Lia Lra ZifyBool.
From Flocq Require Import Core.Core IEEE754.BinarySingleNaN.
From GV Require Import Base.CSem Base.F32 Gen.MetricPyx Spec.Jaccard Spec.JaccardF Model.MetricPy
  Proofs.MetricCount Proofs.MetricSets Proofs.F32Round.
Import ListNotations.

Open Scope Z_scope.

Definition bound24 : Z := 16777216.

(** the loop counts the union, never reads out of range, terminates within the fuel *)
Lemma C02_union_count_l fuel A B :
  sorted A -> sorted B -> (length A + length B <= fuel)%nat ->
  c_jaccarddist fuel A B = Ok (ratio_f32 (symdiff_count A B) (union_count A B)) /\
  jaccarddist fuel A B = Ok (ratio_f32 (symdiff_count A B) (union_count A B)).
Proof.
  intros HA HB Hf. pose proof (c_jaccarddist_counts fuel A B HA HB Hf) as H.
  split; [exact H|]. unfold jaccarddist. rewrite H. reflexivity.
Qed.

Lemma C02_rounded_once_l fuel A B d :
  sorted A -> sorted B -> (length A + length B <= fuel)%nat ->
  0 < union_count A B <= bound24 ->
  jaccarddist fuel A B = Ok d ->
  B2R d = round32 (IZR (symdiff_count A B) / IZR (union_count A B)) /\
  is_finite d = true /\ Bsign d = false.
Proof.
  intros HA HB Hf Hu Hd.
  destruct (C02_union_count_l fuel A B HA HB Hf) as [_ H]. rewrite H in Hd. inversion Hd; subst d.
  unfold ratio_f32. assert (union_count A B =? 0 = false) as -> by lia.
  pose proof (counts_bounds A B HA HB) as [_ [_ [_ [Hs _]]]].
  apply ratio_rounded_once; unfold bound24 in *; lia.
Qed.

Lemma C02_empty_l fuel : jaccarddist fuel [] [] = Ok (B754_zero false).
Proof.
  destruct (C02_union_count_l fuel [] []) as [_ H]; [constructor|constructor|simpl; lia|].
  rewrite H. reflexivity.
Qed.

Lemma C02_index_l fuel A B :
  jaccard fuel A B =
    match jaccarddist fuel A B with
    | Ok d => Ok (f64_minus (f64_of_Z 1) (f64_of_f32 d))
    | Error e => Error e
    end.
Proof. unfold jaccard, jaccarddist. destruct (c_jaccarddist fuel A B); reflexivity. Qed.

(** * metric properties (C15) *)

Lemma C15_symmetric_l fuel A B :
  sorted A -> sorted B -> (length A + length B <= fuel)%nat ->
  jaccarddist fuel A B = jaccarddist fuel B A.
Proof.
  intros HA HB Hf.
  destruct (C02_union_count_l fuel A B HA HB Hf) as [_ H1].
  destruct (C02_union_count_l fuel B A HB HA ltac:(lia)) as [_ H2].
  rewrite H1, H2. destruct (union_count_sym A B HA HB) as [-> ->]. reflexivity.
Qed.

Open Scope R_scope.

Lemma pow2m24_format : generic_format radix2 fexp32 (bpow radix2 (-24)).
Proof. apply generic_format_bpow. unfold fexp32, FLT_exp. simpl. lia. Qed.

Lemma round32_pos x : bpow radix2 (-24) <= x -> 0 < round32 x.
Proof.
  intros H. apply Rlt_le_trans with (bpow radix2 (-24)); [apply bpow_gt_0|].
  rewrite <- (round_generic radix2 fexp32 ZnearestE (bpow radix2 (-24))) by
    (try apply valid_rnd_N; apply pow2m24_format).
  now apply round32_le.
Qed.

Lemma below1_format : generic_format radix2 fexp32 (IZR 16777215 * bpow radix2 (-24)).
Proof.
  apply generic_format_FLT. exists (Float radix2 16777215 (-24)).
  - reflexivity.
  - simpl. lia.
  - simpl. lia.
Qed.

Lemma round32_below1 x : x <= IZR 16777215 * bpow radix2 (-24) -> round32 x < 1.
Proof.
  intros H. apply Rle_lt_trans with (IZR 16777215 * bpow radix2 (-24)).
  - rewrite <- (round_generic radix2 fexp32 ZnearestE (IZR 16777215 * bpow radix2 (-24))) by
      (try apply valid_rnd_N; apply below1_format).
    now apply round32_le.
  - change (bpow radix2 (-24)) with (/ IZR 16777216). lra.
Qed.

Lemma ratio_ge_pow s u : (1 <= s)%Z -> (0 < u <= 16777216)%Z -> bpow radix2 (-24) <= IZR s / IZR u.
Proof.
  intros Hs Hu. change (bpow radix2 (-24)) with (/ IZR 16777216).
  assert (0 < IZR u) by (apply IZR_lt; lia).
  assert (1 <= IZR s) by (apply IZR_le; lia). assert (IZR u <= 16777216) by (apply IZR_le; lia).
  apply Rmult_le_reg_r with (IZR u); [assumption|].
  unfold Rdiv. rewrite Rmult_assoc, Rinv_l by lra.
  apply Rle_trans with 1; [|lra].
  apply Rmult_le_reg_l with 16777216; [lra|]. rewrite <- Rmult_assoc, Rinv_r by lra. lra.
Qed.

Lemma ratio_le_below1 s u : (0 <= s < u)%Z -> (0 < u <= 16777216)%Z ->
  IZR s / IZR u <= IZR 16777215 * bpow radix2 (-24).
Proof.
  intros Hs Hu. change (bpow radix2 (-24)) with (/ IZR 16777216).
  assert (0 < IZR u) by (apply IZR_lt; lia).
  assert (IZR s <= IZR u - 1) by (rewrite <- minus_IZR; apply IZR_le; lia).
  assert (IZR u <= 16777216) by (apply IZR_le; lia).
  apply Rmult_le_reg_r with (IZR u); [assumption|].
  unfold Rdiv at 1. rewrite Rmult_assoc, Rinv_l by lra.
  apply Rmult_le_reg_l with 16777216; [lra|].
  replace (16777216 * (16777215 * / 16777216 * IZR u)) with (16777215 * IZR u) by (field; lra).
  nra.
Qed.

(** the four value-level facts about  d = ratio_f32 s u  *)
Lemma ratio_metric_facts s u :
  (0 <= s <= u)%Z -> (0 <= u <= 16777216)%Z ->
  let d := ratio_f32 s u in
  is_finite d = true /\ 0 <= B2R d <= 1 /\
  (B2R d = 0 <-> s = 0%Z) /\ (B2R d = 1 <-> (s = u /\ 0 < u)%Z).
Proof.
  intros Hs Hu d. subst d. unfold ratio_f32.
  destruct (Z.eqb_spec u 0) as [->|Hne].
  - assert (s = 0)%Z as -> by lia.
    change (f32_of_Z 0) with (B754_zero false : f32). simpl.
    split; [reflexivity|]. split; [lra|]. split; [tauto|]. split; [lra|lia].
  - destruct (ratio_rounded_once s u) as [Hv [Hf _]]; [lia|lia|].
    rewrite Hv. split; [exact Hf|].
    pose proof (ratio_bounds s u Hs ltac:(lia)) as [Hb0 Hb1].
    assert (Hr0 : 0 <= round32 (IZR s / IZR u)) by (rewrite <- round32_0; now apply round32_le).
    assert (Hr1 : round32 (IZR s / IZR u) <= 1) by (rewrite <- round32_1; now apply round32_le).
    split; [lra|]. split.
    + split.
      * intros H0. destruct (Z.eq_dec s 0) as [|Hs0]; [assumption|exfalso].
        pose proof (round32_pos (IZR s / IZR u) (ratio_ge_pow s u ltac:(lia) ltac:(lia))). lra.
      * intros ->. unfold Rdiv. rewrite Rmult_0_l. apply round32_0.
    + split.
      * intros H1. destruct (Z.eq_dec s u) as [|Hsu]; [lia|exfalso].
        pose proof (round32_below1 (IZR s / IZR u) (ratio_le_below1 s u ltac:(lia) ltac:(lia))). lra.
      * intros [-> _]. unfold Rdiv. rewrite Rinv_r by (apply not_0_IZR; lia). apply round32_1.
Qed.

Open Scope Z_scope.

(** the Python wrapper: accepted dtypes are exactly 16/32/64-bit signed or unsigned integers, i.e.
    the widths of the fused types in types.pxd; the result does not depend on the dtypes *)
Lemma C02_dtypes_l k1 s1 A k2 s2 B :
  (forall sz, cast_sigs_array k1 s1 = Ok sz ->
     sz = s1 /\ In (8 * sz) COORDS_T_widths /\ (k1 = 0 \/ k1 = 1)) /\
  ((k1 = 0 \/ k1 = 1) -> In (8 * s1) COORDS_T_widths -> cast_sigs_array k1 s1 = Ok s1) /\
  (cast_sigs_array k1 s1 = Ok s1 -> cast_sigs_array k2 s2 = Ok s2 ->
     py_jaccarddist k1 s1 A k2 s2 B = jaccarddist (length A + length B) A B /\
     py_jaccard k1 s1 A k2 s2 B = jaccard (length A + length B) A B) /\
  ((cast_sigs_array k1 s1 = Error ValueError \/ cast_sigs_array k2 s2 = Error ValueError) ->
     py_jaccarddist k1 s1 A k2 s2 B = Error ValueError).
Proof.
  unfold cast_sigs_array, coords_sizes, memZ, COORDS_T_widths. cbn [existsb].
  repeat split.
  - destruct ((k1 =? 0) && _) eqn:E1; [inversion H; reflexivity|].
    destruct ((k1 =? 1) && _) eqn:E2; [inversion H; reflexivity|discriminate].
  - destruct ((k1 =? 0) && _) eqn:E1.
    + inversion H; subst. cbn [In]. lia.
    + destruct ((k1 =? 1) && _) eqn:E2; [|discriminate]. inversion H; subst. cbn [In]. lia.
  - destruct ((k1 =? 0) && _) eqn:E1; [lia|].
    destruct ((k1 =? 1) && _) eqn:E2; [lia|discriminate].
  - intros Hk Hin. cbn [In] in Hin.
    destruct ((k1 =? 0) && _) eqn:E1; [reflexivity|].
    destruct ((k1 =? 1) && _) eqn:E2; [reflexivity|]. exfalso. lia.
  - unfold py_jaccarddist, cast_sigs_array, coords_sizes, memZ. cbn [existsb].
    rewrite H, H0. reflexivity.
  - unfold py_jaccard, cast_sigs_array, coords_sizes, memZ. cbn [existsb].
    rewrite H, H0. reflexivity.
  - intros [H|H]; unfold py_jaccarddist, cast_sigs_array, coords_sizes, memZ; cbn [existsb].
    + rewrite H. reflexivity.
    + rewrite H. destruct ((k1 =? 0) && _); [reflexivity|]. destruct ((k1 =? 1) && _); reflexivity.
Qed.

Example C02_ex1 :
  match jaccarddist 10 [1; 5; 9] [5; 9; 11; 12] with Ok d => f32_bits d | Error _ => -1 end = 1058642330
  /\ f32_bits (ratio_f32 3 5) = 1058642330.
Proof. vm_compute. split; reflexivity. Qed.
Example C02_ex_sorted : sorted [1; 5; 9] /\ 0 < union_count [1; 5; 9] [5; 9; 11; 12] <= bound24.
Proof. split; [apply sortedb_sorted; reflexivity | vm_compute; split; [reflexivity|discriminate]]. Qed.
