(** C05 -- jaccarddist_matrix: for every chunk size (or none), every valid selection of reference
    indices (repeats and negative indices allowed), every container and both kinds of output buffer,
    the result is the matrix of pair distances in the caller's query and reference order. *)
From Coq Require Import ZArith List Bool Lia.
From GV Require Import Base.CSem Base.F32 Gen.MetricPyx Spec.Jaccard Spec.JaccardF Spec.C05
  Model.MetricPy Model.C05 Proofs.MetricCount Proofs.C05Sched Proofs.C05Array Proofs.C05Chunks.
Import ListNotations.
Open Scope Z_scope.

(** ** list facts *)
Lemma firstn_split {A} : forall (a b : nat) (l : list A), (a <= b)%nat ->
  firstn b l = firstn a l ++ firstn (b - a) (skipn a l).
Proof.
  induction a as [|a IH]; intros b l H.
  - simpl. now rewrite Nat.sub_0_r.
  - destruct b as [|b]; [lia|]. destruct l as [|h t]; simpl; [now rewrite firstn_nil|].
    f_equal. apply IH. lia.
Qed.

Lemma In_firstn {A} (x : A) n l : In x (firstn n l) -> In x l.
Proof. intros H. rewrite <- (firstn_skipn n l). apply in_or_app. now left. Qed.
Lemma In_skipn {A} (x : A) n l : In x (skipn n l) -> In x l.
Proof. intros H. rewrite <- (firstn_skipn n l). apply in_or_app. now right. Qed.

Lemma map_snd_combine {A B} (l1 : list A) : forall (l2 : list B), length l2 = length l1 ->
  map snd (combine l1 l2) = l2.
Proof.
  induction l1 as [|x l1 IH]; intros [|y l2] H; simpl in *; try discriminate; [reflexivity|].
  f_equal. apply IH. lia.
Qed.

(** ** selections *)
Lemma select_length {A} (l : list A) : forall idxs s, select l idxs = Some s -> length s = length idxs.
Proof.
  induction idxs as [|i rest IH]; intros s H; simpl in H.
  - inversion H. reflexivity.
  - destruct (norm_index (Z.of_nat (length l)) i); [|discriminate].
    destruct (nth_error l (Z.to_nat z)); [|discriminate].
    destruct (select l rest) eqn:E; [|discriminate]. inversion H. simpl. f_equal. now apply IH.
Qed.

Lemma select_Forall {A} (P : A -> Prop) (l : list A) : Forall P l ->
  forall idxs s, select l idxs = Some s -> Forall P s.
Proof.
  intros HP. induction idxs as [|i rest IH]; intros s H; simpl in H.
  - inversion H. constructor.
  - destruct (norm_index (Z.of_nat (length l)) i); [|discriminate].
    destruct (nth_error l (Z.to_nat z)) eqn:En; [|discriminate].
    destruct (select l rest) eqn:E; [|discriminate]. inversion H. constructor.
    + rewrite Forall_forall in HP. apply HP. eapply nth_error_In; eauto.
    + now apply IH.
Qed.

Lemma select_skipn {A} (l : list A) : forall k idxs s, select l idxs = Some s ->
  select l (skipn k idxs) = Some (skipn k s).
Proof.
  induction k as [|k IH]; intros idxs s H; [exact H|].
  destruct idxs as [|i rest]; simpl in H.
  - inversion H. reflexivity.
  - destruct (norm_index (Z.of_nat (length l)) i); [|discriminate].
    destruct (nth_error l (Z.to_nat z)); [|discriminate].
    destruct (select l rest) eqn:E; [|discriminate]. inversion H. simpl. now apply IH.
Qed.

Lemma select_firstn {A} (l : list A) : forall k idxs s, select l idxs = Some s ->
  select l (firstn k idxs) = Some (firstn k s).
Proof.
  induction k as [|k IH]; intros idxs s H; [reflexivity|].
  destruct idxs as [|i rest]; simpl in H.
  - inversion H. reflexivity.
  - destruct (norm_index (Z.of_nat (length l)) i) eqn:En; [|discriminate].
    destruct (nth_error l (Z.to_nat z)) eqn:Ee; [|discriminate].
    destruct (select l rest) eqn:E; [|discriminate]. inversion H. simpl.
    rewrite En, Ee. now rewrite (IH rest l0 E).
Qed.

Lemma select_slice {A} (l : list A) idxs s a b : select l idxs = Some s ->
  select l (mv_slice idxs a b) = Some (mv_slice s a b).
Proof.
  intros H. rewrite !mv_slice_pos. rewrite (select_length l idxs s H).
  apply select_firstn. now apply select_skipn.
Qed.

(** cell [j] of a selection is the element its (normalised) index names *)
Lemma select_nth {A} (l : list A) : forall idxs s, select l idxs = Some s ->
  forall j i, nth_error idxs j = Some i ->
  exists p, norm_index (Z.of_nat (length l)) i = Some p /\ nth_error s j = nth_error l (Z.to_nat p).
Proof.
  induction idxs as [|i0 rest IH]; intros s H j i Hj; [destruct j; discriminate|].
  simpl in H.
  destruct (norm_index (Z.of_nat (length l)) i0) eqn:En; [|discriminate].
  destruct (nth_error l (Z.to_nat z)) eqn:Ee; [|discriminate].
  destruct (select l rest) eqn:E; [|discriminate]. inversion H; subst s.
  destruct j as [|j]; simpl in Hj.
  - inversion Hj; subst. exists z. split; [assumption|]. simpl. now rewrite Ee.
  - simpl. eapply IH; eauto.
Qed.

(** ** one row, one chunk *)
Section Row.
  Variable q : list Z.
  Variable sel : list (list Z).

  Lemma row_step (row0 : list f32) a b :
    length row0 = length sel -> a <= b ->
    let A := pos (length sel) a in
    let B := pos (length sel) b in
    splice (map (dist q) (firstn A sel) ++ skipn A row0) a (dist_row q (mv_slice sel a b))
    = map (dist q) (firstn B sel) ++ skipn B row0.
  Proof.
    intros Hl Hab A B.
    assert (HAB : (A <= B)%nat) by (apply pos_mono; exact Hab).
    assert (HBn : (B <= length sel)%nat) by apply pos_le.
    assert (HlA : length (map (dist q) (firstn A sel)) = A)
      by (rewrite map_length, firstn_length; lia).
    unfold splice, dist_row.
    assert (Hrow : length (map (dist q) (firstn A sel) ++ skipn A row0) = length sel)
      by (rewrite app_length, HlA, skipn_length; lia).
    unfold mv_len. rewrite Hrow. fold (pos (length sel) a). fold A.
    rewrite map_length, mv_slice_length. fold A B.
    rewrite firstn_app, HlA, Nat.sub_diag, firstn_O, app_nil_r.
    rewrite firstn_all2 by lia.
    rewrite skipn_app, HlA. rewrite (skipn_all2 (n := A + (B - A))) by lia.
    rewrite skipn_skipn'. replace (A + (A + (B - A) - A))%nat with B by lia. simpl app.
    rewrite mv_slice_pos. fold A B.
    rewrite (firstn_split A B sel HAB), map_app, <- app_assoc. reflexivity.
  Qed.
End Row.

(** ** the queries loop for one chunk *)
Definition rows_at (queries sel : list (list Z)) (rows0 : list (list f32)) (A : nat) : list (list f32) :=
  map (fun qr => map (dist (fst qr)) (firstn A sel) ++ skipn A (snd qr)) (combine queries rows0).

Lemma rows_at_length queries sel rows0 A : length rows0 = length queries ->
  length (rows_at queries sel rows0 A) = length queries.
Proof. intros H. unfold rows_at. rewrite map_length, combine_length. lia. Qed.

Lemma queries_loop_spec c dq dr sel a b :
  dtype_ok dq = true -> dtype_ok dr = true -> Forall sorted sel -> a <= b ->
  forall queries rows0, Forall sorted queries -> length rows0 = length queries ->
    Forall (fun row => length row = length sel) rows0 ->
    queries_loop c dq dr queries (mv_slice sel a b) a b
      (rows_at queries sel rows0 (pos (length sel) a))
    = POk (rows_at queries sel rows0 (pos (length sel) b)).
Proof.
  intros Hdq Hdr Hsel Hab.
  assert (Hchunk : Forall sorted (mv_slice sel a b)).
  { rewrite mv_slice_pos. rewrite Forall_forall in *. intros x Hx. apply Hsel.
    apply In_firstn in Hx. apply In_skipn in Hx. exact Hx. }
  induction queries as [|q queries IH]; intros rows0 Hq Hl Hrows; [reflexivity|].
  destruct rows0 as [|row0 rows0]; [discriminate|].
  inversion Hq as [|? ? Hq1 Hq2]; subst. inversion Hrows as [|? ? Hr1 Hr2]; subst.
  unfold rows_at. simpl combine. simpl map. cbn [queries_loop fst snd].
  set (A := pos (length sel) a) in *. set (B := pos (length sel) b) in *.
  assert (HA : (A <= length sel)%nat) by apply pos_le.
  assert (Hrow : length (map (dist q) (firstn A sel) ++ skipn A row0) = length sel)
    by (rewrite app_length, map_length, firstn_length, skipn_length; lia).
  rewrite C05_array_l; try assumption.
  2:{ unfold view_of, buf1_wf. apply Z.eqb_refl. }
  assert (Hok : out_ok (view_of (map (dist q) (firstn A sel) ++ skipn A row0) a b)
                  [mv_len (mv_slice sel a b)] = true).
  { unfold view_of, out_ok. simpl. rewrite andb_true_r, andb_true_r. apply Z.eqb_eq.
    unfold mv_len. now rewrite !mv_slice_length, Hrow. }
  rewrite Hok. cbn [pbind].
  fold (rows_at queries sel rows0 A). rewrite (IH rows0 Hq2 ltac:(simpl in Hl; lia) Hr2).
  cbn [pbind]. f_equal. f_equal.
  apply (row_step q sel row0 a b Hr1 Hab).
Qed.

(** ** the chunk loop *)
Lemma chunks_loop_spec c dq dr queries refs ref_indices sel rows0 :
  dtype_ok dq = true -> dtype_ok dr = true -> Forall sorted sel -> Forall sorted queries ->
  match ref_indices with None => sel = refs | Some ri => select refs ri = Some sel end ->
  length rows0 = length queries -> Forall (fun row => length row = length sel) rows0 ->
  forall slices start, chain (mv_len sel) start slices ->
    chunks_loop c dq dr queries refs ref_indices slices
      (rows_at queries sel rows0 (pos (length sel) start))
    = POk (rows_at queries sel rows0 (length sel)).
Proof.
  intros Hdq Hdr Hsel Hq Hri Hl Hrows.
  induction slices as [|[a b] rest IH]; intros start Hc; simpl in Hc.
  - simpl. rewrite pos_ge by exact Hc. reflexivity.
  - destruct Hc as [Ha [Hab Hc]]. subst start. cbn [chunks_loop].
    assert (Hchunk : match ref_indices with
                     | None => POk (mv_slice refs a b)
                     | Some ri => take refs (mv_slice ri a b)
                     end = POk (mv_slice sel a b)).
    { destruct ref_indices as [ri|]; [|now subst].
      unfold take. now rewrite (select_slice refs ri sel a b Hri). }
    rewrite Hchunk. cbn [pbind].
    rewrite queries_loop_spec; try assumption. cbn [pbind]. apply IH. exact Hc.
Qed.

Lemma rows_at_0 queries sel rows0 : length rows0 = length queries ->
  rows_at queries sel rows0 0 = rows0.
Proof.
  intros H. unfold rows_at. simpl. rewrite <- (map_snd_combine queries rows0 H) at 2.
  apply map_ext. intros [x y]. reflexivity.
Qed.

Lemma rows_at_end queries sel : forall rows0, length rows0 = length queries ->
  Forall (fun row => length row = length sel) rows0 ->
  rows_at queries sel rows0 (length sel) = dist_matrix queries sel.
Proof.
  unfold rows_at, dist_matrix, dist_row.
  induction queries as [|q queries IH]; intros [|row0 rows0] Hl Hr; simpl in *; try discriminate;
    [reflexivity|].
  inversion Hr as [|? ? H1 H2]; subst. f_equal.
  - rewrite firstn_all, <- H1, skipn_all. apply app_nil_r.
  - apply IH; [lia|assumption].
Qed.

(** ** jaccarddist_matrix *)

(** rows and row lengths of a 2-D buffer are what its shape says *)
Definition buf2_wf (out : option (obuf (list (list f32)))) : bool :=
  match out with
  | Some ([a; b], _, rows) => (a =? mv_len rows) && forallb (fun r => mv_len r =? b) rows
  | _ => true
  end.

(** the wrapping of a plain list succeeds (always, once repaired) *)
Definition wrap_ok (fx : bool) (c : container) (refs : list (list Z)) : bool :=
  match c, refs with CPyList, [] => fx | _, _ => true end.

Lemma wrap_plain_spec fx c refs :
  wrap_plain fx c refs = if wrap_ok fx c refs then POk tt else PErr PAttributeError.
Proof. unfold wrap_plain, wrap_ok. destruct c, refs, fx; reflexivity. Qed.

(** the references the columns stand for *)
Definition selected (refs : list (list Z)) (ref_indices : option (list Z)) : option (list (list Z)) :=
  match ref_indices with None => Some refs | Some ri => select refs ri end.

Definition chunksize_ok (cs : option Z) : bool :=
  match cs with None => true | Some s => 0 <? s end.

Lemma repeat_Forall {A} (P : A -> Prop) x n : P x -> Forall P (repeat x n).
Proof. intros H. induction n; simpl; constructor; auto. Qed.

Lemma C05_matrix_l fx c dq dr queries refs ref_indices out chunksize sel :
  dtype_ok dq = true -> dtype_ok dr = true -> Forall sorted queries -> Forall sorted refs ->
  wrap_ok fx c refs = true -> selected refs ref_indices = Some sel ->
  buf2_wf out = true -> chunksize_ok chunksize = true ->
  jd_matrix fx c dq dr queries refs ref_indices out chunksize =
    if out_ok out [mv_len queries; mv_len sel] then POk (dist_matrix queries sel)
    else PErr PValueError.
Proof.
  intros Hdq Hdr Hq Hrefs Hw Hsel Hwf Hcs. unfold jd_matrix.
  rewrite wrap_plain_spec, Hw. cbn [pbind].
  assert (Hnr : match ref_indices with None => mv_len refs | Some ri => mv_len ri end = mv_len sel).
  { destruct ref_indices as [ri|]; simpl in Hsel.
    - unfold mv_len. now rewrite (select_length refs ri sel Hsel).
    - inversion Hsel. reflexivity. }
  rewrite Hnr. rewrite check_out_spec.
  destruct (out_ok out [mv_len queries; mv_len sel]) eqn:Hok; [|reflexivity]. cbn [pbind].
  set (rows0 := match out with
                | Some (_, _, cells) => cells
                | None => repeat (repeat uninit (Z.to_nat (mv_len sel))) (Z.to_nat (mv_len queries))
                end).
  assert (Hrows0 : length rows0 = length queries /\ Forall (fun row => length row = length sel) rows0).
  { subst rows0. destruct out as [[[sh f] rows]|].
    - simpl in Hok. apply andb_prop in Hok as [Hsh _]. apply shape_eqb_eq in Hsh. subst sh.
      simpl in Hwf. apply andb_prop in Hwf as [H1 H2]. apply Z.eqb_eq in H1. unfold mv_len in H1.
      split; [lia|]. rewrite forallb_forall in H2. apply Forall_forall. intros r Hr.
      specialize (H2 r Hr). apply Z.eqb_eq in H2. unfold mv_len in H2. lia.
    - unfold mv_len. rewrite !Nat2Z.id. split; [apply repeat_length|].
      apply repeat_Forall. apply repeat_length. }
  destruct Hrows0 as [Hl0 Hr0].
  assert (HselS : Forall sorted sel).
  { destruct ref_indices as [ri|]; simpl in Hsel.
    - eapply select_Forall; eauto.
    - inversion Hsel. now subst. }
  assert (Hri : match ref_indices with None => sel = refs | Some ri => select refs ri = Some sel end).
  { destruct ref_indices; simpl in Hsel; [exact Hsel|now inversion Hsel]. }
  assert (Hslices : exists sl,
             match chunksize with None => POk [(0, mv_len sel)] | Some s => chunk_slices (mv_len sel) s end
             = POk sl /\ chain (mv_len sel) 0 sl).
  { destruct chunksize as [s|].
    - simpl in Hcs. apply Z.ltb_lt in Hcs. pose proof (C05_chunks_l (mv_len sel) s) as H.
      destruct (s <=? 0) eqn:E; [apply Z.leb_le in E; lia|].
      destruct H as [sl [H1 [H2 _]]]. eauto.
    - exists [(0, mv_len sel)]. split; [reflexivity|]. simpl. unfold mv_len. lia. }
  destruct Hslices as [sl [Hsl Hchain]]. rewrite Hsl. cbn [pbind].
  rewrite <- (rows_at_0 queries sel rows0 Hl0) at 1.
  rewrite <- (pos_0 (length sel)).
  rewrite (chunks_loop_spec c dq dr queries refs ref_indices sel rows0 Hdq Hdr HselS Hq Hri Hl0 Hr0 sl 0 Hchain).
  f_equal. now apply rows_at_end.
Qed.

(** a chunk size <= 0 is refused (after the buffer checks) *)
Lemma C05_matrix_badchunk_l fx c dq dr queries refs ref_indices out s :
  wrap_ok fx c refs = true -> s <= 0 ->
  out_ok out [mv_len queries; match ref_indices with None => mv_len refs | Some ri => mv_len ri end] = true ->
  jd_matrix fx c dq dr queries refs ref_indices out (Some s) = PErr PValueError.
Proof.
  intros Hw Hs Hok. unfold jd_matrix. rewrite wrap_plain_spec, Hw. cbn [pbind].
  rewrite check_out_spec, Hok. cbn [pbind]. unfold chunk_slices.
  destruct (s <=? 0) eqn:E; [reflexivity|apply Z.leb_gt in E; lia].
Qed.

(** cell (i, j) of the spec matrix *)
Lemma dist_matrix_cell queries sel i j q r :
  nth_error queries i = Some q -> nth_error sel j = Some r ->
  exists row, nth_error (dist_matrix queries sel) i = Some row /\ nth_error row j = Some (dist q r).
Proof.
  intros Hq Hr. unfold dist_matrix, dist_row. exists (map (dist q) sel).
  split; [exact (map_nth_error (fun q0 => map (dist q0) sel) i queries Hq)|exact (map_nth_error (dist q) j sel Hr)].
Qed.

(** the same, cell by cell, for an explicit selection [ri] of reference indices *)
Lemma C05_matrix_cell_l fx c dq dr queries refs ri out chunksize sel i j q k :
  dtype_ok dq = true -> dtype_ok dr = true -> Forall sorted queries -> Forall sorted refs ->
  wrap_ok fx c refs = true -> select refs ri = Some sel ->
  buf2_wf out = true -> chunksize_ok chunksize = true ->
  out_ok out [mv_len queries; mv_len ri] = true ->
  nth_error queries i = Some q -> nth_error ri j = Some k ->
  exists p r rows row,
    norm_index (mv_len refs) k = Some p /\ nth_error refs (Z.to_nat p) = Some r /\
    jd_matrix fx c dq dr queries refs (Some ri) out chunksize = POk rows /\
    nth_error rows i = Some row /\ nth_error row j = Some (dist q r).
Proof.
  intros Hdq Hdr Hq Hrefs Hw Hsel Hwf Hcs Hok Hi Hj.
  rewrite (C05_matrix_l fx c dq dr queries refs (Some ri) out chunksize sel) by assumption.
  replace (mv_len sel) with (mv_len ri) by (unfold mv_len; now rewrite (select_length refs ri sel Hsel)).
  rewrite Hok.
  destruct (select_nth refs ri sel Hsel j k Hj) as [p [Hn Hp]].
  destruct (nth_error sel j) as [r|] eqn:Er.
  - destruct (dist_matrix_cell queries sel i j q r Hi Er) as [row [H1 H2]].
    exists p, r, (dist_matrix queries sel), row. repeat split; auto.
  - exfalso. apply nth_error_None in Er. rewrite (select_length refs ri sel Hsel) in Er.
    assert (j < length ri)%nat by (apply nth_error_Some; congruence). lia.
Qed.

(** as found, an empty plain list of references is refused with an AttributeError although the
    result (a matrix with no columns) is determined: the statement of C05_matrix fails there *)
Lemma C05_matrix_asfound_refuted_l :
  exists queries, jd_matrix false CPyList (0, 2) (0, 2) queries [] None None None
                  <> POk (dist_matrix queries []).
Proof. exists [[1; 2]]. vm_compute. discriminate. Qed.
