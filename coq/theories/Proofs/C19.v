(** Lemmas for C19 (an interrupted signature-file write never yields a loadable wrong file)
    over Model/Store.v.  Durability is a property of libhdf5 and the OS: it enters through the
    [policy] parameter of [crash_disk].  The repository's write order (marker first, data last) is
    safe under [AtClose] and NOT under [Eager]; both facts are proved. *)
From Coq Require Import ZArith List Bool Lia ZifyBool.
From GV Require Import Model.Store Proofs.C12.
Import ListNotations.
Open Scope Z_scope.

Definition is_prefix {A} (p l : list A) : Prop := exists r, l = p ++ r.
Definition strict_prefix {A} (p l : list A) : Prop := exists r, r <> [] /\ l = p ++ r.

(** how a write ended: the writer died having completed exactly the calls [done] (the file was
    never closed), or it ran to completion and closed the file *)
Inductive outcome := Crashed (done : list op) | Completed.

Definition disk_after (pol : policy) (junk : disk) (p : wpath) (c : coll) (o : outcome) : sres disk :=
  match o with
  | Crashed done => SOk (crash_disk pol junk done)
  | Completed => closed_disk (dump_ops p c)
  end.

(** legal outcomes of writing [c]: a crash after any prefix of the calls (including after the last
    call, before [close]), or completion *)
Definition outcome_of (p : wpath) (c : coll) (o : outcome) : Prop :=
  match o with Crashed done => is_prefix done (dump_ops p c) | Completed => True end.

(** ---- AtClose --------------------------------------------------------------------------------- *)

Lemma unparsable_load : forall d, unparsable d = true ->
  load_file d = SErr ESigFile /\
  (load_file_cur d = SErr EOS \/ load_file_cur d = SErr EKey \/ load_file_cur d = SErr ESigFile).
Proof.
  intros [b|b|st] H; [| |discriminate]; cbn [load_file load_file_cur];
    destruct (list_eqb (firstn 8 b) magic); auto.
Qed.

Lemma C19_atclose_l : forall p c junk done, unparsable junk = true -> is_prefix done (dump_ops p c) ->
  load_file (crash_disk AtClose junk done) = SErr ESigFile /\
  (load_file_cur (crash_disk AtClose junk done) = SErr EOS \/
   load_file_cur (crash_disk AtClose junk done) = SErr EKey \/
   load_file_cur (crash_disk AtClose junk done) = SErr ESigFile).
Proof. intros p c junk done Hj _; cbn [crash_disk]; now apply unparsable_load. Qed.

Lemma C19_complete_l : forall p c junk o d l, wf_coll c = true -> unparsable junk = true -> outcome_of p c o ->
  disk_after AtClose junk p c o = SOk d ->
  (load_file d = SOk l \/ load_file_cur d = SOk l) ->
  o = Completed /\ l = loaded_of c /\ decode l = SOk c.(c_sigs).
Proof.
  intros p c junk o d l Hwf Hj Ho Hd Hl; destruct o as [done|].
  - cbn [disk_after crash_disk] in Hd; inversion Hd; subst d.
    destruct (unparsable_load junk Hj) as (H1 & H2).
    destruct Hl as [Hl|Hl]; [rewrite H1 in Hl; discriminate|].
    destruct H2 as [H2|[H2|H2]]; rewrite H2 in Hl; discriminate.
  - cbn [disk_after] in Hd; unfold closed_disk in Hd.
    rewrite (run_dump_ops p c Hwf) in Hd; cbn [sbind] in Hd; inversion Hd; subst d.
    unfold load_file, load_file_cur in Hl; cbn [attrs attrs_of aget Z.eqb] in Hl.
    rewrite (load_written p c Hwf) in Hl.
    assert (l = loaded_of c) by (destruct Hl as [Hl|Hl]; now inversion Hl).
    subst l; repeat split; apply decode_loaded.
Qed.

(** ---- Eager: the write order alone is not safe --------------------------------------------- *)

Definition rf_coll : coll :=
  {| c_k := 3; c_prefix := [65; 84]; c_ty := U8; c_sigs := [[1; 5]; [7]]; c_ids := IdInts I64 [0; 1];
     c_meta := {| m_id := None; m_name := None; m_id_attr := None; m_version := None; m_desc := None;
                  m_extra := Some [123; 125] |} |}.

(** killed before the last per-signature write, with every call flushed: the file loads, as a
    collection whose last signature is zero-filled *)
Lemma C19_eager_refuted_l :
  exists p c junk done l,
    wf_coll c = true /\ strict_prefix done (dump_ops p c) /\
    load_file (crash_disk Eager junk done) = SOk l /\
    decode l = SOk [[1; 5]; [0]] /\ decode l <> SOk c.(c_sigs).
Proof.
  exists PerSig, rf_coll, (DRaw []), (removelast (dump_ops PerSig rf_coll)).
  eexists; split; [vm_compute; reflexivity|]; split.
  - exists [OWrite 1 2 3 [7]]; split; [discriminate|vm_compute; reflexivity].
  - split; [vm_compute; reflexivity|]; split; [vm_compute; reflexivity|vm_compute; discriminate].
Qed.

(** ... and where exactly it is safe whatever the flushing: as long as one of the datasets [load]
    needs has not been created.  For the whole-array path that is every interrupted write
    ([bounds] is created by the last call); for the per-signature path it is every crash before
    the [values] dataset is created. *)
Definition creates (k : Z) (o : op) : bool :=
  match o with OCreate k' _ => k =? k' | OCreateZero k' _ _ => k =? k' | _ => false end.

Lemma aget_aset_other : forall {V} k k' (v : V) l, (k =? k') = false -> aget k (aset k' v l) = aget k l.
Proof.
  induction l as [|[k2 w] l IH]; intros H; cbn [aset aget].
  - now rewrite H.
  - destruct (k' =? k2) eqn:E; cbn [aget].
    + apply Z.eqb_eq in E; subst; now rewrite H.
    + destruct (k =? k2); [reflexivity|now apply IH].
Qed.

Lemma run_keeps_absent : forall k ops st st',
  run ops st = SOk st' -> aget k st.(dsets) = None ->
  forallb (fun o => negb (creates k o)) ops = true -> aget k st'.(dsets) = None.
Proof.
  induction ops as [|o ops IH]; intros st st' Hr Ha Hc; cbn [run] in Hr.
  - now inversion Hr; subst.
  - cbn [forallb] in Hc; apply andb_true_iff in Hc as [Ho Hc].
    destruct (run_op o st) as [st1|e] eqn:E; cbn [sbind] in Hr; [|discriminate].
    apply (IH st1 st' Hr); [|exact Hc].
    destruct o as [k' v|k' d|k' t n|k' a b data]; cbn [run_op creates] in E, Ho.
    + destruct (aval_ok v); inversion E; subst; exact Ha.
    + destruct (aget k' (dsets st)); [discriminate|].
      destruct (dset_ok d); inversion E; subst; cbn [dsets].
      rewrite aget_aset_other; [exact Ha|now destruct (k =? k')].
    + destruct (aget k' (dsets st)); [discriminate|].
      destruct (n <? 0); inversion E; subst; cbn [dsets].
      rewrite aget_aset_other; [exact Ha|now destruct (k =? k')].
    + destruct (aget k' (dsets st)) as [[t old|sd]|] eqn:G; try discriminate.
      destruct ((0 <=? a) && (a <=? b) && (b <=? zlen old) && (zlen data =? b - a)); inversion E; subst; cbn [dsets].
      destruct (k =? k') eqn:K.
      * apply Z.eqb_eq in K; subst; rewrite Ha in G; discriminate.
      * now rewrite aget_aset_other.
Qed.

Lemma load_missing : forall st k, k = 1 \/ k = 2 -> aget k st.(dsets) = None -> exists e, load st = SErr e.
Proof.
  intros st k Hk Ha; unfold load.
  destruct (aget 0 (attrs st)) as [[z|s|]|]; eauto.
  destruct z as [|q|q]; eauto. destruct q; eauto.
  destruct (aget 1 (attrs st)) as [[z|s|]|], (aget 2 (attrs st)) as [[z'|s'|]|]; eauto.
  destruct (kmerspec z s') as [kp|e]; cbn [sbind]; eauto.
  destruct (get_meta 8 st); cbn [sbind]; eauto.
  destruct (get_meta 3 st); cbn [sbind]; eauto.
  destruct (get_meta 4 st); cbn [sbind]; eauto.
  destruct (get_meta 5 st); cbn [sbind]; eauto.
  destruct (get_meta 6 st); cbn [sbind]; eauto.
  destruct (get_meta 7 st); cbn [sbind]; eauto.
  destruct Hk; subst k; rewrite Ha.
  - eauto.
  - destruct (aget 1 (dsets st)) as [[]|]; eauto.
Qed.

Definition safe_part (p : wpath) (c : coll) : list op :=
  match p with
  | Whole => removelast (dump_ops Whole c)
  | PerSig => attr_ops c ++ firstn 4 (data_ops PerSig c)
  end.

Lemma forallb_prefix : forall {A} (f : A -> bool) p l, is_prefix p l -> forallb f l = true -> forallb f p = true.
Proof. intros A f p l [r ->] H; rewrite forallb_app in H; now apply andb_true_iff in H as [H _]. Qed.

Lemma C19_eager_window_l : forall p c junk done, unparsable junk = true -> is_prefix done (safe_part p c) ->
  exists e, load_file (crash_disk Eager junk done) = SErr e.
Proof.
  intros p c junk done Hj Hp; cbn [crash_disk].
  destruct (run done empty_store) as [st|e] eqn:R.
  - cbn [load_file]. destruct (aget 0 (attrs st)); [|eauto].
    destruct p.
    + apply (load_missing st 2); [now right|].
      apply (run_keeps_absent 2 done empty_store st R); [reflexivity|].
      apply (forallb_prefix _ _ _ Hp); reflexivity.
    + apply (load_missing st 1); [now left|].
      apply (run_keeps_absent 1 done empty_store st R); [reflexivity|].
      apply (forallb_prefix _ _ _ Hp); reflexivity.
  - destruct (unparsable_load junk Hj) as (H1 & _); eauto.
Qed.

(** every strict prefix of the whole-array write is a prefix of its safe part *)
Lemma strict_prefix_removelast : forall {A} (p l : list A), strict_prefix p l -> is_prefix p (removelast l).
Proof.
  intros A p l (r & Hr & ->).
  destruct (exists_last Hr) as (r' & y & ->).
  exists r'. rewrite app_assoc, removelast_last. reflexivity.
Qed.

Lemma C19_eager_whole_l : forall c junk done, unparsable junk = true -> strict_prefix done (dump_ops Whole c) ->
  exists e, load_file (crash_disk Eager junk done) = SErr e.
Proof.
  intros c junk done Hj H; apply (C19_eager_window_l Whole c); [exact Hj|]; cbn [safe_part].
  now apply strict_prefix_removelast.
Qed.

(** ---- non-vacuity -------------------------------------------------------------------------------- *)

Example ex19_complete : exists d, disk_after AtClose (DRaw []) PerSig rf_coll Completed = SOk d /\
                                  load_file d = SOk (loaded_of rf_coll).
Proof. eexists; split; vm_compute; reflexivity. Qed.

Example ex19_prefixes : length (dump_ops PerSig rf_coll) = 16%nat /\ length (dump_ops Whole rf_coll) = 12%nat.
Proof. split; reflexivity. Qed.
