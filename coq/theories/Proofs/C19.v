(** Lemmas for C19 (an interrupted signature-file write never yields a loadable wrong file)
    over Model/Store.v.  Durability is a property of libhdf5 and the OS: it enters through the
    [policy] parameter of [crash_disk]; a writer that dies by an EXCEPTION has its file closed by the
    context manager, so everything it did is on the disk ([raised_disk], the same file as [Eager]).
    The repaired write order (marker LAST, [dump_ops]) is safe under EVERY policy and for every
    exception death; the order as found (marker first, [dump_ops_v0]) is safe under [AtClose] only. *)
From Coq Require Import ZArith List Bool Lia ZifyBool.
From GV Require Import Model.Store Proofs.C12.
Import ListNotations.
Open Scope Z_scope.

Definition is_prefix {A} (p l : list A) : Prop := exists r, l = p ++ r.
Definition strict_prefix {A} (p l : list A) : Prop := exists r, r <> [] /\ l = p ++ r.

(** how a write ended: the writer was KILLED having completed exactly the calls [done] (the file was
    never closed), it RAISED having completed exactly the calls [done] (the exception unwound through
    [with h5.File(...)], which closed the file), or it ran to completion and closed the file *)
Inductive outcome := Crashed (done : list op) | Raised (done : list op) | Completed.

(** what is at the path afterwards, for a writer that issues the calls [ops] *)
Definition disk_after_ops (pol : policy) (junk : disk) (ops : list op) (o : outcome) : sres disk :=
  match o with
  | Crashed done => SOk (crash_disk pol junk done)
  | Raised done => raised_disk done
  | Completed => closed_disk ops
  end.

Definition disk_after (pol : policy) (junk : disk) (p : wpath) (c : coll) (o : outcome) : sres disk :=
  disk_after_ops pol junk (dump_ops p c) o.
(** ... for the write order of the code as found *)
Definition disk_after_v0 (pol : policy) (junk : disk) (p : wpath) (c : coll) (o : outcome) : sres disk :=
  disk_after_ops pol junk (dump_ops_v0 p c) o.

(** legal outcomes of writing [c]: death after any prefix of the calls (including after the last
    call, before [close]), or completion *)
Definition outcome_of (p : wpath) (c : coll) (o : outcome) : Prop :=
  match o with Crashed done | Raised done => is_prefix done (dump_ops p c) | Completed => True end.

(** the write got through all its calls (it completed, or it died after the last call) *)
Definition all_calls_done (p : wpath) (c : coll) (o : outcome) : Prop :=
  match o with Crashed done | Raised done => done = dump_ops p c | Completed => True end.

(** ---- lists --------------------------------------------------------------------------------------- *)

Lemma strict_prefix_removelast : forall {A} (p l : list A), strict_prefix p l -> is_prefix p (removelast l).
Proof.
  intros A p l (r & Hr & ->).
  destruct (exists_last Hr) as (r' & y & ->).
  exists r'. rewrite app_assoc, removelast_last. reflexivity.
Qed.

Lemma prefix_cases : forall {A} (p l : list A), is_prefix p l -> p = l \/ strict_prefix p l.
Proof.
  intros A p l [[|x r] ->].
  - left; now rewrite app_nil_r.
  - right; exists (x :: r); split; [discriminate|reflexivity].
Qed.

(** what was flushed is a prefix of what was done *)
Lemma strict_prefix_firstn : forall {A} k (p l : list A), strict_prefix p l -> strict_prefix (firstn k p) l.
Proof.
  intros A k p l (r & Hr & ->); exists (skipn k p ++ r); split.
  - intros E; apply app_eq_nil in E as [_ E]; now apply Hr.
  - now rewrite app_assoc, firstn_skipn.
Qed.

Lemma firstn_cases : forall {A} k (l : list A), firstn k l = l \/ strict_prefix (firstn k l) l.
Proof.
  intros A k l; apply prefix_cases; exists (skipn k l); now rewrite firstn_skipn.
Qed.

Lemma strict_is_prefix : forall {A} (p l : list A), strict_prefix p l -> is_prefix p l.
Proof. intros A p l (r & _ & ->); now exists r. Qed.

Lemma forallb_prefix : forall {A} (f : A -> bool) p l, is_prefix p l -> forallb f l = true -> forallb f p = true.
Proof. intros A f p l [r ->] H; rewrite forallb_app in H; now apply andb_true_iff in H as [H _]. Qed.

(** a prefix of a call sequence that runs, runs *)
Lemma run_prefix_ok : forall done ops st st', is_prefix done ops -> run ops st = SOk st' ->
  exists st1, run done st = SOk st1.
Proof.
  intros done ops st st' [r ->] H; rewrite run_app in H.
  destruct (run done st) as [st1|e]; [now exists st1|discriminate].
Qed.

Lemma aget_aset_other : forall {V} k k' (v : V) l, (k =? k') = false -> aget k (aset k' v l) = aget k l.
Proof.
  induction l as [|[k2 w] l IH]; intros H; cbn [aset aget].
  - now rewrite H.
  - destruct (k' =? k2) eqn:E; cbn [aget].
    + apply Z.eqb_eq in E; subst; now rewrite H.
    + destruct (k =? k2); [reflexivity|now apply IH].
Qed.

(** ---- files that cannot be parsed ----------------------------------------------------------------- *)

Lemma unparsable_load : forall d, unparsable d = true ->
  load_file d = SErr ESigFile /\
  (load_file_cur d = SErr EOS \/ load_file_cur d = SErr EKey \/ load_file_cur d = SErr ESigFile).
Proof.
  intros [b|b|st] H; [| |discriminate]; cbn [load_file load_file_cur];
    destruct (list_eqb (firstn 8 b) magic); auto.
Qed.

(** ---- AtClose: any order of the calls ----------------------------------------------------------- *)

Lemma C19_atclose_l : forall p c junk done, unparsable junk = true -> is_prefix done (dump_ops p c) ->
  load_file (crash_disk AtClose junk done) = SErr ESigFile /\
  (load_file_cur (crash_disk AtClose junk done) = SErr EOS \/
   load_file_cur (crash_disk AtClose junk done) = SErr EKey \/
   load_file_cur (crash_disk AtClose junk done) = SErr ESigFile).
Proof. intros p c junk done Hj _; cbn [crash_disk]; now apply unparsable_load. Qed.

(** the same for the order as found: what a KILLED writer leaves does not depend on the order *)
Lemma C19_marker_first_atclose_l : forall p c junk done, unparsable junk = true -> is_prefix done (dump_ops_v0 p c) ->
  load_file (crash_disk AtClose junk done) = SErr ESigFile /\
  (load_file_cur (crash_disk AtClose junk done) = SErr EOS \/
   load_file_cur (crash_disk AtClose junk done) = SErr EKey \/
   load_file_cur (crash_disk AtClose junk done) = SErr ESigFile).
Proof. intros p c junk done Hj _; cbn [crash_disk]; now apply unparsable_load. Qed.

(** ---- the marker is last: every strict prefix leaves a group without the marker ------------------ *)

Definition sets_marker (o : op) : bool := match o with OSetAttr k _ => k =? 0 | _ => false end.
Definition no_marker (ops : list op) : bool := forallb (fun o => negb (sets_marker o)) ops.

Lemma run_keeps_unmarked : forall ops st st',
  run ops st = SOk st' -> no_marker ops = true -> aget 0 st.(attrs) = None -> aget 0 st'.(attrs) = None.
Proof.
  unfold no_marker; induction ops as [|o ops IH]; intros st st' Hr Hc Ha; cbn [run] in Hr.
  - now inversion Hr; subst.
  - cbn [forallb] in Hc; apply andb_true_iff in Hc as [Ho Hc].
    destruct (run_op o st) as [st1|e] eqn:E; cbn [sbind] in Hr; [|discriminate].
    apply (IH st1 st' Hr Hc).
    destruct o as [k v|k d|k t n|k a b data]; cbn [run_op sets_marker] in E, Ho.
    + destruct (aval_ok v); inversion E; subst; cbn [attrs].
      rewrite aget_aset_other; [exact Ha|]. destruct (k =? 0) eqn:K; [discriminate|].
      rewrite Z.eqb_sym; exact K.
    + destruct (aget k (dsets st)); [discriminate|].
      destruct (dset_ok d); inversion E; subst; exact Ha.
    + destruct (aget k (dsets st)); [discriminate|].
      destruct (n <? 0); inversion E; subst; exact Ha.
    + destruct (aget k (dsets st)) as [[t old|sd]|]; try discriminate.
      destruct ((0 <=? a) && (a <=? b) && (b <=? zlen old) && (zlen data =? b - a)); inversion E; subst; exact Ha.
Qed.

Lemma sig_writes_no_marker : forall sigs off, no_marker (sig_writes off sigs) = true.
Proof. unfold no_marker; induction sigs as [|s sigs IH]; intros off; cbn [sig_writes forallb sets_marker negb andb]; auto. Qed.

Lemma body_no_marker : forall p c, no_marker (body_ops p c) = true.
Proof.
  intros p c; unfold no_marker, body_ops; rewrite forallb_app; apply andb_true_iff; split; [reflexivity|].
  destruct p; [reflexivity|].
  unfold data_ops; cbn [forallb sets_marker negb andb app]. apply sig_writes_no_marker.
Qed.

Lemma strict_prefix_body : forall p c done, strict_prefix done (dump_ops p c) -> is_prefix done (body_ops p c).
Proof.
  intros p c done H; apply strict_prefix_removelast in H.
  unfold dump_ops in H; now rewrite removelast_last in H.
Qed.

(** the heart of the repair: while the write is incomplete the group does not carry the marker *)
Lemma marker_last_unmarked : forall p c done st, strict_prefix done (dump_ops p c) ->
  run done empty_store = SOk st -> aget 0 st.(attrs) = None.
Proof.
  intros p c done st H R; apply (run_keeps_unmarked done empty_store st R); [|reflexivity].
  apply (forallb_prefix _ _ _ (strict_prefix_body p c done H)); apply body_no_marker.
Qed.

Lemma unmarked_load : forall st, aget 0 st.(attrs) = None ->
  load_file (DHdf st) = SErr ESigFile /\ load_file_cur (DHdf st) = SErr ESigFile.
Proof. intros st H; cbn [load_file load_file_cur]; now rewrite H. Qed.

(** EVERY strict prefix of the calls is refused under EVERY durability policy *)
Lemma C19_marker_last_any_policy_l : forall pol p c junk done, unparsable junk = true -> strict_prefix done (dump_ops p c) ->
  load_file (crash_disk pol junk done) = SErr ESigFile /\
  (load_file_cur (crash_disk pol junk done) = SErr EOS \/
   load_file_cur (crash_disk pol junk done) = SErr EKey \/
   load_file_cur (crash_disk pol junk done) = SErr ESigFile).
Proof.
  intros pol p c junk done Hj H; destruct pol as [| |k]; cbn [crash_disk]; [now apply unparsable_load| |].
  - destruct (run done empty_store) as [st|e] eqn:R; [|now apply unparsable_load].
    destruct (unmarked_load st (marker_last_unmarked p c done st H R)) as (H1 & H2); auto.
  - destruct (run (firstn k done) empty_store) as [st|e] eqn:R; [|now apply unparsable_load].
    destruct (unmarked_load st (marker_last_unmarked p c _ st (strict_prefix_firstn k _ _ H) R)) as (H1 & H2); auto.
Qed.

(** the form asked for: some error, both readers *)
Lemma C19_marker_last_any_policy_ex_l : forall pol p c junk done, unparsable junk = true -> strict_prefix done (dump_ops p c) ->
  (exists e, load_file (crash_disk pol junk done) = SErr e) /\
  (exists e, load_file_cur (crash_disk pol junk done) = SErr e).
Proof.
  intros pol p c junk done Hj H.
  destruct (C19_marker_last_any_policy_l pol p c junk done Hj H) as (H1 & [H2|[H2|H2]]); split; eauto.
Qed.

(** death by an exception: the file IS a well-formed HDF5 file holding everything done so far, and
    it is refused with SignaturesFileError by both readers -- at every point of every write *)
Lemma C19_exception_death_l : forall p c done, wf_coll c = true -> strict_prefix done (dump_ops p c) ->
  exists st, run done empty_store = SOk st /\
             disk_after Eager (DRaw []) p c (Raised done) = SOk (DHdf st) /\
             load_file (DHdf st) = SErr ESigFile /\ load_file_cur (DHdf st) = SErr ESigFile.
Proof.
  intros p c done Hwf H.
  destruct (run_prefix_ok done _ _ _ (strict_is_prefix _ _ H) (run_dump_ops p c Hwf)) as (st & R).
  exists st; split; [exact R|]; split.
  - unfold disk_after, disk_after_ops, raised_disk, closed_disk; now rewrite R.
  - apply unmarked_load, (marker_last_unmarked p c done st H R).
Qed.

(** ... without the well-formedness hypothesis: whenever the calls [done] ran at all *)
Lemma C19_exception_death_any_l : forall p c done d, strict_prefix done (dump_ops p c) ->
  raised_disk done = SOk d -> load_file d = SErr ESigFile /\ load_file_cur d = SErr ESigFile.
Proof.
  intros p c done d H Hd; unfold raised_disk, closed_disk in Hd.
  destruct (run done empty_store) as [st|e] eqn:R; cbn [sbind] in Hd; [|discriminate].
  inversion Hd; subst d. apply unmarked_load, (marker_last_unmarked p c done st H R).
Qed.

(** ---- a file that loads comes from a write that got through all its calls ------------------------ *)

Lemma full_disk_loads : forall p c l, wf_coll c = true ->
  (load_file (DHdf {| attrs := attrs_of c; dsets := dsets_of p c |}) = SOk l \/
   load_file_cur (DHdf {| attrs := attrs_of c; dsets := dsets_of p c |}) = SOk l) ->
  l = loaded_of c /\ decode l = SOk c.(c_sigs).
Proof.
  intros p c l Hwf Hl; unfold load_file, load_file_cur in Hl; cbn [attrs] in Hl.
  rewrite marker_written, (load_written p c Hwf) in Hl.
  assert (l = loaded_of c) by (destruct Hl as [Hl|Hl]; now inversion Hl).
  subst l; split; [reflexivity|apply decode_loaded].
Qed.

Lemma C19_complete_any_policy_l : forall pol p c junk o d l, wf_coll c = true -> unparsable junk = true ->
  outcome_of p c o -> disk_after pol junk p c o = SOk d ->
  (load_file d = SOk l \/ load_file_cur d = SOk l) ->
  all_calls_done p c o /\ l = loaded_of c /\ decode l = SOk c.(c_sigs).
Proof.
  intros pol p c junk o d l Hwf Hj Ho Hd Hl; destruct o as [done|done|]; cbn [outcome_of all_calls_done] in *.
  - destruct (prefix_cases _ _ Ho) as [E|S].
    + subst done; split; [reflexivity|].
      unfold disk_after, disk_after_ops in Hd; inversion Hd; subst d; clear Hd.
      destruct pol as [| |k]; cbn [crash_disk] in Hl.
      * destruct (unparsable_load junk Hj) as (H1 & H2).
        destruct Hl as [Hl|Hl]; [rewrite H1 in Hl; discriminate|].
        destruct H2 as [H2|[H2|H2]]; rewrite H2 in Hl; discriminate.
      * rewrite (run_dump_ops p c Hwf) in Hl. now apply (full_disk_loads p c l Hwf).
      * destruct (firstn_cases k (dump_ops p c)) as [E|S].
        -- rewrite E, (run_dump_ops p c Hwf) in Hl. now apply (full_disk_loads p c l Hwf).
        -- exfalso.
           assert (Hr : load_file (crash_disk Eager junk (firstn k (dump_ops p c))) = SErr ESigFile /\
                        (load_file_cur (crash_disk Eager junk (firstn k (dump_ops p c))) = SErr EOS \/
                         load_file_cur (crash_disk Eager junk (firstn k (dump_ops p c))) = SErr EKey \/
                         load_file_cur (crash_disk Eager junk (firstn k (dump_ops p c))) = SErr ESigFile))
             by (now apply (C19_marker_last_any_policy_l Eager p c)).
           cbn [crash_disk] in Hr. destruct Hr as (H1 & H2).
           destruct Hl as [Hl|Hl]; [rewrite H1 in Hl; discriminate|].
           destruct H2 as [H2|[H2|H2]]; rewrite H2 in Hl; discriminate.
    + exfalso. unfold disk_after, disk_after_ops in Hd; inversion Hd; subst d; clear Hd.
      destruct (C19_marker_last_any_policy_l pol p c junk done Hj S) as (H1 & H2).
      destruct Hl as [Hl|Hl]; [rewrite H1 in Hl; discriminate|].
      destruct H2 as [H2|[H2|H2]]; rewrite H2 in Hl; discriminate.
  - unfold disk_after, disk_after_ops in Hd.
    destruct (prefix_cases _ _ Ho) as [E|S].
    + subst done; split; [reflexivity|].
      unfold raised_disk, closed_disk in Hd; rewrite (run_dump_ops p c Hwf) in Hd; cbn [sbind] in Hd.
      inversion Hd; subst d. now apply (full_disk_loads p c l Hwf).
    + exfalso. destruct (C19_exception_death_any_l p c done d S Hd) as (H1 & H2).
      destruct Hl as [Hl|Hl]; [rewrite H1 in Hl|rewrite H2 in Hl]; discriminate.
  - split; [exact I|].
    unfold disk_after, disk_after_ops, closed_disk in Hd.
    rewrite (run_dump_ops p c Hwf) in Hd; cbn [sbind] in Hd; inversion Hd; subst d.
    now apply (full_disk_loads p c l Hwf).
Qed.

(** the statement as it was before the repair (policy AtClose), now over the outcomes incl. [Raised]:
    under AtClose a KILLED writer never leaves a loadable file, so a file that loads comes from a completed
    write or from a writer that raised after its last call *)
Lemma C19_complete_l : forall p c junk o d l, wf_coll c = true -> unparsable junk = true -> outcome_of p c o ->
  disk_after AtClose junk p c o = SOk d ->
  (load_file d = SOk l \/ load_file_cur d = SOk l) ->
  (o = Completed \/ o = Raised (dump_ops p c)) /\ l = loaded_of c /\ decode l = SOk c.(c_sigs).
Proof.
  intros p c junk o d l Hwf Hj Ho Hd Hl.
  destruct (C19_complete_any_policy_l AtClose p c junk o d l Hwf Hj Ho Hd Hl) as (Ha & H2).
  split; [|exact H2].
  destruct o as [done|done|]; cbn [all_calls_done] in Ha; [|right; now subst|now left].
  exfalso. unfold disk_after, disk_after_ops in Hd; inversion Hd; subst d; cbn [crash_disk] in Hl.
  destruct (unparsable_load junk Hj) as (H1 & H3).
  destruct Hl as [Hl|Hl]; [rewrite H1 in Hl; discriminate|].
  destruct H3 as [H3|[H3|H3]]; rewrite H3 in Hl; discriminate.
Qed.

(** ---- the order as found (marker first) is NOT safe once the calls reach the disk ---------------- *)

Definition rf_coll : coll :=
  {| c_k := 3; c_prefix := [65; 84]; c_ty := U8; c_sigs := [[1; 5]; [7]]; c_ids := IdInts I64 [0; 1];
     c_meta := {| m_id := None; m_name := None; m_id_attr := None; m_version := None; m_desc := None;
                  m_extra := Some [123; 125] |} |}.

(** killed before the last per-signature write, with every call flushed: the file loads, as a
    collection whose last signature is zero-filled *)
Lemma C19_marker_first_eager_refuted_l :
  exists p c junk done l,
    wf_coll c = true /\ strict_prefix done (dump_ops_v0 p c) /\
    load_file (crash_disk Eager junk done) = SOk l /\
    decode l = SOk [[1; 5]; [0]] /\ decode l <> SOk c.(c_sigs).
Proof.
  exists PerSig, rf_coll, (DRaw []), (removelast (dump_ops_v0 PerSig rf_coll)).
  eexists; split; [vm_compute; reflexivity|]; split.
  - exists [OWrite 1 2 3 [7]]; split; [discriminate|vm_compute; reflexivity].
  - split; [vm_compute; reflexivity|]; split; [vm_compute; reflexivity|vm_compute; discriminate].
Qed.

(** the defect of the code as found: the writer RAISES (Ctrl-C, MemoryError, an I/O error, an exception
    of the signature source) before the last per-signature write; h5py closes the file cleanly; the
    file loads, as a collection whose last signature is zero-filled *)
Lemma C19_marker_first_raised_refuted_l :
  exists p c done d l,
    wf_coll c = true /\ strict_prefix done (dump_ops_v0 p c) /\
    disk_after_v0 AtClose (DRaw []) p c (Raised done) = SOk d /\
    load_file d = SOk l /\ load_file_cur d = SOk l /\
    decode l = SOk [[1; 5]; [0]] /\ decode l <> SOk c.(c_sigs).
Proof.
  exists PerSig, rf_coll, (removelast (dump_ops_v0 PerSig rf_coll)).
  eexists; eexists; split; [vm_compute; reflexivity|]; split.
  - exists [OWrite 1 2 3 [7]]; split; [discriminate|vm_compute; reflexivity].
  - split; [vm_compute; reflexivity|]. split; [vm_compute; reflexivity|]. split; [vm_compute; reflexivity|].
    split; [vm_compute; reflexivity|vm_compute; discriminate].
Qed.

(** ... and where exactly the order as found is safe whatever the flushing: as long as one of the
    datasets [load] needs has not been created.  For the whole-array path that is every interrupted
    write ([bounds] is created by the last call); for the per-signature path it is every death before
    the [values] dataset is created. *)
Definition creates (k : Z) (o : op) : bool :=
  match o with OCreate k' _ => k =? k' | OCreateZero k' _ _ => k =? k' | _ => false end.

Lemma run_keeps_absent : forall k ops st st',
  run ops st = SOk st' -> aget k st.(dsets) = None ->
  forallb (fun o => negb (creates k o)) ops = true -> aget k st'.(dsets) = None.
Proof.
  induction ops as [|o ops IH]; intros st st' Hr Ha Hc; cbn [run] in Hr.
  - now inversion Hr; subst.
  - cbn [forallb] in Hc; apply andb_true_iff in Hc as [Ho Hc].
    destruct (run_op o st) as [st1|e] eqn:E; cbn [sbind] in Hr; [|discriminate].
    apply (IH st1 st' Hr); [|exact Hc].
    destruct o as [k' v|k' d|k' t n|k' a b data]; cbn [run_op creates] in E, Ho.
    + destruct (aval_ok v); inversion E; subst; exact Ha.
    + destruct (aget k' (dsets st)); [discriminate|].
      destruct (dset_ok d); inversion E; subst; cbn [dsets].
      rewrite aget_aset_other; [exact Ha|now destruct (k =? k')].
    + destruct (aget k' (dsets st)); [discriminate|].
      destruct (n <? 0); inversion E; subst; cbn [dsets].
      rewrite aget_aset_other; [exact Ha|now destruct (k =? k')].
    + destruct (aget k' (dsets st)) as [[t old|sd]|] eqn:G; try discriminate.
      destruct ((0 <=? a) && (a <=? b) && (b <=? zlen old) && (zlen data =? b - a)); inversion E; subst; cbn [dsets].
      destruct (k =? k') eqn:K.
      * apply Z.eqb_eq in K; subst; rewrite Ha in G; discriminate.
      * now rewrite aget_aset_other.
Qed.

Lemma load_missing : forall st k, k = 1 \/ k = 2 -> aget k st.(dsets) = None -> exists e, load st = SErr e.
Proof.
  intros st k Hk Ha; unfold load.
  destruct (aget 0 (attrs st)) as [[z|s|]|]; eauto.
  destruct z as [|q|q]; eauto. destruct q; eauto.
  destruct (aget 1 (attrs st)) as [[z|s|]|], (aget 2 (attrs st)) as [[z'|s'|]|]; eauto.
  destruct (kmerspec z s') as [kp|e]; cbn [sbind]; eauto.
  destruct (get_meta 8 st); cbn [sbind]; eauto.
  destruct (get_meta 3 st); cbn [sbind]; eauto.
  destruct (get_meta 4 st); cbn [sbind]; eauto.
  destruct (get_meta 5 st); cbn [sbind]; eauto.
  destruct (get_meta 6 st); cbn [sbind]; eauto.
  destruct (get_meta 7 st); cbn [sbind]; eauto.
  destruct Hk; subst k; rewrite Ha.
  - eauto.
  - destruct (aget 1 (dsets st)) as [[]|]; eauto.
Qed.

Definition safe_part_v0 (p : wpath) (c : coll) : list op :=
  match p with
  | Whole => removelast (dump_ops_v0 Whole c)
  | PerSig => marker_op :: attr_ops c ++ firstn 4 (data_ops PerSig c)
  end.

Lemma C19_marker_first_eager_window_l : forall p c junk done, unparsable junk = true -> is_prefix done (safe_part_v0 p c) ->
  exists e, load_file (crash_disk Eager junk done) = SErr e.
Proof.
  intros p c junk done Hj Hp; cbn [crash_disk].
  destruct (run done empty_store) as [st|e] eqn:R.
  - cbn [load_file]. destruct (aget 0 (attrs st)); [|eauto].
    destruct p.
    + apply (load_missing st 2); [now right|].
      apply (run_keeps_absent 2 done empty_store st R); [reflexivity|].
      apply (forallb_prefix _ _ _ Hp); reflexivity.
    + apply (load_missing st 1); [now left|].
      apply (run_keeps_absent 1 done empty_store st R); [reflexivity|].
      apply (forallb_prefix _ _ _ Hp); reflexivity.
  - destruct (unparsable_load junk Hj) as (H1 & _); eauto.
Qed.

Lemma C19_marker_first_eager_whole_l : forall c junk done, unparsable junk = true -> strict_prefix done (dump_ops_v0 Whole c) ->
  exists e, load_file (crash_disk Eager junk done) = SErr e.
Proof.
  intros c junk done Hj H; apply (C19_marker_first_eager_window_l Whole c); [exact Hj|]; cbn [safe_part_v0].
  now apply strict_prefix_removelast.
Qed.

(** ---- non-vacuity -------------------------------------------------------------------------------- *)

Example ex19_complete : exists d, disk_after AtClose (DRaw []) PerSig rf_coll Completed = SOk d /\
                                  load_file d = SOk (loaded_of rf_coll).
Proof. eexists; split; vm_compute; reflexivity. Qed.

Example ex19_prefixes : length (dump_ops PerSig rf_coll) = 16%nat /\ length (dump_ops Whole rf_coll) = 12%nat /\
                        last (dump_ops PerSig rf_coll) marker_op = marker_op /\ hd marker_op (dump_ops_v0 Whole rf_coll) = marker_op.
Proof. repeat split; reflexivity. Qed.

(** the death point of the refuted theorems (every call but the last per-signature write done), in the
    repaired order: refused under Eager, and refused when the writer raised there *)
Example ex19_marker_last_same_point :
  let done := removelast (removelast (dump_ops PerSig rf_coll)) in
  strict_prefix done (dump_ops PerSig rf_coll) /\
  load_file (crash_disk Eager (DRaw []) done) = SErr ESigFile /\
  exists d, disk_after AtClose (DRaw []) PerSig rf_coll (Raised done) = SOk d /\ unparsable d = false /\
            load_file d = SErr ESigFile /\ load_file_cur d = SErr ESigFile.
Proof.
  split; [exists [OWrite 1 2 3 [7]; marker_op]; split; [discriminate|vm_compute; reflexivity]|].
  split; [vm_compute; reflexivity|]. eexists; repeat split; vm_compute; reflexivity.
Qed.

(** a writer that raises after its last call (or is killed there with everything flushed) leaves the complete file *)
Example ex19_all_calls_done : exists d, disk_after AtClose (DRaw []) PerSig rf_coll (Raised (dump_ops PerSig rf_coll)) = SOk d /\
                                        load_file d = SOk (loaded_of rf_coll) /\
                                        load_file (crash_disk Eager (DRaw []) (dump_ops PerSig rf_coll)) = SOk (loaded_of rf_coll).
Proof. eexists; repeat split; vm_compute; reflexivity. Qed.
