(** Lemmas for the overwrite dimension of C19 (Model/StoreOver.v). *)
From Coq Require Import ZArith List Bool Lia ZifyBool.
From GV Require Import Model.Store Model.StoreOver Proofs.C12 Proofs.C19.
Import ListNotations.
Open Scope Z_scope.

(** the repository's writer (mode w) on a path that held [old]: killed after the calls [done], raised after
    the calls [done] (the truncating open discarded [old]; the close writes what was done), or completed *)
Definition disk_after_over (pol : policy) (old junk : disk) (p : wpath) (c : coll) (o : outcome) : sres disk :=
  match o with
  | Crashed done => SOk (over_disk Truncate pol old junk true done)
  | Raised done => raised_disk done
  | Completed => closed_disk (dump_ops p c)
  end.

Lemma over_truncate_eq : forall pol old junk done, over_disk Truncate pol old junk true done = crash_disk pol junk done.
Proof. reflexivity. Qed.

Lemma disk_after_over_eq : forall pol old junk p c o, disk_after_over pol old junk p c o = disk_after pol junk p c o.
Proof. intros pol old junk p c [done|done|]; reflexivity. Qed.

(** the repository's writer: once it has opened the path, what the path held before is irrelevant --
    every crash point leaves a file that is refused *)
Lemma C19_overwrite_truncate_l : forall old p c junk done, unparsable junk = true -> is_prefix done (dump_ops p c) ->
  load_file (over_disk Truncate AtClose old junk true done) = SErr ESigFile /\
  (load_file_cur (over_disk Truncate AtClose old junk true done) = SErr EOS \/
   load_file_cur (over_disk Truncate AtClose old junk true done) = SErr EKey \/
   load_file_cur (over_disk Truncate AtClose old junk true done) = SErr ESigFile).
Proof. intros old p c junk done Hj Hp; rewrite over_truncate_eq; now apply (C19_atclose_l p c). Qed.

(** ... with the marker last: under every durability policy, at every point before the last call *)
Lemma C19_overwrite_truncate_any_policy_l : forall pol old p c junk done, unparsable junk = true -> strict_prefix done (dump_ops p c) ->
  load_file (over_disk Truncate pol old junk true done) = SErr ESigFile /\
  (load_file_cur (over_disk Truncate pol old junk true done) = SErr EOS \/
   load_file_cur (over_disk Truncate pol old junk true done) = SErr EKey \/
   load_file_cur (over_disk Truncate pol old junk true done) = SErr ESigFile).
Proof. intros pol old p c junk done Hj Hp; rewrite over_truncate_eq; now apply (C19_marker_last_any_policy_l pol p c). Qed.

Lemma C19_overwrite_complete_l : forall pol old p c junk o d l, wf_coll c = true -> unparsable junk = true -> outcome_of p c o ->
  disk_after_over pol old junk p c o = SOk d ->
  (load_file d = SOk l \/ load_file_cur d = SOk l) ->
  all_calls_done p c o /\ l = loaded_of c /\ decode l = SOk c.(c_sigs).
Proof.
  intros pol old p c junk o d l Hwf Hj Ho Hd Hl; rewrite disk_after_over_eq in Hd.
  now apply (C19_complete_any_policy_l pol p c junk o d l Hwf Hj Ho).
Qed.

(** before the writer opens the path nothing changes (the statement of C19 does not speak about this point) *)
Lemma over_not_started : forall m pol old junk done, over_disk m pol old junk false done = old.
Proof. reflexivity. Qed.

(** ---- the in-place variant is NOT safe ------------------------------------------------------------ *)

Definition old_coll : coll :=
  {| c_k := 3; c_prefix := [65; 84]; c_ty := U8; c_sigs := [[1; 5]; [7]]; c_ids := IdInts I64 [100; 101];
     c_meta := {| m_id := Some [111; 108; 100]; m_name := None; m_id_attr := None; m_version := None; m_desc := None;
                  m_extra := None |} |}.
Definition new_coll : coll :=
  {| c_k := 3; c_prefix := [65; 84]; c_ty := U8; c_sigs := [[2; 6]; [9]]; c_ids := IdInts I64 [200; 201];
     c_meta := {| m_id := Some [110; 101; 119]; m_name := None; m_id_attr := None; m_version := None; m_desc := None;
                  m_extra := None |} |}.

Definition old_disk : disk :=
  match closed_disk (dump_ops PerSig old_coll) with SOk d => d | SErr _ => DRaw [] end.

(** the complete file of [old_coll] is at the path; an in-place writer of [new_coll] dies before its last
    per-signature write: the file LOADS, with the new ids, the old metadata and a mixture of new and old
    signatures -- neither the requested nor the old collection (the marker it finds is the OLD file's: the order
    of the new calls does not help an in-place writer) *)
Lemma C19_overwrite_inplace_refuted_l :
  exists done l,
    wf_coll old_coll = true /\ wf_coll new_coll = true /\
    load_file old_disk = SOk (loaded_of old_coll) /\
    strict_prefix done (dump_ops PerSig new_coll) /\
    load_file (over_disk InPlace AtClose old_disk (DRaw []) true done) = SOk l /\
    l.(l_ids) = IdInts I64 [200; 201] /\ l.(l_meta) = old_coll.(c_meta) /\
    decode l = SOk [[2; 6]; [7]] /\
    l <> loaded_of new_coll /\ l <> loaded_of old_coll.
Proof.
  exists (removelast (removelast (dump_ops PerSig new_coll))).
  eexists; split; [vm_compute; reflexivity|]; split; [vm_compute; reflexivity|].
  split; [vm_compute; reflexivity|]. split.
  - exists [OWrite 1 2 3 [9]; marker_op]; split; [discriminate|vm_compute; reflexivity].
  - split; [vm_compute; reflexivity|].
    split; [vm_compute; reflexivity|]. split; [vm_compute; reflexivity|].
    split; [vm_compute; reflexivity|]. split; vm_compute; discriminate.
Qed.

(** non-vacuity: the same crash point under the repository's writer is refused, whatever reaches the disk *)
Example ex19_over_truncate :
  load_file (over_disk Truncate AtClose old_disk (DRaw []) true (removelast (removelast (dump_ops PerSig new_coll)))) = SErr ESigFile /\
  load_file (over_disk Truncate Eager old_disk (DRaw []) true (removelast (removelast (dump_ops PerSig new_coll)))) = SErr ESigFile.
Proof. split; reflexivity. Qed.
