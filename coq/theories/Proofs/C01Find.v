(** The two search loops of find_kmers report exactly the qualifying positions (C01).

    [fwd_loop_spec] needs [1 <= k]: for k = 0 the Python call [find(prefix, start, -0)] is
    [find(prefix, start, 0)] and finds nothing (see [fwd_loop_k0]). *)
From Coq Require Import ZArith List Bool Lia ZifyBool ZifyNat.
From GV Require Import Base.CSem Spec.Kmers Spec.C01 Model.C01 Proofs.C01Defs.
Import ListNotations.
Open Scope Z_scope.

(** * list lemmas *)

Lemma filter_all_false {A} (P : A -> bool) l :
  (forall x, In x l -> P x = false) -> filter P l = [].
Proof.
  induction l as [|a t IH]; intros H; cbn [filter]; [reflexivity|].
  rewrite (H a (or_introl eq_refl)). apply IH. intros x Hx. apply H. right. exact Hx.
Qed.

Lemma filter_seq_none (P : nat -> bool) (start n : nat) :
  (forall j, (start <= j < start + n)%nat -> P j = false) -> filter P (seq start n) = [].
Proof.
  intros H. apply filter_all_false. intros x Hx. apply in_seq in Hx. apply H. exact Hx.
Qed.

Lemma filter_seq_first (P : nat -> bool) (start n r : nat) :
  P r = true -> (start <= r < start + n)%nat ->
  (forall j, (start <= j < r)%nat -> P j = false) ->
  filter P (seq start n) = r :: filter P (seq (S r) (start + n - S r)).
Proof.
  intros Hr Hrange Hlow.
  replace n with ((r - start) + S (start + n - S r))%nat by lia.
  rewrite seq_app, filter_app.
  rewrite filter_seq_none by (intros j Hj; apply Hlow; lia).
  replace (start + (r - start))%nat with r by lia.
  cbn [seq filter app]. rewrite Hr.
  replace (start + (r - start + S (start + n - S r)) - S r)%nat with (start + n - S r)%nat by lia.
  reflexivity.
Qed.

(** * occurrences *)

Lemma starts_with_nil sub : sub <> [] -> starts_with sub [] = false.
Proof. destruct sub as [|x t]; [intros H; contradiction H; reflexivity|reflexivity]. Qed.

Lemma occb_ge h sub j : sub <> [] -> (length h <= j)%nat -> occb h sub j = false.
Proof.
  intros Hs Hj. unfold occb. rewrite skipn_all2 by exact Hj. apply starts_with_nil. exact Hs.
Qed.

Lemma skipn_S_tl {A} (i : nat) (h : list A) a t : skipn i h = a :: t -> skipn (S i) h = t.
Proof.
  revert h. induction i as [|i IH]; intros h H.
  - cbn [skipn] in H. subst h. reflexivity.
  - destruct h as [|x h']; [discriminate H|]. cbn [skipn] in H.
    change (skipn (S (S i)) (x :: h')) with (skipn (S i) h'). apply IH. exact H.
Qed.

(** * find_scan *)

Definition scan_res (h sub : list Z) (i : nat) (last r : Z) : Prop :=
  (r = -1 /\ forall j, (i <= j)%nat -> Z.of_nat j <= last -> occb h sub j = false) \/
  (exists rn, r = Z.of_nat rn /\ (i <= rn)%nat /\ Z.of_nat rn <= last /\ occb h sub rn = true /\
              forall j, (i <= j < rn)%nat -> occb h sub j = false).

Lemma find_scan_spec h sub last : sub <> [] ->
  forall s (i : nat), s = skipn i h -> scan_res h sub i last (find_scan sub s (Z.of_nat i) last).
Proof.
  intros Hsub s. induction s as [|a t IH]; intros i Hs; cbn [find_scan].
  - assert (Hlen : (length h <= i)%nat).
    { pose proof (skipn_length i h) as HL. rewrite <- Hs in HL. cbn [length] in HL. lia. }
    destruct (last <? Z.of_nat i) eqn:E.
    + left. split; [reflexivity|]. intros j Hj Hjl. apply occb_ge; [exact Hsub|lia].
    + rewrite starts_with_nil by exact Hsub.
      left. split; [reflexivity|]. intros j Hj Hjl. apply occb_ge; [exact Hsub|lia].
  - destruct (last <? Z.of_nat i) eqn:E.
    + left. split; [reflexivity|]. intros j Hj Hjl. lia.
    + destruct (starts_with sub (a :: t)) eqn:Est.
      * right. exists i. split; [reflexivity|]. split; [lia|]. split; [lia|].
        split; [unfold occb; rewrite <- Hs; exact Est|]. intros j Hj. lia.
      * replace (Z.of_nat i + 1) with (Z.of_nat (S i)) by lia.
        assert (Hoi : occb h sub i = false) by (unfold occb; rewrite <- Hs; exact Est).
        specialize (IH (S i) (eq_sym (skipn_S_tl i h a t (eq_sym Hs)))).
        destruct IH as [[Hr Hall]|(rn & Hr & Hge & Hle & Hocc & Hlow)].
        -- left. split; [exact Hr|]. intros j Hj Hjl.
           destruct (Nat.eq_dec j i) as [->|Hne]; [exact Hoi|]. apply Hall; lia.
        -- right. exists rn. split; [exact Hr|]. split; [lia|]. split; [exact Hle|].
           split; [exact Hocc|]. intros j Hj.
           destruct (Nat.eq_dec j i) as [->|Hne]; [exact Hoi|]. apply Hlow; lia.
Qed.

(** * py_find with a non-negative start *)

Lemma py_find_spec h sub (start : nat) end_ : sub <> [] ->
  scan_res h sub start (adjust_index (mv_len h) end_ - mv_len sub)
           (py_find h sub (Z.of_nat start) end_).
Proof.
  intros Hsub. unfold py_find.
  set (last := adjust_index (mv_len h) end_ - mv_len sub).
  assert (Hst : adjust_index (mv_len h) (Z.of_nat start) = Z.of_nat (Nat.min start (length h))).
  { unfold adjust_index, mv_len. destruct (Z.of_nat start <? 0) eqn:E; lia. }
  rewrite Hst, Nat2Z.id.
  pose proof (find_scan_spec h sub last Hsub _ (Nat.min start (length h)) eq_refl) as H.
  destruct H as [[Hr Hall]|(rn & Hr & Hge & Hle & Hocc & Hlow)].
  - left. split; [exact Hr|]. intros j Hj Hjl. apply Hall; lia.
  - right. exists rn. split; [exact Hr|].
    assert (Hrn : (rn < length h)%nat).
    { destruct (Nat.lt_ge_cases rn (length h)) as [Hlt|Hge']; [exact Hlt|].
      rewrite (occb_ge h sub rn Hsub Hge') in Hocc. discriminate. }
    split; [lia|]. split; [exact Hle|]. split; [exact Hocc|].
    intros j Hj. apply Hlow; lia.
Qed.

(** * forward loop *)

Definition fwd_out (q : nat) : kmatch := (Z.of_nat q, false).

Lemma fwd_loop_inv h p (k : nat) : p <> [] -> (1 <= k)%nat ->
  forall (fuel start : nat) acc, (1 <= fuel)%nat -> (S (length h) <= fuel + start)%nat ->
    fwd_loop fuel h p (Z.of_nat k) (Z.of_nat start) acc =
      Ok (rev acc ++ map fwd_out (filter (fwd_ok h p k) (seq start (S (length h) - start)))).
Proof.
  intros Hp Hk fuel. induction fuel as [|f IH]; intros start acc Hf Hfuel; [lia|].
  cbn [fwd_loop].
  assert (Hplen : (1 <= length p)%nat) by (destruct p; [contradiction Hp; reflexivity|cbn [length]; lia]).
  pose proof (py_find_spec h p start (- Z.of_nat k) Hp) as H.
  assert (Hen : adjust_index (mv_len h) (- Z.of_nat k) = Z.max 0 (mv_len h - Z.of_nat k)).
  { unfold adjust_index. destruct (- Z.of_nat k <? 0) eqn:E; lia. }
  rewrite Hen in H. unfold mv_len in H.
  destruct H as [[Hr Hall]|(rn & Hr & Hge & Hle & Hocc & Hlow)]; rewrite Hr.
  - change (-1 <? 0) with true. cbn iota.
    rewrite filter_seq_none; [cbn [map]; rewrite app_nil_r; reflexivity|].
    intros j Hj. unfold fwd_ok.
    destruct (Z_le_gt_dec (Z.of_nat j) (Z.max 0 (Z.of_nat (length h) - Z.of_nat k) - Z.of_nat (length p)))
      as [Hle|Hgt].
    + rewrite (Hall j) by lia. reflexivity.
    + apply andb_false_iff. right. lia.
  - assert (E : (Z.of_nat rn <? 0) = false) by lia. rewrite E. cbn iota.
    replace (Z.of_nat rn + 1) with (Z.of_nat (S rn)) by lia.
    assert (Hrn : (rn + length p + k <= length h)%nat) by lia.
    rewrite IH by lia.
    rewrite (filter_seq_first (fwd_ok h p k) start (S (length h) - start) rn).
    + cbn [rev map]. rewrite <- app_assoc. cbn [app]. unfold fwd_out at 2.
      replace (start + (S (length h) - start) - S rn)%nat with (S (length h) - S rn)%nat by lia.
      reflexivity.
    + unfold fwd_ok. rewrite Hocc. cbn [andb]. lia.
    + lia.
    + intros j Hj. unfold fwd_ok. rewrite (Hlow j Hj). reflexivity.
Qed.

Theorem fwd_loop_spec : forall (h p : list Z) (k : nat), p <> [] -> (1 <= k)%nat ->
  fwd_loop (S (length h)) h p (Z.of_nat k) 0 [] =
    Ok (map (fun q => (Z.of_nat q, false)) (filter (fwd_ok h p k) (seq 0 (S (length h))))).
Proof.
  intros h p k Hp Hk.
  change 0 with (Z.of_nat 0). rewrite (fwd_loop_inv h p k Hp Hk (S (length h)) 0%nat []) by lia.
  cbn [rev app]. rewrite Nat.sub_0_r. reflexivity.
Qed.

(** k = 0: [find(prefix, start, -0)] searches the empty range, nothing is reported *)
Theorem fwd_loop_k0 : forall (h p : list Z), p <> [] ->
  fwd_loop (S (length h)) h p 0 0 [] = Ok [].
Proof.
  intros h p Hp. cbn [fwd_loop].
  assert (Hplen : (1 <= length p)%nat) by (destruct p; [contradiction Hp; reflexivity|cbn [length]; lia]).
  pose proof (py_find_spec h p 0%nat (- 0) Hp) as H.
  change (Z.of_nat 0) with 0 in H.
  assert (Hen : adjust_index (mv_len h) (- 0) = 0).
  { unfold adjust_index, mv_len. cbn [Z.opp Z.ltb Z.compare]. lia. }
  rewrite Hen in H. unfold mv_len in H.
  destruct H as [[Hr _]|(rn & Hr & Hge & Hle & _)]; [|lia].
  rewrite Hr. reflexivity.
Qed.

(** * reverse loop *)

Definition rev_out (plen : Z) (loc : nat) : kmatch := (Z.of_nat loc + plen - 1, true).

Lemma rev_loop_inv h prc (k : nat) : prc <> [] ->
  forall (fuel start : nat) acc, (1 <= fuel)%nat -> (S (length h) <= fuel + start)%nat ->
    (k <= start)%nat ->
    rev_loop fuel h prc (mv_len prc) (Z.of_nat start) acc =
      Ok (rev acc ++ map (rev_out (mv_len prc))
                         (filter (rev_ok h prc k) (seq start (S (length h) - start)))).
Proof.
  intros Hp fuel. induction fuel as [|f IH]; intros start acc Hf Hfuel Hks; [lia|].
  cbn [rev_loop].
  assert (Hplen : (1 <= length prc)%nat) by (destruct prc; [contradiction Hp; reflexivity|cbn [length]; lia]).
  pose proof (py_find_spec h prc start (mv_len h) Hp) as H.
  assert (Hen : adjust_index (mv_len h) (mv_len h) = mv_len h).
  { unfold adjust_index, mv_len. destruct (Z.of_nat (length h) <? 0) eqn:E; lia. }
  rewrite Hen in H.
  destruct H as [[Hr Hall]|(rn & Hr & Hge & Hle & Hocc & Hlow)]; rewrite Hr; unfold mv_len in *.
  - change (-1 <? 0) with true. cbn iota.
    rewrite filter_seq_none; [cbn [map]; rewrite app_nil_r; reflexivity|].
    intros j Hj. unfold rev_ok.
    destruct (Z_le_gt_dec (Z.of_nat j) (Z.of_nat (length h) - Z.of_nat (length prc))) as [Hle|Hgt].
    + rewrite (Hall j) by lia. reflexivity.
    + apply andb_false_iff. right. lia.
  - assert (E : (Z.of_nat rn <? 0) = false) by lia. rewrite E. cbn iota.
    replace (Z.of_nat rn + 1) with (Z.of_nat (S rn)) by lia.
    assert (Hrn : (rn + length prc <= length h)%nat) by lia.
    rewrite IH by lia.
    rewrite (filter_seq_first (rev_ok h prc k) start (S (length h) - start) rn).
    + cbn [rev map]. rewrite <- app_assoc. cbn [app]. unfold rev_out at 2.
      replace (start + (S (length h) - start) - S rn)%nat with (S (length h) - S rn)%nat by lia.
      reflexivity.
    + unfold rev_ok. rewrite Hocc. cbn [andb]. lia.
    + lia.
    + intros j Hj. unfold rev_ok. rewrite (Hlow j Hj). reflexivity.
Qed.

Lemma rev_ok_below h prc k j : (j < k)%nat -> rev_ok h prc k j = false.
Proof.
  intros Hj. unfold rev_ok. apply andb_false_iff. left. apply andb_false_iff. right. lia.
Qed.

Lemma rev_ok_filter_from_k h prc k :
  filter (rev_ok h prc k) (seq 0 (S (length h))) =
  filter (rev_ok h prc k) (seq k (S (length h) - k)).
Proof.
  destruct (Nat.le_gt_cases k (S (length h))) as [Hle|Hgt].
  - replace (S (length h)) with (k + (S (length h) - k))%nat at 1 by lia.
    rewrite seq_app, filter_app.
    rewrite filter_seq_none by (intros j Hj; apply rev_ok_below; lia).
    reflexivity.
  - replace (S (length h) - k)%nat with 0%nat by lia.
    rewrite filter_seq_none by (intros j Hj; apply rev_ok_below; lia). reflexivity.
Qed.

Theorem rev_loop_spec : forall (h prc : list Z) (k : nat), prc <> [] ->
  rev_loop (S (length h)) h prc (mv_len prc) (Z.of_nat k) [] =
    Ok (map (fun loc => (Z.of_nat loc + mv_len prc - 1, true))
            (filter (rev_ok h prc k) (seq 0 (S (length h))))).
Proof.
  intros h prc k Hp.
  rewrite (rev_loop_inv h prc k Hp (S (length h)) k []) by lia.
  cbn [rev app]. rewrite rev_ok_filter_from_k. reflexivity.
Qed.

(** counterexample to [fwd_loop_spec] without [1 <= k] *)
Example fwd_loop_k0_counterexample :
  fwd_loop 2 [1] [1] 0 0 [] = Ok [] /\
  map (fun q => (Z.of_nat q, false)) (filter (fwd_ok [1] [1] 0) (seq 0 2)) = [(0, false)].
Proof. split; reflexivity. Qed.
