(** C06, part 1: the specification set [signature_spec] (Spec/C01.v) depends only on the
    biological content of the contig list: orientation of each contig, order of the contigs and
    letter case do not matter, and it is the union of the per-contig sets (no k-mer spans a
    contig boundary).  Through C01_signature_l the same holds for the model of calc_signature. *)
From Coq Require Import ZArith List Bool Lia ZifyBool ZifyNat Permutation.
From GV Require Import Base.CSem Spec.Kmers Spec.C01 Model.C01
  Proofs.KmersSpec Proofs.C01Defs Proofs.C01Strand Proofs.C01Acc Proofs.C01.
Import ListNotations.
Open Scope Z_scope.

(** * orientation *)
Lemma seq_kmers_revcomp_In k p s v :
  In v (seq_kmers k p (spec_revcomp s)) <-> In v (seq_kmers k p s).
Proof.
  unfold seq_kmers. rewrite spec_revcomp_invol, !in_app_iff. tauto.
Qed.

Theorem C06_revcomp_contig_l k p s r :
  signature_spec k p (spec_revcomp s :: r) = signature_spec k p (s :: r).
Proof.
  unfold signature_spec. apply sort_dedup_ext. intros v.
  unfold all_kmers. cbn [flat_map]. rewrite !in_app_iff, seq_kmers_revcomp_In. tauto.
Qed.

(** * order *)
Theorem C06_permutation_l k p seqs seqs' :
  Permutation seqs seqs' -> signature_spec k p seqs' = signature_spec k p seqs.
Proof.
  intros HP. unfold signature_spec. apply sort_dedup_ext. intros v.
  unfold all_kmers. rewrite !in_flat_map. split; intros [s [Hs Hv]]; exists s; split; try assumption.
  - eapply Permutation_in; [apply Permutation_sym; exact HP|exact Hs].
  - eapply Permutation_in; [exact HP|exact Hs].
Qed.

(** * letter case: everything is a function of the upper-cased sequence *)
Lemma upper_idem b : upper (upper b) = upper b.
Proof.
  unfold upper. destruct ((97 <=? b) && (b <=? 122)) eqn:E; [|now rewrite E].
  destruct ((97 <=? b - 32) && (b - 32 <=? 122)) eqn:E2; lia.
Qed.

Lemma map_upper_idem s : map upper (map upper s) = map upper s.
Proof. rewrite map_map. apply map_ext. apply upper_idem. Qed.

Lemma occurs_at_upper k p s q : occurs_at k p (map upper s) q = occurs_at k p s q.
Proof.
  unfold occurs_at. rewrite map_length, slice_map, map_upper_idem. reflexivity.
Qed.

Lemma fwd_kmers_upper k p s : fwd_kmers k p (map upper s) = fwd_kmers k p s.
Proof.
  unfold fwd_kmers. rewrite map_length. apply flat_map_ext. intros q.
  rewrite occurs_at_upper, slice_map, spec_encode_upper. reflexivity.
Qed.

Lemma seq_kmers_upper k p s : seq_kmers k p (map upper s) = seq_kmers k p s.
Proof.
  unfold seq_kmers. rewrite <- map_upper_revcomp, !fwd_kmers_upper. reflexivity.
Qed.

Lemma all_kmers_upper k p seqs : all_kmers k p (map (map upper) seqs) = all_kmers k p seqs.
Proof.
  unfold all_kmers. induction seqs as [|s t IH]; [reflexivity|].
  cbn [map flat_map]. now rewrite seq_kmers_upper, IH.
Qed.

Theorem C06_case_l k p seqs seqs' :
  map (map upper) seqs' = map (map upper) seqs ->
  signature_spec k p seqs' = signature_spec k p seqs.
Proof.
  intros H. unfold signature_spec.
  rewrite <- (all_kmers_upper k p seqs'), <- (all_kmers_upper k p seqs), H. reflexivity.
Qed.

(** * union over the contigs *)
Theorem C06_union_l k p seqs v :
  In v (signature_spec k p seqs) <-> exists s, In s seqs /\ In v (signature_spec k p [s]).
Proof.
  unfold signature_spec. rewrite sort_dedup_In. unfold all_kmers. rewrite in_flat_map.
  split; intros [s [Hs Hv]]; exists s; (split; [exact Hs|]).
  - rewrite sort_dedup_In. cbn [flat_map]. rewrite app_nil_r. exact Hv.
  - rewrite sort_dedup_In in Hv. cbn [flat_map] in Hv. rewrite app_nil_r in Hv. exact Hv.
Qed.

(** the same in array form: the signature of a concatenated contig list is the merge of the
    signatures of the two parts *)
Theorem C06_union_app_l k p a b :
  signature_spec k p (a ++ b) = sort_dedup (signature_spec k p a ++ signature_spec k p b).
Proof.
  unfold signature_spec, all_kmers. rewrite flat_map_app.
  rewrite sort_dedup_app_dedup_l, sort_dedup_app_dedup_r. reflexivity.
Qed.

(** a k-mer of the set lies entirely inside one contig (or its reverse complement): spelled out *)
Theorem C06_no_spanning_l k p seqs v :
  In v (signature_spec k p seqs) <->
  exists s t q, In s seqs /\ (t = s \/ t = spec_revcomp s) /\
    (q + length p + k <= length t)%nat /\
    map upper (slice t q (length p)) = p /\
    spec_encode (slice t (q + length p) k) = Some v.
Proof. unfold signature_spec. rewrite sort_dedup_In. apply C01_membership_l. Qed.

(** * all of it at once: per-contig orientation x case pattern, then any reordering *)

(** [s'] is [s] or its reverse complement, up to letter case *)
Definition equiv_contig (s s' : list Z) : Prop :=
  map upper s' = map upper s \/ map upper s' = map upper (spec_revcomp s).

(** [seqs'] is obtained from [seqs] by re-orienting / re-casing each contig and then permuting *)
Definition same_content (seqs seqs' : list (list Z)) : Prop :=
  exists mid, Forall2 equiv_contig seqs mid /\ Permutation mid seqs'.

Lemma equiv_contig_sig k p s s' r r' :
  equiv_contig s s' -> signature_spec k p r' = signature_spec k p r ->
  signature_spec k p (s' :: r') = signature_spec k p (s :: r).
Proof.
  intros He Hr.
  assert (Hcons : forall x y, signature_spec k p (x :: y) = sort_dedup (signature_spec k p [x] ++ signature_spec k p y))
    by (intros x y; apply (C06_union_app_l k p [x] y)).
  rewrite (Hcons s' r'), (Hcons s r), Hr. f_equal. f_equal.
  destruct He as [He|He].
  - apply C06_case_l. cbn [map]. now rewrite He.
  - rewrite <- (C06_revcomp_contig_l k p s []). apply C06_case_l. cbn [map]. now rewrite He.
Qed.

Lemma Forall2_equiv_sig k p seqs mid :
  Forall2 equiv_contig seqs mid -> signature_spec k p mid = signature_spec k p seqs.
Proof.
  induction 1 as [|s s' r r' He _ IH]; [reflexivity|]. now apply equiv_contig_sig.
Qed.

Theorem C06_same_content_l k p seqs seqs' :
  same_content seqs seqs' -> signature_spec k p seqs' = signature_spec k p seqs.
Proof.
  intros [mid [H2 HP]]. rewrite (C06_permutation_l k p mid seqs' HP). now apply Forall2_equiv_sig.
Qed.

(** [same_content] is what the harness generates: a choice of orientation and case per contig, then
    a permutation *)
Lemma same_content_refl seqs : same_content seqs seqs.
Proof.
  exists seqs. split; [|apply Permutation_refl].
  induction seqs as [|s t IH]; constructor; [now left|exact IH].
Qed.

(** * the model of calc_signature inherits all of it *)
Theorem C06_calc_signature_l dense dense' k p seqs seqs' :
  (1 <= k)%nat -> p <> [] -> acgt p -> Forall bytes seqs -> Forall bytes seqs' ->
  same_content seqs seqs' ->
  calc_signature dense' (Z.of_nat k) p seqs' = calc_signature dense (Z.of_nat k) p seqs /\
  calc_signature dense (Z.of_nat k) p seqs = Ok (signature_spec k p seqs, dtype_spec k).
Proof.
  intros Hk Hne Hp Hs Hs' Hc.
  rewrite !C01_signature_l by assumption.
  rewrite (C06_same_content_l k p seqs seqs' Hc). split; reflexivity.
Qed.

(** * non-vacuity *)

(** ATGC | nATcc : AT+GC forward in contig 1, AT+cc in contig 2; reversing contig 2, lower-casing
    contig 1 and swapping them changes nothing *)
Example C06_sets_ex :
  let a := [65; 84; 71; 67] in let b := [110; 65; 116; 99; 99] in
  same_content [a; b] [spec_revcomp b; map lower a] /\
  signature_spec 2 [65; 84] [a; b] = [5; 9] /\
  signature_spec 2 [65; 84] [spec_revcomp b; map lower a] = [5; 9].
Proof.
  cbv zeta. split; [|split; vm_compute; reflexivity].
  exists [map lower [65; 84; 71; 67]; spec_revcomp [110; 65; 116; 99; 99]]. split.
  - constructor; [left; vm_compute; reflexivity|].
    constructor; [right; vm_compute; reflexivity|constructor].
  - apply perm_swap.
Qed.

(** joining two contigs creates a k-mer that neither contig has: AT|GC *)
Example C06_boundary_ex :
  signature_spec 2 [65; 84] [[67; 65; 84]; [71; 67; 67]] = [] /\
  signature_spec 2 [65; 84] [[67; 65; 84] ++ [71; 67; 67]] = [9].
Proof. vm_compute. split; reflexivity. Qed.
