(** C18 -- proofs: the session machine never writes, the read-mode store rejects writes,
    every read-side history leaves the directory as it was; refutations for the contrast classes. *)
From Coq Require Import ZArith List Bool Lia.
From GV Require Import Model.C18 Spec.C18.
Import ListNotations.
Open Scope Z_scope.

(* ------------------------------------------------------------------------------------------ *)
(** * session machine *)

Lemma flush_noop_id : forall cls s, flush_noop cls = true -> sess_flush cls s = s.
Proof. intros cls s H. unfold sess_flush. now rewrite H. Qed.

Lemma autoflush_noop_id : forall cls af s, flush_noop cls = true -> autoflush_step cls af s = s.
Proof. intros cls af s H. unfold autoflush_step. destruct af; auto using flush_noop_id. Qed.

Lemma view_no_txn : forall s, s_txn s = [] -> view s = s_file s.
Proof. intros s H. unfold view. now rewrite H. Qed.

(** the invariant of a session whose flush is a no-op *)
Definition sinv (f : table) (l : list change) (s : sess) : Prop :=
  s_file s = f /\ s_txn s = [] /\ s_log s = l.

Lemma tx_commit_noop : forall cls f l s s' r,
  flush_noop cls = true -> sinv f l s -> tx_commit cls s = (s', r) -> sinv f l s'.
Proof.
  intros cls f l s s' r Hn [Hf [Ht Hl]] H. unfold tx_commit in H.
  rewrite flush_noop_id in H by exact Hn.
  assert (Hs : (if clean s then s else s) = s) by (destruct (clean s); reflexivity).
  rewrite Hs in H. destruct (clean s).
  - inversion H; subst. unfold sinv, conn_commit; cbn. rewrite view_no_txn by exact Ht. auto.
  - inversion H; subst. unfold sinv; auto.
Qed.

Lemma step_noop_flush : forall cls af f l s o s' r,
  flush_noop cls = true -> is_exec o = false -> sinv f l s -> step cls af s o = (s', r) ->
  sinv f l s' /\ query_reads_file f o r.
Proof.
  intros cls af f l s o s' r Hn He Hinv H.
  assert (Hq : forall r0, o <> Query -> query_reads_file f o r0) by (intros r0 Hne Heq; contradiction).
  destruct Hinv as [Hf [Ht Hl]].
  destruct o; cbn [step] in H; try rewrite (autoflush_noop_id cls af s Hn) in H.
  - inversion H; subst. split; [unfold sinv; cbn; auto | apply Hq; discriminate].
  - destruct (has_key k (view s)); inversion H; subst; (split; [unfold sinv; cbn; auto | apply Hq; discriminate]).
  - destruct (has_key k (view s)); inversion H; subst; (split; [unfold sinv; cbn; auto | apply Hq; discriminate]).
  - inversion H; subst. split; [unfold sinv; auto|]. intros _. now rewrite view_no_txn.
  - rewrite flush_noop_id in H by exact Hn. inversion H; subst. split; [unfold sinv; auto | apply Hq; discriminate].
  - destruct (commit_raises cls).
    + inversion H; subst. split; [unfold sinv; auto | apply Hq; discriminate].
    + split; [eapply tx_commit_noop; eauto; unfold sinv; auto | apply Hq; discriminate].
  - inversion H; subst. split; [unfold sinv, discard; cbn; auto | apply Hq; discriminate].
  - inversion H; subst. split; [unfold sinv, discard; cbn; auto | apply Hq; discriminate].
  - split; [eapply tx_commit_noop; eauto; unfold sinv; auto | apply Hq; discriminate].
  - discriminate He.
Qed.

Lemma run_noop_flush : forall cls af ops f l s s' rs,
  flush_noop cls = true -> orm_only ops = true -> sinv f l s ->
  run_session cls af s ops = (s', rs) ->
  sinv f l s' /\ Forall2 (query_reads_file f) ops rs.
Proof.
  intros cls af ops. induction ops as [|o ops IH]; intros f l s s' rs Hn Ho Hinv H; cbn in H.
  - inversion H; subst. split; [exact Hinv | constructor].
  - cbn in Ho. apply andb_prop in Ho. destruct Ho as [Ho1 Ho2].
    destruct (step cls af s o) as [s1 a] eqn:E1.
    destruct (run_session cls af s1 ops) as [s2 rs2] eqn:E2.
    inversion H; subst.
    destruct (step_noop_flush cls af f l s o s1 a Hn) as [Hi1 Hq1]; auto.
    { now apply negb_true_iff in Ho1. }
    destruct (IH f l s1 s' rs2 Hn Ho2 Hi1 E2) as [Hi2 Hq2].
    split; [exact Hi2 | constructor; assumption].
Qed.

(** it is the no-op flush that keeps every statement away from the data base *)
Lemma noop_flush_protects_l : forall cls af ops s s' rs,
  flush_noop cls = true -> orm_only ops = true -> s_txn s = [] ->
  run_session cls af s ops = (s', rs) ->
  s_file s' = s_file s /\ s_txn s' = [] /\ s_log s' = s_log s /\
  journal_present s' = false /\
  Forall2 (query_reads_file (s_file s)) ops rs.
Proof.
  intros cls af ops s s' rs Hn Ho Ht H.
  destruct (run_noop_flush cls af ops (s_file s) (s_log s) s s' rs Hn Ho) as [[Hf [Ht' Hl]] Hq]; auto.
  { unfold sinv; auto. }
  repeat split; auto. unfold journal_present. now rewrite Ht'.
Qed.

(** it is the raising commit that refuses: for ANY operations, any flush, any state *)
Lemma commit_always_raises_l : forall cls af ops s s' rs,
  commit_raises cls = true -> run_session cls af s ops = (s', rs) -> Forall2 commit_refused ops rs.
Proof.
  intros cls af ops. induction ops as [|o ops IH]; intros s s' rs Hc H; cbn in H.
  - inversion H; subst. constructor.
  - destruct (step cls af s o) as [s1 a] eqn:E1.
    destruct (run_session cls af s1 ops) as [s2 rs2] eqn:E2.
    inversion H; subst. constructor.
    + intros Heq. subst o. cbn in E1. rewrite Hc in E1. now inversion E1.
    + eapply IH; eauto.
Qed.

Lemma commit_keeps_state_l : forall cls af s,
  commit_raises cls = true -> step cls af s Commit = (s, RTypeError).
Proof. intros cls af s Hc. cbn. now rewrite Hc. Qed.

Lemma flush_keeps_state_l : forall cls af s,
  flush_noop cls = true -> step cls af s Flush = (s, ROk).
Proof. intros cls af s Hn. cbn. now rewrite flush_noop_id. Qed.

Lemma flush_commit_keep_state_l : forall af s,
  step ReadOnlySession af s Flush = (s, ROk) /\ step ReadOnlySession af s Commit = (s, RTypeError).
Proof. intros af s. split; [apply flush_keeps_state_l | apply commit_keeps_state_l]; reflexivity. Qed.

Lemma run_length : forall cls af ops s s' rs,
  run_session cls af s ops = (s', rs) -> length rs = length ops.
Proof.
  intros cls af ops. induction ops as [|o ops IH]; intros s s' rs H; cbn in H.
  - now inversion H.
  - destruct (step cls af s o) as [s1 a]. destruct (run_session cls af s1 ops) as [s2 rs2] eqn:E.
    inversion H; subst. cbn. f_equal. eauto.
Qed.

(** the property's statement for the class the library uses *)
Lemma session_invariant_l : forall af ops s s' rs,
  orm_only ops = true -> s_txn s = [] ->
  run_session ReadOnlySession af s ops = (s', rs) ->
  s_file s' = s_file s /\ s_txn s' = [] /\ s_log s' = s_log s /\ journal_present s' = false /\
  length rs = length ops /\
  Forall2 commit_refused ops rs /\
  Forall2 (query_reads_file (s_file s)) ops rs.
Proof.
  intros af ops s s' rs Ho Ht H.
  destruct (noop_flush_protects_l ReadOnlySession af ops s s' rs) as [A [B [C [D E]]]]; auto.
  repeat split; auto.
  - eapply run_length; eauto.
  - eapply commit_always_raises_l; eauto. reflexivity.
Qed.

(** with a raising commit the FILE survives even a real flush and raw DML, as long as the
    transaction object itself is not committed *)
Lemma flush_file : forall cls s, s_file (sess_flush cls s) = s_file s.
Proof. intros cls s. unfold sess_flush. destruct (flush_noop cls); reflexivity. Qed.
Lemma autoflush_file : forall cls af s, s_file (autoflush_step cls af s) = s_file s.
Proof. intros cls af s. unfold autoflush_step. destruct af; auto using flush_file. Qed.

Lemma step_file_no_txcommit : forall cls af s o s' r,
  commit_raises cls = true -> is_txcommit o = false -> step cls af s o = (s', r) -> s_file s' = s_file s.
Proof.
  intros cls af s o s' r Hc Ho H. destruct o; cbn [step] in H.
  - inversion H; subst; reflexivity.
  - destruct (has_key k (view (autoflush_step cls af s))); inversion H; subst; cbn; apply autoflush_file.
  - destruct (has_key k (view (autoflush_step cls af s))); inversion H; subst; cbn; apply autoflush_file.
  - inversion H; subst. apply autoflush_file.
  - inversion H; subst. apply flush_file.
  - rewrite Hc in H. inversion H; subst; reflexivity.
  - inversion H; subst; reflexivity.
  - inversion H; subst; reflexivity.
  - discriminate Ho.
  - inversion H; subst; cbn. apply autoflush_file.
Qed.

Lemma file_safe_without_txcommit_l : forall cls af ops s s' rs,
  commit_raises cls = true -> no_txcommit ops = true ->
  run_session cls af s ops = (s', rs) -> s_file s' = s_file s.
Proof.
  intros cls af ops. induction ops as [|o ops IH]; intros s s' rs Hc Hn H; cbn in H.
  - now inversion H.
  - cbn in Hn. apply andb_prop in Hn. destruct Hn as [Hn1 Hn2].
    destruct (step cls af s o) as [s1 a] eqn:E1.
    destruct (run_session cls af s1 ops) as [s2 rs2] eqn:E2.
    inversion H; subst.
    rewrite (IH s1 s' rs2 Hc Hn2 E2).
    eapply step_file_no_txcommit; eauto. now apply negb_true_iff in Hn1.
Qed.

Lemma default_classes_l :
  library_default_class = ReadOnlySession /\ cli_class = ReadOnlySession /\
  file_sessionmaker true None = ReadOnlySession /\ file_sessionmaker false None = PlainSession.
Proof. repeat split. Qed.

(* ------------------------------------------------------------------------------------------ *)
(** * signature store *)

Lemma read_open_mode : forall kw, read_open (SOpen kw) = true -> load_signatures_mode kw = MR.
Proof. intros [m|] H; [destruct m; try discriminate H|]; reflexivity. Qed.

Lemma sstep_read_mode : forall st o st' r,
  read_open o = true -> handle_read_only st = true -> sstep st o = (st', r) ->
  st_file st' = st_file st /\ handle_read_only st' = true /\ write_rejected o r /\
  (forall kw, o = SOpen kw -> r = SOk -> load_signatures_mode kw = MR).
Proof.
  intros st o st' r Ho Hh H.
  assert (Hw : forall r0, is_store_write o = false -> write_rejected o r0)
    by (intros r0 Hf Ht; rewrite Hf in Ht; discriminate).
  unfold handle_read_only in Hh.
  destruct o; cbn [sstep] in H.
  - destruct (st_handle st) as [h|] eqn:Eh.
    + inversion H; subst. repeat split; auto. { unfold handle_read_only. now rewrite Eh. }
      intros kw Hk Hr. discriminate Hr.
    + rewrite (read_open_mode m Ho) in H. inversion H; subst. repeat split; auto.
      intros kw Hk _. inversion Hk; subst. now apply read_open_mode.
  - destruct (st_handle st) as [h|] eqn:Eh; inversion H; subst; repeat split; auto;
      try (unfold handle_read_only; now rewrite Eh); intros kw Hk; discriminate Hk.
  - destruct (st_handle st) as [h|] eqn:Eh.
    + destruct (writable h) eqn:Ew; [discriminate Hh|].
      inversion H; subst. repeat split; auto.
      * unfold handle_read_only. rewrite Eh. now rewrite Ew.
      * intros _. now left.
      * intros kw Hk; discriminate Hk.
    + inversion H; subst. repeat split; auto.
      * unfold handle_read_only. now rewrite Eh.
      * intros _. now right.
      * intros kw Hk; discriminate Hk.
  - destruct (st_handle st) as [h|] eqn:Eh.
    + destruct (writable h) eqn:Ew; [discriminate Hh|].
      inversion H; subst. repeat split; auto.
      * unfold handle_read_only. rewrite Eh. now rewrite Ew.
      * intros _. now left.
      * intros kw Hk; discriminate Hk.
    + inversion H; subst. repeat split; auto.
      * unfold handle_read_only. now rewrite Eh.
      * intros _. now right.
      * intros kw Hk; discriminate Hk.
  - destruct (st_handle st) as [h|] eqn:Eh; inversion H; subst; repeat split; auto;
      try (unfold handle_read_only; now rewrite Eh); intros kw Hk; discriminate Hk.
  - destruct (st_handle st) as [h|] eqn:Eh.
    + destruct (writable h) eqn:Ew; [discriminate Hh|].
      inversion H; subst. repeat split; auto. intros kw Hk; discriminate Hk.
    + inversion H; subst. repeat split; auto.
      * unfold handle_read_only. now rewrite Eh.
      * intros kw Hk; discriminate Hk.
Qed.

Lemma store_read_mode_l : forall ops st st' rs,
  read_opens ops = true -> handle_read_only st = true -> run_store st ops = (st', rs) ->
  st_file st' = st_file st /\ handle_read_only st' = true /\ Forall2 write_rejected ops rs.
Proof.
  induction ops as [|o ops IH]; intros st st' rs Ho Hh H; cbn in H.
  - inversion H; subst. repeat split; auto.
  - cbn in Ho. apply andb_prop in Ho. destruct Ho as [Ho1 Ho2].
    destruct (sstep st o) as [st1 a] eqn:E1.
    destruct (run_store st1 ops) as [st2 rs2] eqn:E2.
    inversion H; subst.
    destruct (sstep_read_mode st o st1 a Ho1 Hh E1) as [A [B [C _]]].
    destruct (IH st1 st' rs2 Ho2 B E2) as [A2 [B2 C2]].
    repeat split; [congruence | exact B2 | constructor; assumption].
Qed.

(* ------------------------------------------------------------------------------------------ *)
(** * world *)

Lemma ro_like : forall c, flush_noop c && commit_raises c = true -> c = ReadOnlySession.
Proof. intros [f c] H. cbn in H. apply andb_prop in H. destruct H; subst. reflexivity. Qed.

Lemma extends_refl : forall X (x : X) l, extends_with x l l.
Proof. intros X x l. exists []. split; [now rewrite app_nil_r | constructor]. Qed.
Lemma extends_one : forall X (x : X) l, extends_with x l (l ++ [x]).
Proof. intros X x l. exists [x]. split; [reflexivity | repeat constructor]. Qed.
Lemma extends_trans : forall X (x : X) a b c, extends_with x a b -> extends_with x b c -> extends_with x a c.
Proof.
  intros X x a b c [p [Hp Fp]] [q [Hq Fq]]. exists (p ++ q). split.
  - subst. now rewrite app_assoc.
  - apply Forall_app. auto.
Qed.

Lemma untouched_refl : forall w, directory_untouched w w.
Proof. intros w. repeat split; auto using extends_refl. Qed.
Lemma untouched_trans : forall a b c, directory_untouched a b -> directory_untouched b c -> directory_untouched a c.
Proof.
  intros a b c [A1 [A2 [A3 A4]]] [B1 [B2 [B3 B4]]]. repeat split; try congruence; eauto using extends_trans.
Qed.

Lemma quiet_parts : forall w, quiet w = true ->
  s_txn (w_db w) = [] /\ handle_read_only (w_store w) = true /\
  match w_cur w with None => True | Some (c, _) => c = ReadOnlySession end.
Proof.
  intros w H. unfold quiet in H. apply andb_prop in H. destruct H as [H H3]. apply andb_prop in H. destruct H as [H1 H2].
  repeat split; auto.
  - destruct (s_txn (w_db w)); [reflexivity | discriminate].
  - destruct (w_cur w) as [[c af]|]; [now apply ro_like | exact I].
Qed.

Lemma quiet_build : forall w,
  s_txn (w_db w) = [] -> handle_read_only (w_store w) = true ->
  match w_cur w with None => True | Some (c, _) => c = ReadOnlySession end -> quiet w = true.
Proof.
  intros w H1 H2 H3. unfold quiet. rewrite H1, H2. cbn.
  destruct (w_cur w) as [[c af]|]; [subst; reflexivity | reflexivity].
Qed.

Lemma open_session_ok : forall w c af w' r,
  c = ReadOnlySession -> quiet w = true -> open_session w c af = (w', r) ->
  directory_untouched w w' /\ quiet w' = true.
Proof.
  intros w c af w' r Hc Hq H. unfold open_session in H.
  destruct (quiet_parts w Hq) as [Q1 [Q2 Q3]].
  destruct (w_cur w) as [[c0 af0]|] eqn:Ec.
  - inversion H; subst. split; [apply untouched_refl | exact Hq].
  - inversion H; subst. split.
    + repeat split; cbn; auto using extends_refl, extends_one.
    + apply quiet_build; cbn; auto.
Qed.

Lemma wstep_read_side : forall w o w' r,
  read_side_op o = true -> quiet w = true -> wstep w o = (w', r) ->
  directory_untouched w w' /\ quiet w' = true.
Proof.
  intros w o w' r Ho Hq H.
  destruct (quiet_parts w Hq) as [Q1 [Q2 Q3]].
  destruct o; cbn [wstep] in H.
  - inversion H; subst. split; [apply untouched_refl | exact Hq].
  - eapply open_session_ok; [| exact Hq | exact H].
    destruct cls as [c|]; cbn in Ho |- *; [now apply ro_like | reflexivity].
  - eapply open_session_ok; [| exact Hq | exact H]. reflexivity.
  - destruct (w_cur w) as [[c af]|] eqn:Ec.
    + destruct (step c af (w_db w) o) as [s1 a] eqn:Es. inversion H; subst.
      cbn in Ho. apply negb_true_iff in Ho.
      destruct (step_noop_flush ReadOnlySession af (s_file (w_db w)) (s_log (w_db w)) (w_db w) o s1 a) as [[A [B C]] _]; auto.
      { unfold sinv; auto. }
      split.
      * repeat split; cbn; auto using extends_refl.
        unfold dir_state; cbn. unfold journal_present. rewrite A, B, Q1. reflexivity.
      * apply quiet_build; cbn; auto. rewrite Ec. reflexivity.
    + inversion H; subst. split; [apply untouched_refl | exact Hq].
  - destruct (sstep (w_store w) o) as [st1 a] eqn:Es. inversion H; subst.
    cbn in Ho.
    destruct (sstep_read_mode (w_store w) o st1 a Ho Q2 Es) as [A [B [_ D]]].
    split.
    + repeat split; cbn; auto using extends_refl.
      * unfold dir_state; cbn. now rewrite A.
      * destruct o; auto using extends_refl. destruct a; auto using extends_refl.
        rewrite (D m eq_refl eq_refl). apply extends_one.
    + apply quiet_build; cbn; auto.
  - inversion H; subst. split.
    + repeat split; cbn; auto using extends_refl.
    + apply quiet_build; cbn; auto.
  - destruct (sstep (w_store w) SClose) as [st1 a] eqn:Es.
    destruct (sstep_read_mode (w_store w) SClose st1 a eq_refl Q2 Es) as [A [B _]].
    inversion H; subst.
    split.
    + repeat split; cbn; auto using extends_refl.
      unfold dir_state; cbn. rewrite A. unfold journal_present; cbn. now rewrite Q1.
    + apply quiet_build; cbn; auto.
Qed.

Lemma world_read_side_l : forall ops w w' rs,
  read_side ops = true -> quiet w = true -> run_world w ops = (w', rs) ->
  directory_untouched w w' /\ quiet w' = true.
Proof.
  induction ops as [|o ops IH]; intros w w' rs Ho Hq H; cbn in H.
  - inversion H; subst. split; [apply untouched_refl | exact Hq].
  - cbn in Ho. apply andb_prop in Ho. destruct Ho as [Ho1 Ho2].
    destruct (wstep w o) as [w1 a] eqn:E1.
    destruct (run_world w1 ops) as [w2 rs2] eqn:E2.
    inversion H; subst.
    destruct (wstep_read_side w o w1 a Ho1 Hq E1) as [A B].
    destruct (IH w1 w' rs2 Ho2 B E2) as [A2 B2].
    split; [eapply untouched_trans; eauto | exact B2].
Qed.

(** ** commands compile to read-side operations *)

Lemma read_side_app : forall a b, read_side (a ++ b) = read_side a && read_side b.
Proof. intros a b. unfold read_side. apply forallb_app. Qed.

Lemma read_side_firstn : forall n l, read_side l = true -> read_side (firstn n l) = true.
Proof.
  induction n as [|n IH]; intros l H; [reflexivity|].
  destruct l as [|x l]; [reflexivity|]. cbn in H |- *. apply andb_prop in H. destruct H as [H1 H2].
  rewrite H1. cbn. now apply IH.
Qed.

Lemma read_side_per_query : forall n, read_side (per_query n) = true.
Proof. induction n as [|n IH]; [reflexivity|]. cbn [per_query]. rewrite !read_side_app, IH. reflexivity. Qed.
Lemma read_side_per_sig : forall n, read_side (per_sig n) = true.
Proof. induction n as [|n IH]; [reflexivity|]. cbn [per_sig]. rewrite !read_side_app, IH. reflexivity. Qed.

Lemma read_side_map_sess : forall ops, orm_only ops = true -> read_side (map WSess ops) = true.
Proof.
  induction ops as [|o ops IH]; intros H; [reflexivity|]. cbn in H |- *.
  apply andb_prop in H. destruct H as [H1 H2]. rewrite H1. cbn. now apply IH.
Qed.
Lemma read_side_map_store : forall ops, read_opens ops = true -> read_side (map WStore ops) = true.
Proof.
  induction ops as [|o ops IH]; intros H; [reflexivity|]. cbn in H |- *.
  apply andb_prop in H. destruct H as [H1 H2]. rewrite H1. cbn. now apply IH.
Qed.

Lemma read_side_compile : forall c, cmd_ok c = true -> read_side (compile c) = true.
Proof.
  intros c H. destruct c; cbn [compile].
  - rewrite !read_side_app, read_side_per_query. reflexivity.
  - rewrite !read_side_app, read_side_per_sig. reflexivity.
  - reflexivity.
  - reflexivity.
  - reflexivity.
  - rewrite !read_side_app, read_side_per_sig. reflexivity.
  - cbn in H. change (WOpenSession None af :: map WSess ops ++ [WExit]) with ([WOpenSession None af] ++ map WSess ops ++ [WExit]).
    rewrite !read_side_app, read_side_map_sess by exact H. reflexivity.
  - cbn in H. rewrite read_side_app. rewrite read_side_map_store; [reflexivity|]. cbn. exact H.
Qed.

Lemma read_side_history : forall h, history_ok h = true -> read_side (history_ops h) = true.
Proof.
  induction h as [|[c n] h IH]; intros H; [reflexivity|].
  cbn in H. apply andb_prop in H. destruct H as [H1 H2].
  cbn [history_ops flat_map]. rewrite read_side_app. fold (history_ops h). rewrite IH by exact H2.
  unfold invocation_ops; cbn [fst snd]. rewrite read_side_app.
  rewrite read_side_firstn by (now apply read_side_compile). reflexivity.
Qed.

Lemma commands_l : forall h w w' rs,
  history_ok h = true -> quiet w = true -> run_world w (history_ops h) = (w', rs) ->
  directory_untouched w w' /\ quiet w' = true.
Proof. intros h w w' rs Hh. apply world_read_side_l. now apply read_side_history. Qed.

(** ... and at every intermediate point of the history, not only at its end *)
Lemma commands_every_step_l : forall h w n,
  history_ok h = true -> quiet w = true ->
  directory_untouched w (fst (run_world w (firstn n (history_ops h)))).
Proof.
  intros h w n Hh Hq.
  destruct (run_world w (firstn n (history_ops h))) as [w' rs] eqn:E. cbn.
  eapply world_read_side_l; eauto. apply read_side_firstn. now apply read_side_history.
Qed.

(* ------------------------------------------------------------------------------------------ *)
(** * non-vacuity and refutations *)

Definition file0 : table := [(1, 10); (2, 20); (3, 30)].
Definition s0 : sess := fresh_session file0.
Definition edits : list op :=
  [Add 7 70; Query; Modify 1 11; Delete 2; Flush; Commit; Query; TxCommit; Rollback; Add 8 80; Commit; Close; TxCommit].

(** the hypotheses are satisfiable by a history with pending changes of all three kinds; the
    session really holds them (they are not silently dropped) and still nothing is emitted *)
Example session_example :
  orm_only edits = true /\ s_txn s0 = [] /\
  snd (run_session ReadOnlySession true s0 edits)
    = [ROk; RView file0; ROk; ROk; ROk; RTypeError; RView file0; RFlushError; ROk; ROk; RTypeError; ROk; ROk] /\
  (let s := fst (run_session ReadOnlySession true s0 (firstn 5 edits)) in
   s_new s = [(7, 70)] /\ s_dirty s = [(1, 11)] /\ s_del s = [2]).
Proof. vm_compute. repeat split; reflexivity. Qed.

(** plain Session: one add + commit rewrites the file *)
Lemma plain_session_refuted_l :
  exists ops, orm_only ops = true /\
    let '(s', rs) := run_session PlainSession true s0 ops in
    s_file s' <> s_file s0 /\ s_log s' <> s_log s0 /\ rs = [ROk; ROk].
Proof. exists [Add 7 70; Commit]. vm_compute. repeat split; discriminate. Qed.

(** keeping the raising commit but inheriting the real flush: a mere query after an edit emits
    an INSERT (journal appears in the directory), and committing the transaction object writes *)
Lemma real_flush_refuted_l :
  let cls := {| flush_noop := false; commit_raises := true |} in
  (exists ops, orm_only ops = true /\ no_txcommit ops = true /\
     let s' := fst (run_session cls true s0 ops) in
     s_log s' <> [] /\ journal_present s' = true /\ s_file s' = s_file s0) /\
  (exists ops, orm_only ops = true /\
     let '(s', rs) := run_session cls true s0 ops in
     s_file s' <> s_file s0 /\ rs = [ROk; RTypeError; ROk]).
Proof.
  split.
  - exists [Add 7 70; Query]. vm_compute. repeat split; discriminate.
  - exists [Add 7 70; Commit; TxCommit]. vm_compute. repeat split; discriminate.
Qed.

(** keeping the no-op flush but allowing commit: the file is still safe (first theorem), but the
    session no longer refuses -- commit() of a clean session succeeds *)
Lemma commit_allowed_refuted_l :
  let cls := {| flush_noop := true; commit_raises := false |} in
  exists ops, orm_only ops = true /\ ~ Forall2 commit_refused ops (snd (run_session cls true s0 ops)).
Proof.
  intros cls. exists [Commit]. split; [reflexivity|]. intros H.
  assert (E : snd (run_session cls true s0 [Commit]) = [ROk]) by (vm_compute; reflexivity).
  rewrite E in H. inversion H as [|o r ops rs Hc Hrest]; subst. discriminate (Hc eq_refl).
Qed.

(** boundary of the property: a raw DML statement is not a pending change; ReadOnlySession does
    not stop it, and committing the transaction object (not session.commit()) writes it *)
Lemma raw_dml_boundary_refuted_l :
  exists ops, orm_only ops = false /\
    let '(s', rs) := run_session ReadOnlySession true s0 ops in
    s_file s' <> s_file s0 /\ rs = [ROk; RTypeError; ROk].
Proof. exists [Exec (Upd 1 99); Commit; TxCommit]. vm_compute. repeat split; discriminate. Qed.

Definition gs0 : sfile := {| f_status := 0; f_cells := [(0, 5); (1, 9)] |}.
Definition st0 : store := {| st_file := gs0; st_handle := None |}.

Example store_example :
  let ops := [SOpen None; SRead 0; SWrite 0 6; SDelete 1; SFlush; SClose; SWrite 0 6] in
  read_opens ops = true /\ handle_read_only st0 = true /\
  snd (run_store st0 ops) = [SOk; SVal (Some 5); SRejected; SRejected; SOk; SOk; SNotOpen].
Proof. vm_compute. repeat split; reflexivity. Qed.

(** a write-capable mode changes the file: r+ already by being open (status word), and for good
    with one write; w truncates *)
Lemma write_mode_store_refuted_l :
  (exists ops, read_opens ops = false /\ st_file (fst (run_store st0 ops)) <> gs0 /\ ops = [SOpen (Some MRplus)]) /\
  (exists ops, st_file (fst (run_store st0 ops)) <> gs0 /\ ops = [SOpen (Some MRplus); SWrite 0 6; SClose]) /\
  (exists ops, st_file (fst (run_store st0 ops)) <> gs0 /\ ops = [SOpen (Some MW); SClose]).
Proof.
  split; [|split].
  - exists [SOpen (Some MRplus)]. vm_compute. repeat split; discriminate.
  - exists [SOpen (Some MRplus); SWrite 0 6; SClose]. vm_compute. repeat split; discriminate.
  - exists [SOpen (Some MW); SClose]. vm_compute. repeat split; discriminate.
Qed.

Definition w0 : world :=
  {| w_db := s0; w_cur := None; w_store := st0; w_names := [100; 101]; w_out := [];
     w_classes := []; w_modes := [] |}.

Definition history0 : list invocation :=
  [(CQuery 2, 1000%nat); (CQuery 3, 9%nat); (CLibSession true edits, 1000%nat); (CDistDb 2, 4%nat);
   (CLibStore [SWrite 0 1; SOpen (Some MR); SDelete 0], 1000%nat); (CSigInfoDb, 0%nat); (CTreeSig, 1000%nat);
   (CLoadFromDir 2, 1000%nat); (CSigInfoFile, 2%nat)].

(** a history with full and failing invocations meets the hypotheses, opens sessions and the
    store, and produces output outside the directory *)
Example commands_example :
  history_ok history0 = true /\ quiet w0 = true /\
  let w' := fst (run_world w0 (history_ops history0)) in
  w_classes w' = [ReadOnlySession; ReadOnlySession; ReadOnlySession; ReadOnlySession] /\
  w_modes w' = [MR; MR; MR; MR; MR; MR; MR] /\ w_out w' = [(1, 2)] /\
  length (history_ops history0) = 90%nat.
Proof. vm_compute. repeat split; reflexivity. Qed.

(** a world-level history with a read-write session class is not covered -- and does write *)
Lemma rw_history_refuted_l :
  exists ops, read_side ops = false /\ quiet w0 = true /\
    dir_state (fst (run_world w0 ops)) <> dir_state w0.
Proof.
  exists [WOpenSession (Some PlainSession) true; WSess (Add 7 70); WSess Commit; WExit].
  vm_compute. repeat split; discriminate.
Qed.
