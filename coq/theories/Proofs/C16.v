(** C16 -- the table written by [gambit dist] (Model/C16.v [dist_cmd]) is the specified one
    (Spec/C16.v) for every way of supplying either side, for every list of genomes and
    every distance oracle; the square option gives the symmetric zero-diagonal matrix and,
    for a symmetric oracle with zero self-distance, the same table as supplying the queries
    on both sides. *)
From Coq Require Import ZArith List Bool Lia Arith.
From GV Require Import Model.C16 Spec.C16 Proofs.C16Pairwise Proofs.C16Fmt.
Import ListNotations.
Open Scope nat_scope.

Definition in_range (d : G -> G -> Z) : Prop := forall a b, (0 <= d a b < 4294967296)%Z.

(* ---- generic ------------------------------------------------------------------------ *)

Lemma zip_strict_ok {A B} : forall (a : list A) (b : list B), length a = length b ->
  zip_strict a b = DOk (combine a b).
Proof.
  induction a as [|x a IH]; intros b H; destruct b as [|y b]; cbn in H; try discriminate; [reflexivity|].
  cbn [zip_strict combine]. rewrite IH by lia. reflexivity.
Qed.

Lemma zip_strict_len {A B} : forall (a : list A) (b : list B) r, zip_strict a b = DOk r -> length a = length b.
Proof.
  induction a as [|x a IH]; intros b r H; destruct b as [|y b]; cbn in H; try discriminate; [reflexivity|].
  destruct (zip_strict a b) as [r'|e] eqn:E; cbn in H; [|discriminate]. cbn. f_equal. eapply IH. exact E.
Qed.

Lemma dmap_ok {A B} : forall (f : A -> dres B) (g : A -> B) l,
  (forall x, In x l -> f x = DOk (g x)) -> dmap f l = DOk (map g l).
Proof.
  induction l as [|x l IH]; intro H; [reflexivity|].
  cbn [dmap map]. rewrite (H x) by (left; reflexivity). cbn [dbind].
  rewrite IH by (intros y Hy; apply H; right; exact Hy). reflexivity.
Qed.

Lemma map_seq_nth {A B} : forall (f : A -> B) (l : list A) x,
  map (fun a => f (nth a l x)) (seq 0 (length l)) = map f l.
Proof.
  induction l as [|y l IH]; intro x; [reflexivity|].
  cbn [length seq map nth]. f_equal. rewrite <- seq_shift, map_map. apply IH.
Qed.

(* ---- dump_dmat_csv ------------------------------------------------------------------ *)

Definition cells_in_range (m : list (list Z)) : Prop :=
  forall row, In row m -> forall b, In b row -> (0 <= b < 4294967296)%Z.

Lemma dump_ok : forall (m : list (list Z)) row_ids col_ids,
  length row_ids = length m -> cells_in_range m ->
  dump_dmat_csv (map (map Some) m) row_ids col_ids =
  DOk (([] :: col_ids) :: map (fun rv => fst rv :: map fmt4_str (snd rv)) (combine row_ids m)).
Proof.
  intros m row_ids col_ids Hl Hr. unfold dump_dmat_csv.
  rewrite zip_strict_ok by (rewrite map_length; exact Hl). cbn [dbind].
  rewrite (dmap_ok _ (fun rv => fst rv :: map (fun c => match c with Some b => fmt4_str b | None => [] end) (snd rv))).
  - cbn [dbind]. do 2 f_equal.
    clear Hr. revert m Hl. induction row_ids as [|id ids IH]; intros m Hl; destruct m as [|row m];
      cbn in Hl; try discriminate; [reflexivity|].
    cbn [map combine fst snd]. rewrite IH by lia. rewrite map_map. reflexivity.
  - intros [id row] Hin. cbn [fst snd].
    assert (Hrow : exists zs, row = map Some zs /\ In zs m).
    { apply in_combine_r in Hin. apply in_map_iff in Hin. destruct Hin as [zs [E I]]. exists zs. split; [symmetry; exact E|exact I]. }
    destruct Hrow as [zs [-> Hzs]].
    rewrite (dmap_ok _ (fun c => match c with Some b => fmt4_str b | None => [] end)); [reflexivity|].
    intros c Hc. apply in_map_iff in Hc. destruct Hc as [b [<- Hb]]. cbn [fmt_cell].
    apply fmt4_total. apply (Hr zs Hzs b Hb).
Qed.

Lemma dump_rows : forall dmat row_ids col_ids t, dump_dmat_csv dmat row_ids col_ids = DOk t ->
  length row_ids = length dmat.
Proof.
  intros dmat row_ids col_ids t H. unfold dump_dmat_csv in H.
  destruct (zip_strict row_ids dmat) as [r|e] eqn:E; [|discriminate]. eapply zip_strict_len. exact E.
Qed.

(* ---- the two sides ------------------------------------------------------------------ *)

Lemma calc_files_some : forall (es : list entry),
  calc_file_signatures (map (fun e => Some (snd e)) es) = DOk (map snd es).
Proof.
  induction es as [|e es IH]; [reflexivity|]. cbn [map calc_file_signatures]. rewrite IH. reflexivity.
Qed.

Lemma supplied_list_ok : forall fs lines Q,
  all_some (map (fun line => match lookup fs line with Some g => Some (get_file_id line, g) | None => None end) lines) = Some Q ->
  map get_file_id lines = map fst Q /\ calc_file_signatures (map (lookup fs) lines) = DOk (map snd Q).
Proof.
  intros fs. induction lines as [|l lines IH]; intros Q H; cbn in H.
  - injection H as <-. split; reflexivity.
  - destruct (lookup fs l) as [g|] eqn:E; [|discriminate].
    destruct (all_some _) as [Q'|] eqn:E2; [|discriminate]. injection H as <-.
    destruct (IH Q' eq_refl) as [H1 H2]. cbn [map fst snd calc_file_signatures].
    rewrite E, H1. cbn [calc_file_signatures]. rewrite H2. split; reflexivity.
Qed.

Lemma supplied_list_inv : forall fs lines sigs,
  calc_file_signatures (map (lookup fs) lines) = DOk sigs ->
  exists Q, all_some (map (fun line => match lookup fs line with Some g => Some (get_file_id line, g) | None => None end) lines) = Some Q.
Proof.
  intros fs. induction lines as [|l lines IH]; intros sigs H; cbn [map calc_file_signatures all_some] in H |- *.
  - eexists; reflexivity.
  - destruct (lookup fs l) as [g|] eqn:E; [|discriminate].
    destruct (calc_file_signatures _) as [gs|e] eqn:E2; [|discriminate].
    destruct (IH gs eq_refl) as [Q HQ]. rewrite HQ. eexists; reflexivity.
Qed.

Definition q_group (p : params) := [nonempty (p_q p); is_some (p_ql p); is_some (p_qs p)].
Definition r_group (p : params) :=
  [nonempty (p_r p); is_some (p_rl p); is_some (p_rs p); p_use_db p; p_square p].

Lemma map_fst_supplied_files : forall es, map fst (supplied_files es) = map (fun e => get_file_id (fst e)) es.
Proof. intro es. unfold supplied_files. rewrite map_map. reflexivity. Qed.
Lemma map_snd_supplied_files : forall es, map snd (supplied_files es) = map snd es.
Proof. intro es. unfold supplied_files. rewrite map_map. reflexivity. Qed.

Lemma query_side_ok : forall p Q, supplied_q p = Some Q ->
  check_params_group (q_group p) = DOk tt /\
  exists qs, query_side p = DOk qs /\ side_ids qs = map fst Q /\ side_sigs qs = DOk (map snd Q) /\ qs <> NoSide.
Proof.
  intros p Q H. unfold supplied_q in H. unfold q_group, query_side, get_sequence_files.
  destruct (p_q p) as [|e es] eqn:Eq; destruct (p_ql p) as [text|] eqn:El; destruct (p_qs p) as [ss|] eqn:Es;
    try discriminate.
  - (* --ql *) destruct (supplied_list_ok _ _ _ H) as [H1 H2]. split; [reflexivity|].
    eexists; split; [reflexivity|]. cbn [side_ids side_sigs]. repeat split; try assumption. discriminate.
  - (* --qs *) injection H as <-. split; [reflexivity|]. eexists; split; [reflexivity|].
    cbn. repeat split; discriminate.
  - (* -q *) injection H as <-. split; [reflexivity|]. eexists; split; [reflexivity|].
    cbn [side_ids side_sigs].
    change ((get_file_id (fst e), snd e) :: supplied_files es) with (supplied_files (e :: es)).
    rewrite map_fst_supplied_files, map_snd_supplied_files.
    repeat split; try discriminate. apply (calc_files_some (e :: es)).
Qed.

Lemma query_side_inv : forall p qs sigs, check_params_group (q_group p) = DOk tt ->
  query_side p = DOk qs -> side_sigs qs = DOk sigs -> exists Q, supplied_q p = Some Q.
Proof.
  intros p qs sigs Hc Hq Hs. unfold supplied_q. unfold q_group in Hc. unfold query_side, get_sequence_files in Hq.
  destruct (p_q p) as [|e es] eqn:Eq; destruct (p_ql p) as [text|] eqn:El; destruct (p_qs p) as [ss|] eqn:Es;
    try discriminate.
  - injection Hq as <-. cbn [side_sigs] in Hs. apply (supplied_list_inv _ _ _ Hs).
  - eexists; reflexivity.
  - eexists; reflexivity.
Qed.

Lemma ref_side_ok : forall p R, supplied_r p = Some R ->
  check_params_group (r_group p) = DOk tt /\
  exists rs, ref_side p = DOk rs /\
    (p_square p = false -> side_ids rs = map fst R /\ side_sigs rs = DOk (map snd R) /\ rs <> NoSide) /\
    (p_square p = true -> rs = NoSide /\ supplied_q p = Some R).
Proof.
  intros p R H. unfold supplied_r in H. unfold r_group, ref_side, get_sequence_files.
  destruct (p_r p) as [|e es] eqn:Er; destruct (p_rl p) as [text|] eqn:El; destruct (p_rs p) as [ss|] eqn:Es;
    destruct (p_use_db p) eqn:Ed; destruct (p_square p) eqn:Eq; try discriminate.
  - (* --rl *) destruct (supplied_list_ok _ _ _ H) as [H1 H2]. split; [reflexivity|].
    eexists; split; [reflexivity|]. split; [|discriminate]. intros _.
    cbn [side_ids side_sigs]. repeat split; try assumption. discriminate.
  - (* --rs *) injection H as <-. split; [reflexivity|]. eexists; split; [reflexivity|]. split; [|discriminate].
    intros _. cbn. repeat split; discriminate.
  - (* --use-db *) rewrite H. split; [reflexivity|]. eexists; split; [reflexivity|]. split; [|discriminate].
    intros _. cbn. repeat split; discriminate.
  - (* --square *) split; [reflexivity|]. eexists; split; [reflexivity|]. split; [discriminate|].
    intros _. split; [reflexivity|exact H].
  - (* -r *) injection H as <-. split; [reflexivity|]. eexists; split; [reflexivity|]. split; [|discriminate].
    intros _. cbn [side_ids side_sigs].
    change ((get_file_id (fst e), snd e) :: supplied_files es) with (supplied_files (e :: es)).
    rewrite map_fst_supplied_files, map_snd_supplied_files.
    repeat split; try discriminate. apply (calc_files_some (e :: es)).
Qed.

Lemma ref_side_inv : forall p rs, check_params_group (r_group p) = DOk tt -> ref_side p = DOk rs ->
  (p_square p = true -> forall Q, supplied_q p = Some Q -> supplied_r p = Some Q) /\
  (p_square p = false -> forall sigs, side_sigs rs = DOk sigs -> exists R, supplied_r p = Some R).
Proof.
  intros p rs Hc Hr. unfold supplied_r. unfold r_group in Hc. unfold ref_side, get_sequence_files in Hr.
  destruct (p_r p) as [|e es] eqn:Er; destruct (p_rl p) as [text|] eqn:El; destruct (p_rs p) as [ss|] eqn:Es;
    destruct (p_use_db p) eqn:Ed; destruct (p_square p) eqn:Eq; try discriminate;
    (split; [try discriminate|try discriminate]).
  - intros _ sigs Hs. injection Hr as <-. cbn [side_sigs] in Hs. apply (supplied_list_inv _ _ _ Hs).
  - intros _ sigs Hs. eexists; reflexivity.
  - intros _ sigs Hs. destruct (p_db p) as [db|]; [|discriminate]. eexists; reflexivity.
  - intros _ Q HQ. exact HQ.
  - intros _ sigs Hs. eexists; reflexivity.
Qed.

(* ---- the tables --------------------------------------------------------------------- *)

Lemma matrix_as_cells : forall d qs rs,
  jaccarddist_matrix d qs rs = map (map Some) (map (fun q => map (d q) rs) qs).
Proof.
  intros d qs rs. unfold jaccarddist_matrix. rewrite map_map. apply map_ext. intro q.
  rewrite map_map. reflexivity.
Qed.

Lemma sq_matrix_as_cells : forall d sigs,
  sq_matrix d sigs = map (map Some) (map (fun a => map (fun b => sq_dist d sigs a b) (seq 0 (length sigs))) (seq 0 (length sigs))).
Proof.
  intros d sigs. unfold sq_matrix. rewrite map_map. apply map_ext. intro a. rewrite map_map. reflexivity.
Qed.

Lemma table_rows : forall (d : G -> G -> Z) (Q R : list entry),
  map (fun rv => fst rv :: map fmt4_str (snd rv))
      (combine (map fst Q) (map (fun q => map (d q) (map snd R)) (map snd Q))) =
  map (fun q => fst q :: map (fun r => fmt4_str (d (snd q) (snd r))) R) Q.
Proof.
  intros d Q R. induction Q as [|q Q IH]; [reflexivity|].
  cbn [map combine fst snd]. rewrite IH. rewrite !map_map. reflexivity.
Qed.

Lemma combine_map_map {X A B C} : forall (f : X -> A) (g : X -> B) (h : A * B -> C) (l : list X),
  map h (combine (map f l) (map g l)) = map (fun a => h (f a, g a)) l.
Proof. intros f g h l. induction l as [|x l IH]; [reflexivity|]. cbn [map combine]. rewrite IH. reflexivity. Qed.

Lemma square_rows : forall (d : G -> G -> Z) (Q : list entry),
  map (fun rv => fst rv :: map fmt4_str (snd rv))
      (combine (map fst Q)
               (map (fun a => map (fun b => sq_dist d (map snd Q) a b) (seq 0 (length (map snd Q)))) (seq 0 (length (map snd Q))))) =
  map (fun a => nth a (map fst Q) [] :: map (fun b => fmt4_str (sq_dist d (map snd Q) a b)) (seq 0 (length Q))) (seq 0 (length Q)).
Proof.
  intros d Q. rewrite map_length.
  assert (Hids : map fst Q = map (fun a => nth a (map fst Q) []) (seq 0 (length Q))).
  { pose proof (map_seq_nth (fun x : str => x) (map fst Q) []) as Hm. cbv beta in Hm.
    rewrite map_id, map_length in Hm. symmetry. exact Hm. }
  rewrite Hids at 1. rewrite combine_map_map. apply map_ext. intro a. cbn [fst snd].
  rewrite map_map. reflexivity.
Qed.

Lemma in_range_matrix : forall d qs rs, in_range d -> cells_in_range (map (fun q => map (d q) rs) qs).
Proof.
  intros d qs rs Hd row Hrow b Hb. apply in_map_iff in Hrow. destruct Hrow as [q [<- _]].
  apply in_map_iff in Hb. destruct Hb as [r [<- _]]. apply Hd.
Qed.

Lemma in_range_square : forall d sigs n, in_range d ->
  cells_in_range (map (fun a => map (fun b => sq_dist d sigs a b) (seq 0 n)) (seq 0 n)).
Proof.
  intros d sigs n Hd row Hrow b Hb. apply in_map_iff in Hrow. destruct Hrow as [a [<- _]].
  apply in_map_iff in Hb. destruct Hb as [c [<- _]]. unfold sq_dist. destruct (a =? c); [lia|apply Hd].
Qed.

(** every way of supplying the two sides: the command writes the specified table *)
Lemma dist_full_ok : forall d p Q R, in_range d -> p_square p = false ->
  supplied_q p = Some Q -> supplied_r p = Some R ->
  dist_cmd d p = DOk (spec_table (fun x y => fmt4_str (d x y)) Q R).
Proof.
  intros d p Q R Hd Hsq HQ HR. unfold dist_cmd.
  destruct (query_side_ok p Q HQ) as [Cq [qs [Eq [Iq [Sq Nq]]]]].
  destruct (ref_side_ok p R HR) as [Cr [rs [Er [Hf _]]]].
  destruct (Hf Hsq) as [Ir [Sr Nr]].
  fold (q_group p). fold (r_group p). rewrite Cq, Cr. cbn [dbind]. rewrite Eq, Er. cbn [dbind].
  rewrite Sq. cbn [dbind]. rewrite Hsq, Sr. cbn [dbind].
  assert (Eids : match rs with NoSide => side_ids qs | _ => side_ids rs end = side_ids rs)
    by (destruct rs; [reflexivity|reflexivity|contradiction]).
  rewrite Eids, Iq, Ir, matrix_as_cells.
  rewrite dump_ok.
  - unfold spec_table. rewrite table_rows. reflexivity.
  - rewrite !map_length. reflexivity.
  - apply in_range_matrix. exact Hd.
Qed.

Lemma dist_square_ok : forall d p Q R, in_range d -> p_square p = true ->
  supplied_q p = Some Q -> supplied_r p = Some R ->
  dist_cmd d p = DOk (spec_square_table fmt4_str d Q).
Proof.
  intros d p Q R Hd Hsq HQ HR. unfold dist_cmd.
  destruct (query_side_ok p Q HQ) as [Cq [qs [Eq [Iq [Sq Nq]]]]].
  destruct (ref_side_ok p R HR) as [Cr [rs [Er [_ Hs]]]].
  destruct (Hs Hsq) as [-> _].
  fold (q_group p). fold (r_group p). rewrite Cq, Cr. cbn [dbind]. rewrite Eq, Er. cbn [dbind].
  rewrite Sq. cbn [dbind]. rewrite Hsq, pairwise_correct. cbn [dbind].
  rewrite Iq, sq_matrix_as_cells.
  rewrite dump_ok.
  - unfold spec_square_table. rewrite square_rows. reflexivity.
  - rewrite !map_length, seq_length. reflexivity.
  - apply in_range_square. exact Hd.
Qed.

(** the command succeeds only when each side is supplied in exactly one way and every
    listed file exists *)
Lemma dist_ok_inv : forall d p t, dist_cmd d p = DOk t ->
  exists Q R, supplied_q p = Some Q /\ supplied_r p = Some R.
Proof.
  intros d p t H. unfold dist_cmd in H. fold (q_group p) in H. fold (r_group p) in H.
  destruct (check_params_group (q_group p)) as [[]|e] eqn:Cq; [|discriminate].
  destruct (check_params_group (r_group p)) as [[]|e] eqn:Cr; [|discriminate].
  cbn [dbind] in H.
  destruct (query_side p) as [qs|e] eqn:Eq; [|discriminate]. cbn [dbind] in H.
  destruct (ref_side p) as [rs|e] eqn:Er; [|discriminate]. cbn [dbind] in H.
  destruct (side_sigs qs) as [qsigs|e] eqn:Sq; [|discriminate]. cbn [dbind] in H.
  destruct (query_side_inv p qs qsigs Cq Eq Sq) as [Q HQ].
  destruct (ref_side_inv p rs Cr Er) as [Ht Hf].
  exists Q. destruct (p_square p) eqn:Hsq.
  - exists Q. split; [exact HQ|]. apply Ht; [reflexivity|exact HQ].
  - destruct (side_sigs rs) as [rsigs|e] eqn:Sr; [|discriminate].
    destruct (Hf eq_refl rsigs eq_refl) as [R HR]. exists R. split; assumption.
Qed.

(* ---- square: symmetric, zero diagonal, same as both sides --------------------------- *)

Lemma sq_dist_sym : forall d sigs a b, sq_dist d sigs a b = sq_dist d sigs b a.
Proof.
  intros d sigs a b. unfold sq_dist. rewrite (Nat.eqb_sym b a), (Nat.min_comm b a), (Nat.max_comm b a).
  reflexivity.
Qed.

Lemma sq_dist_diag : forall d sigs a, sq_dist d sigs a a = 0%Z.
Proof. intros d sigs a. unfold sq_dist. rewrite Nat.eqb_refl. reflexivity. Qed.

Definition symmetric_on (d : G -> G -> Z) (sigs : list G) : Prop :=
  (forall x y, In x sigs -> In y sigs -> d x y = d y x) /\ (forall x, In x sigs -> d x x = 0%Z).

Lemma sq_dist_is_d : forall d sigs a b, symmetric_on d sigs -> a < length sigs -> b < length sigs ->
  sq_dist d sigs a b = d (nth a sigs 0%Z) (nth b sigs 0%Z).
Proof.
  intros d sigs a b [Hs Hz] Ha Hb. unfold sq_dist.
  assert (Ia : In (nth a sigs 0%Z) sigs) by (apply nth_In; exact Ha).
  assert (Ib : In (nth b sigs 0%Z) sigs) by (apply nth_In; exact Hb).
  destruct (a =? b) eqn:E.
  - apply Nat.eqb_eq in E. subst b. symmetry. apply Hz. exact Ia.
  - apply Nat.eqb_neq in E. destruct (Nat.lt_ge_cases a b).
    + rewrite Nat.min_l, Nat.max_r by lia. reflexivity.
    + rewrite Nat.min_r, Nat.max_l by lia. apply Hs; assumption.
Qed.

Lemma square_is_both_sides : forall d Q, symmetric_on d (map snd Q) ->
  spec_square_table fmt4_str d Q = spec_table (fun x y => fmt4_str (d x y)) Q Q.
Proof.
  intros d Q Hs. unfold spec_square_table, spec_table. f_equal.
  set (dq := (@nil Z, 0%Z) : entry).
  rewrite <- (map_seq_nth (fun q => fst q :: map (fun r => fmt4_str (d (snd q) (snd r))) Q) Q dq).
  apply map_ext_in. intros a Ha. apply in_seq in Ha.
  f_equal.
  - apply (map_nth fst Q dq a).
  - rewrite <- (map_seq_nth (fun r => fmt4_str (d (snd (nth a Q dq)) (snd r))) Q dq).
    apply map_ext_in. intros b Hb. apply in_seq in Hb. f_equal.
    rewrite sq_dist_is_d by (try rewrite map_length; try exact Hs; lia).
    change (nth a (map snd Q) 0%Z) with (nth a (map snd Q) (snd dq)).
    change (nth b (map snd Q) 0%Z) with (nth b (map snd Q) (snd dq)).
    rewrite (map_nth snd Q dq a), (map_nth snd Q dq b). reflexivity.
Qed.

Lemma both_sides_supplied : forall p Q, supplied_q p = Some Q ->
  supplied_q (both_sides p) = Some Q /\ supplied_r (both_sides p) = Some Q.
Proof.
  intros p Q H. unfold supplied_q, supplied_r, both_sides in *. cbn.
  destruct (p_q p) as [|e es]; destruct (p_ql p) as [text|]; destruct (p_qs p) as [ss|];
    try discriminate; split; exact H.
Qed.

Lemma square_equals_both_sides : forall d p Q, in_range d -> p_square p = true ->
  supplied_q p = Some Q -> supplied_r p = Some Q -> symmetric_on d (map snd Q) ->
  dist_cmd d p = dist_cmd d (both_sides p).
Proof.
  intros d p Q Hd Hsq HQ HR Hs.
  rewrite (dist_square_ok d p Q Q Hd Hsq HQ HR).
  destruct (both_sides_supplied p Q HQ) as [HQ' HR'].
  rewrite (dist_full_ok d (both_sides p) Q Q Hd eq_refl HQ' HR').
  rewrite square_is_both_sides by exact Hs. reflexivity.
Qed.

(* ---- final statements ---------------------------------------------------------------- *)

Lemma C16_cells_l : forall d p t, in_range d -> p_square p = false ->
  (dist_cmd d p = DOk t <->
   exists Q R, supplied_q p = Some Q /\ supplied_r p = Some R /\
               t = spec_table (fun x y => fmt4_str (d x y)) Q R).
Proof.
  intros d p t Hd Hsq. split.
  - intro H. destruct (dist_ok_inv d p t H) as [Q [R [HQ HR]]]. exists Q, R.
    rewrite (dist_full_ok d p Q R Hd Hsq HQ HR) in H. injection H as <-. repeat split; assumption.
  - intros [Q [R [HQ [HR ->]]]]. apply dist_full_ok; assumption.
Qed.

Lemma C16_square_l : forall d p t, in_range d -> p_square p = true ->
  (dist_cmd d p = DOk t <->
   exists Q, supplied_q p = Some Q /\ supplied_r p = Some Q /\ t = spec_square_table fmt4_str d Q).
Proof.
  intros d p t Hd Hsq. split.
  - intro H. destruct (dist_ok_inv d p t H) as [Q [R [HQ HR]]].
    destruct (ref_side_ok p R HR) as [_ [rs [_ [_ Hs]]]]. destruct (Hs Hsq) as [_ HQ'].
    rewrite HQ in HQ'. injection HQ' as <-. exists Q.
    rewrite (dist_square_ok d p Q Q Hd Hsq HQ HR) in H. injection H as <-. repeat split; assumption.
  - intros [Q [HQ [HR ->]]]. apply (dist_square_ok d p Q Q); assumption.
Qed.

Lemma C16_square_shape_l : forall d sigs a b,
  sq_dist d sigs a b = sq_dist d sigs b a /\
  fmt4_str (sq_dist d sigs a a) = [48; 46; 48; 48; 48; 48]%Z.
Proof.
  intros d sigs a b. split; [apply sq_dist_sym|]. rewrite sq_dist_diag. apply fmt4_zero.
Qed.

Lemma C16_fmt4_l : forall b s m e, (0 <= b < 4294967296)%Z -> f32_dyadic_of_bits b = Some (s, m, e) ->
  fmt4 b = DOk (fmt4_str b) /\
  parse_fixed4 (fmt4_str b) = Some (s, scaled4 m e) /\
  ((e < 0)%Z -> (2 * Z.abs (scaled4 m e * 2 ^ (- e) - m * 10000) <= 2 ^ (- e))%Z /\
                nearest4 m e (scaled4 m e) /\
                (tie4 m e (scaled4 m e) -> Z.even (scaled4 m e) = true)) /\
  ((0 <= e)%Z -> scaled4 m e = (m * 2 ^ e * 10000)%Z).
Proof.
  intros b s m e Hb H. destruct (f32_dyadic_range b s m e Hb H) as [Hm _].
  destruct (fmt4_finite b s m e H ltac:(lia)) as [t [Et Hp]].
  pose proof (fmt4_total b Hb) as Ht. rewrite Et in Ht. injection Ht as ->.
  split; [exact Et|]. split; [exact Hp|]. split.
  - intro He. destruct (scaled4_neg m e He) as [Hn [Hti Hc]]. repeat split; assumption.
  - apply scaled4_nonneg_exp.
Qed.

(* ---- non-vacuity -------------------------------------------------------------------- *)

(** two files q1.fasta, sub/q2.fa.gz against a list file naming r.fna (with blank lines and
    surrounding spaces); distances 1/32 (a tie), 1.0, 0.0, 0.5 *)
Example dist_example :
  let d := fun a b : G => match a, b with
                          | 0, 2 => 1023410176 | 1, 2 => 1065353216 | 0, 3 => 0 | _, _ => 1056964608
                          end%Z in
  let p := mkParams [([113; 49; 46; 102; 97; 115; 116; 97], 0); ([115; 117; 98; 47; 113; 50; 46; 102; 97; 46; 103; 122], 1)]%Z
                    None [] None
                    [] (Some [10; 32; 114; 46; 102; 110; 97; 32; 13; 10; 120; 47; 121; 46; 102; 97; 115; 116; 97]%Z)
                    [([114; 46; 102; 110; 97], 2); ([120; 47; 121; 46; 102; 97; 115; 116; 97], 3)]%Z None
                    false None false in
  dist_cmd d p = DOk [ [[]; [114]; [121]];
                       [[113; 49]; [48; 46; 48; 51; 49; 50]; [48; 46; 48; 48; 48; 48]];
                       [[113; 50]; [49; 46; 48; 48; 48; 48]; [48; 46; 53; 48; 48; 48]] ]%Z.
Proof. vm_compute. reflexivity. Qed.

Example square_example :
  let d := fun a b : G => if (a <? b)%Z then 1023410176%Z else 1065353216%Z in
  jaccarddist_pairwise d [5; 6; 7]%Z =
  DOk [[Some 0; Some 1023410176; Some 1023410176];
       [Some 1023410176; Some 0; Some 1023410176];
       [Some 1023410176; Some 1023410176; Some 0]]%Z.
Proof. vm_compute. reflexivity. Qed.
