(** C11 -- column mapping, JSON field mapping, archive round trip (Model/C11Export.v). *)
From Coq Require Import ZArith List Bool Lia.
From GV Require Import Model.C11Csv Model.C11Json Model.C11Export Spec.C11 Proofs.C11Csv.
Import ListNotations.
Open Scope Z_scope.

(** ---- CSV columns ---- *)

Lemma csv_row_cells : forall it dtok, csv_row (it, dtok) = csv_cells it dtok.
Proof.
  intros it dtok. unfold csv_row, csv_cells, via, cell. cbn [map].
  destruct (i_report it) as [t|]; destruct (c_next (i_cr it)) as [n|]; reflexivity.
Qed.

Lemma csv_columns_l : forall xs,
  csv_parse (csv_export_fixed xs) = csv_header :: map (fun x => csv_cells (fst x) (snd x)) xs /\
  length (csv_parse (csv_export_fixed xs)) = S (length xs) /\
  Forall (fun row => length row = 11%nat) (csv_parse (csv_export_fixed xs)).
Proof.
  intros xs. unfold csv_export_fixed. rewrite csv_roundtrip_fixed_l. unfold csv_rows.
  assert (E : map csv_row xs = map (fun x => csv_cells (fst x) (snd x)) xs).
  { apply map_ext. intros [it d]. apply csv_row_cells. }
  rewrite E. split; [reflexivity|]. split.
  - cbn [length]. rewrite map_length. reflexivity.
  - constructor; [reflexivity|]. apply Forall_forall. intros row H. apply in_map_iff in H.
    destruct H as [x [Hx _]]. subst row. reflexivity.
Qed.

Lemma csv_columns_old_l : forall xs, rows_cr_ok (csv_rows xs) = true ->
  csv_export_old xs = csv_export_fixed xs /\
  csv_parse (csv_export_old xs) = csv_header :: map (fun x => csv_cells (fst x) (snd x)) xs.
Proof.
  intros xs H. unfold csv_export_old, csv_export_fixed. rewrite old_eq_fixed by exact H.
  split; [reflexivity|]. apply (csv_columns_l xs).
Qed.

(** ---- JSON fields ---- *)

Definition jpath (ks : list str) (v : jv) : option jv :=
  fold_left (fun o k => match o with Some x => jget k x | None => None end) ks (Some v).

Lemma json_fields_l : forall it,
  jpath [K_query; K_name] (item_json it) = Some (JStr (i_label it)) /\
  jpath [K_query; K_path] (item_json it) = Some (jopt (fun f => JStr (f_path f)) (i_file it)) /\
  jpath [K_predicted_taxon] (item_json it) = Some (jopt taxon_json (i_report it)) /\
  jpath [K_next_taxon] (item_json it) = Some (jopt taxon_json (c_next (i_cr it))) /\
  jpath [K_closest_genomes] (item_json it) = Some (JArr (map match_json (i_closest it))).
Proof. intros it. repeat split; reflexivity. Qed.

Lemma json_taxon_fields_l : forall t,
  jpath [K_key] (taxon_json t) = Some (JStr (t_key t)) /\
  jpath [K_name] (taxon_json t) = Some (JStr (t_name t)) /\
  jpath [K_rank] (taxon_json t) = Some (jopt JStr (t_rank t)) /\
  jpath [K_ncbi_id] (taxon_json t) = Some (jopt JNum (t_ncbi t)) /\
  jpath [K_distance_threshold] (taxon_json t) = Some (jopt JNum (t_thr t)).
Proof. intros t. repeat split; reflexivity. Qed.

Lemma json_match_fields_l : forall m,
  jpath [K_distance] (match_json m) = Some (JNum (m_dist m)) /\
  jpath [K_genome; K_key] (match_json m) = Some (JStr (g_key (m_genome m))) /\
  jpath [K_genome; K_description] (match_json m) = Some (JStr (g_desc (m_genome m))) /\
  jpath [K_genome; K_taxonomy] (match_json m) = Some (JArr (map taxon_json (g_tax (m_genome m)))) /\
  jpath [K_matched_taxon] (match_json m) = Some (jopt taxon_json (m_taxon m)).
Proof. intros m. repeat split; reflexivity. Qed.

Lemma json_items_l : forall r,
  jpath [K_items] (results_json r) = Some (JArr (map item_json (r_items r))).
Proof. reflexivity. Qed.

(** ---- archive ---- *)

Lemma str_eqb_refl : forall a, str_eqb a a = true.
Proof. induction a as [|x a IH]; [reflexivity|]. cbn. rewrite Z.eqb_refl, IH. reflexivity. Qed.

Lemma str_eqb_eq : forall a b, str_eqb a b = true -> a = b.
Proof.
  induction a as [|x a IH]; intros [|y b] H; try discriminate; [reflexivity|].
  cbn in H. apply andb_true_iff in H. destruct H as [H1 H2]. apply Z.eqb_eq in H1.
  apply IH in H2. congruence.
Qed.

Lemma filter_unique : forall (A : Type) (key : A -> str) (l : list A) (t : A),
  NoDup (map key l) -> In t l -> filter (fun x => str_eqb (key x) (key t)) l = [t].
Proof.
  intros A key l t. induction l as [|a l IH]; intros Hnd Hin; [destruct Hin|].
  cbn [map] in Hnd. inversion Hnd as [|k ks Hnot Hnd']; subst.
  cbn [filter]. destruct Hin as [Heq|Hin].
  - subst a. rewrite str_eqb_refl. f_equal.
    assert (F : forall x, In x l -> str_eqb (key x) (key t) = false).
    { intros x Hx. destruct (str_eqb (key x) (key t)) eqn:E; [|reflexivity].
      apply str_eqb_eq in E. exfalso. apply Hnot. rewrite <- E. apply in_map, Hx. }
    clear -F. induction l as [|b l IH]; [reflexivity|]. cbn [filter].
    rewrite F by (left; reflexivity). apply IH. intros x Hx. apply F. right. exact Hx.
  - destruct (str_eqb (key a) (key t)) eqn:E.
    + apply str_eqb_eq in E. exfalso. apply Hnot. rewrite E. apply in_map, Hin.
    + apply IH; assumption.
Qed.

Lemma mapM_map : forall (A B : Type) (P : B -> Prop) (f : A -> xres B) (g : B -> A) l,
  (forall b, P b -> f (g b) = XOk b) -> Forall P l -> mapM f (map g l) = XOk l.
Proof.
  intros A B P f g l H F. induction F as [|b l Hb F IH]; [reflexivity|].
  cbn [map mapM]. rewrite H by exact Hb. cbn [ob]. rewrite IH. reflexivity.
Qed.

Lemma as_opt_jopt : forall (B : Type) (P : B -> Prop) (f : jv -> xres B) (g : B -> jv) o,
  (forall b, g b <> JNull) -> (forall b, P b -> f (g b) = XOk b) ->
  match o with Some b => P b | None => True end -> as_opt f (jopt g o) = XOk o.
Proof.
  intros B P f g [b|] Hn H Ho; [|reflexivity]. cbn [jopt]. unfold as_opt.
  specialize (Hn b). destruct (g b) eqn:E; try congruence; rewrite <- E, H by exact Ho; reflexivity.
Qed.

Lemma as_opt_str : forall o, as_opt as_str (jopt jstr o) = XOk o.
Proof. intros [s|]; reflexivity. Qed.

Lemma mapM_str : forall l, mapM as_str (map jstr l) = XOk l.
Proof. intros l. apply (mapM_map _ _ (fun _ => True)); [reflexivity|]. apply Forall_forall. trivial. Qed.

Section Archive.
  Variable db : refdb.
  Hypothesis Huniq : db_keys_unique db.

  Lemma rd_taxon_ok : forall t, okT db t -> rd_taxon db (ar_taxon t) = XOk t.
  Proof.
    intros t H. unfold rd_taxon, ar_taxon, key_json, rd_key. cbn.
    rewrite (filter_unique taxon t_key) by (try apply Huniq; exact H). reflexivity.
  Qed.

  Lemma rd_genome_ok : forall g, okG db g -> rd_genome db (ar_genome g) = XOk g.
  Proof.
    intros g H. unfold rd_genome, ar_genome, key_json, rd_key. cbn.
    rewrite (filter_unique genome g_key) by (try apply Huniq; exact H). reflexivity.
  Qed.

  Lemma rd_otaxon_ok : forall o, okOT db o -> as_opt (rd_taxon db) (jopt ar_taxon o) = XOk o.
  Proof.
    intros o H. apply (as_opt_jopt taxon (okT db)); [discriminate|apply rd_taxon_ok|exact H].
  Qed.

  Arguments rd_taxon : simpl never.
  Arguments rd_genome : simpl never.
  Arguments ar_taxon : simpl never.
  Arguments ar_genome : simpl never.
  Arguments as_opt : simpl never.
  Arguments jopt : simpl never.
  Arguments mapM : simpl never.

  Lemma rd_match_ok : forall m, okM db m -> rd_match db (ar_match m) = XOk m.
  Proof.
    intros [g d t] [Hg Ht]. cbn [m_genome m_taxon] in *. unfold rd_match, ar_match. cbn.
    rewrite rd_genome_ok by exact Hg. cbn. rewrite rd_otaxon_ok by exact Ht. reflexivity.
  Qed.

  Lemma rd_omatch_ok : forall o, okOM db o -> as_opt (rd_match db) (jopt ar_match o) = XOk o.
  Proof.
    intros o H. apply (as_opt_jopt gmatch (okM db)); [discriminate|apply rd_match_ok|exact H].
  Qed.

  Lemma rd_matches_ok : forall l, Forall (okM db) l -> mapM (rd_match db) (map ar_match l) = XOk l.
  Proof. intros l H. apply (mapM_map _ _ (okM db)); [apply rd_match_ok|exact H]. Qed.

  Lemma rd_file_ok : forall f, rd_file (ar_file f) = XOk f.
  Proof. intros [p f c]. unfold rd_file, ar_file. cbn. rewrite as_opt_str. reflexivity. Qed.

  Lemma rd_ofile_ok : forall o, as_opt rd_file (jopt ar_file o) = XOk o.
  Proof.
    intros o. apply (as_opt_jopt qfile (fun _ => True)); [discriminate|intros; apply rd_file_ok|].
    destruct o; exact I.
  Qed.

  Lemma rd_params_ok : forall p, rd_params true (ar_params p) = XOk p.
  Proof. intros [s [c|] n]; reflexivity. Qed.

  Lemma rd_params_old_ok : forall p, p_chunk p <> None -> rd_params false (ar_params p) = XOk p.
  Proof. intros [s [c|] n] H; [reflexivity|]. exfalso. apply H. reflexivity. Qed.

  Definition params_ok (fx : bool) (o : option params) : Prop :=
    match o with Some p => fx = true \/ p_chunk p <> None | None => True end.

  Lemma rd_oparams_ok : forall fx o, params_ok fx o -> as_opt (rd_params fx) (jopt ar_params o) = XOk o.
  Proof.
    intros fx o H. apply (as_opt_jopt params (fun p => fx = true \/ p_chunk p <> None)); [discriminate| |exact H].
    intros p [E|E]; [subst fx; apply rd_params_ok|]. destruct fx; [apply rd_params_ok|apply rd_params_old_ok, E].
  Qed.

  Arguments rd_match : simpl never.
  Arguments ar_match : simpl never.
  Arguments rd_file : simpl never.
  Arguments ar_file : simpl never.

  Lemma rd_cresult_ok : forall c, okC db c -> rd_cresult db (ar_cresult c) = XOk c.
  Proof.
    intros [s p pm cm n w e] (Hp & Hpm & Hcm & Hn). cbn [c_pred c_primary c_closest c_next] in *.
    unfold rd_cresult, ar_cresult. cbn.
    rewrite rd_otaxon_ok by exact Hp. cbn. rewrite rd_omatch_ok by exact Hpm. cbn.
    rewrite rd_match_ok by exact Hcm. cbn. rewrite rd_otaxon_ok by exact Hn. cbn.
    rewrite mapM_str. cbn. rewrite as_opt_str. reflexivity.
  Qed.

  Arguments rd_cresult : simpl never.
  Arguments ar_cresult : simpl never.

  Lemma rd_item_ok : forall i, okI db i -> rd_item db (ar_item i) = XOk i.
  Proof.
    intros [l f c t g] (Hc & Ht & Hg). cbn [i_cr i_report i_closest] in *.
    unfold rd_item, ar_item, rd_input. cbn.
    rewrite rd_ofile_ok. cbn. rewrite rd_cresult_ok by exact Hc. cbn.
    rewrite rd_otaxon_ok by exact Ht. cbn. rewrite rd_matches_ok by exact Hg. reflexivity.
  Qed.

  Arguments rd_item : simpl never.
  Arguments ar_item : simpl never.
  Arguments rd_params : simpl never.
  Arguments ar_params : simpl never.

  Lemma archive_roundtrip_gen : forall fx r, results_in_db db r -> params_ok fx (r_params r) ->
    archive_read fx db (ar_results r) = XOk r.
  Proof.
    intros fx [its p g sm gv ts ex] [Hi Hg] Hp. cbn [r_items r_gset r_params] in *.
    unfold archive_read, ar_results, rd_gset. cbn. rewrite as_opt_str. cbn. rewrite Hg. cbn [filter].
    rewrite str_eqb_refl.
    assert (V : opt_str_eqb (gs_version g) (gs_version g) = true)
      by (destruct (gs_version g); [apply str_eqb_refl|reflexivity]).
    rewrite V. cbn.
    rewrite (mapM_map _ _ (okI db)) by (try apply rd_item_ok; exact Hi). cbn.
    rewrite rd_oparams_ok by exact Hp. reflexivity.
  Qed.

  Lemma archive_roundtrip_l : forall r, results_in_db db r -> archive_read true db (ar_results r) = XOk r.
  Proof.
    intros r H. apply archive_roundtrip_gen; [exact H|]. destruct (r_params r); [left; reflexivity|exact I].
  Qed.

  Lemma archive_roundtrip_old_l : forall r, results_in_db db r ->
    match r_params r with Some p => p_chunk p <> None | None => True end ->
    archive_read false db (ar_results r) = XOk r.
  Proof.
    intros r H Hp. apply archive_roundtrip_gen; [exact H|]. destruct (r_params r); [right; exact Hp|exact I].
  Qed.
End Archive.

(** a missing or duplicated key is an error of the reader, never a silently different result *)
Lemma archive_missing_key_l : forall db t,
  filter (fun x => str_eqb (t_key x) (t_key t)) (db_taxa db) = [] ->
  rd_taxon db (ar_taxon t) = XErr NoResultFound.
Proof. intros db t H. unfold rd_taxon, ar_taxon, key_json, rd_key. cbn. rewrite H. reflexivity. Qed.

(** non-vacuity of the archive theorem's hypotheses: a database with two taxa and one genome, a
    result with a prediction, a warning, an error message and a source file *)
Example archive_example :
  let t0 := mkT [49] [116; 48] [71; 44; 34; 10] (Some [49; 50]) (Some [103]) (Some [48; 46; 55]) in
  let t1 := mkT [50] [116; 49] [97; 13; 98] None None None in
  let g0 := mkG [103; 48] [100; 233] None None None None None [49] [t1; t0] in
  let db := mkDB [mkGS [49] [107] (Some [49; 46; 48]) [110] None] [t0; t1] [g0] in
  let m := mkM g0 [48; 46; 53] (Some t0) in
  let c := mkC false (Some t1) (Some m) m None [[119; 128512]] (Some [101]) in
  let r := mkR [mkI [108] (Some (mkF [47; 120] [102] None)) c (Some t0) [m; m]]
               (Some (mkP true None [49; 48])) (mkGS [49] [107] (Some [49; 46; 48]) [110] None)
               (JObj [(K_id, JNull)]) [49] [50] (JObj []) in
  db_keys_unique db /\ results_in_db db r /\ archive_read true db (ar_results r) = XOk r /\
  archive_read false db (ar_results r) = XErr StructureError.
Proof.
  cbv zeta. split; [|split; [|split]].
  - split; repeat constructor; cbn; intuition discriminate.
  - split; [|reflexivity].
    repeat first [apply Forall_cons | apply Forall_nil | split]; cbn; tauto.
  - vm_compute. reflexivity.
  - vm_compute. reflexivity.
Qed.

(** the unchanged reader cannot read back parameters with chunksize = None (documented as "no
    chunking"): cattrs applies int() to null *)
Lemma archive_chunksize_none_refuted_l :
  exists db r, db_keys_unique db /\ results_in_db db r /\
               archive_read false db (ar_results r) = XErr StructureError /\
               archive_read true db (ar_results r) = XOk r.
Proof.
  exists (mkDB [mkGS [49] [107] None [110] None] [] []).
  exists (mkR [] (Some (mkP false None [49; 48])) (mkGS [49] [107] None [110] None) JNull [49] [50] (JObj [])).
  split; [split; constructor|]. split; [split; [constructor|reflexivity]|]. split; vm_compute; reflexivity.
Qed.
