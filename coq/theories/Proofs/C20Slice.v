(** C20: slice.indices + np.arange enumerate exactly the positions the specification selects. *)
From Coq Require Import ZArith List Bool Lia ZifyBool Sorted.
From GV Require Import Spec.C20 Model.C20 Proofs.C20Lists.
Import ListNotations.
Open Scope Z_scope.

(** stated bound: the step of the slice fits a Py_ssize_t (and is not its minimum) *)
Definition step_fits (s : option Z) : bool :=
  match s with None => true | Some z => (- SSIZE_MAX <=? z) && (z <=? SSIZE_MAX) end.

Definition step_of (s : option Z) : Z := match s with None => 1 | Some z => z end.

Lemma slice_indices_spec n a b s :
  0 <= n <= SSIZE_MAX -> step_fits s = true -> step_of s <> 0 ->
  slice_indices n a b s = (spec_start n (step_of s) a, spec_stop n (step_of s) b, step_of s).
Proof.
  intros Hn Hs Hz. unfold slice_indices, slice_unpack. cbv zeta.
  assert (Hstep : match s with None => 1
                  | Some z => if clip z <? - SSIZE_MAX then - SSIZE_MAX else clip z end = step_of s).
  { destruct s as [z|]; [|reflexivity]. cbn in Hs |- *. unfold clip, SSIZE_MAX, SSIZE_MIN in *.
    destruct (z <? -9223372036854775808) eqn:E1; [lia|].
    destruct (9223372036854775807 <? z) eqn:E2; [lia|].
    destruct (z <? - 9223372036854775807) eqn:E3; [lia|reflexivity]. }
  rewrite Hstep. set (st := step_of s) in *. clearbody st. clear Hstep Hs.
  f_equal. f_equal.
  - unfold spec_start, spec_bound, adjust1, clip, clamp, pos, SSIZE_MAX, SSIZE_MIN in *.
    destruct a as [z|].
    + destruct (z <? -9223372036854775808) eqn:E1; destruct (9223372036854775807 <? z) eqn:E2;
        destruct (0 <? st) eqn:E3; destruct (st <? 0) eqn:E4; destruct (z <? 0) eqn:E5; try lia;
        repeat match goal with |- context [if ?c then _ else _] => destruct c eqn:? end; lia.
    + destruct (0 <? st) eqn:E3; destruct (st <? 0) eqn:E4; try lia;
        repeat match goal with |- context [if ?c then _ else _] => destruct c eqn:? end; lia.
  - unfold spec_stop, spec_bound, adjust1, clip, clamp, pos, SSIZE_MAX, SSIZE_MIN in *.
    destruct b as [z|].
    + destruct (z <? -9223372036854775808) eqn:E1; destruct (9223372036854775807 <? z) eqn:E2;
        destruct (0 <? st) eqn:E3; destruct (st <? 0) eqn:E4; destruct (z <? 0) eqn:E5; try lia;
        repeat match goal with |- context [if ?c then _ else _] => destruct c eqn:? end; lia.
    + destruct (0 <? st) eqn:E3; destruct (st <? 0) eqn:E4; try lia;
        repeat match goal with |- context [if ?c then _ else _] => destruct c eqn:? end; lia.
Qed.

Lemma spec_bounds_up n st a b : 0 <= n -> 0 < st ->
  0 <= spec_start n st a <= n /\ 0 <= spec_stop n st b <= n.
Proof.
  intros Hn Hs. unfold spec_start, spec_stop, spec_bound, clamp, pos.
  destruct (0 <? st) eqn:E; [|lia]. destruct a, b; lia.
Qed.

Lemma spec_bounds_down n st a b : 0 <= n -> st < 0 ->
  -1 <= spec_start n st a <= n - 1 /\ -1 <= spec_stop n st b <= n - 1.
Proof.
  intros Hn Hs. unfold spec_start, spec_stop, spec_bound, clamp, pos.
  destruct (0 <? st) eqn:E; [lia|]. destruct a, b; lia.
Qed.

(** membership in np.arange *)
Lemma arange_In start stop step p :
  In p (arange start stop step) <-> exists j, 0 <= j < arange_len start stop step /\ p = start + j * step.
Proof.
  unfold arange. rewrite in_map_iff. split.
  - intros [j [<- Hj]]. apply seqZ_In in Hj. eauto.
  - intros [j [Hj ->]]. exists j. split; [reflexivity|]. now apply seqZ_In.
Qed.

Lemma arange_up n start stop step : 0 < step -> 0 <= start -> stop <= n ->
  arange start stop step = filter (selected start stop step) (seqZ n).
Proof.
  intros Hs H0 Hn.
  apply (SS_ext Z.lt); [lia| | |].
  - unfold arange. eapply SS_map; [|apply seqZ_sorted]. intros x y _ _ Hxy. nia.
  - apply SS_filter, seqZ_sorted.
  - intros p. rewrite arange_In, filter_In, seqZ_In. unfold selected, arange_len.
    destruct (0 <? step) eqn:E; [|lia]. split.
    + intros [j [Hj ->]]. destruct (start <? stop) eqn:E2; [|lia].
      assert (Hq : j <= (stop - start - 1) / step) by lia.
      assert (Hm : step * ((stop - start - 1) / step) <= stop - start - 1)
        by (apply Z.mul_div_le; lia).
      assert (j * step <= stop - start - 1) by nia.
      replace (start + j * step - start) with (j * step) by lia.
      rewrite Z.mod_mul by lia. split; [nia|]. 
      destruct (start <=? start + j * step) eqn:E3; [|nia].
      destruct (start + j * step <? stop) eqn:E4; [|nia]. reflexivity.
    + intros [Hp Hsel].
      destruct (start <=? p) eqn:E3; [|discriminate].
      destruct (p <? stop) eqn:E4; [|discriminate].
      cbn in Hsel. apply Z.eqb_eq in Hsel.
      exists ((p - start) / step). 
      pose proof (Z.div_mod (p - start) step ltac:(lia)) as Hdm. rewrite Hsel in Hdm.
      destruct (start <? stop) eqn:E2; [|lia].
      split; [|lia]. split; [apply Z.div_pos; lia|].
      assert ((p - start) / step <= (stop - start - 1) / step) by (apply Z.div_le_mono; lia).
      lia.
Qed.

Lemma arange_down n start stop step : step < 0 -> -1 <= stop -> start <= n - 1 ->
  arange start stop step = rev (filter (selected start stop step) (seqZ n)).
Proof.
  intros Hs H0 Hn.
  apply (SS_ext (fun x y => y < x)); [lia| | |].
  - unfold arange. eapply SS_map; [|apply seqZ_sorted]. intros x y _ _ Hxy. cbn. nia.
  - apply SS_rev, SS_filter, seqZ_sorted.
  - intros p. rewrite <- in_rev, arange_In, filter_In, seqZ_In. unfold selected, arange_len.
    destruct (0 <? step) eqn:E; [lia|]. split.
    + intros [j [Hj ->]]. destruct (stop <? start) eqn:E2; [|lia].
      assert (Hq : j <= (start - stop - 1) / (- step)) by lia.
      assert (Hm : (- step) * ((start - stop - 1) / (- step)) <= start - stop - 1)
        by (apply Z.mul_div_le; lia).
      assert (j * (- step) <= start - stop - 1) by nia.
      replace (start - (start + j * step)) with (j * (- step)) by lia.
      rewrite Z.mod_mul by lia. split; [nia|].
      destruct (stop <? start + j * step) eqn:E3; [|nia].
      destruct (start + j * step <=? start) eqn:E4; [|nia]. reflexivity.
    + intros [Hp Hsel].
      destruct (stop <? p) eqn:E3; [|discriminate].
      destruct (p <=? start) eqn:E4; [|discriminate].
      cbn in Hsel. apply Z.eqb_eq in Hsel.
      exists ((start - p) / (- step)).
      pose proof (Z.div_mod (start - p) (- step) ltac:(lia)) as Hdm. rewrite Hsel in Hdm.
      destruct (stop <? start) eqn:E2; [|lia].
      split; [|lia]. split; [apply Z.div_pos; lia|].
      assert ((start - p) / (- step) <= (start - stop - 1) / (- step)) by (apply Z.div_le_mono; lia).
      lia.
Qed.

(** slice.indices followed by np.arange = the positions the specification names, all in range *)
Lemma slice_positions n a b s :
  0 <= n <= SSIZE_MAX -> step_fits s = true -> step_of s <> 0 ->
  let '(start, stop, step) := slice_indices n a b s in
  arange start stop step = spec_slice_positions n a b (step_of s).
Proof.
  intros Hn Hs Hz. rewrite slice_indices_spec by assumption. unfold spec_slice_positions.
  destruct (0 <? step_of s) eqn:E.
  - pose proof (spec_bounds_up n (step_of s) a b ltac:(lia) ltac:(lia)) as [H1 H2].
    apply arange_up; lia.
  - pose proof (spec_bounds_down n (step_of s) a b ltac:(lia) ltac:(lia)) as [H1 H2].
    apply arange_down; lia.
Qed.

Lemma spec_slice_positions_range n a b st p :
  In p (spec_slice_positions n a b st) -> 0 <= p < n.
Proof.
  unfold spec_slice_positions. intros H.
  destruct (0 <? st); [|apply in_rev in H]; apply filter_In in H; destruct H as [H _]; now apply seqZ_In in H.
Qed.

(** the contiguous case: step 1 selects the interval [start, stop) *)
Lemma positions_step1 n start stop : 0 <= start -> stop <= n ->
  filter (selected start stop 1) (seqZ n) = map (fun j => start + j) (seqZ (stop - start)).
Proof.
  intros H0 Hn. rewrite <- (arange_up n start stop 1) by lia. unfold arange, arange_len. cbn [Z.ltb Z.compare].
  destruct (start <? stop) eqn:E.
  - rewrite Z.div_1_r. replace (stop - start - 1 + 1) with (stop - start) by lia.
    apply map_ext. intros j. lia.
  - replace (seqZ (stop - start)) with (@nil Z); [reflexivity|].
    unfold seqZ. replace (Z.to_nat (stop - start)) with 0%nat by lia. reflexivity.
Qed.
