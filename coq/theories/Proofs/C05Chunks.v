(** C05 -- chunk_slices(n, size): for size >= 1 the (clamped) slices, taken in order, cover
    [0, n) exactly once; size <= 0 is a ValueError. *)
From Coq Require Import ZArith List Bool Lia.
From GV Require Import Base.CSem Model.C05.
Import ListNotations.
Open Scope Z_scope.

(** consecutive slices starting at [start]: each begins where the previous one stopped, none is
    reversed, and the last one reaches [n] *)
Fixpoint chain (n start : Z) (sl : list (Z * Z)) : Prop :=
  match sl with
  | [] => n <= start
  | (a, b) :: rest => a = start /\ a <= b /\ chain n b rest
  end.

(** position [x] of a slice bound inside a list of length [n] *)
Definition pos (n : nat) (x : Z) : nat := Z.to_nat (clampZ 0 (Z.of_nat n) x).

Lemma pos_le n x : (pos n x <= n)%nat.
Proof. unfold pos, clampZ. lia. Qed.
Lemma pos_mono n x y : x <= y -> (pos n x <= pos n y)%nat.
Proof. unfold pos, clampZ. lia. Qed.
Lemma pos_0 n : pos n 0 = 0%nat.
Proof. unfold pos, clampZ. lia. Qed.
Lemma pos_ge n x : Z.of_nat n <= x -> pos n x = n.
Proof. unfold pos, clampZ. lia. Qed.

Lemma mv_slice_pos {A} (l : list A) a b :
  mv_slice l a b = firstn (pos (length l) b - pos (length l) a) (skipn (pos (length l) a) l).
Proof.
  unfold mv_slice, pos, mv_len. f_equal. unfold clampZ. lia.
Qed.

Lemma mv_slice_length {A} (l : list A) a b :
  length (mv_slice l a b) = (pos (length l) b - pos (length l) a)%nat.
Proof.
  rewrite mv_slice_pos, firstn_length, skipn_length.
  pose proof (pos_le (length l) b). lia.
Qed.

Lemma skipn_skipn' {A} (x : nat) : forall (y : nat) (l : list A), skipn x (skipn y l) = skipn (y + x) l.
Proof.
  induction y as [|y IH]; intros l; [reflexivity|]. destruct l as [|h t]; simpl; [now rewrite skipn_nil|]. apply IH.
Qed.

(** a slice followed by the rest of the list is the list from the slice's start on *)
Lemma mv_slice_skipn {A} (l : list A) a b : a <= b ->
  mv_slice l a b ++ skipn (pos (length l) b) l = skipn (pos (length l) a) l.
Proof.
  intros Hab. rewrite mv_slice_pos. pose proof (pos_mono (length l) a b Hab) as Hm.
  rewrite <- (firstn_skipn (pos (length l) b - pos (length l) a) (skipn (pos (length l) a) l)) at 2.
  f_equal. rewrite skipn_skipn'. f_equal. lia.
Qed.

Lemma chain_concat {A} (l : list A) : forall sl start,
  chain (mv_len l) start sl ->
  concat (map (fun p => mv_slice l (fst p) (snd p)) sl) = skipn (pos (length l) start) l.
Proof.
  induction sl as [|[a b] rest IH]; intros start H; simpl in H.
  - simpl. rewrite pos_ge by exact H. symmetry. apply skipn_all.
  - destruct H as [-> [Hab Hc]]. simpl. rewrite (IH b Hc). now apply mv_slice_skipn.
Qed.

Lemma chunk_slices_from_spec size : 0 < size -> forall fuel n start,
  (Z.to_nat (n - start) <= fuel)%nat ->
  exists sl, chunk_slices_from fuel n size start = POk sl /\ chain n start sl /\
             Forall (fun p => snd p = fst p + size /\ start <= fst p < n) sl.
Proof.
  intros Hs. induction fuel as [|f IH]; intros n start Hf; simpl.
  - destruct (start <? n) eqn:E; [apply Z.ltb_lt in E; lia|]. apply Z.ltb_ge in E.
    exists []. simpl. auto.
  - destruct (start <? n) eqn:E.
    + apply Z.ltb_lt in E. destruct (IH n (start + size) ltac:(lia)) as [sl [H1 [H2 H3]]].
      rewrite H1. cbn [pbind]. exists ((start, start + size) :: sl). split; [reflexivity|].
      split; [simpl; repeat split; [lia|exact H2]|].
      constructor; [simpl; lia|].
      eapply Forall_impl; [|exact H3]. intros p [Hp1 Hp2]. split; [exact Hp1|lia].
    + apply Z.ltb_ge in E. exists []. simpl. auto.
Qed.

(** the property of chunk_slices *)
Lemma C05_chunks_l n size :
  if size <=? 0 then chunk_slices n size = PErr PValueError
  else exists sl, chunk_slices n size = POk sl /\ chain n 0 sl /\
         Forall (fun p => snd p = fst p + size /\ 0 <= fst p < n) sl /\
         forall (A : Type) (l : list A), mv_len l = n ->
           concat (map (fun p => mv_slice l (fst p) (snd p)) sl) = l.
Proof.
  unfold chunk_slices. destruct (size <=? 0) eqn:E; [reflexivity|]. apply Z.leb_gt in E.
  destruct (chunk_slices_from_spec size E (Z.to_nat n) n 0 ltac:(lia)) as [sl [H1 [H2 H3]]].
  exists sl. repeat split; try assumption.
  intros A l Hl. subst n. rewrite (chain_concat l sl 0 H2). now rewrite pos_0.
Qed.

Example C05_chunks_ex : chunk_slices 7 3 = POk [(0, 3); (3, 6); (6, 9)].
Proof. reflexivity. Qed.
Example C05_chunks_ex0 : chunk_slices 0 3 = POk [] /\ chunk_slices 5 0 = PErr PValueError.
Proof. split; reflexivity. Qed.
