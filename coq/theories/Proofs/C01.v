(** C01: the model of calc_signature returns the strictly increasing enumeration of the set of
    prefix-anchored k-mers on both strands, in the smallest unsigned type, for either accumulator. *)
From Coq Require Import ZArith List Bool Lia ZifyBool ZifyNat Sorting.Sorted.
From GV Require Import Base.CSem Gen.KmersPyx Spec.Kmers Spec.C01 Model.C01
  Proofs.KmersEnc Proofs.KmersRc Proofs.KmersDec Proofs.KmersSpec Proofs.C01Defs Proofs.C01Strand
  Proofs.C01Assemble Proofs.C01Find Proofs.C01Acc.
Import ListNotations.
Open Scope Z_scope.

(** the matches found in one sequence *)
Lemma find_kmers_spec k p s :
  (1 <= k)%nat -> p <> [] -> acgt p ->
  find_kmers (Z.of_nat k) p s =
    Ok (map (fun q => (Z.of_nat q, false)) (filter (fwd_ok (haystack s) p k) (seq 0 (S (length s)))) ++
        map (fun loc => (Z.of_nat loc + mv_len p - 1, true))
            (filter (rev_ok (haystack s) (spec_revcomp p) k) (seq 0 (S (length s))))).
Proof.
  intros Hk Hne Hp. unfold find_kmers.
  rewrite <- (haystack_length s).
  rewrite fwd_loop_spec by assumption.
  rewrite revcomp_spec.
  assert (Hl : mv_len p = mv_len (spec_revcomp p)) by (unfold mv_len; now rewrite spec_revcomp_length).
  rewrite Hl.
  rewrite rev_loop_spec.
  - reflexivity.
  - intros E. apply (f_equal (@length Z)) in E. rewrite spec_revcomp_length in E.
    destruct p; [congruence|discriminate].
Qed.

Lemma kmer_indices_app k p s a : forall b la lb,
  kmer_indices k p s a = Ok la -> kmer_indices k p s b = Ok lb ->
  kmer_indices k p s (a ++ b) = Ok (la ++ lb).
Proof.
  induction a as [|m a IH]; intros b la lb Ha Hb.
  - inversion Ha; subst. exact Hb.
  - cbn [app kmer_indices] in *.
    destruct (kmer_index k p s m) as [[v|]|e] eqn:Em.
    + destruct (kmer_indices k p s a) as [l|e] eqn:Ea; [|discriminate]. inversion Ha; subst.
      rewrite (IH b l lb eq_refl Hb). reflexivity.
    + destruct (kmer_indices k p s a) as [l|e] eqn:Ea; [|discriminate]. inversion Ha; subst.
      rewrite (IH b la lb eq_refl Hb). reflexivity.
    + discriminate.
Qed.

(** one sequence: the model's index list has exactly the elements of the specification's list *)
Lemma seq_indices_spec k p s :
  (1 <= k)%nat -> bytes s -> p <> [] -> acgt p ->
  exists l, seq_indices (Z.of_nat k) p s = Ok l /\ forall v, In v l <-> In v (seq_kmers k p s).
Proof.
  intros Hk Hs Hne Hp. unfold seq_indices. rewrite find_kmers_spec by assumption.
  assert (Hp1 : (1 <= length p)%nat) by (destruct p; [congruence|simpl; lia]).
  eexists. split.
  - apply kmer_indices_app.
    + apply kmer_indices_fwd; assumption.
    + assert (Hl : mv_len p = mv_len (spec_revcomp p)) by (unfold mv_len; now rewrite spec_revcomp_length).
      rewrite Hl. apply kmer_indices_rev; [assumption|assumption|apply spec_revcomp_length].
  - intros v. unfold seq_kmers. rewrite !in_app_iff, <- fwd_kmers_alt.
    rewrite rev_kmers_In by assumption. reflexivity.
Qed.

Lemma all_indices_spec k p seqs :
  (1 <= k)%nat -> Forall bytes seqs -> p <> [] -> acgt p ->
  exists l, all_indices (Z.of_nat k) p seqs = Ok l /\ forall v, In v l <-> In v (all_kmers k p seqs).
Proof.
  intros Hk Hs Hne Hp. induction Hs as [|s t Hs Ht IH].
  - exists []. split; [reflexivity|]. simpl. tauto.
  - destruct IH as [lt [Et Ht']]. destruct (seq_indices_spec k p s Hk Hs Hne Hp) as [ls [Es Hs']].
    exists (ls ++ lt). split.
    + cbn [all_indices]. rewrite Es, Et. reflexivity.
    + intros v. unfold all_kmers. cbn [flat_map]. rewrite !in_app_iff, Hs', Ht'. reflexivity.
Qed.

(** every k-mer index is in [0, 4^k) *)
Lemma fwd_kmers_range k p s v : In v (fwd_kmers k p s) -> 0 <= v < 4 ^ Z.of_nat k.
Proof.
  rewrite fwd_kmers_alt, in_flat_map. intros [q [_ H]].
  destruct (occurs_at k p s q) eqn:E; [|destruct H].
  apply In_opt_list in H. apply spec_encode_range in H.
  unfold occurs_at in E. rewrite slice_length in H by lia. exact H.
Qed.

Lemma all_kmers_range k p seqs v : In v (all_kmers k p seqs) -> 0 <= v < 4 ^ Z.of_nat k.
Proof.
  unfold all_kmers, seq_kmers. rewrite in_flat_map. intros [s [_ H]].
  apply in_app_iff in H. destruct H as [H|H]; eapply fwd_kmers_range; eauto.
Qed.

Theorem C01_signature_l dense k p seqs :
  (1 <= k)%nat -> p <> [] -> acgt p -> Forall bytes seqs ->
  calc_signature dense (Z.of_nat k) p seqs = Ok (signature_spec k p seqs, dtype_spec k).
Proof.
  intros Hk Hne Hp Hs. unfold calc_signature.
  destruct (all_indices_spec k p seqs Hk Hs Hne Hp) as [l [El Hl]]. rewrite El.
  rewrite index_dtype_spec by assumption.
  assert (Hsd : sort_dedup l = signature_spec k p seqs) by (apply sort_dedup_ext; exact Hl).
  destruct dense.
  - rewrite dense_eq_set; [now rewrite Hsd | lia |].
    apply Forall_forall. intros v Hv. apply Hl in Hv. eapply all_kmers_range; eauto.
  - unfold set_signature. now rewrite Hsd.
Qed.

Theorem C01_sorted_l k p seqs :
  StronglySorted Z.lt (signature_spec k p seqs) /\
  (forall v, In v (signature_spec k p seqs) <-> In v (all_kmers k p seqs)) /\
  (forall v, In v (signature_spec k p seqs) -> 0 <= v < 4 ^ Z.of_nat k).
Proof.
  unfold signature_spec. split; [apply sort_dedup_sorted|]. split.
  - intros v. apply sort_dedup_In.
  - intros v Hv. apply (proj1 (sort_dedup_In _ _)) in Hv. exact (all_kmers_range k p seqs v Hv).
Qed.

(** membership in the specification set, spelled out: v is the index of the k bytes following an
    occurrence (ignoring case) of the prefix at some offset q of some sequence or of its reverse
    complement, those k bytes being nucleotides *)
Theorem C01_membership_l k p seqs v :
  In v (all_kmers k p seqs) <->
  exists s t q, In s seqs /\ (t = s \/ t = spec_revcomp s) /\
    (q + length p + k <= length t)%nat /\
    map upper (slice t q (length p)) = p /\
    spec_encode (slice t (q + length p) k) = Some v.
Proof.
  unfold all_kmers, seq_kmers. rewrite in_flat_map. split.
  - intros [s [Hs H]]. apply in_app_iff in H.
    assert (Hone : forall t, In v (fwd_kmers k p t) ->
              exists q, (q + length p + k <= length t)%nat /\ map upper (slice t q (length p)) = p /\
                        spec_encode (slice t (q + length p) k) = Some v).
    { intros t Ht. rewrite fwd_kmers_alt, in_flat_map in Ht. destruct Ht as [q [_ Hq]].
      destruct (occurs_at k p t q) eqn:E; [|destruct Hq].
      apply In_opt_list in Hq. unfold occurs_at in E. apply andb_true_iff in E. destruct E as [E1 E2].
      apply eq_list_iff in E2. exists q. repeat split; [lia|assumption|assumption]. }
    destruct H as [H|H]; destruct (Hone _ H) as [q [H1 [H2 H3]]].
    + exists s, s, q. repeat split; auto.
    + exists s, (spec_revcomp s), q. repeat split; auto.
  - intros [s [t [q [Hs [Ht [H1 [H2 H3]]]]]]]. exists s. split; [assumption|].
    apply in_app_iff.
    assert (Hin : In v (fwd_kmers k p t)).
    { rewrite fwd_kmers_alt, in_flat_map. exists q. split; [apply in_seq; lia|].
      assert (occurs_at k p t q = true) as ->.
      { unfold occurs_at. apply andb_true_iff. split; [lia|]. now apply eq_list_iff. }
      now apply In_opt_list. }
    destruct Ht as [->| ->]; [now left|now right].
Qed.

(** non-vacuity *)
Example C01_ex :
  calc_signature false 2 [65; 84] [[65; 84; 71; 67; 110; 65; 116; 99; 99]; [71; 67; 65; 84]] =
    Ok ([5; 9], Some 1)
  /\ signature_spec 2 [65; 84] [[65; 84; 71; 67; 110; 65; 116; 99; 99]; [71; 67; 65; 84]] = [5; 9].
Proof. vm_compute. split; reflexivity. Qed.
