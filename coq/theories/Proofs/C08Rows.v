(** C08, part 2: the rows of a query are [map row_of] of the inputs -- proved through the matrix the
    code really builds (np.empty, chunk by chunk, row by row) and the index-based read-back. *)
From Coq Require Import ZArith List Bool Lia Permutation.
From GV Require Import Model.C08 Spec.C08.
Import ListNotations.
Open Scope Z_scope.

Lemma skipn_repeat : forall {X} (x : X) m k, skipn k (repeat x m) = repeat x (m - k).
Proof.
  intros X x m. induction m as [|m IH]; intros k.
  - destruct k; reflexivity.
  - destruct k as [|k]; [reflexivity|]. cbn [repeat skipn]. rewrite IH. reflexivity.
Qed.

Lemma firstn_repeat : forall {X} (x : X) m k, firstn k (repeat x m) = repeat x (min k m).
Proof.
  intros X x m. induction m as [|m IH]; intros k.
  - destruct k; reflexivity.
  - destruct k as [|k]; [reflexivity|]. cbn [repeat firstn min]. rewrite IH. reflexivity.
Qed.

Lemma firstn_plus : forall {X} (l : list X) a b, firstn (a + b) l = firstn a l ++ firstn b (skipn a l).
Proof.
  intros X l a. revert l. induction a as [|a IH]; intros l b.
  - reflexivity.
  - destruct l as [|x l]; cbn [plus firstn skipn app].
    + rewrite firstn_nil. reflexivity.
    + rewrite IH. reflexivity.
Qed.

Lemma all_some_map_Some : forall {X} (l : list X), all_some (map Some l) = Some l.
Proof.
  intros X l. induction l as [|x l IH]; [reflexivity|]. cbn. rewrite IH. reflexivity.
Qed.

Section QueryProofs.
  Variables Q R D C : Type.
  Variable dist : Q -> R -> D.
  Variable content : list D -> C.
  Variable refs : list R.

  Notation n := (length refs).
  Notation cell := (option D).

  (** the row of query [q] once the references before [s] have been processed *)
  Definition row_at (q : Q) (s : nat) : list cell :=
    map Some (map (dist q) (firstn s refs)) ++ repeat None (n - s).

  Definition mat_at (qs : list Q) (s : nat) : list (list cell) := map (fun q => row_at q s) qs.

  Lemma row_at_full : forall q, row_at q n = map Some (map (dist q) refs).
  Proof.
    intros q. unfold row_at. rewrite firstn_all, Nat.sub_diag. cbn. apply app_nil_r.
  Qed.

  Lemma mat_at_0 : forall qs, repeat (repeat (@None D) n) (length qs) = mat_at qs 0.
  Proof.
    intros qs. induction qs as [|q qs IH]; [reflexivity|].
    cbn [length repeat mat_at map]. unfold mat_at in IH. rewrite IH. f_equal.
    unfold row_at. cbn. rewrite Nat.sub_0_r. reflexivity.
  Qed.

  (** writing [vals] over the first cells of the unwritten part of a row *)
  Lemma write_slice_gen : forall (a : list cell) start stop m (vals : list D),
    length a = start -> length vals = min (stop - start) m ->
    write_slice D (a ++ repeat None m) start stop vals
      = QOk (a ++ map Some vals ++ repeat None (m - length vals)).
  Proof.
    intros a start stop m vals Ha Hv. subst start. unfold write_slice.
    rewrite skipn_app, Nat.sub_diag, skipn_all. cbn [app skipn].
    rewrite firstn_repeat, repeat_length.
    rewrite Hv, Nat.eqb_refl.
    rewrite firstn_app, Nat.sub_diag, firstn_all. cbn [firstn]. rewrite app_nil_r.
    rewrite skipn_app.
    replace (skipn (length a + min (stop - length a) m) a) with (@nil cell)
      by (symmetry; apply skipn_all2; lia).
    replace (length a + min (stop - length a) m - length a)%nat with (min (stop - length a) m) by lia.
    rewrite skipn_repeat. reflexivity.
  Qed.

  (** one [jaccarddist_array(query, ref_chunk, out=out[i, ref_slice])] advances the row *)
  Lemma write_slice_row_at : forall q start stop,
    (start <= n)%nat -> (start <= stop)%nat ->
    write_slice D (row_at q start) start stop (map (dist q) (firstn (stop - start) (skipn start refs)))
      = QOk (row_at q (min stop n)).
  Proof.
    intros q start stop Hs Hst. unfold row_at at 1.
    rewrite write_slice_gen.
    - f_equal. unfold row_at.
      rewrite map_length, firstn_length, skipn_length.
      replace (min stop n) with (start + min (stop - start) (n - start))%nat at 1 by lia.
      rewrite firstn_plus. rewrite !map_app, <- app_assoc.
      f_equal. f_equal.
      + f_equal. f_equal.
        (* firstn (min a (len l)) l = firstn a l *)
        set (l := skipn start refs). assert (Hl : length l = (n - start)%nat) by (unfold l; apply skipn_length).
        rewrite <- Hl.
        destruct (Nat.le_ge_cases (stop - start) (length l)) as [H|H].
        * rewrite Nat.min_l by exact H. reflexivity.
        * rewrite Nat.min_r by exact H. rewrite firstn_all. apply (firstn_all2 l H).
      + f_equal. lia.
    - rewrite !map_length, firstn_length. lia.
    - rewrite map_length, firstn_length, skipn_length. reflexivity.
  Qed.

  Lemma update_row_app : forall (pre : list (list cell)) r suf f,
    update_row D (pre ++ r :: suf) (length pre) f
      = match f r with QOk r' => QOk (pre ++ r' :: suf) | QErr e => QErr e end.
  Proof.
    intros pre. induction pre as [|p pre IH]; intros r suf f.
    - cbn. reflexivity.
    - cbn [app length update_row]. rewrite IH. destruct (f r); reflexivity.
  Qed.

  (** the inner loop over [enumerate(queries)] rewrites row i for query i, and only that one *)
  Lemma fill_rows_map : forall (f0 f1 : Q -> list cell) start stop chunk,
    (forall q, write_slice D (f0 q) start stop (map (dist q) chunk) = QOk (f1 q)) ->
    forall qs pre,
    fill_rows Q R D dist (enumerate_from (length pre) qs) start stop chunk (pre ++ map f0 qs)
      = QOk (pre ++ map f1 qs).
  Proof.
    intros f0 f1 start stop chunk Hw qs. induction qs as [|q qs IH]; intros pre.
    - reflexivity.
    - cbn [enumerate_from map fill_rows]. rewrite update_row_app, Hw.
      specialize (IH (pre ++ [f1 q])).
      rewrite app_length, <- !app_assoc in IH. cbn [length app] in IH.
      rewrite Nat.add_1_r in IH. exact IH.
  Qed.

  Lemma fill_one_chunk : forall qs start stop,
    (start <= n)%nat -> (start <= stop)%nat ->
    fill_rows Q R D dist (enumerate qs) start stop (firstn (stop - start) (skipn start refs)) (mat_at qs start)
      = QOk (mat_at qs (min stop n)).
  Proof.
    intros qs start stop Hs Hst. unfold enumerate, mat_at.
    apply (fill_rows_map (fun q => row_at q start) (fun q => row_at q (min stop n)) start stop _
             (fun q => write_slice_row_at q start stop Hs Hst) qs []).
  Qed.

  (** the while loop of chunk_slices ends within its fuel and its slices, processed in order, take
      the matrix from "references before [start] done" to "all done" *)
  Lemma chunks_fill : forall qs size, (0 < size)%nat ->
    forall fuel start, (n - start <= fuel)%nat ->
    exists sl, chunk_slices_loop fuel start n size = QOk sl /\
               fill_chunks Q R D dist refs sl qs (mat_at qs (min start n)) = QOk (mat_at qs n).
  Proof.
    intros qs size Hsz fuel. induction fuel as [|f IH]; intros start Hf.
    - cbn [chunk_slices_loop]. destruct (start <? n)%nat eqn:E.
      + apply Nat.ltb_lt in E. lia.
      + apply Nat.ltb_ge in E. exists []. split; [reflexivity|]. cbn. rewrite Nat.min_r by exact E. reflexivity.
    - cbn [chunk_slices_loop]. destruct (start <? n)%nat eqn:E.
      + apply Nat.ltb_lt in E.
        destruct (IH (start + size)%nat) as [sl [H1 H2]]; [lia|].
        rewrite H1. eexists. split; [reflexivity|].
        cbn [fill_chunks]. rewrite Nat.min_l by lia.
        replace (start + size - start)%nat with ((start + size) - start)%nat by reflexivity.
        rewrite fill_one_chunk by lia. exact H2.
      + apply Nat.ltb_ge in E. exists []. split; [reflexivity|]. cbn. rewrite Nat.min_r by exact E. reflexivity.
  Qed.

  (** the matrix is complete and cell (i, j) is dist(query i, ref j), for every chunk size *)
  Lemma jaccarddist_matrix_spec : forall qs cs,
    chunk_ok cs = true ->
    jaccarddist_matrix Q R D dist refs qs cs = QOk (mat_at qs n).
  Proof.
    intros qs cs Hcs. unfold jaccarddist_matrix. rewrite mat_at_0.
    destruct cs as [c|].
    - cbn in Hcs. apply Z.ltb_lt in Hcs. unfold chunk_slices.
      destruct (c <=? 0) eqn:E; [apply Z.leb_le in E; lia|].
      destruct (chunks_fill qs (Z.to_nat c) ltac:(lia) n 0%nat ltac:(lia)) as [sl [H1 H2]].
      rewrite H1. cbn [min] in H2. exact H2.
    - cbn [fill_chunks]. rewrite Nat.sub_0_r. change (skipn 0 refs) with refs.
      pose proof (fill_one_chunk qs 0 n ltac:(lia) ltac:(lia)) as H.
      rewrite Nat.sub_0_r in H. change (skipn 0 refs) with refs in H. rewrite H.
      rewrite Nat.min_id. reflexivity.
  Qed.

  Lemma jaccarddist_matrix_bad_chunk : forall qs c, c <= 0 ->
    jaccarddist_matrix Q R D dist refs qs (Some c) = QErr BadChunkSize.
  Proof.
    intros qs c Hc. unfold jaccarddist_matrix, chunk_slices.
    destruct (c <=? 0) eqn:E; [reflexivity|]. apply Z.leb_gt in E. lia.
  Qed.

  (** reading the rows back by index pairs input i with the distances of query i *)
  Lemma items_loop_spec : forall I (qs : list Q) (ins : list I) pre,
    length ins = length qs ->
    items_loop D C content (mat_at (pre ++ qs) n) (enumerate_from (length pre) ins)
      = QOk (rows_spec Q R D C I dist content refs ins qs).
  Proof.
    intros I qs. induction qs as [|q qs IH]; intros ins pre Hlen.
    - destruct ins; [reflexivity|discriminate].
    - destruct ins as [|i ins]; [discriminate|]. cbn in Hlen.
      cbn [enumerate_from items_loop]. unfold read_row, mat_at.
      rewrite map_app. rewrite nth_error_app2 by (rewrite map_length; lia).
      rewrite map_length, Nat.sub_diag. cbn [map nth_error].
      rewrite row_at_full, all_some_map_Some.
      specialize (IH ins (pre ++ [q]) ltac:(lia)).
      rewrite app_length, <- app_assoc in IH. cbn [length app] in IH. rewrite Nat.add_1_r in IH.
      unfold mat_at in IH. rewrite map_app in IH. cbn [map] in IH.
      rewrite row_at_full in IH. rewrite IH. reflexivity.
  Qed.

  (** [query]: complete description of its outcome *)
  Lemma query_total_l : forall I cs (queries : list Q) (inputs : list I),
    query Q R D C dist content refs cs queries inputs =
      if is_empty queries then QErr NoQueries
      else if negb (length inputs =? length queries)%nat then QErr InputsMismatch
      else if chunk_ok cs then QOk (rows_spec Q R D C I dist content refs inputs queries)
      else QErr BadChunkSize.
  Proof.
    intros I cs queries inputs. unfold query.
    destruct queries as [|q0 qs]; [reflexivity|].
    cbn [length Nat.eqb is_empty].
    destruct (length inputs =? S (length qs))%nat eqn:E; cbn [negb]; [|reflexivity].
    apply Nat.eqb_eq in E.
    destruct (chunk_ok cs) eqn:Hcs.
    - rewrite jaccarddist_matrix_spec by exact Hcs.
      apply (items_loop_spec I (q0 :: qs) inputs []). exact E.
    - destruct cs as [c|]; [|discriminate]. cbn in Hcs. apply Z.ltb_ge in Hcs.
      rewrite jaccarddist_matrix_bad_chunk by exact Hcs. reflexivity.
  Qed.

  Lemma query_rows_l : forall I cs (queries : list Q) (inputs : list I),
    chunk_ok cs = true -> queries <> [] -> length inputs = length queries ->
    query Q R D C dist content refs cs queries inputs
      = QOk (map (row_of Q R D C I dist content refs) (combine inputs queries)).
  Proof.
    intros I cs queries inputs Hcs Hne Hlen. rewrite query_total_l.
    destruct queries; [congruence|]. cbn [is_empty].
    rewrite Hlen, Nat.eqb_refl, Hcs. reflexivity.
  Qed.
End QueryProofs.
