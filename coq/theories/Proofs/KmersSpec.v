(** Specification-level facts about the base-4 code and the reverse complement. *)
From Coq Require Import ZArith List Bool Lia ZifyBool.
From GV Require Import Spec.Kmers Proofs.KmersEnc.
Import ListNotations.
Open Scope Z_scope.

Ltac zeqb_cases :=
  repeat match goal with
         | |- context [?x =? ?y] => destruct (Z.eqb_spec x y); try lia
         end; try lia.

Lemma comp_invol b : comp (comp b) = b.
Proof.
  unfold comp.
  repeat match goal with
         | |- context [b =? ?y] => destruct (Z.eqb_spec b y) as [->|?]; [reflexivity|]
         end.
  repeat match goal with
         | |- context [b =? ?y] => destruct (Z.eqb_spec b y); [lia|]
         end.
  reflexivity.
Qed.

Lemma comp_fix b : ~ In b [65; 67; 71; 84; 97; 99; 103; 116] -> comp b = b.
Proof. intros H. simpl in H. unfold comp. zeqb_cases; exfalso; apply H; lia. Qed.

Lemma comp_table :
  comp 65 = 84 /\ comp 84 = 65 /\ comp 67 = 71 /\ comp 71 = 67 /\
  comp 97 = 116 /\ comp 116 = 97 /\ comp 99 = 103 /\ comp 103 = 99.
Proof. repeat split. Qed.

Lemma code_None_iff b : code b = None <-> ~ In b [65; 67; 71; 84; 97; 99; 103; 116].
Proof.
  unfold code. simpl. split.
  - intros H [E|[E|[E|[E|[E|[E|[E|[E|[]]]]]]]]]; subst; discriminate.
  - intros H.
    destruct ((b =? 65) || (b =? 97)) eqn:E1; [exfalso; apply H; lia|].
    destruct ((b =? 67) || (b =? 99)) eqn:E2; [exfalso; apply H; lia|].
    destruct ((b =? 71) || (b =? 103)) eqn:E3; [exfalso; apply H; lia|].
    destruct ((b =? 84) || (b =? 116)) eqn:E4; [exfalso; apply H; lia|].
    reflexivity.
Qed.

Lemma spec_revcomp_invol s : spec_revcomp (spec_revcomp s) = s.
Proof.
  unfold spec_revcomp. rewrite map_rev, rev_involutive, map_map.
  rewrite (map_ext _ (fun x => x)) by apply comp_invol. apply map_id.
Qed.

Lemma spec_revcomp_length s : length (spec_revcomp s) = length s.
Proof. unfold spec_revcomp. now rewrite rev_length, map_length. Qed.

Lemma spec_revcomp_nth s i d :
  (i < length s)%nat -> nth i (spec_revcomp s) (comp d) = comp (nth (length s - 1 - i) s d).
Proof.
  intros Hi. unfold spec_revcomp. rewrite rev_nth by (rewrite map_length; lia).
  rewrite map_length, map_nth. f_equal. f_equal. lia.
Qed.

(** * case *)
Lemma code_lower b : code (lower b) = code b.
Proof. unfold code, lower. destruct ((65 <=? b) && (b <=? 90)) eqn:E; zeqb_cases; reflexivity. Qed.
Lemma code_upper b : code (upper b) = code b.
Proof. unfold code, upper. destruct ((97 <=? b) && (b <=? 122)) eqn:E; zeqb_cases; reflexivity. Qed.

Lemma codes_map_ext f w : (forall b, code (f b) = code b) -> codes (map f w) = codes w.
Proof. intros H. induction w as [|b t IH]; simpl; [reflexivity|]. now rewrite H, IH. Qed.

Lemma spec_encode_lower w : spec_encode (map lower w) = spec_encode w.
Proof. unfold spec_encode. now rewrite map_length, (codes_map_ext lower w code_lower). Qed.
Lemma spec_encode_upper w : spec_encode (map upper w) = spec_encode w.
Proof. unfold spec_encode. now rewrite map_length, (codes_map_ext upper w code_upper). Qed.

Lemma upper_byte b : 0 <= b < 256 -> 0 <= upper b < 256.
Proof. unfold upper. intros. destruct (_ && _) eqn:E; lia. Qed.
Lemma lower_byte b : 0 <= b < 256 -> 0 <= lower b < 256.
Proof. unfold lower. intros. destruct (_ && _) eqn:E; lia. Qed.

Lemma letter_code d : 0 <= d <= 3 -> code (letter d) = Some d.
Proof.
  intros H. assert (d = 0 \/ d = 1 \/ d = 2 \/ d = 3) as [->|[->|[->| ->]]] by lia; reflexivity.
Qed.

Lemma code_letter b c : code b = Some c -> letter c = upper b.
Proof.
  unfold code, letter, upper.
  destruct ((b =? 65) || (b =? 97)) eqn:E1; [intros H; inversion H; subst; simpl;
    destruct ((97 <=? b) && (b <=? 122)) eqn:E; lia|].
  destruct ((b =? 67) || (b =? 99)) eqn:E2; [intros H; inversion H; subst; simpl;
    destruct ((97 <=? b) && (b <=? 122)) eqn:E; lia|].
  destruct ((b =? 71) || (b =? 103)) eqn:E3; [intros H; inversion H; subst; simpl;
    destruct ((97 <=? b) && (b <=? 122)) eqn:E; lia|].
  destruct ((b =? 84) || (b =? 116)) eqn:E4; [intros H; inversion H; subst; simpl;
    destruct ((97 <=? b) && (b <=? 122)) eqn:E; lia|].
  discriminate.
Qed.

Lemma letter_ACGT d : is_ACGT (letter d) = true.
Proof.
  unfold letter, is_ACGT.
  destruct (d =? 0); [reflexivity|]. destruct (d =? 1); [reflexivity|].
  destruct (d =? 2); reflexivity.
Qed.

(** * decode *)
Lemma spec_decode_S k idx :
  spec_decode (S k) idx = letter ((idx / 4 ^ Z.of_nat k) mod 4) :: spec_decode k idx.
Proof.
  unfold spec_decode. rewrite <- cons_seq, <- seq_shift. cbn [map]. rewrite map_map.
  f_equal.
  - unfold digit_at. repeat f_equal. lia.
  - apply map_ext. intros i. unfold digit_at.
    replace (S k - 1 - S i)%nat with (k - 1 - i)%nat by lia. reflexivity.
Qed.

Lemma spec_decode_length k idx : length (spec_decode k idx) = k.
Proof. unfold spec_decode. now rewrite map_length, seq_length. Qed.

Lemma spec_decode_ACGT k idx : Forall (fun b => is_ACGT b = true) (spec_decode k idx).
Proof.
  unfold spec_decode. apply Forall_forall. intros x Hx. apply in_map_iff in Hx.
  destruct Hx as [i [<- _]]. apply letter_ACGT.
Qed.

Lemma codes_decode k : forall idx, 0 <= idx ->
  exists ds, codes (spec_decode k idx) = Some ds /\ pos_value ds = idx mod 4 ^ Z.of_nat k /\ length ds = k.
Proof.
  induction k as [|k IH]; intros idx Hidx.
  - exists []. simpl. split; [reflexivity|]. split; [now rewrite Z.mod_1_r|reflexivity].
  - destruct (IH idx Hidx) as [ds [Hc [Hv Hl]]].
    rewrite spec_decode_S. cbn [codes].
    assert (Hd : 0 <= (idx / 4 ^ Z.of_nat k) mod 4 < 4) by (apply Z.mod_pos_bound; lia).
    rewrite letter_code by lia. rewrite Hc.
    eexists. split; [reflexivity|]. split; [|simpl; congruence].
    cbn [pos_value]. rewrite Hl, Hv, pow4_S.
    pose proof (pow4_pos k).
    rewrite (Z.mul_comm 4), Z.rem_mul_r by lia. ring.
Qed.

Theorem encode_decode k idx :
  (k <= 32)%nat -> 0 <= idx < 4 ^ Z.of_nat k -> spec_encode (spec_decode k idx) = Some idx.
Proof.
  intros Hk Hidx. unfold spec_encode. rewrite spec_decode_length.
  assert (Z.of_nat k <=? 32 = true) as -> by lia.
  destruct (codes_decode k idx) as [ds [Hc [Hv _]]]; [lia|].
  rewrite Hc, Hv. now rewrite Z.mod_small.
Qed.

Lemma digit_shift c n r j :
  0 <= j < n -> 0 <= r -> ((c * 4 ^ n + r) / 4 ^ j) mod 4 = (r / 4 ^ j) mod 4.
Proof.
  intros Hj Hr.
  assert (H4j : 0 < 4 ^ j) by (apply Z.pow_pos_nonneg; lia).
  replace (4 ^ n) with (4 ^ (n - j - 1) * 4 * 4 ^ j).
  2:{ replace n with ((n - j - 1) + 1 + j) at 2 by lia.
      rewrite !Z.pow_add_r by lia. change (4 ^ 1) with 4. ring. }
  replace (c * (4 ^ (n - j - 1) * 4 * 4 ^ j) + r) with ((c * 4 ^ (n - j - 1) * 4) * 4 ^ j + r) by ring.
  rewrite Z.div_add_l by lia.
  rewrite Z.add_comm, Z_mod_plus_full. reflexivity.
Qed.

Lemma spec_decode_low c n r :
  0 <= r -> spec_decode n (c * 4 ^ Z.of_nat n + r) = spec_decode n r.
Proof.
  intros Hr. unfold spec_decode. apply map_ext_in. intros i Hi. apply in_seq in Hi.
  unfold digit_at. f_equal. apply digit_shift; lia.
Qed.

Theorem decode_encode w ds :
  codes w = Some ds -> spec_decode (length w) (pos_value ds) = map upper w.
Proof.
  revert ds. induction w as [|b t IH]; intros ds H.
  - reflexivity.
  - cbn [codes] in H. destruct (code b) as [c|] eqn:Ec; [|discriminate].
    destruct (codes t) as [cs|] eqn:Et; [|discriminate]. inversion H; subst. clear H.
    destruct (codes_range _ _ Et) as [Hr Hl].
    pose proof (pos_value_bound cs Hr) as Hb. rewrite Hl in Hb.
    pose proof (code_range _ _ Ec) as Hc.
    cbn [length map]. rewrite spec_decode_S. cbn [pos_value]. rewrite Hl.
    f_equal.
    + rewrite Z.div_add_l by lia. rewrite Z.div_small by lia.
      rewrite Z.add_0_r, Z.mod_small by lia. now apply code_letter.
    + rewrite spec_decode_low by lia. now apply IH.
Qed.

Lemma spec_encode_range w v :
  spec_encode w = Some v -> 0 <= v < 4 ^ Z.of_nat (length w).
Proof.
  unfold spec_encode. destruct (_ <=? 32); [|discriminate].
  destruct (codes w) as [ds|] eqn:E; [|discriminate]. intros H; inversion H; subst.
  destruct (codes_range _ _ E) as [Hr Hl]. rewrite <- Hl. now apply pos_value_bound.
Qed.

Lemma spec_encode_None_iff w :
  spec_encode w = None <-> (32 < length w)%nat \/ exists b, In b w /\ code b = None.
Proof.
  unfold spec_encode. destruct (Z.of_nat (length w) <=? 32) eqn:E.
  - assert (Hc : codes w = None <-> exists b, In b w /\ code b = None).
    { clear E. induction w as [|b t IH]; simpl.
      - split; [discriminate|]. intros [b [[] _]].
      - destruct (code b) eqn:Eb.
        + destruct (codes t) eqn:Et.
          * split; [discriminate|]. intros [x [[<-|Hx] Hn]]; [congruence|].
            destruct IH as [_ IH]. assert (Some l = None) by (apply IH; eauto). discriminate.
          * split; [|reflexivity]. intros _. destruct IH as [IH _].
            destruct (IH eq_refl) as [x [Hx Hn]]. eauto.
        + split; [|reflexivity]. intros _. exists b. auto. }
    destruct (codes w) eqn:Ew.
    + split; [discriminate|]. intros [H|H]; [lia|]. apply Hc in H. discriminate.
    + split; [|reflexivity]. intros _. right. now apply Hc.
  - split; [|reflexivity]. intros _. left. lia.
Qed.
