(** C10 -- matching_taxon, find_matches and the strict branch of classify. *)
From Coq Require Import List Bool Arith Lia Permutation.
From GV Require Import Base.CSem Spec.C10 Model.C10 Proofs.C10Paths Proofs.C10.
Import ListNotations.
Local Open Scope nat_scope.

(** ---- matching_taxon ---- *)

Lemma first_match_spec : forall n (lin : lineage) d, n <= length lin ->
  match first_match (ancestors_n n lin) d with
  | Some t => exists k, 1 <= k /\ k <= n /\ covers d (last_thr (firstn k lin)) = true /\
                        t = map fst (firstn k lin) /\
                        forall j, k < j -> j <= n -> covers d (last_thr (firstn j lin)) = false
  | None => forall j, 1 <= j -> j <= n -> covers d (last_thr (firstn j lin)) = false
  end.
Proof.
  induction n as [|n IH]; intros lin d L.
  - cbn. intros j H1 H2. lia.
  - cbn [ancestors_n first_match]. destruct (covers d (last_thr (firstn (S n) lin))) eqn:C.
    + exists (S n). repeat split; try lia; try assumption; intros; lia.
    + specialize (IH lin d ltac:(lia)). destruct (first_match (ancestors_n n lin) d) as [t|].
      * destruct IH as [k [H1 [H2 [H3 [H4 H5]]]]]. exists k. repeat split; try lia; try assumption.
        intros j J1 J2. destruct (Nat.eq_dec j (S n)) as [E|E]; [subst; exact C | apply H5; lia].
      * intros j J1 J2. destruct (Nat.eq_dec j (S n)) as [E|E]; [subst; exact C | apply IH; lia].
Qed.

Lemma covers_at_true : forall g k, covers_at g k = true <->
  1 <= k /\ k <= length (fst g) /\ covers (snd g) (last_thr (firstn k (fst g))) = true.
Proof.
  intros g k. unfold covers_at. rewrite !andb_true_iff, !Nat.leb_le. tauto.
Qed.

(** each genome matches the most specific threshold-bearing taxon of its lineage whose threshold
    covers its distance ([k] = depth of that taxon), or nothing if there is none *)
Lemma matching_taxon_spec : forall g,
  match matching_taxon g with
  | Some t => exists k, covers_at g k = true /\ t = map fst (firstn k (fst g)) /\
                        forall j, k < j -> covers_at g j = false
  | None => forall j, covers_at g j = false
  end.
Proof.
  intros [lin d]. unfold matching_taxon, ancestors. cbn [fst snd].
  pose proof (first_match_spec (length lin) lin d (le_n _)) as H.
  destruct (first_match (ancestors_n (length lin) lin) d) as [t|].
  - destruct H as [k [H1 [H2 [H3 [H4 H5]]]]]. exists k. split; [apply covers_at_true; cbn [fst snd]; auto|].
    split; [exact H4|]. intros j J. destruct (covers_at (lin, d) j) eqn:C; [|reflexivity].
    apply covers_at_true in C. cbn [fst snd] in C. destruct C as [C1 [C2 C3]]. rewrite H5 in C3 by lia. discriminate.
  - intros j. destruct (covers_at (lin, d) j) eqn:C; [|reflexivity].
    apply covers_at_true in C. cbn [fst snd] in C. destruct C as [C1 [C2 C3]]. rewrite H in C3 by lia. discriminate.
Qed.

Lemma matching_taxon_nonempty : forall g t, matching_taxon g = Some t -> t <> [].
Proof.
  intros g t H. pose proof (matching_taxon_spec g) as S. rewrite H in S.
  destruct S as [k [C [E _]]]. apply covers_at_true in C. destruct C as [C1 [C2 _]].
  intros N. subst t. apply (f_equal (@length nat)) in N. rewrite map_length, firstn_length in N.
  cbn [length] in N. lia.
Qed.

(** ---- find_matches ---- *)

(** the matched taxa, one per matching genome, in reference order *)
Definition matched (gs : list genome) : list taxon :=
  flat_map (fun g => match matching_taxon g with Some t => [t] | None => [] end) gs.

Lemma matched_In : forall gs t, In t (matched gs) <-> exists g, In g gs /\ matching_taxon g = Some t.
Proof.
  intros gs t. unfold matched. rewrite in_flat_map. split.
  - intros [g [Hg H]]. exists g. split; [exact Hg|]. destruct (matching_taxon g); [|destruct H].
    destruct H as [E|[]]. congruence.
  - intros [g [Hg H]]. exists g. split; [exact Hg|]. rewrite H. left. reflexivity.
Qed.

Lemma matched_perm : forall gs gs', Permutation gs gs' -> Permutation (matched gs) (matched gs').
Proof.
  intros gs gs' P. unfold matched. induction P as [| x l l' P IH | x y l | l l' l'' P1 IH1 P2 IH2]; cbn [flat_map].
  - constructor.
  - apply Permutation_app_head. exact IH.
  - rewrite !app_assoc. apply Permutation_app_tail. apply Permutation_app_comm.
  - eapply Permutation_trans; eauto.
Qed.

Lemma wf_matched : forall gs, wf_taxa (matched gs) = true.
Proof.
  intros gs. unfold wf_taxa. apply forallb_forall. intros t Ht. apply matched_In in Ht.
  destruct Ht as [g [_ H]]. apply nonempty_neq. eapply matching_taxon_nonempty; eauto.
Qed.

(** dict as a list of (taxon, genome index) entries *)
Definition flat (m : dict) : list (taxon * nat) := flat_map (fun p => map (pair (fst p)) (snd p)) m.

Lemma flat_dict_add : forall m k i p, In p (flat (dict_add m k i)) <-> In p (flat m) \/ p = (k, i).
Proof.
  induction m as [|[k' idxs] m IH]; intros k i p.
  - cbn. intuition congruence.
  - cbn [dict_add]. destruct (path_eqb k' k) eqn:E.
    + apply path_eqb_eq in E. subst k'. unfold flat. cbn [flat_map fst snd].
      rewrite map_app, !in_app_iff. cbn [map In]. intuition congruence.
    + unfold flat in *. cbn [flat_map fst snd]. rewrite !in_app_iff. rewrite IH. tauto.
Qed.

Lemma keys_dict_add : forall m k i t, In t (map fst (dict_add m k i)) <-> In t (map fst m) \/ t = k.
Proof.
  induction m as [|[k' idxs] m IH]; intros k i t.
  - cbn. intuition congruence.
  - cbn [dict_add]. destruct (path_eqb k' k) eqn:E.
    + apply path_eqb_eq in E. subst k'. cbn [map fst In]. intuition congruence.
    + cbn [map fst In]. rewrite IH. tauto.
Qed.

Lemma keys_find_matches_from : forall gs i m t,
  In t (map fst (find_matches_from i gs m)) <-> In t (map fst m) \/ In t (matched gs).
Proof.
  induction gs as [|g gs IH]; intros i m t; cbn [find_matches_from matched flat_map].
  - cbn. tauto.
  - fold (matched gs). destruct (matching_taxon g) as [t0|].
    + rewrite IH, keys_dict_add. cbn [app In]. intuition congruence.
    + rewrite IH. cbn [app]. tauto.
Qed.

Lemma flat_find_matches_from : forall gs i m t j,
  In (t, j) (flat (find_matches_from i gs m)) <->
  In (t, j) (flat m) \/ (i <= j /\ exists g, nth_error gs (j - i) = Some g /\ matching_taxon g = Some t).
Proof.
  induction gs as [|g gs IH]; intros i m t j; cbn [find_matches_from].
  - split; [auto|]. intros [H | [_ [g [H _]]]]; [exact H|]. destruct (j - i); discriminate.
  - assert (A : forall X : Prop,
      ((S i <= j /\ exists g', nth_error gs (j - S i) = Some g' /\ matching_taxon g' = Some t) \/
       (j = i /\ matching_taxon g = Some t)) <->
      (i <= j /\ exists g', nth_error (g :: gs) (j - i) = Some g' /\ matching_taxon g' = Some t)).
    { intros _. split.
      - intros [[L [g' [N M]]] | [E M]].
        + split; [lia|]. exists g'. split; [|exact M]. replace (j - i) with (S (j - S i)) by lia. exact N.
        + subst j. split; [lia|]. exists g. rewrite Nat.sub_diag. split; [reflexivity | exact M].
      - intros [L [g' [N M]]]. destruct (Nat.eq_dec j i) as [E|E].
        + right. subst j. rewrite Nat.sub_diag in N. cbn in N. inversion N; subst g'. auto.
        + left. split; [lia|]. exists g'. split; [|exact M].
          replace (j - i) with (S (j - S i)) in N by lia. exact N. }
    specialize (A True). destruct (matching_taxon g) as [t0|] eqn:M.
    + rewrite IH, flat_dict_add. rewrite <- A. split.
      * intros [[H|H]|H]; [left; exact H | right; right; inversion H; subst; auto | right; left; exact H].
      * intros [H|[H|[E1 E2]]]; [left; left; exact H | right; exact H | left; right; inversion E2; subst; reflexivity].
    + rewrite IH. rewrite <- A. split; [tauto|]. intros [H|[H|[_ H]]]; [tauto | tauto | discriminate].
Qed.

Lemma flat_find_matches : forall gs t j,
  In (t, j) (flat (find_matches gs)) <-> exists g, nth_error gs j = Some g /\ matching_taxon g = Some t.
Proof.
  intros gs t j. unfold find_matches. rewrite flat_find_matches_from. rewrite Nat.sub_0_r. cbn [flat flat_map In].
  split; [intros [[]|[_ H]]; exact H | intros H; right; split; [lia | exact H]].
Qed.

Lemma keys_find_matches : forall gs t, In t (map fst (find_matches gs)) <-> In t (matched gs).
Proof.
  intros gs t. unfold find_matches. rewrite keys_find_matches_from. cbn [map In]. tauto.
Qed.

(** ---- the primary-match scan ---- *)

Fixpoint scan_flat (gs : list genome) (ps : list (taxon * nat)) (b : best) : res best :=
  match ps with
  | [] => Ok b
  | (t, i) :: r =>
      match nth_error gs i with
      | None => Error OOB
      | Some g => scan_flat gs r (if better (snd g) b then Some (i, snd g, t) else b)
      end
  end.

Lemma scan_flat_app : forall gs p1 p2 b,
  scan_flat gs (p1 ++ p2) b =
  match scan_flat gs p1 b with Ok b' => scan_flat gs p2 b' | Error e => Error e end.
Proof.
  induction p1 as [|[t i] p1 IH]; intros p2 b; cbn [app scan_flat]; [reflexivity|].
  destruct (nth_error gs i); [apply IH | reflexivity].
Qed.

Lemma scan_idxs_flat : forall gs t idxs b, scan_idxs gs t idxs b = scan_flat gs (map (pair t) idxs) b.
Proof.
  induction idxs as [|i idxs IH]; intros b; cbn [scan_idxs map scan_flat]; [reflexivity|].
  destruct (nth_error gs i); [apply IH | reflexivity].
Qed.

Definition keep (c : taxon) (p : taxon * list nat) : bool := mem c (ancestors (fst p)).

Lemma scan_matches_flat : forall gs c m b,
  scan_matches gs c m b = scan_flat gs (flat (filter (keep c) m)) b.
Proof.
  induction m as [|[t idxs] m IH]; intros b; cbn [scan_matches filter]; [reflexivity|].
  unfold keep at 1. cbn [fst]. destruct (mem c (ancestors t)).
  - unfold flat. cbn [flat_map fst snd]. rewrite scan_flat_app. rewrite scan_idxs_flat.
    destruct (scan_flat gs (map (pair t) idxs) b); [apply IH | reflexivity].
  - apply IH.
Qed.

Lemma flat_filter : forall c m t i, In (t, i) (flat (filter (keep c) m)) <-> In (t, i) (flat m) /\ mem c (ancestors t) = true.
Proof.
  induction m as [|[k idxs] m IH]; intros t i; cbn [filter].
  - cbn. tauto.
  - unfold keep at 1. cbn [fst]. destruct (mem c (ancestors k)) eqn:E; unfold flat in *; cbn [flat_map fst snd];
      rewrite ?in_app_iff, IH, in_map_iff.
    + split.
      * intros [[x [Ex Hx]] | [H1 H2]]; [inversion Ex; subst; split; [left; exists i; auto | exact E] | tauto].
      * intros [[H|H] H2]; [left; exact H | right; tauto].
    + split; [tauto|]. intros [[[x [Ex Hx]]|H] H2]; [inversion Ex; subst; congruence | tauto].
Qed.

(** [b] is a nearest of the candidates seen so far *)
Definition good (gs : list genome) (seen : list (taxon * nat)) (b : best) : Prop :=
  match b with
  | None => seen = []
  | Some (i, d, t) =>
      In (t, i) seen /\ (exists g, nth_error gs i = Some g /\ snd g = d) /\
      forall t' j g', In (t', j) seen -> nth_error gs j = Some g' -> d <= snd g'
  end.

Lemma scan_flat_good : forall gs ps seen b,
  (forall t i, In (t, i) ps -> exists g, nth_error gs i = Some g) -> good gs seen b ->
  exists b', scan_flat gs ps b = Ok b' /\ good gs (seen ++ ps) b'.
Proof.
  induction ps as [|[t i] ps IH]; intros seen b V G.
  - exists b. rewrite app_nil_r. split; [reflexivity | exact G].
  - cbn [scan_flat]. destruct (V t i (or_introl eq_refl)) as [g Hg]. rewrite Hg.
    replace (seen ++ (t, i) :: ps) with ((seen ++ [(t, i)]) ++ ps) by (rewrite <- app_assoc; reflexivity).
    apply IH; [intros t' i' H; apply (V t' i'); right; exact H|].
    destruct b as [[[bi bd] bt]|]; cbn [better good] in *.
    + destruct G as [G1 [G2 G3]]. destruct (snd g <? bd) eqn:L.
      * apply Nat.ltb_lt in L. split; [apply in_or_app; right; left; reflexivity|].
        split; [exists g; auto|]. intros t' j g' H N. apply in_app_or in H. destruct H as [H|[H|[]]].
        -- specialize (G3 t' j g' H N). lia.
        -- inversion H; subst. rewrite Hg in N. inversion N; subst. lia.
      * apply Nat.ltb_ge in L. split; [apply in_or_app; left; exact G1|]. split; [exact G2|].
        intros t' j g' H N. apply in_app_or in H. destruct H as [H|[H|[]]].
        -- apply (G3 t' j g' H N).
        -- inversion H; subst. rewrite Hg in N. inversion N; subst. exact L.
    + subst seen. cbn [app]. split; [left; reflexivity|]. split; [exists g; auto|].
      intros t' j g' [H|[]] N. inversion H; subst. rewrite Hg in N. inversion N; subst. lia.
Qed.

(** ---- strict classify ---- *)

Definition nonempty_list {A} (l : list A) : bool := match l with [] => false | _ => true end.

(** what the property says about the outcome for the reference genomes [gs] (in any order):
    [M] = the matched taxa *)
Definition strict_ok (gs : list genome) (r : strict_result) : Prop :=
  let M := matched gs in
  sr_predicted r = consensus_spec M /\
  sr_success r = negb (nonempty_list M && match consensus_spec M with None => true | Some _ => false end) /\
  (forall t, In t (sr_others r) <-> In t M /\ below (consensus_spec M) t) /\
  match sr_primary r with
  | None => consensus_spec M = None
  | Some (i, d, t) =>
      exists c g, consensus_spec M = Some c /\ nth_error gs i = Some g /\ snd g = d /\
                  matching_taxon g = Some t /\ prefixb c t = true /\
                  forall g' t', In g' gs -> matching_taxon g' = Some t' -> prefixb c t' = true -> d <= snd g'
  end.

Lemma spec_some_witness : forall l c, consensus_spec l = Some c ->
  c <> [] /\ exists m, In m l /\ prefixb c m = true.
Proof.
  intros l c H. unfold consensus_spec in H.
  destruct (lcp_all (maximal l)) as [r|] eqn:E; [|discriminate].
  destruct r as [|x r]; [discriminate|]. inversion H; subst c; clear H. split; [discriminate|].
  destruct (lcp_all_glb _ _ E) as [G1 _].
  destruct (maximal l) as [|m ms] eqn:Em; [discriminate|].
  assert (Hm : In m (maximal l)) by (rewrite Em; left; reflexivity).
  exists m. split; [apply maximal_In in Hm; tauto|]. apply G1. left. reflexivity.
Qed.

Lemma classify_strict_ok : forall gs, exists r, classify_strict gs = Ok r /\ strict_ok gs r.
Proof.
  intros gs. unfold classify_strict, classify_strict_with.
  assert (K : forall t, In t (map fst (find_matches gs)) <-> In t (matched gs)) by (apply keys_find_matches).
  assert (W : wf_taxa (map fst (find_matches gs)) = true).
  { unfold wf_taxa. apply forallb_forall. intros t Ht. apply K in Ht.
    pose proof (wf_matched gs) as W. unfold wf_taxa in W. rewrite forallb_forall in W. apply W. exact Ht. }
  rewrite (consensus_correct _ W).
  assert (ES : consensus_spec (map fst (find_matches gs)) = consensus_spec (matched gs))
    by (apply consensus_spec_set; exact K).
  rewrite ES. unfold strict_ok.
  destruct (find_matches gs) as [|p0 ms] eqn:EM.
  - (* nothing matched *)
    assert (M0 : matched gs = []).
    { destruct (matched gs) as [|t l]; [reflexivity|]. exfalso. apply (K t). left. reflexivity. }
    eexists. split; [reflexivity|]. rewrite M0. cbn. repeat split; try tauto; try (intros [[] _]).
  - assert (NE : nonempty_list (matched gs) = true).
    { destruct (matched gs) as [|t l] eqn:E; [|reflexivity]. exfalso. apply (K (fst p0)). left. reflexivity. }
    rewrite NE. destruct (consensus_spec (matched gs)) as [ct|] eqn:EC.
    + rewrite <- EM in *. rewrite scan_matches_flat.
      destruct (spec_some_witness _ _ EC) as [Nct [m [Hm Pm]]].
      set (ps := flat (filter (keep ct) (find_matches gs))).
      assert (V : forall t i, In (t, i) ps -> exists g, nth_error gs i = Some g).
      { intros t i H. apply flat_filter in H. destruct H as [H _]. apply flat_find_matches in H.
        destruct H as [g [H _]]. eauto. }
      destruct (scan_flat_good gs ps [] None V eq_refl) as [b' [Hs G]]. rewrite Hs. cbn [app] in G.
      destruct b' as [[[i d] t]|].
      * eexists. split; [reflexivity|]. cbn [sr_predicted sr_success sr_others sr_primary below_spec].
        split; [reflexivity|]. split; [reflexivity|]. split.
        -- intros t'. rewrite filter_In, K. reflexivity.
        -- destruct G as [G1 [[g [Hg Hd]] G3]]. apply flat_filter in G1. destruct G1 as [G1 G1'].
           apply flat_find_matches in G1. destruct G1 as [g0 [Hg0 Mg0]].
           rewrite Hg in Hg0. inversion Hg0; subst g0.
           apply mem_ancestors in G1'. destruct G1' as [_ G1'].
           exists ct, g. repeat split; try assumption.
           intros g' t' Hin Mg' P'. apply In_nth_error in Hin. destruct Hin as [j Hj].
           apply (G3 t' j g'); [|exact Hj]. apply flat_filter. split.
           ++ apply flat_find_matches. eauto.
           ++ apply mem_ancestors. split; assumption.
      * (* the assertion cannot fail: some matched taxon lies at or below the consensus *)
        exfalso. cbn [good] in G. apply matched_In in Hm. destruct Hm as [g [Hin Mg]].
        apply In_nth_error in Hin. destruct Hin as [j Hj].
        assert (X : In (m, j) ps).
        { apply flat_filter. split; [apply flat_find_matches; eauto | apply mem_ancestors; split; assumption]. }
        rewrite G in X. destruct X.
    + eexists. split; [reflexivity|]. cbn [sr_predicted sr_success sr_others sr_primary below_spec below].
      split; [reflexivity|]. split; [reflexivity|]. split; [|reflexivity].
      intros t'. rewrite <- K. tauto.
Qed.

Lemma nonempty_list_perm : forall (l l' : list taxon), Permutation l l' -> nonempty_list l = nonempty_list l'.
Proof.
  intros [|x l] [|y l'] P; try reflexivity.
  - apply Permutation_nil in P. discriminate.
  - apply Permutation_sym, Permutation_nil in P. discriminate.
Qed.

Definition primary_distance (r : strict_result) : option nat :=
  match sr_primary r with Some (_, d, _) => Some d | None => None end.

Lemma strict_ok_perm : forall gs gs' r r', Permutation gs gs' -> strict_ok gs r -> strict_ok gs' r' ->
  sr_success r = sr_success r' /\ sr_predicted r = sr_predicted r' /\
  (forall t, In t (sr_others r) <-> In t (sr_others r')) /\
  primary_distance r = primary_distance r'.
Proof.
  intros gs gs' r r' P [A1 [A2 [A3 A4]]] [B1 [B2 [B3 B4]]].
  pose proof (matched_perm _ _ P) as PM.
  assert (E : consensus_spec (matched gs') = consensus_spec (matched gs)).
  { apply consensus_spec_set. intros t. split; apply Permutation_in; [apply Permutation_sym|]; exact PM. }
  rewrite E in *. rewrite <- (nonempty_list_perm _ _ PM) in B2.
  split; [congruence|]. split; [congruence|]. split.
  - intros t. rewrite A3, B3. split; intros [H1 H2]; split; try exact H2;
      eapply Permutation_in; try exact H1; [| apply Permutation_sym]; exact PM.
  - unfold primary_distance. destruct (sr_primary r) as [[[i d] t]|]; destruct (sr_primary r') as [[[i' d'] t']|];
      try reflexivity.
    + destruct A4 as [c [g [C1 [C2 [C3 [C4 [C5 C6]]]]]]]. destruct B4 as [c' [g' [D1 [D2 [D3 [D4 [D5 D6]]]]]]].
      assert (c' = c) by congruence. subst c'.
      assert (L1 : d <= snd g').
      { apply (C6 g' t'); try assumption. eapply Permutation_in; [apply Permutation_sym; exact P|].
        eapply nth_error_In; eauto. }
      assert (L2 : d' <= snd g).
      { apply (D6 g t); try assumption. eapply Permutation_in; [exact P|]. eapply nth_error_In; eauto. }
      f_equal. lia.
    + destruct A4 as [c [g [C1 _]]]. congruence.
    + destruct B4 as [c [g [C1 _]]]. congruence.
Qed.

Lemma classify_order_independent : forall gs gs', Permutation gs gs' ->
  exists r r', classify_strict gs = Ok r /\ classify_strict gs' = Ok r' /\
    sr_success r = sr_success r' /\ sr_predicted r = sr_predicted r' /\
    (forall t, In t (sr_others r) <-> In t (sr_others r')) /\
    primary_distance r = primary_distance r'.
Proof.
  intros gs gs' P. destruct (classify_strict_ok gs) as [r [H1 S1]]. destruct (classify_strict_ok gs') as [r' [H2 S2]].
  exists r, r'. split; [exact H1|]. split; [exact H2|]. eapply strict_ok_perm; eauto.
Qed.

(** the witness at the level of classify: species t1 (d=6/16), sibling t2 (6/16), subspecies t3 of t1 (3/16) *)
Definition gS : genome := ([(0, None); (1, Some 8)], 6).
Definition gS2 : genome := ([(0, None); (2, Some 8)], 6).
Definition gSS : genome := ([(0, None); (1, Some 8); (3, Some 4)], 3).

Lemma classify_v0_order_dependent : exists gs gs' r r', Permutation gs gs' /\
  classify_strict_v0 gs = Ok r /\ classify_strict_v0 gs' = Ok r' /\
  sr_predicted r = Some [0; 1; 3] /\ sr_predicted r' = Some [0].
Proof.
  exists [gS; gS2; gSS], [gS; gSS; gS2]. eexists. eexists. split; [apply perm_skip; apply perm_swap|].
  vm_compute. repeat split; reflexivity.
Qed.

Example ex_classify : exists r, classify_strict [gS; gS2; gSS] = Ok r /\ sr_predicted r = Some [0] /\
  sr_success r = true /\ sr_primary r = Some (2, 3, [0; 1; 3]) /\ length (sr_others r) = 3.
Proof. eexists. vm_compute. repeat split; reflexivity. Qed.
