(** Set-level meaning of the counts for strictly increasing lists (C02, C15). *)
From Coq Require Import ZArith List Bool Lia ZifyBool Sorting.Sorted.
From GV Require Import Spec.Jaccard Proofs.MetricCount.
Import ListNotations.
Open Scope Z_scope.

Lemma memZ_In x l : memZ x l = true <-> In x l.
Proof.
  unfold memZ. rewrite existsb_exists. split.
  - intros [y [Hy He]]. apply Z.eqb_eq in He. now subst.
  - intros H. exists x. split; [assumption|apply Z.eqb_refl].
Qed.

Lemma filter_length_0 {X} (f : X -> bool) l :
  length (filter f l) = 0%nat <-> forall x, In x l -> f x = false.
Proof.
  induction l as [|y t IH]; simpl.
  - split; [intros _ x []|reflexivity].
  - destruct (f y) eqn:E; simpl.
    + split; [discriminate|]. intros H. specialize (H y (or_introl eq_refl)). congruence.
    + rewrite IH. split.
      * intros H x [<-|Hx]; auto.
      * intros H x Hx. apply H. now right.
Qed.

(** no common element  <->  |A ∩ B| = 0 *)
Lemma inter_zero_iff A B : inter_count A B = 0 <-> (forall x, In x A -> ~ In x B).
Proof.
  unfold inter_count.
  assert (H : Z.of_nat (length (filter (fun a => memZ a B) A)) = 0 <->
              length (filter (fun a => memZ a B) A) = 0%nat) by lia.
  rewrite H, filter_length_0. split.
  - intros Hf x Hx Hb. apply memZ_In in Hb. rewrite (Hf x Hx) in Hb. discriminate.
  - intros Hn x Hx. destruct (memZ x B) eqn:E; [|reflexivity].
    apply memZ_In in E. exfalso. eapply Hn; eauto.
Qed.

Lemma symdiff_cons_eq a A B : sorted (a :: A) -> sorted (a :: B) ->
  symdiff_count (a :: A) (a :: B) = symdiff_count A B.
Proof. intros HA HB. unfold symdiff_count. rewrite inter_eq by assumption. simpl length. lia. Qed.

Lemma symdiff_cons_lt a A b B : sorted (b :: B) -> a < b ->
  symdiff_count (a :: A) (b :: B) = 1 + symdiff_count A (b :: B).
Proof. intros HB H. unfold symdiff_count. rewrite inter_lt by assumption. simpl length. lia. Qed.

Lemma symdiff_cons_gt a A b B : sorted (a :: A) -> b < a ->
  symdiff_count (a :: A) (b :: B) = 1 + symdiff_count (a :: A) B.
Proof. intros HA H. unfold symdiff_count. rewrite inter_gt by assumption. simpl length. lia. Qed.

(** equal sets  <->  |A △ B| = 0 *)
Lemma symdiff_zero_iff : forall n A B, (length A + length B <= n)%nat -> sorted A -> sorted B ->
  (symdiff_count A B = 0 <-> A = B).
Proof.
  induction n as [|n IH]; intros A B Hn HA HB.
  - destruct A; [|simpl in Hn; lia]. destruct B; [|simpl in Hn; lia]. split; reflexivity.
  - destruct A as [|a A'].
    { unfold symdiff_count. rewrite inter_nil_l. simpl length.
      destruct B; simpl length; split; try reflexivity; try lia; discriminate. }
    destruct B as [|b B'].
    { unfold symdiff_count. rewrite inter_nil_r. simpl length. split; [lia|discriminate]. }
    destruct (sorted_inv _ _ HA) as [HA' _]. destruct (sorted_inv _ _ HB) as [HB' _].
    destruct (Z.compare_spec a b) as [Heq|Hlt|Hgt].
    + subst b. rewrite symdiff_cons_eq by assumption.
      rewrite (IH A' B') by (simpl in Hn; try lia; assumption).
      split; [intros ->; reflexivity|]. intros H. now inversion H.
    + rewrite symdiff_cons_lt by assumption.
      pose proof (counts_bounds A' (b :: B') HA' HB) as [_ [_ [_ [[H0 _] _]]]].
      split; [lia|]. intros H. inversion H. lia.
    + rewrite symdiff_cons_gt by assumption.
      pose proof (counts_bounds (a :: A') B' HA HB') as [_ [_ [_ [[H0 _] _]]]].
      split; [lia|]. intros H. inversion H. lia.
Qed.

Lemma symdiff_zero_iff' A B : sorted A -> sorted B -> (symdiff_count A B = 0 <-> A = B).
Proof. intros. eapply symdiff_zero_iff; eauto. Qed.

Lemma symdiff_eq_union_iff A B :
  symdiff_count A B = union_count A B <-> inter_count A B = 0.
Proof. unfold symdiff_count, union_count. lia. Qed.

Lemma union_zero_iff A B : sorted A -> sorted B -> (union_count A B = 0 <-> A = [] /\ B = []).
Proof.
  intros HA HB. pose proof (counts_bounds A B HA HB) as [H0 [H1 [H2 _]]].
  unfold union_count. split.
  - intros H. assert (length A = 0%nat /\ length B = 0%nat) as [E1 E2] by lia.
    destruct A; [|discriminate]. destruct B; [|discriminate]. auto.
  - intros [-> ->]. reflexivity.
Qed.

Lemma sortedb_sorted l : sortedb l = true <-> sorted l.
Proof.
  induction l as [|a t IH]; [split; [constructor|reflexivity]|].
  cbn [sortedb]. destruct t as [|b t'].
  - split; [intros _; constructor; constructor|reflexivity].
  - rewrite andb_true_iff, IH. split.
    + intros [Hab Ht]. constructor; [assumption|].
      inversion Ht as [|? ? Hs Hf]; subst. constructor; [lia|].
      eapply Forall_impl; [|exact Hf]. intros; lia.
    + intros H. inversion H as [|? ? Hs Hf]; subst. split; [|assumption].
      inversion Hf; subst. lia.
Qed.
