(** C15: the distance computed by the generated kernel behaves as a metric on k-mer sets. *)
From Coq Require Import ZArith List Bool Reals Lia Lra ZifyBool Sorting.Sorted.
From Flocq Require Import Core.Core IEEE754.BinarySingleNaN.
From GV Require Import Base.CSem Base.F32 Gen.MetricPyx Spec.Jaccard Spec.JaccardF
  Proofs.MetricCount Proofs.MetricSets Proofs.F32Round Proofs.C02.
Import ListNotations.
Open Scope Z_scope.

Lemma dist_value fuel A B d :
  sorted A -> sorted B -> (length A + length B <= fuel)%nat ->
  jaccarddist fuel A B = Ok d -> d = ratio_f32 (symdiff_count A B) (union_count A B).
Proof.
  intros HA HB Hf Hd. destruct (C02_union_count_l fuel A B HA HB Hf) as [_ H].
  rewrite H in Hd. now inversion Hd.
Qed.

Lemma C15_range_l fuel A B d :
  sorted A -> sorted B -> (length A + length B <= fuel)%nat -> union_count A B <= 16777216 ->
  jaccarddist fuel A B = Ok d -> is_finite d = true /\ (0 <= B2R d <= 1)%R.
Proof.
  intros HA HB Hf Hu Hd. rewrite (dist_value fuel A B d HA HB Hf Hd).
  pose proof (counts_bounds A B HA HB) as [Hi0 [_ [_ [Hs Hub]]]].
  destruct (ratio_metric_facts (symdiff_count A B) (union_count A B)) as [H1 [H2 _]]; [lia|lia|].
  split; assumption.
Qed.

Lemma C15_zero_iff_equal_l fuel A B d :
  sorted A -> sorted B -> (length A + length B <= fuel)%nat -> union_count A B <= 16777216 ->
  jaccarddist fuel A B = Ok d -> (B2R d = 0%R <-> A = B).
Proof.
  intros HA HB Hf Hu Hd. rewrite (dist_value fuel A B d HA HB Hf Hd).
  pose proof (counts_bounds A B HA HB) as [Hi0 [_ [_ [Hs Hub]]]].
  destruct (ratio_metric_facts (symdiff_count A B) (union_count A B)) as [_ [_ [H3 _]]]; [lia|lia|].
  rewrite H3. now apply symdiff_zero_iff'.
Qed.

Lemma C15_one_iff_disjoint_l fuel A B d :
  sorted A -> sorted B -> (length A + length B <= fuel)%nat -> union_count A B <= 16777216 ->
  jaccarddist fuel A B = Ok d ->
  (B2R d = 1%R <-> (forall x, In x A -> ~ In x B) /\ ~ (A = [] /\ B = [])).
Proof.
  intros HA HB Hf Hu Hd. rewrite (dist_value fuel A B d HA HB Hf Hd).
  pose proof (counts_bounds A B HA HB) as [Hi0 [_ [_ [Hs Hub]]]].
  destruct (ratio_metric_facts (symdiff_count A B) (union_count A B)) as [_ [_ [_ H4]]]; [lia|lia|].
  rewrite H4. rewrite symdiff_eq_union_iff, inter_zero_iff.
  pose proof (union_zero_iff A B HA HB) as Hz.
  split.
  - intros [H1 H2]. split; [exact H1|]. intros H. apply Hz in H. lia.
  - intros [H1 H2]. split; [exact H1|].
    destruct (Z.eq_dec (union_count A B) 0) as [E|E]; [apply Hz in E; contradiction|lia].
Qed.

(** every k-mer set for k <= 12 has at most 4^12 = 2^24 elements: the size hypothesis is vacuous *)
Lemma sorted_len_range l : forall lo hi,
  sorted l -> Forall (fun x => lo <= x < hi) l -> lo <= hi -> Z.of_nat (length l) <= hi - lo.
Proof.
  induction l as [|b t IH]; intros lo hi Hs HF Hlh; [simpl; lia|].
  destruct (sorted_inv _ _ Hs) as [Hs' Hlt]. inversion HF as [|? ? Hb HF']; subst.
  assert (Z.of_nat (length t) <= hi - (b + 1)).
  { apply IH; [assumption| |lia]. rewrite Forall_forall in *. intros x Hx.
    specialize (Hlt x Hx). specialize (HF' x Hx). lia. }
  simpl length. lia.
Qed.

Lemma union_le_range : forall n A B lo hi,
  (length A + length B <= n)%nat -> sorted A -> sorted B ->
  Forall (fun x => lo <= x < hi) A -> Forall (fun x => lo <= x < hi) B -> lo <= hi ->
  union_count A B <= hi - lo.
Proof.
  induction n as [|n IH]; intros A B lo hi Hn HA HB FA FB Hlh.
  - destruct A; [|simpl in Hn; lia]. destruct B; [|simpl in Hn; lia].
    unfold union_count, inter_count. simpl. lia.
  - destruct A as [|a A'].
    { unfold union_count. rewrite inter_nil_l. simpl length.
      pose proof (sorted_len_range B lo hi HB FB Hlh). lia. }
    destruct B as [|b B'].
    { unfold union_count. rewrite inter_nil_r. simpl length.
      pose proof (sorted_len_range (a :: A') lo hi HA FA Hlh). simpl length in *. lia. }
    destruct (sorted_inv _ _ HA) as [HA' HFA]. destruct (sorted_inv _ _ HB) as [HB' HFB].
    inversion FA as [|? ? Ha FA']; subst. inversion FB as [|? ? Hb FB']; subst.
    assert (Hup : forall m l, Forall (Z.lt m) l -> Forall (fun x => lo <= x < hi) l ->
                              Forall (fun x => m + 1 <= x < hi) l).
    { intros m l H1 H2. rewrite Forall_forall in *. intros x Hx. specialize (H1 x Hx). specialize (H2 x Hx). lia. }
    destruct (Z.compare_spec a b) as [Heq|Hlt|Hgt].
    + subst b. unfold union_count. rewrite inter_eq by assumption. simpl length.
      assert (union_count A' B' <= hi - (a + 1)).
      { apply (IH A' B' (a + 1) hi); [simpl in Hn; lia | assumption | assumption | apply Hup; assumption | apply Hup; assumption | lia]. }
      unfold union_count in H. lia.
    + unfold union_count. rewrite (inter_lt a A' b B') by assumption. simpl length.
      assert (union_count A' (b :: B') <= hi - (a + 1)).
      { apply (IH A' (b :: B') (a + 1) hi); [simpl in *; lia | assumption | assumption | apply Hup; assumption | | lia].
        constructor; [lia|]. apply Hup; [|assumption].
        eapply Forall_impl; [|exact HFB]. intros; lia. }
      unfold union_count in H. simpl length in H. lia.
    + unfold union_count. rewrite (inter_gt a A' b B') by assumption. simpl length.
      assert (union_count (a :: A') B' <= hi - (b + 1)).
      { apply (IH (a :: A') B' (b + 1) hi); [simpl in *; lia | assumption | assumption | | apply Hup; assumption | lia].
        constructor; [lia|]. apply Hup; [|assumption].
        eapply Forall_impl; [|exact HFA]. intros; lia. }
      unfold union_count in H. simpl length in H. lia.
Qed.

Lemma C15_small_k_l k A B :
  0 <= k <= 12 -> sorted A -> sorted B ->
  Forall (fun x => 0 <= x < 4 ^ k) A -> Forall (fun x => 0 <= x < 4 ^ k) B ->
  union_count A B <= 16777216.
Proof.
  intros Hk HA HB FA FB.
  assert (H4 : 4 ^ k <= 4 ^ 12) by (apply Z.pow_le_mono_r; lia).
  change (4 ^ 12) with 16777216 in H4.
  pose proof (union_le_range (length A + length B) A B 0 (4 ^ k) (le_n _) HA HB FA FB ltac:(lia)). lia.
Qed.

Example C15_ex : sorted [1; 5; 9] /\ sorted [5; 9; 11; 12] /\ union_count [1; 5; 9] [5; 9; 11; 12] <= 16777216.
Proof. split; [|split]; try (apply sortedb_sorted; reflexivity). vm_compute. discriminate. Qed.

(** * triangle inequality and common-element monotonicity (from Proofs/MetricTriangle.v) *)
From GV Require Import Proofs.MetricTriangle.
Open Scope Z_scope.

Lemma C15_triangle_l fuel A B C dAB dBC dAC :
  sorted A -> sorted B -> sorted C ->
  (length A + length B <= fuel)%nat -> (length B + length C <= fuel)%nat -> (length A + length C <= fuel)%nat ->
  union_count A B <= 16777216 -> union_count B C <= 16777216 -> union_count A C <= 16777216 ->
  jaccarddist fuel A B = Ok dAB -> jaccarddist fuel B C = Ok dBC -> jaccarddist fuel A C = Ok dAC ->
  (B2R dAC <= B2R dAB + B2R dBC + bpow radix2 (-22))%R.
Proof.
  intros HA HB HC F1 F2 F3 U1 U2 U3 D1 D2 D3.
  rewrite (dist_value fuel A B dAB HA HB F1 D1), (dist_value fuel B C dBC HB HC F2 D2),
    (dist_value fuel A C dAC HA HC F3 D3).
  now apply triangle_rounded.
Qed.

(** adding a k-mer absent from both sets: the exact ratio strictly decreases, the reported
    binary32 value does not increase.  (Strict decrease of the binary32 value itself is explored by
    the harness for |A u B| + 1 < 2^23, not proved.) *)
Lemma C15_add_common_partial_l fuel x A B d d' :
  sorted A -> sorted B -> ~ In x A -> ~ In x B -> A <> B ->
  (length A + length B + 2 <= fuel)%nat -> union_count A B < 16777216 ->
  jaccarddist fuel A B = Ok d ->
  jaccarddist fuel (insert_sorted x A) (insert_sorted x B) = Ok d' ->
  sorted (insert_sorted x A) /\ sorted (insert_sorted x B) /\
  (forall y, In y (insert_sorted x A) <-> y = x \/ In y A) /\
  (forall y, In y (insert_sorted x B) <-> y = x \/ In y B) /\
  (IZR (symdiff_count (insert_sorted x A) (insert_sorted x B))
     / IZR (union_count (insert_sorted x A) (insert_sorted x B))
   < IZR (symdiff_count A B) / IZR (union_count A B))%R /\
  (B2R d' <= B2R d)%R.
Proof.
  intros HA HB HxA HxB Hne Hf Hu Hd Hd'.
  destruct (common_element_ratio_lt x A B HA HB HxA HxB Hne) as [SA [SB [IA [IB Hlt]]]].
  repeat (split; [assumption|]).
  assert (LA : length (insert_sorted x A) = S (length A)).
  { clear. induction A as [|y t IH]; simpl; [reflexivity|]. destruct (x <? y); simpl; congruence. }
  assert (LB : length (insert_sorted x B) = S (length B)).
  { clear. induction B as [|y t IH]; simpl; [reflexivity|]. destruct (x <? y); simpl; congruence. }
  rewrite (dist_value fuel A B d HA HB ltac:(lia) Hd).
  rewrite (dist_value fuel _ _ d' SA SB ltac:(lia) Hd').
  now apply common_element_rounded_le.
Qed.

From GV Require Import Proofs.MetricStrict.
Open Scope Z_scope.

(** strict decrease of the reported binary32 distance, for |A u B| + 1 <= 2^23 *)
Lemma C15_add_common_l fuel x A B d d' :
  sorted A -> sorted B -> ~ In x A -> ~ In x B -> A <> B ->
  (length A + length B + 2 <= fuel)%nat -> union_count A B + 1 <= 8388608 ->
  jaccarddist fuel A B = Ok d ->
  jaccarddist fuel (insert_sorted x A) (insert_sorted x B) = Ok d' ->
  (B2R d' < B2R d)%R.
Proof.
  intros HA HB HxA HxB Hne Hf Hu Hd Hd'.
  destruct (common_element_ratio_lt x A B HA HB HxA HxB Hne) as [SA [SB _]].
  assert (LA : length (insert_sorted x A) = S (length A)).
  { clear. induction A as [|y t IH]; simpl; [reflexivity|]. destruct (x <? y); simpl; congruence. }
  assert (LB : length (insert_sorted x B) = S (length B)).
  { clear. induction B as [|y t IH]; simpl; [reflexivity|]. destruct (x <? y); simpl; congruence. }
  rewrite (dist_value fuel A B d HA HB ltac:(lia) Hd).
  rewrite (dist_value fuel _ _ d' SA SB ltac:(lia) Hd').
  now apply common_element_rounded_lt.
Qed.
