(** C05 -- jaccarddist_pairwise.
    Proved here: the condensed (flat) form, for every container, selection and buffer, is
    [dist_condensed sel], whose cell at offset n*i - i(i+1)/2 + (j-i-1) is the distance of the
    pair (i, j), i < j; the pair distance is symmetric bit for bit ([dist_sym]), which is what the
    mirrored half of the square form relies on.
    NOT proved: the square form of the model ([jd_pairwise_square]: fill_diagonal, row slices,
    mirror copy) -- see [C05_pairwise_square_statement]; it is compared cell by cell with the
    implementation and with symmetric / zero-diagonal / pair-distance predicates by the harness. *)
From Coq Require Import ZArith List Bool Lia.
From GV Require Import Base.CSem Base.F32 Gen.MetricPyx Spec.Jaccard Spec.JaccardF Spec.C05
  Model.MetricPy Model.C05 Proofs.MetricCount Proofs.C05Sched Proofs.C05Array Proofs.C05Chunks
  Proofs.C05Matrix.
Import ListNotations.
Open Scope Z_scope.

(** the two-signature distance is symmetric bit for bit *)
Lemma dist_sym a b : sorted a -> sorted b -> dist a b = dist b a.
Proof.
  intros Ha Hb. unfold dist. destruct (union_count_sym a b Ha Hb) as [-> ->]. reflexivity.
Qed.

Lemma splice_mid {A} (p r s v : list A) : length v = length r ->
  splice (p ++ r ++ s) (mv_len p) v = p ++ v ++ s.
Proof.
  intros Hl. unfold splice, clampZ, mv_len. rewrite !app_length.
  replace (Z.to_nat (Z.max 0 (Z.min (Z.of_nat (length p + (length r + length s))) (Z.of_nat (length p)))))
    with (length p) by lia.
  rewrite firstn_app, firstn_all, Nat.sub_diag, firstn_O, app_nil_r.
  rewrite skipn_app, skipn_all2 by lia.
  replace (length p + length v - length p)%nat with (length r) by lia.
  rewrite skipn_app, skipn_all, Nat.sub_diag. reflexivity.
Qed.

Lemma mv_get_nth_error {A} (l : list A) i x : mv_get l (Z.of_nat i) = Some x -> nth_error l i = Some x.
Proof.
  unfold mv_get. destruct (0 <=? Z.of_nat i); [|discriminate]. now rewrite Nat2Z.id.
Qed.

Section Pairwise.
  Variables (c : container) (d : Z * Z) (ss : list (list Z)) (indices : option (list Z)).
  Variable sel : list (list Z).
  Hypothesis Hd : dtype_ok d = true.
  Hypothesis Hsorted : Forall sorted sel.
  Hypothesis Hsel : selected ss indices = Some sel.

  Lemma pw_row_sig_spec done s t : sel = done ++ s :: t ->
    pw_row_sig ss indices (mv_len done) = POk s.
  Proof.
    intros E. unfold pw_row_sig. destruct indices as [idx|]; simpl in Hsel.
    - pose proof (select_length ss idx sel Hsel) as Hlen.
      destruct (mv_get_in_range idx (mv_len done)) as [k Hk].
      { unfold mv_len. rewrite <- Hlen, E, app_length. simpl. lia. }
      rewrite Hk. apply mv_get_nth_error in Hk.
      destruct (select_nth ss idx sel Hsel _ _ Hk) as [p [Hn Hp]].
      rewrite E, nth_error_app2, Nat.sub_diag in Hp by lia. simpl in Hp.
      unfold take. simpl. rewrite Hn, <- Hp. reflexivity.
    - inversion Hsel; subst ss. rewrite E. now rewrite mv_get_app_r.
  Qed.

  Lemma sel_cols done s t : sel = done ++ s :: t ->
    mv_slice sel (mv_len done + 1) (mv_len sel) = t.
  Proof.
    intros E. rewrite E.
    replace (done ++ s :: t) with ((done ++ [s]) ++ t ++ []) by (now rewrite <- app_assoc, app_nil_r).
    rewrite <- (mv_len_snoc done s).
    replace (mv_len ((done ++ [s]) ++ t ++ [])) with (mv_len (done ++ [s]) + mv_len t)
      by (unfold mv_len; rewrite !app_length; simpl; lia).
    apply mv_slice_mid.
  Qed.

  Lemma pw_col_sigs_spec done s t : sel = done ++ s :: t ->
    pw_col_sigs ss indices (mv_len done + 1) (mv_len sel) = POk t.
  Proof.
    intros E. unfold pw_col_sigs. destruct indices as [idx|]; simpl in Hsel.
    - unfold take. rewrite (select_slice ss idx sel _ _ Hsel). now rewrite (sel_cols done s t E).
    - inversion Hsel; subst ss. now rewrite (sel_cols done s t E).
  Qed.

  Lemma pw_flat_loop_spec : forall todo done vd rest,
    sel = done ++ todo -> length rest = length (dist_condensed todo) ->
    pw_flat_loop (length todo - 1) c d ss indices (mv_len sel) (mv_len done) (mv_len vd) (vd ++ rest)
    = POk (vd ++ dist_condensed todo).
  Proof.
    induction todo as [|s t IH]; intros done vd rest E Hl.
    - destruct rest; [|discriminate]. reflexivity.
    - destruct t as [|s' t'] eqn:Et.
      + simpl in Hl. destruct rest; [|discriminate]. reflexivity.
      + rewrite <- Et in *. replace (length (s :: t) - 1)%nat with (S (length t - 1))
          by (rewrite Et; simpl; lia).
        cbn [pw_flat_loop].
        rewrite (pw_row_sig_spec done s t E), (pw_col_sigs_spec done s t E). cbn [pbind].
        assert (Hs : sorted s /\ Forall sorted t).
        { rewrite E in Hsorted. apply Forall_app in Hsorted as [_ H]. inversion H; auto. }
        destruct Hs as [Hs Ht].
        simpl dist_condensed in Hl. rewrite app_length in Hl. unfold dist_row in Hl at 1.
        rewrite map_length in Hl.
        rewrite <- (firstn_skipn (length t) rest).
        set (r1 := firstn (length t) rest). set (r2 := skipn (length t) rest).
        assert (Hr1 : length r1 = length t) by (subst r1; rewrite firstn_length; lia).
        assert (Hr2 : length r2 = length (dist_condensed t)) by (subst r2; rewrite skipn_length; lia).
        replace (mv_len sel - mv_len done - 1) with (mv_len r1)
          by (unfold mv_len; rewrite Hr1, E, app_length; simpl; lia).
        unfold view_of. rewrite mv_slice_mid.
        rewrite C05_array_l; try assumption; [|simpl; apply Z.eqb_refl].
        assert (Hok : out_ok (Some ([mv_len r1], true, r1)) [mv_len t] = true).
        { simpl. rewrite !andb_true_r. apply Z.eqb_eq. unfold mv_len. now rewrite Hr1. }
        rewrite Hok. cbn [pbind].
        rewrite splice_mid by (unfold dist_row; rewrite map_length; lia).
        specialize (IH (done ++ [s]) (vd ++ dist_row s t) r2).
        rewrite mv_len_snoc in IH.
        replace (mv_len (vd ++ dist_row s t)) with (mv_len vd + mv_len r1) in IH
          by (unfold mv_len, dist_row; rewrite app_length, map_length, Hr1; lia).
        rewrite <- !app_assoc in IH. simpl dist_condensed.
        apply IH; [rewrite E; reflexivity|exact Hr2].
  Qed.
End Pairwise.

Lemma num_pairs_step n : 0 <= n -> num_pairs (n + 1) = n + num_pairs n.
Proof.
  intros H. unfold num_pairs. replace ((n + 1) * (n + 1 - 1)) with (n * (n - 1) + n * 2) by lia.
  rewrite Z.div_add by lia. lia.
Qed.

Lemma dist_condensed_length l : Z.of_nat (length (dist_condensed l)) = num_pairs (mv_len l).
Proof.
  induction l as [|s t IH]; [reflexivity|].
  simpl dist_condensed. rewrite app_length. unfold dist_row at 1. rewrite map_length.
  replace (mv_len (s :: t)) with (mv_len t + 1) by (unfold mv_len; simpl; lia).
  rewrite num_pairs_step by (unfold mv_len; lia). unfold mv_len in *. lia.
Qed.

(** condensed form *)
Lemma C05_pairwise_flat_l fx c d ss indices out sel :
  dtype_ok d = true -> Forall sorted ss -> wrap_ok fx c ss = true ->
  selected ss indices = Some sel -> buf1_wf out = true ->
  jd_pairwise_flat fx c d ss indices out =
    if out_ok out [num_pairs (mv_len sel)] then POk (dist_condensed sel) else PErr PValueError.
Proof.
  intros Hd Hss Hw Hsel Hwf. unfold jd_pairwise_flat.
  rewrite wrap_plain_spec, Hw. cbn [pbind].
  assert (Hn : pw_n ss indices = mv_len sel).
  { unfold pw_n. destruct indices as [idx|]; simpl in Hsel.
    - unfold mv_len. now rewrite (select_length ss idx sel Hsel).
    - now inversion Hsel. }
  rewrite Hn, check_out_spec.
  destruct (out_ok out [num_pairs (mv_len sel)]) eqn:Hok; [|reflexivity]. cbn [pbind].
  assert (HselS : Forall sorted sel).
  { destruct indices as [idx|]; simpl in Hsel; [eapply select_Forall; eauto|now inversion Hsel; subst]. }
  set (out0 := match out with
               | Some (_, _, cells) => cells
               | None => repeat uninit (Z.to_nat (num_pairs (mv_len sel)))
               end).
  assert (Hl : length out0 = length (dist_condensed sel)).
  { pose proof (dist_condensed_length sel) as HL. subst out0. destruct out as [[[sh f] cells]|].
    - simpl in Hok. apply andb_prop in Hok as [Hsh _]. apply shape_eqb_eq in Hsh. subst sh.
      simpl in Hwf. apply Z.eqb_eq in Hwf. unfold mv_len in Hwf at 2. lia.
    - rewrite repeat_length. lia. }
  replace (Z.to_nat (mv_len sel - 1)) with (length sel - 1)%nat by (unfold mv_len; lia).
  exact (pw_flat_loop_spec c d ss indices sel Hd HselS Hsel sel [] [] out0 eq_refl Hl).
Qed.

(** where the pair (i, j) sits in the condensed form *)
Lemma offset_step n i j : 0 <= i ->
  condensed_offset (n + 1) (i + 1) (j + 1) = n + condensed_offset n i j.
Proof.
  intros Hi. unfold condensed_offset.
  replace ((i + 1) * (i + 1 + 1)) with (i * (i + 1) + (i + 1) * 2) by lia.
  rewrite Z.div_add by lia. lia.
Qed.

Lemma offset_0 n j : condensed_offset n (Z.of_nat 0) j = j - 1.
Proof. unfold condensed_offset. change (Z.of_nat 0) with 0. rewrite Z.mul_0_r. change (0 * (0 + 1) / 2) with 0. lia. Qed.

Lemma dist_condensed_cell : forall sel i j si sj,
  (i < j)%nat -> nth_error sel i = Some si -> nth_error sel j = Some sj ->
  nth_error (dist_condensed sel)
            (Z.to_nat (condensed_offset (mv_len sel) (Z.of_nat i) (Z.of_nat j))) = Some (dist si sj).
Proof.
  induction sel as [|s t IH]; intros i j si sj Hij Hi Hj; [destruct i; discriminate|].
  destruct j as [|j]; [lia|]. simpl in Hj. simpl dist_condensed.
  assert (Hjt : (j < length t)%nat) by (apply nth_error_Some; congruence).
  destruct i as [|i]; simpl in Hi.
  - inversion Hi; subst si. rewrite offset_0.
    replace (Z.to_nat (Z.of_nat (S j) - 1)) with j by lia.
    rewrite nth_error_app1 by (unfold dist_row; rewrite map_length; exact Hjt).
    now apply map_nth_error.
  - replace (mv_len (s :: t)) with (mv_len t + 1) by (unfold mv_len; simpl; lia).
    replace (Z.of_nat (S i)) with (Z.of_nat i + 1) by lia.
    replace (Z.of_nat (S j)) with (Z.of_nat j + 1) by lia.
    rewrite offset_step by lia.
    assert (Hoff : 0 <= condensed_offset (mv_len t) (Z.of_nat i) (Z.of_nat j)).
    { unfold condensed_offset, mv_len.
      assert (Hit : (i < length t)%nat) by (apply nth_error_Some; congruence).
      assert (Z.of_nat i * (Z.of_nat i + 1) / 2 <= Z.of_nat i * Z.of_nat (length t)).
      { apply Z.div_le_upper_bound; nia. }
      nia. }
    specialize (IH i j si sj ltac:(lia) Hi Hj).
    set (off := condensed_offset (mv_len t) (Z.of_nat i) (Z.of_nat j)) in *.
    assert (Hlen : length (dist_row s t) = Z.to_nat (mv_len t))
      by (unfold dist_row, mv_len; rewrite map_length; lia).
    rewrite nth_error_app2 by (rewrite Hlen; unfold mv_len; lia).
    replace (Z.to_nat (mv_len t + off) - length (dist_row s t))%nat with (Z.to_nat off)
      by (rewrite Hlen; unfold mv_len; lia).
    exact IH.
Qed.

(** the statement that remains unproved for the square form of the model *)
Definition C05_pairwise_square_statement : Prop :=
  forall fx c d ss indices out sel,
    dtype_ok d = true -> Forall sorted ss -> wrap_ok fx c ss = true ->
    selected ss indices = Some sel -> buf2_wf out = true ->
    out_ok out [mv_len sel; mv_len sel] = true ->
    exists rows, jd_pairwise_square fx c d ss indices out = POk rows /\
      length rows = length sel /\
      forall i j si sj, nth_error sel i = Some si -> nth_error sel j = Some sj ->
        exists row, nth_error rows i = Some row /\
          nth_error row j = Some (if Nat.eqb i j then f32_zero else dist si sj).

(** instances (computed): n = 4 with an empty signature and a duplicate, both forms *)
Definition bits_of (r : pres (list f32)) : option (list Z) :=
  match r with POk l => Some (map f32_bits l) | PErr _ => None end.
Definition bits2_of (r : pres (list (list f32))) : option (list (list Z)) :=
  match r with POk l => Some (map (map f32_bits) l) | PErr _ => None end.

Example C05_pairwise_flat_ex :
  bits_of (jd_pairwise_flat true CArray (0, 2) [[]; [1]; [1; 2; 5]; [1; 2; 5]] (Some [3; -1; 0; 1]) None)
  = Some (map f32_bits (dist_condensed [[1; 2; 5]; [1; 2; 5]; []; [1]])).
Proof. vm_compute. reflexivity. Qed.

Example C05_pairwise_square_ex :
  bits2_of (jd_pairwise_square true CHdf5 (0, 2) [[]; [1]; [1; 2; 5]; [1; 2; 5]] None None)
  = Some [[0; 1065353216; 1065353216; 1065353216];
          [1065353216; 0; 1059760811; 1059760811];
          [1065353216; 1059760811; 0; 0];
          [1065353216; 1059760811; 0; 0]].
Proof. vm_compute. reflexivity. Qed.
