(** Proofs for C14 (k-mer parameters are never compared silently). *)
From Coq Require Import ZArith List Bool Lia.
From GV Require Import Model.C14 Spec.C14.
Import ListNotations.
Open Scope Z_scope.

(* ---- equality of parameter sets ----------------------------------------------------------- *)

Lemma zlist_eqb_eq : forall a b, zlist_eqb a b = true <-> a = b.
Proof.
  induction a as [|x a IH]; intros [|y b]; cbn; split; intro H; try reflexivity; try discriminate.
  - apply andb_true_iff in H. destruct H as [Hx Hr]. apply Z.eqb_eq in Hx. apply IH in Hr. now subst.
  - inversion H; subst. apply andb_true_iff. split. apply Z.eqb_refl. now apply IH.
Qed.

Lemma kspec_eqb_eq : forall a b, kspec_eqb a b = true <-> a = b.
Proof.
  intros [ka pa] [kb pb]. unfold kspec_eqb. cbn. rewrite andb_true_iff, Z.eqb_eq, zlist_eqb_eq.
  split. intros [-> ->]. reflexivity. intro H. inversion H. auto.
Qed.

Lemma kspec_eqb_refl : forall a, kspec_eqb a a = true.
Proof. intro a. now apply kspec_eqb_eq. Qed.

Lemma kspec_eqb_neq : forall a b, kspec_eqb a b = false <-> a <> b.
Proof.
  intros a b. split.
  - intros H E. apply kspec_eqb_eq in E. congruence.
  - intro H. destruct (kspec_eqb a b) eqn:E; [apply kspec_eqb_eq in E; contradiction | reflexivity].
Qed.

(* ---- kspec_from_params --------------------------------------------------------------------- *)

Lemma kspec_from_params_char_l : forall k p d,
  match kspec_from_params k p d with
  | Ok None => k = None /\ p = None /\ d = false
  | Ok (Some s) =>
      (k = None /\ p = None /\ d = true /\ s = default_kspec) \/
      (exists kv pv, k = Some kv /\ p = Some pv /\ 5 <= kv /\ (2 <= length pv)%nat /\
                     s = KS kv (map upper_byte pv) /\ forallb is_nuc (ks_prefix s) = true)
  | Failed e =>
      (e = ENeedBoth /\ (is_some k = negb (is_some p))) \/
      (exists kv pv, k = Some kv /\ p = Some pv /\
         ((e = EMinK /\ kv < 5) \/ (e = EMinPrefix /\ 5 <= kv /\ (length pv < 2)%nat) \/
          (e = EBadNuc /\ 5 <= kv /\ (2 <= length pv)%nat /\ forallb is_nuc (map upper_byte pv) = false)))
  end.
Proof.
  intros [kv|] [pv|] d; unfold kspec_from_params, min_k, min_prefix_len; cbn [is_some negb].
  - destruct (kv <? 5) eqn:Ek.
    + right. exists kv, pv. repeat split. left. split. reflexivity. now apply Z.ltb_lt.
    + apply Z.ltb_ge in Ek. destruct (Z.of_nat (length pv) <? 2) eqn:El.
      * right. exists kv, pv. repeat split. right. left. apply Z.ltb_lt in El. repeat split; lia.
      * apply Z.ltb_ge in El. destruct (forallb is_nuc (map upper_byte pv)) eqn:En.
        -- right. exists kv, pv. repeat split; try lia. exact En.
        -- right. exists kv, pv. repeat split. right. right. repeat split; try lia. exact En.
  - left. split; reflexivity.
  - left. split; reflexivity.
  - destruct d. left. repeat split. repeat split.
Qed.

Lemma kspec_from_params_default_some : forall k p, kspec_from_params k p true <> Ok None.
Proof.
  intros k p H. pose proof (kspec_from_params_char_l k p true) as C. rewrite H in C.
  destruct C as (_ & _ & C). discriminate.
Qed.

Lemma kspec_from_params_none : forall d, kspec_from_params None None d = Ok (if d then Some default_kspec else None).
Proof. reflexivity. Qed.

(* ---- runs ---------------------------------------------------------------------------------- *)

Lemma failed_reported : forall e, reported (failed e).
Proof.
  intro e. unfold reported, failed. cbn. split; [lia|]. split; [intro H; exact H|].
  split; [intros a b H; exact H|]. exists e. reflexivity.
Qed.

Lemma failed_compares_equal : forall e, compares_equal (failed e).
Proof. intros e a b H. destruct H. Qed.

Lemma failed_consistent : forall e, computed_consistently (failed e).
Proof. intros e sd s H. destruct H. Qed.

Lemma failed_run_ok : forall e, run_ok (failed e) = true.
Proof. reflexivity. Qed.

Ltac splits := repeat match goal with |- _ /\ _ => split end; try (intros; reflexivity).

Ltac in_cases H :=
  repeat match type of H with
  | In _ (_ ++ _) => apply in_app_or in H; destruct H as [H|H]
  | In _ (_ :: _) => destruct H as [H|H]
  | In _ [] => destruct H
  | _ \/ _ => destruct H as [H|H]
  | False => destruct H
  end.

(* ---- dist ---------------------------------------------------------------------------------- *)

(** what a successful reconciliation guarantees (no hypothesis on the command line) *)
Ltac recon_done Ek :=
  let H := fresh "H" in
  intro H; inversion H; subst; clear H; cbn;
  repeat split; try congruence; try (intros; congruence);
  try (intros s [<-|[]]; reflexivity);
  try (intros s []; fail);
  try (let K := fresh "K" in let P := fresh "P" in intros K P; rewrite K, P in Ek; discriminate).

Lemma dist_reconcile_use_l : forall o p,
  dist_reconcile o = Ok p ->
  p_query p = d_qs o /\ p_ref p = dist_ref_source o /\
  (forall s, p_query p = Some s -> s = p_use p) /\
  (forall s, p_ref p = Some s -> s = p_use p) /\
  (forall s, In s (explicit_params (d_k o) (d_prefix o)) -> s = p_use p) /\
  (d_k o = None -> d_prefix o = None -> p_query p = None -> p_ref p = None -> p_use p = default_kspec).
Proof.
  intros o p. unfold dist_reconcile, dist_ref_source, explicit_params.
  destruct (check_group 1 _); [discriminate|].
  destruct (check_group 2 _); [discriminate|].
  assert (Href : forall (P : Prop),
    (forall r, (match d_rs o with Some s => Some s | None => if d_use_db o then d_db o else None end) = r ->
       (match d_rs o with
        | Some s => Ok (Some s)
        | None => if d_use_db o then match d_db o with Some s => Ok (Some s) | None => Failed ENoDb end else Ok None
        end) = Ok r -> P) ->
    (forall e, (match d_rs o with
        | Some s => Ok (Some s)
        | None => if d_use_db o then match d_db o with Some s => Ok (Some s) | None => Failed ENoDb end else Ok None
        end) = Failed e -> P) -> P).
  { intros P H1 H2. destruct (d_rs o); [eapply H1; reflexivity|].
    destruct (d_use_db o); [|eapply H1; reflexivity].
    destruct (d_db o); [eapply H1; reflexivity | eapply H2; reflexivity]. }
  apply Href; clear Href.
  2:{ intros e ->. discriminate. }
  intros r -> ->.
  destruct (kspec_from_params (d_k o) (d_prefix o) false) as [[ks|]|e] eqn:Ek; [| |discriminate].
  - destruct (d_qs o) as [qs|] eqn:Eqs; destruct r as [rs|].
    + destruct (kspec_eqb qs ks) eqn:E1; cbn [negb]; [|discriminate].
      destruct (kspec_eqb rs ks) eqn:E2; cbn [negb]; [|discriminate].
      apply kspec_eqb_eq in E1, E2. subst. recon_done Ek.
    + destruct (kspec_eqb qs ks) eqn:E1; cbn [negb]; [|discriminate].
      apply kspec_eqb_eq in E1. subst. recon_done Ek.
    + destruct (kspec_eqb rs ks) eqn:E2; cbn [negb]; [|discriminate].
      apply kspec_eqb_eq in E2. subst. recon_done Ek.
    + recon_done Ek.
  - destruct (d_qs o) as [qs|] eqn:Eqs; destruct r as [rs|].
    + destruct (kspec_eqb qs rs) eqn:E1; [|discriminate]. apply kspec_eqb_eq in E1. subst. recon_done Ek.
    + recon_done Ek.
    + recon_done Ek.
    + recon_done Ek.
Qed.

Lemma dist_execute_shape : forall sq p,
  (forall s, p_query p = Some s -> s = p_use p) ->
  (forall s, p_ref p = Some s -> s = p_use p) ->
  dist_execute sq p =
    (if is_some (p_query p) then [] else [Calc Query (p_use p)]) ++
    (if sq || is_some (p_ref p) then [] else [Calc Ref (p_use p)]) ++
    [Compare (p_use p) (p_use p); Write].
Proof.
  intros sq [u q r] Hq Hr. cbn in *.
  destruct q as [q|]; [pose proof (Hq q eq_refl); subst q|];
    (destruct r as [r|]; [pose proof (Hr r eq_refl); subst r|]);
    unfold dist_execute; cbn; destruct sq; reflexivity.
Qed.

(** every distance run: equal parameters on both sides of the comparison, files computed with
    them, and either status 0 with the result written or a reported error *)
Lemma dist_no_silent_l : forall o,
  let r := dist_cmd o in
  compares_equal r /\ computed_consistently r /\
  (exit_status r = 0 /\ In Write (steps r) /\ error r = None \/ reported r) /\ run_ok r = true.
Proof.
  intro o. unfold dist_cmd. destruct (dist_reconcile o) as [p|e] eqn:E.
  - destruct (dist_reconcile_use_l o p E) as (_ & _ & Hq & Hr & _).
    cbn zeta. unfold finished. rewrite (dist_execute_shape _ p Hq Hr).
    repeat split.
    + intros a b H. cbn [steps] in H. in_cases H;
        try (destruct (is_some (p_query p)); in_cases H; discriminate);
        try (destruct (d_square o || is_some (p_ref p)); in_cases H; discriminate);
        try discriminate. inversion H. reflexivity.
    + intros sd s H a b H2. cbn [steps] in H, H2.
      assert (a = p_use p /\ b = p_use p) as [-> ->].
      { in_cases H2; try (destruct (is_some (p_query p)); in_cases H2; discriminate);
          try (destruct (d_square o || is_some (p_ref p)); in_cases H2; discriminate); try discriminate.
        inversion H2. auto. }
      in_cases H; try discriminate.
      * destruct (is_some (p_query p)); in_cases H; try discriminate. inversion H. reflexivity.
      * destruct (d_square o || is_some (p_ref p)); in_cases H; try discriminate. inversion H. reflexivity.
    + left. cbn. repeat split. apply in_or_app. right. apply in_or_app. right. right. left. reflexivity.
    + unfold run_ok. cbn [steps exit_status error]. rewrite !forallb_app, !existsb_app.
      destruct (is_some (p_query p)), (d_square o || is_some (p_ref p)); cbn; rewrite kspec_eqb_refl; reflexivity.
  - cbn zeta. repeat split.
    + apply failed_compares_equal.
    + apply failed_consistent.
    + right. apply failed_reported.
Qed.

Lemma exactly_one_check_group : forall g l, exactly_one l = true -> check_group g l = None.
Proof.
  intros g l H. unfold exactly_one in H. apply Nat.eqb_eq in H. unfold check_group. rewrite H. reflexivity.
Qed.

Lemma check_group_exactly_one : forall g l, check_group g l = None -> exactly_one l = true.
Proof.
  intros g l. unfold check_group, exactly_one. destruct (count_true l) as [|[|n]]; try discriminate. reflexivity.
Qed.

(** well-formed command line: the run is exactly what the declarative reading prescribes *)
Lemma dist_spec_l : forall o, dist_wf o = true ->
  match spec_dist o with
  | Some s => dist_cmd o = finished (dist_steps_with o s)
  | None => exists e, dist_cmd o = failed e /\ is_mismatch_err e = true
  end.
Proof.
  intros o Hwf. unfold dist_wf in Hwf. rewrite !andb_true_iff in Hwf.
  destruct Hwf as (((Hg1 & Hg2) & Hdb) & Hk).
  assert (Hsq : d_square o = true -> d_rs o = None /\ d_use_db o = false).
  { intro S. unfold exactly_one, count_true in Hg2. rewrite S in Hg2.
    destruct (d_r o), (d_rl o), (d_rs o), (d_use_db o); cbn in Hg2; try discriminate. auto. }
  unfold spec_dist, dist_params, dist_cmd, dist_reconcile, dist_steps_with, dist_ref_source, explicit_params in *.
  rewrite (exactly_one_check_group 1 _ Hg1), (exactly_one_check_group 2 _ Hg2).
  destruct (kspec_from_params (d_k o) (d_prefix o) false) as [[ks|]|e] eqn:Ek; [| |discriminate].
  - (* explicit options *)
    destruct (d_qs o) as [qs|] eqn:Eqs; destruct (d_rs o) as [rs|] eqn:Ers; cbn [opt_list app all_agree forallb is_some].
    + destruct (kspec_eqb ks qs) eqn:E1.
      * apply kspec_eqb_eq in E1. subst qs. rewrite kspec_eqb_refl. cbn [negb andb].
        destruct (kspec_eqb ks rs) eqn:E2.
        -- apply kspec_eqb_eq in E2. subst rs. rewrite kspec_eqb_refl. cbn [negb andb].
           destruct (d_square o) eqn:S; [destruct (Hsq eq_refl); discriminate|].
           unfold finished, dist_execute. cbn. reflexivity.
        -- cbn [andb]. assert (kspec_eqb rs ks = false) as ->.
           { apply kspec_eqb_neq. apply kspec_eqb_neq in E2. congruence. }
           cbn. exists EOptRef. split; reflexivity.
      * cbn [andb]. assert (kspec_eqb qs ks = false) as ->.
        { apply kspec_eqb_neq. apply kspec_eqb_neq in E1. congruence. }
        cbn. exists EOptQuery. split; reflexivity.
    + destruct (d_use_db o) eqn:Eu.
      * destruct (d_db o) as [db|] eqn:Edb; [|cbn in Hdb; discriminate].
        cbn [opt_list app all_agree forallb].
        destruct (kspec_eqb ks qs) eqn:E1.
        -- apply kspec_eqb_eq in E1. subst qs. rewrite kspec_eqb_refl. cbn [negb andb].
           destruct (kspec_eqb ks db) eqn:E2.
           ++ apply kspec_eqb_eq in E2. subst db. rewrite kspec_eqb_refl. cbn [negb andb].
              destruct (d_square o) eqn:S; [destruct (Hsq eq_refl); discriminate|].
              unfold finished, dist_execute. cbn. reflexivity.
           ++ cbn [andb]. assert (kspec_eqb db ks = false) as ->.
              { apply kspec_eqb_neq. apply kspec_eqb_neq in E2. congruence. }
              cbn. exists EOptRef. split; reflexivity.
        -- cbn [andb]. assert (kspec_eqb qs ks = false) as ->.
           { apply kspec_eqb_neq. apply kspec_eqb_neq in E1. congruence. }
           cbn. exists EOptQuery. split; reflexivity.
      * cbn [opt_list app all_agree forallb].
        destruct (kspec_eqb ks qs) eqn:E1.
        -- apply kspec_eqb_eq in E1. subst qs. rewrite kspec_eqb_refl. cbn [negb andb].
           unfold finished, dist_execute. cbn. destruct (d_square o); reflexivity.
        -- cbn [andb]. assert (kspec_eqb qs ks = false) as ->.
           { apply kspec_eqb_neq. apply kspec_eqb_neq in E1. congruence. }
           cbn. exists EOptQuery. split; reflexivity.
    + destruct (kspec_eqb ks rs) eqn:E2.
      * apply kspec_eqb_eq in E2. subst rs. rewrite kspec_eqb_refl. cbn [negb andb].
        destruct (d_square o) eqn:S; [destruct (Hsq eq_refl); discriminate|].
        unfold finished, dist_execute. cbn. reflexivity.
      * cbn [andb]. assert (kspec_eqb rs ks = false) as ->.
        { apply kspec_eqb_neq. apply kspec_eqb_neq in E2. congruence. }
        cbn. exists EOptRef. split; reflexivity.
    + destruct (d_use_db o) eqn:Eu.
      * destruct (d_db o) as [db|] eqn:Edb; [|cbn in Hdb; discriminate].
        cbn [opt_list app all_agree forallb].
        destruct (kspec_eqb ks db) eqn:E2.
        -- apply kspec_eqb_eq in E2. subst db. rewrite kspec_eqb_refl. cbn [negb andb].
           destruct (d_square o) eqn:S; [destruct (Hsq eq_refl); discriminate|].
           unfold finished, dist_execute. cbn. reflexivity.
        -- cbn [andb]. assert (kspec_eqb db ks = false) as ->.
           { apply kspec_eqb_neq. apply kspec_eqb_neq in E2. congruence. }
           cbn. exists EOptRef. split; reflexivity.
      * cbn [opt_list app all_agree forallb]. unfold finished, dist_execute. cbn.
        destruct (d_square o); reflexivity.
  - (* no explicit options *)
    destruct (d_qs o) as [qs|] eqn:Eqs; destruct (d_rs o) as [rs|] eqn:Ers; cbn [opt_list app all_agree forallb is_some].
    + destruct (kspec_eqb qs rs) eqn:E1; cbn [andb].
      * apply kspec_eqb_eq in E1. subst rs.
        destruct (d_square o) eqn:S; [destruct (Hsq eq_refl); discriminate|].
        unfold finished, dist_execute. cbn. reflexivity.
      * exists EQueryRef. split; reflexivity.
    + destruct (d_use_db o) eqn:Eu.
      * destruct (d_db o) as [db|] eqn:Edb; [|cbn in Hdb; discriminate].
        cbn [opt_list app all_agree forallb].
        destruct (kspec_eqb qs db) eqn:E1; cbn [andb].
        -- apply kspec_eqb_eq in E1. subst db.
           destruct (d_square o) eqn:S; [destruct (Hsq eq_refl); discriminate|].
           unfold finished, dist_execute. cbn. reflexivity.
        -- exists EQueryRef. split; reflexivity.
      * cbn [opt_list app all_agree forallb]. unfold finished, dist_execute. cbn.
        destruct (d_square o); reflexivity.
    + destruct (d_square o) eqn:S; [destruct (Hsq eq_refl); discriminate|].
      unfold finished, dist_execute. cbn. reflexivity.
    + destruct (d_use_db o) eqn:Eu.
      * destruct (d_db o) as [db|] eqn:Edb; [|cbn in Hdb; discriminate].
        cbn [opt_list app all_agree forallb].
        destruct (d_square o) eqn:S; [destruct (Hsq eq_refl); discriminate|].
        unfold finished, dist_execute. cbn. reflexivity.
      * cbn [opt_list app all_agree forallb]. unfold finished, dist_execute. cbn.
        destruct (d_square o); reflexivity.
Qed.

(* ---- "differing sources are refused" without any hypothesis on the command line ----------- *)

Lemma all_agree_same : forall l u, (forall s, In s l -> s = u) -> all_agree l = Some (hd default_kspec l).
Proof.
  intros [|a l] u H; cbn [all_agree hd]. reflexivity.
  assert (forallb (kspec_eqb a) l = true) as ->; [|reflexivity].
  apply forallb_forall. intros x Hx. apply kspec_eqb_eq.
  rewrite (H a (or_introl eq_refl)), (H x (or_intror Hx)). reflexivity.
Qed.

Lemma all_agree_none : forall l, all_agree l = None -> exists a b, In a l /\ In b l /\ a <> b.
Proof.
  intros [|a l]; cbn [all_agree]. discriminate.
  destruct (forallb (kspec_eqb a) l) eqn:E; [discriminate|]. intros _.
  assert (existsb (fun x => negb (kspec_eqb a x)) l = true) as Hx.
  { clear -E. induction l as [|x l IH]; cbn in *. discriminate.
    destruct (kspec_eqb a x); cbn in *. apply IH, E. reflexivity. }
  apply existsb_exists in Hx. destruct Hx as (x & Hin & Hne).
  exists a, x. repeat split. left; reflexivity. right; exact Hin.
  apply kspec_eqb_neq. now apply negb_true_iff.
Qed.

Lemma all_agree_some : forall l s, all_agree l = Some s -> forall x, In x l -> x = s.
Proof.
  intros [|a l] s; cbn [all_agree]. intros _ x [].
  destruct (forallb (kspec_eqb a) l) eqn:E; [|discriminate]. intros H x Hx. inversion H; subst.
  destruct Hx as [<-|Hx]. reflexivity. rewrite forallb_forall in E. symmetry. apply kspec_eqb_eq. now apply E.
Qed.

Lemma dist_params_of_plan : forall o p, dist_reconcile o = Ok p ->
  forall s, In s (dist_params o) -> s = p_use p.
Proof.
  intros o p H s Hs. destruct (dist_reconcile_use_l o p H) as (Eq & Er & Hq & Hr & He & _).
  unfold dist_params in Hs. in_cases Hs.
  - now apply He.
  - apply Hq. rewrite Eq. destruct (d_qs o); cbn in Hs; [destruct Hs as [<-|[]]; reflexivity | destruct Hs].
  - apply Hr. rewrite Er. destruct (dist_ref_source o); cbn in Hs; [destruct Hs as [<-|[]]; reflexivity | destruct Hs].
Qed.

(** any two present sources that differ -- explicit options, query signatures, reference
    signatures / database -- make the command fail, whatever else is on the command line *)
Lemma dist_mismatch_reported_l : forall o a b,
  In a (dist_params o) -> In b (dist_params o) -> a <> b -> reported (dist_cmd o).
Proof.
  intros o a b Ha Hb Hne. unfold dist_cmd. destruct (dist_reconcile o) as [p|e] eqn:E.
  - exfalso. apply Hne. rewrite (dist_params_of_plan o p E a Ha), (dist_params_of_plan o p E b Hb). reflexivity.
  - apply failed_reported.
Qed.

(** a finished distance run used, on both sides and for every computation, the one parameter set
    every present source carries *)
Lemma dist_finished_l : forall o, exit_status (dist_cmd o) = 0 ->
  exists s, spec_dist o = Some s /\ dist_cmd o = finished (dist_steps_with o s) /\
            (forall x, In x (dist_params o) -> x = s).
Proof.
  intros o. unfold dist_cmd. destruct (dist_reconcile o) as [p|e] eqn:E; [|cbn; lia]. intros _.
  destruct (dist_reconcile_use_l o p E) as (Eq & Er & Hq & Hr & He & Hd).
  pose proof (dist_params_of_plan o p E) as Hall.
  assert (Hs : spec_dist o = Some (p_use p)).
  { unfold spec_dist. rewrite (all_agree_same _ (p_use p) Hall).
    destruct (dist_params o) as [|x l] eqn:El; cbn [hd].
    - f_equal. symmetry. unfold dist_params in El.
      destruct (explicit_params (d_k o) (d_prefix o)) eqn:Ee; [|discriminate].
      destruct (d_qs o) eqn:Eqs; [discriminate|]. destruct (dist_ref_source o) eqn:Ers; [discriminate|].
      unfold explicit_params in Ee.
      assert (kspec_from_params (d_k o) (d_prefix o) false = Ok None) as Kn.
      { unfold dist_reconcile in E.
        destruct (check_group 1 _); [discriminate|]. destruct (check_group 2 _); [discriminate|].
        destruct (match d_rs o with Some s => Ok (Some s) | None => _ end); [|discriminate].
        destruct (kspec_from_params (d_k o) (d_prefix o) false) as [[ks|]|e]; try discriminate. reflexivity. }
      pose proof (kspec_from_params_char_l (d_k o) (d_prefix o) false) as C. rewrite Kn in C.
      destruct C as (K & P & _). apply Hd; congruence.
    - f_equal. apply Hall. left. reflexivity. }
  exists (p_use p). split; [exact Hs|]. split; [|exact Hall].
  unfold finished. f_equal. rewrite (dist_execute_shape _ p Hq Hr). unfold dist_steps_with.
  rewrite Eq, Er. reflexivity.
Qed.

(** no explicit options: the parameters are those of the pre-computed query signatures, else of
    the pre-computed reference signatures / the database, else the default ones *)
Lemma dist_defaults_l : forall o, d_k o = None -> d_prefix o = None ->
  exit_status (dist_cmd o) = 0 ->
  dist_cmd o = finished (dist_steps_with o
    match d_qs o with
    | Some q => q
    | None => match dist_ref_source o with Some r => r | None => default_kspec end
    end).
Proof.
  intros o K P E. destruct (dist_finished_l o E) as (s & Hs & Hr & _). rewrite Hr. do 2 f_equal.
  unfold spec_dist, dist_params, explicit_params in Hs. rewrite K, P in Hs. cbn [kspec_from_params app] in Hs.
  destruct (d_qs o) as [q|]; cbn [opt_list app all_agree] in Hs.
  - destruct (forallb (kspec_eqb q) _); congruence.
  - destruct (dist_ref_source o) as [r|]; cbn [opt_list app all_agree forallb] in Hs; congruence.
Qed.

(* ---- query --------------------------------------------------------------------------------- *)

Lemma query_files_l : forall fixed o, q_sigfile o = None ->
  compares_equal (query_cmd fixed o) /\ computed_consistently (query_cmd fixed o) /\
  (query_wf o = true -> exists db, q_db o = Some db /\
     query_cmd fixed o = finished [Calc Query db; Compare db db; Write]).
Proof.
  intros fixed o Hs. unfold query_cmd, query_wf. rewrite Hs.
  destruct (check_group 3 _) eqn:G.
  - splits. apply failed_compares_equal. apply failed_consistent.
    intro W. apply andb_true_iff in W. destruct W as [W _].
    rewrite (exactly_one_check_group 3 _ W) in G. discriminate.
  - destruct (q_db o) as [db|].
    + splits.
      * intros a b H. cbn in H. in_cases H; try discriminate. inversion H. reflexivity.
      * intros sd s H a b H2. cbn in H, H2. in_cases H; try discriminate. in_cases H2; try discriminate.
        inversion H. inversion H2. subst. reflexivity.
      * intros _. exists db. split; reflexivity.
    + splits. apply failed_compares_equal. apply failed_consistent.
      intro W. apply andb_true_iff in W. destruct W as [_ W]. discriminate.
Qed.

(** the command as found: a (7,"AC") signature file against a (6,"AT") database runs to
    completion, compares the two and writes a result *)
Definition query_witness : query_opts :=
  QueryOpts false false (Some (KS 7 [65; 67])) (Some (KS 6 [65; 84])).

Lemma query_sigfile_refuted_l :
  exists o, query_wf o = true /\ spec_query o = None /\
            query_cmd false o = finished [Compare (KS 7 [65; 67]) (KS 6 [65; 84]); Write] /\
            silent_mismatch (query_cmd false o).
Proof.
  exists query_witness. split; [reflexivity|]. split; [reflexivity|]. split; [reflexivity|].
  unfold silent_mismatch. cbn. split; [reflexivity|]. split; [right; left; reflexivity|].
  exists (KS 7 [65; 67]), (KS 6 [65; 84]). split; [left; reflexivity|]. discriminate.
Qed.

Lemma query_fixed_l : forall o,
  let r := query_cmd true o in
  compares_equal r /\ computed_consistently r /\
  (exit_status r = 0 /\ In Write (steps r) /\ error r = None \/ reported r) /\
  (query_wf o = true ->
     match spec_query o with
     | Some s => r = finished ((if is_some (q_sigfile o) then [] else [Calc Query s]) ++ [Compare s s; Write])
     | None => r = failed ESigDb
     end) /\
  (forall s db, q_sigfile o = Some s -> q_db o = Some db -> s <> db -> reported r).
Proof.
  intro o. cbn zeta. unfold query_cmd, query_wf, spec_query.
  destruct (check_group 3 _) eqn:G.
  { splits; try apply failed_compares_equal; try apply failed_consistent.
    - right. apply failed_reported.
    - intro W. apply andb_true_iff in W. destruct W as [W _].
      rewrite (exactly_one_check_group 3 _ W) in G. discriminate.
    - intros. apply failed_reported. }
  destruct (q_db o) as [db|].
  2:{ splits; try apply failed_compares_equal; try apply failed_consistent.
      - right. apply failed_reported.
      - intro W. apply andb_true_iff in W. destruct W as [_ W]. discriminate.
      - intros. apply failed_reported. }
  destruct (q_sigfile o) as [s|]; cbn [andb opt_list app all_agree forallb is_some].
  - destruct (kspec_eqb s db) eqn:E; cbn [negb andb].
    + apply kspec_eqb_eq in E. subst db. splits.
      * intros a b H. cbn in H. in_cases H; try discriminate. inversion H. reflexivity.
      * intros sd x H. cbn in H. in_cases H; discriminate.
      * left. cbn. intuition.
      * intros s0 db0 H1 H2 Hne. inversion H1. inversion H2. subst. contradiction.
    + splits; try apply failed_compares_equal; try apply failed_consistent.
      * right. apply failed_reported.
      * intros. apply failed_reported.
  - splits.
    + intros a b H. cbn in H. in_cases H; try discriminate. inversion H. reflexivity.
    + intros sd x H a b H2. cbn in H, H2. in_cases H; try discriminate. in_cases H2; try discriminate.
      inversion H. inversion H2. subst. reflexivity.
    + left. cbn. intuition.
    + intros s0 db0 H1. discriminate.
Qed.

(* ---- tree ---------------------------------------------------------------------------------- *)

Lemma tree_l : forall o,
  let r := tree_cmd o in
  compares_equal r /\ computed_consistently r /\
  (exit_status r = 0 /\ In Write (steps r) /\ error r = None \/ reported r) /\
  (forall s, t_sigfile o = Some s -> exit_status r = 0 -> r = finished [Compare s s; Write]) /\
  (t_sigfile o = None -> exit_status r = 0 ->
     exists s, r = finished [Calc Query s; Compare s s; Write] /\
               (explicit_params (t_k o) (t_prefix o) = [s] \/
                t_k o = None /\ t_prefix o = None /\ s = default_kspec)).
Proof.
  intro o. cbn zeta. unfold tree_cmd.
  destruct (check_group 4 _) eqn:G.
  { splits; try apply failed_compares_equal; try apply failed_consistent.
    - right. apply failed_reported.
    - cbn. intros; lia.
    - cbn. intros; lia. }
  destruct (t_sigfile o) as [s|].
  - splits.
    + intros a b H. cbn in H. in_cases H; try discriminate. inversion H. reflexivity.
    + intros sd x H. cbn in H. in_cases H; discriminate.
    + left. cbn. intuition.
    + intros s0 H _. inversion H. reflexivity.
    + discriminate.
  - pose proof (kspec_from_params_char_l (t_k o) (t_prefix o) true) as C.
    unfold explicit_params.
    destruct (kspec_from_params (t_k o) (t_prefix o) true) as [[ks|]|e] eqn:Ek.
    + splits.
      * intros a b H. cbn in H. in_cases H; try discriminate. inversion H. reflexivity.
      * intros sd x H a b H2. cbn in H, H2. in_cases H; try discriminate. in_cases H2; try discriminate.
        inversion H. inversion H2. subst. reflexivity.
      * left. cbn. intuition.
      * discriminate.
      * intros _ _. exists ks. split; [reflexivity|].
        destruct C as [(K & P & _ & S)|(kv & pv & K & P & Hk & Hp & S & N)].
        -- right. auto.
        -- left. rewrite K, P in *. unfold kspec_from_params in *.
           destruct (kv <? min_k); [discriminate|].
           destruct (Z.of_nat (length pv) <? min_prefix_len); [discriminate|].
           destruct (forallb is_nuc (map upper_byte pv)); [|discriminate]. inversion Ek; reflexivity.
    + destruct C as (_ & _ & C). discriminate.
    + splits; try apply failed_compares_equal; try apply failed_consistent.
      * right. apply failed_reported.
      * discriminate.
      * cbn. intros; lia.
Qed.

(* ---- signatures create --------------------------------------------------------------------- *)

Lemma create_l : forall o s, create_kspec o = Ok s ->
  (c_db_params o = true -> c_db o = Some s /\ c_k o = None /\ c_prefix o = None) /\
  (c_db_params o = false ->
     explicit_params (c_k o) (c_prefix o) = [s] \/
     c_k o = None /\ c_prefix o = None /\ s = default_kspec).
Proof.
  intros o s. unfold create_kspec, explicit_params.
  destruct (check_group 5 _); [discriminate|].
  pose proof (kspec_from_params_char_l (c_k o) (c_prefix o) false) as C.
  destruct (kspec_from_params (c_k o) (c_prefix o) false) as [[ks|]|e]; [| |discriminate].
  - destruct (c_db_params o); [discriminate|]. intro H. inversion H; subst. split; [discriminate|].
    intros _. left. reflexivity.
  - destruct C as (K & P & _). destruct (c_db_params o).
    + destruct (c_db o); [|discriminate]. intro H. inversion H; subst. split; [auto|discriminate].
    + intro H. inversion H; subst. split; [discriminate|]. intros _. right. auto.
Qed.

Lemma create_db_params_exclusive_l : forall o s,
  check_group 5 [c_list o; c_files o] = None -> c_db_params o = true ->
  explicit_params (c_k o) (c_prefix o) = [s] -> create_cmd o = failed EDbParamsExcl.
Proof.
  intros o s G D E. unfold create_cmd, create_kspec, explicit_params in *. rewrite G, D.
  destruct (kspec_from_params (c_k o) (c_prefix o) false) as [[ks|]|e]; try discriminate. reflexivity.
Qed.

Lemma create_run_l : forall o,
  let r := create_cmd o in
  compares_equal r /\ computed_consistently r /\
  (exit_status r = 0 /\ In Write (steps r) /\ error r = None \/ reported r).
Proof.
  intro o. cbn zeta. unfold create_cmd. destruct (create_kspec o) as [ks|e].
  - splits.
    + intros a b H. cbn in H. in_cases H; discriminate.
    + intros sd x H a b H2. cbn in H2. in_cases H2; discriminate.
    + left. cbn. intuition.
  - splits; try apply failed_compares_equal; try apply failed_consistent. right. apply failed_reported.
Qed.

(* ---- every command -------------------------------------------------------------------------- *)

Lemma all_commands_l : forall c,
  let r := run_command true c in
  compares_equal r /\ computed_consistently r /\
  (exit_status r = 0 /\ In Write (steps r) /\ error r = None \/ reported r).
Proof.
  intros [o|o|o|o]; cbn zeta; cbn [run_command].
  - destruct (dist_no_silent_l o) as (A & B & C & _). auto.
  - destruct (query_fixed_l o) as (A & B & C & _). auto.
  - destruct (tree_l o) as (A & B & C & _). auto.
  - apply create_run_l.
Qed.

Lemma no_silent_mismatch_l : forall c, ~ silent_mismatch (run_command true c).
Proof.
  intros c S. destruct S as (_ & _ & x & y & H & Hne). destruct (all_commands_l c) as (A & _). apply Hne. now apply A.
Qed.

Lemma no_silent_all_l : forall c,
  let r := run_command true c in
  (compares_equal r /\ computed_consistently r /\
   (exit_status r = 0 /\ In Write (steps r) /\ error r = None \/ reported r)) /\
  ~ silent_mismatch r.
Proof. intro c. split. exact (all_commands_l c). exact (no_silent_mismatch_l c). Qed.

Lemma silent_mismatch_as_found_l : exists c, silent_mismatch (run_command false c).
Proof.
  destruct query_sigfile_refuted_l as (o & _ & _ & _ & H). exists (CQuery o). exact H.
Qed.

(* ---- non-vacuity ----------------------------------------------------------------------------- *)

Definition at6 := KS 6 [65; 84].
Definition ac7 := KS 7 [65; 67].

Example ex_kspec_lower : kspec_from_params (Some 6) (Some [97; 116]) false = Ok (Some at6).
Proof. reflexivity. Qed.
Example ex_kspec_one : kspec_from_params (Some 6) None false = Failed ENeedBoth.
Proof. reflexivity. Qed.
Example ex_kspec_mink : kspec_from_params (Some 4) (Some [65; 84]) false = Failed EMinK.
Proof. reflexivity. Qed.
Example ex_kspec_nuc : kspec_from_params (Some 6) (Some [65; 78]) false = Failed EBadNuc.
Proof. reflexivity. Qed.

(** --qs (6,AT) --use-db with a (6,AT) database: runs with (6,AT), nothing computed *)
Example ex_dist_ok :
  let o := DistOpts false false (Some at6) false false None true false (Some at6) None None in
  dist_wf o = true /\ spec_dist o = Some at6 /\ dist_cmd o = finished [Compare at6 at6; Write].
Proof. repeat split. Qed.
(** -q files --rs (7,AC): the files are computed with (7,AC) *)
Example ex_dist_files :
  let o := DistOpts true false None false false (Some ac7) false false None None None in
  dist_wf o = true /\ dist_cmd o = finished [Calc Query ac7; Compare ac7 ac7; Write].
Proof. repeat split. Qed.
(** --qs (6,AT) --rs (7,AC): refused *)
Example ex_dist_mismatch :
  let o := DistOpts false false (Some at6) false false (Some ac7) false false None None None in
  dist_wf o = true /\ spec_dist o = None /\ dist_cmd o = failed EQueryRef.
Proof. repeat split. Qed.
(** -k 7 -p AC --qs (6,AT) --square: refused *)
Example ex_dist_opt_mismatch :
  let o := DistOpts false false (Some at6) false false None false true None (Some 7) (Some [65; 67]) in
  dist_wf o = true /\ spec_dist o = None /\ dist_cmd o = failed EOptQuery.
Proof. repeat split. Qed.
Example ex_query_fixed : query_cmd true query_witness = failed ESigDb.
Proof. reflexivity. Qed.
Example ex_create_db :
  create_cmd (CreateOpts true false None None true (Some at6)) = finished [Calc Query at6; Write].
Proof. reflexivity. Qed.
Example ex_create_excl :
  create_cmd (CreateOpts true false (Some 7) (Some [65; 67]) true (Some at6)) = failed EDbParamsExcl.
Proof. reflexivity. Qed.
