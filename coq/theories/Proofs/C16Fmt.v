(** C16 -- [format(x, '0.4f')] of a binary32 value as modelled in Model/C16.v: the integer
    it prints (over 10^4) is a nearest four-decimal number to the exact dyadic value, ties go
    to the even one, the digit loop never runs out of fuel, and the text reads back to
    exactly that integer.  For every 32-bit pattern. *)
From Coq Require Import ZArith List Bool Lia.
From GV Require Import Model.C16 Spec.C16.
Import ListNotations.
Open Scope Z_scope.

(* ---- rounding ----------------------------------------------------------------------- *)

Lemma round_half_even_close : forall num den, 0 < den ->
  let N := round_half_even num den in
  2 * Z.abs (N * den - num) <= den /\
  (2 * Z.abs (N * den - num) = den -> Z.even N = true).
Proof.
  intros num den Hden. cbv zeta. unfold round_half_even.
  pose proof (Z.div_mod num den ltac:(lia)) as Hdm.
  pose proof (Z.mod_pos_bound num den Hden) as Hr.
  set (q := num / den) in *. set (r := num mod den) in *.
  destruct (den <? 2 * r) eqn:E1.
  - apply Z.ltb_lt in E1. split; [lia|]. intro H. lia.
  - apply Z.ltb_ge in E1. destruct (2 * r =? den) eqn:E2.
    + apply Z.eqb_eq in E2. destruct (Z.even q) eqn:E3.
      * split; [lia|]. intros _. exact E3.
      * split; [lia|]. intros _. rewrite Z.even_add, E3. reflexivity.
    + apply Z.eqb_neq in E2. split; [lia|]. intro H. lia.
Qed.

Lemma close_is_nearest : forall num den N N', 0 < den -> 2 * Z.abs (N * den - num) <= den ->
  Z.abs (N * den - num) <= Z.abs (N' * den - num).
Proof.
  intros num den N N' Hden H.
  destruct (Z.eq_dec N N') as [->|Hne]; [lia|].
  assert (Hd : den <= Z.abs ((N' - N) * den)).
  { rewrite Z.abs_mul. rewrite (Z.abs_eq den) by lia.
    assert (1 <= Z.abs (N' - N)) by lia. nia. }
  replace (N' * den - num) with ((N' - N) * den + (N * den - num)) by ring.
  lia.
Qed.

(** the printed integer is a nearest one; on a tie it is even *)
Lemma scaled4_neg : forall m e, e < 0 ->
  nearest4 m e (scaled4 m e) /\ (tie4 m e (scaled4 m e) -> Z.even (scaled4 m e) = true) /\
  2 * Z.abs (scaled4 m e * 2 ^ (- e) - m * 10000) <= 2 ^ (- e).
Proof.
  intros m e He. unfold scaled4, nearest4, tie4.
  assert (E : (0 <=? e) = false) by (apply Z.leb_gt; lia). rewrite E.
  assert (Hden : 0 < 2 ^ (- e)) by (apply Z.pow_pos_nonneg; lia).
  destruct (round_half_even_close (m * 10000) (2 ^ (- e)) Hden) as [Hc Ht].
  split; [|split].
  - intro N'. apply close_is_nearest; assumption.
  - exact Ht.
  - exact Hc.
Qed.

Lemma scaled4_nonneg_exp : forall m e, 0 <= e -> scaled4 m e = m * 2 ^ e * 10000.
Proof.
  intros m e He. unfold scaled4.
  assert (E : (0 <=? e) = true) by (apply Z.leb_le; lia). rewrite E. reflexivity.
Qed.

Lemma scaled4_nonneg : forall m e, 0 <= m -> 0 <= scaled4 m e.
Proof.
  intros m e Hm. unfold scaled4. destruct (0 <=? e) eqn:E.
  - apply Z.leb_le in E. assert (0 <= 2 ^ e) by (apply Z.pow_nonneg; lia). nia.
  - apply Z.leb_gt in E. assert (Hden : 0 < 2 ^ (- e)) by (apply Z.pow_pos_nonneg; lia).
    unfold round_half_even.
    assert (0 <= m * 10000 / 2 ^ (- e)) by (apply Z.div_pos; lia).
    destruct (2 ^ (- e) <? 2 * ((m * 10000) mod 2 ^ (- e))); [lia|].
    destruct (2 * ((m * 10000) mod 2 ^ (- e)) =? 2 ^ (- e)); [|lia].
    destruct (Z.even (m * 10000 / 2 ^ (- e))); lia.
Qed.

(* ---- digits ------------------------------------------------------------------------- *)

Lemma parse_digits_app : forall x y a,
  parse_digits (x ++ y) a = match parse_digits x a with Some v => parse_digits y v | None => None end.
Proof.
  induction x as [|c x IH]; intros y a; cbn [app parse_digits]; [reflexivity|].
  destruct (digit c); [apply IH|reflexivity].
Qed.

Lemma digit_48 : forall v, 0 <= v <= 9 -> digit (48 + v) = Some v.
Proof.
  intros v Hv. unfold digit.
  assert (E : (48 <=? 48 + v) && (48 + v <=? 57) = true).
  { apply andb_true_iff. split; apply Z.leb_le; lia. }
  rewrite E. f_equal. lia.
Qed.

Lemma dec_digits_ok : forall f n acc, 0 <= n < 2 ^ Z.of_nat (S f) ->
  exists pre, dec_digits (S f) n acc = Some (pre ++ acc) /\ pre <> [] /\
    forall a, parse_digits pre a = Some (a * 10 ^ Z.of_nat (length pre) + n).
Proof.
  induction f as [|f IH]; intros n acc Hn.
  - change (2 ^ Z.of_nat 1) with 2 in Hn. cbn [dec_digits].
    assert (E : n <? 10 = true) by (apply Z.ltb_lt; lia). rewrite E.
    exists [48 + n mod 10]. split; [reflexivity|]. split; [discriminate|].
    intro a. cbn [parse_digits length]. rewrite Z.mod_small by lia. rewrite digit_48 by lia.
    f_equal. change (Z.of_nat 1) with 1. lia.
  - remember (S f) as f1 eqn:Ef1. cbn [dec_digits].
    pose proof (Z.mod_pos_bound n 10 ltac:(lia)) as Hm.
    pose proof (Z.div_mod n 10 ltac:(lia)) as Hdm.
    destruct (n <? 10) eqn:E.
    + apply Z.ltb_lt in E. exists [48 + n mod 10]. split; [reflexivity|]. split; [discriminate|].
      intro a. cbn [parse_digits length]. rewrite digit_48 by lia.
      rewrite Z.mod_small by lia. f_equal. change (Z.of_nat 1) with 1. lia.
    + apply Z.ltb_ge in E.
      assert (Hq : 0 <= n / 10 < 2 ^ Z.of_nat f1).
      { split; [apply Z.div_pos; lia|].
        apply Z.div_lt_upper_bound; [lia|].
        rewrite (Nat2Z.inj_succ f1), Z.pow_succ_r in Hn by lia. lia. }
      subst f1.
      destruct (IH (n / 10) ((48 + n mod 10) :: acc) Hq) as [pre [E1 [Hne Hp]]].
      exists (pre ++ [48 + n mod 10]). split; [|split].
      * rewrite E1. rewrite <- app_assoc. reflexivity.
      * intro H. apply app_eq_nil in H. destruct H as [_ H]. discriminate.
      * intro a. rewrite parse_digits_app, Hp. cbn [parse_digits]. rewrite digit_48 by lia.
        f_equal. rewrite app_length. cbn [length]. rewrite Nat2Z.inj_add. change (Z.of_nat 1) with 1.
        rewrite Z.pow_add_r by lia. lia.
Qed.

Lemma dec_ok : forall n, 0 <= n ->
  exists ds, dec n = Some ds /\ ds <> [] /\ parse_digits ds 0 = Some n.
Proof.
  intros n Hn. unfold dec.
  assert (Hb : 0 <= n < 2 ^ Z.of_nat (S (Z.to_nat (Z.log2 n)))).
  { split; [exact Hn|]. rewrite Nat2Z.inj_succ, Z2Nat.id by apply Z.log2_nonneg.
    destruct (Z.eq_dec n 0) as [->|Hne]; [reflexivity|].
    apply Z.log2_spec. lia. }
  destruct (dec_digits_ok (Z.to_nat (Z.log2 n)) n [] Hb) as [pre [E [Hne Hp]]].
  exists pre. rewrite app_nil_r in E. split; [exact E|]. split; [exact Hne|].
  rewrite Hp. f_equal.
Qed.

Lemma pad4_sweep :
  forallb (fun n => match parse_digits (pad4 n) 0 with Some v => v =? n | None => false end)
          (map Z.of_nat (seq 0 (Z.to_nat 10000))) = true.
Proof. vm_compute. reflexivity. Qed.

Lemma pad4_ok : forall n, 0 <= n < 10000 -> parse_digits (pad4 n) 0 = Some n.
Proof.
  intros n Hn. pose proof pad4_sweep as H. rewrite forallb_forall in H.
  assert (Hin : In n (map Z.of_nat (seq 0 (Z.to_nat 10000)))).
  { apply in_map_iff. exists (Z.to_nat n). split; [lia|]. apply in_seq. lia. }
  specialize (H n Hin). destruct (parse_digits (pad4 n) 0) as [v|]; [|discriminate].
  apply Z.eqb_eq in H. subst v. reflexivity.
Qed.

(* ---- the text reads back ------------------------------------------------------------ *)

Lemma parse_unsigned4_ok : forall ds a b, ds <> [] ->
  parse_digits ds 0 = Some a -> 0 <= b < 10000 ->
  parse_unsigned4 (ds ++ [46] ++ pad4 b) = Some (a * 10000 + b).
Proof.
  intros ds a b Hne Ha Hb. unfold parse_unsigned4.
  assert (Hl : length (ds ++ [46] ++ pad4 b) = (length ds + 5)%nat).
  { rewrite !app_length. reflexivity. }
  rewrite Hl.
  assert (Hds : (1 <= length ds)%nat) by (destruct ds; [contradiction|cbn; lia]).
  assert (E : (length ds + 5 <? 6)%nat = false) by (apply Nat.ltb_ge; lia). rewrite E.
  replace (length ds + 5 - 5)%nat with (length ds + 0)%nat by lia.
  rewrite skipn_app, firstn_app.
  rewrite (skipn_all2 ds) by lia. rewrite (firstn_all2 ds) by lia.
  replace (length ds + 0 - length ds)%nat with 0%nat by lia.
  cbn [skipn firstn app]. rewrite app_nil_r, Ha, (pad4_ok b Hb). reflexivity.
Qed.

(** [fmt4] never fails on a finite pattern, and its text is  [-]digits.dddd  denoting
    exactly the rounded integer of the pattern's dyadic value *)
Lemma fmt4_finite : forall b s m e, f32_dyadic_of_bits b = Some (s, m, e) -> 0 <= m ->
  exists t, fmt4 b = DOk t /\ parse_fixed4 t = Some (s, scaled4 m e).
Proof.
  intros b s m e Hb Hm. unfold fmt4. rewrite Hb. unfold fmt_fixed4.
  pose proof (scaled4_nonneg m e Hm) as HN. set (N := scaled4 m e) in *.
  assert (Hq : 0 <= N / 10000) by (apply Z.div_pos; lia).
  pose proof (Z.mod_pos_bound N 10000 ltac:(lia)) as Hr.
  pose proof (Z.div_mod N 10000 ltac:(lia)) as Hdm.
  destruct (dec_ok (N / 10000) Hq) as [ds [E [Hne Hp]]]. rewrite E.
  eexists; split; [reflexivity|].
  pose proof (parse_unsigned4_ok ds (N / 10000) (N mod 10000) Hne Hp Hr) as Hu.
  replace (N / 10000 * 10000 + N mod 10000) with N in Hu by lia.
  assert (Hhd : forall r, ds ++ [46] ++ pad4 (N mod 10000) <> 45 :: r).
  { intros r Heq. destruct ds as [|c2 r2]; [contradiction|]. cbn in Heq. injection Heq as E1 E2.
    subst c2. cbn in Hp. discriminate. }
  set (body := ds ++ [46] ++ pad4 (N mod 10000)) in *.
  destruct s.
  - change ([45] ++ body) with (45 :: body). unfold parse_fixed4. rewrite Hu. reflexivity.
  - change ([] ++ body) with body. unfold parse_fixed4.
    destruct body as [|c' r'] eqn:Eall.
    + rewrite Hu. reflexivity.
    + destruct (Z.eq_dec c' 45) as [->|Hc'].
      * exfalso. apply (Hhd r'). reflexivity.
      * rewrite Hu. destruct c' as [|p|p]; try reflexivity.
        do 6 (destruct p as [p|p|]; try reflexivity). contradiction.
Qed.

(** fields of a 32-bit pattern *)
Lemma f32_dyadic_range : forall b s m e, 0 <= b < 4294967296 ->
  f32_dyadic_of_bits b = Some (s, m, e) -> 0 <= m < 16777216 /\ -149 <= e <= 104.
Proof.
  intros b s m e Hb H. unfold f32_dyadic_of_bits, f32_fields in H.
  pose proof (Z.mod_pos_bound b 8388608 ltac:(lia)) as Hm.
  pose proof (Z.mod_pos_bound (b / 8388608) 256 ltac:(lia)) as Hx.
  destruct ((b / 8388608) mod 256 =? 255) eqn:E1; [discriminate|]. apply Z.eqb_neq in E1.
  destruct ((b / 8388608) mod 256 =? 0) eqn:E2; injection H as <- <- <-; lia.
Qed.

Lemma fmt4_total : forall b, 0 <= b < 4294967296 -> fmt4 b = DOk (fmt4_str b).
Proof.
  intros b Hb. unfold fmt4_str.
  destruct (f32_dyadic_of_bits b) as [[[s m] e]|] eqn:E.
  - destruct (f32_dyadic_range b s m e Hb E) as [Hm _].
    destruct (fmt4_finite b s m e E ltac:(lia)) as [t [Et _]]. rewrite Et. reflexivity.
  - unfold fmt4. rewrite E. destruct (f32_fields b) as [[s ex] mant]. reflexivity.
Qed.

Lemma fmt4_zero : fmt4_str 0 = [48; 46; 48; 48; 48; 48].
Proof. vm_compute. reflexivity. Qed.

(** a tie does occur: 1/32 = 0.03125 prints as 0.0312 *)
Example fmt4_tie_example :
  fmt4_str 1023410176 = [48; 46; 48; 51; 49; 50] /\
  f32_dyadic_of_bits 1023410176 = Some (false, 8388608, -28) /\ tie4 8388608 (-28) 312.
Proof. vm_compute. repeat split; reflexivity. Qed.
