(** C05 -- the prange loop of metric.pyx at iteration granularity.

    Generic part: a loop whose body computes a value [cell i] from shared inputs only and stores it
    in [out[i]] (everything else it keeps in its state is private scratch) gives the same outcome
    for every order of its iterations.  Specific part: [par_body_char] is the ONE lemma that opens
    the generated [_jaccarddist_parallel_loop1_body]; everything else goes through it. *)
From Coq Require Import ZArith List Bool Lia Permutation.
From GV Require Import Base.CSem Base.F32 Gen.MetricPyx.
Import ListNotations.
Open Scope Z_scope.

(** same value, or both failed (which error is reported may depend on the order) *)
Definition same_outcome {A} (r1 r2 : res A) : Prop :=
  match r1, r2 with
  | Ok a, Ok b => a = b
  | Error _, Error _ => True
  | _, _ => False
  end.

Lemma same_outcome_refl {A} (r : res A) : same_outcome r r.
Proof. destruct r; simpl; auto. Qed.
Lemma same_outcome_sym {A} (r1 r2 : res A) : same_outcome r1 r2 -> same_outcome r2 r1.
Proof. destruct r1, r2; simpl; auto. Qed.
Lemma same_outcome_trans {A} (r1 r2 r3 : res A) :
  same_outcome r1 r2 -> same_outcome r2 r3 -> same_outcome r1 r3.
Proof. destruct r1, r2, r3; simpl; try tauto; congruence. Qed.

Lemma set_nth_swap {A} (l : list A) : forall n m v w, (n = m -> v = w) ->
  match set_nth l n v with Some o => set_nth o m w | None => None end =
  match set_nth l m w with Some o => set_nth o n v | None => None end.
Proof.
  induction l as [|h t IH]; intros [|n] [|m] v w H; simpl; try reflexivity.
  - rewrite H by reflexivity. reflexivity.
  - destruct (set_nth t m w); reflexivity.
  - destruct (set_nth t n v); reflexivity.
  - specialize (IH n m v w ltac:(intros E; apply H; now f_equal)).
    destruct (set_nth t n v) as [o1|] eqn:E1; destruct (set_nth t m w) as [o2|] eqn:E2; simpl.
    + destruct (set_nth o1 m w), (set_nth o2 n v); congruence.
    + destruct (set_nth o1 m w); congruence.
    + destruct (set_nth o2 n v); congruence.
    + reflexivity.
Qed.

Lemma mv_set_swap {A} (l : list A) i j v w : (i = j -> v = w) ->
  match mv_set l i v with Some o => mv_set o j w | None => None end =
  match mv_set l j w with Some o => mv_set o i v | None => None end.
Proof.
  intros H. unfold mv_set.
  destruct (0 <=? i) eqn:Ei, (0 <=? j) eqn:Ej; try reflexivity.
  - apply set_nth_swap. intros E. apply H. apply Z.leb_le in Ei, Ej. lia.
  - destruct (set_nth l (Z.to_nat i) v); reflexivity.
  - destruct (set_nth l (Z.to_nat j) w); reflexivity.
Qed.

Lemma for_range_from_order {St R} (body : Z -> St -> ctl St R) : forall n k s,
  for_range_from n (Z.of_nat k) body s = for_order (map Z.of_nat (seq k n)) body s.
Proof.
  induction n as [|n IH]; intros k s; simpl; [reflexivity|].
  destruct (body (Z.of_nat k) s); try reflexivity.
  replace (Z.of_nat k + 1) with (Z.of_nat (S k)) by lia. apply IH.
Qed.

Definition iota (n : Z) : list Z := map Z.of_nat (seq 0 (Z.to_nat n)).

Lemma for_range_order {St R} (body : Z -> St -> ctl St R) n s :
  for_range n body s = for_order (iota n) body s.
Proof. unfold for_range, iota. apply (for_range_from_order body _ 0%nat). Qed.

Section Cellwise.
  Context {X A R : Type}.
  Variable cell : Z -> res A.
  Variable xf : Z -> X -> X.
  Variable body : Z -> X * list A -> ctl (X * list A) R.
  Hypothesis body_char : forall i x out,
    body i (x, out) =
      match cell i with
      | Error e => Fail e
      | Ok d => match mv_set out i d with
                | None => Fail OOB
                | Some out' => Go (xf i x, out')
                end
      end.

  (** the loop seen from outside: iteration [i] stores [cell i] in [out[i]] *)
  Fixpoint run_cells (pi : list Z) (out : list A) : res (list A) :=
    match pi with
    | [] => Ok out
    | i :: rest =>
        match cell i with
        | Error e => Error e
        | Ok d => match mv_set out i d with
                  | None => Error OOB
                  | Some out' => run_cells rest out'
                  end
        end
    end.

  Lemma for_order_cells : forall pi x out,
    match run_cells pi out with
    | Ok out' => exists x', for_order pi body (x, out) = Go (x', out')
    | Error e => for_order pi body (x, out) = Fail e
    end.
  Proof.
    induction pi as [|i rest IH]; intros x out; simpl; [eauto|].
    rewrite body_char. destruct (cell i) as [d|e]; [|reflexivity].
    destruct (mv_set out i d) as [out'|]; [|reflexivity]. apply IH.
  Qed.

  Lemma run_cells_perm pi pi' : Permutation pi pi' ->
    forall out, same_outcome (run_cells pi out) (run_cells pi' out).
  Proof.
    induction 1 as [|x l l' HP IH|x y l|l l' l'' H1 IH1 H2 IH2]; intros out.
    - simpl. reflexivity.
    - simpl. destruct (cell x) as [d|e]; [|exact I].
      destruct (mv_set out x d); [apply IH|exact I].
    - simpl.
      destruct (cell x) as [dx|ex] eqn:Cx; destruct (cell y) as [dy|ey] eqn:Cy.
      + assert (Hxy : y = x -> dy = dx) by (intros E; subst; congruence).
        pose proof (mv_set_swap out y x dy dx Hxy) as Hs.
        destruct (mv_set out y dy) as [o1|] eqn:E1; destruct (mv_set out x dx) as [o2|] eqn:E2.
        * destruct (mv_set o1 x dx) as [o3|], (mv_set o2 y dy) as [o4|]; try discriminate.
          -- inversion Hs; subst. apply same_outcome_refl.
          -- exact I.
        * destruct (mv_set o1 x dx); [discriminate|exact I].
        * destruct (mv_set o2 y dy); [discriminate|exact I].
        * exact I.
      + destruct (mv_set out x dx); exact I.
      + destruct (mv_set out y dy); exact I.
      + exact I.
    - eapply same_outcome_trans; [apply IH1|apply IH2].
  Qed.
End Cellwise.

(** * the generated loop *)
Section Par.
  Variables (fuel : nat) (q coords bounds : list Z).

  (** the value iteration [i] computes: a function of the shared, read-only inputs and of [i] *)
  Definition par_cell (i : Z) : res f32 :=
    match mv_get bounds i with
    | None => Error OOB
    | Some b =>
        match mv_get bounds (i + 1) with
        | None => Error OOB
        | Some e => c_jaccarddist fuel q (mv_slice coords b e)
        end
    end.

  (** what happens to the per-iteration scratch (N, begin, end) *)
  Definition par_xf (i : Z) (x : Z * Z * Z) : Z * Z * Z :=
    match mv_get bounds i, mv_get bounds (i + 1) with
    | Some b, Some e => (fst (fst x), b, e)
    | _, _ => x
    end.

  (** one iteration of the generated loop body: reads shared inputs, writes only [out[i]] *)
  Lemma par_body_char : forall i x out,
    _jaccarddist_parallel_loop1_body fuel q coords bounds i (x, out) =
      match par_cell i with
      | Error e => Fail e
      | Ok d => match mv_set out i d with
                | None => Fail OOB
                | Some out' => Go (par_xf i x, out')
                end
      end.
  Proof.
    intros i [[N b0] e0] out. unfold _jaccarddist_parallel_loop1_body, par_cell, par_xf.
    destruct (mv_get bounds i) as [b|]; [|reflexivity].
    destruct (mv_get bounds (i + 1)) as [e|]; [|reflexivity].
    destruct (c_jaccarddist fuel q (mv_slice coords b e)) as [d|err]; [|reflexivity].
    cbn [rbind]. destruct (mv_set out i d); reflexivity.
  Qed.

  Lemma par_order_run pi out :
    _jaccarddist_parallel_order fuel pi q coords bounds out = run_cells par_cell pi out.
  Proof.
    unfold _jaccarddist_parallel_order.
    pose proof (for_order_cells par_cell par_xf _ par_body_char pi (mv_len bounds - 1, 0, 0) out) as H.
    destruct (run_cells par_cell pi out) as [o|e].
    - destruct H as [[[N b] e] H]. rewrite H. reflexivity.
    - rewrite H. reflexivity.
  Qed.

  Lemma par_seq_run out :
    _jaccarddist_parallel fuel q coords bounds out =
    run_cells par_cell (iota (mv_len bounds - 1)) out.
  Proof.
    unfold _jaccarddist_parallel. rewrite for_range_order.
    pose proof (for_order_cells par_cell par_xf _ par_body_char (iota (mv_len bounds - 1))
                  (mv_len bounds - 1, 0, 0) out) as H.
    destruct (run_cells par_cell (iota (mv_len bounds - 1)) out) as [o|e].
    - destruct H as [[[N b] e] H]. rewrite H. reflexivity.
    - rewrite H. reflexivity.
  Qed.

  (** every order of the iterations (every schedule at iteration granularity, including repeated
      execution of an iteration) gives the sequential result; when the sequential run fails,
      so does every order *)
  Lemma C05_schedule_l pi out :
    Permutation pi (iota (mv_len bounds - 1)) ->
    match _jaccarddist_parallel fuel q coords bounds out with
    | Ok r => _jaccarddist_parallel_order fuel pi q coords bounds out = Ok r
    | Error _ => exists e, _jaccarddist_parallel_order fuel pi q coords bounds out = Error e
    end.
  Proof.
    intros HP. rewrite par_order_run, par_seq_run.
    pose proof (run_cells_perm par_cell pi _ HP out) as H.
    destruct (run_cells par_cell (iota (mv_len bounds - 1)) out) as [r|e],
             (run_cells par_cell pi out) as [r'|e']; simpl in H; try contradiction.
    - now subst.
    - eauto.
  Qed.
End Par.
