(** C09 -- the stable argsort of the model is THE arrangement of all indices in strictly
    increasing (distance, reference order). *)
From Coq Require Import ZArith List Bool Arith Lia ZifyBool Orders
  Sorting.Sorted Sorting.Permutation Sorting.Mergesort RelationClasses.
From GV Require Import Base.CSem Model.C09 Spec.C09.
Import ListNotations.
Open Scope Z_scope.

(** ** the model's merge sort is the stdlib functor instance *)

Module DIOrder <: TotalLeBool'.
  Definition t := di.
  Definition leb := le_di.
  Infix "<=?" := leb (at level 70, no associativity).
  Theorem leb_total : forall a1 a2, is_true (leb a1 a2) \/ is_true (leb a2 a1).
  Proof. intros [d1 i1] [d2 i2]; unfold leb, le_di, is_true; cbn [fst snd]; lia. Qed.
End DIOrder.

Module DISort := Sort DIOrder.

Lemma sort_di_stdlib : forall l, sort_di l = DISort.sort l.
Proof. reflexivity. Qed.

Lemma le_di_trans : Transitive (fun a b => is_true (le_di a b)).
Proof.
  intros [d1 i1] [d2 i2] [d3 i3]; unfold le_di, is_true; cbn [fst snd]; lia.
Qed.

Lemma sort_di_perm : forall l, Permutation l (sort_di l).
Proof. intro l; rewrite sort_di_stdlib; apply DISort.Permuted_sort. Qed.

Lemma sort_di_sorted : forall l, StronglySorted (fun a b => is_true (le_di a b)) (sort_di l).
Proof. intro l; rewrite sort_di_stdlib; apply DISort.StronglySorted_sort, le_di_trans. Qed.

(** ** the order [nearer] *)

Lemma nearer_trans : forall ds i j k, nearer ds i j -> nearer ds j k -> nearer ds i k.
Proof. unfold nearer; intros ds i j k H1 H2; lia. Qed.

Lemma nearer_irrefl : forall ds i, ~ nearer ds i i.
Proof. unfold nearer; intros ds i H; lia. Qed.

Lemma nearer_asym : forall ds i j, nearer ds i j -> nearer ds j i -> False.
Proof. unfold nearer; intros ds i j H1 H2; lia. Qed.

Lemma nearer_total : forall ds i j, i <> j -> nearer ds i j \/ nearer ds j i.
Proof. unfold nearer; intros ds i j H; lia. Qed.

Lemma nearerb_spec : forall ds i j, nearerb ds i j = true <-> nearer ds i j.
Proof. unfold nearerb, nearer; intros ds i j; lia. Qed.

(** ** uniqueness of the strictly sorted arrangement *)

Lemma StronglySorted_perm_unique : forall ds (l1 l2 : list nat),
  StronglySorted (nearer ds) l1 -> StronglySorted (nearer ds) l2 -> Permutation l1 l2 -> l1 = l2.
Proof.
  intros ds l1; induction l1 as [|x1 t1 IH]; intros l2 S1 S2 P.
  - apply Permutation_nil in P; subst; reflexivity.
  - destruct l2 as [|x2 t2]; [apply Permutation_sym, Permutation_nil in P; discriminate|].
    inversion S1 as [|? ? S1t F1]; subst. inversion S2 as [|? ? S2t F2]; subst.
    assert (E : x1 = x2).
    { assert (I1 : In x1 (x2 :: t2)) by (eapply Permutation_in; [exact P|left; reflexivity]).
      assert (I2 : In x2 (x1 :: t1)) by (eapply Permutation_in; [exact (Permutation_sym P)|left; reflexivity]).
      destruct I1 as [I1|I1]; [congruence|]. destruct I2 as [I2|I2]; [congruence|].
      rewrite Forall_forall in F1, F2. exfalso. eapply nearer_asym; [apply (F1 _ I2)|apply (F2 _ I1)]. }
    subst x2. f_equal. apply IH; auto. eapply Permutation_cons_inv; exact P.
Qed.

(** ** the pairs of [indexed] *)

Lemma in_indexed : forall ds d i, In (d, i) (indexed ds) -> (i < length ds)%nat /\ key ds i = d.
Proof.
  unfold indexed, key. intros ds.
  assert (G : forall (l : list Z) s d i, In (d, i) (combine l (seq s (length l))) ->
              (s <= i < s + length l)%nat /\ nth (i - s) l 0 = d).
  { induction l as [|x t IH]; intros s d i H; cbn in H; [contradiction|].
    destruct H as [H|H].
    - inversion H; subst. rewrite Nat.sub_diag. cbn. lia.
    - apply IH in H. destruct H as [H1 H2]. split; [cbn [length]; lia|].
      replace (i - s)%nat with (S (i - S s)) by lia. exact H2. }
  intros d i H. apply G in H. rewrite Nat.sub_0_r in H. destruct H; split; [lia|assumption].
Qed.

Lemma map_snd_indexed : forall ds, map snd (indexed ds) = seq 0 (length ds).
Proof.
  unfold indexed. intros ds. generalize 0%nat. induction ds as [|x t IH]; intro s; cbn; [reflexivity|].
  f_equal. apply IH.
Qed.

(** ** the stable argsort is a strictly [nearer]-sorted arrangement of all indices *)

Lemma stable_argsort_perm : forall ds, Permutation (stable_argsort ds) (seq 0 (length ds)).
Proof.
  intro ds. unfold stable_argsort. rewrite <- map_snd_indexed.
  apply Permutation_map, Permutation_sym, sort_di_perm.
Qed.

Lemma stable_argsort_length : forall ds, length (stable_argsort ds) = length ds.
Proof.
  intro ds. rewrite (Permutation_length (stable_argsort_perm ds)). apply seq_length.
Qed.

Lemma StronglySorted_map_snd : forall ds (l : list di),
  (forall d i, In (d, i) l -> key ds i = d) -> NoDup (map snd l) ->
  StronglySorted (fun a b => is_true (le_di a b)) l -> StronglySorted (nearer ds) (map snd l).
Proof.
  intros ds l; induction l as [|[d i] t IH]; intros K N S; cbn; [constructor|].
  inversion S as [|? ? St F]; subst. cbn in N. inversion N as [|? ? Ni Nt]; subst.
  constructor.
  - apply IH; auto. intros d' i' H; apply K; right; exact H.
  - rewrite Forall_forall in *. intros j Hj. apply in_map_iff in Hj. destruct Hj as [[d' j'] [E Hj]].
    cbn in E; subst j'. specialize (F _ Hj). unfold le_di, is_true in F; cbn [fst snd] in F.
    assert (Kd : key ds i = d) by (apply K; left; reflexivity).
    assert (Kd' : key ds j = d') by (apply K; right; exact Hj).
    assert (i <> j) by (intro; subst j; apply Ni; apply in_map_iff; exists (d', i); split; auto).
    unfold nearer. lia.
Qed.

Lemma stable_argsort_sorted : forall ds, StronglySorted (nearer ds) (stable_argsort ds).
Proof.
  intro ds. unfold stable_argsort. apply StronglySorted_map_snd.
  - intros d i H. apply in_indexed. eapply Permutation_in; [apply Permutation_sym, sort_di_perm|exact H].
  - eapply Permutation_NoDup; [apply Permutation_sym, (stable_argsort_perm ds)|apply seq_NoDup].
  - apply sort_di_sorted.
Qed.

(** any strictly sorted arrangement of all indices IS the stable argsort *)
Lemma stable_argsort_unique : forall ds p,
  Permutation p (seq 0 (length ds)) -> StronglySorted (nearer ds) p -> p = stable_argsort ds.
Proof.
  intros ds p P S. apply (StronglySorted_perm_unique ds); auto using stable_argsort_sorted.
  eapply Permutation_trans; [exact P|apply Permutation_sym, stable_argsort_perm].
Qed.
