(** The two-pointer loop of the generated [c_jaccarddist] counts the union (C02, C15, C05). *)
From Coq Require Import ZArith List Bool Lia ZifyBool Sorting.Sorted.
From GV Require Import Base.CSem Base.F32 Gen.MetricPyx Spec.Jaccard Spec.JaccardF.
Import ListNotations.
Open Scope Z_scope.

(** * set-level recurrences on strictly increasing lists *)

Lemma sorted_inv a l : sorted (a :: l) -> sorted l /\ Forall (Z.lt a) l.
Proof. intros H. inversion H; subst. split; assumption. Qed.

Lemma memZ_false_lt x l : Forall (Z.lt x) l -> memZ x l = false.
Proof.
  unfold memZ. induction 1 as [|y t Hy Ht IH]; simpl; [reflexivity|].
  rewrite IH. destruct (Z.eqb_spec x y); [lia|reflexivity].
Qed.

Lemma memZ_cons x y l : memZ x (y :: l) = (x =? y) || memZ x l.
Proof. reflexivity. Qed.

Lemma inter_nil_r A : inter_count A [] = 0.
Proof. unfold inter_count. induction A; simpl; auto. Qed.

Lemma inter_nil_l B : inter_count [] B = 0.
Proof. reflexivity. Qed.

Lemma filter_mem_drop b A B :
  Forall (Z.lt b) A ->
  filter (fun a => memZ a (b :: B)) A = filter (fun a => memZ a B) A.
Proof.
  intros H. apply filter_ext_in. intros a Ha. rewrite memZ_cons.
  rewrite Forall_forall in H. specialize (H a Ha).
  destruct (Z.eqb_spec a b); [lia|reflexivity].
Qed.

(** head of A smaller: it is in no set of B *)
Lemma inter_lt a A b B :
  sorted (b :: B) -> a < b -> inter_count (a :: A) (b :: B) = inter_count A (b :: B).
Proof.
  intros HB Hab. unfold inter_count. cbn [filter].
  rewrite memZ_false_lt; [reflexivity|].
  destruct (sorted_inv _ _ HB) as [_ HF]. constructor; [assumption|].
  eapply Forall_impl; [|exact HF]. intros; lia.
Qed.

Lemma inter_gt a A b B :
  sorted (a :: A) -> b < a -> inter_count (a :: A) (b :: B) = inter_count (a :: A) B.
Proof.
  intros HA Hba. unfold inter_count. f_equal. f_equal.
  apply filter_mem_drop. destruct (sorted_inv _ _ HA) as [_ HF].
  constructor; [assumption|]. eapply Forall_impl; [|exact HF]. intros; lia.
Qed.

Lemma inter_eq a A B :
  sorted (a :: A) -> sorted (a :: B) ->
  inter_count (a :: A) (a :: B) = 1 + inter_count A B.
Proof.
  intros HA HB. unfold inter_count. cbn [filter]. rewrite memZ_cons, Z.eqb_refl. cbn [orb length].
  destruct (sorted_inv _ _ HA) as [_ HFA].
  rewrite filter_mem_drop by assumption. lia.
Qed.

Lemma filter_length_le' {X} (f : X -> bool) l : (length (filter f l) <= length l)%nat.
Proof. induction l as [|x t IH]; simpl; [lia|]. destruct (f x); simpl; lia. Qed.

Lemma inter_bounds A B : 0 <= inter_count A B <= Z.of_nat (length A).
Proof. unfold inter_count. pose proof (filter_length_le' (fun a => memZ a B) A). lia. Qed.

Lemma inter_sym : forall n A B, (length A + length B <= n)%nat -> sorted A -> sorted B ->
  inter_count A B = inter_count B A.
Proof.
  induction n as [|n IH]; intros A B Hn HA HB.
  - destruct A; [|simpl in Hn; lia]. destruct B; [|simpl in Hn; lia]. reflexivity.
  - destruct A as [|a A']; [now rewrite inter_nil_l, inter_nil_r|].
    destruct B as [|b B']; [now rewrite inter_nil_l, inter_nil_r|].
    destruct (sorted_inv _ _ HA) as [HA' _]. destruct (sorted_inv _ _ HB) as [HB' _].
    destruct (Z.compare_spec a b) as [Heq|Hlt|Hgt].
    + subst b. rewrite !inter_eq by assumption. rewrite (IH A' B'); [reflexivity| simpl in Hn; lia | assumption | assumption].
    + rewrite (inter_lt a A' b B') by assumption. rewrite (inter_gt b B' a A') by assumption.
      apply IH; [simpl in *; lia | assumption | assumption].
    + rewrite (inter_gt a A' b B') by assumption. rewrite (inter_lt b B' a A') by assumption.
      apply IH; [simpl in *; lia | assumption | assumption].
Qed.

Lemma inter_count_sym A B : sorted A -> sorted B -> inter_count A B = inter_count B A.
Proof. intros. eapply inter_sym; eauto. Qed.

(** * the loop *)

Definition st7 : Type := (Z * Z * Z * Z * Z * Z * Z)%type.

Lemma mv_len_app {A} (p s : list A) : mv_len (p ++ s) = mv_len p + mv_len s.
Proof. unfold mv_len. rewrite app_length. lia. Qed.

Lemma body_step A B N M i j a b a0 b0 u :
  mv_get A i = Some a -> mv_get B j = Some b ->
  c_jaccarddist_loop1_body A B (N, M, i, j, a0, b0, u) =
    Go (N, M, (if a <=? b then i + 1 else i), (if b <=? a then j + 1 else j), a, b, u + 1).
Proof.
  intros Ha Hb. unfold c_jaccarddist_loop1_body. rewrite Ha, Hb.
  destruct (a <=? b); cbn [bind]; destruct (b <=? a); reflexivity.
Qed.

Lemma mv_len_snoc {X} (p : list X) x : mv_len (p ++ [x]) = mv_len p + 1.
Proof. rewrite mv_len_app. reflexivity. Qed.

Lemma loop_spec : forall n sa sb pa pb u a0 b0 fuel,
  (length sa + length sb <= n)%nat -> (n <= fuel)%nat ->
  sorted sa -> sorted sb ->
  exists i' j' a' b' u',
    while_fuel fuel (c_jaccarddist_loop1_cond (pa ++ sa) (pb ++ sb))
               (c_jaccarddist_loop1_body (pa ++ sa) (pb ++ sb))
               (mv_len (pa ++ sa), mv_len (pb ++ sb), mv_len pa, mv_len pb, a0, b0, u)
      = Go (mv_len (pa ++ sa), mv_len (pb ++ sb), i', j', a', b', u') /\
    0 <= i' <= mv_len (pa ++ sa) /\ 0 <= j' <= mv_len (pb ++ sb) /\
    u' + (mv_len (pa ++ sa) - i') + (mv_len (pb ++ sb) - j') = u + union_count sa sb.
Proof.
  induction n as [|n IH]; intros sa sb pa pb u a0 b0 fuel Hn Hf Hsa Hsb.
  - destruct sa; [|simpl in Hn; lia]. destruct sb; [|simpl in Hn; lia].
    rewrite !app_nil_r.
    exists (mv_len pa), (mv_len pb), a0, b0, u.
    split.
    + destruct fuel; cbn [while_fuel]; unfold c_jaccarddist_loop1_cond;
        rewrite Z.ltb_irrefl; reflexivity.
    + unfold union_count, inter_count, mv_len. simpl. lia.
  - destruct sa as [|a sa'].
    { rewrite app_nil_r.
      exists (mv_len pa), (mv_len pb), a0, b0, u. split.
      - destruct fuel; cbn [while_fuel]; unfold c_jaccarddist_loop1_cond;
          rewrite Z.ltb_irrefl; try reflexivity.
      - rewrite mv_len_app. unfold union_count. rewrite inter_nil_l. unfold mv_len. simpl. lia. }
    destruct sb as [|b sb'].
    { rewrite app_nil_r.
      exists (mv_len pa), (mv_len pb), a0, b0, u. split.
      - destruct fuel; cbn [while_fuel]; unfold c_jaccarddist_loop1_cond;
          rewrite Z.ltb_irrefl, andb_false_r; reflexivity.
      - rewrite mv_len_app. unfold union_count. rewrite inter_nil_r. unfold mv_len. simpl. lia. }
    destruct fuel as [|fuel]; [lia|].
    cbn [while_fuel].
    assert (Hcond : c_jaccarddist_loop1_cond (pa ++ a :: sa') (pb ++ b :: sb')
                      (mv_len (pa ++ a :: sa'), mv_len (pb ++ b :: sb'), mv_len pa, mv_len pb, a0, b0, u) = true).
    { unfold c_jaccarddist_loop1_cond. rewrite !mv_len_app. unfold mv_len. simpl. lia. }
    rewrite Hcond.
    rewrite (body_step _ _ _ _ _ _ a b) by apply mv_get_app_r.
    destruct (sorted_inv _ _ Hsa) as [Hsa' _]. destruct (sorted_inv _ _ Hsb) as [Hsb' _].
    destruct (Z.compare_spec a b) as [Heq|Hlt|Hgt].
    + subst b. assert (a <=? a = true) as -> by lia.
      destruct (IH sa' sb' (pa ++ [a]) (pb ++ [a]) (u + 1) a a fuel) as
        [i' [j' [a' [b' [u' [Hw [Hi [Hj Hu]]]]]]]]; [simpl in Hn; lia | lia | assumption | assumption |].
      repeat rewrite <- app_assoc in Hw. repeat rewrite <- app_assoc in Hi.
      repeat rewrite <- app_assoc in Hj. repeat rewrite <- app_assoc in Hu.
      simpl app in Hw, Hi, Hj, Hu.
      rewrite !mv_len_snoc in Hw.
      exists i', j', a', b', u'. split; [exact Hw|].
      split; [exact Hi|]. split; [exact Hj|].
      rewrite Hu. unfold union_count. rewrite inter_eq by assumption. simpl length. lia.
    + assert (a <=? b = true) as -> by lia. assert (b <=? a = false) as -> by lia.
      destruct (IH sa' (b :: sb') (pa ++ [a]) pb (u + 1) a b fuel) as
        [i' [j' [a' [b' [u' [Hw [Hi [Hj Hu]]]]]]]]; [simpl in *; lia | lia | assumption | assumption |].
      repeat rewrite <- app_assoc in Hw. repeat rewrite <- app_assoc in Hi.
      repeat rewrite <- app_assoc in Hj. repeat rewrite <- app_assoc in Hu.
      simpl app in Hw, Hi, Hj, Hu.
      rewrite !mv_len_snoc in Hw.
      exists i', j', a', b', u'. split; [exact Hw|].
      split; [exact Hi|]. split; [exact Hj|].
      rewrite Hu. unfold union_count. rewrite (inter_lt a sa' b sb') by assumption. simpl length. lia.
    + assert (a <=? b = false) as -> by lia. assert (b <=? a = true) as -> by lia.
      destruct (IH (a :: sa') sb' pa (pb ++ [b]) (u + 1) a b fuel) as
        [i' [j' [a' [b' [u' [Hw [Hi [Hj Hu]]]]]]]]; [simpl in *; lia | lia | assumption | assumption |].
      repeat rewrite <- app_assoc in Hw. repeat rewrite <- app_assoc in Hi.
      repeat rewrite <- app_assoc in Hj. repeat rewrite <- app_assoc in Hu.
      simpl app in Hw, Hi, Hj, Hu.
      rewrite !mv_len_snoc in Hw.
      exists i', j', a', b', u'. split; [exact Hw|].
      split; [exact Hi|]. split; [exact Hj|].
      rewrite Hu. unfold union_count. rewrite (inter_gt a sa' b sb') by assumption. simpl length. lia.
Qed.


Theorem c_jaccarddist_counts fuel A B :
  sorted A -> sorted B -> (length A + length B <= fuel)%nat ->
  c_jaccarddist fuel A B = Ok (ratio_f32 (symdiff_count A B) (union_count A B)).
Proof.
  intros HA HB Hf. unfold c_jaccarddist.
  destruct (loop_spec (length A + length B) A B [] [] 0 0 0 fuel) as
    [i' [j' [a' [b' [u' [Hw [Hi [Hj Hu]]]]]]]]; [lia | lia | assumption | assumption |].
  simpl app in Hw, Hi, Hj, Hu. change (mv_len (@nil Z)) with 0 in Hw.
  rewrite Hw. cbn [bind finish].
  assert (Hu' : u' + (mv_len A - i') + (mv_len B - j') = union_count A B) by lia.
  rewrite Hu'. unfold ratio_f32.
  destruct (union_count A B =? 0) eqn:E; [reflexivity|].
  cbn [finish]. do 3 f_equal. unfold symdiff_count, union_count, mv_len. lia.
Qed.

Lemma counts_bounds A B : sorted A -> sorted B ->
  0 <= inter_count A B /\ inter_count A B <= Z.of_nat (length A) /\
  inter_count A B <= Z.of_nat (length B) /\
  0 <= symdiff_count A B <= union_count A B /\
  union_count A B <= Z.of_nat (length A) + Z.of_nat (length B).
Proof.
  intros HA HB. pose proof (inter_bounds A B). pose proof (inter_bounds B A).
  rewrite (inter_count_sym B A) in * by assumption.
  unfold union_count, symdiff_count. lia.
Qed.

Lemma union_count_sym A B : sorted A -> sorted B ->
  union_count A B = union_count B A /\ symdiff_count A B = symdiff_count B A.
Proof.
  intros HA HB. unfold union_count, symdiff_count. rewrite (inter_count_sym A B) by assumption. lia.
Qed.
