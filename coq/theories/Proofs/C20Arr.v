(** C20: the (values, bounds) representation. [enc k d l] is the canonical representation of the
    list of signatures [l]; every well-formed collection is one, construction, integer lookup,
    index-array gathering and the contiguous fast path stay inside this form. *)
From Coq Require Import ZArith List Bool Lia ZifyBool Sorted.
From GV Require Import Spec.C20 Model.C20 Proofs.C20Lists Proofs.C20Slice.
Import ListNotations.
Open Scope Z_scope.

(* [sig] and [list Z] are convertible but distinct atoms for lia *)
Ltac slia := try unfold sig in *; lia.

Definition enc (k d : Z) (l : list sig) : sigarr :=
  mk_sigarr (concat l) (cumb 0 (map zlen l)) k d.

(** representation invariant (boolean): bounds is non-empty, starts at 0, is non-decreasing and
    ends at len(values) *)
Fixpoint chain (b : Z) (bs : list Z) (total : Z) : bool :=
  match bs with
  | [] => b =? total
  | b1 :: r => (b <=? b1) && chain b1 r total
  end.
Definition wf_arr (sa : sigarr) : bool :=
  match sa_bounds sa with
  | [] => false
  | b0 :: bs => (b0 =? 0) && chain b0 bs (zlen (sa_values sa))
  end.

(** abstraction function: signature i is values[bounds[i]:bounds[i+1]] *)
Fixpoint cuts (b0 : Z) (bs : list Z) (vals : list Z) : list sig :=
  match bs with
  | [] => []
  | b1 :: r => firstn (Z.to_nat (b1 - b0)) (skipn (Z.to_nat b0) vals) :: cuts b1 r vals
  end.
Definition arr_content (sa : sigarr) : list sig :=
  match sa_bounds sa with [] => [] | b0 :: bs => cuts b0 bs (sa_values sa) end.

Lemma chain_cuts bs : forall b0 vals, 0 <= b0 -> chain b0 bs (zlen vals) = true ->
  skipn (Z.to_nat b0) vals = concat (cuts b0 bs vals) /\
  b0 :: bs = cumb b0 (map zlen (cuts b0 bs vals)).
Proof.
  induction bs as [|b1 r IH]; intros b0 vals H0 Hc; cbn in Hc.
  - cbn. split; [|reflexivity]. apply skipn_all2. unfold zlen in Hc. slia.
  - apply andb_prop in Hc. destruct Hc as [Hle Hc].
    destruct (IH b1 vals ltac:(slia) Hc) as [IH1 IH2].
    assert (Hb1 : b1 <= zlen vals).
    { clear - Hc H0 Hle. revert b1 Hc Hle. induction r as [|b2 r IHr]; intros b1 Hc Hle; cbn in Hc; [slia|].
      apply andb_prop in Hc. destruct Hc as [H1 H2]. specialize (IHr b2 H2). slia. }
    cbn [cuts concat map cumb]. split.
    + rewrite <- IH1.
      replace (Z.to_nat b1) with (Z.to_nat (b1 - b0) + Z.to_nat b0)%nat by slia.
      rewrite (Nat.add_comm (Z.to_nat (b1 - b0))), skipn_plus. now rewrite firstn_skipn.
    + f_equal. rewrite IH2 at 1. f_equal.
      unfold zlen at 1. rewrite firstn_length, skipn_length. unfold zlen in Hb1. slia.
Qed.

(** every well-formed (values, bounds) pair is the canonical form of its content *)
Lemma wf_enc sa : wf_arr sa = true -> sa = enc (sa_kspec sa) (sa_dtype sa) (arr_content sa).
Proof.
  unfold wf_arr, arr_content, enc. destruct sa as [vals bounds k d]. cbn.
  destruct bounds as [|b0 bs]; [discriminate|]. intros H. apply andb_prop in H. destruct H as [H0 Hc].
  assert (b0 = 0) by slia. subst b0.
  destruct (chain_cuts bs 0 vals ltac:(slia) Hc) as [H1 H2]. cbn in H1. now rewrite <- H1, <- H2.
Qed.

Lemma chain_cumb lens : forall b, Forall (fun x => 0 <= x) lens ->
  match cumb b lens with [] => false | b0 :: bs => chain b0 bs (b + sumz lens) end = true.
Proof.
  induction lens as [|x r IH]; intros b Hl; cbn; [slia|].
  inversion Hl; subst. specialize (IH (b + x) ltac:(assumption)).
  destruct (cumb (b + x) r) as [|b1 bs] eqn:E; [discriminate|].
  assert (b1 = b + x). { destruct r; cbn in E; inversion E; reflexivity. }
  subst b1. cbn in IH |- *. fold (sumz r). replace (b + (x + sumz r)) with (b + x + sumz r) by slia. rewrite IH.
  apply andb_true_intro. split; [apply Z.leb_le; slia|reflexivity].
Qed.

Lemma wf_arr_enc k d l : wf_arr (enc k d l) = true.
Proof.
  unfold wf_arr, enc. cbn [sa_bounds sa_values].
  pose proof (chain_cumb (map zlen l) 0 (lens_nonneg l)) as H.
  destruct (cumb 0 (map zlen l)) as [|b0 bs] eqn:E; [discriminate|].
  assert (b0 = 0). { destruct (map zlen l); cbn in E; inversion E; reflexivity. }
  subst. rewrite zlen_concat. cbn in H |- *. exact H.
Qed.

Lemma sa_len_enc k d l : sa_len (enc k d l) = zlen l.
Proof. unfold sa_len, enc. cbn [sa_bounds]. rewrite zlen_cumb, zlen_map. unfold sig. slia. Qed.

Lemma cuts_cumb (l : list sig) : forall (pre : list Z),
  cuts (zlen pre) (tl (cumb (zlen pre) (map zlen l))) (pre ++ concat l) = l.
Proof.
  induction l as [|x r IH]; intros pre; [reflexivity|].
  cbn [map cumb tl concat].
  assert (E : cumb (zlen pre + zlen x) (map zlen r) = (zlen pre + zlen x) :: tl (cumb (zlen pre + zlen x) (map zlen r))).
  { destruct (map zlen r); reflexivity. }
  rewrite E. cbn [cuts]. f_equal.
  - replace (Z.to_nat (zlen pre)) with (length pre) by (unfold zlen; slia).
    replace (Z.to_nat (zlen pre + zlen x - zlen pre)) with (length x) by (unfold zlen; slia).
    rewrite skipn_app, skipn_all, Nat.sub_diag. cbn [skipn app].
    rewrite firstn_app, firstn_all, Nat.sub_diag. cbn. now rewrite app_nil_r.
  - specialize (IH (pre ++ x)). rewrite zlen_app, <- app_assoc in IH. exact IH.
Qed.

Lemma arr_content_enc k d l : arr_content (enc k d l) = l.
Proof.
  unfold arr_content, enc. cbn [sa_bounds sa_values].
  pose proof (cuts_cumb l []) as H. cbn [app] in H. change (zlen (@nil Z)) with 0 in H.
  destruct (cumb 0 (map zlen l)) as [|b0 bs] eqn:E.
  - destruct (map zlen l); discriminate.
  - assert (b0 = 0). { destruct (map zlen l); cbn in E; inversion E; reflexivity. }
    subst. exact H.
Qed.

(** ** integer lookup *)

Lemma split_at {A} (l : list A) (i : nat) (d : A) : (i < length l)%nat ->
  l = firstn i l ++ [nth i l d] ++ skipn (S i) l.
Proof.
  revert i. induction l as [|x l IH]; intros i Hi; [cbn in Hi; slia|].
  destruct i as [|i]; cbn; [reflexivity|]. f_equal. apply IH. cbn in Hi. slia.
Qed.

Lemma firstn_S_nth {A} (l : list A) (i : nat) (d : A) : (i < length l)%nat ->
  firstn (S i) l = firstn i l ++ [nth i l d].
Proof.
  revert i. induction l as [|x l IH]; intros i Hi; [cbn in Hi; slia|].
  destruct i as [|i]; cbn; [reflexivity|]. f_equal. apply IH. cbn in Hi. slia.
Qed.

Lemma bounds_at k d l i : 0 <= i <= zlen l ->
  pyget (sa_bounds (enc k d l)) i = Some (zlen (concat (firstn (Z.to_nat i) l))).
Proof.
  intros H. cbn [enc sa_bounds]. rewrite cumb_pyget by (rewrite zlen_map; slia).
  rewrite zlen_concat, firstn_map. f_equal.
Qed.

Lemma getitem_int_enc k d l i : 0 <= i < zlen l ->
  sa_getitem_int (enc k d l) i = Ok (znth l i).
Proof.
  intros H. unfold sa_getitem_int. rewrite !bounds_at by slia. cbn [of_opt rbind].
  f_equal. cbn [enc sa_values].
  assert (Hi : (Z.to_nat i < length l)%nat) by (unfold zlen in H; slia).
  replace (Z.to_nat (i + 1)) with (S (Z.to_nat i)) by slia.
  rewrite (firstn_S_nth l _ [] Hi), concat_app, zlen_app. cbn [concat]. rewrite app_nil_r.
  rewrite (split_at l _ [] Hi) at 1. rewrite !concat_app. cbn [concat]. rewrite app_nil_r.
  unfold znth. apply py_slice_app3.
Qed.

Lemma sizeof_enc k d l i : 0 <= i < zlen l ->
  sa_sizeof (enc k d l) i = Ok (zlen (znth l i)).
Proof.
  intros H. unfold sa_sizeof. rewrite sa_len_enc, check_index_in by slia.
  rewrite !bounds_at by slia. cbn [of_opt rbind]. f_equal.
  assert (Hi : (Z.to_nat i < length l)%nat) by (unfold zlen in H; slia).
  replace (Z.to_nat (i + 1)) with (S (Z.to_nat i)) by slia.
  rewrite (firstn_S_nth l _ [] Hi), concat_app, zlen_app. cbn [concat]. rewrite app_nil_r.
  unfold znth. slia.
Qed.

(** ** allocation and the copy loop *)

Lemma uninit_ok (srcs : list sig) k d :
  uninit (map zlen srcs) k d =
  Ok (mk_sigarr (repeat 0 (Z.to_nat (sumz (map zlen srcs)))) (cumb 0 (map zlen srcs)) k d).
Proof.
  unfold uninit. rewrite cumb_last. pose proof (sumz_nonneg _ (lens_nonneg srcs)).
  destruct (0 + sumz (map zlen srcs) <? 0) eqn:E; [slia|]. reflexivity.
Qed.

Lemma write_view_ok (pre s tail : list Z) :
  zlen s <= zlen tail ->
  write_view (pre ++ tail) (zlen pre) (zlen pre + zlen s) s = Ok (pre ++ s ++ skipn (length s) tail).
Proof.
  intros H. unfold write_view. pose proof (zlen_nonneg pre). pose proof (zlen_nonneg s).
  rewrite !adjust1_id by (rewrite zlen_app; slia).
  replace (Z.max 0 (zlen pre + zlen s - zlen pre)) with (zlen s) by slia.
  rewrite Z.eqb_refl. f_equal. unfold zfirstn, zskipn.
  replace (Z.to_nat (zlen pre)) with (length pre) by (unfold zlen; slia).
  replace (Z.to_nat (zlen pre + zlen s)) with (length pre + length s)%nat by (unfold zlen; slia).
  rewrite firstn_app, firstn_all, Nat.sub_diag. cbn [firstn]. rewrite app_nil_r.
  rewrite skipn_app, skipn_all2 by slia. cbn [app].
  now replace (length pre + length s - length pre)%nat with (length s) by slia.
Qed.

Lemma fill_ok {X} (src : X -> res sig) (f : X -> sig) (all : list sig) :
  forall xs done tail,
  (forall x, In x xs -> src x = Ok (f x)) ->
  all = done ++ map f xs ->
  zlen tail = sumz (map zlen (map f xs)) ->
  fill_from src (cumb 0 (map zlen all)) (zlen done) (concat done ++ tail) xs = Ok (concat all).
Proof.
  induction xs as [|x r IH]; intros done tail Hsrc Hall Htail.
  - cbn in *. rewrite app_nil_r in Hall. subst all. f_equal.
    assert (tail = []) by (destruct tail; [reflexivity|cbn in Htail; unfold zlen in Htail; cbn in Htail; slia]).
    subst. now rewrite app_nil_r.
  - cbn [fill_from]. rewrite (Hsrc x (or_introl eq_refl)). cbn [rbind].
    assert (Hlen : zlen all = zlen done + zlen (map f (x :: r))) by (subst all; apply zlen_app).
    pose proof (zlen_nonneg done) as Hd. pose proof (zlen_nonneg r) as Hr.
    rewrite zlen_map, zlen_cons in Hlen.
    rewrite !cumb_pyget by (rewrite zlen_map; slia). cbn [of_opt rbind].
    assert (E0 : firstn (Z.to_nat (zlen done)) (map zlen all) = map zlen done).
    { subst all. rewrite map_app. replace (Z.to_nat (zlen done)) with (length (map zlen done))
        by (rewrite map_length; unfold zlen; slia).
      rewrite firstn_app, firstn_all, Nat.sub_diag. cbn. now rewrite app_nil_r. }
    assert (E1 : firstn (Z.to_nat (zlen done + 1)) (map zlen all) = map zlen done ++ [zlen (f x)]).
    { subst all. cbn [map]. rewrite map_app. cbn [map].
      replace (Z.to_nat (zlen done + 1)) with (length (map zlen done) + 1)%nat
        by (rewrite map_length; unfold zlen; slia).
      rewrite firstn_app_2. cbn. reflexivity. }
    rewrite E0, E1, sumz_app. cbn [sumz fold_right]. rewrite <- zlen_concat.
    replace (0 + zlen (concat done)) with (zlen (concat done)) by slia.
    replace (0 + (zlen (concat done) + (zlen (f x) + 0))) with (zlen (concat done) + zlen (f x)) by slia.
    cbn [map sumz fold_right] in Htail. fold (sumz (map zlen (map f r))) in Htail.
    pose proof (sumz_nonneg _ (lens_nonneg (map f r))) as Hnn.
    rewrite write_view_ok by slia. cbn [rbind].
    specialize (IH (done ++ [f x]) (skipn (length (f x)) tail)).
    rewrite zlen_app in IH. change (zlen [f x]) with 1 in IH.
    rewrite concat_app in IH. cbn [concat] in IH. rewrite app_nil_r in IH.
    rewrite <- (app_assoc (concat done) (f x)) in IH.
    apply IH.
    + intros y Hy. apply Hsrc. now right.
    + subst all. rewrite <- app_assoc. reflexivity.
    + unfold zlen at 1. rewrite skipn_length. clear IH. unfold zlen in *. slia.
Qed.

Lemma fill_enc {X} (src : X -> res sig) (f : X -> sig) (xs : list X) k d :
  (forall x, In x xs -> src x = Ok (f x)) ->
  rbind (uninit (map zlen (map f xs)) k d) (fun out =>
  rbind (fill_from src (sa_bounds out) 0 (sa_values out) xs) (fun vals =>
  Ok (mk_sigarr vals (sa_bounds out) k d))) = Ok (enc k d (map f xs)).
Proof.
  intros Hsrc. rewrite uninit_ok. cbn [rbind sa_bounds sa_values].
  pose proof (fill_ok src f (map f xs) xs [] (repeat 0 (Z.to_nat (sumz (map zlen (map f xs))))) Hsrc eq_refl) as H.
  cbn [concat app] in H. change (zlen (@nil sig)) with 0 in H. rewrite H; [reflexivity|].
  unfold zlen at 1. rewrite repeat_length. pose proof (sumz_nonneg _ (lens_nonneg (map f xs))). slia.
Qed.

(** SignatureArray.__init__ builds the canonical form *)
Lemma sa_of_list_enc k d l : sa_of_list k d l = Ok (enc k d l).
Proof.
  unfold sa_of_list.
  pose proof (fill_enc (fun s : sig => Ok s) (fun s => s) l k d (fun _ _ => eq_refl)) as H.
  rewrite map_id in H. exact H.
Qed.

Lemma mapM_ok {A B} (g : A -> res B) (f : A -> B) l :
  (forall x, In x l -> g x = Ok (f x)) -> mapM g l = Ok (map f l).
Proof.
  induction l as [|x r IH]; intros H; [reflexivity|]. cbn.
  rewrite (H x (or_introl eq_refl)), IH; [reflexivity|]. intros y Hy. apply H. now right.
Qed.

(** _getitem_int_array with checked, converted indices gathers exactly those signatures *)
Lemma int_array_enc k d l idxs : Forall (fun i => 0 <= i < zlen l) idxs ->
  sa_getitem_int_array (enc k d l) idxs = Ok (enc k d (map (znth l) idxs)).
Proof.
  intros Hall. rewrite Forall_forall in Hall. unfold sa_getitem_int_array.
  rewrite (mapM_ok _ (fun i => zlen (znth l i))) by (intros x Hx; apply sizeof_enc; auto).
  cbn [rbind]. rewrite <- map_map.
  apply (fill_enc (sa_getitem_int (enc k d l)) (znth l) idxs).
  intros x Hx. apply getitem_int_enc. auto.
Qed.

(** the contiguous fast path (views of values, rebased bounds) *)
Lemma fast_path_enc k d l start stop : 0 <= start -> start < stop -> stop <= zlen l ->
  rbind (of_opt (pyget (sa_bounds (enc k d l)) start)) (fun b0 =>
  rbind (of_opt (pyget (sa_bounds (enc k d l)) stop)) (fun b1 =>
  Ok (mk_sigarr (py_slice (sa_values (enc k d l)) b0 b1)
                (map (fun x => x - b0) (py_slice (sa_bounds (enc k d l)) start (stop + 1)))
                k d)))
  = Ok (enc k d (firstn (Z.to_nat (stop - start)) (skipn (Z.to_nat start) l))).
Proof.
  intros H0 H1 H2. rewrite !bounds_at by slia. cbn [of_opt rbind]. f_equal.
  set (A := firstn (Z.to_nat start) l).
  set (B := firstn (Z.to_nat (stop - start)) (skipn (Z.to_nat start) l)).
  set (C := skipn (Z.to_nat (stop - start)) (skipn (Z.to_nat start) l)).
  assert (El : l = A ++ B ++ C).
  { unfold A, B, C. now rewrite !firstn_skipn. }
  assert (EA : firstn (Z.to_nat stop) l = A ++ B).
  { unfold A, B. replace (Z.to_nat stop) with (Z.to_nat start + Z.to_nat (stop - start))%nat by slia.
    rewrite firstn_plus. reflexivity. }
  rewrite EA. unfold enc. cbn [sa_values sa_bounds]. f_equal.
  - rewrite El at 1. rewrite !concat_app, zlen_app. apply py_slice_app3.
  - assert (Hlen : zlen (cumb 0 (map zlen l)) = zlen l + 1).
    { unfold zlen. rewrite cumb_length, map_length. slia. }
    rewrite py_slice_in by slia.
    rewrite cumb_skipn by (rewrite map_length; unfold zlen in H2; slia).
    replace (Z.to_nat (stop + 1 - start)) with (S (Z.to_nat (stop - start))) by slia.
    rewrite cumb_firstn.
    + rewrite cumb_shift. unfold A, B. rewrite zlen_concat, skipn_map, !firstn_map.
      f_equal. slia.
    + rewrite skipn_length, map_length. unfold zlen in H2. slia.
Qed.
