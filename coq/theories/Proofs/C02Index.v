(** C02: the Jaccard index  1.0 - (double) d  is exact.  The widening conversion of a finite
    binary32 is exact, and for every distance d the kernel can return for unions up to 2^24
    (d = 0 or 2^-24 <= d <= 1, a multiple of 2^-47) the binary64 subtraction does not round:
    the index equals 1 - d as a real number. *)
From Coq Require Import ZArith List Bool Lia ZifyBool Reals Lra Psatz Sorting.Sorted.
From Flocq Require Import Core.Core IEEE754.BinarySingleNaN.
From GV Require Import Base.CSem Base.F32 Gen.MetricPyx Spec.Jaccard Spec.JaccardF
  Proofs.MetricCount Proofs.MetricSets Proofs.F32Round Proofs.C02 Proofs.MetricTriangle.
Import ListNotations.
Open Scope R_scope.

Definition fexp64 := FLT_exp (-1074) 53.
Definition round64 (x : R) : R := round radix2 fexp64 ZnearestE x.

Lemma fexp64_eq : SpecFloat.fexp 53 1024 = fexp64.
Proof. reflexivity. Qed.

(** every binary32 number is a binary64 number *)
Lemma format32_format64 x : generic_format radix2 fexp32 x -> generic_format radix2 fexp64 x.
Proof.
  apply generic_inclusion_mag. intros _. unfold fexp64, fexp32, FLT_exp. lia.
Qed.

Lemma bpow128_lt_1024 : bpow radix2 128 < bpow radix2 1024.
Proof. apply bpow_lt. lia. Qed.

(** * (1) the widening conversion is exact *)
Lemma f64_of_f32_exact (x : f32) :
  is_finite x = true -> B2R (f64_of_f32 x) = B2R x /\ is_finite (f64_of_f32 x) = true.
Proof.
  destruct x as [s|s| |s m e Hb]; intros Hfin; try discriminate Hfin.
  - split; reflexivity.
  - pose proof (generic_format_B2R 24 128 (B754_finite s m e Hb)) as Hg.
    pose proof (abs_B2R_lt_emax 24 128 (B754_finite s m e Hb)) as Hlt.
    change (SpecFloat.fexp 24 128) with fexp32 in Hg.
    cbn [f64_of_f32].
    pose proof (binary_normalize_correct 53 1024 Hp64 He64 mode_NE
                  (if s then Z.neg m else Z.pos m) e false) as H.
    cbv zeta in H.
    assert (Hx : F2R (Float radix2 (if s then Z.neg m else Z.pos m) e)
                 = B2R (B754_finite s m e Hb : f32)).
    { cbn [B2R]. destruct s; reflexivity. }
    rewrite Hx in H.
    set (r := B2R (B754_finite s m e Hb : f32)) in *.
    assert (Hr : round radix2 (SpecFloat.fexp 53 1024) (round_mode mode_NE) r = r).
    { apply round_generic; [apply valid_rnd_N|]. apply format32_format64, Hg. }
    rewrite Hr in H.
    assert (Hb2 : Rlt_bool (Rabs r) (bpow radix2 1024) = true).
    { apply Rlt_bool_true. pose proof bpow128_lt_1024. lra. }
    rewrite Hb2 in H. destruct H as [H1 [H2 _]].
    split; [exact H1|exact H2].
Qed.

(** * (2) the constant 1.0 *)
Lemma format64_1 : generic_format radix2 fexp64 1.
Proof. change 1 with (bpow radix2 0). apply generic_format_bpow. unfold fexp64, FLT_exp. lia. Qed.

Lemma f64_one : B2R (f64_of_Z 1) = 1%R /\ is_finite (f64_of_Z 1) = true.
Proof.
  unfold f64_of_Z.
  pose proof (binary_normalize_correct 53 1024 Hp64 He64 mode_NE 1 0 false) as H.
  cbv zeta in H.
  assert (Hx : F2R (Float radix2 1 0) = 1) by (unfold F2R; simpl; lra).
  rewrite Hx in H.
  assert (Hr : round radix2 (SpecFloat.fexp 53 1024) (round_mode mode_NE) 1 = 1).
  { apply round_generic; [apply valid_rnd_N|]. exact format64_1. }
  rewrite Hr in H.
  assert (Hb : Rlt_bool (Rabs 1) (bpow radix2 1024) = true).
  { apply Rlt_bool_true. rewrite Rabs_pos_eq by lra.
    change 1 with (bpow radix2 0). apply bpow_lt. lia. }
  rewrite Hb in H. destruct H as [H1 [H2 _]].
  split; [exact H1|exact H2].
Qed.

(** * (3) 1 - d is a binary64 number *)

(** a binary32 number that is at least 2^-24 is an integer multiple of 2^-47 *)
Lemma format32_fix47 x : bpow radix2 (-24) <= x -> generic_format radix2 fexp32 x ->
  exists k : Z, x = IZR k * bpow radix2 (-47).
Proof.
  intros Hx Hg.
  assert (Hf : generic_format radix2 (FIX_exp (-47)) x).
  { apply generic_inclusion_ge with (e1 := (-24)%Z) (fexp1 := fexp32).
    - intros e He. unfold FIX_exp, fexp32, FLT_exp. lia.
    - rewrite Rabs_pos_eq; [exact Hx|].
      apply Rle_trans with (bpow radix2 (-24)); [apply bpow_ge_0|exact Hx].
    - exact Hg. }
  apply FIX_format_generic in Hf. destruct Hf as [[k e] Hk He].
  cbn [Fexp] in He. subst e. exists k. rewrite Hk. reflexivity.
Qed.

Lemma one_minus_format64 x :
  generic_format radix2 fexp32 x -> x = 0 \/ bpow radix2 (-24) <= x <= 1 ->
  generic_format radix2 fexp64 (1 - x).
Proof.
  intros Hg [->|[Hlo Hhi]].
  - rewrite Rminus_0_r. exact format64_1.
  - destruct (format32_fix47 x Hlo Hg) as [k Hk].
    assert (Hp : bpow radix2 (-47) = / IZR 140737488355328) by reflexivity.
    assert (Hpos : 0 < bpow radix2 (-47)) by apply bpow_gt_0.
    assert (Hx0 : 0 < x).
    { apply Rlt_le_trans with (bpow radix2 (-24)); [apply bpow_gt_0|exact Hlo]. }
    assert (Hk0 : (0 <= k)%Z).
    { apply le_IZR. destruct (Rle_or_lt 0 (IZR k)) as [|Hn]; [assumption|exfalso].
      assert (IZR k * bpow radix2 (-47) < 0) by (apply Ropp_lt_cancel; nra). lra. }
    assert (Hk1 : (k <= 140737488355328)%Z).
    { apply le_IZR. rewrite Hk, Hp in Hhi.
      apply Rmult_le_reg_r with (/ IZR 140737488355328).
      - rewrite <- Hp. exact Hpos.
      - rewrite Rinv_r by (apply not_0_IZR; lia). exact Hhi. }
    apply generic_format_FLT.
    exists (Float radix2 (140737488355328 - k) (-47)).
    + unfold F2R. cbn [Fnum Fexp]. rewrite Hk, minus_IZR, Hp. field.
    + cbn [Fnum]. rewrite Z.abs_eq by lia.
      apply Z.le_lt_trans with 140737488355328%Z; [lia|reflexivity].
    + cbn [Fexp]. lia.
Qed.

Theorem index_exact (d : f32) :
  is_finite d = true -> (B2R d = 0 \/ bpow radix2 (-24) <= B2R d <= 1)%R ->
  B2R (f64_minus (f64_of_Z 1) (f64_of_f32 d)) = (1 - B2R d)%R /\
  is_finite (f64_minus (f64_of_Z 1) (f64_of_f32 d)) = true.
Proof.
  intros Hfin Hd.
  destruct (f64_of_f32_exact d Hfin) as [Hw Hwf].
  destruct f64_one as [H1 H1f].
  unfold f64_minus.
  pose proof (Bminus_correct 53 1024 Hp64 He64 mode_NE (f64_of_Z 1) (f64_of_f32 d) H1f Hwf) as H.
  rewrite H1, Hw in H.
  assert (Hg : generic_format radix2 fexp64 (1 - B2R d)).
  { apply one_minus_format64; [|exact Hd].
    change fexp32 with (SpecFloat.fexp 24 128). apply generic_format_B2R. }
  assert (Hr : round radix2 (SpecFloat.fexp 53 1024) (round_mode mode_NE) (1 - B2R d)
               = 1 - B2R d).
  { apply round_generic; [apply valid_rnd_N|exact Hg]. }
  rewrite Hr in H.
  assert (Hb : Rlt_bool (Rabs (1 - B2R d)) (bpow radix2 1024) = true).
  { apply Rlt_bool_true.
    assert (Hp0 : 0 < bpow radix2 (-24)) by apply bpow_gt_0.
    assert (Hle : Rabs (1 - B2R d) <= 1).
    { apply Rabs_le. destruct Hd as [->|[Hlo Hhi]]; lra. }
    apply Rle_lt_trans with 1; [exact Hle|].
    change 1 with (bpow radix2 0). apply bpow_lt. lia. }
  rewrite Hb in H. destruct H as [Hv [Hf _]].
  split; [exact Hv|exact Hf].
Qed.

(** * (4) the generated kernel *)

(** the values the distance kernel can return for unions up to 2^24 *)
Lemma ratio_f32_range s u : (0 <= s <= u)%Z -> (u <= 16777216)%Z ->
  is_finite (ratio_f32 s u) = true /\
  (B2R (ratio_f32 s u) = 0 \/ bpow radix2 (-24) <= B2R (ratio_f32 s u) <= 1).
Proof.
  intros Hs Hu.
  destruct (ratio_metric_facts s u Hs ltac:(lia)) as [Hf [[_ H1] [H0 _]]].
  split; [exact Hf|].
  destruct (Z.eq_dec s 0) as [Hs0|Hs0].
  - left. apply H0, Hs0.
  - right. split; [|exact H1].
    rewrite (ratio_f32_round s u Hs Hu).
    rewrite <- (round_generic radix2 fexp32 ZnearestE (bpow radix2 (-24))) by
      (try apply valid_rnd_N; apply pow2m24_format).
    apply round32_le. apply ratio_ge_pow; lia.
Qed.

Theorem C02_index_exact_l : forall fuel A B d j,
  sorted A -> sorted B -> (length A + length B <= fuel)%nat ->
  (union_count A B <= 16777216)%Z ->
  jaccarddist fuel A B = Ok d -> jaccard fuel A B = Ok j ->
  B2R j = (1 - B2R d)%R /\ is_finite j = true.
Proof.
  intros fuel A B d j HA HB Hfuel Hu Hd Hj.
  rewrite C02_index_l, Hd in Hj. inversion Hj; subst j.
  destruct (C02_union_count_l fuel A B HA HB Hfuel) as [_ H]. rewrite H in Hd.
  inversion Hd; subst d.
  pose proof (counts_bounds A B HA HB) as [_ [_ [_ [Hs _]]]].
  destruct (ratio_f32_range (symdiff_count A B) (union_count A B) Hs Hu) as [Hf Hr].
  apply index_exact; assumption.
Qed.
