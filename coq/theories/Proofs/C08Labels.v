(** C08, part 1: labels.  Extension stripping, basename, pathlib normalisation, list-file lines. *)
From Coq Require Import ZArith List Bool Lia.
From GV Require Import Model.C08 Spec.C08.
Import ListNotations.
Open Scope Z_scope.

(* ---- extension stripping ------------------------------------------------------------------------ *)

Lemma prefixb_app : forall p t, prefixb p (p ++ t) = true.
Proof.
  intros p t. induction p as [|x p IH]; [reflexivity|]. cbn. rewrite Z.eqb_refl, IH. reflexivity.
Qed.

Definition GZ : str := [46; 103; 122].

Lemma strip_gz_hit : forall s, strip_extensions (s ++ GZ) GZIP_EXTENSIONS = s.
Proof.
  intros s. unfold GZIP_EXTENSIONS, GZ, strip_extensions, endswith, drop_last.
  rewrite rev_app_distr. cbn. apply rev_involutive.
Qed.

Lemma strip_gz_miss : forall s, endswith s GZ = false -> strip_extensions s GZIP_EXTENSIONS = s.
Proof.
  intros s H. unfold GZIP_EXTENSIONS, strip_extensions. fold GZ. rewrite H. reflexivity.
Qed.

Lemma strip_fasta_hit : forall s e, In e FASTA_EXTENSIONS -> strip_extensions (s ++ e) FASTA_EXTENSIONS = s.
Proof.
  intros s e He. unfold FASTA_EXTENSIONS in He. cbn [In] in He.
  repeat (destruct He as [He|He]; [subst e; unfold FASTA_EXTENSIONS, strip_extensions, endswith, drop_last;
            rewrite rev_app_distr; cbn; apply rev_involutive|]).
  contradiction.
Qed.

Lemma strip_fasta_miss : forall s,
  forallb (fun e => negb (endswith s e)) FASTA_EXTENSIONS = true -> strip_extensions s FASTA_EXTENSIONS = s.
Proof.
  intros s H. unfold FASTA_EXTENSIONS in *. cbn [forallb] in H.
  repeat (apply andb_prop in H; destruct H as [?H H]).
  repeat match goal with Hx : negb _ = true |- _ => apply negb_true_iff in Hx end.
  unfold strip_extensions.
  repeat match goal with Hx : endswith s _ = false |- _ => rewrite Hx; clear Hx end.
  reflexivity.
Qed.

Lemma fasta_name_not_gz : forall s e, In e FASTA_EXTENSIONS -> endswith (s ++ e) GZ = false.
Proof.
  intros s e He. unfold FASTA_EXTENSIONS in He. cbn [In] in He.
  repeat (destruct He as [He|He]; [subst e; unfold endswith, GZ; rewrite rev_app_distr; reflexivity|]).
  contradiction.
Qed.

Lemma no_seq_ext_split : forall s, no_seq_ext s = true ->
  endswith s GZ = false /\ forallb (fun e => negb (endswith s e)) FASTA_EXTENSIONS = true.
Proof.
  intros s H. unfold no_seq_ext, GZIP_EXTENSIONS in H. cbn [app] in H.
  cbn [forallb] in H. apply andb_prop in H. destruct H as [H1 H2].
  apply negb_true_iff in H1. split; [exact H1|]. unfold FASTA_EXTENSIONS. cbn [forallb]. exact H2.
Qed.

(** stem + FASTA extension (or none) + ".gz" (or nothing) is stripped to the stem *)
Lemma strip_seq_file_ext_stem : forall stem ext gz,
  fasta_ext ext -> gzip_ext gz -> (ext = [] -> no_seq_ext stem = true) ->
  strip_seq_file_ext (stem ++ ext ++ gz) = stem.
Proof.
  intros stem ext gz Hext Hgz Hstem. unfold strip_seq_file_ext.
  assert (H1 : strip_extensions (stem ++ ext ++ gz) GZIP_EXTENSIONS = stem ++ ext).
  { destruct Hgz as [Hgz|Hgz].
    - subst gz. rewrite app_nil_r. apply strip_gz_miss.
      destruct Hext as [Hext|Hext].
      + subst ext. rewrite app_nil_r. apply no_seq_ext_split. apply Hstem. reflexivity.
      + apply fasta_name_not_gz. exact Hext.
    - unfold GZIP_EXTENSIONS in Hgz. cbn [In] in Hgz. destruct Hgz as [Hgz|[]]. subst gz.
      rewrite app_assoc. apply strip_gz_hit. }
  rewrite H1. destruct Hext as [Hext|Hext].
  - subst ext. rewrite app_nil_r. apply strip_fasta_miss. apply no_seq_ext_split. apply Hstem. reflexivity.
  - apply strip_fasta_hit. exact Hext.
Qed.

(** only ONE extension of each kind is removed: "x.fa.fasta" is labelled "x.fa" *)
Example strip_once : strip_seq_file_ext [120; 46; 102; 97; 46; 102; 97; 115; 116; 97] = [120; 46; 102; 97].
Proof. reflexivity. Qed.

(* ---- basename ------------------------------------------------------------------------------------ *)

Lemma rfind_no_slash : forall s, no_slash s = true -> rfind SLASH s = -1.
Proof.
  intros s. induction s as [|x r IH]; intros H; [reflexivity|].
  cbn [no_slash forallb] in H. apply andb_prop in H. destruct H as [Hx Hr].
  apply negb_true_iff in Hx. cbn [rfind]. rewrite (IH Hr). cbn. rewrite Hx. reflexivity.
Qed.

Lemma rfind_app_slash : forall d s, no_slash s = true ->
  rfind SLASH (d ++ SLASH :: s) = Z.of_nat (length d).
Proof.
  intros d s Hs. induction d as [|x d IH].
  - cbn [app rfind length]. rewrite (rfind_no_slash s Hs). reflexivity.
  - cbn [app rfind length]. rewrite IH.
    destruct (0 <=? Z.of_nat (length d)) eqn:E; [lia|]. apply Z.leb_gt in E. lia.
Qed.

Lemma basename_no_slash : forall s, no_slash s = true -> basename s = s.
Proof. intros s H. unfold basename. rewrite (rfind_no_slash s H). reflexivity. Qed.

Lemma basename_app_slash : forall d s, no_slash s = true -> basename (d ++ SLASH :: s) = s.
Proof.
  intros d s H. unfold basename. rewrite (rfind_app_slash d s H).
  replace (Z.to_nat (Z.of_nat (length d) + 1)) with (length d + 1)%nat by lia.
  rewrite skipn_app. rewrite skipn_all2 by lia.
  replace (length d + 1 - length d)%nat with 1%nat by lia. reflexivity.
Qed.

(* ---- pathlib -------------------------------------------------------------------------------------- *)

Definition part_ok (x : str) : bool := negb (is_empty x) && negb (str_eqb x [46]).

Lemma split_on_nonempty : forall c s, split_on c s <> [].
Proof.
  intros c s. destruct s as [|x r]; cbn; [discriminate|].
  destruct (x =? c); [discriminate|]. destruct (split_on c r); discriminate.
Qed.

Lemma split_on_no_slash : forall s, no_slash s = true -> split_on SLASH s = [s].
Proof.
  intros s. induction s as [|x r IH]; intros H; [reflexivity|].
  cbn [no_slash forallb] in H. apply andb_prop in H. destruct H as [Hx Hr].
  apply negb_true_iff in Hx. cbn [split_on]. rewrite Hx, (IH Hr). reflexivity.
Qed.

Lemma split_on_app_slash : forall d s, no_slash s = true ->
  split_on SLASH (d ++ SLASH :: s) = split_on SLASH d ++ [s].
Proof.
  intros d s Hs. induction d as [|x d IH].
  - cbn [app split_on]. rewrite Z.eqb_refl, (split_on_no_slash s Hs). reflexivity.
  - cbn [app split_on]. rewrite IH. destruct (x =? SLASH); [reflexivity|].
    pose proof (split_on_nonempty SLASH d) as Hne.
    destruct (split_on SLASH d) as [|p ps]; [congruence|]. reflexivity.
Qed.

Lemma join_snoc : forall sep ys s,
  join sep (ys ++ [s]) = match ys with [] => s | _ => join sep ys ++ sep ++ s end.
Proof.
  intros sep ys s. induction ys as [|y ys IH]; [reflexivity|].
  cbn [app]. destruct ys as [|y2 ys].
  - reflexivity.
  - change (join sep (y :: (y2 :: ys) ++ [s])) with (y ++ sep ++ join sep ((y2 :: ys) ++ [s])).
    rewrite IH. change (join sep (y :: y2 :: ys)) with (y ++ sep ++ join sep (y2 :: ys)).
    rewrite <- !app_assoc. reflexivity.
Qed.

(** the components pathlib keeps do not depend on leading slashes *)
Lemma parts_slash : forall p,
  filter part_ok (split_on SLASH (SLASH :: p)) = filter part_ok (split_on SLASH p).
Proof. intros p. cbn [split_on]. rewrite Z.eqb_refl. reflexivity. Qed.

Lemma prefixb_slash : forall p, prefixb [SLASH] p = true -> exists p', p = SLASH :: p'.
Proof.
  intros p H. destruct p as [|x p']; [discriminate|]. cbn [prefixb] in H.
  rewrite andb_true_r in H. apply Z.eqb_eq in H. subst x. exists p'. reflexivity.
Qed.

Lemma is_empty_app_r : forall (a b : str), b <> [] -> is_empty (a ++ b) = false.
Proof. intros a b Hb. destruct a; [destruct b; [congruence|reflexivity]|reflexivity]. Qed.

(** what [str(Path(p))] is made of: a root and the kept components of the rest *)
Lemma path_str_shape : forall p, exists root,
  (root = [] \/ root = [SLASH] \/ root = [SLASH; SLASH]) /\
  path_str p = (let s := root ++ join [SLASH] (filter part_ok (split_on SLASH p)) in
                if is_empty s then [46] else s).
Proof.
  intros p. unfold path_str. fold part_ok.
  destruct (prefixb [SLASH] p) eqn:E1.
  - destruct (prefixb_slash p E1) as [p1 Hp1]. subst p.
    destruct (prefixb [SLASH; SLASH] (SLASH :: p1) && negb (prefixb [SLASH; SLASH; SLASH] (SLASH :: p1))) eqn:E2.
    + apply andb_prop in E2. destruct E2 as [E2 _].
      cbn [prefixb] in E2. rewrite Z.eqb_refl in E2. cbn [andb] in E2.
      destruct (prefixb_slash p1 E2) as [p2 Hp2]. subst p1.
      exists [SLASH; SLASH]. split; [auto|]. cbn [skipn]. rewrite !parts_slash. reflexivity.
    + exists [SLASH]. split; [auto|]. cbn [skipn]. rewrite parts_slash. reflexivity.
  - exists []. split; [auto|]. reflexivity.
Qed.

(** pathlib's normalisation leaves the last component of a file path alone, so the label of a
    positional argument is computed from the file's own name *)
Lemma path_str_basename : forall p name, file_name name = true ->
  (p = name \/ exists d, p = d ++ SLASH :: name) ->
  basename (path_str p) = name.
Proof.
  intros p name Hn Hp. unfold file_name in Hn.
  apply andb_prop in Hn. destruct Hn as [Hok Hns].
  assert (Hne : name <> []) by (intros ->; discriminate).
  assert (Hparts : exists ys, filter part_ok (split_on SLASH p) = ys ++ [name]).
  { destruct Hp as [Hp|[d Hp]]; subst p.
    - exists []. rewrite (split_on_no_slash name Hns). cbn [filter]. unfold part_ok. rewrite Hok. reflexivity.
    - exists (filter part_ok (split_on SLASH d)).
      rewrite (split_on_app_slash d name Hns), filter_app. cbn [filter]. unfold part_ok. rewrite Hok. reflexivity. }
  destruct Hparts as [ys Hys].
  destruct (path_str_shape p) as [root [Hroot Hstr]]. rewrite Hstr, Hys, join_snoc. cbv zeta.
  destruct ys as [|y ys].
  - rewrite is_empty_app_r by exact Hne.
    destruct Hroot as [Hr|[Hr|Hr]]; subst root.
    + apply basename_no_slash. exact Hns.
    + apply (basename_app_slash [] name Hns).
    + apply (basename_app_slash [SLASH] name Hns).
  - rewrite app_assoc. rewrite is_empty_app_r by (intros H; apply app_eq_nil in H; destruct H; congruence).
    cbn [app]. change ([SLASH] ++ name) with (SLASH :: name).
    apply basename_app_slash. exact Hns.
Qed.

(** a relative name without directory is its own path *)
Lemma path_str_name : forall name, file_name name = true -> path_str name = name.
Proof.
  intros name Hn. unfold file_name in Hn. apply andb_prop in Hn. destruct Hn as [Hok Hns].
  unfold path_str. fold part_ok.
  assert (E : prefixb [SLASH] name = false).
  { destruct name as [|x r]; [reflexivity|]. cbn [no_slash forallb] in Hns.
    apply andb_prop in Hns. destruct Hns as [Hx _]. apply negb_true_iff in Hx. cbn [prefixb]. rewrite Z.eqb_sym, Hx. reflexivity. }
  rewrite E. rewrite (split_on_no_slash name Hns). cbn [filter]. unfold part_ok. rewrite Hok.
  cbn [app join]. destruct name; [discriminate|reflexivity].
Qed.

(* ---- labels --------------------------------------------------------------------------------------- *)

Lemma get_file_id_stem : forall p stem ext gz,
  fasta_ext ext -> gzip_ext gz -> (ext = [] -> no_seq_ext stem = true) ->
  no_slash (stem ++ ext ++ gz) = true ->
  (p = stem ++ ext ++ gz \/ exists d, p = d ++ SLASH :: stem ++ ext ++ gz) ->
  get_file_id p true true = stem.
Proof.
  intros p stem ext gz He Hg Hs Hns Hp. unfold get_file_id.
  assert (Hb : basename p = stem ++ ext ++ gz).
  { destruct Hp as [Hp|[d Hp]]; subst p; [apply basename_no_slash|apply basename_app_slash]; exact Hns. }
  rewrite Hb. apply strip_seq_file_ext_stem; assumption.
Qed.

(** label of a positional argument *)
Lemma positional_label_stem : forall p stem ext gz,
  fasta_ext ext -> gzip_ext gz -> (ext = [] -> no_seq_ext stem = true) ->
  file_name (stem ++ ext ++ gz) = true ->
  (p = stem ++ ext ++ gz \/ exists d, p = d ++ SLASH :: stem ++ ext ++ gz) ->
  get_file_id (path_str p) true true = stem.
Proof.
  intros p stem ext gz He Hg Hs Hfn Hp. unfold get_file_id.
  rewrite (path_str_basename p _ Hfn Hp). apply strip_seq_file_ext_stem; assumption.
Qed.

(** where a list-file line is looked for: below the base directory, unless it is absolute *)
Lemma posix_join_relative : forall ldir line,
  prefixb [SLASH] line = false -> ldir <> [] -> endswith ldir [SLASH] = false ->
  posix_join ldir line = ldir ++ SLASH :: line.
Proof.
  intros ldir line H1 H2 H3. unfold posix_join. rewrite H1, H3.
  destruct ldir; [congruence|reflexivity].
Qed.

Lemma posix_join_absolute : forall ldir line, posix_join ldir (SLASH :: line) = SLASH :: line.
Proof. intros. unfold posix_join. cbn. reflexivity. Qed.

Lemma listfile_path_l : forall ldir line,
  (prefixb [SLASH] line = false -> ldir <> [] -> endswith ldir [SLASH] = false ->
     posix_join ldir line = ldir ++ SLASH :: line) /\
  posix_join ldir (SLASH :: line) = SLASH :: line.
Proof. intros ldir line. split; [apply posix_join_relative|apply posix_join_absolute]. Qed.

(* ---- list files ----------------------------------------------------------------------------------- *)

Lemma universal_newlines_id : forall s, forallb (fun c => negb (c =? 13)) s = true -> universal_newlines s = s.
Proof.
  intros s. induction s as [|c r IH]; intros H; [reflexivity|].
  cbn [forallb] in H. apply andb_prop in H. destruct H as [Hc Hr]. apply negb_true_iff in Hc.
  cbn [universal_newlines]. rewrite Hc, (IH Hr). reflexivity.
Qed.

Lemma split_on_no_sep : forall c s, forallb (fun x => negb (x =? c)) s = true -> split_on c s = [s].
Proof.
  intros c s. induction s as [|x r IH]; intros H; [reflexivity|].
  cbn [forallb] in H. apply andb_prop in H. destruct H as [Hx Hr]. apply negb_true_iff in Hx.
  cbn [split_on]. rewrite Hx, (IH Hr). reflexivity.
Qed.

Lemma split_on_app_sep : forall c l rest, forallb (fun x => negb (x =? c)) l = true ->
  split_on c (l ++ c :: rest) = l :: split_on c rest.
Proof.
  intros c l rest. induction l as [|x l IH]; intros H.
  - cbn [app split_on]. rewrite Z.eqb_refl. reflexivity.
  - cbn [forallb] in H. apply andb_prop in H. destruct H as [Hx Hl]. apply negb_true_iff in Hx.
    cbn [app split_on]. rewrite Hx, (IH Hl). reflexivity.
Qed.

Lemma lstrip_id : forall c r, is_space c = false -> lstrip (c :: r) = c :: r.
Proof. intros c r H. cbn [lstrip]. rewrite H. reflexivity. Qed.

Lemma strip_wf : forall l, wf_line l = true -> strip l = l.
Proof.
  intros l H. unfold wf_line in H.
  apply andb_prop in H. destruct H as [H Hlast]. apply andb_prop in H. destruct H as [H Hfirst].
  unfold strip. destruct l as [|c r]; [discriminate|]. apply negb_true_iff in Hfirst.
  rewrite (lstrip_id c r Hfirst).
  destruct (rev (c :: r)) as [|z t] eqn:E; [discriminate|]. apply negb_true_iff in Hlast.
  rewrite (lstrip_id z t Hlast). rewrite <- E. apply rev_involutive.
Qed.

Lemma wf_line_parts : forall l, wf_line l = true ->
  l <> [] /\ forallb (fun c => negb (c =? 10)) l = true /\ forallb (fun c => negb (c =? 13)) l = true.
Proof.
  intros l H. unfold wf_line in H.
  apply andb_prop in H. destruct H as [H _]. apply andb_prop in H. destruct H as [H _].
  apply andb_prop in H. destruct H as [Hne Hnl]. split; [intros ->; discriminate|].
  unfold no_newline in Hnl. rewrite forallb_forall in Hnl. split; apply forallb_forall; intros x Hx;
    specialize (Hnl x Hx); apply andb_prop in Hnl; destruct Hnl; assumption.
Qed.

Lemma lines_text_no_cr : forall ls, forallb wf_line ls = true ->
  forallb (fun c => negb (c =? 13)) (lines_text ls) = true.
Proof.
  intros ls. induction ls as [|l ls IH]; intros H; [reflexivity|].
  cbn [forallb] in H. apply andb_prop in H. destruct H as [Hl Hls].
  unfold lines_text. cbn [map concat]. rewrite <- app_assoc, forallb_app.
  destruct (wf_line_parts l Hl) as [_ [_ Hcr]]. rewrite Hcr. cbn. apply IH. exact Hls.
Qed.

(** a list file with one well-formed name per line is read back as exactly those names, in order *)
Lemma read_lines_text : forall ls, forallb wf_line ls = true -> read_lines (lines_text ls) = ls.
Proof.
  intros ls H. unfold read_lines. rewrite (universal_newlines_id _ (lines_text_no_cr ls H)).
  induction ls as [|l ls IH].
  - reflexivity.
  - cbn [forallb] in H. apply andb_prop in H. destruct H as [Hl Hls].
    destruct (wf_line_parts l Hl) as [Hne [Hlf _]].
    unfold lines_text. cbn [map concat]. rewrite <- app_assoc. cbn [app].
    rewrite (split_on_app_sep 10 l _ Hlf). cbn [map filter].
    rewrite (strip_wf l Hl). destruct l as [|c r]; [congruence|]. cbn [is_empty negb].
    f_equal. apply IH. exact Hls.
Qed.
