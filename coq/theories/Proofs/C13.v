(** C13 -- proofs about Model/C13.v: the executor branch of [calc_file_signatures] returns the
    in-file-order list (or re-raises a file's exception) for EVERY completion order. *)
From Coq Require Import ZArith List Bool Lia Permutation.
From GV Require Import Spec.C13 Model.C13.
Import ListNotations.
Open Scope Z_scope.

(** * dict / list primitives *)

Lemma dict_get_set_same : forall V (d : list (handle * V)) k v, dict_get (dict_set d k v) k = Some v.
Proof.
  intros V d k v. induction d as [|[k' v'] r IH]; cbn [dict_set dict_get].
  - now rewrite Z.eqb_refl.
  - destruct (k =? k') eqn:E; cbn [dict_get]; rewrite E; auto.
Qed.

Lemma dict_get_set_other : forall V (d : list (handle * V)) k v k', k' <> k ->
  dict_get (dict_set d k v) k' = dict_get d k'.
Proof.
  intros V d k v k' Hne. induction d as [|[k0 v0] r IH]; cbn [dict_set dict_get].
  - destruct (k' =? k) eqn:E; auto. apply Z.eqb_eq in E. contradiction.
  - destruct (k =? k0) eqn:E; cbn [dict_get].
    + apply Z.eqb_eq in E. subst k0. destruct (k' =? k) eqn:E2; auto.
      apply Z.eqb_eq in E2. contradiction.
    + destruct (k' =? k0); auto.
Qed.

Lemma list_set_ok : forall X (l : list X) i x, (i < length l)%nat ->
  exists l', list_set l i x = Some l' /\ length l' = length l /\ nth_error l' i = Some x /\
             forall k, k <> i -> nth_error l' k = nth_error l k.
Proof.
  intros X l. induction l as [|y r IH]; intros i x Hi; cbn [length] in Hi; [lia|].
  destruct i as [|i'].
  - exists (x :: r). cbn. repeat split; auto. intros k Hk. destruct k; [congruence|reflexivity].
  - destruct (IH i' x ltac:(lia)) as (r' & E & Hl & Hn & Ho).
    exists (y :: r'). cbn [list_set]. rewrite E. cbn [length nth_error]. repeat split; auto.
    intros k Hk. destruct k as [|k']; cbn [nth_error]; [reflexivity|]. apply Ho. lia.
Qed.

Lemma list_set_some_lt : forall X (l : list X) i x l', list_set l i x = Some l' -> (i < length l)%nat.
Proof.
  intros X l. induction l as [|y r IH]; intros i x l' H; cbn [list_set] in H; [destruct i; discriminate|].
  destruct i as [|i']; cbn [length]; [lia|].
  destruct (list_set r i' x) eqn:E; [|discriminate]. apply IH in E. lia.
Qed.

(** * submit phase: future_to_index maps the future of file j to j *)

Lemma submit_get_notin : forall A (ts : list (task A)) i0 f2i h, ~ In h (map fst ts) ->
  dict_get (submit_loop i0 ts f2i) h = dict_get f2i h.
Proof.
  intros A ts. induction ts as [|[h0 r0] tl IH]; intros i0 f2i h Hn; cbn [submit_loop]; auto.
  cbn [map fst In] in Hn. rewrite IH by tauto. apply dict_get_set_other. intro; subst; tauto.
Qed.

Lemma submit_get_in : forall A (ts : list (task A)) i0 f2i j h r, NoDup (map fst ts) ->
  nth_error ts j = Some (h, r) -> dict_get (submit_loop i0 ts f2i) h = Some (i0 + j)%nat.
Proof.
  intros A ts. induction ts as [|[h0 r0] tl IH]; intros i0 f2i j h r ND Hj.
  - destruct j; discriminate.
  - cbn [map fst] in ND. inversion ND as [|x l Hnotin ND']; subst. cbn [submit_loop].
    destruct j as [|j']; cbn [nth_error] in Hj.
    + inversion Hj; subst. rewrite submit_get_notin by assumption.
      rewrite dict_get_set_same. f_equal. lia.
    + rewrite (IH (S i0) _ j' h r ND' Hj). f_equal. lia.
Qed.

Lemma in_handles_nth : forall A (ts : list (task A)) h, In h (map fst ts) ->
  exists j r, nth_error ts j = Some (h, r).
Proof.
  intros A ts h Hin. apply in_map_iff in Hin. destruct Hin as ([h' r] & Hf & Hin). cbn in Hf. subst h'.
  apply In_nth_error in Hin. destruct Hin as (j & Hj). eauto.
Qed.

Lemma submit_get_some : forall A (ts : list (task A)) h i, NoDup (map fst ts) ->
  dict_get (submit_loop 0 ts []) h = Some i -> exists r, nth_error ts i = Some (h, r).
Proof.
  intros A ts h i ND Hg. destruct (in_dec Z.eq_dec h (map fst ts)) as [Hin|Hn].
  - destruct (in_handles_nth _ ts h Hin) as (j & r & Hj).
    rewrite (submit_get_in _ ts 0 [] j h r ND Hj) in Hg. inversion Hg; subst. cbn. eauto.
  - rewrite submit_get_notin in Hg by assumption. discriminate.
Qed.

Lemma handle_index_unique : forall A (ts : list (task A)) j j' h r r', NoDup (map fst ts) ->
  nth_error ts j = Some (h, r) -> nth_error ts j' = Some (h, r') -> j = j'.
Proof.
  intros A ts j j' h r r' ND H1 H2.
  pose proof (submit_get_in _ ts 0 [] j h r ND H1) as E1.
  pose proof (submit_get_in _ ts 0 [] j' h r' ND H2) as E2.
  rewrite E1 in E2. inversion E2. lia.
Qed.

(** [future.result()] of the future of file j is the outcome of file j *)
Lemma future_result_nth : forall A (ts : list (task A)) j h r, NoDup (map fst ts) ->
  nth_error ts j = Some (h, r) -> future_result ts h = Some r.
Proof.
  intros A ts. unfold future_result.
  induction ts as [|[h0 r0] tl IH]; intros j h r ND Hj; [destruct j; discriminate|].
  cbn [map fst] in ND. inversion ND as [|x l Hnotin ND']; subst. cbn [dict_get].
  destruct j as [|j']; cbn [nth_error] in Hj.
  - inversion Hj; subst. now rewrite Z.eqb_refl.
  - destruct (h =? h0) eqn:E.
    + apply Z.eqb_eq in E. subst h0. exfalso. apply Hnotin.
      apply nth_error_In in Hj. apply in_map_iff. exists (h, r). auto.
    + eapply IH; eauto.
Qed.

(** * completion phase *)

(** the exception the loop meets first when the futures are yielded in the order [sigma] *)
Fixpoint first_err {A} (ts : list (task A)) (sigma : list handle) : option Z :=
  match sigma with
  | [] => None
  | h :: rest => match future_result ts h with
                 | Some (FErr c) => Some c
                 | _ => first_err ts rest
                 end
  end.

Section Loop.
  Context {A : Type}.
  Variable ts : list (task A).
  Hypothesis ND : NoDup (map fst ts).
  Let f2i := submit_loop 0 ts [].

  (** slots of the futures already consumed ([D]) hold the signature of their own file *)
  Definition inv_done (D : list handle) (sigs : list (option A)) : Prop :=
    length sigs = length ts /\
    forall j h r, nth_error ts j = Some (h, r) -> In h D ->
      exists v, r = FOk v /\ nth_error sigs j = Some (Some v).

  (** every slot is still empty or holds the signature of its own file *)
  Definition inv_safe (sigs : list (option A)) : Prop :=
    length sigs = length ts /\
    forall j h r, nth_error ts j = Some (h, r) ->
      nth_error sigs j = Some None \/ exists v, r = FOk v /\ nth_error sigs j = Some (Some v).

  Lemma step_done : forall D sigs j h0 v sigs', inv_done D sigs ->
    nth_error ts j = Some (h0, FOk v) -> list_set sigs j (Some v) = Some sigs' ->
    inv_done (D ++ [h0]) sigs'.
  Proof.
    intros D sigs j h0 v sigs' [Hlen Hinv] Hj Hset.
    pose proof (list_set_some_lt _ _ _ _ _ Hset) as Hlt.
    destruct (list_set_ok _ sigs j (Some v) Hlt) as (l' & E & Hl & Hn & Ho).
    rewrite E in Hset. inversion Hset; subst l'. split; [lia|].
    intros j' h r Hj' Hin. destruct (Nat.eq_dec j' j) as [->|Hne].
    - rewrite Hj in Hj'. inversion Hj'; subst. eauto.
    - rewrite (Ho j' Hne). apply in_app_or in Hin. destruct Hin as [Hin|[->|[]]].
      + eapply Hinv; eauto.
      + exfalso. apply Hne. eapply handle_index_unique; eauto.
  Qed.

  Lemma step_safe : forall sigs j h0 v sigs', inv_safe sigs ->
    nth_error ts j = Some (h0, FOk v) -> list_set sigs j (Some v) = Some sigs' -> inv_safe sigs'.
  Proof.
    intros sigs j h0 v sigs' [Hlen Hinv] Hj Hset.
    pose proof (list_set_some_lt _ _ _ _ _ Hset) as Hlt.
    destruct (list_set_ok _ sigs j (Some v) Hlt) as (l' & E & Hl & Hn & Ho).
    rewrite E in Hset. inversion Hset; subst l'. split; [lia|].
    intros j' h r Hj'. destruct (Nat.eq_dec j' j) as [->|Hne].
    - rewrite Hj in Hj'. inversion Hj'; subst. right. eauto.
    - rewrite (Ho j' Hne). eapply Hinv; eauto.
  Qed.

  (** liveness + exactness: futures yielded are futures of this call *)
  Lemma complete_loop_done : forall sigma D sigs, inv_done D sigs -> incl sigma (map fst ts) ->
    match first_err ts sigma with
    | Some c => complete_loop ts f2i sigma sigs = inl (Raised c)
    | None => exists sigs', complete_loop ts f2i sigma sigs = inr sigs' /\ inv_done (D ++ sigma) sigs'
    end.
  Proof.
    induction sigma as [|h0 rest IH]; intros D sigs Hinv Hincl; cbn [first_err complete_loop].
    - exists sigs. rewrite app_nil_r. auto.
    - assert (Hin : In h0 (map fst ts)) by (apply Hincl; left; reflexivity).
      destruct (in_handles_nth _ ts h0 Hin) as (j & r0 & Hj).
      unfold f2i at 1 3. rewrite (submit_get_in _ ts 0 [] j h0 r0 ND Hj). cbn [Nat.add].
      rewrite (future_result_nth _ ts j h0 r0 ND Hj).
      destruct r0 as [v|c]; [|reflexivity].
      destruct Hinv as [Hlen Hinv0].
      destruct (list_set_ok _ sigs j (Some v)) as (sigs1 & E & _).
      { rewrite Hlen. apply nth_error_Some. congruence. }
      rewrite E.
      assert (Hinv1 : inv_done (D ++ [h0]) sigs1) by (eapply step_done; eauto; split; auto).
      specialize (IH (D ++ [h0]) sigs1 Hinv1 (fun x Hx => Hincl x (or_intror Hx))).
      fold f2i. destruct (first_err ts rest) as [c|]; auto.
      destruct IH as (sigs' & E' & Hinv'). exists sigs'. split; auto.
      now rewrite <- app_assoc in Hinv'.
  Qed.

  (** safety for an arbitrary sequence of yielded futures (dropped, repeated, foreign ones) *)
  Lemma complete_loop_safe : forall sigma sigs sigs', inv_safe sigs ->
    complete_loop ts f2i sigma sigs = inr sigs' -> inv_safe sigs'.
  Proof.
    induction sigma as [|h0 rest IH]; intros sigs sigs' Hinv H; cbn [complete_loop] in H.
    - inversion H; subst; auto.
    - destruct (dict_get f2i h0) as [i|] eqn:Eg; [|discriminate].
      destruct (submit_get_some _ ts h0 i ND Eg) as (r0 & Hi).
      rewrite (future_result_nth _ ts i h0 r0 ND Hi) in H.
      destruct r0 as [v|c]; [|discriminate].
      destruct (list_set sigs i (Some v)) as [sigs1|] eqn:E; [|discriminate].
      eapply IH; [|exact H]. eapply step_safe; eauto.
  Qed.
End Loop.

Lemma repeat_nth_error : forall X (x : X) n j, (j < n)%nat -> nth_error (repeat x n) j = Some x.
Proof.
  intros X x n. induction n as [|n IH]; intros j Hj; [lia|].
  destruct j; cbn; auto. apply IH. lia.
Qed.

(** when every slot holds the signature of its own file, the final assert passes and the list
    returned is the in-file-order list *)
Lemma all_slots_final : forall A (ts : list (task A)) (sigs : list (option A)),
  length sigs = length ts ->
  (forall j h r, nth_error ts j = Some (h, r) -> exists v, r = FOk v /\ nth_error sigs j = Some (Some v)) ->
  forallb is_some sigs = true /\ somes sigs = values (map snd ts) /\ all_ok (map snd ts) = true.
Proof.
  intros A ts. induction ts as [|[h r] tl IH]; intros sigs Hlen H.
  - destruct sigs; [cbn; auto|discriminate].
  - destruct sigs as [|s sr]; [discriminate|].
    destruct (H O h r eq_refl) as (v & -> & Hs). cbn in Hs. inversion Hs; subst s.
    destruct (IH sr) as (H1 & H2 & H3).
    + cbn in Hlen. lia.
    + intros j h' r' Hj. exact (H (S j) h' r' Hj).
    + unfold all_ok in *. cbn. rewrite H1, H2, H3. auto.
Qed.

Lemma values_in_file_order : forall A (rs : list (fres A)), all_ok rs = true -> in_file_order rs (values rs).
Proof.
  intros A rs. unfold in_file_order, all_ok. induction rs as [|[v|c] r IH]; cbn; intro H.
  - constructor.
  - constructor; auto.
  - discriminate.
Qed.

Lemma in_file_order_values : forall A (rs : list (fres A)) out, in_file_order rs out ->
  all_ok rs = true /\ out = values rs.
Proof.
  intros A rs out H. unfold in_file_order, all_ok in *. induction H as [|r s rs out Hr _ [IH1 IH2]].
  - auto.
  - subst r. cbn. rewrite IH1. subst out. auto.
Qed.

Lemma err_codes_nil_iff : forall A (rs : list (fres A)), err_codes rs = [] <-> all_ok rs = true.
Proof.
  intros A rs. unfold all_ok. induction rs as [|[v|c] r IH]; cbn; try tauto.
  split; discriminate.
Qed.

Lemma in_err_codes : forall A (rs : list (fres A)) c, In c (err_codes rs) <-> In (FErr c) rs.
Proof.
  intros A rs c. induction rs as [|[v|c'] r IH]; cbn; try tauto.
  - rewrite IH. split; [tauto|]. intros [H|H]; [discriminate|auto].
  - rewrite IH. split; intros [H|H]; auto; left; congruence.
Qed.

Lemma dict_get_in : forall V (d : list (handle * V)) k v, dict_get d k = Some v -> In (k, v) d.
Proof.
  intros V d k v. induction d as [|[k' v'] r IH]; cbn; [discriminate|].
  destruct (k =? k') eqn:E; intro H.
  - apply Z.eqb_eq in E. inversion H; subst. auto.
  - auto.
Qed.

Lemma first_err_in : forall A (ts : list (task A)) sigma c, first_err ts sigma = Some c ->
  In c (err_codes (map snd ts)).
Proof.
  intros A ts sigma c. induction sigma as [|h rest IH]; cbn [first_err]; [discriminate|].
  destruct (future_result ts h) as [[v|c']|] eqn:E; auto.
  intro H. inversion H; subst c'. apply in_err_codes. apply dict_get_in in E.
  apply in_map_iff. exists (h, FErr c). auto.
Qed.

Lemma first_err_none_all_ok : forall A (ts : list (task A)) sigma, NoDup (map fst ts) ->
  incl (map fst ts) sigma -> first_err ts sigma = None -> all_ok (map snd ts) = true.
Proof.
  intros A ts sigma ND Hincl Hfe.
  assert (Hall : forall h, In h sigma -> forall c, future_result ts h <> Some (FErr c)).
  { clear Hincl. induction sigma as [|h0 rest IH]; intros h Hin c; [destruct Hin|].
    cbn [first_err] in Hfe. destruct (future_result ts h0) as [[v|c']|] eqn:E; try discriminate;
    destruct Hin as [->|Hin]; try (rewrite E; discriminate); apply IH; auto. }
  unfold all_ok. apply forallb_forall. intros r Hr. apply in_map_iff in Hr.
  destruct Hr as ([h r'] & Hs & Hin). cbn in Hs. subst r'.
  destruct r as [v|c]; auto. exfalso.
  apply In_nth_error in Hin. destruct Hin as (j & Hj).
  apply (Hall h) with (c := c).
  - apply Hincl. apply in_map_iff. exists (h, FErr c). split; auto. eapply nth_error_In; eauto.
  - eapply future_result_nth; eauto.
Qed.

(** * the executor branch, exactly *)

Theorem run_executor_exact : forall A (ts : list (task A)) sigma,
  NoDup (map fst ts) -> incl sigma (map fst ts) -> incl (map fst ts) sigma ->
  run_executor ts sigma =
    match first_err ts sigma with Some c => Raised c | None => Done (values (map snd ts)) end.
Proof.
  intros A ts sigma ND Hi1 Hi2. unfold run_executor.
  assert (Hinv0 : inv_done ts [] (repeat None (length ts))).
  { split; [apply repeat_length|]. intros j h r _ []. }
  pose proof (complete_loop_done ts ND sigma [] _ Hinv0 Hi1) as H.
  destruct (first_err ts sigma) as [c|] eqn:Efe.
  - now rewrite H.
  - destruct H as (sigs' & E & Hlen & Hinv). rewrite E. cbn [app] in Hinv.
    destruct (all_slots_final _ ts sigs' Hlen) as (H1 & H2 & _).
    + intros j h r Hj. eapply Hinv; eauto. apply Hi2. apply in_map_iff. exists (h, r).
      split; auto. eapply nth_error_In; eauto.
    + now rewrite H1, H2.
Qed.

Lemma C13_any_order_l : forall A (ts : list (task A)) sigma,
  NoDup (map fst ts) -> Permutation sigma (map fst ts) ->
  (all_ok (map snd ts) = true -> run_executor ts sigma = Done (values (map snd ts))) /\
  (all_ok (map snd ts) = false ->
     exists c, run_executor ts sigma = Raised c /\ first_err ts sigma = Some c /\ In c (err_codes (map snd ts))).
Proof.
  intros A ts sigma ND HP.
  assert (Hi1 : incl sigma (map fst ts)) by (intros x Hx; eapply Permutation_in; eauto).
  assert (Hi2 : incl (map fst ts) sigma) by (intros x Hx; eapply Permutation_in; [apply Permutation_sym|]; eauto).
  rewrite (run_executor_exact _ ts sigma ND Hi1 Hi2).
  destruct (first_err ts sigma) as [c|] eqn:Efe; split; intro Hok.
  - apply first_err_in in Efe. apply err_codes_nil_iff in Hok. rewrite Hok in Efe. destruct Efe.
  - exists c. repeat split; auto. eapply first_err_in; eauto.
  - reflexivity.
  - rewrite (first_err_none_all_ok _ ts sigma ND Hi2 Efe) in Hok. discriminate.
Qed.

Lemma C13_executor_spec_l : forall A (ts : list (task A)) sigma,
  NoDup (map fst ts) -> Permutation sigma (map fst ts) ->
  spec_outcome (map snd ts) (run_executor ts sigma).
Proof.
  intros A ts sigma ND HP. destruct (C13_any_order_l _ ts sigma ND HP) as [H1 H2].
  destruct (all_ok (map snd ts)) eqn:E.
  - rewrite (H1 eq_refl). cbn. now apply values_in_file_order.
  - destruct (H2 eq_refl) as (c & -> & _ & Hin). exact Hin.
Qed.

(** completion order is unobservable *)
Lemma C13_order_irrelevant_l : forall A (ts : list (task A)) s1 s2,
  NoDup (map fst ts) -> Permutation s1 (map fst ts) -> Permutation s2 (map fst ts) ->
  all_ok (map snd ts) = true -> run_executor ts s1 = run_executor ts s2.
Proof.
  intros A ts s1 s2 ND P1 P2 Hok.
  destruct (C13_any_order_l _ ts s1 ND P1) as [H1 _]. destruct (C13_any_order_l _ ts s2 ND P2) as [H2 _].
  now rewrite H1, H2.
Qed.

(** whatever sequence of futures [as_completed] yields -- even one that drops, repeats or invents
    futures -- a list is returned only if it is the in-file-order list *)
Lemma C13_never_wrong_list_l : forall A (ts : list (task A)) sigma out,
  NoDup (map fst ts) -> run_executor ts sigma = Done out -> in_file_order (map snd ts) out.
Proof.
  intros A ts sigma out ND. unfold run_executor.
  destruct (complete_loop ts (submit_loop 0 ts []) sigma (repeat None (length ts))) as [o|sigs] eqn:E.
  - intro H. subst o. exfalso. revert E. generalize (repeat (@None A) (length ts)).
    induction sigma as [|h rest IH]; intros sigs0; cbn [complete_loop]; [discriminate|].
    destruct (dict_get _ h); [|discriminate]. destruct (future_result ts h) as [[v|c]|]; try discriminate.
    destruct (list_set sigs0 n (Some v)); [|discriminate]. apply IH.
  - assert (Hinv0 : inv_safe ts (repeat None (length ts))).
    { split; [apply repeat_length|]. intros j h r Hj. left. apply repeat_nth_error.
      apply nth_error_Some. congruence. }
    destruct (complete_loop_safe ts ND sigma _ sigs Hinv0 E) as [Hlen Hinv].
    destruct (forallb is_some sigs) eqn:Ef; [|discriminate]. intro H. inversion H; subst out.
    destruct (all_slots_final _ ts sigs Hlen) as (_ & H2 & H3).
    + intros j h r Hj. destruct (Hinv j h r Hj) as [Hn|Hs]; auto.
      exfalso. apply nth_error_In in Hn. rewrite forallb_forall in Ef. specialize (Ef None Hn). discriminate.
    + rewrite H2. now apply values_in_file_order.
Qed.

(** * the sequential branch *)

Fixpoint first_err_seq {A} (rs : list (fres A)) : option Z :=
  match rs with [] => None | FOk _ :: r => first_err_seq r | FErr c :: _ => Some c end.

Lemma seq_loop_exact : forall A (rs : list (fres A)) acc,
  seq_loop rs acc = match first_err_seq rs with Some c => Raised c | None => Done (acc ++ values rs) end.
Proof.
  intros A rs. induction rs as [|[v|c] r IH]; intros acc; cbn [seq_loop first_err_seq values].
  - now rewrite app_nil_r.
  - rewrite IH. destruct (first_err_seq r); auto. now rewrite <- app_assoc.
  - reflexivity.
Qed.

Lemma first_err_seq_spec : forall A (rs : list (fres A)),
  match first_err_seq rs with
  | Some c => all_ok rs = false /\ In c (err_codes rs)
  | None => all_ok rs = true
  end.
Proof.
  intros A rs. unfold all_ok. induction rs as [|[v|c] r IH]; cbn; auto.
  all: try (destruct (first_err_seq r); cbn; tauto).
Qed.

Lemma C13_sequential_l : forall A (rs : list (fres A)),
  run_sequential rs = match first_err_seq rs with Some c => Raised c | None => Done (values rs) end /\
  spec_outcome rs (run_sequential rs).
Proof.
  intros A rs. unfold run_sequential. rewrite seq_loop_exact. cbn [app]. split; auto.
  pose proof (first_err_seq_spec _ rs) as H. destruct (first_err_seq rs); cbn.
  - tauto.
  - now apply values_in_file_order.
Qed.

(** * all modes *)

Lemma C13_all_modes_l : forall A c supplied (ts : list (task A)) sigma,
  NoDup (map fst ts) -> Permutation sigma (map fst ts) -> (supplied = true \/ c <> COther) ->
  let o := calc_file_signatures c supplied ts sigma in
  spec_outcome (map snd ts) o /\
  (all_ok (map snd ts) = true -> o = Done (values (map snd ts))) /\
  (all_ok (map snd ts) = false -> exists e, o = Raised e /\ In e (err_codes (map snd ts))).
Proof.
  intros A c supplied ts sigma ND HP Hmode. cbv zeta.
  assert (Hdet : forall o, spec_outcome (map snd ts) o ->
     spec_outcome (map snd ts) o /\
     (all_ok (map snd ts) = true -> o = Done (values (map snd ts))) /\
     (all_ok (map snd ts) = false -> exists e, o = Raised e /\ In e (err_codes (map snd ts)))).
  { intros o Ho. split; auto. destruct o as [out|e| | | |]; cbn in Ho; try contradiction.
    - apply in_file_order_values in Ho. destruct Ho as [Hok ->]. split; auto. rewrite Hok. discriminate.
    - split; [|eauto]. intro Hok. apply err_codes_nil_iff in Hok. rewrite Hok in Ho. destruct Ho. }
  apply Hdet. unfold calc_file_signatures.
  destruct supplied; [now apply C13_executor_spec_l|].
  destruct c; try (now apply C13_executor_spec_l).
  - apply C13_sequential_l.
  - destruct Hmode as [H|H]; [discriminate|congruence].
Qed.

(** * worker pools: any worker count, any durations *)

Lemma insert_by_time_perm : forall x l, Permutation (insert_by_time x l) (x :: l).
Proof.
  intros x l. induction l as [|y r IH]; cbn [insert_by_time]; auto.
  destruct (Nat.leb (fst x) (fst y)); auto.
  eapply perm_trans; [apply perm_skip, IH|apply perm_swap].
Qed.

Lemma sort_by_time_perm : forall l, Permutation (sort_by_time l) l.
Proof.
  induction l as [|x r IH]; cbn [sort_by_time]; auto.
  eapply perm_trans; [apply insert_by_time_perm|auto].
Qed.

Lemma assign_handles : forall hs free durs, map snd (assign free hs durs) = hs.
Proof.
  induction hs as [|h r IH]; intros free durs; cbn [assign map snd]; auto. now rewrite IH.
Qed.

Lemma pool_order_perm : forall w durs hs, Permutation (pool_order w durs hs) hs.
Proof.
  intros w durs hs. unfold pool_order.
  eapply perm_trans; [apply Permutation_map, sort_by_time_perm|]. now rewrite assign_handles.
Qed.

Lemma C13_worker_pool_l : forall A c supplied (ts : list (task A)) w durs,
  NoDup (map fst ts) -> (supplied = true \/ c <> COther) ->
  let o := calc_file_signatures c supplied ts (pool_order w durs (map fst ts)) in
  (all_ok (map snd ts) = true -> o = Done (values (map snd ts))) /\
  (all_ok (map snd ts) = false -> exists e, o = Raised e /\ In e (err_codes (map snd ts))).
Proof.
  intros A c supplied ts w durs ND Hmode.
  apply (C13_all_modes_l A c supplied ts _ ND (pool_order_perm w durs (map fst ts)) Hmode).
Qed.

(** * the completion-order collector is wrong *)

Lemma C13_completion_order_collector_refuted_l :
  exists (ts : list (task Z)) (sigma : list handle),
    NoDup (map fst ts) /\ Permutation sigma (map fst ts) /\ all_ok (map snd ts) = true /\
    sigma = pool_order 2 [5%nat; 1%nat] (map fst ts) /\
    run_append_as_completed ts sigma = Done [20; 10] /\
    run_executor ts sigma = Done [10; 20] /\
    ~ spec_outcome (map snd ts) (run_append_as_completed ts sigma).
Proof.
  exists [(7, FOk 10); (3, FOk 20)], [3; 7].
  split; [|split; [|split; [|split; [|split; [|split]]]]]; try reflexivity.
  - repeat constructor; cbn; intuition discriminate.
  - apply perm_swap.
  - vm_compute. intro H. inversion H as [|? ? ? ? E _]. discriminate.
Qed.

(** * non-vacuity *)

Example ex_skewed_pool : pool_order 2 [9%nat; 1%nat; 1%nat; 1%nat] [100; 101; 102; 103] = [101; 102; 103; 100].
Proof. reflexivity. Qed.

Example ex_run_skewed :
  run_executor [(100, FOk 1); (101, FOk 2); (102, FOk 3); (103, FOk 4)] [101; 102; 103; 100] = Done [1; 2; 3; 4].
Proof. reflexivity. Qed.

Example ex_run_bad_file :
  run_executor [(100, FOk 1); (101, FErr 3); (102, FErr 4)] [102; 100; 101] = Raised 4 /\
  run_executor [(100, FOk 1); (101, FErr 3); (102, FErr 4)] [100; 101; 102] = Raised 3 /\
  run_sequential [FOk 1; FErr 3; FErr 4] = Raised (A := Z) 3.
Proof. repeat split. Qed.

(** the hypotheses matter: an [as_completed] that drops a future trips the assert, an executor
    that hands out the same future twice does too *)
Example ex_dropped_future : run_executor [(100, FOk 1); (101, FOk 2)] [101] = AssertFailed.
Proof. reflexivity. Qed.
Example ex_reused_future : run_executor [(100, FOk 1); (100, FOk 2)] [100] = AssertFailed.
Proof. reflexivity. Qed.
