(** C06, end to end: the model of calc_file_signature (open by content, universal newlines,
    FastaIterator, calc_signature with one shared accumulator) returns, for every way of writing a
    genome -- per-contig orientation, contig order, letter case, line width, line ending, final
    newline, gzip or not -- the specification set of the contig list. *)
From Coq Require Import ZArith List Bool Lia Permutation.
From GV Require Import Base.CSem Spec.Kmers Spec.C01 Model.C01 Model.C06Fasta Model.C06Gzip Model.C06
  Proofs.C01Strand Proofs.C01 Proofs.C06Sets Proofs.C06Fasta Proofs.C06Gzip.
Import ListNotations.
Open Scope Z_scope.

Lemma map_snd_parsed (cs : list record) : map snd (map parsed cs) = map snd cs.
Proof. rewrite map_map. reflexivity. Qed.

Theorem C06_text_l dense k p (contigs contigs' : list record) w crlf fnl :
  (1 <= k)%nat -> p <> [] -> acgt p -> (1 <= w)%nat ->
  forallb wf_contig contigs' = true ->
  Forall bytes (map snd contigs) -> Forall bytes (map snd contigs') ->
  same_content (map snd contigs) (map snd contigs') ->
  text_signature dense (Z.of_nat k) p (render_fasta w crlf fnl contigs') =
    FOk (signature_spec k p (map snd contigs), dtype_spec k).
Proof.
  intros Hk Hne Hp Hw Hwf Hb Hb' Hc. unfold text_signature.
  rewrite C06_wrapping_l by assumption. rewrite map_snd_parsed.
  destruct (C06_calc_signature_l dense dense k p _ _ Hk Hne Hp Hb Hb' Hc) as [E1 E2].
  rewrite E1, E2. reflexivity.
Qed.

Section File.
  Variable gzip : list Z -> list Z.
  Variable gunzip : list Z -> option (list Z).
  Hypothesis gunzip_gzip : forall x, gunzip (gzip x) = Some x.
  Hypothesis gzip_magic : forall x, is_gzip_magic (gzip x) = true.

  Definition pack (gz : bool) (x : list Z) : list Z := if gz then gzip x else x.

  Lemma open_pack gz w crlf fnl contigs :
    open_auto gunzip (pack gz (render_fasta w crlf fnl contigs)) = Some (render_fasta w crlf fnl contigs).
  Proof.
    destruct gz; cbn [pack].
    - now apply C06_gzip_l.
    - apply C06_plain_l. apply render_not_magic.
  Qed.

  Theorem C06_file_l dense k p (contigs contigs' : list record) w crlf fnl gz :
    (1 <= k)%nat -> p <> [] -> acgt p -> (1 <= w)%nat ->
    forallb wf_contig contigs' = true ->
    Forall bytes (map snd contigs) -> Forall bytes (map snd contigs') ->
    same_content (map snd contigs) (map snd contigs') ->
    file_signature gunzip dense (Z.of_nat k) p (pack gz (render_fasta w crlf fnl contigs')) =
      FOk (signature_spec k p (map snd contigs), dtype_spec k).
  Proof.
    intros. unfold file_signature. rewrite open_pack. now apply C06_text_l.
  Qed.
End File.

(** non-vacuity: two very different files of the same genome, one signature *)
Example C06_file_ex :
  let gz := fun x => 31 :: 139 :: x in
  let gunz := fun x => match x with _ :: _ :: t => Some t | _ => None end in
  let a := [65; 84; 71; 67] in let b := [110; 65; 116; 99; 99] in
  file_signature gunz false 2 [65; 84] (render_fasta 60 false true [([49], a); ([50], b)]) = FOk ([5; 9], Some 1) /\
  file_signature gunz true 2 [65; 84]
    (gz (render_fasta 1 true false [([120; 32], spec_revcomp b); ([], map lower a)])) = FOk ([5; 9], Some 1).
Proof. vm_compute. split; reflexivity. Qed.
