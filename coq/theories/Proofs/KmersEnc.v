(** Proofs about the generated encoders of [Gen/KmersPyx.v] (C07, used by C01/C06). *)
From Coq Require Import ZArith List Bool Lia.
From GV Require Import Base.CSem Base.PyConv Gen.KmersPyx Spec.Kmers.
Import ListNotations.
Open Scope Z_scope.

(** * Byte-level facts by a 256-value sweep *)

Definition fold_digit (b : Z) : option Z :=
  let n := u8 (Z.land b 223) in
  if n =? 65 then Some 0 else if n =? 67 then Some 1
  else if n =? 71 then Some 2 else if n =? 84 then Some 3 else None.

Definition bytes256 : list Z := map Z.of_nat (seq 0 256).

Lemma in_bytes256 b : 0 <= b < 256 -> In b bytes256.
Proof.
  intros H. unfold bytes256. apply in_map_iff. exists (Z.to_nat b). split; [lia|].
  apply in_seq. lia.
Qed.

Lemma sweep (P : Z -> bool) :
  forallb P bytes256 = true -> forall b, 0 <= b < 256 -> P b = true.
Proof. intros H b Hb. rewrite forallb_forall in H. apply H, in_bytes256, Hb. Qed.

Definition opt_eqb (x y : option Z) : bool :=
  match x, y with Some a, Some b => a =? b | None, None => true | _, _ => false end.
Lemma opt_eqb_eq x y : opt_eqb x y = true -> x = y.
Proof. destruct x, y; simpl; try discriminate; auto. intros H; apply Z.eqb_eq in H; congruence. Qed.

Lemma fold_digit_code b : 0 <= b < 256 -> fold_digit b = code b.
Proof.
  intros Hb. apply opt_eqb_eq.
  revert b Hb. apply sweep. vm_compute. reflexivity.
Qed.

Lemma code_range b c : code b = Some c -> 0 <= c <= 3.
Proof.
  unfold code. repeat match goal with |- context [if ?x then _ else _] => destruct x end;
    intros H; inversion H; lia.
Qed.

(** * The encoder loop *)

Lemma is_byte_range b : is_byte b = true -> 0 <= b < 256.
Proof. unfold is_byte. lia. Qed.

Lemma pow4_pos n : 0 < 4 ^ Z.of_nat n.
Proof. apply Z.pow_pos_nonneg; lia. Qed.

Lemma pow4_S n : 4 ^ Z.of_nat (S n) = 4 * 4 ^ Z.of_nat n.
Proof. rewrite Nat2Z.inj_succ, Z.pow_succ_r; lia. Qed.

Lemma pow4_mono a b : (a <= b)%nat -> 4 ^ Z.of_nat a <= 4 ^ Z.of_nat b.
Proof. intros. apply Z.pow_le_mono_r; lia. Qed.

Lemma pow4_32 : 4 ^ Z.of_nat 32 = 18446744073709551616.
Proof. reflexivity. Qed.

Lemma u64_small z : 0 <= z < 18446744073709551616 -> u64 z = z.
Proof. intros. unfold u64. apply Z.mod_small. lia. Qed.

(** one iteration of the forward encoder on byte [b] *)
Lemma enc_body_step kmer i b exc idx k nuc :
  mv_get kmer i = Some b -> 0 <= b < 256 ->
  0 <= idx -> idx * 4 + 3 < 18446744073709551616 ->
  c_kmer_to_index_loop1_body kmer i (exc, idx, k, nuc) =
    match code b with
    | Some c => Go (exc, idx * 4 + c, k, u8 (Z.land b 223))
    | None => Ret (0, true)
    end.
Proof.
  intros Hget Hb Hidx Hlt.
  unfold c_kmer_to_index_loop1_body. rewrite Hget.
  rewrite <- (fold_digit_code b Hb). unfold fold_digit.
  assert (Hs : u64 (Z.shiftl idx 2) = idx * 4).
  { rewrite Z.shiftl_mul_pow2 by lia. change (2 ^ 2) with 4. apply u64_small. lia. }
  rewrite Hs.
  destruct (u8 (Z.land b 223) =? 65); [rewrite u64_small by lia; f_equal; f_equal; f_equal; lia|].
  destruct (u8 (Z.land b 223) =? 67); [rewrite u64_small by lia; reflexivity|].
  destruct (u8 (Z.land b 223) =? 71); [rewrite u64_small by lia; reflexivity|].
  destruct (u8 (Z.land b 223) =? 84); [rewrite u64_small by lia; reflexivity|].
  reflexivity.
Qed.

Lemma pos_value_bound ds : Forall (fun d => 0 <= d <= 3) ds -> 0 <= pos_value ds < 4 ^ Z.of_nat (length ds).
Proof.
  induction 1 as [|d t Hd Ht IH]; simpl pos_value; simpl length.
  - simpl. lia.
  - rewrite pow4_S. pose proof (pow4_pos (length t)). nia.
Qed.

Lemma codes_range w ds : codes w = Some ds -> Forall (fun d => 0 <= d <= 3) ds /\ length ds = length w.
Proof.
  revert ds. induction w as [|b t IH]; simpl; intros ds H.
  - inversion H. split; constructor.
  - destruct (code b) eqn:Eb; [|discriminate]. destruct (codes t) eqn:Et; [|discriminate].
    inversion H; subst. destruct (IH l eq_refl) as [H1 H2]. split.
    + constructor; [eapply code_range; eauto|auto].
    + simpl. congruence.
Qed.

(** the loop over a suffix, started after [pre] *)
Lemma enc_loop suf : forall pre exc idx k nuc,
  Forall (fun b => 0 <= b < 256) suf ->
  0 <= idx < 4 ^ Z.of_nat (length pre) ->
  (length pre + length suf <= 32)%nat ->
  exists nuc',
  for_range_from (length suf) (mv_len pre) (c_kmer_to_index_loop1_body (pre ++ suf)) (exc, idx, k, nuc) =
    match codes suf with
    | Some ds => Go (exc, idx * 4 ^ Z.of_nat (length suf) + pos_value ds, k, nuc')
    | None => Ret (0, true)
    end.
Proof.
  induction suf as [|b t IH]; intros pre exc idx k nuc Hbytes Hidx Hlen.
  - exists nuc. simpl. f_equal. f_equal. f_equal. f_equal. lia.
  - inversion Hbytes as [|? ? Hb Ht]; subst.
    cbn [for_range_from length].
    assert (Hp : 4 ^ Z.of_nat (length pre) <= 4 ^ Z.of_nat 31).
    { apply pow4_mono. simpl in Hlen. lia. }
    change (4 ^ Z.of_nat 31) with 4611686018427387904 in Hp.
    rewrite (enc_body_step (pre ++ b :: t) (mv_len pre) b) by
      (try apply mv_get_app_r; lia).
    cbn [codes]. destruct (code b) as [c|] eqn:Ec; [|exists nuc; reflexivity].
    pose proof (code_range _ _ Ec) as Hc.
    specialize (IH (pre ++ [b]) exc (idx * 4 + c) k (u8 (Z.land b 223)) Ht).
    rewrite app_length in IH. simpl length in IH.
    rewrite Nat.add_1_r, pow4_S in IH.
    destruct IH as [nuc' IH]; [lia | simpl in Hlen; lia |].
    exists nuc'.
    replace (mv_len pre + 1) with (mv_len (pre ++ [b])) by (unfold mv_len; rewrite app_length; simpl; lia).
    rewrite <- app_assoc in IH. simpl app in IH. rewrite IH.
    destruct (codes t) as [ds|] eqn:Et; [|reflexivity].
    destruct (codes_range _ _ Et) as [_ Hl].
    f_equal. f_equal. f_equal. f_equal.
    cbn [pos_value]. rewrite Hl, pow4_S. ring.
Qed.

Theorem c_kmer_to_index_spec w exc :
  Forall (fun b => 0 <= b < 256) w -> (length w <= 32)%nat ->
  c_kmer_to_index w exc =
    match codes w with
    | Some ds => Ok (pos_value ds, exc)
    | None => Ok (0, true)
    end.
Proof.
  intros Hb Hl. unfold c_kmer_to_index, for_range, mv_len. rewrite Nat2Z.id.
  destruct (enc_loop w [] exc 0 (Z.of_nat (length w)) 0 Hb) as [nuc' H]; [simpl; lia | simpl; lia |].
  simpl app in H. change (mv_len []) with 0 in H. rewrite H.
  destruct (codes w); reflexivity.
Qed.

Theorem kmer_to_index_spec w :
  Forall (fun b => 0 <= b < 256) w ->
  kmer_to_index w = match spec_encode w with Some v => Ok v | None => Error ValueError end.
Proof.
  intros Hb. unfold kmer_to_index, spec_encode, mv_len.
  destruct (Z.of_nat (length w) >? 32) eqn:E.
  - assert (Z.of_nat (length w) <=? 32 = false) as -> by lia. reflexivity.
  - assert (Z.of_nat (length w) <=? 32 = true) as -> by lia.
    cbn [bind]. rewrite c_kmer_to_index_spec by (auto; lia).
    destruct (codes w); reflexivity.
Qed.
