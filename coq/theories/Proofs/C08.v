(** C08: the command-line level.  The three input channels produce [map] of a per-input row
    function; context-freeness, order and channel independence follow. *)
From Coq Require Import ZArith List Bool Lia Permutation.
From GV Require Import Model.C08 Spec.C08 Proofs.C08Rows Proofs.C08Labels.
Import ListNotations.
Open Scope Z_scope.

Lemma zip_strict_map_l : forall {X Y} (f : X -> Y) (l : list X),
  zip_strict (map f l) l = Some (map (fun x => (f x, x)) l).
Proof.
  intros X Y f l. induction l as [|x l IH]; [reflexivity|]. cbn. rewrite IH. reflexivity.
Qed.

Lemma zip_strict_length : forall {X Y} (a : list X) (b : list Y),
  zip_strict a b = if (length a =? length b)%nat then Some (combine a b) else None.
Proof.
  intros X Y a. induction a as [|x a IH]; intros b; destruct b as [|y b]; try reflexivity.
  cbn. rewrite IH. destruct (length a =? length b)%nat; reflexivity.
Qed.

Lemma combine_map_same : forall {X Y Z} (f : X -> Y) (g : X -> Z) (l : list X),
  combine (map f l) (map g l) = map (fun x => (f x, g x)) l.
Proof.
  intros X Y Z f g l. induction l as [|x l IH]; [reflexivity|]. cbn. rewrite IH. reflexivity.
Qed.

Lemma combine_app_eq : forall {X Y} (a1 a2 : list X) (b1 b2 : list Y), length a1 = length b1 ->
  combine (a1 ++ a2) (b1 ++ b2) = combine a1 b1 ++ combine a2 b2.
Proof.
  intros X Y a1. induction a1 as [|x a1 IH]; intros a2 b1 b2 H; destruct b1 as [|y b1]; try discriminate.
  - reflexivity.
  - cbn. rewrite IH by (cbn in H; lia). reflexivity.
Qed.

Section Cli.
  Variables Q R D C : Type.
  Variable dist : Q -> R -> D.
  Variable content : list D -> C.
  Variable refs : list R.
  Variable sig_of_file : str -> Q.

  Notation query_cmd := (query_cmd Q R D C dist content refs sig_of_file).
  Notation query_parse := (query_parse Q R D C dist content refs sig_of_file).
  Notation query := (query Q R D C dist content refs).
  Notation file_row := (file_row Q R D C dist content refs sig_of_file).
  Notation positional_row := (positional_row Q R D C dist content refs sig_of_file).
  Notation listfile_row := (listfile_row Q R D C dist content refs sig_of_file).
  Notation sig_row := (sig_row Q R D C dist content refs).

  (** labels zipped with files, signatures in file order, row i for input i *)
  Lemma query_parse_labelled : forall X cs (label path : X -> str) (l : list X),
    chunk_ok cs = true -> l <> [] ->
    query_parse cs (map path l) (Some (map label l))
      = QOk (map (fun x => file_row (label x) (path x)) l).
  Proof.
    intros X cs label path l Hcs Hne. unfold query_parse.
    rewrite zip_strict_length, !map_length, Nat.eqb_refl. cbn [option_map].
    rewrite combine_map_same, map_map. cbn [fst snd].
    rewrite query_rows_l.
    - rewrite map_map, combine_map_same, map_map. reflexivity.
    - exact Hcs.
    - destruct l; [congruence|discriminate].
    - rewrite !map_length. reflexivity.
  Qed.

  (** a wrong number of labels is an error, never a shifted labelling *)
  Lemma query_parse_mismatch : forall cs labels files,
    length labels <> length files -> query_parse cs files (Some labels) = QErr ZipStrict.
  Proof.
    intros cs labels files H. unfold query_parse. rewrite zip_strict_length.
    destruct (length labels =? length files)%nat eqn:E; [apply Nat.eqb_eq in E; congruence|reflexivity].
  Qed.

  Lemma cli_positional_l : forall cs files ldir,
    chunk_ok cs = true -> files <> [] ->
    query_cmd cs files None ldir None = QOk (map positional_row files).
  Proof.
    intros cs files ldir Hcs Hne. unfold query_cmd.
    destruct files as [|f fs] eqn:E; [congruence|]. rewrite <- E in *.
    replace (is_empty files) with false by (rewrite E; reflexivity).
    cbn [Nat.add Nat.ltb Nat.leb Nat.eqb].
    unfold get_sequence_files. rewrite E. rewrite <- E.
    rewrite (map_map path_str (fun f => get_file_id f true true)).
    apply (query_parse_labelled str cs (fun p => get_file_id (path_str p) true true) path_str files Hcs Hne).
  Qed.

  Lemma cli_listfile_l : forall cs text ldir,
    chunk_ok cs = true -> read_lines text <> [] ->
    query_cmd cs [] (Some text) ldir None = QOk (map (listfile_row ldir) (read_lines text)).
  Proof.
    intros cs text ldir Hcs Hne. unfold query_cmd. cbn [is_empty Nat.add Nat.ltb Nat.leb Nat.eqb].
    unfold get_sequence_files.
    apply (query_parse_labelled str cs (fun l => get_file_id l true true)
             (fun l => path_str (posix_join ldir l)) (read_lines text) Hcs Hne).
  Qed.

  (** an empty list file is refused *)
  Lemma cli_listfile_empty_l : forall cs text ldir,
    read_lines text = [] -> query_cmd cs [] (Some text) ldir None = QErr NoQueries.
  Proof.
    intros cs text ldir H. unfold query_cmd. cbn [is_empty Nat.add Nat.ltb Nat.leb Nat.eqb].
    unfold get_sequence_files. rewrite H. reflexivity.
  Qed.

  Lemma cli_sigfile_l : forall cs ids sigs ldir,
    chunk_ok cs = true -> sigs <> [] -> length ids = length sigs ->
    query_cmd cs [] None ldir (Some (ids, sigs)) = QOk (map sig_row (combine ids sigs)).
  Proof.
    intros cs ids sigs ldir Hcs Hne Hlen. unfold query_cmd. cbn [is_empty Nat.add Nat.ltb Nat.leb Nat.eqb].
    rewrite query_rows_l.
    - f_equal. clear Hne. revert sigs Hlen. induction ids as [|i ids IH]; intros sigs Hlen; [reflexivity|].
      destruct sigs as [|s sigs]; [discriminate|]. cbn [map combine]. rewrite IH by (cbn in Hlen; lia). reflexivity.
    - exact Hcs.
    - exact Hne.
    - rewrite map_length. exact Hlen.
  Qed.

  (** exactly one of GENOMES, -l, -s *)
  Lemma cli_usage_l : forall cs files listfile ldir sigfile,
    let given := ((if is_empty files then 0 else 1) + (match listfile with Some _ => 1 | None => 0 end)
                  + (match sigfile with Some _ => 1 | None => 0 end))%nat in
    (given = 0%nat -> query_cmd cs files listfile ldir sigfile = QErr UsageRequired) /\
    ((1 < given)%nat -> query_cmd cs files listfile ldir sigfile = QErr UsageExclusive).
  Proof.
    intros cs files listfile ldir sigfile given. unfold query_cmd. fold given. split; intros H.
    - rewrite H. reflexivity.
    - apply Nat.ltb_lt in H. rewrite H. reflexivity.
  Qed.

  (* ---- consequences of "rows = map f inputs" ------------------------------------------------------ *)

  (** a genome's row inside any batch, at any position, is its row when queried alone *)
  Lemma context_free_positional_l : forall cs ldir pre g post,
    chunk_ok cs = true ->
    exists rp r rq,
      query_cmd cs (pre ++ g :: post) None ldir None = QOk (rp ++ r :: rq) /\
      length rp = length pre /\ length rq = length post /\
      query_cmd cs [g] None ldir None = QOk [r].
  Proof.
    intros cs ldir pre g post Hcs.
    exists (map positional_row pre), (positional_row g), (map positional_row post).
    rewrite !cli_positional_l; try exact Hcs; try discriminate.
    - rewrite map_app. cbn [map]. rewrite !map_length. auto.
    - destruct pre; discriminate.
  Qed.

  Lemma context_free_query_l : forall I cs (qp : list Q) q qq (ip : list I) i iq,
    chunk_ok cs = true -> length ip = length qp -> length iq = length qq ->
    exists rp r rq,
      query cs (qp ++ q :: qq) (ip ++ i :: iq) = QOk (rp ++ r :: rq) /\
      length rp = length qp /\ length rq = length qq /\
      query cs [q] [i] = QOk [r].
  Proof.
    intros I cs qp q qq ip i iq Hcs H1 H2.
    exists (map (row_of Q R D C I dist content refs) (combine ip qp)), (i, content (map (dist q) refs)),
           (map (row_of Q R D C I dist content refs) (combine iq qq)).
    assert (E1 : query cs (qp ++ q :: qq) (ip ++ i :: iq)
                 = QOk (map (row_of Q R D C I dist content refs) (combine (ip ++ i :: iq) (qp ++ q :: qq)))).
    { apply query_rows_l; [exact Hcs| destruct qp; discriminate | rewrite !app_length; cbn [length]; lia]. }
    assert (E2 : query cs [q] [i] = QOk (map (row_of Q R D C I dist content refs) (combine [i] [q]))).
    { apply query_rows_l; [exact Hcs| discriminate | reflexivity]. }
    rewrite E1, E2. rewrite combine_app_eq by exact H1. rewrite map_app. cbn [combine map].
    rewrite !map_length, !combine_length. repeat split; lia.
  Qed.

  (** reordering the batch reorders the rows and changes nothing else *)
  Lemma permutation_positional_l : forall cs ldir b1 b2,
    chunk_ok cs = true -> b1 <> [] -> Permutation b1 b2 ->
    exists r1 r2, query_cmd cs b1 None ldir None = QOk r1 /\ query_cmd cs b2 None ldir None = QOk r2 /\
                  Permutation r1 r2 /\
                  (forall k, nth_error r2 k = option_map positional_row (nth_error b2 k)).
  Proof.
    intros cs ldir b1 b2 Hcs Hne Hp.
    exists (map positional_row b1), (map positional_row b2).
    rewrite !cli_positional_l; try exact Hcs; try exact Hne.
    - repeat split; [apply Permutation_map; exact Hp|]. intros k. apply nth_error_map.
    - intros ->. apply Permutation_sym, Permutation_nil in Hp. congruence.
  Qed.

  (** the same genome through the three channels: same content *)
  Lemma channels_l : forall cs ldir ldir2 p line id s,
    chunk_ok cs = true -> wf_line line = true ->
    sig_of_file (path_str p) = s -> sig_of_file (path_str (posix_join ldir2 line)) = s ->
    exists i1 i2 i3 c,
      query_cmd cs [p] None ldir None = QOk [(i1, c)] /\
      query_cmd cs [] (Some (lines_text [line])) ldir2 None = QOk [(i2, c)] /\
      query_cmd cs [] None ldir (Some ([id], [s])) = QOk [(i3, c)] /\
      c = content (map (dist s) refs) /\ qi_label i3 = id /\ qi_label i2 = get_file_id line true true.
  Proof.
    intros cs ldir ldir2 p line id s Hcs Hwf H1 H2.
    assert (Hrl : read_lines (lines_text [line]) = [line]).
    { apply read_lines_text. cbn [forallb]. rewrite Hwf. reflexivity. }
    do 3 eexists. exists (content (map (dist s) refs)).
    rewrite cli_positional_l by (try exact Hcs; discriminate).
    rewrite cli_listfile_l by (try exact Hcs; rewrite Hrl; discriminate).
    rewrite cli_sigfile_l by (try exact Hcs; try discriminate; reflexivity).
    rewrite Hrl. cbn [map combine]. unfold positional_row, listfile_row, file_row, sig_row. cbn [fst snd].
    rewrite H1, H2. repeat split.
  Qed.
End Cli.

(* ---- non-vacuity ---------------------------------------------------------------------------------- *)

(** "dir/sub/GCF_1.fna.gz" is labelled "GCF_1" *)
Example label_example :
  get_file_id (path_str [100;47;47;46;47;71;67;70;95;49;46;102;110;97;46;103;122]) true true = [71;67;70;95;49].
Proof. reflexivity. Qed.

Example wf_line_example : wf_line [115;117;98;47;97;32;98;46;102;97] = true.
Proof. reflexivity. Qed.

(** a concrete batch through the model: chunk size 2 over 5 references, two inputs *)
Example rows_example :
  query Z Z (Z * Z) (list (Z * Z)) (fun q r => (q, r)) (fun ds => ds) [0; 1; 2; 3; 4] (Some 2) [7; 9] [100; 200]
  = QOk [ (100, [(7,0); (7,1); (7,2); (7,3); (7,4)]); (200, [(9,0); (9,1); (9,2); (9,3); (9,4)]) ].
Proof. reflexivity. Qed.

(** what the theorems exclude: reading the rows back with the wrong index pairs an input with
    another genome's distances *)
Example shifted_rows_differ :
  exists m, jaccarddist_matrix Z Z (Z * Z) (fun q r => (q, r)) [0; 1] [7; 9] (Some 1) = QOk m /\
            read_row (Z * Z) m 1 = QOk [(9, 0); (9, 1)] /\ read_row (Z * Z) m 0 <> read_row (Z * Z) m 1.
Proof. eexists. split; [reflexivity|]. split; [reflexivity|]. discriminate. Qed.
