(** C01: the two k-mer accumulators of gambit/sigs/calc.py agree.

    - [sort_dedup] (the specification of "sorted set") is the strictly increasing enumeration of
      the elements of its argument, and such an enumeration is unique (canonicity);
    - the dense ArrayAccumulator (boolean array of length 4^k, flatnonzero) returns exactly
      [sort_dedup idxs] when every index is in [0, 4^k), and raises IndexError (OOB) otherwise;
    - [index_dtype] is the smallest of the unsigned widths 1, 2, 4, 8 bytes that holds 4^k - 1. *)
From Coq Require Import ZArith List Bool Lia ZifyBool ZifyNat Sorting.Sorted.
From GV Require Import Base.CSem Spec.C01 Model.C01.
From GV Require Import Proofs.KmersDec.
Import ListNotations.
Open Scope Z_scope.

(** * 1. sort_dedup is the strictly increasing enumeration of the elements *)

Lemma insert_dedup_In x l y : In y (insert_dedup x l) <-> y = x \/ In y l.
Proof.
  induction l as [|h t IH]; cbn [insert_dedup].
  - cbn [In]. intuition.
  - destruct (x <? h) eqn:E1.
    + cbn [In]. intuition.
    + destruct (x =? h) eqn:E2.
      * apply Z.eqb_eq in E2. subst h. cbn [In]. intuition.
      * cbn [In]. rewrite IH. intuition.
Qed.

Lemma insert_dedup_sorted x l :
  StronglySorted Z.lt l -> StronglySorted Z.lt (insert_dedup x l).
Proof.
  induction l as [|h t IH]; intros Hs; cbn [insert_dedup].
  - constructor; constructor.
  - inversion Hs as [|? ? Hs' Hf]; subst.
    destruct (x <? h) eqn:E1.
    + constructor; [assumption|]. constructor; [lia|].
      eapply Forall_impl; [|exact Hf]. cbv beta. intros z Hz. lia.
    + destruct (x =? h) eqn:E2; [assumption|].
      constructor; [auto|]. apply Forall_forall. intros y Hy.
      apply insert_dedup_In in Hy. destruct Hy as [->|Hy]; [lia|].
      rewrite Forall_forall in Hf. auto.
Qed.

Lemma sort_dedup_sorted l : StronglySorted Z.lt (sort_dedup l).
Proof.
  unfold sort_dedup. induction l as [|x t IH]; cbn [fold_right].
  - constructor.
  - now apply insert_dedup_sorted.
Qed.

Lemma sort_dedup_In l x : In x (sort_dedup l) <-> In x l.
Proof.
  unfold sort_dedup. induction l as [|h t IH]; cbn [fold_right].
  - reflexivity.
  - rewrite insert_dedup_In, IH. cbn [In]. intuition.
Qed.

(** a strictly increasing list has no duplicates *)
Lemma sorted_lt_NoDup l : StronglySorted Z.lt l -> NoDup l.
Proof.
  induction l as [|h t IH]; intros Hs.
  - constructor.
  - inversion Hs as [|? ? Hs' Hf]; subst. constructor; [|auto].
    intros Hin. rewrite Forall_forall in Hf. specialize (Hf h Hin). lia.
Qed.

Lemma sort_dedup_NoDup l : NoDup (sort_dedup l).
Proof. apply sorted_lt_NoDup, sort_dedup_sorted. Qed.

(** * 2. canonicity *)

Lemma sorted_lt_ext l : forall l',
  StronglySorted Z.lt l -> StronglySorted Z.lt l' ->
  (forall x, In x l <-> In x l') -> l = l'.
Proof.
  induction l as [|a t IH]; intros [|b t'] Hs Hs' Hin.
  - reflexivity.
  - exfalso. apply (Hin b). left. reflexivity.
  - exfalso. apply (Hin a). left. reflexivity.
  - inversion Hs as [|? ? Hst Hf]; subst. inversion Hs' as [|? ? Hst' Hf']; subst.
    rewrite Forall_forall in Hf, Hf'.
    assert (Hab : a = b).
    { assert (Ha : In a (b :: t')) by (apply Hin; left; reflexivity).
      assert (Hb : In b (a :: t)) by (apply Hin; left; reflexivity).
      cbn [In] in Ha, Hb.
      destruct Ha as [Ha|Ha]; [congruence|]. destruct Hb as [Hb|Hb]; [congruence|].
      specialize (Hf b Hb). specialize (Hf' a Ha). lia. }
    subst b. f_equal. apply IH; [assumption|assumption|].
    intros x. split; intros Hx.
    + assert (Hx' : In x (a :: t')) by (apply Hin; right; exact Hx).
      destruct Hx' as [Hx'|Hx']; [|exact Hx']. subst x. specialize (Hf a Hx). lia.
    + assert (Hx' : In x (a :: t)) by (apply Hin; right; exact Hx).
      destruct Hx' as [Hx'|Hx']; [|exact Hx']. subst x. specialize (Hf' a Hx). lia.
Qed.

Theorem sort_dedup_ext l l' : (forall x, In x l <-> In x l') -> sort_dedup l = sort_dedup l'.
Proof.
  intros H. apply sorted_lt_ext; try apply sort_dedup_sorted.
  intros x. rewrite !sort_dedup_In. apply H.
Qed.

(** any strictly increasing list with the elements of [l] is [sort_dedup l] *)
Theorem sort_dedup_unique l s :
  StronglySorted Z.lt s -> (forall x, In x s <-> In x l) -> s = sort_dedup l.
Proof.
  intros Hs H. apply sorted_lt_ext; [assumption|apply sort_dedup_sorted|].
  intros x. rewrite sort_dedup_In. apply H.
Qed.

Lemma sort_dedup_fixed s : StronglySorted Z.lt s -> sort_dedup s = s.
Proof. intros Hs. symmetry. apply sort_dedup_unique; [assumption|reflexivity]. Qed.

Lemma sort_dedup_idem l : sort_dedup (sort_dedup l) = sort_dedup l.
Proof. apply sort_dedup_fixed, sort_dedup_sorted. Qed.

Lemma sort_dedup_app_comm a b : sort_dedup (a ++ b) = sort_dedup (b ++ a).
Proof. apply sort_dedup_ext. intros x. rewrite !in_app_iff. intuition. Qed.

Lemma sort_dedup_rev l : sort_dedup (rev l) = sort_dedup l.
Proof. apply sort_dedup_ext. intros x. symmetry. apply in_rev. Qed.

(** duplicates and the order of accumulation are irrelevant *)
Lemma sort_dedup_app_dedup_l a b : sort_dedup (sort_dedup a ++ b) = sort_dedup (a ++ b).
Proof. apply sort_dedup_ext. intros x. rewrite !in_app_iff, sort_dedup_In. reflexivity. Qed.

Lemma sort_dedup_app_dedup_r a b : sort_dedup (a ++ sort_dedup b) = sort_dedup (a ++ b).
Proof. apply sort_dedup_ext. intros x. rewrite !in_app_iff, sort_dedup_In. reflexivity. Qed.

(** * 3. the dense accumulator *)

(** flatnonzero_from i arr = the positions (offset by [i]) holding [true], increasing *)
Lemma flatnonzero_In arr : forall i x,
  In x (flatnonzero_from i arr) <-> exists j : nat, x = i + Z.of_nat j /\ nth j arr false = true.
Proof.
  induction arr as [|b t IH]; intros i x; cbn [flatnonzero_from].
  - split; [intros []|]. intros [j [_ H]]. destruct j; cbn [nth] in H; discriminate.
  - split.
    + intros H.
      assert (H' : (b = true /\ x = i) \/ In x (flatnonzero_from (i + 1) t)).
      { destruct b; [|right; exact H]. cbn [In] in H. destruct H as [H|H]; [left|right]; auto. }
      destruct H' as [[Hb ->]|H'].
      * exists O. cbn [nth]. split; [lia|exact Hb].
      * apply IH in H'. destruct H' as [j [-> Hj]]. exists (S j). cbn [nth].
        split; [lia|exact Hj].
    + intros [j [-> Hj]]. destruct j as [|j]; cbn [nth] in Hj.
      * subst b. left. lia.
      * assert (H : In (i + Z.of_nat (S j)) (flatnonzero_from (i + 1) t)).
        { apply IH. exists j. split; [lia|exact Hj]. }
        destruct b; [right|]; exact H.
Qed.

Lemma flatnonzero_sorted arr : forall i, StronglySorted Z.lt (flatnonzero_from i arr).
Proof.
  induction arr as [|b t IH]; intros i; cbn [flatnonzero_from].
  - constructor.
  - destruct b; [|apply IH]. constructor; [apply IH|].
    apply Forall_forall. intros x Hx. apply flatnonzero_In in Hx.
    destruct Hx as [j [-> _]]. lia.
Qed.

(** invariant of dense_add on in-range indices *)
Lemma dense_add_spec idxs : forall arr,
  Forall (fun i => 0 <= i < mv_len arr) idxs ->
  exists arr', dense_add arr idxs = Ok arr' /\ length arr' = length arr /\
    forall m : nat, nth m arr' false = true <-> (nth m arr false = true \/ In (Z.of_nat m) idxs).
Proof.
  induction idxs as [|i t IH]; intros arr Hf; cbn [dense_add].
  - exists arr. split; [reflexivity|]. split; [reflexivity|].
    intros m. cbn [In]. intuition.
  - inversion Hf as [|? ? Hi Ht]; subst.
    destruct (mv_set_spec arr i true Hi) as [a1 [Hset [Hlen Hnth]]]. rewrite Hset.
    destruct (IH a1) as [arr' [Hd [Hl Hn]]].
    { unfold mv_len in *. rewrite Hlen. exact Ht. }
    exists arr'. split; [exact Hd|]. split; [congruence|].
    intros m. rewrite Hn, Hnth. cbn [In].
    destruct (Z.eqb_spec (Z.of_nat m) i) as [e|ne].
    + subst i. intuition.
    + intuition congruence.
Qed.

Lemma dense_add_length idxs : forall arr arr',
  dense_add arr idxs = Ok arr' -> length arr' = length arr.
Proof.
  induction idxs as [|i t IH]; intros arr arr' H; cbn [dense_add] in H.
  - inversion H. reflexivity.
  - destruct (mv_set arr i true) as [a1|] eqn:E; [|discriminate].
    rewrite (IH _ _ H). unfold mv_set in E. destruct (0 <=? i); [|discriminate].
    eapply set_nth_length; eauto.
Qed.

Theorem dense_eq_set k idxs :
  0 <= k -> Forall (fun i => 0 <= i < 4 ^ k) idxs ->
  dense_signature k idxs = Ok (sort_dedup idxs).
Proof.
  intros _ Hf. unfold dense_signature.
  set (n := Z.to_nat (4 ^ k)).
  assert (Hlen : mv_len (repeat false n) = 4 ^ k).
  { unfold mv_len. rewrite repeat_length. subst n. apply Z2Nat.id. apply Z.pow_nonneg. lia. }
  destruct (dense_add_spec idxs (repeat false n)) as [arr [Hd [_ Hn]]].
  { rewrite Hlen. exact Hf. }
  rewrite Hd. f_equal. apply sort_dedup_unique; [apply flatnonzero_sorted|].
  intros x. rewrite flatnonzero_In. split.
  - intros [j [-> Hj]]. apply Hn in Hj. destruct Hj as [Hj|Hj].
    + rewrite nth_repeat in Hj. discriminate.
    + rewrite Z.add_0_l. exact Hj.
  - intros Hx. rewrite Forall_forall in Hf. pose proof (Hf x Hx) as Hr.
    exists (Z.to_nat x). split; [lia|]. apply Hn. right.
    rewrite Z2Nat.id by lia. exact Hx.
Qed.

(** the dense and the set accumulator return the same signature *)
Corollary dense_signature_eq_set_signature k idxs :
  0 <= k -> Forall (fun i => 0 <= i < 4 ^ k) idxs ->
  dense_signature k idxs = Ok (set_signature idxs).
Proof. exact (dense_eq_set k idxs). Qed.

(** failure: an index outside the array *)
Lemma set_nth_None {A} (l : list A) : forall n v, (length l <= n)%nat -> set_nth l n v = None.
Proof.
  induction l as [|h t IH]; intros [|n] v H; cbn [set_nth length] in *; try reflexivity.
  - lia.
  - rewrite IH by lia. reflexivity.
Qed.

Lemma mv_set_None {A} (l : list A) i v : ~ (0 <= i < mv_len l) -> mv_set l i v = None.
Proof.
  unfold mv_set, mv_len. intros H. destruct (0 <=? i) eqn:E; [|reflexivity].
  apply set_nth_None. lia.
Qed.

Lemma dense_add_oob idxs : forall arr,
  Exists (fun i => ~ (0 <= i < mv_len arr)) idxs -> dense_add arr idxs = Error OOB.
Proof.
  induction idxs as [|i t IH]; intros arr H; inversion H as [? ? Hi|? ? Ht]; subst;
    cbn [dense_add].
  - rewrite mv_set_None by exact Hi. reflexivity.
  - destruct (mv_set arr i true) as [a1|] eqn:E; [|reflexivity].
    apply IH. assert (Hl : length a1 = length arr).
    { unfold mv_set in E. destruct (0 <=? i); [|discriminate]. eapply set_nth_length; eauto. }
    unfold mv_len in *. rewrite Hl. exact Ht.
Qed.

Theorem dense_oob k idxs :
  Exists (fun i => ~ (0 <= i < 4 ^ k)) idxs -> dense_signature k idxs = Error OOB.
Proof.
  intros H. unfold dense_signature. rewrite dense_add_oob; [reflexivity|].
  unfold mv_len. rewrite repeat_length.
  destruct (Z.le_gt_cases 0 (4 ^ k)) as [Hp|Hp].
  - rewrite Z2Nat.id by exact Hp. exact H.
  - eapply Exists_impl; [|exact H]. cbv beta. intros a Ha. lia.
Qed.

(** complete characterisation: success iff every index is in range *)
Theorem dense_signature_cases k idxs :
  (Forall (fun i => 0 <= i < 4 ^ k) idxs /\ dense_signature k idxs = Ok (sort_dedup idxs)) \/
  (Exists (fun i => ~ (0 <= i < 4 ^ k)) idxs /\ dense_signature k idxs = Error OOB).
Proof.
  destruct (Forall_Exists_dec (fun i => 0 <= i < 4 ^ k)) with (l := idxs) as [Hf|He].
  - intros x. destruct (Z_le_dec 0 x); destruct (Z_lt_dec x (4 ^ k)); (left; lia) || (right; lia).
  - left. split; [exact Hf|].
    destruct (Z.le_gt_cases 0 k) as [Hk|Hk]; [now apply dense_eq_set|].
    (* k < 0: 4^k = 0, so idxs = [] *)
    unfold dense_signature. rewrite Z.pow_neg_r in * by lia.
    destruct idxs as [|a t]; [reflexivity|].
    inversion Hf; subst. lia.
  - right. split; [exact He|]. now apply dense_oob.
Qed.

(** * 4. the index dtype *)

Theorem index_dtype_spec k : (1 <= k)%nat -> index_dtype (Z.of_nat k) = dtype_spec k.
Proof.
  intros _. unfold index_dtype, dtype_spec.
  destruct (Nat.leb_spec k 4); destruct (Z.leb_spec (Z.of_nat k) 4); try lia; try reflexivity.
  destruct (Nat.leb_spec k 8); destruct (Z.leb_spec (Z.of_nat k) 8); try lia; try reflexivity.
  destruct (Nat.leb_spec k 16); destruct (Z.leb_spec (Z.of_nat k) 16); try lia; try reflexivity.
  destruct (Nat.leb_spec k 32); destruct (Z.leb_spec (Z.of_nat k) 32); try lia; reflexivity.
Qed.

Lemma pow4_le_pow256 k w : 0 <= k -> 0 <= w -> (4 ^ k <= 256 ^ w <-> k <= 4 * w).
Proof.
  intros Hk Hw. change 256 with (4 ^ 4). rewrite <- Z.pow_mul_r by lia.
  symmetry. apply Z.pow_le_mono_r_iff; lia.
Qed.

Theorem dtype_smallest k w : (1 <= k <= 32)%nat -> dtype_spec k = Some w ->
  In w [1; 2; 4; 8] /\ 4 ^ Z.of_nat k <= 256 ^ w /\
  (forall w', In w' [1; 2; 4; 8] -> 4 ^ Z.of_nat k <= 256 ^ w' -> w <= w').
Proof.
  intros Hk Hw. unfold dtype_spec in Hw.
  assert (Hmin : forall w', In w' [1; 2; 4; 8] -> 4 ^ Z.of_nat k <= 256 ^ w' ->
                            Z.of_nat k <= 4 * w').
  { intros w' Hin Hle. apply pow4_le_pow256; [lia| |exact Hle].
    cbn [In] in Hin. lia. }
  assert (Hin8 : forall w', In w' [1; 2; 4; 8] -> w' = 1 \/ w' = 2 \/ w' = 4 \/ w' = 8).
  { intros w' Hin. cbn [In] in Hin. lia. }
  destruct (Nat.leb_spec k 4) as [H4|H4];
    [|destruct (Nat.leb_spec k 8) as [H8|H8];
      [|destruct (Nat.leb_spec k 16) as [H16|H16];
        [|destruct (Nat.leb_spec k 32) as [H32|H32]; [|discriminate]]]];
    inversion Hw; subst w;
    (split; [cbn [In]; lia|]);
    (split; [apply pow4_le_pow256; lia|]);
    intros w' Hin Hle; pose proof (Hmin w' Hin Hle); pose proof (Hin8 w' Hin); lia.
Qed.

(** beyond k = 32 no index type exists (and 4^k - 1 does not fit 8 bytes) *)
Lemma dtype_none k : (32 < k)%nat -> dtype_spec k = None /\ 256 ^ 8 < 4 ^ Z.of_nat k.
Proof.
  intros Hk. split.
  - unfold dtype_spec.
    destruct (Nat.leb_spec k 4); [lia|]. destruct (Nat.leb_spec k 8); [lia|].
    destruct (Nat.leb_spec k 16); [lia|]. destruct (Nat.leb_spec k 32); [lia|]. reflexivity.
  - apply Z.nle_gt. intros H. apply pow4_le_pow256 in H; lia.
Qed.
